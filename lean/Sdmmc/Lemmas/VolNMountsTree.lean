/-
Several open volumes: a volume that STAYS OPEN keeps mounting along histories (`Props/C02Multi.lean`, clause (mounts)).

`Props.C10Multi` states mounting call by call (`VolumeSafe`: the crashed medium mounts if the medium THE CALL started from
mounts); `Lemmas/VolNMounts.lean` (`MountsN`, for `Props.C16MultiClose`) chains it for ALL open volumes at once.  Here the
chaining per VOLUME HANDLE — volume records move in the table (`swap_remove`), volumes come and go —, which is what
`Props.C02Multi` needs for ONE volume that stays open:

* `KeepsVolume hv s s'`: every record of `s` carrying the handle `hv` has a successor in `s'` — same handle, same partition
  index, same geometry (the record's free count and next-free hint may differ).
* `step_keepsVolume`: every call except `close_volume hv` keeps the volume `hv` (all 24 constructors; a `close_volume` of
  ANOTHER volume moves the record in the table, an `open_volume` appends one, a call on the volume changes its counters).
* `step_disk_applyWrites`: the medium after a call is the medium before with the call's writes applied.
* `step_mounts_volume`: if the medium before the call mounts partition `idx` to the geometry of an open volume, so does the
  medium after the call (`VolNCrash.step_crash_multi` at the crash point "after the last write").
* `history_mounts_volume`: along every history WITHOUT `close_volume hv`, from `VolInvNC`, a volume with handle `hv` whose
  partition mounted at the start is open at the end — same handle, same partition index, same geometry — and the final
  medium mounts that partition to the geometry of its record.

HYPOTHESES: `VolInvNC` at the start, `CoveredNRun`, `FreshRun` (as in `Props.C10Multi`); no `close_volume hv` in the history
(syntactically: also a `close_volume hv` that would be refused is excluded — then the volume trivially stays open, but the
statement is kept simple).
-/
import Sdmmc.Lemmas.VolNCrash4
import Sdmmc.Lemmas.AbsFsTimesInv2

namespace Sdmmc.Lemmas.VolNMountsTree
open Sdmmc.Model Sdmmc.Model.Fat Sdmmc.Spec.Volume
open Sdmmc.Spec hiding run step NoFault Coherent
open Sdmmc.Props
open Sdmmc.Props.C03Multi (CoveredN CoveredNRun)
open Sdmmc.Props.C01Multi (FreshRun)
open Sdmmc.Lemmas.VolN (LabelFresh vkey)
open Sdmmc.Lemmas.MHoare

/-- Every record of `s` carrying the volume handle `hv` has a successor in `s'`: same handle, same partition index, same
geometry. -/
def KeepsVolume (hv : Nat) (s s' : Mgr) : Prop :=
  ∀ vi, vi ∈ s.vols → vi.rawVolume = hv →
    ∃ vi', vi' ∈ s'.vols ∧ vi'.rawVolume = hv ∧ vi'.idx = vi.idx ∧ SameGeom vi.vol vi'.vol

theorem keepsVolume_of_mem {hv : Nat} {s s' : Mgr} (h : ∀ vi, vi ∈ s.vols → vi.rawVolume = hv → vi ∈ s'.vols) :
    KeepsVolume hv s s' :=
  fun vi hvi e => ⟨vi, h vi hvi e, e, rfl, SameGeom.refl _⟩

/-- `close_volume v` keeps every record carrying another handle. -/
theorem closeVolume_keeps {s : Mgr} {ghs : List Ghost} (hI : VolInvN s ghs) (hm : MirrorN s ghs) (v : Nat) {w : VolInfo}
    (hw : w ∈ s.vols) (hne : w.rawVolume ≠ v) : w ∈ (closeVolume v s).2.vols := by
  unfold closeVolume
  rw [get_bind]
  by_cases hfa : (s.files.any (·.rawVolume = v)) = true
  · rw [if_pos hfa]; exact hw
  rw [if_neg hfa]
  by_cases hda : (s.dirs.any (·.rawVolume = v)) = true
  · rw [if_pos hda]; exact hw
  rw [if_neg hda]
  cases hv : s.vols.findIdx? (·.rawVolume = v) with
  | none => rw [bind_err (getVolumeById_bad hv)]; exact hw
  | some k =>
    obtain ⟨vk, hvk, hp⟩ := findIdx?_some_get hv
    rw [bind_ok (getVolumeById_ok hv)]
    obtain ⟨dev', cache', hwv, _, _⟩ := Lemmas.VolN.withVol_updateInfo_multi hI hm hvk
    rw [bind_ok hwv]
    show w ∈ swapRemove s.vols k
    have hkv : vk.rawVolume = v := by simpa using hp
    exact Lemmas.AbsFsTimes.mem_swapRemove_of_ne (fun x : VolInfo => x.rawVolume) hvk hw (by rw [hkv]; exact hne)

/-- `open_volume` keeps every record. -/
theorem openVolume_keeps (idx : Nat) (s : Mgr) {w : VolInfo} (hw : w ∈ s.vols) : w ∈ (openRawVolume idx s).2.vols := by
  obtain ⟨t, ⟨dev', cache', rfl, _, _, _⟩, hcase⟩ := Lemmas.VolApi.openRaw_good idx s
  rcases hcase with h | ⟨v, _, h⟩
  · rw [h]; exact hw
  · rw [h]
    show w ∈ s.vols ++ [_]
    exact List.mem_append_left _ hw

/-- **Every call except `close_volume hv` keeps the volume `hv`.** -/
theorem step_keepsVolume {s : Mgr} {ghs : List Ghost} (hI : VolInvN s ghs) (hm : MirrorN s ghs) (op : Op)
    (hf : LabelFresh s op) (hv : Nat) (hne : op ≠ .closeVolume hv) : KeepsVolume hv s (step s op).1 := by
  cases ht : target s op with
  | some i =>
    obtain ⟨vi, hvi⟩ := C03Multi.target_lt ht
    have hilt : i < s.vols.length := (List.getElem?_eq_some_iff.1 hvi).1
    have hiltg : i < ghs.length := by rw [hI.len]; exact hilt
    obtain ⟨gh, hgh⟩ : ∃ gh, ghs[i]? = some gh := ⟨_, List.getElem?_eq_getElem hiltg⟩
    obtain ⟨gh', hL, _, _⟩ := C03Multi.lifted_of_target hI hm op ht hvi hgh hf
    have hI' := Lemmas.VolN.volInvN_reassemble hI hvi hgh hL
    have hlen : (step s op).1.vols.length = s.vols.length := by
      have := congrArg List.length hL.volKeys
      simpa using this
    intro vj hvj e
    obtain ⟨j, hj⟩ := List.getElem?_of_mem hvj
    by_cases hji : j = i
    · subst hji
      have evj : vi = vj := Option.some.inj (hvi.symm.trans hj)
      subst evj
      obtain ⟨vi', hvi'⟩ : ∃ vi', (step s op).1.vols[j]? = some vi' :=
        ⟨_, List.getElem?_eq_getElem (by rw [hlen]; exact hilt)⟩
      have hkey : vkey vi' = vkey vi := by
        have h1 : ((step s op).1.vols.map vkey)[j]? = some (vkey vi') := by rw [List.getElem?_map, hvi']; rfl
        have h2 : (s.vols.map vkey)[j]? = some (vkey vi) := by rw [List.getElem?_map, hvi]; rfl
        rw [hL.volKeys, h2] at h1
        exact (Option.some.inj h1).symm
      have hg' : (ghs.set j gh')[j]? = some gh' := by
        rw [List.getElem?_set_self hiltg]
      have hvol' : vi'.vol = gh'.vol := hI'.vols j vi' gh' hvi' hg'
      have hvol : vi.vol = gh.vol := hI.vols j vi gh hvi hgh
      refine ⟨vi', List.mem_of_getElem? hvi', ?_, ?_, ?_⟩
      · exact (congrArg Prod.fst hkey).trans e
      · exact congrArg Prod.snd hkey
      · rw [hvol, hvol']; exact hL.geom
    · have hj' : (step s op).1.vols[j]? = some vj := by
        rw [Lemmas.VolN.getElem?_of_eraseIdx_eq hL.restVols hlen hji]
        exact hj
      exact ⟨vj, List.mem_of_getElem? hj', e, rfl, SameGeom.refl _⟩
  | none =>
    have hI0 := Lemmas.VolN.volInvN_resetLogs hI
    have hm0 : MirrorN (resetLogs s) ghs := Lemmas.VolN.mirrorN_frame hm rfl
    refine keepsVolume_of_mem fun w hw e => ?_
    have hw0 : w ∈ (resetLogs s).vols := hw
    rw [step_unlocked s op hI.unlocked]
    simp only
    cases op with
    | openVolume idx =>
      rw [show (runOp (.openVolume idx) (resetLogs s)).2 = (openRawVolume idx (resetLogs s)).2 from VolApi.map_state _ _ _]
      exact openVolume_keeps idx _ hw0
    | closeVolume v =>
      rw [show (runOp (.closeVolume v) (resetLogs s)).2 = (closeVolume v (resetLogs s)).2 from VolApi.seq_state _ _ _]
      exact closeVolume_keeps hI0 hm0 v hw0 (fun e2 => hne (by rw [← e2, e]))
    | openRoot v =>
      rw [show (runOp (.openRoot v) (resetLogs s)).2 = (openRootDir v (resetLogs s)).2 from VolApi.map_state _ _ _]
      rw [(Lemmas.VolNCrash.openRootDir_tables v (resetLogs s)).2.1]; exact hw0
    | closeDir d =>
      rw [show (runOp (.closeDir d) (resetLogs s)).2 = (closeDir d (resetLogs s)).2 from VolApi.seq_state _ _ _]
      rw [(Lemmas.VolNCrash.closeDir_tables d (resetLogs s)).2.1]; exact hw0
    | hasOpen => exact hw0
    | _ =>
      rw [Lemmas.VolN.untargeted_state hI0 _ (by exact ht) (fun _ h => by cases h) (fun _ h => by cases h)
        (fun _ h => by cases h) (fun _ h => by cases h) (fun h => by cases h)]
      exact hw0

/-- **The medium after a call is the medium before with the call's writes applied** (every call, several open volumes). -/
theorem step_disk_applyWrites {s : Mgr} {ghs : List Ghost} (hI : VolInvN s ghs) (hm : MirrorN s ghs) (op : Op) :
    ∀ b, (step s op).1.dev.disk.get b = (s.dev.disk.applyWrites (step s op).2.writes).get b := by
  cases hw : C04Multi.workTarget s op with
  | none =>
    obtain ⟨h1, h2⟩ := C04Multi.unaddressed_writes_nothing s op ghs hI hw
    intro b
    rw [h1, h2]
    rfl
  | some i =>
    obtain ⟨vi, hvi⟩ := C04Multi.workTarget_lt hw
    obtain ⟨gh, hgh⟩ : ∃ gh, ghs[i]? = some gh :=
      ⟨_, List.getElem?_eq_getElem (by rw [hI.len]; exact (List.getElem?_eq_some_iff.1 hvi).1)⟩
    obtain ⟨_, _, _, h⟩ := C04Multi.step_licensed_work s op ghs hI hm hw hvi hgh
    exact h

/-- **An open volume keeps mounting across a call**: if the medium before the call mounts partition `idx` to the geometry of
the open volume with ghost `gh`, so does the medium after the call. -/
theorem step_mounts_volume {s : Mgr} {ghs : List Ghost} (hI : VolInvNC s ghs) (op : Op) (hf : LabelFresh s op) {j : Nat}
    {vj : VolInfo} {gh : Ghost} (hvj : s.vols[j]? = some vj) (hgh : ghs[j]? = some gh) (idx : Nat) (vm : FatVolume)
    (hmnt : mountPure (s.dev.disk.get 0) idx s.dev.disk.get = .ok vm) (hsg : SameGeom vm gh.vol) :
    ∃ w, mountPure ((step s op).1.dev.disk.get 0) idx (step s op).1.dev.disk.get = .ok w ∧ SameGeom gh.vol w := by
  have hsafe := Lemmas.VolNCrash.step_crash_multi hI op hf (step s op).2.writes.length hvj hgh
  have hfun : (step s op).1.dev.disk.get = (s.dev.disk.applyWrites (step s op).2.writes).get :=
    funext (step_disk_applyWrites hI.inv hI.mirror op)
  have := hsafe.2.2 idx vm hmnt hsg
  unfold crashDisk at this
  rw [List.take_length] at this
  rw [hfun]
  exact this

/-- **A volume that stays open keeps mounting along histories.** -/
theorem history_mounts_volume : ∀ (ops : List Op) {s : Mgr} {ghs : List Ghost}, VolInvNC s ghs → CoveredNRun s ops →
    FreshRun s ops → ∀ (hv : Nat), (∀ op, op ∈ ops → op ≠ .closeVolume hv) →
    ∀ {j : Nat} {vj : VolInfo} {gh : Ghost}, s.vols[j]? = some vj → ghs[j]? = some gh → vj.rawVolume = hv →
    ∀ (vm : FatVolume), mountPure (s.dev.disk.get 0) vj.idx s.dev.disk.get = .ok vm → SameGeom vm gh.vol →
    ∃ ghs' vj' w, VolInvNC (run s ops).1 ghs' ∧ vj' ∈ (run s ops).1.vols ∧ vj'.rawVolume = hv ∧ vj'.idx = vj.idx ∧
      SameGeom vj.vol vj'.vol ∧
      mountPure ((run s ops).1.dev.disk.get 0) vj.idx (run s ops).1.dev.disk.get = .ok w ∧ SameGeom vj'.vol w
  | [], s, ghs, hI, _, _, hv, _, j, vj, gh, hvj, hgh, e, vm, hmnt, hsg =>
    ⟨ghs, vj, vm, hI, List.mem_of_getElem? hvj, e, rfl, SameGeom.refl _, hmnt, by
      rw [hI.inv.vols j vj gh hvj hgh]; exact hsg.symm⟩
  | op :: ops, s, ghs, hI, hc, hf, hv, hno, j, vj, gh, hvj, hgh, e, vm, hmnt, hsg => by
    obtain ⟨ghs1, hI1⟩ := Lemmas.VolNCrash.step_invariantNC hI op hc.1 hf.1
    obtain ⟨vj1, hvj1, e1, hidx1, hg1⟩ :=
      step_keepsVolume hI.inv hI.mirror op hf.1 hv (hno op List.mem_cons_self) vj (List.mem_of_getElem? hvj) e
    obtain ⟨w1, hw1, hsg1⟩ := step_mounts_volume hI op hf.1 hvj hgh vj.idx vm hmnt hsg
    obtain ⟨j1, hj1⟩ := List.getElem?_of_mem hvj1
    obtain ⟨gh1, hgh1⟩ : ∃ g, ghs1[j1]? = some g :=
      ⟨_, List.getElem?_eq_getElem (by rw [hI1.inv.len]; exact (List.getElem?_eq_some_iff.1 hj1).1)⟩
    have hvol : vj.vol = gh.vol := hI.inv.vols j vj gh hvj hgh
    have hvol1 : vj1.vol = gh1.vol := hI1.inv.vols j1 vj1 gh1 hj1 hgh1
    have hsgw : SameGeom w1 gh1.vol := by
      rw [← hvol1]
      rw [← hvol] at hsg1
      exact hsg1.symm.trans hg1
    obtain ⟨ghs2, vj2, w2, hI2, hm2, e2, hidx2, hg2, hw2, hsg2⟩ :=
      history_mounts_volume ops hI1 hc.2 hf.2 hv (fun o ho => hno o (List.mem_cons_of_mem _ ho)) hj1 hgh1 e1 w1
        (by rw [hidx1]; exact hw1) hsgw
    refine ⟨ghs2, vj2, w2, ?_, ?_, e2, hidx2.trans hidx1, hg1.trans hg2, ?_, hsg2⟩
    · unfold run; exact hI2
    · unfold run; exact hm2
    · unfold run; rw [← hidx1]; exact hw2

end Sdmmc.Lemmas.VolNMountsTree
