/-
Bridge `VolInv` → `Spec.Fs.fsck`, layer F3: the FAT-entry check `checkFatEntries` (F1 of the checker) finds
nothing: under `Owns` a data cluster is free (entry 0), bad (the bad mark) or lies in a chain — and then its entry
is a link into the data area or an end mark (with (H1) `NoOne` on FAT32).
-/
import Sdmmc.Lemmas.VolFsck2

namespace Sdmmc.Lemmas.VolFsck
open Sdmmc.Model Sdmmc.Model.Fat Sdmmc.Spec Sdmmc.Spec.Volume
open Sdmmc.Lemmas.VolTree Sdmmc.Lemmas.VolMed Sdmmc.Lemmas.VolBase

theorem fsIsBad_iff {v : FatVolume} {g : Fs.Geom} (hg : GeomOf v g) (x : Nat) : Fs.isBad g x = true ↔ x = badMark v.fatType := by
  unfold Fs.isBad badMark
  cases hf : g.fat32 with
  | true => rw [hg.fat32.1 hf]; simp
  | false => rw [hg.fat32_false.1 hf]; simp

/-- The entry of a data cluster is free, a link into the data area, an end mark or the bad mark. -/
theorem entry_class {v : FatVolume} {g : Fs.Geom} {d : Disk} {G : List (List Nat)} (hg : GeomOf v g) (hw : WFGeom v)
    (ho : Owns v d G) (h1 : NoOne v d) {c : Nat} (hc : InRange v c) :
    fatEntry v d c = 0 ∨ Fs.inRange g (fatEntry v d c) = true ∨ Fs.isEoc g (fatEntry v d c) = true ∨
      Fs.isBad g (fatEntry v d c) = true := by
  by_cases hfree : isFree v d c
  · exact .inl hfree
  by_cases hbad : isBad v d c
  · exact .inr (.inr (.inr ((fsIsBad_iff hg _).2 hbad)))
  have hu : isUsed v d c := ⟨hc, hfree, hbad⟩
  obtain ⟨cs, hcs, hm⟩ := List.mem_flatten.1 ((ho.2.2 c).1 hu)
  have hch := ho.1 cs hcs
  obtain ⟨k, hk, hkc⟩ := List.getElem_of_mem hm
  have hkc' : cs[k]? = some c := by rw [List.getElem?_eq_getElem hk, hkc]
  by_cases hlast : k + 1 = cs.length
  · exact .inr (.inr (.inl (isEoc_of_eof hg h1 hc (ChainL.chain_next_last hch k c hkc' hlast))))
  · have hk1 : k + 1 < cs.length := by omega
    have hy : cs[k + 1]? = some cs[k + 1] := List.getElem?_eq_getElem hk1
    have hn := ChainL.chain_next hch k c _ hkc' hy
    have hyr : InRange v cs[k + 1] := ChainL.chain_inRange hch _ (List.getElem_mem hk1)
    obtain ⟨e1, _⟩ := link_of_ok hg hw hyr hn
    rw [e1]
    exact .inr (.inl ((hg.inRange _).2 hyr))

/-- **F3.** The checker's FAT-entry clause holds. -/
theorem checkFatEntries_ok {s : Mgr} {gh : Ghost} {g : Fs.Geom} {fat : Array Nat} (hI : VolInv s gh) (hg : GeomOf gh.vol g)
    (hfat : FatIs gh.vol s.dev.disk fat) (h1 : NoOne gh.vol s.dev.disk) : Fs.checkFatEntries g fat = [] := by
  unfold Fs.checkFatEntries
  have : ((List.range g.clusters).filterMap fun i =>
      if fat.getD (i + 2) 0 = 0 ∨ Fs.inRange g (fat.getD (i + 2) 0) = true ∨ Fs.isEoc g (fat.getD (i + 2) 0) = true ∨
        Fs.isBad g (fat.getD (i + 2) 0) = true then none
      else some s!"F1-bad-fat-entry:{i + 2}:{fat.getD (i + 2) 0}") = [] := by
    rw [List.filterMap_eq_nil_iff]
    intro i hi
    have hir : InRange gh.vol (i + 2) := by
      have := List.mem_range.1 hi
      rw [hg.clusters] at this
      exact ⟨by omega, by unfold endCluster Gen.RESERVED_ENTRIES; omega⟩
    rw [hfat _ hir.2, if_pos (entry_class hg hI.med.geom hI.med.owns h1 hir)]
  exact (congrArg (List.take 3) this).trans rfl

end Sdmmc.Lemmas.VolFsck
