/-
C02 over abstract histories, part 9: the bytes of a file change only through a modification (`bytes_run`):
write, truncation, creation, deletion.  Flushing, closing, opening, reading, seeking and every call on
another slot leave them alone.
-/
import Sdmmc.Lemmas.AbsFsTimesRun

namespace Sdmmc.Lemmas.AbsFsTimes
open Sdmmc.Model Sdmmc.Spec.AbsFs Sdmmc.Lemmas.AbsFsTouch
open Sdmmc.Spec (ByteFile)

theorem bytes_ev {a a' : AbsFs} {ev : Ev} {x j : Nat} {m : Meta} {bytes : Bytes} (hA : AInv a) (hx : x ∈ a.ids)
    (hs : (a.slots x)[j]? = some (.file m bytes)) (hn : ¬ ModifiesAt a x j ev) (h : evStep a ev a') :
    ∃ m', (a'.slots x)[j]? = some (.file m' bytes) := by
  cases ev with
  | tick t => have h' : a' = { a with clock := t } := h; rw [h']; exact ⟨m, hs⟩
  | call op r =>
    have h : absStep a op (a', r) := h
    by_cases ht : touched a op = some (x, j)
    swap
    · rw [absStep_untouched h hx ht]; exact ⟨m, hs⟩
    by_cases hto : tablesOnly op = true
    · rw [(tables_shape hA.unlocked hto h).1]; exact ⟨m, hs⟩
    unfold absStep at h
    rw [if_neg (by rw [hA.unlocked]; exact Bool.false_ne_true)] at h
    cases op with
    | openFile d name mode =>
      have ht' : nameSlot a d name = some (x, j) := ht
      rcases openFileS_cases (show openFileS a d name mode a' r from h) with ⟨he, _⟩ | ⟨od, sfn, hctx, hr, hcase⟩
      · rw [he]; exact ⟨m, hs⟩
      · have hfound := nameFound_of_lookup hctx
        rcases hcase with ⟨hlk, _⟩ | ⟨i, m', b', hlk, hsl, _, hcase⟩
        · exfalso
          exact hn (.inr (.inl ⟨ht', by rw [hr]; rfl, by rw [hfound, hlk]; rfl⟩))
        · rcases hcase with ⟨htr, _⟩ | ⟨_, he⟩
          · exfalso
            exact hn (.inr (.inr (.inl ⟨ht', by rw [hr]; rfl, by rw [hfound, hlk]; rfl, htr⟩)))
          · rw [he]; exact ⟨m, hs⟩
    | write f data =>
      have ht' : handleSlot a f = some (x, j) := ht
      rcases writeS_cases (show writeS a f data a' r from h) with ⟨he, _⟩ | ⟨i, rec, m', b', k, _, _, _, _, hr, _⟩
      · rw [he]; exact ⟨m, hs⟩
      · exact absurd (.inl ⟨ht', hr⟩) hn
    | flush f =>
      have ht' : handleSlot a f = some (x, j) := ht
      have h' : (a', r) = flushF a f := h
      have h1 : a' = (flushF a f).1 := congrArg Prod.fst h'
      rw [h1]
      rcases flushF_cases (a := a) f with ⟨he, _⟩ | ⟨i, rec, m', b', hf, _, _, hsl, he⟩
      · rw [he]; exact ⟨m, hs⟩
      · rw [handleSlot_of hf] at ht'
        injection ht' with ht'
        injection ht' with e1 e2
        subst e1; subst e2
        rw [hsl] at hs
        injection hs with hs
        injection hs with _ eb
        subst eb
        rw [he]
        exact ⟨_, by rw [flushedSt_get _ _ hsl, if_pos rfl]⟩
    | closeFile f =>
      have ht' : handleSlot a f = some (x, j) := ht
      have h : closeFileS a f a' r := h
      unfold closeFileS at h
      split at h
      · obtain ⟨he, _⟩ := h; rw [he]; exact ⟨m, hs⟩
      · obtain ⟨he, _⟩ := h
        rw [he]
        show ∃ m', ((flushF a f).1.slots x)[j]? = _
        rcases flushF_cases (a := a) f with ⟨he', _⟩ | ⟨i, rec, m', b', hf, _, _, hsl, he'⟩
        · rw [he']; exact ⟨m, hs⟩
        · rw [handleSlot_of hf] at ht'
          injection ht' with ht'
          injection ht' with e1 e2
          subst e1; subst e2
          rw [hsl] at hs
          injection hs with hs
          injection hs with _ eb
          subst eb
          rw [he']
          exact ⟨_, by rw [flushedSt_get _ _ hsl, if_pos rfl]⟩
    | delete d name =>
      have ht' : nameSlot a d name = some (x, j) := ht
      rcases deleteS_cases (show deleteS a d name a' r from h) with ⟨he, _⟩ | ⟨od, sfn, i, m', b', _, _, _, _, _, hr⟩
      · rw [he]; exact ⟨m, hs⟩
      · exact absurd (.inr (.inr (.inr ⟨ht', by rw [hr]; rfl⟩))) hn
    | mkdir d name =>
      have ht' : nameSlot a d name = some (x, j) := ht
      rcases mkdirS_cases (show mkdirS a d name a' r from h) with ⟨he, _⟩ | ⟨od, sfn, c, _, _, _, _, hr⟩
      · rw [he]; exact ⟨m, hs⟩
      · exact absurd (.inr (.inr (.inr ⟨ht', by rw [hr]; rfl⟩))) hn
    | _ => exact absurd rfl hto

/-- **The bytes of a file change only through a modification.** -/
theorem bytes_run {x j : Nat} {bytes : Bytes} : ∀ {es : List Ev} {a a' : AbsFs} {m : Meta}, AInv a → x ∈ a.ids →
    (a.slots x)[j]? = some (.file m bytes) → absRunP (fun a ev => ¬ ModifiesAt a x j ev) a es a' →
    ∃ m', (a'.slots x)[j]? = some (.file m' bytes)
  | [], _, _, m, _, _, hs, h => by have e : _ = _ := h; rw [e]; exact ⟨m, hs⟩
  | _ :: _, _, _, _, hA, hx, hs, h => by
    obtain ⟨hn, a1, h1, h2⟩ := h
    obtain ⟨m1, hs1⟩ := bytes_ev hA hx hs hn h1
    exact bytes_run (ainv_ev hA h1) (ids_mono_ev hA.unlocked h1 hx) hs1 h2

/-- What a write leaves in the slot: the bytes of the model's write of a prefix of the data. -/
theorem write_bytes {a a' : AbsFs} {x j hd : Nat} {data : Bytes} {r : Res Payload}
    (hW : WritesAt a x j (.call (.write hd data) r)) (h : evStep a (.call (.write hd data) r) a') (hl : a.locked = false) :
    ∃ i f m bytes k, fileOf a hd = some (i, f) ∧ (f.dir, f.idx) = (x, j) ∧ (a.slots x)[j]? = some (.file m bytes) ∧
      k ≤ data.length ∧ (r = .ok .unit → k = data.length) ∧
      (a'.slots x)[j]? = some (.file m ((⟨bytes, f.pos⟩ : ByteFile).write (data.take k)).bytes) := by
  have h : absStep a (.write hd data) (a', r) := h
  unfold absStep at h
  rw [if_neg (by rw [hl]; exact Bool.false_ne_true)] at h
  have h : writeS a hd data a' r := h
  have hW' : handleSlot a hd = some (x, j) ∧ isEffWrite r = true := hW
  unfold writeS at h
  cases hf : fileOf a hd with
  | none => rw [hf] at h; obtain ⟨_, rfl⟩ := h; cases hW'.2
  | some p =>
    obtain ⟨i, f⟩ := p
    rw [hf] at h
    dsimp only at h
    have hpos : (f.dir, f.idx) = (x, j) := by
      have := hW'.1
      rw [handleSlot_of hf] at this
      exact Option.some.inj this
    split at h
    · obtain ⟨_, rfl⟩ := h; cases hW'.2
    · split at h
      · obtain ⟨_, rfl⟩ := h; cases hW'.2
      · obtain ⟨m, bytes, k, hsl, hk, hr, rfl⟩ := h
        injection hpos with e1 e2
        subst e1; subst e2
        refine ⟨i, f, m, bytes, k, rfl, rfl, hsl, hk, ?_, ?_⟩
        · intro e
          rcases hr with ⟨_, hk'⟩ | ⟨e', _⟩ | ⟨e', _⟩
          · exact hk'
          · rw [e] at e'; cases e'
          · rw [e] at e'; cases e'
        · exact setSlot_self _ _ _ _ (Nat.le_of_lt (lt_of_getElem?_some hsl))

/-- **A file created during the history** shows `fatRound` of the clock at its creation as creation time, its
8.3 name, attribute byte 0 (later at most the archive bit) — until it is deleted. -/
theorem created_run {x j : Nat} {a a1 a2 : AbsFs} {ev : Ev} {es : List Ev} (hA : AInv a) (hx : x ∈ a.ids)
    (hC : CreatesAt a x j ev) (hstep : evStep a ev a1)
    (hrun : absRunP (fun a ev => ¬ CreatesAt a x j ev ∧ ¬ RemovesAt a x j ev) a1 es a2) :
    ∃ m bytes, (a2.slots x)[j]? = some (.file m bytes) ∧ m.ctime = fatRound a.clock ∧
      (m.attr = 0 ∨ m.attr = Attr.setArchive 0) := by
  have hG1 := ginv_ev hA hx (ginv_ghost0 a x j) hstep
  have hA1 := ainv_ev hA hstep
  have hx1 := ids_mono_ev hA.unlocked hstep hx
  -- the ghost after the creation
  have hb : ∃ sfn, (eff a x j ev (ghost0 a x j)).born = some (fatRound a.clock, sfn, 0) := by
    cases ev with
    | tick t => exact hC.elim
    | call op r =>
      cases op with
      | openFile d name mode =>
        obtain ⟨h1, h2, h3⟩ := (show nameSlot a d name = some (x, j) ∧ isOkHandle r = true ∧ nameFound a d name = false from hC)
        cases hctx : dirCtx a d name with
        | error e => unfold nameSlot at h1; rw [hctx] at h1; cases h1
        | ok p =>
          refine ⟨p.2, ?_⟩
          show SlotG.born (if nameSlot a d name = some (x, j) ∧ isOkHandle r = true then
              (if nameFound a d name = true then _ else
                match dirCtx a d name with
                | .ok (_, sfn) => { born := some (fatRound a.clock, sfn, 0), modified := some (a.clock, true) }
                | .error _ => ghost0 a x j)
            else ghost0 a x j) = _
          rw [if_pos ⟨h1, h2⟩, h3, hctx]
          rfl
      | _ => exact hC.elim
  obtain ⟨sfn, hb⟩ := hb
  obtain ⟨m1, b1, hs1, hc1, _, hat1⟩ := hG1.born _ _ _ hb
  obtain ⟨m2, b2, hs2, hc2, _, hat2⟩ := born_run hA1 hx1 hs1 hrun
  refine ⟨m2, b2, hs2, by rw [hc2, hc1], ?_⟩
  rcases hat1 with e | e <;> rcases hat2 with e' | e'
  · left; rw [e', e]
  · right; rw [e', e]
  · right; rw [e', e]
  · right; rw [e', e, setArchive_idem]

end Sdmmc.Lemmas.AbsFsTimes
