/-
Base lemmas for the crash-prefix theorems (`Props/C10Crash.lean`, `Props/C09Crash.lean`):

* `Trace s s' ws`: the call from `s` to `s'` issued exactly the device writes `ws` (oldest first) and
  the medium afterwards is the medium before with `ws` applied;
* `CrashAll P s s'`: every medium a power cut during that call can leave (every prefix of `ws`
  applied to the medium of `s`) satisfies `P`; sequencing (`CrashAll.trans`), weakening, calls that
  write nothing;
* `View v d d'`: `d'` shows the same FAT copy 1 and the same non-FAT blocks as `d` (they may differ in
  FAT copy 2 — a cut between the two writes of one `update_fat`);
  `Within v d d' touched dirty`: `d'` differs from `d` at most in the FAT entries `touched` and the
  blocks `dirty` (and FAT copy 2);
* `OwnsLoose`: it follows from `Owns`, depends only on the entries of the record's own clusters
  (`ownsLoose_congr`), survives dropping / replacing a chain (`ownsLoose_drop`, `ownsLoose_splice`);
* soundness of the Boolean checkers `chainOK`, `ownsLooseB`.
-/
import Sdmmc.Spec.Crash
import Sdmmc.Lemmas.ForestStep

namespace Sdmmc.Lemmas.CrashBase
open Sdmmc.Model Sdmmc.Model.Fat Sdmmc.Spec
open Sdmmc.Lemmas.FBasic hiding NoFault Coherent
open Sdmmc.Lemmas.FatOps hiding BlocksOK Mirror HintOK
open Sdmmc.Lemmas.ChainL Sdmmc.Lemmas.ForestBase Sdmmc.Lemmas.ForestTrunc Sdmmc.Lemmas.ForestAlloc
open Sdmmc.Lemmas.ForestOwns Sdmmc.Lemmas.ForestStep

/-! ### The writes of a call -/

theorem newWrites_append (s s' : FS) (new : List (Nat × Block)) (h : s'.dev.wlog = new ++ s.dev.wlog) :
    newWrites s s' = new.reverse := by
  unfold newWrites
  rw [h, List.length_append, Nat.add_sub_cancel, List.take_left' rfl]

/-- The call from `s` to `s'` wrote `ws` (oldest first) and nothing else reached the medium. -/
structure Trace (s s' : FS) (ws : List (Nat × Block)) : Prop where
  wlog : s'.dev.wlog = ws.reverse ++ s.dev.wlog
  disk : s'.dev.disk = s.dev.disk.applyWrites ws

theorem Trace.newWrites {s s' : FS} {ws : List (Nat × Block)} (h : Trace s s' ws) : newWrites s s' = ws := by
  rw [newWrites_append _ _ _ h.wlog, List.reverse_reverse]

theorem Trace.same {s s' : FS} (hw : s'.dev.wlog = s.dev.wlog) (hd : s'.dev.disk = s.dev.disk) : Trace s s' [] :=
  ⟨by rw [hw]; rfl, by rw [hd]; rfl⟩

theorem Trace.trans {s s1 s2 : FS} {ws1 ws2 : List (Nat × Block)} (h1 : Trace s s1 ws1) (h2 : Trace s1 s2 ws2) :
    Trace s s2 (ws1 ++ ws2) :=
  ⟨by rw [h2.wlog, h1.wlog, List.reverse_append, List.append_assoc],
   by rw [h2.disk, h1.disk, Disk.applyWrites_append]⟩

/-- Every medium a power cut between `s` and `s'` can leave satisfies `P`. -/
def CrashAll (P : Disk → Prop) (s s' : FS) : Prop :=
  ∃ ws, Trace s s' ws ∧ ∀ k, P (s.dev.disk.applyWrites (ws.take k))

theorem CrashAll.same {P : Disk → Prop} {s s' : FS} (hw : s'.dev.wlog = s.dev.wlog) (hd : s'.dev.disk = s.dev.disk)
    (hp : P s.dev.disk) : CrashAll P s s' :=
  ⟨[], Trace.same hw hd, fun k => by rw [List.take_nil]; exact hp⟩

theorem CrashAll.of_ro {P : Disk → Prop} {s s' : FS} (h : RO s s') (hp : P s.dev.disk) : CrashAll P s s' :=
  CrashAll.same h.wlog h.disk hp

theorem CrashAll.mono {P Q : Disk → Prop} {s s' : FS} (h : CrashAll P s s') (hpq : ∀ d, P d → Q d) : CrashAll Q s s' := by
  obtain ⟨ws, ht, hp⟩ := h
  exact ⟨ws, ht, fun k => hpq _ (hp k)⟩

theorem CrashAll.trans {P : Disk → Prop} {s s1 s2 : FS} (h1 : CrashAll P s s1) (h2 : CrashAll P s1 s2) :
    CrashAll P s s2 := by
  obtain ⟨ws1, t1, p1⟩ := h1
  obtain ⟨ws2, t2, p2⟩ := h2
  refine ⟨ws1 ++ ws2, t1.trans t2, fun k => ?_⟩
  rw [List.take_append]
  by_cases hk : k ≤ ws1.length
  · rw [Nat.sub_eq_zero_of_le hk, List.take_zero, List.append_nil]
    exact p1 k
  · rw [List.take_of_length_le (by omega), Disk.applyWrites_append, ← t1.disk]
    exact p2 _

/-- The first crash point is the medium before the call, the last the medium after it. -/
theorem CrashAll.initial {P : Disk → Prop} {s s' : FS} (h : CrashAll P s s') : P s.dev.disk := by
  obtain ⟨ws, _, hp⟩ := h
  have := hp 0
  rw [List.take_zero] at this
  exact this

theorem CrashAll.final {P : Disk → Prop} {s s' : FS} (h : CrashAll P s s') : P s'.dev.disk := by
  obtain ⟨ws, ht, hp⟩ := h
  have := hp ws.length
  rw [List.take_length, ← ht.disk] at this
  exact this

/-- The form the property files state: prefixes of `newWrites`. -/
theorem CrashAll.spec {P : Disk → Prop} {s s' : FS} (h : CrashAll P s s') (k : Nat) :
    P (crashDisk s.dev.disk (newWrites s s') k) := by
  obtain ⟨ws, ht, hp⟩ := h
  unfold crashDisk
  rw [ht.newWrites]
  exact hp k

theorem CrashAll.replay {P : Disk → Prop} {s s' : FS} (h : CrashAll P s s') :
    s'.dev.disk = s.dev.disk.applyWrites (newWrites s s') := by
  obtain ⟨ws, ht, _⟩ := h
  rw [ht.newWrites]; exact ht.disk

theorem mem_crashDisks (d : Disk) (ws : List (Nat × Block)) (dk : Disk) :
    dk ∈ crashDisks d ws ↔ ∃ k, k ≤ ws.length ∧ dk = crashDisk d ws k := by
  unfold crashDisks
  rw [List.mem_map]
  constructor
  · rintro ⟨k, hk, rfl⟩
    exact ⟨k, by have := List.mem_range.1 hk; omega, rfl⟩
  · rintro ⟨k, hk, rfl⟩
    exact ⟨k, List.mem_range.2 (by omega), rfl⟩

/-- A prefix of writes none of which goes to block `i` leaves block `i` alone. -/
theorem applyWrites_get_other (ws : List (Nat × Block)) (d : Disk) (i : Nat) (h : ∀ w, w ∈ ws → w.1 ≠ i) :
    (d.applyWrites ws).get i = d.get i := by
  induction ws generalizing d with
  | nil => rfl
  | cons w ws ih =>
    rw [Disk.applyWrites_cons, ih _ (fun w' hw' => h w' (List.mem_cons_of_mem _ hw')),
      Disk.get_set_ne _ _ _ _ (h w List.mem_cons_self)]

/-! ### Media that look the same to a reader of FAT copy 1 -/

/-- `d'` holds the same FAT copy 1 (entries of the volume's clusters) and the same non-FAT blocks as
`d`.  They may differ in FAT copy 2. -/
structure View (v : FatVolume) (d d' : Disk) : Prop where
  fat : ∀ c, c < endCluster v → d'.get (fatBlock v c) = d.get (fatBlock v c)
  nonFat : ∀ i, regionOf v i ≠ .fat → d'.get i = d.get i

theorem View.refl (v : FatVolume) (d : Disk) : View v d d := ⟨fun _ _ => rfl, fun _ _ => rfl⟩

theorem View.trans {v : FatVolume} {d d' d'' : Disk} (h1 : View v d d') (h2 : View v d' d'') : View v d d'' :=
  ⟨fun c hc => (h2.fat c hc).trans (h1.fat c hc), fun i hi => (h2.nonFat i hi).trans (h1.nonFat i hi)⟩

theorem View.symm {v : FatVolume} {d d' : Disk} (h : View v d d') : View v d' d :=
  ⟨fun c hc => (h.fat c hc).symm, fun i hi => (h.nonFat i hi).symm⟩

theorem View.fatRaw {v : FatVolume} {d d' : Disk} (h : View v d d') {c : Nat} (hc : c < endCluster v) :
    fatRaw v d' c = fatRaw v d c := by
  unfold Spec.fatRaw; rw [h.fat c hc]

theorem View.sameGeom {v v' : FatVolume} {d d' : Disk} (hs : SameGeom v v') (h : View v' d d') : View v d d' := by
  obtain ⟨a, b, rfl⟩ := hs
  exact ⟨h.fat, h.nonFat⟩

/-- `d'` differs from `d` at most in the FAT entries (copy 1) of the clusters `touched`, in the
blocks `dirty`, and in FAT copy 2. -/
structure Within (v : FatVolume) (d d' : Disk) (touched : List Nat) (dirty : Nat → Prop) : Prop where
  other : ∀ y, y < endCluster v → y ∉ touched → fatRaw v d' y = fatRaw v d y
  nonFat : ∀ i, regionOf v i ≠ .fat → ¬ dirty i → d'.get i = d.get i

/-- No block outside the FAT is dirty. -/
def clean : Nat → Prop := fun _ => False

theorem View.within {v : FatVolume} {d d' : Disk} (h : View v d d') (t : List Nat) (dirty : Nat → Prop) :
    Within v d d' t dirty :=
  ⟨fun _ hy _ => h.fatRaw hy, fun i hi _ => h.nonFat i hi⟩

theorem Within.refl (v : FatVolume) (d : Disk) (t : List Nat) (dirty : Nat → Prop) : Within v d d t dirty :=
  (View.refl v d).within t dirty

theorem Within.view {v : FatVolume} {d d1 d2 : Disk} {t : List Nat} {dirty : Nat → Prop} (h : Within v d d1 t dirty)
    (h2 : View v d1 d2) : Within v d d2 t dirty :=
  ⟨fun y hy hn => (h2.fatRaw hy).trans (h.other y hy hn), fun i hi hd => (h2.nonFat i hi).trans (h.nonFat i hi hd)⟩

theorem Within.trans {v : FatVolume} {d d1 d2 : Disk} {t t1 t2 : List Nat} {dirty dirty1 dirty2 : Nat → Prop}
    (h1 : Within v d d1 t1 dirty1) (h2 : Within v d1 d2 t2 dirty2)
    (ht1 : ∀ y, y ∈ t1 → y ∈ t) (ht2 : ∀ y, y ∈ t2 → y ∈ t)
    (hd1 : ∀ i, dirty1 i → dirty i) (hd2 : ∀ i, dirty2 i → dirty i) : Within v d d2 t dirty :=
  ⟨fun y hy hn => (h2.other y hy fun h => hn (ht2 y h)).trans (h1.other y hy fun h => hn (ht1 y h)),
   fun i hi hd => (h2.nonFat i hi fun h => hd (hd2 i h)).trans (h1.nonFat i hi fun h => hd (hd1 i h))⟩

theorem Within.mono {v : FatVolume} {d d' : Disk} {t t' : List Nat} {dirty dirty' : Nat → Prop}
    (h : Within v d d' t dirty) (ht : ∀ y, y ∈ t → y ∈ t') (hd : ∀ i, dirty i → dirty' i) : Within v d d' t' dirty' :=
  ⟨fun y hy hn => h.other y hy fun hm => hn (ht y hm), fun i hi hn => h.nonFat i hi fun hm => hn (hd i hm)⟩

theorem Within.sameGeom {v v' : FatVolume} {d d' : Disk} {t : List Nat} {dirty : Nat → Prop} (hs : SameGeom v v')
    (h : Within v' d d' t dirty) : Within v d d' t dirty := by
  obtain ⟨a, b, rfl⟩ := hs
  exact ⟨h.other, h.nonFat⟩

theorem Within.of_frame {v : FatVolume} {d d' : Disk} {t : List Nat} (h : Frame v d d' t) : Within v d d' t clean :=
  ⟨h.other, fun i hi _ => h.nonFat i hi⟩

/-! ### The two FAT copies -/

theorem mirrorBut_of_mirror {v : FatVolume} {d : Disk} (h : Mirror v d) : MirrorBut v d :=
  ⟨0, fun c hc _ b2 hb2 => h c hc b2 hb2⟩

/-- A medium with the same FAT region has the same relation between the copies. -/
theorem mirror_of_fat_same {v : FatVolume} {d d' : Disk} (hg : WFGeom v) (h : ∀ i, regionOf v i = .fat → d'.get i = d.get i)
    (hm : Mirror v d) : Mirror v d' := by
  intro c hc b2 hb2
  obtain ⟨r1, r2⟩ := FatLens.fat_blocks_in_fat_region v hg c hc
  rw [h _ (r2 b2 hb2), h _ r1]
  exact hm c hc b2 hb2

theorem mirrorBut_sameGeom {v v' : FatVolume} {d : Disk} (hs : SameGeom v v') (h : MirrorBut v' d) : MirrorBut v d := by
  obtain ⟨a, b, rfl⟩ := hs
  exact h

/-! ### Entries decide everything -/

theorem isUsed_congr_raw {v : FatVolume} {d d' : Disk} {x : Nat} (h : fatRaw v d' x = fatRaw v d x) :
    isUsed v d' x ↔ isUsed v d x := by
  unfold isUsed isFree isBad fatEntry; rw [h]

theorem isBad_congr_raw {v : FatVolume} {d d' : Disk} {x : Nat} (h : fatRaw v d' x = fatRaw v d x) :
    isBad v d' x ↔ isBad v d x := by
  unfold isBad fatEntry; rw [h]

theorem chain_congr_raw {v : FatVolume} {d d' : Disk} {c : Nat} {cs : List Nat} (h : Chain v d c cs)
    (hx : ∀ x, x ∈ cs → fatRaw v d' x = fatRaw v d x) : Chain v d' c cs :=
  chain_transfer h rfl fun x hm => nextOf_congr rfl (hx x hm)

theorem chainBytes_congr (v : FatVolume) (d d' : Disk) (cs : List Nat)
    (h : ∀ c, c ∈ cs → ∀ j, j < v.blocksPerCluster → d'.get (clusterToBlock v c + j) = d.get (clusterToBlock v c + j)) :
    chainBytes v d' cs = chainBytes v d cs := by
  unfold chainBytes
  congr 1
  apply List.map_congr_left
  intro c hc
  unfold clusterBytes
  congr 1
  apply List.map_congr_left
  intro j hj
  exact h c hc j (List.mem_range.1 hj)

/-! ### `OwnsLoose` -/

theorem ownsLoose_of_owns {v : FatVolume} {d : Disk} {G : List (List Nat)} (h : Owns v d G) : OwnsLoose v d G :=
  ⟨h.1, h.2.1, fun c hc => (h.2.2 c).2 hc⟩

theorem mem_flatten_of_mem {G : List (List Nat)} {cs : List Nat} {x : Nat} (hcs : cs ∈ G) (hx : x ∈ cs) : x ∈ G.flatten :=
  List.mem_flatten.2 ⟨cs, hcs, hx⟩

/-- `OwnsLoose` reads only the entries of the record's own clusters. -/
theorem ownsLoose_congr {v : FatVolume} {d d' : Disk} {G : List (List Nat)} (h : OwnsLoose v d G)
    (hx : ∀ x, x ∈ G.flatten → fatRaw v d' x = fatRaw v d x) : OwnsLoose v d' G :=
  ⟨fun cs hcs => chain_congr_raw (h.1 cs hcs) fun x hm => hx x (mem_flatten_of_mem hcs hm), h.2.1,
   fun c hc => (isUsed_congr_raw (hx c hc)).2 (h.2.2 c hc)⟩

theorem ownsLoose_view {v : FatVolume} {d d' : Disk} {G : List (List Nat)} (h : OwnsLoose v d G) (hv : View v d d') :
    OwnsLoose v d' G :=
  ownsLoose_congr h fun x hx => hv.fatRaw (h.2.2 x hx).1.2

theorem ownsLoose_sameGeom {v v' : FatVolume} {d : Disk} {G : List (List Nat)} (hs : SameGeom v v')
    (h : OwnsLoose v d G) : OwnsLoose v' d G :=
  ⟨fun cs hcs => chain_sameGeom hs (h.1 cs hcs), h.2.1, fun c hc => (hs.isUsed d c).2 (h.2.2 c hc)⟩

/-- Replacing the chains `mid` of a sound record by chains `mid'` that are sound on the new medium,
while the entries of the clusters of the other chains stay what they were. -/
theorem ownsLoose_splice {v : FatVolume} {d d' : Disk} {A B mid mid' : List (List Nat)}
    (h : OwnsLoose v d (A ++ mid ++ B))
    (hkeep : ∀ x, x ∈ A.flatten ∨ x ∈ B.flatten → fatRaw v d' x = fatRaw v d x)
    (hmid : OwnsLoose v d' mid')
    (hdisj : ∀ x, x ∈ mid'.flatten → x ∉ A.flatten ∧ x ∉ B.flatten) : OwnsLoose v d' (A ++ mid' ++ B) := by
  obtain ⟨hch, hnd, hu⟩ := h
  rw [flatten3, nodup3] at hnd
  obtain ⟨nA, _, nB, _, dAB, _⟩ := hnd
  refine ⟨?_, ?_, ?_⟩
  · intro cs hcs
    rcases List.mem_append.1 hcs with hcs | hcs
    · rcases List.mem_append.1 hcs with hcs | hcs
      · exact chain_congr_raw (hch cs (List.mem_append_left _ (List.mem_append_left _ hcs)))
          fun x hx => hkeep x (.inl (mem_flatten_of_mem hcs hx))
      · exact hmid.1 cs hcs
    · exact chain_congr_raw (hch cs (List.mem_append_right _ hcs)) fun x hx => hkeep x (.inr (mem_flatten_of_mem hcs hx))
  · rw [flatten3, nodup3]
    exact ⟨nA, hmid.2.1, nB, fun x hA hM => (hdisj x hM).1 hA, dAB, fun x hM hB => (hdisj x hM).2 hB⟩
  · intro c hc
    rcases (mem_flatten3 _ _ _ c).1 hc with hc | hc | hc
    · exact (isUsed_congr_raw (hkeep c (.inl hc))).2 (hu c ((mem_flatten3 _ _ _ c).2 (.inl hc)))
    · exact hmid.2.2 c hc
    · exact (isUsed_congr_raw (hkeep c (.inr hc))).2 (hu c ((mem_flatten3 _ _ _ c).2 (.inr (.inr hc))))

theorem ownsLoose_nil (v : FatVolume) (d : Disk) : OwnsLoose v d [] := by
  refine ⟨fun _ h => ?_, List.nodup_nil, fun _ h => ?_⟩ <;> cases h

/-- Dropping chains from a sound record (their clusters become lost clusters). -/
theorem ownsLoose_drop {v : FatVolume} {d d' : Disk} {A B mid : List (List Nat)} (h : OwnsLoose v d (A ++ mid ++ B))
    (hkeep : ∀ x, x ∈ A.flatten ∨ x ∈ B.flatten → fatRaw v d' x = fatRaw v d x) : OwnsLoose v d' (A ++ [] ++ B) :=
  ownsLoose_splice h hkeep (ownsLoose_nil v d') (fun _ hx => by cases hx)

/-! ### The Boolean checkers are sound -/

theorem chainOK_sound (v : FatVolume) (d : Disk) : ∀ cs, chainOK v d cs = true → Chain v d (cs.headD 0) cs
  | [], h => by simp [chainOK] at h
  | [c], h => by
    unfold chainOK at h
    rw [Bool.and_eq_true, decide_eq_true_eq] at h
    refine Chain.last c h.1 ?_
    have h2 := h.2
    split at h2
    · assumption
    · cases h2
  | c :: n :: rest, h => by
    unfold chainOK at h
    rw [Bool.and_eq_true, Bool.and_eq_true, Bool.and_eq_true, decide_eq_true_eq] at h
    obtain ⟨⟨⟨h1, h2⟩, h3⟩, h4⟩ := h
    have ih := chainOK_sound v d (n :: rest) h4
    refine Chain.link c n (n :: rest) h1 ?_ ?_ ih
    · split at h2
      · next m hm => rw [hm, beq_iff_eq.1 h2]
      · cases h2
    · intro hm
      rw [Bool.not_eq_true', List.contains_eq_mem, decide_eq_false_iff_not] at h3
      exact h3 hm

theorem ownsLooseB_sound (v : FatVolume) (d : Disk) (G : List (List Nat)) (h : ownsLooseB v d G = true) :
    OwnsLoose v d G := by
  unfold ownsLooseB at h
  rw [Bool.and_eq_true, Bool.and_eq_true, List.all_eq_true, List.all_eq_true, decide_eq_true_eq] at h
  obtain ⟨⟨h1, h2⟩, h3⟩ := h
  exact ⟨fun cs hcs => chainOK_sound v d cs (h1 cs hcs), h2, fun c hc => of_decide_eq_true (h3 c hc)⟩

end Sdmmc.Lemmas.CrashBase
