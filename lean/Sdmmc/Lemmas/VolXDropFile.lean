/-
C11, arbitrary fault placement — A HANDLE LEAVES THE OPEN-FILE TABLE WHILE ITS ENTRY ON THE MEDIUM IS STALE
(what a failed `close_file` does).  `RawBelow ft d f`: the 32-byte entry of `f` on the medium `d` either names no cluster
and size 0, or names the record's first cluster and at most the record's size.  Then the invariant with lost chains
survives the removal (`medX_drop_file`): in the first case a chain the record owned becomes a lost chain.
-/
import Sdmmc.Lemmas.VolXApiWrite
import Sdmmc.Lemmas.VolXApi2

namespace Sdmmc.Lemmas.VolX
open Sdmmc.Lemmas.WriteRefines Sdmmc.Lemmas.VolApi
open Sdmmc.Model Sdmmc.Model.Fat Sdmmc.Spec.Volume Sdmmc.Lemmas.VolBase Sdmmc.Lemmas.VolTree
open Sdmmc.Spec hiding NoFault Coherent
open Sdmmc.Lemmas.VolDisk Sdmmc.Lemmas.VolMed Sdmmc.Lemmas.VolEng
open Sdmmc.Lemmas.FBasic (NoFault Coherent)
open Sdmmc.Lemmas.MHoare

/-- The directory entry of the open file `f` as the medium holds it. -/
def rawSlot (d : Disk) (f : FileInfo) : Slot :=
  (f.entry.entryBlock, f.entry.entryOffset, ((d.get f.entry.entryBlock).drop f.entry.entryOffset).take 32)

/-- The entry of `f` on the medium is not ahead of the record: no cluster and size 0, or the record's first cluster and
at most the record's size. -/
def RawBelow (ft : FatType) (d : Disk) (f : FileInfo) : Prop :=
  (sCluster ft (rawSlot d f) = 0 ∧ sSize (rawSlot d f) = 0) ∨
  (sCluster ft (rawSlot d f) = f.entry.cluster ∧ sSize (rawSlot d f) ≤ f.entry.size)

theorem mem_dirSlots_bytes {v : FatVolume} {d : Disk} {G : List (List Nat)} {h : Nat} {s : Slot}
    (hs : s ∈ dirSlots v d G h) : s.2.2 = ((d.get s.1).drop s.2.1).take 32 := by
  rw [dirSlots_eq] at hs
  split at hs
  · exact slot_bytes_of_mem_runSlots hs
  · obtain ⟨c, _, hr⟩ := mem_chainSlots.1 hs
    exact slot_bytes_of_mem_runSlots hr

section
variable {v : FatVolume} {d : Disk} {files : List FileInfo} {gh : Ghost} {X : List (List Nat)}

/-- An object of the tree at the position of `f` is the entry of `f` on the medium. -/
theorem object_eq_rawSlot (hM : MedX v d files gh X) {h : Nat} (hh : h ∈ dirIds gh.dirs) {o : Slot}
    (ho : o ∈ objects h (dirSlots v d gh.G h)) {f : FileInfo} (hpo : spos o = fkey f) : o = rawSlot d f := by
  obtain ⟨pre, post, hsp, _⟩ := object_split hM hh ho
  have hmem : o ∈ dirSlots v d gh.G h := by rw [hsp]; simp
  have hb := mem_dirSlots_bytes hmem
  obtain ⟨h1, h2⟩ := Prod.mk.inj hpo
  have h1' : o.1 = f.entry.entryBlock := h1
  have h2' : o.2.1 = f.entry.entryOffset := h2
  unfold rawSlot
  rw [← h1', ← h2', ← hb]

theorem eraseIdx_set_self {α : Type} (l : List α) (i : Nat) (a : α) : (l.set i a).eraseIdx i = l.eraseIdx i := by
  induction l generalizing i with
  | nil => rfl
  | cons x l ih =>
    cases i with
    | zero => rfl
    | succ i => rw [List.set_cons_succ, List.eraseIdx_cons_succ, List.eraseIdx_cons_succ, ih]

/-- **The record at slot `i` leaves the table; its entry on the medium is not ahead of it.** -/
theorem medX_drop_file (hM : MedX v d files gh X) {i : Nat} {f : FileInfo} (hi : files[i]? = some f)
    (hraw : RawBelow v.fatType d f) :
    ∃ G' X', MedX v d (files.eraseIdx i) { vol := v, G := G', dirs := gh.dirs } X' := by
  have hT := hM.tree
  have hG : HeadsOK gh.G := med_heads hM
  have hpos := objPos_nodup hM
  have hfm : f ∈ files := List.mem_of_getElem? hi
  have hilt : i < files.length := (List.getElem?_eq_some_iff.1 hi).1
  obtain ⟨h, hh, A0, o, B0, hO, hpo, hod, hnm, hcl, hp⟩ := file_object hT hfm
  have ho : o ∈ objects h (dirSlots v d gh.G h) := by rw [hO]; simp
  have horaw : o = rawSlot d f := object_eq_rawSlot hM hh ho hpo
  unfold RawBelow at hraw
  rw [← horaw] at hraw
  have hsz := hT.sizes h hh o ho hod
  rw [effCluster_of_pend hp, effSize_of_pend hp] at hsz
  obtain ⟨a1, a2, a3, a4⟩ := hT.fileAttrs f hfm
  -- the record the entry on the medium stands for
  generalize hf' : ({ f with dirty := true, entry := { f.entry with cluster := sCluster v.fatType o, size := sSize o } } : FileInfo) = f'
  have e_key : fkey f' = fkey f := by rw [← hf']
  have e_name : f'.entry.name = f.entry.name := by rw [← hf']
  have e_cl : f'.entry.cluster = sCluster v.fatType o := by rw [← hf']
  have e_sz : f'.entry.size = sSize o := by rw [← hf']
  have e_dirty : f'.dirty = true := by rw [← hf']
  have hssle : sSize o ≤ f.entry.size := by
    rcases hraw with ⟨_, h2⟩ | ⟨_, h2⟩
    · rw [h2]; exact Nat.zero_le _
    · exact h2
  have hattr : AttrsOK f' := by
    unfold AttrsOK
    rw [e_sz]
    have : f'.entry.attributes = f.entry.attributes := by rw [← hf']
    rw [this]
    exact ⟨a1, a2, a3, Nat.le_trans hssle a4⟩
  have hi' : (files.set i f')[i]? = some f' := List.getElem?_set_self hilt
  -- closing the altered record
  have hclose : ∀ {G' : List (List Nat)}, HeadsOK G' →
      TreeOK v.fatType (clusterBytesLen v) (rootHead v) G' gh.dirs (dirSlots v d gh.G) (files.set i f') →
      TreeOK v.fatType (clusterBytesLen v) (rootHead v) G' gh.dirs (dirSlots v d gh.G) (files.eraseIdx i) := by
    intro G' hG' ht
    have := tree_close ht hG' hpos hi' (fun h' hh' o' ho' hpo' => by
      have : o' = o := by
        rw [horaw]; exact object_eq_rawSlot hM hh' ho' (hpo'.trans e_key)
      rw [this, e_cl, e_sz]; exact ⟨rfl, rfl⟩)
    rw [eraseIdx_set_self] at this
    exact this
  have hsub : ∀ g, g ∈ files.eraseIdx i → g ∈ files ∧ fkey g ≠ fkey f := by
    intro g hg
    refine ⟨(List.eraseIdx_sublist files i).subset hg, fun hge => ?_⟩
    obtain ⟨j, hji, hj⟩ := List.mem_eraseIdx_iff_getElem?.1 hg
    have hkj : (files.map fkey)[j]? = some (fkey g) := by rw [List.getElem?_map, hj]; rfl
    have hki : (files.map fkey)[i]? = some (fkey f) := by rw [List.getElem?_map, hi]; rfl
    have hlj := (List.getElem?_eq_some_iff.1 hkj).1
    have hli := (List.getElem?_eq_some_iff.1 hki).1
    have := (List.Nodup.getElem_inj_iff hT.filesDistinct (hi := hlj) (hj := hli)).1
      (by rw [(List.getElem?_eq_some_iff.1 hkj).2, (List.getElem?_eq_some_iff.1 hki).2, hge])
    exact hji this
  by_cases hsame : sCluster v.fatType o = f.entry.cluster
  · -- the entry names the record's chain (or both name none): the chains are as before
    have ht1 : TreeOK v.fatType (clusterBytesLen v) (rootHead v) gh.G gh.dirs (dirSlots v d gh.G) (files.set i f') := by
      apply tree_file_set hT hG hpos hi e_key e_name hattr
      · intro hd; rw [e_dirty] at hd; cases hd
      · intro c _ _; exact Nat.le_refl _
      · intro a; rw [e_cl, hsame]
      · rw [e_cl, e_sz, hsame]
        rcases hsz with ⟨h1, h2⟩ | ⟨h1, h2⟩
        · exact .inl ⟨h1, by omega⟩
        · exact .inr ⟨h1, Nat.le_trans hssle h2⟩
    refine ⟨gh.G, X, hM.blocksOK, hM.geom, hM.hint, hM.owns, hclose hG ht1, fun g hg => hM.fileOK g (hsub g hg).1⟩
  · -- the entry names no cluster, the record does: its chain is lost
    have hs0 : sCluster v.fatType o = 0 ∧ sSize o = 0 := by
      rcases hraw with h1 | ⟨h1, _⟩
      · exact h1
      · exact absurd h1 hsame
    have hc0 : f.entry.cluster ≠ 0 := fun e => hsame (by rw [hs0.1, e])
    generalize hcsdef : chainOf gh.G f.entry.cluster = cs
    have hcsne : cs ≠ [] := fun e => hc0 (cluster_zero_of_nil hT hG hfm (by rw [hcsdef]; exact e))
    have hhead : cs ∈ gh.G ∧ cs.head? = some f.entry.cluster := by
      rw [← hcsdef] at hcsne ⊢
      exact chainOf_spec hG ((chainOf_ne_nil_iff hG).1 hcsne)
    obtain ⟨A, B, hAB⟩ := List.append_of_mem hhead.1
    have hGeq : gh.G = withChain A cs B := by rw [WriteRefines.withChain_ne hcsne, hAB]; simp
    have hown' : Owns v d (withChain A [] B ++ cs :: X) := by
      refine owns_perm ?_ hM.owns
      rw [hAB, WriteRefines.withChain_nil]
      simp only [List.append_assoc, List.nil_append, List.cons_append]
      exact List.Perm.append_left A List.perm_middle.symm
    have hG' : HeadsOK (withChain A [] B) := heads_left (heads_of_owns hown')
    have hrest : ∀ Y c, Y ∈ gh.G → Y.head? = some c → c ≠ f.entry.cluster →
        Y ∈ A ++ B ∧ chainOf (withChain A [] B) c = Y := by
      intro Y c hY hYh hne
      have hm : Y ∈ A ++ B := mem_rest (by rw [← hGeq]; exact hY) (fun _ => hhead.2) hYh hne
      exact ⟨hm, chainOf_of_mem hG' (WriteRefines.mem_withChain_of_mem [] hm) hYh⟩
    have ht1 : TreeOK v.fatType (clusterBytesLen v) (rootHead v) (withChain A [] B) gh.dirs (dirSlots v d gh.G) (files.set i f') := by
      apply tree_file_set hT hG hpos hi e_key e_name hattr
      · intro hd; rw [e_dirty] at hd; cases hd
      · intro c hc hne
        obtain ⟨hm, hhd⟩ := chainOf_spec hG hc
        rw [(hrest _ _ hm hhd hne).2]; exact Nat.le_refl _
      · intro a
        rw [e_cl, hs0.1, if_pos hc0, hGeq, WriteRefines.withChain_ne hcsne, WriteRefines.withChain_nil]
        simp only [heads, List.map_append, List.count_append, List.map_cons, List.map_nil, List.append_nil,
          headD_of_head? hhead.2, List.count_nil, ne_eq, not_true_eq_false, if_false]
        omega
      · exact .inl ⟨by rw [e_cl]; exact hs0.1, by rw [e_sz]; exact hs0.2⟩
    have hdirne : ∀ h', h' ∈ dirIds gh.dirs → ¬ isFixedRoot v h' → dirHead v h' ≠ f.entry.cluster := by
      intro h' hh' hfx e
      obtain ⟨n1, n2⟩ := file_cluster_not_dir hT hG hfm hc0
      rcases dirHead_cases' (dirs := gh.dirs) hh' hfx with h1 | h1
      · exact n1 (e ▸ h1)
      · exact n2 (e ▸ h1)
    have hMX := medX_fat_update (X' := cs :: X) (G' := withChain A [] B) hM (SameGeom.refl v) hM.hint hM.blocksOK hown'
      (fun h' hh' hfx => by
        obtain ⟨hm, hhd⟩ := dirChain_spec hM hh' hfx
        exact (hrest _ _ hm hhd (hdirne h' hh' hfx)).2)
      (fun _ _ _ _ => rfl) rfl (hclose hG' ht1)
      (fun g hg => by
        obtain ⟨hgm, hgk⟩ := hsub g hg
        obtain ⟨hokg, hcurg⟩ := hM.fileOK g hgm
        by_cases hgn : chainOf gh.G g.entry.cluster = []
        · have hg0 := cluster_zero_of_nil hT hG hgm hgn
          have h1 : chainOf (withChain A [] B) g.entry.cluster = [] := chainOf_lt_two hG' (by omega)
          rw [h1]; rw [hgn] at hokg
          exact ⟨hokg, fun _ => hcurg hgn⟩
        · obtain ⟨hm, hhd⟩ := chainOf_spec hG ((chainOf_ne_nil_iff hG).1 hgn)
          have hg0 : g.entry.cluster ≠ 0 := fun e => hgn (chainOf_lt_two hG (by omega))
          rw [(hrest _ _ hm hhd (files_cluster_ne hT hG hfm hgm hgk hg0)).2]
          exact ⟨hokg, hcurg⟩)
    exact ⟨_, _, hMX⟩

end

end Sdmmc.Lemmas.VolX
