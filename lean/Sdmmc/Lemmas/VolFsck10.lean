/-
Bridge `VolInv` → `Spec.Fs.fsck`, hypothesis (H2) `DepthOK`: it cannot be dropped, and the bound 63 is exact.
`h2_needed`: 64 nested directories, `VolInv` holds, `fsck` reports `D1-nesting-too-deep`; `h2_exact`: with 63 nested
directories it reports nothing.  (Three kernel evaluations on a 64-directory volume: this module takes about a
minute to build and is therefore kept apart from `VolFsck9`.)
-/
import Sdmmc.Lemmas.VolFsck9
import Sdmmc.Lemmas.VolExample

namespace Sdmmc.Lemmas.VolFsck
open Sdmmc.Model Sdmmc.Model.Fat Sdmmc.Spec Sdmmc.Spec.Volume
open Sdmmc.Lemmas.VolTree Sdmmc.Lemmas.VolMed Sdmmc.Lemmas.VolBase
open Sdmmc.Lemmas.VolExample Sdmmc.Lemmas.VolCheck

/-! ### (H2) cannot be dropped, and 63 is exact -/

/-- 80 clusters of one block; one FAT at block 1, the 16-entry root at block 2, data from block 3
(cluster `c` is block `c + 1`). -/
def volDeep : FatVolume :=
  { lbaStart := 0, numBlocks := 100, name := [], blocksPerCluster := 1, firstDataBlock := 3, fatStart := 1,
    secondFatStart := none, freeClustersCount := none, nextFreeCluster := none, clusterCount := 80,
    fatType := .fat16, rootEntriesCount := 16, firstRootDirBlock := 2, infoLocation := 0, firstRootDirCluster := 0 }

/-- FAT: clusters `2 .. n+1` are one-cluster chains (the `n` nested directories), the rest is free. -/
def fatDeep (n : Nat) : Block := pad ([0xF8, 0xFF, 0xFF, 0xFF] ++ (List.replicate n [0xFF, 0xFF]).flatten)

/-- directory number `k` (`1 ≤ k ≤ n`) lives in cluster `k + 1`; it holds `.`, `..` and — unless it is the last — `SUB` -/
def dirDeep (n k : Nat) : Block :=
  pad (ent16 Sfn.thisDir 0x10 (k + 1) 0 ++ ent16 Sfn.parentDir 0x10 (if k = 1 then 0 else k) 0 ++
    (if k < n then ent16 nSub 0x10 (k + 2) 0 else []))

/-- the root holds `SUB` (cluster 2), directory `k` holds `SUB` (cluster `k + 2`): `n` directories nested in each other -/
def diskDeep (n : Nat) : Disk :=
  (List.range n).foldl (fun d i => d.set (i + 3) (dirDeep n (i + 1)))
    ((Disk.empty.set 1 (fatDeep n)).set 2 (pad (ent16 nSub 0x10 2 0)))

def mgrDeep (n : Nat) : Mgr :=
  { dev := { disk := diskDeep n }, nextId := 10, vols := [{ rawVolume := 1, idx := 0, vol := volDeep }],
    maxVols := 1, maxDirs := 4, maxFiles := 4 }

def ghDeep (n : Nat) : Ghost :=
  { vol := volDeep, G := (List.range n).map fun i => [i + 2],
    dirs := (List.range n).map fun i => (i + 2, if i = 0 then 0 else i + 1) }

/-- 64 nested directories: the volume invariant holds … -/
theorem mgrDeep64_inv : VolInv (mgrDeep 64) (ghDeep 64) := checkVolInv_sound _ _ (by decide +kernel)

/-- … (H1) holds (FAT16), and the checker runs out of nesting fuel (`D1-nesting-too-deep:/SUB________/…`). -/
theorem h2_needed :
    VolInv (mgrDeep 64) (ghDeep 64) ∧ GeomOf (ghDeep 64).vol (geomOfVol volDeep) ∧ NoOne (ghDeep 64).vol (mgrDeep 64).dev.disk ∧
    (Fs.fsck (geomOfVol volDeep) (mgrDeep 64).dev.disk (pendingOf (mgrDeep 64)) true).problems ≠ [] :=
  ⟨mgrDeep64_inv, geomOf_geomOfVol volDeep, noOneB_sound rfl, by decide +kernel⟩

/-- the deepest directory of `mgrDeep 64` lies 64 levels below the root -/
theorem deep64_depth : depthOf (ghDeep 64).dirs 64 65 = 64 ∧ depthOKB (ghDeep 64).dirs = false ∧ depthOKB (ghDeep 63).dirs = true := by
  decide +kernel

theorem h2_fails : ¬ DepthOK (ghDeep 64).dirs := fun h =>
  h2_needed.2.2.2 (fsck_ok _ _ mgrDeep64_inv _ h2_needed.2.1 h2_needed.2.2.1 h)

/-- 63 nested directories (the deepest lies 63 levels below the root): the checker is content. -/
theorem h2_exact : (Fs.fsck (geomOfVol volDeep) (mgrDeep 63).dev.disk (pendingOf (mgrDeep 63)) true).problems = [] := by
  decide +kernel

end Sdmmc.Lemmas.VolFsck
