/-
Refinement of the API to the abstract file system, part 18: what the refinement says about single calls —
`read` returns the model's bytes, `iterate_dir` lists the live entries in order, lookup succeeds iff the name is
listed, a flushed file is visible, the open-mode table.
-/
import Sdmmc.Lemmas.AbsFsTotal

namespace Sdmmc.Lemmas.AbsFs
open Sdmmc.Model Sdmmc.Model.Fat Sdmmc.Spec.Volume
open Sdmmc.Spec hiding NoFault Coherent
open Sdmmc.Spec.AbsFs (Meta view storedMeta fatRound OpenFile OpenDir absStep)
open Sdmmc.Lemmas.VolApi Sdmmc.Lemmas.MHoare

section
variable {s : Mgr} {gh : Ghost} {a : AState}

/-- One covered call, from a state with both relations (the reference geometry is the state's own). -/
theorem step_abs (hI : VolInv s gh) (hA : Abs s gh a) (op : Op) (hc : FsCovered gh.vol s op) :
    ∃ gh' a', VolInv (step s op).1 gh' ∧ SameGeom gh.vol gh'.vol ∧ Abs (step s op).1 gh' a' ∧
      absStep a op (a', (step s op).2.result) :=
  fs_step_refines gh.vol hI hA (SameGeom.refl _) op hc

theorem abs_unlocked (hI : VolInv s gh) (hA : Abs s gh a) : ¬ a.locked = true := by
  rw [hA.locked.trans hI.unlocked]; exact Bool.false_ne_true

/-! ### `read` -/

/-- **`read` returns the bytes of the model**: the bytes of the file's slot from the handle's position on, at most
`n` of them; the position advances by what was returned; nothing else changes. -/
theorem read_returns_model_bytes (hI : VolInv s gh) (hA : Abs s gh a) (h n : Nat) {i : Nat} {f : OpenFile}
    (hf : Spec.AbsFs.fileOf a h = some (i, f)) (hv : Spec.AbsFs.volOpen a f.volume = true) :
    ∃ m bytes gh', (a.slots f.dir)[f.idx]? = some (.file m bytes) ∧
      (step s (.read h n)).2.result = .ok (.bytes ((bytes.drop f.pos).take n)) ∧
      VolInv (step s (.read h n)).1 gh' ∧
      Abs (step s (.read h n)).1 gh' { a with files := a.files.set i { f with pos := f.pos + ((bytes.drop f.pos).take n).length } } := by
  obtain ⟨gh', a', h1, _, h3, h4⟩ := step_abs hI hA (.read h n) trivial
  unfold absStep at h4
  rw [if_neg (abs_unlocked hI hA)] at h4
  have h5 : Spec.AbsFs.readS a h n a' (step s (.read h n)).2.result := h4
  unfold Spec.AbsFs.readS at h5
  rw [hf] at h5
  dsimp only at h5
  rw [if_neg (by rw [hv]; exact Bool.false_ne_true)] at h5
  obtain ⟨m, bytes, hsl, hr, ha'⟩ := h5
  subst ha'
  exact ⟨m, bytes, gh', hsl, hr, h1, h3⟩

/-! ### `iterate_dir` -/

/-- **The listing is the file / directory slots of the directory, in slot order** (deleted slots and long-name
fragments are skipped; every reported entry shows what its slot stores). -/
theorem listing_is_live_entries_in_order (hI : VolInv s gh) (hA : Abs s gh a) (d : Nat) {od : OpenDir}
    (hd : Spec.AbsFs.dirOf a d = .ok od) :
    ∃ es, (step s (.list d)).2.result = .ok (.entries es) ∧ es.map view = (a.slots od.dir).filterMap Spec.AbsFs.Slot.meta? := by
  obtain ⟨gh', a', _, _, _, h4⟩ := step_abs hI hA (.list d) trivial
  unfold absStep at h4
  rw [if_neg (abs_unlocked hI hA)] at h4
  have h5 : Spec.AbsFs.listS a d a' (step s (.list d)).2.result := h4
  obtain ⟨_, r0, hl, hr⟩ := h5
  unfold Spec.AbsFs.ListsAs at hl
  rw [hd] at hl
  obtain ⟨es, rfl, hes⟩ := hl
  exact ⟨es, hr, hes⟩

/-- A bad directory handle is refused. -/
theorem listing_bad_handle (hI : VolInv s gh) (hA : Abs s gh a) (d : Nat) {e : Err}
    (hd : Spec.AbsFs.dirOf a d = .error e) : (step s (.list d)).2.result = .err e := by
  obtain ⟨gh', a', _, _, _, h4⟩ := step_abs hI hA (.list d) trivial
  unfold absStep at h4
  rw [if_neg (abs_unlocked hI hA)] at h4
  have h5 : Spec.AbsFs.listS a d a' (step s (.list d)).2.result := h4
  obtain ⟨_, r0, hl, hr⟩ := h5
  unfold Spec.AbsFs.ListsAs at hl
  rw [hd] at hl
  rw [hr, hl]
  rfl

/-! ### Lookup -/

theorem named_iff (name : Bytes) (sl : ASlot) : Spec.AbsFs.Slot.named name sl = true ↔ ∃ m, sl.meta? = some m ∧ m.name = name := by
  unfold Spec.AbsFs.Slot.named
  cases hm : sl.meta? with
  | none => simp
  | some m => simp

theorem lookup_some_iff (ss : List ASlot) (name : Bytes) :
    (∃ i, Spec.AbsFs.lookup ss name = some i) ↔ name ∈ (Spec.AbsFs.listing ss).map (·.name) := by
  unfold Spec.AbsFs.lookup Spec.AbsFs.listing
  constructor
  · rintro ⟨i, hi⟩
    obtain ⟨sl, hsl, hp⟩ := findIdx?_some_get hi
    obtain ⟨m, hm, hn⟩ := (named_iff name sl).1 hp
    exact List.mem_map.2 ⟨m, List.mem_filterMap.2 ⟨sl, List.mem_of_getElem? hsl, hm⟩, hn⟩
  · intro h
    obtain ⟨m, hm, hn⟩ := List.mem_map.1 h
    obtain ⟨sl, hsl, hmeta⟩ := List.mem_filterMap.1 hm
    cases hfi : ss.findIdx? (Spec.AbsFs.Slot.named name) with
    | some i => exact ⟨i, rfl⟩
    | none =>
      have := List.findIdx?_eq_none_iff.1 hfi sl hsl
      rw [(named_iff name sl).2 ⟨m, hmeta, hn⟩] at this
      cases this

theorem dirOf_of_ctx {d : Nat} {name : List Nat} {od : OpenDir} {sfn : Bytes}
    (h : Spec.AbsFs.dirCtx a d name = .ok (od, sfn)) : Spec.AbsFs.dirOf a d = .ok od := by
  unfold Spec.AbsFs.dirCtx at h
  cases hd : Spec.AbsFs.dirOf a d with
  | error e => rw [hd] at h; cases h
  | ok od' =>
    rw [hd] at h
    dsimp only at h
    cases hs : Sfn.createFromStr name with
    | error e => rw [hs] at h; cases h
    | ok sfn' =>
      rw [hs] at h
      injection h with h
      injection h with h1 h2
      rw [h1]

/-- **`find_directory_entry` succeeds iff the name is among the listed entries**; it then returns an entry with that
name that the listing shows too, else `NotFound`.  (`es` is what `iterate_dir` reports in the same state.) -/
theorem lookup_iff_listed (hI : VolInv s gh) (hA : Abs s gh a) (d : Nat) (name : List Nat) (hname : NameOK name)
    {od : OpenDir} {sfn : Bytes} (hctx : Spec.AbsFs.dirCtx a d name = .ok (od, sfn)) :
    ∃ es, (step s (.list d)).2.result = .ok (.entries es) ∧
      (sfn ∈ es.map (·.name) →
        ∃ e, (step s (.find d name)).2.result = .ok (.entry e) ∧ e.name = sfn ∧ view e ∈ es.map view) ∧
      (sfn ∉ es.map (·.name) → (step s (.find d name)).2.result = .err .NotFound) := by
  obtain ⟨es, hes, hview⟩ := listing_is_live_entries_in_order hI hA d (dirOf_of_ctx hctx)
  have hnames : es.map (·.name) = (Spec.AbsFs.listing (a.slots od.dir)).map (·.name) := by
    have : es.map (·.name) = (es.map view).map (·.name) := by rw [List.map_map]; rfl
    rw [this, hview]; rfl
  obtain ⟨gh', a', _, _, _, h4⟩ := step_abs hI hA (.find d name) hname
  unfold absStep at h4
  rw [if_neg (abs_unlocked hI hA)] at h4
  have h5 : Spec.AbsFs.findS a d name a' (step s (.find d name)).2.result := h4
  obtain ⟨_, h6⟩ := h5
  rw [hctx] at h6
  dsimp only at h6
  refine ⟨es, hes, ?_, ?_⟩
  · intro hin
    rw [hnames] at hin
    obtain ⟨i, hi⟩ := (lookup_some_iff _ _).2 hin
    rw [hi] at h6
    obtain ⟨e, m, hr, hm, hv⟩ := h6
    obtain ⟨sl, hsl, hp⟩ := findIdx?_some_get hi
    obtain ⟨m', hm', hn⟩ := (named_iff sfn sl).1 hp
    rw [hsl] at hm
    have hmm : m' = m := by
      have : sl.meta? = some m := hm
      rw [hm'] at this
      exact Option.some.inj this
    subst hmm
    refine ⟨e, hr, ?_, ?_⟩
    · have : (view e).name = sfn := by rw [hv]; exact hn
      exact this
    · rw [hview, hv]
      exact List.mem_filterMap.2 ⟨sl, List.mem_of_getElem? hsl, hm'⟩
  · intro hnot
    rw [hnames] at hnot
    cases hlk : Spec.AbsFs.lookup (a.slots od.dir) sfn with
    | some i => exact absurd ((lookup_some_iff _ _).1 ⟨i, hlk⟩) hnot
    | none =>
      rw [hlk] at h6
      exact h6

/-! ### Open files -/

/-- The slot an open handle refers to holds a file whose bytes are as long as the handle's pending size. -/
theorem open_file_slot (hI : VolInv s gh) (hA : Abs s gh a) {h i : Nat} {f : OpenFile}
    (hf : Spec.AbsFs.fileOf a h = some (i, f)) :
    ∃ m bytes, (a.slots f.dir)[f.idx]? = some (.file m bytes) ∧ bytes.length = f.pm.size := by
  unfold Spec.AbsFs.fileOf at hf
  cases hidx : Spec.AbsFs.fileIdx a h with
  | none => rw [hidx] at hf; cases hf
  | some j =>
    rw [hidx] at hf
    dsimp only at hf
    cases haf : a.files[j]? with
    | none => rw [haf] at hf; cases hf
    | some af =>
      rw [haf] at hf
      injection hf with hf
      injection hf with hji hff
      subst hff
      rcases forall₂_getElem? hA.files j with ⟨h1, _⟩ | ⟨x, y, h1, h2, hr⟩
      · rw [h1] at haf; cases haf
      · rw [haf] at h1
        injection h1 with h1
        subst h1
        have hym : y ∈ s.files := List.mem_of_getElem? h2
        obtain ⟨o, _, _, _, _, _, _, hsl⟩ := handle_slot hI hA hym hr
        refine ⟨_, _, hsl, ?_⟩
        rw [ChainL.fileContent_length _ _ _ _ hI.med.blocksOK (hI.med.fileOK y hym).1.size_fits, hr.pm]
        rfl

/-- **A flushed file is visible**: after `flush_file` on a handle that was written to, the directory stores the
handle's pending entry (time stamps at FAT resolution), the stored size is the length of the file's bytes, and the
listing of the directory shows exactly that entry. -/
theorem flushed_file_visible (hI : VolInv s gh) (hA : Abs s gh a) (h : Nat) {i : Nat} {f : OpenFile}
    (hf : Spec.AbsFs.fileOf a h = some (i, f)) (hd : f.dirty = true) (hv : Spec.AbsFs.volOpen a f.volume = true) :
    ∃ bytes gh' a', (step s (.flush h)).2.result = .ok .unit ∧
      VolInv (step s (.flush h)).1 gh' ∧ Abs (step s (.flush h)).1 gh' a' ∧
      (a'.slots f.dir)[f.idx]? = some (.file (storedMeta f.pm) bytes) ∧ (storedMeta f.pm).size = bytes.length ∧
      storedMeta f.pm ∈ Spec.AbsFs.listing (a'.slots f.dir) := by
  obtain ⟨m, bytes, hsl, hlen⟩ := open_file_slot hI hA hf
  obtain ⟨gh', a', h1, _, h3, h4⟩ := step_abs hI hA (.flush h) trivial
  unfold absStep at h4
  rw [if_neg (abs_unlocked hI hA)] at h4
  have h5 : (a', (step s (.flush h)).2.result) = Spec.AbsFs.flushF a h := h4
  unfold Spec.AbsFs.flushF at h5
  rw [hf] at h5
  dsimp only at h5
  rw [if_neg (by rw [hd]; exact Bool.false_ne_true), if_neg (by rw [hv]; exact Bool.false_ne_true), hsl] at h5
  dsimp only at h5
  injection h5 with ha' hr
  have hlt : f.idx < (a.slots f.dir).length := (List.getElem?_eq_some_iff.1 hsl).1
  have hnew : (a'.slots f.dir)[f.idx]? = some (.file (storedMeta f.pm) bytes) := by
    rw [ha']
    unfold Spec.AbsFs.setSlot
    dsimp only
    rw [if_pos rfl]
    unfold Spec.AbsFs.put
    rw [if_pos hlt, List.getElem?_set_self hlt]
  have hsz : (storedMeta f.pm).size = bytes.length := by
    unfold storedMeta
    exact hlen.symm
  refine ⟨bytes, gh', a', hr, h1, h3, hnew, hsz, ?_⟩
  unfold Spec.AbsFs.listing
  exact List.mem_filterMap.2 ⟨_, List.mem_of_getElem? hnew, rfl⟩

end

end Sdmmc.Lemmas.AbsFs
