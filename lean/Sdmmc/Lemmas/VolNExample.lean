/-
Several open volumes: a checkable form of `VolInvN` for two volumes, and the example medium of `Props/C03Multi.lean`
— one device with a FAT16 volume in blocks 0 … 39 and a FAT32 volume in blocks 40 … 79 (the volumes of
`Lemmas/VolExample.lean`), both open.
-/
import Sdmmc.Lemmas.VolNInv
import Sdmmc.Lemmas.VolExample

namespace Sdmmc.Lemmas.VolN
open Sdmmc.Model Sdmmc.Model.Fat Sdmmc.Spec.Volume
open Sdmmc.Spec hiding NoFault Coherent run step

/-- `VolInvN` for two open volumes from the one-volume invariant of the two projections and decidable side conditions. -/
theorem volInvN_two {s : Mgr} {va vb : VolInfo} {ga gb : Ghost} (hv : s.vols = [va, vb])
    (ha : VolInv (proj s 0) ga) (hb : VolInv (proj s 1) gb)
    (hh : va.rawVolume ≠ vb.rawVolume) (hi : va.idx ≠ vb.idx)
    (hp : va.vol.lbaStart + va.vol.numBlocks ≤ vb.vol.lbaStart ∨ vb.vol.lbaStart + vb.vol.numBlocks ≤ va.vol.lbaStart)
    (hfv : ∀ f, f ∈ s.files → f.rawVolume = va.rawVolume ∨ f.rawVolume = vb.rawVolume)
    (hin : ∀ di, di ∈ s.dirs → di.rawVolume = va.rawVolume ∨ di.rawVolume = vb.rawVolume ∨ di.cluster = Gen.CLUSTER_ROOT_DIR) :
    VolInvN s [ga, gb] := by
  have h0 : s.vols[0]? = some va := by rw [hv]; rfl
  have h1 : s.vols[1]? = some vb := by rw [hv]; rfl
  have ea : proj s 0 = projH va.rawVolume 0 s := proj_eq_projH h0
  have eb : proj s 1 = projH vb.rawVolume 1 s := proj_eq_projH h1
  rw [ea] at ha
  rw [eb] at hb
  have hvola : va.vol = ga.vol := by
    rcases ha.vols with h | ⟨w, hw, hwv⟩
    · have : (projH va.rawVolume 0 s).vols = [va] := by show (s.vols[0]?).toList = _; rw [h0]; rfl
      rw [this] at h; cases h
    · have : (projH va.rawVolume 0 s).vols = [va] := by show (s.vols[0]?).toList = _; rw [h0]; rfl
      rw [this] at hw; cases hw; exact hwv
  have hvolb : vb.vol = gb.vol := by
    rcases hb.vols with h | ⟨w, hw, hwv⟩
    · have : (projH vb.rawVolume 1 s).vols = [vb] := by show (s.vols[1]?).toList = _; rw [h1]; rfl
      rw [this] at h; cases h
    · have : (projH vb.rawVolume 1 s).vols = [vb] := by show (s.vols[1]?).toList = _; rw [h1]; rfl
      rw [this] at hw; cases hw; exact hwv
  have hidx : ∀ (i : Nat) (vi : VolInfo) (gh : Ghost), s.vols[i]? = some vi → [ga, gb][i]? = some gh →
      (i = 0 ∧ vi = va ∧ gh = ga) ∨ (i = 1 ∧ vi = vb ∧ gh = gb) := by
    intro i vi gh hvi hgh
    rw [hv] at hvi
    match i, hvi, hgh with
    | 0, hvi, hgh => exact .inl ⟨rfl, by simpa using hvi.symm, by simpa using hgh.symm⟩
    | 1, hvi, hgh => exact .inr ⟨rfl, by simpa using hvi.symm, by simpa using hgh.symm⟩
    | n + 2, hvi, _ => simp at hvi
  have hdis : PartDisjoint va.vol vb.vol ∧ PartDisjoint vb.vol va.vol := by
    constructor <;> intro b h1 h2 <;> unfold InPartition at h1 h2 <;> omega
  refine
    { noFault := ha.noFault, coherent := ha.coherent, unlocked := ha.unlocked, len := by rw [hv]; rfl
      vols := ?_, handles := by rw [hv]; simp [hh], indices := by rw [hv]; simp [hi], parts := ?_, med := ?_
      fileVols := ?_, openDirs := ?_, inertDirs := ?_ }
  · intro i vi gh hvi hgh
    rcases hidx i vi gh hvi hgh with ⟨_, rfl, rfl⟩ | ⟨_, rfl, rfl⟩
    · exact hvola
    · exact hvolb
  · intro i j vi vj hvi hvj hij
    rw [hv] at hvi hvj
    match i, j, hvi, hvj, hij with
    | 0, 0, _, _, hij => exact absurd rfl hij
    | 1, 1, _, _, hij => exact absurd rfl hij
    | 0, 1, hvi, hvj, _ =>
      have e1 : vi = va := by simpa using hvi.symm
      have e2 : vj = vb := by simpa using hvj.symm
      rw [e1, e2]; exact hdis.1
    | 1, 0, hvi, hvj, _ =>
      have e1 : vi = vb := by simpa using hvi.symm
      have e2 : vj = va := by simpa using hvj.symm
      rw [e1, e2]; exact hdis.2
    | n + 2, _, hvi, _, _ => simp at hvi
    | 0, n + 2, _, hvj, _ => simp at hvj
    | 1, n + 2, _, hvj, _ => simp at hvj
  · intro i vi gh hvi hgh
    rcases hidx i vi gh hvi hgh with ⟨_, rfl, rfl⟩ | ⟨_, rfl, rfl⟩
    · exact ha.med
    · exact hb.med
  · intro f hf
    rcases hfv f hf with h | h
    · exact ⟨va, by rw [hv]; simp, h⟩
    · exact ⟨vb, by rw [hv]; simp, h⟩
  · intro di hdi i vi gh hvi hgh he
    rcases hidx i vi gh hvi hgh with ⟨_, rfl, rfl⟩ | ⟨_, rfl, rfl⟩
    · exact ha.openDirs di (List.mem_filter.2 ⟨hdi, by simpa using he⟩)
    · exact hb.openDirs di (List.mem_filter.2 ⟨hdi, by simpa using he⟩)
  · intro di hdi hno
    rcases hin di hdi with h | h | h
    · exact absurd h (hno va (by rw [hv]; simp))
    · exact absurd h (hno vb (by rw [hv]; simp))
    · exact h

/-! ### The example -/

namespace Example2
open Sdmmc.Lemmas.VolExample

/-- The FAT32 volume of `VolExample`, placed behind the FAT16 one: blocks 40 … 79, info sector 41, FAT copies 42 and 43,
data from block 44 (cluster `c` is block `c + 42`). -/
def vol32b : FatVolume := { vol32 with lbaStart := 40, infoLocation := 41 }

/-- One medium holding both volumes. -/
def disk2 : Disk :=
  (((((((disk16 0).set 41 info32Blk).set 42 fat32Blk).set 43 fat32Blk).set 44 root32Blk).set 45 sub32Blk).set 46
    (List.replicate 512 0x66)).set 47 (List.replicate 512 0x67)

/-- Both volumes open (handles 1 and 5), two directory handles on each (root and `SUB`), no file open; room for two
volumes, eight directories, four files. -/
def mgr2 : Mgr :=
  { dev := { disk := disk2 }, nextId := 10,
    vols := [{ rawVolume := 1, idx := 0, vol := vol16 }, { rawVolume := 5, idx := 1, vol := vol32b }],
    dirs := [{ rawDirectory := 2, rawVolume := 1, cluster := Gen.CLUSTER_ROOT_DIR }, { rawDirectory := 3, rawVolume := 1, cluster := 4 },
             { rawDirectory := 6, rawVolume := 5, cluster := Gen.CLUSTER_ROOT_DIR }, { rawDirectory := 7, rawVolume := 5, cluster := 3 }],
    maxVols := 2, maxDirs := 8, maxFiles := 4 }

def gh32b : Ghost := { gh32 with vol := vol32b }
def ghs2 : List Ghost := [gh1, gh32b]

theorem mgr2_inv : VolInvN mgr2 ghs2 :=
  volInvN_two (va := { rawVolume := 1, idx := 0, vol := vol16 }) (vb := { rawVolume := 5, idx := 1, vol := vol32b }) rfl
    (VolCheck.checkVolInv_sound _ _ (by decide +kernel)) (VolCheck.checkVolInv_sound _ _ (by decide +kernel))
    (by decide) (by decide) (by decide) (by intro f hf; cases hf) (by decide)

end Example2

end Sdmmc.Lemmas.VolN
