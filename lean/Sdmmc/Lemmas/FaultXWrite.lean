/-
C11, arbitrary fault placement — `write` UNDER ANY SCHEDULE, part 1: the loop invariant of `write`
(`WriteRefines.WInv`, on the state with the schedule erased) together with the relation of a loop state to the state the
call started from (`Asm`) re-assembles the invariant with lost chains (`asm_inv`, from `VolX.write_assemble`); and the
extension of the file's chain by one cluster as a loop state (`extend_winv`).
-/
import Sdmmc.Lemmas.FaultXWriteAsm
import Sdmmc.Lemmas.FaultXApi
import Sdmmc.Lemmas.FaultXAlloc
import Sdmmc.Lemmas.FaultXHintAlloc
import Sdmmc.Lemmas.RetryWriteL
import Sdmmc.Lemmas.FaultXWriteExt

namespace Sdmmc.Lemmas.FaultX
open Sdmmc.Model Sdmmc.Model.Fat Sdmmc.Spec.Volume Sdmmc.Lemmas.VolBase Sdmmc.Lemmas.VolTree
open Sdmmc.Spec hiding NoFault Coherent
open Sdmmc.Lemmas.VolDisk Sdmmc.Lemmas.VolMed Sdmmc.Lemmas.VolEng Sdmmc.Lemmas.VolX
open Sdmmc.Lemmas.FBasic (NoFault Coherent)
open Sdmmc.Lemmas.Retry Sdmmc.Lemmas.FaultInv Sdmmc.Lemmas.MHoare
open Sdmmc.Lemmas.WriteRefines (WInv WStep LoopFile MOK withChain_ne withChain_nil)

/-- The call: `s0` satisfies the invariant (lost chains `X`); slot `i` holds the record `f0` of a file on the open
volume `vi`; its chain is `cs0`, the chains being `withChain A cs0 B`. -/
structure WCtx (X : List (List Nat)) (s0 : Mgr) (gh : Ghost) (i : Nat) (f0 : FileInfo) (vi : VolInfo) (cs0 : List Nat)
    (A B : List (List Nat)) : Prop where
  inv : VolInvX X s0 gh
  file : s0.files[i]? = some f0
  vols : s0.vols = [vi]
  vol : vi.vol = gh.vol
  rv : f0.rawVolume = vi.rawVolume
  cs : chainOf gh.G f0.entry.cluster = cs0
  G : gh.G = withChain A cs0 B

/-- How a state `s` inside the call relates to `s0`: only device, cache, the record in slot `i` (now `f`) and the
bookkeeping of the volume record (now `v`) differ; the file's chain `cs` extends `cs0`; every block that is neither a FAT
block nor a block of `cs` is as in `s0`; the record keeps slot, name and volume and is marked modified. -/
structure Asm (s0 : Mgr) (gh : Ghost) (i : Nat) (f0 : FileInfo) (vi : VolInfo) (cs0 : List Nat)
    (s : Mgr) (f : FileInfo) (v : VolInfo) (cs : List Nat) : Prop where
  eq : mclr s = { s0 with dev := (mclr s).dev, cache := (mclr s).cache, files := s0.files.set i f, vols := s0.vols.set 0 v }
  vid : v = { vi with vol := v.vol }
  sg : SameGeom gh.vol v.vol
  pre : cs0 <+: cs
  frame : ∀ b, ¬ IsFatBlock gh.vol b → ¬ IsClusterBlock gh.vol cs b → s.dev.disk.get b = s0.dev.disk.get b
  key : fkey f = fkey f0
  name : f.entry.name = f0.entry.name
  attrs : AttrsOK f
  dirty : f.dirty = true
  rv : f.rawVolume = f0.rawVolume
  keep : cs = [] → f.entry.cluster = f0.entry.cluster

section
variable {X : List (List Nat)} {s0 : Mgr} {gh : Ghost} {i : Nat} {f0 : FileInfo} {vi : VolInfo} {cs0 : List Nat}
  {A B : List (List Nat)}

/-- **The invariant at a loop state**, from the facts the loop carries. -/
theorem asm_state {X' : List (List Nat)} (C : WCtx X s0 gh i f0 vi cs0 A B) {s : Mgr} {f : FileInfo} {v : VolInfo} {cs : List Nat}
    (ha : Asm s0 gh i f0 vi cs0 s f v cs)
    (hok : FileOK v.vol s.dev.disk f cs) (hcur : cs = [] → f.curCluster < 2)
    (hown : Owns v.vol s.dev.disk (withChain A cs B ++ X'))
    (hcoh : ∀ j, s.cache.tag = some j → s.cache.blk = s.dev.disk.get j) (hblk : BlocksOK s.dev.disk)
    (hhint : HintOK v.vol) :
    VolInvX X' (mclr s) { vol := v.vol, G := withChain A cs B, dirs := gh.dirs } := by
  have hunl : (mclr s).locked = false := by rw [ha.eq]; exact C.inv.unlocked
  exact VolX.write_assemble (s' := mclr s) C.inv C.file C.vols C.vol C.rv C.cs C.G ha.eq ha.vid ha.sg hok hcur ha.pre hown rfl hcoh
    hblk hunl hhint ha.frame ha.key ha.name ha.attrs ha.dirty ha.rv ha.keep

theorem asm_inv {X' : List (List Nat)} (C : WCtx X s0 gh i f0 vi cs0 A B) {s : Mgr} {f : FileInfo} {v : VolInfo} {cs : List Nat}
    (hW : WInv i 0 A (B ++ X') (mclr s) f v cs) (ha : Asm s0 gh i f0 vi cs0 s f v cs) :
    VolInvX X' (mclr s) { vol := v.vol, G := withChain A cs B, dirs := gh.dirs } := by
  obtain ⟨_, hcoh, hblk, _⟩ := hW.ok
  refine asm_state C ha hW.fileOK (fun e => absurd e hW.ne) ?_ hcoh hblk hW.hint
  rw [withChain_ne hW.ne]
  have : Owns v.vol s.dev.disk (A ++ [cs] ++ (B ++ X')) := hW.owns
  simpa [List.append_assoc] using this

theorem asm_invF {X' : List (List Nat)} (C : WCtx X s0 gh i f0 vi cs0 A B) {s : Mgr} {f : FileInfo} {v : VolInfo} {cs : List Nat}
    (hW : WInv i 0 A (B ++ X') (mclr s) f v cs) (ha : Asm s0 gh i f0 vi cs0 s f v cs) : InvF gh s :=
  ⟨_, X', asm_inv C hW ha, ha.sg⟩

end

/-! ### Engine calls from a state with a pending schedule -/

theorem withFaults_mclr' (s : Mgr) : withFaults s.dev.faults (mclr s) = s := by
  cases s with
  | mk dev cache nextId vols dirs files maxVols maxDirs maxFiles clock locked =>
    cases dev with
    | mk disk calls faults failed wlog rlog => rfl

section
variable {α : Type}

/-- `withVol_F`, for a state given with its schedule. -/
theorem withVolS_F {X' : List (List Nat)} {s : Mgr} {ghs : Ghost} (hI : VolInvX X' (mclr s) ghs) {vi : VolInfo} (hvs : s.vols = [vi])
    (hvol : vi.vol = ghs.vol) {f : F α} (hpre : FaultPre.Pre f) (hfs : Fault.F.Inv FaultsSame f) (hlen : Len f)
    (hgeo : Geo f) (hcoh : FaultCoh.CohT Fault.Coh f Fault.Coh) (hhint : HintOK (f (VolApi.fsOf s ghs)).2.vol)
    {dirs' : List (Nat × Nat)} (hd : ∀ c, ValidDir ghs.dirs c → ValidDir dirs' c)
    (hcr : CrashBase.CrashAll (MX ghs.vol s.files dirs') (VolApi.fsOf (mclr s) ghs) (f (VolApi.fsOf (mclr s) ghs)).2) :
    InvF ghs (withVol 0 f s).2 ∧
    ((withVol 0 f s = ((withVol 0 f (mclr s)).1, withFaults s.dev.faults (withVol 0 f (mclr s)).2)) ∨
      (withVol 0 f s).1 = .err .DeviceError) := by
  have h := withVol_F (s0 := mclr s) hI hvs hvol s.dev.faults hpre hfs hlen hgeo hcoh
    (by
      have : setFaults s.dev.faults (VolApi.fsOf (mclr s) ghs) = VolApi.fsOf s ghs := by
        have := congrArg (fun t => VolApi.fsOf t ghs) (withFaults_mclr' s)
        exact this
      rw [this]; exact hhint) hd hcr
  rw [withFaults_mclr' s] at h
  exact ⟨h.1, h.2.2.2⟩

/-- A read-only engine call under any schedule keeps the invariant up to the schedule, and the tables. -/
theorem withVol_ro_F {X' : List (List Nat)} {s : Mgr} {ghs : Ghost} (hI : VolInvX X' (mclr s) ghs) {v : VolInfo}
    (hv : s.vols[0]? = some v) {m : F α} (hm : FatOps.ReadOnly m) :
    VolInvX X' (mclr (withVol 0 m s).2) ghs ∧
    (withVol 0 m s).2 = { s with dev := (withVol 0 m s).2.dev, cache := (withVol 0 m s).2.cache } ∧
    (withVol 0 m s).2.dev.disk = s.dev.disk := by
  have hw := Retry.withVol_ro' 0 m hm s v hv
  have hro := hm (ReadRefines.fsOf s v)
  rw [hw]
  refine ⟨?_, rfl, hro.disk⟩
  exact VolX.volInv_ro (s' := mclr { s with dev := (m (ReadRefines.fsOf s v)).2.dev, cache := (m (ReadRefines.fsOf s v)).2.cache })
    hI hro.disk rfl (hro.coherent hI.coherent) rfl rfl rfl rfl hI.openDirs

end

/-! ### Transporting the relation to the start state -/

section
variable {X : List (List Nat)} {s0 : Mgr} {gh : Ghost} {i : Nat} {f0 : FileInfo} {vi : VolInfo} {cs0 : List Nat}
  {A B : List (List Nat)}

theorem asm_vols (C : WCtx X s0 gh i f0 vi cs0 A B) {s : Mgr} {f : FileInfo} {v : VolInfo} {cs : List Nat}
    (ha : Asm s0 gh i f0 vi cs0 s f v cs) : s.vols = [v] := by
  have : (mclr s).vols = s0.vols.set 0 v := by rw [ha.eq]
  rw [C.vols] at this
  exact this

theorem asm_files (_C : WCtx X s0 gh i f0 vi cs0 A B) {s : Mgr} {f : FileInfo} {v : VolInfo} {cs : List Nat}
    (ha : Asm s0 gh i f0 vi cs0 s f v cs) : s.files = s0.files.set i f := by
  have : (mclr s).files = s0.files.set i f := by rw [ha.eq]
  exact this

/-- The same tables and the same medium (a read-only engine call, whatever failed in it). -/
theorem asm_ro {s s' : Mgr} {f : FileInfo} {v : VolInfo} {cs : List Nat} (ha : Asm s0 gh i f0 vi cs0 s f v cs)
    (he : s' = { s with dev := s'.dev, cache := s'.cache }) (hd : s'.dev.disk = s.dev.disk) : Asm s0 gh i f0 vi cs0 s' f v cs := by
  refine ⟨?_, ha.vid, ha.sg, ha.pre, fun b h1 h2 => by rw [hd]; exact ha.frame b h1 h2, ha.key, ha.name, ha.attrs, ha.dirty, ha.rv, ha.keep⟩
  have e := ha.eq
  have e' : mclr s' = { mclr s with dev := (mclr s').dev, cache := (mclr s').cache } := by
    rw [he]; rfl
  rw [e', e]

/-- The chain extended by one cluster, same record. -/
theorem asm_extend {t tB : Mgr} {f : FileInfo} {v v1 : VolInfo} {cs : List Nat} {c : Nat}
    (ha : Asm s0 gh i f0 vi cs0 t f v cs)
    (he : mclr tB = { mclr t with dev := (mclr tB).dev, cache := (mclr tB).cache, vols := (mclr t).vols.set 0 v1 })
    (hv1 : v1 = { v with vol := v1.vol }) (hsg : SameGeom v.vol v1.vol)
    (hd : ∀ b, ¬ IsFatBlock v.vol b → tB.dev.disk.get b = t.dev.disk.get b) :
    Asm s0 gh i f0 vi cs0 tB f v1 (cs ++ [c]) := by
  refine ⟨?_, ?_, ha.sg.trans hsg, ha.pre.trans (List.prefix_append _ _), fun b h1 h2 => ?_, ha.key, ha.name, ha.attrs, ha.dirty, ha.rv,
    fun e => by simp at e⟩
  · rw [he, ha.eq]
    simp only [List.set_set]
  · rw [hv1, ha.vid]
  · rw [hd b (fun hf => h1 ((WriteRefines.sameGeom_isFatBlock ha.sg b).1 hf))]
    refine ha.frame b h1 fun ⟨x, hx, hb⟩ => h2 ⟨x, List.mem_append_left _ hx, hb⟩

end

/-! ### `locate` under any schedule -/

theorem mclr_of_noFault {t : Mgr} (h : t.dev.faults = []) : mclr t = t := by
  cases t with
  | mk dev cache nextId vols dirs files maxVols maxDirs maxFiles clock locked =>
    cases dev with
    | mk disk calls faults failed wlog rlog =>
      simp only at h
      subst h
      rfl

section
variable {X : List (List Nat)} {s0 : Mgr} {gh : Ghost} {i : Nat} {f0 : FileInfo} {vi : VolInfo} {cs0 : List Nat}
  {A B : List (List Nat)}

/-- The loop invariant after a read-only engine call (whatever failed in it). -/
theorem winv_ro {s s' : Mgr} {f : FileInfo} {v : VolInfo} {cs : List Nat} {B' : List (List Nat)}
    (hW : WInv i 0 A B' (mclr s) f v cs) (he : s' = { s with dev := s'.dev, cache := s'.cache })
    (hd : s'.dev.disk = s.dev.disk) (hc : ∀ j, s'.cache.tag = some j → s'.cache.blk = s'.dev.disk.get j) :
    WInv i 0 A B' (mclr s') f v cs := by
  obtain ⟨_, _, hblk, hunl⟩ := hW.ok
  have hfl : (mclr s').files = (mclr s).files := by rw [he]; rfl
  have hvl : (mclr s').vols = (mclr s).vols := by rw [he]; rfl
  have hdd : (mclr s').dev.disk = (mclr s).dev.disk := hd
  refine ⟨⟨rfl, hc, fun j => by rw [hdd]; exact hblk j, by rw [he]; exact hunl⟩, by rw [hfl]; exact hW.file,
    by rw [hvl]; exact hW.vol, hW.geom, hW.hint, by rw [hdd]; exact hW.fileOK, hW.ne, by rw [hdd]; exact hW.owns⟩

/-- **`locate` (find the block, extending the chain when the offset is at its end) under any schedule**: whatever
fails, the state it leaves satisfies the invariant up to the schedule — the cluster about to be linked may be lost. -/
theorem locate_F (C : WCtx X s0 gh i f0 vi cs0 A B) {s : Mgr} {f : FileInfo} {v : VolInfo} {cs : List Nat}
    (hW : WInv i 0 A (B ++ X) (mclr s) f v cs) (ha : Asm s0 gh i f0 vi cs0 s f v cs) :
    InvF gh (WriteRefines.locate 0 f s).2 := by
  have hI : VolInvX X (mclr s) { vol := v.vol, G := withChain A cs B, dirs := gh.dirs } := asm_inv C hW ha
  have hvs : s.vols = [v] := asm_vols C ha
  have hv0 : s.vols[0]? = some v := by rw [hvs]; rfl
  obtain ⟨hnf, hcoh, hblk, hunl⟩ := hW.ok
  have hcb := hW.cbpos
  -- the first `find_data_on_disk`
  obtain ⟨hI1, he1, hd1⟩ := withVol_ro_F hI hv0
    (Retry.findDataOnDisk_readOnly f.entry.cluster f.currentOffset (f.curClusterOff, f.curCluster))
  have hagree := (MAgree.withVol 0 (findDataOnDisk_agree f.entry.cluster f.currentOffset (f.curClusterOff, f.curCluster))) s
  have hinner := (Fault.MInner.withVol 0 (Fault.findDataOnDisk_inner f.entry.cluster f.currentOffset (f.curClusterOff, f.curCluster))) s
  unfold WriteRefines.locate
  rw [Fault.M.attempt_bind_apply]
  rcases hfw : withVol 0 (findDataOnDisk f.entry.cluster f.currentOffset (f.curClusterOff, f.curCluster)) s with ⟨r1, s1⟩
  rw [hfw] at hI1 he1 hd1 hagree hinner
  simp only at hI1 he1 hd1 hagree hinner
  have ha1 : Asm s0 gh i f0 vi cs0 s1 f v cs := asm_ro ha he1 hd1
  have hinv1 : InvF gh s1 := ⟨_, X, hI1, ha.sg⟩
  by_cases hq : s1.dev.failed = s.dev.failed
  swap
  · obtain ⟨st, hst⟩ := hinner hq
    subst hst
    exact hinv1
  -- no device call of the first find failed: it is the fault-free find
  have hff := hagree.2 hq
  have hW1 : WInv i 0 A (B ++ X) (mclr s1) f v cs := winv_ro hW he1 hd1 hI1.coherent
  have hvm : (mclr s).vols[0]? = some v := hv0
  have hle : f.currentOffset ≤ cs.length * clusterBytesLen v.vol := Nat.le_trans hW.fileOK.pos_le hW.fileOK.size_fits
  by_cases hin : f.currentOffset < cs.length * clusterBytesLen v.vol
  · -- inside the chain: nothing more happens
    have hklt : f.currentOffset / clusterBytesLen v.vol < cs.length := (Nat.div_lt_iff_lt_mul hcb).2 hin
    obtain ⟨c, hk⟩ : ∃ c, cs[f.currentOffset / clusterBytesLen v.vol]? = some c := ⟨_, List.getElem?_eq_getElem hklt⟩
    obtain ⟨fs1, hfind, hro1⟩ := ReadRefines.find_on_chain f cs (ReadRefines.fsOf (mclr s) v) f.currentOffset c hnf hcoh hW.geom hW.fileOK hk
    have hfindM := ReadRefines.withVol_ro 0 (findDataOnDisk f.entry.cluster f.currentOffset (f.curClusterOff, f.curCluster))
      (mclr s) v hvm (by rw [hfind]; exact hro1)
    rw [hfind] at hfindM
    rw [hfindM] at hff
    have hr1 := (Prod.mk.inj hff).1
    subst hr1
    exact hinv1
  · -- at the end of the chain: a cluster is appended
    have hoff : f.currentOffset = cs.length * clusterBytesLen v.vol := by omega
    have hlenpos : 0 < cs.length := List.length_pos_iff.2 hW.ne
    obtain ⟨last, hlast⟩ : ∃ last, cs[cs.length - 1]? = some last := ⟨_, List.getElem?_eq_getElem (by omega)⟩
    obtain ⟨fs1, hfind, hro1⟩ := ReadRefines.find_at_chain_end f cs (ReadRefines.fsOf (mclr s) v) last hnf hcoh hW.geom hW.fileOK hlast
    simp only [WriteRefines.fsOf_vol] at hfind
    rw [← hoff] at hfind
    have hfindM := ReadRefines.withVol_ro 0 (findDataOnDisk f.entry.cluster f.currentOffset (f.curClusterOff, f.curCluster))
      (mclr s) v hvm (by rw [hfind]; exact hro1)
    rw [hfind] at hfindM
    rw [hfindM] at hff
    have hr1 := (Prod.mk.inj hff).1
    subst hr1
    simp only
    rw [Fault.M.attempt_bind_apply]
    -- the allocation from `s1`
    have hvs1 : s1.vols = [v] := asm_vols C ha1
    obtain ⟨hnf1, hcoh1, hblk1, _⟩ := hW1.ok
    have hn1 : NoFault (ReadRefines.fsOf (mclr s1) v) := hnf1
    have hc1 : Coherent (ReadRefines.fsOf (mclr s1) v) := hcoh1
    have hlastE : last < endCluster v.vol :=
      (ChainL.chain_inRange hW1.chain last (List.mem_of_getElem? hlast)).2
    have hcases := CrashStep.alloc_cases (ReadRefines.fsOf (mclr s1) v) (some last) false hn1 hc1
    -- the crash points of the fault-free allocation
    have hcr : CrashBase.CrashAll (MX v.vol s1.files gh.dirs) (ReadRefines.fsOf (mclr s1) v)
        (allocCluster (some last) false (ReadRefines.fsOf (mclr s1) v)).2 := by
      rcases hcases with ⟨c, fs2, hal0⟩ | ⟨fs2, hal0, ro2⟩
      · obtain ⟨hWB, hsgB, hdB⟩ := WriteRefines.extend_winv i 0 A (B ++ X) (mclr s1) f v cs last c fs2 hW1 hlast hal0
        have hnfB : fs2.dev.faults = [] := hWB.ok.1
        generalize htB : ({ mclr s1 with dev := fs2.dev, cache := fs2.cache, vols := (mclr s1).vols.set 0 { v with vol := fs2.vol } } : Mgr) = tB at hWB
        have htBm : mclr tB = tB := mclr_of_noFault (by rw [← htB]; exact hnfB)
        have haB : Asm s0 gh i f0 vi cs0 tB f { v with vol := fs2.vol } (cs ++ [c]) :=
          asm_extend ha1 (by rw [htBm, ← htB]) rfl hsgB (by rw [← htB]; exact hdB)
        have hIB := asm_inv C (by rw [htBm]; exact hWB) haB
        rw [htBm] at hIB
        have hfl : tB.files = s1.files := by rw [← htB]; rfl
        have hdk : tB.dev.disk = fs2.dev.disk := by rw [← htB]
        have hMB := hIB.med
        rw [hfl, hdk] at hMB
        have hMB' := med_congr hMB hsgB.symm hW.hint hMB.blocksOK (fun _ _ => rfl) (fun _ _ => rfl)
        have hfin : MX v.vol s1.files gh.dirs fs2.dev.disk :=
          mx_of_med (gh := { vol := fs2.vol, G := withChain A (cs ++ [c]) B, dirs := gh.dirs }) hMB'
        rw [hal0]
        exact alloc_mx (gh := { vol := v.vol, G := withChain A cs B, dirs := gh.dirs }) hI1.med hn1 hc1
          (fun q hq' => by cases hq'; exact hlastE) hal0 hMB.blocksOK hfin
      · rw [hal0]
        exact CrashBase.CrashAll.of_ro ro2 (mx_of_med (gh := { vol := v.vol, G := withChain A cs B, dirs := gh.dirs }) hI1.med)
    obtain ⟨hinv2, hdich⟩ := withVolS_F hI1 hvs1 rfl (FaultPre.allocCluster_pre (some last) false)
      (Fault.allocCluster_inv (R := FaultsSame) (some last) false) (allocCluster_len _ _) (allocCluster_geo _ _)
      (FaultCoh.allocCluster_coh _ _) (allocCluster_hint (some last) false _ hW.hint) (fun _ h => h) hcr
    rcases hal : withVol 0 (allocCluster (some last) false) s1 with ⟨ra, s2⟩
    rw [hal] at hinv2 hdich
    simp only at hinv2 hdich
    have hinv2' : InvF gh s2 := hinv2.sameGeom ha.sg
    rcases hdich with hqe | hde
    swap
    · subst hde
      exact hinv2'
    -- the allocation hit no fault
    have hv1m : (mclr s1).vols[0]? = some v := by rw [show (mclr s1).vols = s1.vols from rfl, hvs1]; rfl
    have hrunM := WriteRefines.withVol_run 0 (allocCluster (some last) false) (mclr s1) v hv1m
    rcases hcases with ⟨c, fs2, hal0⟩ | ⟨fs2, hal0, ro2⟩
    · rw [hal0] at hrunM
      simp only at hrunM
      rw [hrunM] at hqe
      obtain ⟨hra, hs2⟩ := Prod.mk.inj hqe
      subst hra
      simp only
      rw [Fault.M.attempt_bind_apply]
      -- the second find, from the state with the chain extended
      obtain ⟨hWB, hsgB, hdB⟩ := WriteRefines.extend_winv i 0 A (B ++ X) (mclr s1) f v cs last c fs2 hW1 hlast hal0
      have hnfB : fs2.dev.faults = [] := hWB.ok.1
      have hm2 : mclr s2 = { mclr s1 with dev := fs2.dev, cache := fs2.cache, vols := (mclr s1).vols.set 0 { v with vol := fs2.vol } } := by
        rw [hs2]
        exact mclr_withFaults hnfB _
      have haB : Asm s0 gh i f0 vi cs0 s2 f { v with vol := fs2.vol } (cs ++ [c]) :=
        asm_extend ha1 (by rw [hm2]) rfl hsgB (by
          intro b hb
          have : s2.dev.disk = fs2.dev.disk := by rw [hs2]; rfl
          rw [this]; exact hdB b hb)
      have hIB := asm_inv C (by rw [hm2]; exact hWB) haB
      have hv2 : s2.vols[0]? = some { v with vol := fs2.vol } := by rw [asm_vols C haB]; rfl
      obtain ⟨hI3, _, _⟩ := withVol_ro_F hIB hv2
        (Retry.findDataOnDisk_readOnly f.entry.cluster f.currentOffset ((cs.length - 1) * clusterBytesLen v.vol, last))
      rcases hf2 : withVol 0 (findDataOnDisk f.entry.cluster f.currentOffset ((cs.length - 1) * clusterBytesLen v.vol, last)) s2 with ⟨r2, s3⟩
      rw [hf2] at hI3
      simp only at hI3
      have hinv3 : InvF gh s3 := ⟨_, X, hI3, haB.sg⟩
      cases r2 with
      | ok y =>
        obtain ⟨cc2, res⟩ := y
        cases res with
        | ok x => exact hinv3
        | err e => exact hinv3
        | panic m => exact hinv3
        | diverged => exact hinv3
      | err e => exact hinv3
      | panic m => exact hinv3
      | diverged => exact hinv3
    · rw [hal0] at hrunM
      simp only at hrunM
      rw [hrunM] at hqe
      obtain ⟨hra, _⟩ := Prod.mk.inj hqe
      subst hra
      exact hinv2'

end

/-! ### The loop of `write` under any schedule -/

section
variable {X : List (List Nat)} {s0 : Mgr} {gh : Ghost} {i : Nat} {f0 : FileInfo} {vi : VolInfo} {cs0 : List Nat}
  {A B : List (List Nat)}

/-- One stretch of the loop. -/
theorem asm_step {s s' : Mgr} {f f' : FileInfo} {v v' : VolInfo} {cs cs' : List Nat} (ha : Asm s0 gh i f0 vi cs0 s f v cs)
    (hst : WStep i 0 (mclr s) (mclr s') f' v') (hvid : v' = { v with vol := v'.vol }) (hsg : SameGeom v.vol v'.vol)
    (hpre : cs <+: cs') (hne : cs' ≠ [])
    (hfr : ∀ b, ¬ IsFatBlock v.vol b → ¬ IsClusterBlock v.vol cs' b → s'.dev.disk.get b = s.dev.disk.get b)
    (hl : LoopFile f f') (hattr : AttrsOK f') : Asm s0 gh i f0 vi cs0 s' f' v' cs' := by
  have hent := hl.entry
  refine ⟨?_, ?_, ha.sg.trans hsg, ha.pre.trans hpre, fun b h1 h2 => ?_, ?_, ?_, hattr, by rw [hl.dirty]; exact ha.dirty,
    by rw [hl.rawVolume]; exact ha.rv, fun e => absurd e hne⟩
  · rw [hst.eq, ha.eq]
    simp only [List.set_set]
  · rw [hvid, ha.vid]
  · rw [hfr b (fun hf => h1 ((WriteRefines.sameGeom_isFatBlock ha.sg b).1 hf))
      (fun hc => h2 ((WriteRefines.sameGeom_isClusterBlock ha.sg cs' b).1 hc))]
    exact ha.frame b h1 fun ⟨x, hx, hb⟩ => h2 ⟨x, hpre.mem hx, hb⟩
  · show (f'.entry.entryBlock, f'.entry.entryOffset) = _
    rw [hent]; exact ha.key
  · rw [hent]; exact ha.name

/-- **The loop of `write` under any fault schedule keeps the invariant** (up to the schedule). -/
theorem writeLoop_F (C : WCtx X s0 gh i f0 vi cs0 A B) :
    ∀ (fuel : Nat) (buffer : Bytes) (s : Mgr) (f : FileInfo) (v : VolInfo) (cs : List Nat),
      WInv i 0 A (B ++ X) (mclr s) f v cs → Asm s0 gh i f0 vi cs0 s f v cs →
      f.currentOffset + buffer.length ≤ Gen.MAX_FILE_SIZE → InvF gh (writeLoop i 0 fuel buffer s).2 := by
  intro fuel
  induction fuel with
  | zero => intro buffer s f v cs hW ha _; exact asm_invF C hW ha
  | succ fuel ih =>
    intro buffer s f v cs hW ha hmax
    by_cases hne : buffer = []
    · subst hne; rw [WriteRefines.writeLoop_nil]; exact asm_invF C hW ha
    have hfile : s.files[i]? = some f := hW.file
    rw [WriteRefines.writeLoop_succ i 0 fuel buffer f s hne (MHoare.getFile_ok hfile)]
    rcases hloc : WriteRefines.locate 0 f s with ⟨r1, s1⟩
    have hlocF := locate_F C hW ha
    rw [hloc] at hlocF
    by_cases hq1 : s1.dev.failed = s.dev.failed
    swap
    · obtain ⟨e, he⟩ := Retry.locate_reported 0 f s (by rw [hloc]; exact hq1)
      rw [hloc] at he
      simp only at he
      subst he
      rw [Fault.M.bind_err hloc]
      exact hlocF
    -- `locate` hit no fault: it is the fault-free `locate`
    have hclean : WriteRefines.locate 0 f (mclr s) = (r1, mclr s1) := by
      have := (Retry.locate_magree 0 f s).2 (by rw [hloc]; exact hq1)
      rw [hloc] at this; exact this
    rcases WriteRefines.locate_spec i 0 A (B ++ X) (mclr s) f v cs hW with
      ⟨c, t1, v1, cs1, hl, h1, hk1, hpre1, hsg1, hvid1, hstep1, hdisk1, _⟩ | ⟨t1, hl, h1, hstep1, hd1, _, _⟩
    · rw [hclean] at hl
      have hr1 := congrArg Prod.fst hl
      have ht1 : mclr s1 = t1 := congrArg Prod.snd hl
      simp only at hr1
      subst hr1; subst ht1
      rw [Fault.M.bind_ok hloc]
      dsimp only
      have hcbeq : clusterBytesLen v1.vol = clusterBytesLen v.vol := WriteRefines.sameGeom_clusterBytesLen hsg1
      have hctb : ∀ x, clusterToBlock v1.vol x = clusterToBlock v.vol x := WriteRefines.sameGeom_clusterToBlock hsg1
      generalize ht : min (512 - f.currentOffset % 512) buffer.length = t
      generalize hb : clusterToBlock v.vol c + f.currentOffset % clusterBytesLen v.vol / 512 = b
      generalize hwh : decide (f.currentOffset % 512 = 0 ∧ t = 512 - f.currentOffset % 512) = whole
      generalize hcc : (f.currentOffset / clusterBytesLen v.vol * clusterBytesLen v.vol, c) = cc
      have ha1 : Asm s0 gh i f0 vi cs0 s1 f v1 cs1 :=
        asm_step ha hstep1 hvid1 hsg1 hpre1 h1.ne (fun x hx _ => hdisk1 x hx) (LoopFile.refl f) ha.attrs
      have h1vol : s1.vols[0]? = some v1 := h1.vol
      have h1file : s1.files[i]? = some f := h1.file
      rcases hw : withVol 0 (writeBlockPart b (f.currentOffset % 512) (buffer.take t) whole) s1 with ⟨r2, s2⟩
      have hnotok : (∀ u, r2 ≠ .ok u) → InvF gh s2 := by
        intro hno
        have hrun := WriteRefines.withVol_run 0 (writeBlockPart b (f.currentOffset % 512) (buffer.take t) whole) s1 v1 h1vol
        rw [hw] at hrun
        have hr2 : (writeBlockPart b (f.currentOffset % 512) (buffer.take t) whole (ReadRefines.fsOf s1 v1)).1 ≠ .ok () := by
          rw [← (congrArg Prod.fst hrun)]; exact hno ()
        obtain ⟨hd, _, hv⟩ := Retry.writeBlockPart_fail b (f.currentOffset % 512) (buffer.take t) whole (ReadRefines.fsOf s1 v1) hr2
        have hs2 := congrArg Prod.snd hrun
        simp only at hs2
        have hvself : ({ v1 with vol := (writeBlockPart b (f.currentOffset % 512) (buffer.take t) whole (ReadRefines.fsOf s1 v1)).2.vol } : VolInfo) = v1 := by
          rw [hv]; rfl
        rw [hvself, ReadRefines.list_set_self _ _ _ h1vol] at hs2
        have hd2 : s2.dev.disk = s1.dev.disk := by rw [hs2]; exact hd
        have he2 : s2 = { s1 with dev := s2.dev, cache := s2.cache } := by rw [hs2]
        have hcoh2 : ∀ j, s2.cache.tag = some j → s2.cache.blk = s2.dev.disk.get j := by
          have hc0 : Fault.Coh (ReadRefines.fsOf s1 v1) := h1.ok.2.1
          obtain ⟨_, h2'⟩ := FaultCoh.writeBlockPart_coh b (f.currentOffset % 512) (buffer.take t) whole (ReadRefines.fsOf s1 v1) hc0
          have := h2' (fun a ha' => hr2 (by cases a; exact ha'))
          rw [hs2]; exact this
        exact asm_invF C (winv_ro h1 he2 hd2 hcoh2) (asm_ro ha1 he2 hd2)
      cases r2 with
      | err e => rw [Fault.M.bind_err hw]; exact hnotok (fun u hu => by cases hu)
      | panic m => rw [Fault.M.bind_panic hw]; exact hnotok (fun u hu => by cases hu)
      | diverged => rw [Fault.M.bind_diverged hw]; exact hnotok (fun u hu => by cases hu)
      | ok u =>
        have hq2 : s2.dev.failed = s1.dev.failed := by
          apply Classical.byContradiction
          intro hne2
          have := Retry.writeBlockPart_mstrict 0 b (f.currentOffset % 512) (buffer.take t) whole s1 (by rw [hw]; exact hne2)
          rw [hw] at this
          cases this
        rw [Fault.M.bind_ok hw]
        have hmod : modifyFile i (WriteRefines.bump cc t) s2 = (.ok (), { s2 with files := s2.files.modify i (WriteRefines.bump cc t) }) := rfl
        rw [Fault.M.bind_ok hmod]
        generalize hs3 : ({ s2 with files := s2.files.modify i (WriteRefines.bump cc t) } : Mgr) = s3
        have hboth : (withVol 0 (writeBlockPart b (f.currentOffset % 512) (buffer.take t) whole) >>= fun _ =>
            modifyFile i (WriteRefines.bump cc t)) s1 = (.ok (), s3) := by
          rw [Fault.M.bind_ok hw, hmod, hs3]
        have hclean2 := (Retry.finish_magree i 0 b (f.currentOffset % 512) (buffer.take t) whole (WriteRefines.bump cc t) s1).2
          (by rw [hboth, ← hs3]; exact hq2)
        rw [hboth] at hclean2
        obtain ⟨t3, hfin, h3, hprog3, _⟩ := WriteRefines.finish_spec i 0 A (B ++ X) (mclr s1) f v1 cs1 c buffer h1 (by rw [hcbeq]; exact hk1) hne
          t (by rw [← ht]) cc (by rw [hcbeq, ← hcc])
        rw [hcbeq, hctb, hb, hwh, hclean2] at hfin
        have ht3 : mclr s3 = t3 := congrArg Prod.snd hfin
        subst ht3
        have htle : t ≤ buffer.length := by rw [← ht]; exact Nat.min_le_right _ _
        have hsz : (WriteRefines.bump cc t f).entry.size ≤ Gen.MAX_FILE_SIZE := by
          rw [WriteRefines.bump_size]
          have := ha.attrs.2.2.2
          omega
        have hattr3 : AttrsOK (WriteRefines.bump cc t f) := by
          obtain ⟨a1, a2, a3, _⟩ := ha.attrs
          have he := (WriteRefines.bump_loopFile cc t f).entry
          refine ⟨by rw [he]; exact a1, by rw [he]; exact a2, by rw [he]; exact a3, hsz⟩
        have ha3 : Asm s0 gh i f0 vi cs0 s3 (WriteRefines.bump cc t f) v1 cs1 :=
          asm_step ha1 hprog3.step rfl (SameGeom.refl _) (List.prefix_refl _) h1.ne
            (fun x hx hc => hprog3.touch.disk x hx hc) (WriteRefines.bump_loopFile cc t f) hattr3
        refine ih (buffer.drop t) s3 (WriteRefines.bump cc t f) v1 cs1 h3 ha3 ?_
        rw [WriteRefines.bump_offset, List.length_drop]
        omega
    · -- the volume is full (no fault): the loop ends
      rw [hclean] at hl
      have hr1 := congrArg Prod.fst hl
      have ht1 : mclr s1 = t1 := congrArg Prod.snd hl
      simp only at hr1
      subst hr1; subst ht1
      rw [Fault.M.bind_err hloc]
      exact hlocF

end

end Sdmmc.Lemmas.FaultX
