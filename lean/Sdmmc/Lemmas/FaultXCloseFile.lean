/-
C11, arbitrary fault placement — `close_file` UNDER ANY SCHEDULE (`closeFile_faulted`), for a file whose entry on the
medium is not ahead of its record (`VolX.RawBelow`; it is, e.g., after a truncating open of a longer file).

`close_file` flushes (info sector, then the entry) and removes the handle WHATEVER the flush answered.  Every crash point
of the flush carries the invariant (`flush_crash_med`) and keeps `RawBelow` (`flush_crash_raw`: the info sector is no
directory block; the entry, once written, IS the record); the removal then keeps the invariant with lost chains
(`VolX.medX_drop_file`): a chain the closed record owned but the entry on the medium does not name becomes a lost chain.
-/
import Sdmmc.Lemmas.VolXDropFile
import Sdmmc.Lemmas.FaultXStep
import Sdmmc.Lemmas.FaultXApi

namespace Sdmmc.Lemmas.FaultX
open Sdmmc.Lemmas.FaultHist Sdmmc.Lemmas.VolX
open Sdmmc.Model Sdmmc.Model.Fat Sdmmc.Spec.Volume Sdmmc.Lemmas.VolBase Sdmmc.Lemmas.VolTree
open Sdmmc.Spec hiding NoFault Coherent
open Sdmmc.Lemmas.VolDisk Sdmmc.Lemmas.VolMed Sdmmc.Lemmas.VolApi Sdmmc.Lemmas.VolEng
open Sdmmc.Lemmas.FBasic (NoFault Coherent)
open Sdmmc.Lemmas.CrashBase Sdmmc.Lemmas.Retry Sdmmc.Lemmas.FaultPre Sdmmc.Lemmas.MHoare Sdmmc.Lemmas.FaultInv
open Sdmmc.Lemmas.Fault hiding resetLogs step_unlocked

theorem rawBelow_congr {ft : FatType} {d d' : Disk} {f : FileInfo}
    (h : d'.get f.entry.entryBlock = d.get f.entry.entryBlock) (hr : RawBelow ft d f) : RawBelow ft d' f := by
  unfold RawBelow rawSlot at *
  rw [h]; exact hr

section
variable {files : List FileInfo} {gh : Ghost} {X : List (List Nat)}

/-- `flush` of an open file, every crash point: the entry on the medium is not ahead of the record. -/
theorem flush_crash_raw {fs : FS} (hM : MedX fs.vol fs.dev.disk files gh X) (hn : NoFault fs) (hc : Coherent fs)
    {f : FileInfo} (hf : f ∈ files) (ho : f.entry.entryOffset + 32 ≤ 512) (hname : f.entry.name.length = 11)
    (hreg : regionOf fs.vol f.entry.entryBlock = .root ∨ regionOf fs.vol f.entry.entryBlock = .data)
    (hraw : RawBelow fs.vol.fatType fs.dev.disk f) :
    CrashAll (fun d => RawBelow fs.vol.fatType d f) fs (DirEntryIO.flushF f.entry fs).2 := by
  obtain ⟨fs1, hr1, hn1, hc1, hv1, hM1⟩ := updateInfo_med hM hn hc
  -- the info sector
  have hstep1 : ((fs1.dev.wlog = fs.dev.wlog ∧ fs1.dev.disk = fs.dev.disk) ∨
      ∃ b p, fs1.dev.wlog = (b, p) :: fs.dev.wlog ∧ fs1.dev.disk = fs.dev.disk.set b p) ∧
      fs1.dev.disk.get f.entry.entryBlock = fs.dev.disk.get f.entry.entryBlock := by
    by_cases hidle : fs.vol.fatType = .fat16 ∨ (fs.vol.freeClustersCount = none ∧ fs.vol.nextFreeCluster = none)
    · have := FatOps.updateInfoSector_idle fs hidle
      rw [hr1] at this
      have e1 : fs1 = fs := congrArg Prod.snd this
      rw [e1]; exact ⟨.inl ⟨rfl, rfl⟩, rfl⟩
    · have hft : fs.vol.fatType = .fat32 := by
        cases hf' : fs.vol.fatType with
        | fat16 => exact absurd (.inl hf') hidle
        | fat32 => rfl
      obtain ⟨s1, h1', _, _, _, hd1, hw1⟩ := DirEntryIO.updateInfoSector_state32 fs hn hc hft (fun h' => hidle (.inr h'))
      rw [hr1] at h1'
      have e1 : fs1 = s1 := congrArg Prod.snd h1'
      rw [e1]
      refine ⟨.inr ⟨_, _, hw1, hd1⟩, ?_⟩
      rw [hd1]
      apply FBasic.Disk.get_set_ne
      intro e
      have hgf := FatLens.geom_facts fs.vol hM.geom
      have := FatLens.info_block_in_info_region fs.vol hM.geom hft (by
        have := FatLens.fatsEnd_ge fs.vol hM.geom
        omega)
      rw [e] at this
      rcases hreg with hi | hi <;> rw [hi] at this <;> cases this
  have hraw1 : RawBelow fs.vol.fatType fs1.dev.disk f := rawBelow_congr hstep1.2 hraw
  -- the entry
  obtain ⟨fs2, hr2, hn2, hc2, hv2, hM2, hsync⟩ := flush_med hM1 hn1 hc1 hf
  obtain ⟨fs2', hr2', _, _, _, _, ⟨p, hw2, hd2⟩, _⟩ := DirEntryIO.writeEntry_frame fs1 f.entry hn1 hc1 hM1.blocksOK ho hname
  have e2 : fs2' = fs2 := by rw [hr2] at hr2'; exact (congrArg Prod.snd hr2').symm
  subst e2
  have hraw2 : RawBelow fs.vol.fatType fs2'.dev.disk f := by
    obtain ⟨h, hh, A, o, B, hO, hpo, _, _, _, _⟩ := file_object hM2.tree hf
    have ho2 : o ∈ objects h (dirSlots fs2'.vol fs2'.dev.disk gh.G h) := by rw [hO]; simp
    have hor := object_eq_rawSlot hM2 hh ho2 hpo
    obtain ⟨h1, h2⟩ := hsync h hh o ho2 hpo
    rw [hv1] at h1
    unfold RawBelow
    rw [← hor]
    exact .inr ⟨h1, Nat.le_of_eq h2⟩
  have hrun : DirEntryIO.flushF f.entry fs = (.ok (), fs2') := by
    unfold DirEntryIO.flushF
    rw [FBasic.bind_ok hr1, hr2]
  rw [hrun]
  exact (crash_le_one hstep1.1 hraw hraw1).trans (crash_le_one (.inr ⟨_, _, hw2, hd2⟩) hraw1 hraw2)

end

/-- What `Pre.transfer` says of the medium one engine call leaves, at the manager level. -/
theorem withVol_transfer {α : Type} {f : F α} (hf : Pre f) {s0 : Mgr} {gh : Ghost} {vi : VolInfo} (hvs : s0.vols = [vi])
    (hvol : vi.vol = gh.vol) (hn : NoFault (fsOf s0 gh)) (L : List Nat) {Q : Disk → Prop}
    (hcr : CrashAll Q (fsOf s0 gh) (f (fsOf s0 gh)).2) : Q (withVol 0 f (withFaults L s0)).2.dev.disk := by
  have hw := withVol_one f (s := withFaults L s0) (gh := gh) hvs hvol
  rw [fsOf_withFaults] at hw
  rw [hw]
  show Q (f (setFaults L (fsOf s0 gh))).2.dev.disk
  apply hf.transfer (setFaults L (fsOf s0 gh)) (P := Q)
  rw [clr_setFaults L _ hn]; exact hcr

/-- **`close_file` under any fault schedule** keeps the invariant up to the schedule and lost chains, when the entry of
the file on the medium is not ahead of its record. -/
theorem closeFile_faulted {X : List (List Nat)} {s0 : Mgr} {gh : Ghost} (hI : VolInvX X s0 gh) (L : List Nat) (file : Nat)
    (hraw : ∀ f, f ∈ s0.files → f.rawFile = file → RawBelow gh.vol.fatType s0.dev.disk f) :
    InvF gh (closeFile file (withFaults L s0)).2 := by
  have h0 : InvF gh (withFaults L s0) := invF_of hI L
  unfold closeFile
  rw [attempt_bind]
  cases hidx : s0.files.findIdx? (·.rawFile = file) with
  | none =>
    have hfl : flushFile file (withFaults L s0) = (.err .BadHandle, withFaults L s0) := by
      unfold flushFile
      rw [bind_err (getFileById_bad (s := withFaults L s0) hidx)]
    rw [hfl]
    simp only
    rw [bind_err (getFileById_bad (s := withFaults L s0) hidx)]
    exact h0
  | some i =>
    obtain ⟨f, hf, hpf⟩ := findIdx?_some_get hidx
    have hfm : f ∈ s0.files := List.mem_of_getElem? hf
    have hrawf : RawBelow gh.vol.fatType s0.dev.disk f := hraw f hfm (of_decide_eq_true hpf)
    have hI1 := flushFile_inv hI L file
    -- the tables and the entry after the flush
    have hfacts : (flushFile file (withFaults L s0)).2.files = s0.files ∧
        RawBelow gh.vol.fatType (flushFile file (withFaults L s0)).2.dev.disk f := by
      cases hd : f.dirty with
      | false =>
        rw [DirMgr.flushFile_clean file i f (withFaults L s0) (getFileById_ok (s := withFaults L s0) hidx)
          (getFile_ok (s := withFaults L s0) hf) hd]
        exact ⟨rfl, hrawf⟩
      | true =>
        obtain ⟨vi, hv, hvol, hrv, h3⟩ := vol_of_file hI hfm
        obtain ⟨hreg, ho, hname, hassert, _⟩ := VolX.file_slot_facts hI hfm
        obtain ⟨hn, hc, hM⟩ := volInv_fs hI
        have h3' : getVolumeById f.rawVolume (withFaults L s0) = (.ok 0, withFaults L s0) := by
          have : s0.vols.findIdx? (·.rawVolume = f.rawVolume) = some 0 := by rw [hv]; simp [hrv]
          exact getVolumeById_ok (s := withFaults L s0) this
        rw [DirMgr.flushFile_dirty file i 0 f (withFaults L s0) (getFileById_ok (s := withFaults L s0) hidx)
          (getFile_ok (s := withFaults L s0) hf) hd h3' hassert]
        refine ⟨?_, ?_⟩
        · rw [withVol_one (DirEntryIO.flushF f.entry) (s := withFaults L s0) (gh := gh) hv hvol]
          rfl
        · exact withVol_transfer (flushF_pre f.entry) hv hvol hn L
            (Q := fun d => RawBelow gh.vol.fatType d f) (flush_crash_raw hM hn hc hfm ho hname hreg hrawf)
    obtain ⟨hfiles1, hraw1⟩ := hfacts
    rcases hfl : flushFile file (withFaults L s0) with ⟨r, s1⟩
    rw [hfl] at hI1 hfiles1 hraw1
    simp only at hI1 hfiles1 hraw1 ⊢
    have hidx1 : s1.files.findIdx? (·.rawFile = file) = some i := by rw [hfiles1]; exact hidx
    rw [bind_ok (getFileById_ok hidx1), modify_bind]
    show InvF gh { s1 with files := swapRemove s1.files i }
    have hf1 : s1.files[i]? = some f := by rw [hfiles1]; exact hf
    have hM1 : MedX gh.vol s1.dev.disk s1.files gh X := hI1.med
    obtain ⟨G', X', hMd⟩ := medX_drop_file hM1 hf1 hraw1
    have hp := swapRemove_perm s1.files i f hf1
    have hsub : ∀ g, g ∈ swapRemove s1.files i → g ∈ s1.files :=
      fun g hg => (List.eraseIdx_sublist s1.files i).subset (hp.subset hg)
    refine ⟨{ vol := gh.vol, G := G', dirs := gh.dirs }, X', ?_, SameGeom.refl _⟩
    exact ⟨hI1.noFault, hI1.coherent, hI1.unlocked, hI1.maxVols, hI1.vols,
      ⟨hMd.blocksOK, hMd.geom, hMd.hint, hMd.owns, tree_files_perm hMd.tree hp.symm, fun g hg => hMd.fileOK g (hp.subset hg)⟩,
      fun g hg => hI1.fileVols g (hsub g hg), hI1.openDirs⟩

end Sdmmc.Lemmas.FaultX
