/-
C02 over arbitrary histories: histories with a moving clock refine the abstract file system too
(`fs_history_refines_clk`); with the 0x05 substitution every name is covered, so a history without
`open_volume` needs no hypothesis at all.
-/
import Sdmmc.Lemmas.AbsFsRemount2
import Sdmmc.Spec.ClockRun
import Sdmmc.Lemmas.NameE5

namespace Sdmmc.Lemmas.AbsFs
open Sdmmc.Model Sdmmc.Model.Fat Sdmmc.Spec.Volume Sdmmc.Lemmas.VolBase Sdmmc.Lemmas.VolTree
open Sdmmc.Spec hiding NoFault Coherent
open Sdmmc.Spec.AbsFs (Meta view storedMeta fatRound OpenFile OpenDir absStep absRun AInv Rounded Ev CEv runClk absRunClk
  evStep NoOpenVolume)
open Sdmmc.Lemmas.VolDisk Sdmmc.Lemmas.VolMed Sdmmc.Lemmas.VolApi Sdmmc.Lemmas.VolEng
open Sdmmc.Lemmas.MHoare

/-- Every name is covered (the 0x05 substitution, `Lemmas.NameE5`). -/
theorem nameOK_all (name : List Nat) : NameOK name := fun _ h => NameE5.createFromStr_first_byte h

theorem fsCovered_of_not_openVolume (v0 : FatVolume) (s : Mgr) {op : Op} (h : ∀ i, op ≠ .openVolume i) : FsCovered v0 s op := by
  cases op with
  | openVolume i => exact absurd rfl (h i)
  | openDir d n => exact nameOK_all n
  | openFile d n m => exact nameOK_all n
  | delete d n => exact nameOK_all n
  | mkdir d n => exact nameOK_all n
  | find d n => exact nameOK_all n
  | _ => trivial

/-- The clock is not part of the invariant … -/
theorem volInv_clock {s : Mgr} {gh : Ghost} (hI : VolInv s gh) (t : Timestamp) : VolInv { s with clock := t } gh :=
  ⟨hI.noFault, hI.coherent, hI.unlocked, hI.maxVols, hI.vols, hI.med, hI.fileVols, hI.openDirs⟩

/-- … and the abstraction mirrors it. -/
theorem abs_clock {s : Mgr} {gh : Ghost} {a : AState} (hA : Abs s gh a) (t : Timestamp) :
    Abs { s with clock := t } gh { a with clock := t } := by
  refine ⟨hA.nextId, hA.maxDirs, hA.maxFiles, rfl, hA.locked, hA.vols, hA.dirs, ?_, hA.ids, hA.slots⟩
  exact forall₂_mono hA.files fun af f _ h => ⟨h.handle, h.volume, h.mode, h.pos, h.pm, h.dirty, h.dirMem, h.slot⟩

/-- **Histories with a moving clock refine the abstract file system** (no `open_volume` in them: then there is
no hypothesis — every name is covered). -/
theorem fs_history_refines_clk : ∀ (es : List CEv) {s : Mgr} {gh : Ghost} {a : AState}, VolInv s gh → Abs s gh a →
    NoOpenVolume es →
    ∃ gh' a', VolInv (runClk s es).1 gh' ∧ SameGeom gh.vol gh'.vol ∧ Abs (runClk s es).1 gh' a' ∧
      absRunClk a (runClk s es).2 a'
  | [], _, gh, a, hI, hA, _ => ⟨gh, a, hI, SameGeom.refl _, hA, rfl⟩
  | .tick t :: es, s, gh, a, hI, hA, hn => by
    obtain ⟨gh', a', h1, h2, h3, h4⟩ := fs_history_refines_clk es (volInv_clock hI t) (abs_clock hA t) hn
    exact ⟨gh', a', h1, h2, h3, { a with clock := t }, rfl, h4⟩
  | .call op :: es, s, gh, a, hI, hA, hn => by
    have hop : ∀ i, op ≠ .openVolume i := by
      intro i e; subst e; exact hn
    have hn' : NoOpenVolume es := by
      cases op <;> first | exact hn | exact absurd rfl (hop _)
    obtain ⟨gh1, a1, h1, g1, hA1, hs1⟩ := fs_step_refines gh.vol hI hA (SameGeom.refl _) op
      (fsCovered_of_not_openVolume gh.vol s hop)
    obtain ⟨gh', a', h2, g2, h3, h4⟩ := fs_history_refines_clk es h1 hA1 hn'
    exact ⟨gh', a', h2, g1.trans g2, h3, a1, hs1, h4⟩

end Sdmmc.Lemmas.AbsFs
