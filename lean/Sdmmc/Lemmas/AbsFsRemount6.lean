/-
C02 over arbitrary histories, end to end on the manager side: a fresh manager mounts the medium a history
left and reads a file back (`fresh_reader`): `open_volume`, `open_root_dir`, `open_dir` along the path,
`open_file_in_dir … ReadOnly`, `file_length`, `read`, `iterate_dir` answer what the abstract tree of the
writer's final state holds in that slot.
-/
import Sdmmc.Lemmas.AbsFsRemount3
import Sdmmc.Lemmas.AbsFsRemount5
import Sdmmc.Lemmas.AbsFsTimesRun2

namespace Sdmmc.Lemmas.AbsFs
open Sdmmc.Model Sdmmc.Model.Fat Sdmmc.Spec.Volume Sdmmc.Lemmas.VolBase Sdmmc.Lemmas.VolTree
open Sdmmc.Spec hiding NoFault Coherent
open Sdmmc.Spec.AbsFs (Meta view storedMeta fatRound OpenFile OpenDir absStep absRun AInv Rounded Ev CEv runClk absRunClk
  evStep NoOpenVolume pathDir walkFrom walkEnd readerOps ParsesTo lookup listing volOpen)
open Sdmmc.Lemmas.VolDisk Sdmmc.Lemmas.VolMed Sdmmc.Lemmas.VolApi Sdmmc.Lemmas.VolEng
open Sdmmc.Lemmas.MHoare

/-- A path walks through existing directories only, so it reads the same in any tree that agrees on them. -/
theorem pathDir_congr {a : AState} (hA : AInv a) {slots' : Nat → List ASlot} (h : ∀ x, x ∈ a.ids → slots' x = a.slots x) :
    ∀ (p : List Bytes) (cur : Nat), cur ∈ a.ids →
      pathDir slots' cur p = pathDir a.slots cur p ∧ ∀ x, pathDir a.slots cur p = some x → x ∈ a.ids
  | [], cur, hc => ⟨rfl, fun x hx => by
      have : pathDir a.slots cur [] = some cur := rfl
      rw [this] at hx; rw [← Option.some.inj hx]; exact hc⟩
  | n :: ns, cur, hc => by
    have e1 : pathDir slots' cur (n :: ns) = (match lookup (slots' cur) n with
        | some i => (match (slots' cur)[i]? with | some (.dir _ t) => pathDir slots' t ns | _ => none)
        | none => none) := rfl
    have e2 : pathDir a.slots cur (n :: ns) = (match lookup (a.slots cur) n with
        | some i => (match (a.slots cur)[i]? with | some (.dir _ t) => pathDir a.slots t ns | _ => none)
        | none => none) := rfl
    rw [e1, e2, h cur hc]
    cases hlk : lookup (a.slots cur) n with
    | none => exact ⟨rfl, fun x hx => by cases hx⟩
    | some i =>
      dsimp only
      cases hsl : (a.slots cur)[i]? with
      | none => exact ⟨rfl, fun x hx => by cases hx⟩
      | some sl =>
        cases sl with
        | dir m t => exact pathDir_congr hA h ns t (hA.targets cur hc i m t hsl)
        | deleted => exact ⟨rfl, fun x hx => by cases hx⟩
        | frag raw => exact ⟨rfl, fun x hx => by cases hx⟩
        | file m b => exact ⟨rfl, fun x hx => by cases hx⟩

theorem fsCoveredRun_of_forall (v0 : FatVolume) : ∀ (ops : List Op) (s : Mgr), (∀ op, op ∈ ops → ∀ i, op ≠ .openVolume i) →
    FsCoveredRun v0 s ops
  | [], _, _ => trivial
  | op :: ops, s, h =>
    ⟨fsCovered_of_not_openVolume v0 s (h op List.mem_cons_self),
     fsCoveredRun_of_forall v0 ops _ fun o ho => h o (List.mem_cons_of_mem _ ho)⟩

theorem walkFrom_no_openVolume : ∀ (path : List (List Nat)) (d k : Nat) (op : Op), op ∈ walkFrom d k path →
    ∀ i, op ≠ .openVolume i
  | [], _, _, _, h, _ => by cases h
  | _ :: ns, _, k, op, h, i => by
    rcases List.mem_cons.1 h with rfl | h
    · intro e; cases e
    · exact walkFrom_no_openVolume ns k (k + 1) op h i

theorem readerOps_no_openVolume (v k : Nat) (path : List (List Nat)) (fname : List Nat) (n : Nat) (op : Op)
    (h : op ∈ readerOps v k path fname n) (i : Nat) : op ≠ .openVolume i := by
  unfold readerOps at h
  rcases List.mem_cons.1 h with rfl | h
  · intro e; cases e
  · rcases List.mem_append.1 h with h | h
    · exact walkFrom_no_openVolume path k (k + 1) op h i
    · simp only [List.mem_cons, List.mem_nil_iff, or_false] at h
      rcases h with rfl | rfl | rfl | rfl <;> (intro e; cases e)

theorem run_cons_snd (s : Mgr) (op : Op) (ops : List Op) :
    (run s (op :: ops)).2 = (step s op).2 :: (run (step s op).1 ops).2 := by
  show (match step s op with | (s', o) => match run s' ops with | (s'', os) => (s'', o :: os)).2 = _
  rfl

/-- **A fresh manager reads the file back.**  `s` has the invariant, an abstract counterpart `a`, no open file;
in `a`, the path of names leads from the root to directory `x`, where the file name is found at slot `j`, a file
with stored entry `m` and bytes `bytes`.  `t` is a fresh manager on the medium of `s`, which mounts (partition
`idx`, geometry of the volume); its generator does not wrap during the calls and it has room for the handles.
Then `open_volume`, `open_root_dir`, `open_dir` along the path, `open_file_in_dir … ReadOnly`, `file_length`,
`read n`, `iterate_dir` on `t` answer: the handles in order, the stored size `m.size`, the first `n` bytes of
`bytes`, and a listing showing exactly the entries of directory `x` of `a` — `m` among them. -/
theorem fresh_reader {s t : Mgr} {gh : Ghost} {a : AState} (hI : VolInv s gh) (hA : Abs s gh a) (hs : s.files = [])
    (hF : FreshOn s t) (idx : Nat) (w : FatVolume) (hm : mountPure (t.dev.disk.get 0) idx t.dev.disk.get = .ok w)
    (hsg : SameGeom gh.vol w)
    {path : List (List Nat)} {sfns : List Bytes} {fname : List Nat} {fs : Bytes} {x j : Nat} {m : Meta} {bytes : Bytes} (n : Nat)
    (hps : ParsesTo path sfns) (hp : pathDir a.slots 0 sfns = some x)
    (hfs : Sfn.createFromStr fname = .ok fs) (hlk : lookup (a.slots x) fs = some j)
    (hsl : (a.slots x)[j]? = some (.file m bytes))
    (hn : t.nextId + path.length + 3 < 4294967296) (hmd : path.length + 1 ≤ t.maxDirs) (hmf : 1 ≤ t.maxFiles) :
    ∃ es, (run t (.openVolume idx :: readerOps t.nextId (t.nextId + 1) path fname n)).2.map (·.result) =
        .ok (.handle t.nextId) :: (AbsFsTimes.handlesFrom (t.nextId + 1) (path.length + 2) ++
          [.ok (.num m.size), .ok (.bytes (bytes.take n)), .ok (.entries es)]) ∧
      es.map view = listing (a.slots x) ∧ m ∈ es.map view := by
  have hAI : AInv a := ainv_of_abs hI hA hs
  obtain ⟨gh', a', hres, hI', _, hA', hids, hslots, hvols, hdirs, hfiles, hnext, hmaxd, hmaxf, _, hlocked⟩ :=
    remount_same_tree hI hA hs hF idx w hm hsg
  have hnext' : a'.nextId = t.nextId + 1 := by rw [hnext]; exact Nat.mod_eq_of_lt (by omega)
  -- the reader's history on the mounted manager
  obtain ⟨gh'', a'', _, _, _, hrun⟩ := fs_history_refines gh'.vol (readerOps t.nextId (t.nextId + 1) path fname n) hI' hA'
    (SameGeom.refl _) (fsCoveredRun_of_forall _ _ _ (readerOps_no_openVolume _ _ _ _ _))
  have hroot : (0 : Nat) ∈ a.ids := hAI.root
  obtain ⟨hpc, hxin⟩ := pathDir_congr hAI (slots' := a'.slots) hslots sfns 0 hroot
  have hx : x ∈ a.ids := hxin x hp
  have hv : volOpen a' t.nextId = true := by unfold volOpen; rw [hvols]; simp
  rw [← hnext'] at hrun
  obtain ⟨es, hrs, hes⟩ := AbsFsTimes.reader_run (a := a') (v := t.nextId) hlocked hdirs hfiles hv
    (by rw [hnext']; omega) (by rw [hmaxd]; exact hmd) (by rw [hmaxf]; exact hmf) hps (by rw [hpc]; exact hp) hfs
    (by rw [hslots x hx]; exact hlk) (by rw [hslots x hx]; exact hsl) hrun
  refine ⟨es, ?_, by rw [hes, hslots x hx], ?_⟩
  · rw [hnext'] at hrs
    rw [run_cons_snd, List.map_cons, hres, hrs]
  · rw [hes, hslots x hx]
    exact AbsFsTimes.mem_listing hsl

end Sdmmc.Lemmas.AbsFs
