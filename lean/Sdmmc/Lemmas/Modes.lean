/-
Lemmas for C07 (open modes, read-only protection, file/directory typing).

Part 1: the directory lookup never writes (`RO`, by induction on the walk functions of
`Sdmmc.Model.Fat`), so the state after the lookup is the state before it up to the read side of
the device (call counter, read log, failure count) and the cache.
Part 2: the decision logic of `open_file_in_dir`, `delete_file_in_dir`, `make_dir_in_dir`,
`open_dir`, `write`, parametrised by the outcome of the lookup (which is never unfolded).
-/
import Sdmmc.Lemmas.MHoare

namespace Sdmmc.Lemmas.Modes
open Sdmmc.Model Sdmmc.Lemmas.MHoare Sdmmc.Gen

/-! ### Read-only FAT computations -/

/-- `f` never writes: write log, medium, fault plan and volume record are as before. -/
def RO {α} (f : F α) : Prop :=
  ∀ s, (f s).2.dev.wlog = s.dev.wlog ∧ (f s).2.dev.disk = s.dev.disk ∧ (f s).2.dev.faults = s.dev.faults ∧
    (f s).2.vol = s.vol

theorem fbind_def {α β} (m : F α) (f : α → F β) (s : FS) :
    (m >>= f) s = (match m s with
      | (.ok a, s') => f a s'
      | (.err e, s') => (.err e, s')
      | (.panic msg, s') => (.panic msg, s')
      | (.diverged, s') => (.diverged, s')) := rfl

theorem ro_pure {α} (a : α) : RO (pure a : F α) := fun _ => ⟨rfl, rfl, rfl, rfl⟩
theorem ro_fail {α} (e : Err) : RO (F.fail e : F α) := fun _ => ⟨rfl, rfl, rfl, rfl⟩
theorem ro_panic {α} (m : String) : RO (F.panic m : F α) := fun _ => ⟨rfl, rfl, rfl, rfl⟩
theorem ro_diverge {α} : RO (F.diverge : F α) := fun _ => ⟨rfl, rfl, rfl, rfl⟩
theorem ro_lift {α} (r : Res α) : RO (F.lift r) := fun _ => ⟨rfl, rfl, rfl, rfl⟩
theorem ro_getVol : RO F.getVol := fun _ => ⟨rfl, rfl, rfl, rfl⟩
theorem ro_cacheBlk : RO cacheBlk := fun _ => ⟨rfl, rfl, rfl, rfl⟩
theorem ro_attempt {α} {m : F α} (h : RO m) : RO (F.attempt m) := fun s => h s

theorem ro_bind {α β} {m : F α} {f : α → F β} (hm : RO m) (hf : ∀ a, RO (f a)) : RO (m >>= f) := by
  intro s
  have h1 := hm s
  rw [fbind_def]
  rcases hms : m s with ⟨r, s'⟩
  rw [hms] at h1
  cases r with
  | ok a =>
    have h2 := hf a s'
    exact ⟨h2.1.trans h1.1, h2.2.1.trans h1.2.1, h2.2.2.1.trans h1.2.2.1, h2.2.2.2.trans h1.2.2.2⟩
  | err e => exact h1
  | panic msg => exact h1
  | diverged => exact h1

theorem ro_ite {α} {c : Prop} [Decidable c] {a b : F α} (ha : RO a) (hb : RO b) : RO (if c then a else b) := by
  split <;> assumption

theorem ro_devRead (idx : Nat) : RO (devRead idx) := by
  intro s
  unfold devRead
  dsimp only
  split <;> exact ⟨rfl, rfl, rfl, rfl⟩

theorem ro_cacheRead (idx : Nat) : RO (cacheRead idx) := by
  intro s
  unfold cacheRead
  split
  · exact ⟨rfl, rfl, rfl, rfl⟩
  · have h := ro_devRead idx { s with cache := { s.cache with tag := none } }
    split
    · next s' heq => rw [heq] at h; exact h
    · next r s' _ heq => rw [heq] at h; exact h

syntax "ro_step" : tactic
macro_rules
  | `(tactic| ro_step) => `(tactic| with_reducible first
    | exact ro_pure _
    | exact ro_fail _
    | exact ro_panic _
    | exact ro_diverge
    | exact ro_lift _
    | exact ro_getVol
    | exact ro_cacheBlk
    | exact ro_cacheRead _
    | assumption
    | apply ro_attempt
    | apply ro_bind
    | apply ro_ite
    | intro _)
macro "ro" : tactic => `(tactic| repeat' (first | ro_step | with_reducible split))

theorem ro_nextCluster (c : Nat) : RO (Fat.nextCluster c) := by unfold Fat.nextCluster; ro

theorem ro_findBlocks (name : Bytes) : ∀ n b, RO (Fat.findBlocks name n b) := by
  intro n
  induction n with
  | zero => intro b; unfold Fat.findBlocks; ro
  | succ n ih => intro b; unfold Fat.findBlocks; ro; exact ih _

theorem ro_findWalk (name : Bytes) : ∀ fuel w, RO (Fat.findWalk name fuel w) := by
  intro fuel
  induction fuel with
  | zero => intro w; unfold Fat.findWalk; ro
  | succ n ih =>
    intro w; unfold Fat.findWalk
    have := ro_findBlocks name
    have := ro_nextCluster
    ro
    all_goals first | exact ih _ | exact ro_findBlocks _ _ _ | exact ro_nextCluster _

theorem ro_findDirectoryEntry (c : Nat) (name : Bytes) : RO (Fat.findDirectoryEntry c name) := by
  unfold Fat.findDirectoryEntry; ro; exact ro_findWalk _ _ _


/-! ### `open_file_in_dir` after the lookup -/

/-- What `open_file_in_dir` does once the directory lookup has answered `r`: the text of
`Sdmmc.Model.openFileInDir` from that point on (`openFileInDir_eq` checks the copy by `rfl`). -/
def openFileTail (d : DirInfo) (volIdx : Nat) (sfn : Bytes) (mode : Mode) (r : Res DirEntry) : M Nat := do
  let volumeId := d.rawVolume
  let dirEntry ← (match r with
    | .ok e => pure (some e)
    | .err .NotFound =>
      if mode = .ReadWriteCreate ∨ mode = .ReadWriteCreateOrTruncate ∨ mode = .ReadWriteCreateOrAppend
      then pure none else M.fail .NotFound
    | other => M.lift (other.bind fun _ => .ok none) : M (Option DirEntry))
  let s ← M.get
  match dirEntry with
  | some e => if fileIsOpen s volumeId e then M.fail .FileAlreadyOpen else pure ()
  | none => pure ()
  let mode := solveModeVariant mode dirEntry.isSome
  match mode, dirEntry with
  | .ReadWriteCreate, some _ => M.fail .FileAlreadyExists
  | .ReadWriteCreate, none => do
    let volIdx ← getVolumeById volumeId
    let now := s.clock
    let entry ← withVol volIdx (Fat.writeNewDirectoryEntry d.cluster sfn 0 CLUSTER_EMPTY now)
    let id ← generate
    let file : FileInfo := { rawFile := id, rawVolume := volumeId, curClusterOff := 0, curCluster := entry.cluster,
                             currentOffset := 0, mode := mode, entry := entry, dirty := false }
    M.modify fun s => { s with files := s.files ++ [file] }
    pure id
  | _, none => M.panic "called `Option::unwrap()` on a `None` value"
  | _, some e => do
    if Attr.isReadOnly e.attributes ∧ mode ≠ .ReadOnly then M.fail .ReadOnly else
    if Attr.isDirectory e.attributes then M.fail .OpenedDirAsFile else
    if fileIsOpen s volumeId e then M.fail .FileAlreadyOpen else
    let mode := solveModeVariant mode true
    let id ← generate
    let base : FileInfo := { rawFile := id, rawVolume := volumeId, curClusterOff := 0, curCluster := e.cluster,
                             currentOffset := 0, mode := mode, entry := e, dirty := false }
    let file ← (match mode with
      | .ReadOnly => pure base
      | .ReadWriteAppend => pure { base with currentOffset := e.size }
      | .ReadWriteTruncate => do
        withVol volIdx (Fat.truncateClusterChain e.cluster)
        let f := base.updateLength 0
        let f := { f with entry := { f.entry with mtime := s.clock } }
        withVol volIdx (Fat.writeEntryToDisk f.entry)
        pure f
      | _ => M.fail .Unsupported : M FileInfo)
    M.modify fun s => { s with files := s.files ++ [file] }
    pure id

/-- `openFileInDir` with its tail named. -/
def openFileInDirAlt (directory : Nat) (name : List Nat) (mode : Mode) : M Nat := do
  let s ← M.get
  if s.files.length ≥ s.maxFiles then M.fail .TooManyOpenFiles else
  let dirIdx ← getDirById directory
  let d ← getDir dirIdx
  let volIdx ← getVolumeById d.rawVolume
  let sfn ← toSfn name
  let r ← M.attempt (withVol volIdx (Fat.findDirectoryEntry d.cluster sfn))
  openFileTail d volIdx sfn mode r

theorem openFileInDir_eq (d : Nat) (name : List Nat) (mode : Mode) :
    openFileInDir d name mode = openFileInDirAlt d name mode := rfl


section
variable (d : DirInfo) (vi : Nat) (sfn : Bytes) (s : Mgr)

theorem tail_notFound (mode : Mode)
    (hm : mode = .ReadOnly ∨ mode = .ReadWriteAppend ∨ mode = .ReadWriteTruncate) :
    openFileTail d vi sfn mode (.err .NotFound) s = (.err .NotFound, s) := by
  rcases hm with rfl | rfl | rfl <;> rfl

theorem tail_err (mode : Mode) (e : Err) (he : e ≠ .NotFound) :
    openFileTail d vi sfn mode (.err e) s = (.err e, s) := by
  cases e <;> first | rfl | exact absurd rfl he

theorem tail_panic (mode : Mode) (m : String) : openFileTail d vi sfn mode (.panic m) s = (.panic m, s) := rfl
theorem tail_diverged (mode : Mode) : openFileTail d vi sfn mode .diverged s = (.diverged, s) := rfl

theorem tail_open (mode : Mode) (e : DirEntry) (h : fileIsOpen s d.rawVolume e = true) :
    openFileTail d vi sfn mode (.ok e) s = (.err .FileAlreadyOpen, s) := by
  unfold openFileTail
  rw [MHoare.pure_bind, get_bind]
  dsimp only
  rw [if_pos h]
  rfl

theorem tail_exists (e : DirEntry) (h : fileIsOpen s d.rawVolume e = false) :
    openFileTail d vi sfn .ReadWriteCreate (.ok e) s = (.err .FileAlreadyExists, s) := by
  unfold openFileTail
  rw [MHoare.pure_bind, get_bind]
  dsimp only
  rw [if_neg (by rw [h]; exact Bool.false_ne_true)]
  rfl

theorem tail_readOnlyAttr (mode : Mode) (e : DirEntry) (h : fileIsOpen s d.rawVolume e = false)
    (hm : mode ≠ .ReadWriteCreate) (hm2 : mode ≠ .ReadOnly) (ha : Attr.isReadOnly e.attributes = true) :
    openFileTail d vi sfn mode (.ok e) s = (.err .ReadOnly, s) := by
  unfold openFileTail
  rw [MHoare.pure_bind, get_bind]
  dsimp only
  rw [if_neg (by rw [h]; exact Bool.false_ne_true)]
  cases mode <;> first | exact absurd rfl hm | exact absurd rfl hm2 | skip
  all_goals
    show (if Attr.isReadOnly e.attributes = true ∧ _ ≠ Mode.ReadOnly then M.fail Err.ReadOnly else _) s = _
    rw [if_pos ⟨ha, by simp [solveModeVariant]⟩]
    rfl

theorem tail_dirAsFile (mode : Mode) (e : DirEntry) (h : fileIsOpen s d.rawVolume e = false)
    (hm : mode ≠ .ReadWriteCreate) (hro : Attr.isReadOnly e.attributes = false ∨ mode = .ReadOnly)
    (hd : Attr.isDirectory e.attributes = true) :
    openFileTail d vi sfn mode (.ok e) s = (.err .OpenedDirAsFile, s) := by
  unfold openFileTail
  rw [MHoare.pure_bind, get_bind]
  dsimp only
  rw [if_neg (by rw [h]; exact Bool.false_ne_true)]
  have hno : ∀ m', (m' = Mode.ReadOnly ↔ mode = .ReadOnly) →
      ¬ (Attr.isReadOnly e.attributes = true ∧ m' ≠ Mode.ReadOnly) := by
    intro m' hm' ⟨h1, h2⟩
    rcases hro with hro | hro
    · rw [hro] at h1; cases h1
    · exact h2 (hm'.2 hro)
  cases mode <;> first | exact absurd rfl hm | skip
  all_goals
    show (if Attr.isReadOnly e.attributes = true ∧ _ ≠ Mode.ReadOnly then M.fail Err.ReadOnly else
      if Attr.isDirectory e.attributes = true then _ else _) s = _
    rw [if_neg (hno _ (by simp [solveModeVariant])), if_pos hd]
    rfl

/-- The record of a file opened on an existing entry. -/
def openedFile (d : DirInfo) (id : Nat) (e : DirEntry) (mode : Mode) (offset : Nat) : FileInfo :=
  { rawFile := id, rawVolume := d.rawVolume, curClusterOff := 0, curCluster := e.cluster,
    currentOffset := offset, mode := mode, entry := e, dirty := false }

theorem tail_readOnly (e : DirEntry) (h : fileIsOpen s d.rawVolume e = false)
    (hd : Attr.isDirectory e.attributes = false) :
    openFileTail d vi sfn .ReadOnly (.ok e) s =
      (.ok s.nextId, { s with nextId := (s.nextId + 1) % 4294967296,
                              files := s.files ++ [openedFile d s.nextId e .ReadOnly 0] }) := by
  unfold openFileTail
  rw [MHoare.pure_bind, get_bind]
  dsimp only
  rw [if_neg (by rw [h]; exact Bool.false_ne_true)]
  show (if Attr.isReadOnly e.attributes = true ∧ _ ≠ Mode.ReadOnly then M.fail Err.ReadOnly else
      if Attr.isDirectory e.attributes = true then _ else
      if fileIsOpen s d.rawVolume e = true then _ else _) s = _
  rw [if_neg (by simp [solveModeVariant]), if_neg (by rw [hd]; exact Bool.false_ne_true),
    if_neg (by rw [h]; exact Bool.false_ne_true)]
  rfl

theorem tail_append (mode : Mode) (e : DirEntry) (hm : mode = .ReadWriteAppend ∨ mode = .ReadWriteCreateOrAppend)
    (h : fileIsOpen s d.rawVolume e = false) (hro : Attr.isReadOnly e.attributes = false)
    (hd : Attr.isDirectory e.attributes = false) :
    openFileTail d vi sfn mode (.ok e) s =
      (.ok s.nextId, { s with nextId := (s.nextId + 1) % 4294967296,
                              files := s.files ++ [openedFile d s.nextId e .ReadWriteAppend e.size] }) := by
  unfold openFileTail
  rw [MHoare.pure_bind, get_bind]
  dsimp only
  rw [if_neg (by rw [h]; exact Bool.false_ne_true)]
  rcases hm with rfl | rfl
  all_goals
    show (if Attr.isReadOnly e.attributes = true ∧ _ ≠ Mode.ReadOnly then M.fail Err.ReadOnly else
        if Attr.isDirectory e.attributes = true then _ else
        if fileIsOpen s d.rawVolume e = true then _ else _) s = _
    rw [if_neg (by rw [hro]; simp), if_neg (by rw [hd]; exact Bool.false_ne_true),
      if_neg (by rw [h]; exact Bool.false_ne_true)]
    rfl
end
/-! ### The lookup step -/

/-- `d` is an open directory handle with record `dir`, the volume of `dir` is open at slot `vi`,
and `name` is a valid 8.3 name with on-disk form `sfn`.  Same body as `Sdmmc.Props.C07.DirCtx`. -/
def DirCtx (s : Mgr) (d : Nat) (name : List Nat) (dir : DirInfo) (vi : Nat) (sfn : Bytes) : Prop :=
  (∃ di, s.dirs.findIdx? (·.rawDirectory = d) = some di ∧ s.dirs[di]? = some dir) ∧
  s.vols.findIdx? (·.rawVolume = dir.rawVolume) = some vi ∧
  Sfn.createFromStr name = .ok sfn

/-- The directory lookup all the calls of C07 start with. -/
def lookup (vi : Nat) (dir : DirInfo) (sfn : Bytes) : M DirEntry :=
  withVol vi (Fat.findDirectoryEntry dir.cluster sfn)

theorem set_self {α} (l : List α) (i : Nat) (x : α) (h : l[i]? = some x) : l.set i x = l := by
  apply List.ext_getElem?
  intro j
  rw [List.getElem?_set]
  split
  · next hij =>
    subst hij
    split
    · exact h.symm
    · next hlt => simp at hlt; simp [hlt] at h
  · rfl

/-- A never-writing FAT computation run through `withVol` changes only the read side of the device
and the cache. -/
theorem withVol_ro_state {α} (vi : Nat) (f : F α) (hf : RO f) (s : Mgr) :
    (withVol vi f s).2 =
      { s with dev := { s.dev with calls := (withVol vi f s).2.dev.calls, rlog := (withVol vi f s).2.dev.rlog,
                                   failed := (withVol vi f s).2.dev.failed },
               cache := (withVol vi f s).2.cache } := by
  unfold withVol
  cases hv : s.vols[vi]? with
  | none => rfl
  | some x =>
    dsimp only
    obtain ⟨h1, h2, h3, h4⟩ := hf { dev := s.dev, cache := s.cache, vol := x.vol }
    generalize f { dev := s.dev, cache := s.cache, vol := x.vol } = p at h1 h2 h3 h4
    obtain ⟨r, ⟨dev', cache', vol'⟩⟩ := p
    obtain ⟨disk', calls', faults', wlog', rlog', failed'⟩ := dev'
    dsimp only at h1 h2 h3 h4 ⊢
    subst h1 h2 h3 h4
    rw [set_self s.vols vi _ hv]

theorem lookup_state (vi : Nat) (dir : DirInfo) (sfn : Bytes) (s : Mgr) :
    (lookup vi dir sfn s).2 =
      { s with dev := { s.dev with calls := (lookup vi dir sfn s).2.dev.calls,
                                   rlog := (lookup vi dir sfn s).2.dev.rlog,
                                   failed := (lookup vi dir sfn s).2.dev.failed },
               cache := (lookup vi dir sfn s).2.cache } :=
  withVol_ro_state vi _ (ro_findDirectoryEntry _ _) s

theorem lookup_writes_nothing (vi : Nat) (dir : DirInfo) (sfn : Bytes) (s : Mgr) :
    (lookup vi dir sfn s).2.dev.wlog = s.dev.wlog ∧ (lookup vi dir sfn s).2.dev.disk = s.dev.disk := by
  rw [lookup_state]; exact ⟨rfl, rfl⟩

theorem lookup_tables (vi : Nat) (dir : DirInfo) (sfn : Bytes) (s : Mgr) :
    (lookup vi dir sfn s).2.files = s.files ∧ (lookup vi dir sfn s).2.dirs = s.dirs ∧
    (lookup vi dir sfn s).2.vols = s.vols ∧ (lookup vi dir sfn s).2.nextId = s.nextId := by
  rw [lookup_state]; exact ⟨rfl, rfl, rfl, rfl⟩

theorem fileIsOpen_lookup (vi : Nat) (dir : DirInfo) (sfn : Bytes) (s : Mgr) (v : Nat) (e : DirEntry) :
    fileIsOpen (lookup vi dir sfn s).2 v e = fileIsOpen s v e := by
  unfold fileIsOpen; rw [(lookup_tables vi dir sfn s).1]

theorem toSfn_ok {name : List Nat} {sfn : Bytes} (h : Sfn.createFromStr name = .ok sfn) (s : Mgr) :
    toSfn name s = (.ok sfn, s) := by unfold toSfn; rw [h]; rfl
theorem toSfn_err {name : List Nat} {fe : FnErr} (h : Sfn.createFromStr name = .error fe) (s : Mgr) :
    toSfn name s = (.err (.FilenameError fe), s) := by unfold toSfn; rw [h]; rfl

/-! ### `open_file_in_dir` -/

/-- Same body as `Sdmmc.Props.C07.openRefusal`: when, and with which error, `open_file_in_dir`
refuses, given the mode, the lookup outcome and the "is open" test of the file table. -/
def openRefusal (mode : Mode) (r : Res DirEntry) (isOpen : DirEntry → Bool) : Option Err :=
  match r with
  | .err .NotFound =>
    if mode = .ReadWriteCreate ∨ mode = .ReadWriteCreateOrTruncate ∨ mode = .ReadWriteCreateOrAppend
    then none else some .NotFound
  | .err e => some e
  | .ok e =>
    if isOpen e then some .FileAlreadyOpen
    else if mode = .ReadWriteCreate then some .FileAlreadyExists
    else if Attr.isReadOnly e.attributes ∧ mode ≠ .ReadOnly then some .ReadOnly
    else if Attr.isDirectory e.attributes then some .OpenedDirAsFile
    else none
  | _ => none

section
variable {s : Mgr} {d : Nat} {name : List Nat} {dir : DirInfo} {vi : Nat} {sfn : Bytes}

/-- With room in the file table, a valid directory handle on an open volume and a valid name,
`open_file_in_dir` is the lookup followed by `openFileTail`. -/
theorem openFileInDir_run (mode : Mode) (hc : DirCtx s d name dir vi sfn) (hroom : s.files.length < s.maxFiles) :
    openFileInDir d name mode s =
      openFileTail dir vi sfn mode (lookup vi dir sfn s).1 (lookup vi dir sfn s).2 := by
  obtain ⟨di, h1, h2⟩ := hc.1
  rw [openFileInDir_eq]
  unfold openFileInDirAlt
  rw [get_bind, if_neg (by omega), bind_ok (getDirById_ok h1), bind_ok (getDir_ok h2),
    bind_ok (getVolumeById_ok hc.2.1), bind_ok (toSfn_ok hc.2.2 s), attempt_bind]
  rfl

theorem open_file_refusal (mode : Mode) (hc : DirCtx s d name dir vi sfn) (hroom : s.files.length < s.maxFiles)
    (e : Err) (h : openRefusal mode (lookup vi dir sfn s).1 (fileIsOpen s dir.rawVolume) = some e) :
    openFileInDir d name mode s = (.err e, (lookup vi dir sfn s).2) := by
  rw [openFileInDir_run mode hc hroom]
  have hop := fileIsOpen_lookup vi dir sfn s dir.rawVolume
  generalize (lookup vi dir sfn s).2 = s1 at hop ⊢
  generalize (lookup vi dir sfn s).1 = r at h
  cases r with
  | ok en =>
    unfold openRefusal at h
    dsimp only at h
    by_cases c1 : fileIsOpen s dir.rawVolume en = true
    · rw [if_pos c1] at h; cases h
      exact tail_open dir vi sfn s1 mode en (by rw [hop]; exact c1)
    rw [if_neg c1] at h
    have c1' : fileIsOpen s1 dir.rawVolume en = false := by
      rw [hop]; cases hx : fileIsOpen s dir.rawVolume en
      · rfl
      · exact absurd hx c1
    by_cases c2 : mode = .ReadWriteCreate
    · rw [if_pos c2] at h; cases h; subst c2
      exact tail_exists dir vi sfn s1 en c1'
    rw [if_neg c2] at h
    by_cases c3 : Attr.isReadOnly en.attributes = true ∧ mode ≠ .ReadOnly
    · rw [if_pos c3] at h; cases h
      exact tail_readOnlyAttr dir vi sfn s1 mode en c1' c2 c3.2 c3.1
    rw [if_neg c3] at h
    by_cases c4 : Attr.isDirectory en.attributes = true
    · rw [if_pos c4] at h; cases h
      refine tail_dirAsFile dir vi sfn s1 mode en c1' c2 ?_ c4
      by_cases hm : mode = .ReadOnly
      · exact Or.inr hm
      · left
        cases hx : Attr.isReadOnly en.attributes
        · rfl
        · exact absurd ⟨hx, hm⟩ c3
    · rw [if_neg c4] at h; cases h
  | err e' =>
    by_cases hnf : e' = .NotFound
    · subst hnf
      unfold openRefusal at h
      dsimp only at h
      by_cases c : mode = .ReadWriteCreate ∨ mode = .ReadWriteCreateOrTruncate ∨ mode = .ReadWriteCreateOrAppend
      · rw [if_pos c] at h; cases h
      · rw [if_neg c] at h; cases h
        refine tail_notFound dir vi sfn s1 mode ?_
        cases mode <;> simp at c ⊢
    · have : openRefusal mode (.err e') (fileIsOpen s dir.rawVolume) = some e' := by
        cases e' <;> first | rfl | exact absurd rfl hnf
      rw [this] at h; cases h
      exact tail_err dir vi sfn s1 mode _ hnf
  | panic m => cases h
  | diverged => cases h


/-- Read-only open of an existing plain file that is not open. -/
theorem open_file_readOnly (hc : DirCtx s d name dir vi sfn) (hroom : s.files.length < s.maxFiles)
    (en : DirEntry) (hr : (lookup vi dir sfn s).1 = .ok en) (hno : fileIsOpen s dir.rawVolume en = false)
    (hd : Attr.isDirectory en.attributes = false) :
    openFileInDir d name .ReadOnly s =
      (.ok s.nextId, { (lookup vi dir sfn s).2 with
        nextId := (s.nextId + 1) % 4294967296,
        files := s.files ++ [openedFile dir s.nextId en .ReadOnly 0] }) := by
  rw [openFileInDir_run _ hc hroom, hr,
    tail_readOnly dir vi sfn _ en (by rw [fileIsOpen_lookup]; exact hno) hd,
    (lookup_tables vi dir sfn s).1, (lookup_tables vi dir sfn s).2.2.2]

/-- Append (or create-or-append on an existing name): the offset starts at the end. -/
theorem open_file_append (mode : Mode) (hm : mode = .ReadWriteAppend ∨ mode = .ReadWriteCreateOrAppend)
    (hc : DirCtx s d name dir vi sfn) (hroom : s.files.length < s.maxFiles)
    (en : DirEntry) (hr : (lookup vi dir sfn s).1 = .ok en) (hno : fileIsOpen s dir.rawVolume en = false)
    (hro : Attr.isReadOnly en.attributes = false) (hd : Attr.isDirectory en.attributes = false) :
    openFileInDir d name mode s =
      (.ok s.nextId, { (lookup vi dir sfn s).2 with
        nextId := (s.nextId + 1) % 4294967296,
        files := s.files ++ [openedFile dir s.nextId en .ReadWriteAppend en.size] }) := by
  rw [openFileInDir_run _ hc hroom, hr,
    tail_append dir vi sfn _ mode en hm (by rw [fileIsOpen_lookup]; exact hno) hro hd,
    (lookup_tables vi dir sfn s).1, (lookup_tables vi dir sfn s).2.2.2]

/-- An invalid name is refused before any device access. -/
theorem open_file_bad_name (mode : Mode) (hroom : s.files.length < s.maxFiles)
    (hslot : ∃ di, s.dirs.findIdx? (·.rawDirectory = d) = some di ∧ s.dirs[di]? = some dir)
    (hvol : s.vols.findIdx? (·.rawVolume = dir.rawVolume) = some vi)
    (fe : FnErr) (hname : Sfn.createFromStr name = .error fe) :
    openFileInDir d name mode s = (.err (.FilenameError fe), s) := by
  obtain ⟨di, h1, h2⟩ := hslot
  unfold openFileInDir
  rw [get_bind, if_neg (by omega), bind_ok (getDirById_ok h1), bind_ok (getDir_ok h2)]
  dsimp only
  rw [bind_ok (getVolumeById_ok hvol), bind_err (toSfn_err hname s)]

/-! ### `write` on a read-only handle -/

theorem write_readOnly (f : Nat) (data : Bytes) (i : Nat) (x : FileInfo) (v : Nat)
    (hf : s.files.findIdx? (·.rawFile = f) = some i) (hx : s.files[i]? = some x)
    (hv : s.vols.findIdx? (·.rawVolume = x.rawVolume) = some v) (hm : x.mode = .ReadOnly) :
    write f data s = (.err .ReadOnly, s) := by
  unfold write
  rw [bind_ok (getFileById_ok hf), bind_ok (getFile_ok hx), bind_ok (getVolumeById_ok hv)]
  dsimp only
  rw [if_pos hm]
  rfl

/-! ### `delete_file_in_dir`, `make_dir_in_dir`, `open_dir` -/

/-- Same body as `Sdmmc.Props.C07.deleteRefusal`. -/
def deleteRefusal (r : Res DirEntry) (isOpen : DirEntry → Bool) : Option Err :=
  match r with
  | .err e => some e
  | .ok e => if Attr.isDirectory e.attributes then some .DeleteDirAsFile
             else if isOpen e then some .FileAlreadyOpen else none
  | _ => none

theorem delete_refusal (hc : DirCtx s d name dir vi sfn) (e : Err)
    (h : deleteRefusal (lookup vi dir sfn s).1 (fileIsOpen s dir.rawVolume) = some e) :
    deleteFileInDir d name s = (.err e, (lookup vi dir sfn s).2) := by
  obtain ⟨di, h1, h2⟩ := hc.1
  unfold deleteFileInDir
  have hlk : withVol vi (Fat.findDirectoryEntry dir.cluster sfn) = lookup vi dir sfn := rfl
  rw [bind_ok (getDirById_ok h1), bind_ok (getDir_ok h2), bind_ok (getVolumeById_ok hc.2.1),
    bind_ok (toSfn_ok hc.2.2 s), hlk]
  have hop := fileIsOpen_lookup vi dir sfn s dir.rawVolume
  rw [bind_def]
  rcases hl : lookup vi dir sfn s with ⟨r, s1⟩
  rw [hl] at h hop
  dsimp only at h hop ⊢
  cases r with
  | ok en =>
    unfold deleteRefusal at h
    dsimp only at h ⊢
    by_cases c1 : Attr.isDirectory en.attributes = true
    · rw [if_pos c1] at h ⊢; cases h; rfl
    rw [if_neg c1] at h ⊢
    by_cases c2 : fileIsOpen s dir.rawVolume en = true
    · rw [if_pos c2] at h; cases h
      rw [get_bind, if_pos (by rw [hop]; exact c2)]
      rfl
    · rw [if_neg c2] at h; cases h
  | err e' => cases h; rfl
  | panic m => cases h
  | diverged => cases h

/-- Same body as `Sdmmc.Props.C07.mkdirRefusal`. -/
def mkdirRefusal (r : Res DirEntry) : Option Err :=
  match r with
  | .ok e => if Attr.isDirectory e.attributes then some .DirAlreadyExists else some .FileAlreadyExists
  | .err .NotFound => none
  | .err e => some e
  | _ => none

theorem mkdir_refusal (hc : DirCtx s d name dir vi sfn) (hroom : s.dirs.length < s.maxDirs) (e : Err)
    (h : mkdirRefusal (lookup vi dir sfn s).1 = some e) :
    makeDirInDir d name s = (.err e, (lookup vi dir sfn s).2) := by
  obtain ⟨di, h1, h2⟩ := hc.1
  unfold makeDirInDir
  have hlk : withVol vi (Fat.findDirectoryEntry dir.cluster sfn) = lookup vi dir sfn := rfl
  rw [get_bind, if_neg (by omega), bind_ok (getDirById_ok h1), bind_ok (getDir_ok h2),
    bind_ok (getVolumeById_ok hc.2.1), bind_ok (toSfn_ok hc.2.2 s), hlk, attempt_bind]
  generalize (lookup vi dir sfn s).2 = s1
  generalize (lookup vi dir sfn s).1 = r at h
  cases r with
  | ok en =>
    unfold mkdirRefusal at h
    dsimp only at h ⊢
    by_cases c1 : Attr.isDirectory en.attributes = true
    · rw [if_pos c1] at h ⊢; cases h; rfl
    · rw [if_neg c1] at h ⊢; cases h; rfl
  | err e' =>
    cases e' <;> first | (cases h; rfl) | cases h
  | panic m => cases h
  | diverged => cases h

/-- Same body as `Sdmmc.Props.C07.openDirRefusal`. -/
def openDirRefusal (r : Res DirEntry) : Option Err :=
  match r with
  | .ok e => if Attr.isDirectory e.attributes then none else some .OpenedFileAsDir
  | .err e => some e
  | _ => none

theorem open_dir_refusal (hc : DirCtx s d name dir vi sfn) (hroom : s.dirs.length < s.maxDirs)
    (hnd : sfn ≠ Sfn.thisDir) (e : Err) (h : openDirRefusal (lookup vi dir sfn s).1 = some e) :
    openDir d name s = (.err e, (lookup vi dir sfn s).2) := by
  obtain ⟨di, h1, h2⟩ := hc.1
  obtain ⟨x, hx, _⟩ := findIdx?_some_get hc.2.1
  unfold openDir
  have hlk : withVol vi (Fat.findDirectoryEntry dir.cluster sfn) = lookup vi dir sfn := rfl
  rw [get_bind, if_neg (by omega), bind_ok (getDirById_ok h1), bind_ok (getDir_ok h2),
    bind_ok (getVolumeById_ok hc.2.1), bind_ok (toSfn_ok hc.2.2 s), bind_ok (getVolInfo_ok hx),
    if_neg hnd, hlk, bind_def]
  rcases hl : lookup vi dir sfn s with ⟨r, s1⟩
  rw [hl] at h
  dsimp only at h ⊢
  cases r with
  | ok en =>
    unfold openDirRefusal at h
    dsimp only at h ⊢
    by_cases c1 : Attr.isDirectory en.attributes = true
    · rw [if_pos c1] at h; cases h
    · rw [if_neg c1] at h; cases h
      rw [if_pos (by simpa using c1)]
      rfl
  | err e' => cases h; rfl
  | panic m => cases h
  | diverged => cases h

end
/-! ### A refused call changes nothing on the medium -/

/-- What `step` reports for a call refused right after the lookup. -/
def refusedAfterLookup (s : Mgr) (vi : Nat) (dir : DirInfo) (sfn : Bytes) (e : Err) : Mgr × Out :=
  ((lookup vi dir sfn (resetLogs s)).2,
   { result := .err e, writes := [], reads := (lookup vi dir sfn (resetLogs s)).2.dev.rlog.reverse })

theorem step_refused_at_lookup (s : Mgr) (op : Op) (hl : s.locked = false) (vi : Nat) (dir : DirInfo) (sfn : Bytes)
    (e : Err) (h : runOp op (resetLogs s) = (.err e, (lookup vi dir sfn (resetLogs s)).2)) :
    step s op = refusedAfterLookup s vi dir sfn e := by
  rw [step_unlocked s op hl, h]
  unfold refusedAfterLookup
  have hw : (lookup vi dir sfn (resetLogs s)).2.dev.wlog = [] := (lookup_writes_nothing vi dir sfn (resetLogs s)).1
  dsimp only
  rw [hw]
  rfl

/-- The state a refusal leaves: the medium, the tables and the counter are those of `s`. -/
theorem refusedAfterLookup_state (s : Mgr) (vi : Nat) (dir : DirInfo) (sfn : Bytes) (e : Err) :
    (refusedAfterLookup s vi dir sfn e).2.writes = [] ∧
    (refusedAfterLookup s vi dir sfn e).1.dev.disk = s.dev.disk ∧
    (refusedAfterLookup s vi dir sfn e).1.files = s.files ∧
    (refusedAfterLookup s vi dir sfn e).1.dirs = s.dirs ∧
    (refusedAfterLookup s vi dir sfn e).1.vols = s.vols ∧
    (refusedAfterLookup s vi dir sfn e).1.nextId = s.nextId := by
  have h1 := lookup_writes_nothing vi dir sfn (resetLogs s)
  have h2 := lookup_tables vi dir sfn (resetLogs s)
  exact ⟨rfl, h1.2, h2.1, h2.2.1, h2.2.2.1, h2.2.2.2⟩

section
variable {s : Mgr} {d : Nat} {name : List Nat} {dir : DirInfo} {vi : Nat} {sfn : Bytes}

theorem open_file_refusal_step (mode : Mode) (hl : s.locked = false) (hc : DirCtx s d name dir vi sfn)
    (hroom : s.files.length < s.maxFiles) (e : Err)
    (h : openRefusal mode (lookup vi dir sfn (resetLogs s)).1 (fileIsOpen s dir.rawVolume) = some e) :
    step s (.openFile d name mode) = refusedAfterLookup s vi dir sfn e := by
  refine step_refused_at_lookup s _ hl vi dir sfn e ?_
  have hc' : DirCtx (resetLogs s) d name dir vi sfn := hc
  show (openFileInDir d name mode >>= fun h => pure (Payload.handle h)) (resetLogs s) = _
  exact bind_err (open_file_refusal (s := resetLogs s) mode hc' hroom e h)

theorem delete_refusal_step (hl : s.locked = false) (hc : DirCtx s d name dir vi sfn) (e : Err)
    (h : deleteRefusal (lookup vi dir sfn (resetLogs s)).1 (fileIsOpen s dir.rawVolume) = some e) :
    step s (.delete d name) = refusedAfterLookup s vi dir sfn e := by
  refine step_refused_at_lookup s _ hl vi dir sfn e ?_
  have hc' : DirCtx (resetLogs s) d name dir vi sfn := hc
  show (deleteFileInDir d name >>= fun _ => pure Payload.unit) (resetLogs s) = _
  exact bind_err (delete_refusal (s := resetLogs s) hc' e h)

theorem mkdir_refusal_step (hl : s.locked = false) (hc : DirCtx s d name dir vi sfn)
    (hroom : s.dirs.length < s.maxDirs) (e : Err)
    (h : mkdirRefusal (lookup vi dir sfn (resetLogs s)).1 = some e) :
    step s (.mkdir d name) = refusedAfterLookup s vi dir sfn e := by
  refine step_refused_at_lookup s _ hl vi dir sfn e ?_
  have hc' : DirCtx (resetLogs s) d name dir vi sfn := hc
  show (makeDirInDir d name >>= fun _ => pure Payload.unit) (resetLogs s) = _
  exact bind_err (mkdir_refusal (s := resetLogs s) hc' hroom e h)

theorem open_dir_refusal_step (hl : s.locked = false) (hc : DirCtx s d name dir vi sfn)
    (hroom : s.dirs.length < s.maxDirs) (hnd : sfn ≠ Sfn.thisDir) (e : Err)
    (h : openDirRefusal (lookup vi dir sfn (resetLogs s)).1 = some e) :
    step s (.openDir d name) = refusedAfterLookup s vi dir sfn e := by
  refine step_refused_at_lookup s _ hl vi dir sfn e ?_
  have hc' : DirCtx (resetLogs s) d name dir vi sfn := hc
  show (openDir d name >>= fun h => pure (Payload.handle h)) (resetLogs s) = _
  exact bind_err (open_dir_refusal (s := resetLogs s) hc' hroom hnd e h)

/-- `write` on a read-only handle, as a call: refused, nothing read or written, state unchanged. -/
theorem write_readOnly_step (f : Nat) (data : Bytes) (i : Nat) (x : FileInfo) (v : Nat) (hl : s.locked = false)
    (hf : s.files.findIdx? (·.rawFile = f) = some i) (hx : s.files[i]? = some x)
    (hv : s.vols.findIdx? (·.rawVolume = x.rawVolume) = some v) (hm : x.mode = .ReadOnly) :
    step s (.write f data) = (resetLogs s, { result := .err .ReadOnly, writes := [], reads := [] }) := by
  have : runOp (.write f data) (resetLogs s) = (.err .ReadOnly, resetLogs s) := by
    show (write f data >>= fun _ => pure Payload.unit) (resetLogs s) = _
    exact bind_err (write_readOnly (s := resetLogs s) f data i x v hf hx hv hm)
  rw [step_unlocked s _ hl, this]
  rfl

/-- An invalid name, as a call: refused before any device access, state unchanged. -/
theorem open_file_bad_name_step (mode : Mode) (hl : s.locked = false) (hroom : s.files.length < s.maxFiles)
    (hslot : ∃ di, s.dirs.findIdx? (·.rawDirectory = d) = some di ∧ s.dirs[di]? = some dir)
    (hvol : s.vols.findIdx? (·.rawVolume = dir.rawVolume) = some vi)
    (fe : FnErr) (hname : Sfn.createFromStr name = .error fe) :
    step s (.openFile d name mode) =
      (resetLogs s, { result := .err (.FilenameError fe), writes := [], reads := [] }) := by
  have : runOp (.openFile d name mode) (resetLogs s) = (.err (.FilenameError fe), resetLogs s) := by
    show (openFileInDir d name mode >>= fun h => pure (Payload.handle h)) (resetLogs s) = _
    exact bind_err (open_file_bad_name (s := resetLogs s) mode hroom hslot hvol fe hname)
  rw [step_unlocked s _ hl, this]
  rfl

end

theorem solve_mode_table :
    solveModeVariant .ReadOnly false = .ReadOnly ∧ solveModeVariant .ReadOnly true = .ReadOnly ∧
    solveModeVariant .ReadWriteAppend false = .ReadWriteAppend ∧
    solveModeVariant .ReadWriteAppend true = .ReadWriteAppend ∧
    solveModeVariant .ReadWriteTruncate false = .ReadWriteTruncate ∧
    solveModeVariant .ReadWriteTruncate true = .ReadWriteTruncate ∧
    solveModeVariant .ReadWriteCreate false = .ReadWriteCreate ∧
    solveModeVariant .ReadWriteCreate true = .ReadWriteCreate ∧
    solveModeVariant .ReadWriteCreateOrTruncate false = .ReadWriteCreate ∧
    solveModeVariant .ReadWriteCreateOrTruncate true = .ReadWriteTruncate ∧
    solveModeVariant .ReadWriteCreateOrAppend false = .ReadWriteCreate ∧
    solveModeVariant .ReadWriteCreateOrAppend true = .ReadWriteAppend := by
  decide

/-! ### The named cells of the matrix -/

section
variable {s : Mgr} {d : Nat} {name : List Nat} {dir : DirInfo} {vi : Nat} {sfn : Bytes}

theorem open_missing (mode : Mode) (hm : mode = .ReadOnly ∨ mode = .ReadWriteAppend ∨ mode = .ReadWriteTruncate)
    (hc : DirCtx s d name dir vi sfn) (hroom : s.files.length < s.maxFiles)
    (hr : (lookup vi dir sfn s).1 = .err .NotFound) :
    openFileInDir d name mode s = (.err .NotFound, (lookup vi dir sfn s).2) :=
  open_file_refusal mode hc hroom _ (by rw [hr]; rcases hm with rfl | rfl | rfl <;> rfl)

theorem open_lookup_error (mode : Mode) (hc : DirCtx s d name dir vi sfn) (hroom : s.files.length < s.maxFiles)
    (e : Err) (he : e ≠ .NotFound) (hr : (lookup vi dir sfn s).1 = .err e) :
    openFileInDir d name mode s = (.err e, (lookup vi dir sfn s).2) :=
  open_file_refusal mode hc hroom _ (by rw [hr]; cases e <;> first | rfl | exact absurd rfl he)

theorem open_already_open (mode : Mode) (hc : DirCtx s d name dir vi sfn) (hroom : s.files.length < s.maxFiles)
    (en : DirEntry) (hr : (lookup vi dir sfn s).1 = .ok en) (ho : fileIsOpen s dir.rawVolume en = true) :
    openFileInDir d name mode s = (.err .FileAlreadyOpen, (lookup vi dir sfn s).2) :=
  open_file_refusal mode hc hroom _ (by rw [hr]; unfold openRefusal; dsimp only; rw [if_pos ho])

theorem open_create_existing (hc : DirCtx s d name dir vi sfn) (hroom : s.files.length < s.maxFiles)
    (en : DirEntry) (hr : (lookup vi dir sfn s).1 = .ok en) (ho : fileIsOpen s dir.rawVolume en = false) :
    openFileInDir d name .ReadWriteCreate s = (.err .FileAlreadyExists, (lookup vi dir sfn s).2) :=
  open_file_refusal _ hc hroom _ (by
    rw [hr]; unfold openRefusal; dsimp only
    rw [if_neg (by rw [ho]; exact Bool.false_ne_true), if_pos rfl])

theorem open_readonly_attr (mode : Mode) (hm : mode ≠ .ReadOnly) (hm2 : mode ≠ .ReadWriteCreate)
    (hc : DirCtx s d name dir vi sfn) (hroom : s.files.length < s.maxFiles)
    (en : DirEntry) (hr : (lookup vi dir sfn s).1 = .ok en) (ho : fileIsOpen s dir.rawVolume en = false)
    (ha : Attr.isReadOnly en.attributes = true) :
    openFileInDir d name mode s = (.err .ReadOnly, (lookup vi dir sfn s).2) :=
  open_file_refusal _ hc hroom _ (by
    rw [hr]; unfold openRefusal; dsimp only
    rw [if_neg (by rw [ho]; exact Bool.false_ne_true), if_neg hm2, if_pos ⟨ha, hm⟩])

theorem open_dir_as_file (mode : Mode) (hm2 : mode ≠ .ReadWriteCreate)
    (hc : DirCtx s d name dir vi sfn) (hroom : s.files.length < s.maxFiles)
    (en : DirEntry) (hr : (lookup vi dir sfn s).1 = .ok en) (ho : fileIsOpen s dir.rawVolume en = false)
    (hro : Attr.isReadOnly en.attributes = false ∨ mode = .ReadOnly)
    (hd : Attr.isDirectory en.attributes = true) :
    openFileInDir d name mode s = (.err .OpenedDirAsFile, (lookup vi dir sfn s).2) :=
  open_file_refusal _ hc hroom _ (by
    rw [hr]; unfold openRefusal; dsimp only
    rw [if_neg (by rw [ho]; exact Bool.false_ne_true), if_neg hm2,
      if_neg (by
        rintro ⟨h1, h2⟩
        rcases hro with h | h
        · rw [h] at h1; cases h1
        · exact h2 h), if_pos hd])
end

/-! ### Truncate and create -/

theorem withVol_state {α} (vi : Nat) (f : F α) (s : Mgr) :
    (withVol vi f s).2 = { s with dev := (withVol vi f s).2.dev, cache := (withVol vi f s).2.cache,
                                  vols := (withVol vi f s).2.vols } := by
  unfold withVol
  split <;> rfl

/-- The record `open_file_in_dir` builds when truncating. -/
def truncatedFile (d : DirInfo) (id : Nat) (e : DirEntry) (now : Timestamp) : FileInfo :=
  { (openedFile d id e .ReadWriteTruncate 0).updateLength 0 with
    entry := { ((openedFile d id e .ReadWriteTruncate 0).updateLength 0).entry with mtime := now } }

/-- The truncating branch, from the state in which the handle id has been drawn. -/
def truncRun (d : DirInfo) (vi : Nat) (e : DirEntry) (id : Nat) (now : Timestamp) : M Nat := do
  let file ← (do
    withVol vi (Fat.truncateClusterChain e.cluster)
    withVol vi (Fat.writeEntryToDisk (truncatedFile d id e now).entry)
    pure (truncatedFile d id e now) : M FileInfo)
  M.modify fun s => { s with files := s.files ++ [file] }
  pure id

section
variable (d : DirInfo) (vi : Nat) (sfn : Bytes) (s : Mgr)

theorem tail_truncate_eq (mode : Mode) (hm : mode = .ReadWriteTruncate ∨ mode = .ReadWriteCreateOrTruncate)
    (e : DirEntry) (h : fileIsOpen s d.rawVolume e = false) (hro : Attr.isReadOnly e.attributes = false)
    (hd : Attr.isDirectory e.attributes = false) :
    openFileTail d vi sfn mode (.ok e) s =
      truncRun d vi e s.nextId s.clock { s with nextId := (s.nextId + 1) % 4294967296 } := by
  unfold openFileTail
  rw [MHoare.pure_bind, get_bind]
  dsimp only
  rw [if_neg (by rw [h]; exact Bool.false_ne_true)]
  rcases hm with rfl | rfl
  all_goals
    show (if Attr.isReadOnly e.attributes = true ∧ _ ≠ Mode.ReadOnly then M.fail Err.ReadOnly else
        if Attr.isDirectory e.attributes = true then _ else
        if fileIsOpen s d.rawVolume e = true then _ else _) s = _
    rw [if_neg (by rw [hro]; simp), if_neg (by rw [hd]; exact Bool.false_ne_true),
      if_neg (by rw [h]; exact Bool.false_ne_true)]
    rfl

theorem truncRun_ok (e : DirEntry) (id : Nat) (now : Timestamp) (h : Nat)
    (hok : (truncRun d vi e id now s).1 = .ok h) :
    h = id ∧ (truncRun d vi e id now s).2.files = s.files ++ [truncatedFile d id e now] ∧
    (truncRun d vi e id now s).2.nextId = s.nextId ∧ (truncRun d vi e id now s).2.dirs = s.dirs := by
  have hst1 := withVol_state vi (Fat.truncateClusterChain e.cluster) s
  rcases h1 : withVol vi (Fat.truncateClusterChain e.cluster) s with ⟨r1, s1⟩
  rw [h1] at hst1
  dsimp only at hst1
  have hst2 := withVol_state vi (Fat.writeEntryToDisk (truncatedFile d id e now).entry) s1
  rcases h2 : withVol vi (Fat.writeEntryToDisk (truncatedFile d id e now).entry) s1 with ⟨r2, s2⟩
  rw [h2] at hst2
  dsimp only at hst2
  unfold truncRun at hok ⊢
  cases r1 with
  | ok u =>
    cases r2 with
    | ok u2 =>
      have hin : ((do
          withVol vi (Fat.truncateClusterChain e.cluster)
          withVol vi (Fat.writeEntryToDisk (truncatedFile d id e now).entry)
          pure (truncatedFile d id e now) : M FileInfo)) s = (.ok (truncatedFile d id e now), s2) := by
        rw [bind_ok h1, bind_ok h2]; rfl
      rw [bind_ok hin] at hok ⊢
      rw [modify_bind] at hok ⊢
      injection hok with hok
      refine ⟨hok.symm, ?_, ?_, ?_⟩
      · show s2.files ++ _ = _
        rw [hst2, hst1]
      · show s2.nextId = _
        rw [hst2, hst1]
      · show s2.dirs = _
        rw [hst2, hst1]
    | err x => rw [bind_err ((bind_ok h1).trans (bind_err h2))] at hok; cases hok
    | panic x => rw [bind_panic ((bind_ok h1).trans (bind_panic h2))] at hok; cases hok
    | diverged => rw [bind_diverged ((bind_ok h1).trans (bind_diverged h2))] at hok; cases hok
  | err x => rw [bind_err (bind_err h1)] at hok; cases hok
  | panic x => rw [bind_panic (bind_panic h1)] at hok; cases hok
  | diverged => rw [bind_diverged (bind_diverged h1)] at hok; cases hok

/-- The record `open_file_in_dir` builds for a file it has just created. -/
def createdFile (d : DirInfo) (id : Nat) (entry : DirEntry) : FileInfo :=
  { rawFile := id, rawVolume := d.rawVolume, curClusterOff := 0, curCluster := entry.cluster,
    currentOffset := 0, mode := .ReadWriteCreate, entry := entry, dirty := false }

/-- The creating branch. -/
def createRun (d : DirInfo) (sfn : Bytes) (now : Timestamp) : M Nat := do
  let volIdx ← getVolumeById d.rawVolume
  let entry ← withVol volIdx (Fat.writeNewDirectoryEntry d.cluster sfn 0 CLUSTER_EMPTY now)
  let id ← generate
  M.modify fun s => { s with files := s.files ++ [createdFile d id entry] }
  pure id

theorem tail_create_eq (mode : Mode)
    (hm : mode = .ReadWriteCreate ∨ mode = .ReadWriteCreateOrTruncate ∨ mode = .ReadWriteCreateOrAppend) :
    openFileTail d vi sfn mode (.err .NotFound) s = createRun d sfn s.clock s := by
  rcases hm with rfl | rfl | rfl <;> rfl

theorem createRun_ok (now : Timestamp) (h : Nat) (hv : s.vols.findIdx? (·.rawVolume = d.rawVolume) = some vi)
    (hok : (createRun d sfn now s).1 = .ok h) :
    h = s.nextId ∧
    ∃ entry, (withVol vi (Fat.writeNewDirectoryEntry d.cluster sfn 0 CLUSTER_EMPTY now) s).1 = .ok entry ∧
      (createRun d sfn now s).2.files = s.files ++ [createdFile d s.nextId entry] ∧
      (createRun d sfn now s).2.nextId = (s.nextId + 1) % 4294967296 := by
  have hst1 := withVol_state vi (Fat.writeNewDirectoryEntry d.cluster sfn 0 CLUSTER_EMPTY now) s
  rcases h1 : withVol vi (Fat.writeNewDirectoryEntry d.cluster sfn 0 CLUSTER_EMPTY now) s with ⟨r1, s1⟩
  rw [h1] at hst1
  dsimp only at hst1
  unfold createRun at hok ⊢
  rw [bind_ok (getVolumeById_ok hv)] at hok ⊢
  cases r1 with
  | ok entry =>
    rw [bind_ok h1, generate_bind, modify_bind] at hok ⊢
    injection hok with hok
    have hn : s1.nextId = s.nextId := by rw [hst1]
    refine ⟨by rw [← hok, hn], entry, rfl, ?_, ?_⟩
    · show s1.files ++ [createdFile d s1.nextId entry] = _
      rw [hn, hst1]
    · show (s1.nextId + 1) % 4294967296 = _
      rw [hn]
  | err x => rw [bind_err h1] at hok; cases hok
  | panic x => rw [bind_panic h1] at hok; cases hok
  | diverged => rw [bind_diverged h1] at hok; cases hok
end

section
variable {s : Mgr} {d : Nat} {name : List Nat} {dir : DirInfo} {vi : Nat} {sfn : Bytes}

/-- Truncate / create-or-truncate on an existing plain, writable, closed file: when the call
succeeds the new record describes an empty file positioned at 0. -/
theorem open_file_truncate (mode : Mode) (hm : mode = .ReadWriteTruncate ∨ mode = .ReadWriteCreateOrTruncate)
    (hc : DirCtx s d name dir vi sfn) (hroom : s.files.length < s.maxFiles)
    (en : DirEntry) (hr : (lookup vi dir sfn s).1 = .ok en) (hno : fileIsOpen s dir.rawVolume en = false)
    (hro : Attr.isReadOnly en.attributes = false) (hd : Attr.isDirectory en.attributes = false)
    (h : Nat) (hok : (openFileInDir d name mode s).1 = .ok h) :
    h = s.nextId ∧
    (openFileInDir d name mode s).2.files = s.files ++ [truncatedFile dir s.nextId en s.clock] ∧
    (openFileInDir d name mode s).2.nextId = (s.nextId + 1) % 4294967296 := by
  have hlt := lookup_tables vi dir sfn s
  have hclock : (lookup vi dir sfn s).2.clock = s.clock := by rw [lookup_state]
  rw [openFileInDir_run _ hc hroom, hr,
    tail_truncate_eq dir vi sfn _ mode hm en (by rw [fileIsOpen_lookup]; exact hno) hro hd] at hok ⊢
  generalize (lookup vi dir sfn s).2 = s1 at hok hlt hclock ⊢
  obtain ⟨hf, _, _, hn⟩ := hlt
  obtain ⟨h1, h2, h3, _⟩ := truncRun_ok dir vi _ en _ _ h hok
  refine ⟨h1.trans hn, ?_, ?_⟩
  · rw [h2]
    show s1.files ++ [truncatedFile dir s1.nextId en s1.clock] = _
    rw [hf, hn, hclock]
  · rw [h3]
    show (s1.nextId + 1) % 4294967296 = _
    rw [hn]

/-- A missing name with a creating mode: when the call succeeds the new record is a fresh file
at offset 0 in mode `ReadWriteCreate`, on the entry the directory writer returned. -/
theorem open_file_create (mode : Mode)
    (hm : mode = .ReadWriteCreate ∨ mode = .ReadWriteCreateOrTruncate ∨ mode = .ReadWriteCreateOrAppend)
    (hc : DirCtx s d name dir vi sfn) (hroom : s.files.length < s.maxFiles)
    (hr : (lookup vi dir sfn s).1 = .err .NotFound)
    (h : Nat) (hok : (openFileInDir d name mode s).1 = .ok h) :
    h = s.nextId ∧
    ∃ entry, (openFileInDir d name mode s).2.files = s.files ++ [createdFile dir s.nextId entry] ∧
      (openFileInDir d name mode s).2.nextId = (s.nextId + 1) % 4294967296 := by
  have hlt := lookup_tables vi dir sfn s
  rw [openFileInDir_run _ hc hroom, hr, tail_create_eq dir vi sfn _ mode hm] at hok ⊢
  have hvol : (lookup vi dir sfn s).2.vols.findIdx? (·.rawVolume = dir.rawVolume) = some vi := by
    rw [hlt.2.2.1]; exact hc.2.1
  have hclock : (lookup vi dir sfn s).2.clock = s.clock := by rw [lookup_state]
  generalize (lookup vi dir sfn s).2 = s1 at hok hlt hvol hclock ⊢
  obtain ⟨hf, _, _, hn⟩ := hlt
  obtain ⟨h1, entry, _, h2, h3⟩ := createRun_ok dir vi sfn s1 _ h hvol hok
  refine ⟨h1.trans hn, entry, ?_, ?_⟩
  · rw [h2, hf, hn]
  · rw [h3, hn]
end
end Sdmmc.Lemmas.Modes
