/-
Volume invariant (C03), layer 1a: THE pure edit lemma.  `TreeOK` is preserved when
* the objects of ONE directory `h` change from `A ++ X ++ B` to `A ++ Y ++ B` (an entry inserted,
  removed or replaced; or nothing at all),
* new sub-directories `extra` without objects are added,
* the open-file table and the chains change,
provided the unaffected objects keep their effective cluster / size and the reference counts of the
deltas balance.  Every elementary change of the medium is an instance (see `VolTreeOps`).
-/
import Sdmmc.Lemmas.VolTree

namespace Sdmmc.Lemmas.VolTree
open Sdmmc.Model Sdmmc.Model.Fat Sdmmc.Spec Sdmmc.Spec.Volume Sdmmc.Lemmas.VolBase

theorem flatMap_eq_nil_of {α β} (l : List α) (g : α → List β) (h : ∀ x, x ∈ l → g x = []) : l.flatMap g = [] := by
  induction l with
  | nil => rfl
  | cons a l ih =>
    rw [List.flatMap_cons, h a List.mem_cons_self, ih fun x hx => h x (List.mem_cons_of_mem _ hx)]
    rfl

/-- The shape of the "sizes" clause for one object. -/
def SizeOK (ft : FatType) (cb : Nat) (G : List (List Nat)) (files : List FileInfo) (o : Slot) : Prop :=
  (effCluster ft files o = 0 ∧ effSize files o = 0) ∨
  (effCluster ft files o ≠ 0 ∧ effSize files o ≤ (chainOf G (effCluster ft files o)).length * cb)

/-- The shape of the "fileSlots" clause for one open file. -/
def FileAt (ft : FatType) (dirs : List (Nat × Nat)) (slots : Nat → List Slot) (f : FileInfo) : Prop :=
  ∃ h, h ∈ dirIds dirs ∧ ∃ o, o ∈ objects h (slots h) ∧
    o.1 = f.entry.entryBlock ∧ o.2.1 = f.entry.entryOffset ∧ isDirE o = false ∧ sName o = f.entry.name ∧
    (f.dirty = false → sCluster ft o = f.entry.cluster ∧ sSize o = f.entry.size)

/-- The shape of the "fileAttrs" clause. -/
def AttrsOK (f : FileInfo) : Prop :=
  f.entry.attributes < 256 ∧ f.entry.attributes % 16 ≠ 15 ∧ f.entry.attributes / 16 % 2 = 0 ∧
  f.entry.size ≤ Gen.MAX_FILE_SIZE

/-- The shape of the "dots" clause. -/
def DotsOK (ft : FatType) (h p : Nat) (ss : List Slot) : Prop :=
  ∃ s0 s1 rest, ss = s0 :: s1 :: rest ∧ IsDot ft Sfn.thisDir h s0 ∧ IsDot ft Sfn.parentDir p s1

theorem tree_edit {ft : FatType} {cb : Nat} {root : List Nat} {G G' : List (List Nat)} {dirs extra : List (Nat × Nat)}
    {slots slots' : Nat → List Slot} {files files' : List FileInfo} {h : Nat} {A X Y B : List Slot}
    (hT : TreeOK ft cb root G dirs slots files)
    (hids : (dirIds (dirs ++ extra)).Nodup)
    (hh : h ∈ dirIds dirs)
    (hother : ∀ x, x ∈ dirIds dirs → x ≠ h → slots' x = slots x)
    (hO : objects h (slots h) = A ++ X ++ B) (hO' : objects h (slots' h) = A ++ Y ++ B)
    (hct : CleanTail (slots' h)) (hnames : ((entries (slots' h)).map sName).Nodup)
    (hdots : ∀ p, (h, p) ∈ dirs → DotsOK ft h p (slots' h))
    (hnew : ∀ c p, (c, p) ∈ extra → p ∈ dirIds dirs ∧ CleanTail (slots' c) ∧ ((entries (slots' c)).map sName).Nodup ∧
      DotsOK ft c p (slots' c) ∧ objects c (slots' c) = [])
    (hkeys : (files'.map fkey).Nodup)
    (hattrs : ∀ f, f ∈ files' → AttrsOK f)
    (hfs : ∀ f, f ∈ files' → FileAt ft (dirs ++ extra) slots' f)
    (heff : ∀ x, x ∈ dirIds dirs → ∀ o, o ∈ objects x (slots x) → (x = h → o ∈ A ++ B) → isDirE o = false →
      effCluster ft files' o = effCluster ft files o ∧ effSize files' o = effSize files o ∧
      (effCluster ft files o ≠ 0 →
        (chainOf G (effCluster ft files o)).length ≤ (chainOf G' (effCluster ft files o)).length))
    (hYdir : ∀ o, o ∈ Y → isDirE o = true → (sCluster ft o, h) ∈ dirs ++ extra)
    (hDR : ∀ a, (subdirRefs ft Y).count a + (dirs.map Prod.fst).count a =
      (subdirRefs ft X).count a + ((dirs ++ extra).map Prod.fst).count a)
    (hAR : ∀ a, (fileRefs ft files' Y).count a + (extra.map Prod.fst).count a + (G.map fun cs => cs.headD 0).count a =
      (fileRefs ft files X).count a + (G'.map fun cs => cs.headD 0).count a)
    (hYsize : ∀ o, o ∈ Y → isDirE o = false → SizeOK ft cb G' files' o) :
    TreeOK ft cb root G' (dirs ++ extra) slots' files' := by
  have hidsD : (dirIds dirs).Nodup := by
    rw [dirIds_append] at hids
    exact (List.nodup_append.1 hids).1
  have hdisj : ∀ c, c ∈ extra.map Prod.fst → c ∉ dirIds dirs := by
    intro c hc hc'
    rw [dirIds_append] at hids
    exact (List.nodup_append.1 hids).2.2 c hc' c hc rfl
  have hhx : ∀ c, c ∈ extra.map Prod.fst → c ≠ h := fun c hc e => hdisj c hc (e ▸ hh)
  -- membership in the new ids
  have hmemIds : ∀ x, x ∈ dirIds (dirs ++ extra) ↔ x ∈ dirIds dirs ∨ x ∈ extra.map Prod.fst := by
    intro x; rw [dirIds_append, List.mem_append]
  have hextra : ∀ c, c ∈ extra.map Prod.fst → ∃ p, (c, p) ∈ extra := by
    intro c hc
    obtain ⟨⟨c', p⟩, hm, rfl⟩ := List.mem_map.1 hc
    exact ⟨p, hm⟩
  -- objects of the new state
  have hobjOld : ∀ x, x ∈ dirIds dirs → x ≠ h → objects x (slots' x) = objects x (slots x) := by
    intro x hx hne; rw [hother x hx hne]
  have hobjNew : ∀ c, c ∈ extra.map Prod.fst → objects c (slots' c) = [] := by
    intro c hc
    obtain ⟨p, hp⟩ := hextra c hc
    exact (hnew c p hp).2.2.2.2
  -- every object of the new state is an unaffected old one, or one of `Y`
  have hcases : ∀ x, x ∈ dirIds (dirs ++ extra) → ∀ o, o ∈ objects x (slots' x) →
      (x ∈ dirIds dirs ∧ o ∈ objects x (slots x) ∧ (x = h → o ∈ A ++ B)) ∨ (x = h ∧ o ∈ Y) := by
    intro x hx o ho
    rcases (hmemIds x).1 hx with hx | hx
    · by_cases hxh : x = h
      · subst hxh
        rw [hO'] at ho
        rcases List.mem_append.1 ho with ho | ho
        · rcases List.mem_append.1 ho with ho | ho
          · exact .inl ⟨hx, by rw [hO]; exact List.mem_append_left _ (List.mem_append_left _ ho),
              fun _ => List.mem_append_left _ ho⟩
          · exact .inr ⟨rfl, ho⟩
        · exact .inl ⟨hx, by rw [hO]; exact List.mem_append_right _ ho, fun _ => List.mem_append_right _ ho⟩
      · rw [hobjOld x hx hxh] at ho
        exact .inl ⟨hx, ho, fun e => absurd e hxh⟩
    · rw [hobjNew x hx] at ho; cases ho
  refine
    { cleanTail := ?_, names := ?_, order := ?_, dots := ?_, subdirs := ?_, dirRefs := ?_, allRefs := ?_,
      sizes := ?_, fileSlots := hfs, fileAttrs := hattrs, filesDistinct := hkeys }
  · -- cleanTail
    intro x hx
    rcases (hmemIds x).1 hx with hx | hx
    · by_cases hxh : x = h
      · rw [hxh]; exact hct
      · rw [hother x hx hxh]; exact hT.cleanTail x hx
    · obtain ⟨p, hp⟩ := hextra x hx
      exact (hnew x p hp).2.1
  · -- names
    intro x hx
    rcases (hmemIds x).1 hx with hx | hx
    · by_cases hxh : x = h
      · rw [hxh]; exact hnames
      · rw [hother x hx hxh]; exact hT.names x hx
    · obtain ⟨p, hp⟩ := hextra x hx
      exact (hnew x p hp).2.2.1
  · -- order
    intro i c p hi
    by_cases hlt : i < dirs.length
    · rw [List.getElem?_append_left hlt] at hi
      rcases hT.order i c p hi with h0 | hm
      · exact .inl h0
      · refine .inr ?_
        rw [List.take_append_of_le_length (Nat.le_of_lt hlt)]
        exact hm
    · have hm : (c, p) ∈ extra := by
        rw [List.getElem?_append_right (Nat.le_of_not_lt hlt)] at hi
        exact List.mem_of_getElem? hi
      have hp := (hnew c p hm).1
      rcases List.mem_cons.1 hp with h0 | hp
      · exact .inl h0
      · refine .inr ?_
        obtain ⟨q, hq, hqe⟩ := List.mem_map.1 hp
        refine List.mem_map.2 ⟨q, ?_, hqe⟩
        rw [List.take_append]
        apply List.mem_append_left
        rw [List.take_of_length_le (Nat.le_of_not_lt hlt)]
        exact hq
  · -- dots
    intro c p hcp
    rcases List.mem_append.1 hcp with hcp | hcp
    · by_cases hch : c = h
      · subst hch; exact hdots p hcp
      · have hc : c ∈ dirIds dirs := mem_dirIds.2 (.inr ⟨p, hcp⟩)
        rw [hother c hc hch]; exact hT.dots c p hcp
    · exact (hnew c p hcp).2.2.2.1
  · -- subdirs
    intro x hx o ho hd
    rcases hcases x hx o ho with ⟨hx', ho', _⟩ | ⟨rfl, hoY⟩
    · exact List.mem_append_left _ (hT.subdirs x hx' o ho' hd)
    · exact hYdir o hoY hd
  · -- dirRefs
    apply perm_of_count
    intro a
    have hold := List.perm_iff_count.1 hT.dirRefs a
    rw [dirIds_append, List.flatMap_append,
      flatMap_eq_nil_of (extra.map Prod.fst) _ (fun c hc => by rw [hobjNew c hc]; rfl), List.append_nil]
    obtain ⟨R, h1, h2⟩ := flatMap_update hidsD hh (fun x => subdirRefs ft (objects x (slots x)))
      (fun x => subdirRefs ft (objects x (slots' x))) (fun x hx hne => by rw [hobjOld x hx hne])
    have c1 := List.perm_iff_count.1 h1 a
    have c2 := List.perm_iff_count.1 h2 a
    have hd := hDR a
    simp only [hO, hO', subdirRefs_append, List.count_append] at c1 c2
    simp only [List.map_append, List.count_append] at hd ⊢
    omega
  · -- allRefs
    apply perm_of_count
    intro a
    have hold := List.perm_iff_count.1 hT.allRefs a
    rw [dirIds_append, List.flatMap_append,
      flatMap_eq_nil_of (extra.map Prod.fst) _ (fun c hc => by rw [hobjNew c hc]; rfl), List.append_nil]
    -- replace `files'` by `files` on the unaffected part
    obtain ⟨R, h1, h2⟩ := flatMap_update hidsD hh (fun x => fileRefs ft files (objects x (slots x)))
      (fun x => if x = h then fileRefs ft files' (objects x (slots' x)) else fileRefs ft files (objects x (slots x)))
      (fun x _ hne => by simp only [if_neg hne])
    have hfm : (dirIds dirs).flatMap (fun x => fileRefs ft files' (objects x (slots' x))) =
        (dirIds dirs).flatMap
          (fun x => if x = h then fileRefs ft files' (objects x (slots' x)) else fileRefs ft files (objects x (slots x))) := by
      apply List.flatMap_congr
      intro x hx
      by_cases hxh : x = h
      · simp only [if_pos hxh]
      · simp only [if_neg hxh]
        rw [hobjOld x hx hxh]
        exact fileRefs_congr ft files files' _ fun o ho hd => (heff x hx o ho (fun e => absurd e hxh) hd).1
    rw [hfm]
    have c1 := List.perm_iff_count.1 h1 a
    have c2 := List.perm_iff_count.1 h2 a
    simp only [if_true] at c2
    have hAB : fileRefs ft files' A = fileRefs ft files A ∧ fileRefs ft files' B = fileRefs ft files B := by
      constructor
      · exact fileRefs_congr ft files files' _ fun o ho hd =>
          (heff h hh o (by rw [hO]; exact List.mem_append_left _ (List.mem_append_left _ ho))
            (fun _ => List.mem_append_left _ ho) hd).1
      · exact fileRefs_congr ft files files' _ fun o ho hd =>
          (heff h hh o (by rw [hO]; exact List.mem_append_right _ ho) (fun _ => List.mem_append_right _ ho) hd).1
    have hd := hAR a
    simp only [hO, hO', fileRefs_append, List.count_append, hAB.1, hAB.2] at c1 c2
    simp only [List.count_append, List.map_append] at hold hd ⊢
    omega
  · -- sizes
    intro x hx o ho hd
    rcases hcases x hx o ho with ⟨hx', ho', hAB⟩ | ⟨rfl, hoY⟩
    · obtain ⟨e1, e2, e3⟩ := heff x hx' o ho' hAB hd
      rw [e1, e2]
      rcases hT.sizes x hx' o ho' hd with hz | ⟨hnz, hle⟩
      · exact .inl hz
      · exact .inr ⟨hnz, Nat.le_trans hle (Nat.mul_le_mul_right _ (e3 hnz))⟩
    · exact hYsize o hoY hd

end Sdmmc.Lemmas.VolTree
