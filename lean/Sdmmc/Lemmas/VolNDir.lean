/-
Several open volumes: the simulation (`RunSim`) of the READ-ONLY calls on a DIRECTORY handle whose volume is record `i`
— `find_directory_entry`, `iterate_dir`, `iterate_dir_lfn` —, of `open_dir`, and of `get_root_volume_label`.
-/
import Sdmmc.Lemmas.VolNFile

namespace Sdmmc.Lemmas.VolN
open Sdmmc.Model Sdmmc.Model.Fat Sdmmc.Spec.Volume
open Sdmmc.Spec hiding NoFault Coherent run step
open Sdmmc.Lemmas.MHoare

section
variable {hv i : Nat} {σd σf : List (Nat × Nat)}

/-! ### The common prefix: handle → directory record → volume index -/

/-- The volume record `getVolInfo i` answers carries the handle `hv`. -/
theorem getVolInfo_skel {s : Mgr} (hs : Skel hv i σd σf s) {vi : VolInfo} (hget : (getVolInfo i s).1 = .ok vi) :
    vi.rawVolume = hv := by
  obtain ⟨v0, hv0, hh⟩ := hs.volRec
  rw [getVolInfo_ok hv0] at hget
  cases hget
  exact hh

/-! ### `find_directory_entry` -/

theorem find_simAt {s : Mgr} {d k : Nat} (hs : Skel hv i σd σf s)
    (hk : σd.findIdx? (fun e => decide (e.1 = d)) = some k) (hown : σd[k]? = some (d, hv)) (name : List Nat) :
    SimAt hv i σd σf Eq (Model.findDirectoryEntry d name) (Model.findDirectoryEntry d name) s := by
  unfold Model.findDirectoryEntry
  refine SimAt.bind (sim_getDirById hs hk hown) fun a b hab _ hs => ?_
  obtain ⟨rfl, rfl⟩ := hab
  refine SimAt.bind (sim_getDir hs hown) fun x x' hxx hget hs' => ?_
  subst hxx
  obtain ⟨_, _, hxv⟩ := getDir_skel hs hown hget
  rw [hxv]
  refine SimAt.bind (sim_getVolumeById hs') fun a b hab _ hs => ?_
  obtain ⟨rfl, rfl⟩ := hab
  refine SimAt.bind (sim_toSfn hs name) fun _ _ h _ hs => ?_
  subst h
  exact sim_withVol hs _

theorem find_runSim {s : Mgr} {d : Nat} (hvol : s.vols.findIdx? (·.rawVolume = hv) = some i)
    (ht : dirTarget s d = some i) (name : List Nat) : RunSim hv i (Model.findDirectoryEntry d name) s := by
  obtain ⟨k, hk, hown⟩ := dirTarget_spec hvol ht
  exact RunSim.of_simAt (find_simAt ⟨hvol, rfl, rfl⟩ hk hown name)

/-! ### `iterate_dir` -/

theorem list_simAt {s : Mgr} {d k : Nat} (hs : Skel hv i σd σf s)
    (hk : σd.findIdx? (fun e => decide (e.1 = d)) = some k) (hown : σd[k]? = some (d, hv)) :
    SimAt hv i σd σf Eq (iterateDir d) (iterateDir d) s := by
  unfold iterateDir
  refine SimAt.bind (sim_getDirById hs hk hown) fun a b hab _ hs => ?_
  obtain ⟨rfl, rfl⟩ := hab
  refine SimAt.bind (sim_getDir hs hown) fun x x' hxx hget hs' => ?_
  subst hxx
  obtain ⟨_, _, hxv⟩ := getDir_skel hs hown hget
  rw [hxv]
  refine SimAt.bind (sim_getVolumeById hs') fun a b hab _ hs => ?_
  obtain ⟨rfl, rfl⟩ := hab
  refine SimAt.bind (sim_withVol hs _) fun _ _ h _ hs => ?_
  subst h
  exact sim_pure hs _

theorem list_runSim {s : Mgr} {d : Nat} (hvol : s.vols.findIdx? (·.rawVolume = hv) = some i)
    (ht : dirTarget s d = some i) : RunSim hv i (iterateDir d) s := by
  obtain ⟨k, hk, hown⟩ := dirTarget_spec hvol ht
  exact RunSim.of_simAt (list_simAt ⟨hvol, rfl, rfl⟩ hk hown)

/-! ### `iterate_dir_lfn` -/

theorem listLfn_simAt {s : Mgr} {d k : Nat} (hs : Skel hv i σd σf s)
    (hk : σd.findIdx? (fun e => decide (e.1 = d)) = some k) (hown : σd[k]? = some (d, hv)) (n : Nat) :
    SimAt hv i σd σf Eq (iterateDirLfn d n) (iterateDirLfn d n) s := by
  unfold iterateDirLfn
  refine SimAt.bind (sim_getDirById hs hk hown) fun a b hab _ hs => ?_
  obtain ⟨rfl, rfl⟩ := hab
  refine SimAt.bind (sim_getDir hs hown) fun x x' hxx hget hs' => ?_
  subst hxx
  obtain ⟨_, _, hxv⟩ := getDir_skel hs hown hget
  rw [hxv]
  refine SimAt.bind (sim_getVolumeById hs') fun a b hab _ hs => ?_
  obtain ⟨rfl, rfl⟩ := hab
  refine SimAt.bind (sim_withVol hs _) fun _ _ h _ hs => ?_
  subst h
  exact sim_lift hs _

theorem listLfn_runSim {s : Mgr} {d : Nat} (hvol : s.vols.findIdx? (·.rawVolume = hv) = some i)
    (ht : dirTarget s d = some i) (n : Nat) : RunSim hv i (iterateDirLfn d n) s := by
  obtain ⟨k, hk, hown⟩ := dirTarget_spec hvol ht
  exact RunSim.of_simAt (listLfn_simAt ⟨hvol, rfl, rfl⟩ hk hown n)

/-! ### `open_dir` -/

/-- `let s ← M.get; …` for whole calls. -/
theorem RunSim2.get_bind {α β : Type} {R : α → β → Prop} {f : Mgr → M α} {g : Mgr → M β} {s : Mgr}
    (h : RunSim2 hv i R (f s) (g (projH hv i s)) s) : RunSim2 hv i R (M.get >>= f) (M.get >>= g) s :=
  ⟨h.res, h.rel, h.volKeys, h.restVols, h.restDirs, h.restFiles, h.limits⟩

/-- The tail of `open_dir`: a fresh handle, the new record of the volume at the end of the table, the handle. -/
theorem openDir_tail {s : Mgr} (hs : Skel hv i σd σf s) (v c : Nat) (hvv : v = hv) :
    RunSim2 hv i Eq
      (generate >>= fun id => (M.modify fun s => { s with dirs := s.dirs ++ [{ rawDirectory := id, rawVolume := v, cluster := c }] }) >>= fun _ => pure id)
      (generate >>= fun id => (M.modify fun s => { s with dirs := s.dirs ++ [{ rawDirectory := id, rawVolume := v, cluster := c }] }) >>= fun _ => pure id)
      s := by
  refine SimAt.bind_run (sim_generate hs) fun id id' hid _ _ => ?_
  subst hid
  refine RunSim2.bind_const (run_appendDir _ hvv) fun _ _ _ => ?_
  exact ⟨.ok id, .ok id, fun _ => rfl, fun _ => rfl, rfl⟩

theorem openDir_runSim {s : Mgr} {d : Nat} (hvol : s.vols.findIdx? (·.rawVolume = hv) = some i)
    (ht : dirTarget s d = some i) (name : List Nat) : RunSim hv i (openDir d name) s := by
  obtain ⟨k, hk, hown⟩ := dirTarget_spec hvol ht
  have hs : Skel hv i (s.dirs.map dkey) (s.files.map fkeyN) s := ⟨hvol, rfl, rfl⟩
  apply RunSim2.toRunSim
  unfold openDir
  apply RunSim2.get_bind
  have hfull := projH_dirs_full hv i s
  by_cases hc : s.dirs.length ≥ s.maxDirs
  · rw [if_pos hc, if_pos (hfull.2 hc)]
    exact RunSim2.of_simAt (sim_fail hs _)
  rw [if_neg hc, if_neg (mt hfull.1 hc)]
  refine SimAt.bind_run (sim_getDirById hs hk hown) fun a b hab _ hs => ?_
  obtain ⟨rfl, rfl⟩ := hab
  refine SimAt.bind_run (sim_getDir hs hown) fun x x' hxx hget hs' => ?_
  subst hxx
  obtain ⟨_, _, hxv⟩ := getDir_skel hs hown hget
  rw [hxv]
  refine SimAt.bind_run (sim_getVolumeById hs') fun a b hab _ hs => ?_
  obtain ⟨rfl, rfl⟩ := hab
  refine SimAt.bind_run (sim_toSfn hs name) fun sfn _ h _ hs => ?_
  subst h
  refine SimAt.bind_run (sim_getVolInfo hs) fun vi _ h hget hs' => ?_
  subst h
  have hvv := getVolInfo_skel hs hget
  by_cases hd : sfn = Sfn.thisDir
  · rw [if_pos hd, if_pos hd]
    exact openDir_tail hs' _ _ hvv
  rw [if_neg hd, if_neg hd]
  refine SimAt.bind_run (sim_withVol hs' _) fun e _ h _ hs => ?_
  subst h
  by_cases he : (!Attr.isDirectory e.attributes) = true
  · rw [if_pos he]
    exact RunSim2.of_simAt (sim_fail hs _)
  rw [if_neg he]
  exact openDir_tail hs _ _ hvv

/-! ### `get_root_volume_label`

The call opens the root directory (APPENDS a record of the volume), lists it, closes it (removes the LAST record): the
key skeleton changes twice, so the stages are composed with the skeleton-free judgment `SimE`. -/

/-- `SimAt` without the key skeleton: the answers are related, the state reached from the projection IS the projection of
the state reached, the records of the other volumes are untouched.  (For the stages of a call that change the tables.) -/
def SimE {α β : Type} (hv i : Nat) (R : α → β → Prop) (m : M α) (m' : M β) (s : Mgr) : Prop :=
  (m' (projH hv i s)).2 = projH hv i (m s).2 ∧ ResRel R (m s).1 (m' (projH hv i s)).1 ∧ rest hv i (m s).2 = rest hv i s

theorem SimAt.toSimE {α β : Type} {R : α → β → Prop} {m : M α} {m' : M β} {s : Mgr} (h : SimAt hv i σd σf R m m' s) :
    SimE hv i R m m' s := h.2

theorem SimE.bind {α β γ δ : Type} {R : α → β → Prop} {Q : γ → δ → Prop} {m : M α} {m' : M β} {f : α → M γ} {g : β → M δ}
    {s : Mgr} (h : SimE hv i R m m' s)
    (hf : ∀ a b, R a b → (m s).1 = .ok a → SimE hv i Q (f a) (g b) (m s).2) :
    SimE hv i Q (m >>= f) (m' >>= g) s := by
  obtain ⟨h2, h3, h4⟩ := h
  rcases hms : m s with ⟨r, s1⟩
  rcases hmp : m' (projH hv i s) with ⟨r', t1⟩
  rw [hms] at h2 h3 h4 hf
  rw [hmp] at h2 h3
  simp only at h2 h3 h4 hf
  subst h2
  cases r with
  | ok a =>
    cases r' with
    | ok b =>
      obtain ⟨k2, k3, k4⟩ := hf a b h3 rfl
      unfold SimE
      rw [bind_ok hms, bind_ok hmp]
      exact ⟨k2, k3, k4.trans h4⟩
    | err e => exact absurd h3 (by simp [ResRel])
    | panic e => exact absurd h3 (by simp [ResRel])
    | diverged => exact absurd h3 (by simp [ResRel])
  | err e =>
    cases r' with
    | err e' =>
      unfold SimE
      rw [bind_err hms, bind_err hmp]
      exact ⟨rfl, by simpa [ResRel] using h3, h4⟩
    | ok b => exact absurd h3 (by simp [ResRel])
    | panic e => exact absurd h3 (by simp [ResRel])
    | diverged => exact absurd h3 (by simp [ResRel])
  | panic e =>
    cases r' with
    | panic e' =>
      unfold SimE
      rw [bind_panic hms, bind_panic hmp]
      exact ⟨rfl, by simpa [ResRel] using h3, h4⟩
    | ok b => exact absurd h3 (by simp [ResRel])
    | err e => exact absurd h3 (by simp [ResRel])
    | diverged => exact absurd h3 (by simp [ResRel])
  | diverged =>
    cases r' with
    | diverged =>
      unfold SimE
      rw [bind_diverged hms, bind_diverged hmp]
      exact ⟨rfl, by simp [ResRel], h4⟩
    | ok b => exact absurd h3 (by simp [ResRel])
    | err e => exact absurd h3 (by simp [ResRel])
    | panic e => exact absurd h3 (by simp [ResRel])

/-- A first step that answers and leaves the state alone, on both sides. -/
theorem SimE.bind_ok {α β γ δ : Type} {Q : γ → δ → Prop} {m : M α} {m' : M β} {f : α → M γ} {g : β → M δ} {s : Mgr} {a : α} {b : β}
    (h1 : m s = (.ok a, s)) (h2 : m' (projH hv i s) = (.ok b, projH hv i s)) (h : SimE hv i Q (f a) (g b) s) :
    SimE hv i Q (m >>= f) (m' >>= g) s := by
  unfold SimE
  rw [MHoare.bind_ok h1, MHoare.bind_ok h2]
  exact h

theorem simE_const {α : Type} (s : Mgr) (r : Res α) : SimE hv i Eq (fun s => (r, s) : M α) (fun s => (r, s)) s :=
  ⟨rfl, resRel_refl r, rfl⟩

theorem SimE.attempt {α β : Type} {R : α → β → Prop} {m : M α} {m' : M β} {s : Mgr} (h : SimE hv i R m m' s) :
    SimE hv i (ResRel R) (M.attempt m) (M.attempt m') s := by
  obtain ⟨h2, h3, h4⟩ := h
  exact ⟨h2, h3, h4⟩

theorem RunSim.of_simE {α : Type} {m : M α} {s : Mgr} (h : SimE hv i Eq m m s) : RunSim hv i m s := by
  obtain ⟨h2, h3, h4⟩ := h
  have h4' := h4
  unfold rest at h4'
  simp only [Prod.mk.injEq] at h4'
  obtain ⟨r1, r2, r3, r4, r5, r6, r7⟩ := h4'
  exact ⟨h3.eq, ProjRel.of_eq h2, r4, r1, by rw [r2], by rw [r3], r5, r6, r7⟩

/-! #### Appending / removing a record of the volume at the END of the directory table: exact commutation -/

theorem filter_append_own (l : List DirInfo) (x : DirInfo) (hx : x.rawVolume = hv) :
    (l ++ [x]).filter (ownD hv) = l.filter (ownD hv) ++ [x] ∧
    (l ++ [x]).filter (fun f => !ownD hv f) = l.filter (fun f => !ownD hv f) := by
  have hp : ownD hv x = true := by simp [hx]
  constructor
  · rw [List.filter_append, List.filter_cons, if_pos hp]; rfl
  · rw [List.filter_append, List.filter_cons]; simp [hp]

/-- The projection of a state whose directory table ends with a record of the volume. -/
theorem projH_dirs_append {s : Mgr} {l : List DirInfo} {x : DirInfo} (hd : s.dirs = l ++ [x]) (hx : x.rawVolume = hv) :
    projH hv i s = { projH hv i { s with dirs := l } with dirs := l.filter (ownD hv) ++ [x] } ∧
    rest hv i s = rest hv i { s with dirs := l } := by
  obtain ⟨e1, e2⟩ := filter_append_own (hv := hv) l x hx
  constructor
  · unfold projH volDirs volFiles otherDirs otherFiles
    simp only
    rw [hd, e1, e2]
  · unfold rest otherDirs otherFiles
    simp only
    rw [hd, e2]

/-- `open_root_dir hv` commutes exactly with the projection (the new record names `hv`). -/
theorem openRootDir_eq (v : Nat) (s : Mgr) :
    openRootDir v s =
      if s.dirs.length ≥ s.maxDirs then (.err .TooManyOpenDirs, { s with nextId := (s.nextId + 1) % 4294967296 })
      else (.ok s.nextId, { s with nextId := (s.nextId + 1) % 4294967296,
                                   dirs := s.dirs ++ [{ rawDirectory := s.nextId, rawVolume := v, cluster := Gen.CLUSTER_ROOT_DIR }] }) := by
  unfold openRootDir
  rw [generate_bind, get_bind]
  by_cases hc : s.dirs.length ≥ s.maxDirs
  · rw [if_pos hc, if_pos hc]; rfl
  · rw [if_neg hc, if_neg hc]; rfl

theorem openRootDir_simE (s : Mgr) : SimE hv i Eq (openRootDir hv) (openRootDir hv) s := by
  unfold SimE
  have hfull := projH_dirs_full hv i s
  rw [openRootDir_eq, openRootDir_eq]
  by_cases hc : s.dirs.length ≥ s.maxDirs
  · rw [if_pos hc, if_pos (hfull.2 hc)]
    exact ⟨rfl, rfl, rfl⟩
  · rw [if_neg hc, if_neg (mt hfull.1 hc)]
    obtain ⟨e1, e2⟩ := filter_append_own (hv := hv) s.dirs
      { rawDirectory := s.nextId, rawVolume := hv, cluster := Gen.CLUSTER_ROOT_DIR } rfl
    refine ⟨?_, rfl, ?_⟩
    · show _ = projH hv i _
      unfold projH volDirs volFiles otherDirs otherFiles
      simp only
      rw [e1, e2]
    · unfold rest otherDirs otherFiles
      simp only
      rw [e2]

theorem swapRemove_concat {α : Type} (l : List α) (x : α) : swapRemove (l ++ [x]) l.length = l := by
  unfold swapRemove
  simp

theorem findIdx?_concat_fresh {α : Type} (p : α → Bool) (l : List α) (x : α) (hl : ∀ y ∈ l, p y = false) (hx : p x = true) :
    (l ++ [x]).findIdx? p = some l.length := by
  have : l.findIdx? p = none := List.findIdx?_eq_none_iff.2 hl
  rw [List.findIdx?_append, this, List.findIdx?_cons, if_pos hx]
  simp

/-- `close_dir` of the LAST record, whose handle no earlier record carries. -/
theorem closeDir_last {s : Mgr} {l : List DirInfo} {x : DirInfo} (hd : s.dirs = l ++ [x])
    (hfresh : ∀ y ∈ l, y.rawDirectory ≠ x.rawDirectory) : closeDir x.rawDirectory s = (.ok (), { s with dirs := l }) := by
  unfold closeDir
  rw [get_bind, hd, findIdx?_concat_fresh _ l x (fun y hy => by simpa using hfresh y hy) (by simp)]
  show (Res.ok (), ({ s with dirs := swapRemove s.dirs l.length } : Mgr)) = _
  rw [hd, swapRemove_concat]

theorem closeDir_last_simE {s : Mgr} {l : List DirInfo} {x : DirInfo} (hd : s.dirs = l ++ [x]) (hx : x.rawVolume = hv)
    (hfresh : ∀ y ∈ l, y.rawDirectory ≠ x.rawDirectory) :
    SimE hv i Eq (closeDir x.rawDirectory) (closeDir x.rawDirectory) s := by
  obtain ⟨e1, e2⟩ := projH_dirs_append (i := i) hd hx
  have c1 := closeDir_last hd hfresh
  have c2 : closeDir x.rawDirectory (projH hv i s) = (.ok (), projH hv i { s with dirs := l }) := by
    have := closeDir_last (s := projH hv i s) (l := l.filter (ownD hv)) (x := x) (by rw [e1])
      (fun y hy => hfresh y (List.mem_of_mem_filter hy))
    rw [this, e1]
    rfl
  unfold SimE
  rw [c1, c2]
  exact ⟨rfl, rfl, e2.symm⟩

theorem dirs_of_keys {ds : List DirInfo} {σ : List (Nat × Nat)} {d v : Nat} (h : ds.map dkey = σ ++ [(d, v)]) :
    ∃ l x, ds = l ++ [x] ∧ l.map dkey = σ ∧ x.rawDirectory = d ∧ x.rawVolume = v := by
  obtain ⟨l1, l2, e, h1, h2⟩ := List.map_eq_append_iff.1 h
  obtain ⟨x, ex, hx⟩ := List.map_eq_singleton_iff.1 h2
  subst ex
  exact ⟨l1, x, e, h1, congrArg Prod.fst hx, congrArg Prod.snd hx⟩

/-- The part of `get_root_volume_label` after `open_root_dir`: list the directory just opened (the LAST record, whose
handle `id` no earlier record carries), close it, answer. -/
theorem label_tail {s : Mgr} {σ : List (Nat × Nat)} {id : Nat} (hs : Skel hv i (σ ++ [(id, hv)]) σf s)
    (hfresh : id ∉ σ.map Prod.fst) :
    SimE hv i Eq
      (M.attempt (iterateDir id) >>= fun r => M.attempt (closeDir id) >>= fun _ => M.lift r >>= fun es =>
        pure ((es.find? fun e => e.attributes = Gen.ATTR_VOLUME).map (·.name)))
      (M.attempt (iterateDir id) >>= fun r => M.attempt (closeDir id) >>= fun _ => M.lift r >>= fun es =>
        pure ((es.find? fun e => e.attributes = Gen.ATTR_VOLUME).map (·.name))) s := by
  have hnone : σ.findIdx? (fun e => decide (e.1 = id)) = none := by
    rw [List.findIdx?_eq_none_iff]
    intro e he
    have : e.1 ≠ id := fun h => hfresh (List.mem_map.2 ⟨e, he, h⟩)
    simpa using this
  have hk : (σ ++ [(id, hv)]).findIdx? (fun e => decide (e.1 = id)) = some σ.length :=
    findIdx?_concat_fresh _ σ (id, hv) (List.findIdx?_eq_none_iff.1 hnone) (by simp)
  have hown : (σ ++ [(id, hv)])[σ.length]? = some (id, hv) := by simp
  have h2 := list_simAt hs hk hown
  refine SimE.bind h2.attempt.toSimE fun r r' hrr _ => ?_
  have hr : r' = r := ResRel.eq hrr
  subst hr
  obtain ⟨l, x, hd, hl, hxd, hxv⟩ := dirs_of_keys h2.1.dirs
  have hfr : ∀ y ∈ l, y.rawDirectory ≠ x.rawDirectory := by
    intro y hy hyx
    apply hfresh
    rw [← hl, List.map_map]
    exact List.mem_map.2 ⟨y, hy, by rw [← hxd, ← hyx]; rfl⟩
  have hcd := (closeDir_last_simE (i := i) hd hxv hfr).attempt
  rw [hxd] at hcd
  refine SimE.bind hcd fun _ _ _ _ => ?_
  refine SimE.bind (simE_const _ r') fun a b hab _ => ?_
  subst hab
  exact simE_const _ _

/-- `get_root_volume_label`.  `hfresh`: the handle the generator hands out next is not the handle of an open directory.
Without it the FIRST directory record carrying that raw handle could be a record of ANOTHER volume (a handle collision,
possible after 2^32 generations): `iterate_dir` and `close_dir` of the call would then list and close THAT directory
instead of the root directory just opened, and the call would not be a call on volume `hv` alone. -/
theorem label_runSim {s : Mgr} (hvol : s.vols.findIdx? (·.rawVolume = hv) = some i)
    (hfresh : s.nextId ∉ s.dirs.map (·.rawDirectory)) : RunSim hv i (getRootVolumeLabel hv) s := by
  have hs : Skel hv i (s.dirs.map dkey) (s.files.map fkeyN) s := ⟨hvol, rfl, rfl⟩
  obtain ⟨vi, hvi, hh⟩ := hs.volRec
  have hP0 : (projH hv i s).vols.findIdx? (·.rawVolume = hv) = some 0 := by unfold projH; rw [hvi]; simp [hh]
  have hP : (projH hv i s).vols[0]? = some vi := by unfold projH; rw [hvi]; rfl
  apply RunSim.of_simE
  unfold getRootVolumeLabel
  refine SimE.bind_ok (getVolumeById_ok hvol) (getVolumeById_ok hP0) ?_
  refine SimE.bind_ok (getVolInfo_ok hvi) (getVolInfo_ok hP) ?_
  by_cases hc : (!(volumeNameTrim vi.vol.name).isEmpty) = true
  · rw [if_pos hc]; exact simE_const s _
  rw [if_neg hc]
  refine SimE.bind (openRootDir_simE s) fun id id' hid hok => ?_
  subst hid
  rw [openRootDir_eq] at hok ⊢
  by_cases hfull : s.dirs.length ≥ s.maxDirs
  · rw [if_pos hfull] at hok; cases hok
  rw [if_neg hfull] at hok ⊢
  cases hok
  refine label_tail (σ := s.dirs.map dkey) (σf := s.files.map fkeyN) ⟨hvol, ?_, rfl⟩ ?_
  · show (s.dirs ++ [_]).map dkey = _
    rw [List.map_append]; rfl
  · rw [List.map_map]; exact hfresh

end
end Sdmmc.Lemmas.VolN
