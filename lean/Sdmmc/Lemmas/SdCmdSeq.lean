/-
Lemmas for C12, part 15: which command frames `read` and `write` send (the addressing of
single- and multi-block transfers), and the address computation.
-/
import Sdmmc.Lemmas.SdFraming

namespace Sdmmc.Lemmas.Sd
open Sdmmc.Model Sdmmc.Model.Sd Sdmmc.Gen

variable {σ : Type} {α β : Type} (B : BusOps σ)

/-- `m` sends a prefix of the command frames `L`, and all of `L` when it succeeds. -/
def CmdSeq (m : S σ α) (L : List Event) : Prop :=
  Tr m (fun r evs => cmdEvs evs <+: L ∧ ((∃ a, r = .ok a) → cmdEvs evs = L))

namespace CmdSeq

theorem of_nocmds {m : S σ α} (h : Emits NoCmds m) : CmdSeq m [] :=
  h.conseq fun _ _ he => by simp only [NoCmds] at he; simp [he]

theorem pure (a : α) : CmdSeq (pure a : S σ α) [] := of_nocmds (Emits.pure a)
theorem get : CmdSeq (S.get : S σ (St σ)) [] := of_nocmds Emits.get
theorem lift (r : SRes α) : CmdSeq (S.lift r : S σ α) [] := of_nocmds (Emits.lift r)

theorem fail (e : SdErr) (L : List Event) : CmdSeq (S.fail e : S σ α) L :=
  (Tr.fail e).conseq fun r evs h => by
    obtain ⟨rfl, rfl⟩ := h
    exact ⟨List.nil_prefix, fun ⟨_, hr⟩ => by cases hr⟩

theorem bind {m : S σ α} {f : α → S σ β} {L1 L2 : List Event} (hm : CmdSeq m L1)
    (hf : ∀ a, CmdSeq (f a) L2) : CmdSeq (m >>= f) (L1 ++ L2) := by
  refine (Tr.bind hm hf).conseq ?_
  rintro r evs (⟨a, e1, e2, rfl, h1, h2⟩ | ⟨e, rfl, h⟩ | ⟨p, rfl, h⟩)
  · have h1' := h1.2 ⟨a, rfl⟩
    refine ⟨?_, fun hr => ?_⟩
    · rw [cmdEvs_append, h1']; exact (List.prefix_append_right_inj L1).mpr h2.1
    · rw [cmdEvs_append, h1', h2.2 hr]
  · exact ⟨h.1.trans (List.prefix_append L1 L2), fun ⟨_, hr⟩ => by cases hr⟩
  · exact ⟨h.1.trans (List.prefix_append L1 L2), fun ⟨_, hr⟩ => by cases hr⟩

theorem ite {c : Prop} [Decidable c] {m1 m2 : S σ α} {L : List Event} (h1 : CmdSeq m1 L) (h2 : CmdSeq m2 L) :
    CmdSeq (if c then m1 else m2) L := by split <;> assumption

theorem cast {m : S σ α} {L L' : List Event} (h : CmdSeq m L) (he : L = L') : CmdSeq m L' := he ▸ h

end CmdSeq

theorem cardCommand_cmdSeq (c arg : Nat) : CmdSeq (cardCommand B c arg) [.cmd (frame c arg)] :=
  (cardCommand_tr B c arg).conseq fun r evs ⟨h, _⟩ => by
    rcases h with ⟨pre, post, h1, h2, rfl, _⟩ | ⟨h1, _, _, e, rfl⟩
    · have : cmdEvs (pre ++ Event.cmd (frame c arg) :: post) = [.cmd (frame c arg)] := by
        rw [cmdEvs_append, cmdEvs_polls h1, cmdEvs_cons, cmdEvs_polls h2]; simp [isCmdEv]
      rw [this]; exact ⟨List.prefix_refl _, fun _ => rfl⟩
    · rw [cmdEvs_polls h1]; exact ⟨List.nil_prefix, fun ⟨_, hr⟩ => by cases hr⟩

theorem cardAcmd_cmdSeq (c arg : Nat) :
    CmdSeq (cardAcmd B c arg) [.cmd (frame CMD55 0), .cmd (frame c arg)] := by
  unfold cardAcmd
  exact (cardCommand_cmdSeq B _ _).bind fun _ => cardCommand_cmdSeq B _ _

/-- The command frames of a `read`, given the address. -/
def readCmds (n start : Nat) : List Event :=
  if n = 1 then [.cmd (frame CMD17 start)] else [.cmd (frame CMD18 start), .cmd (frame CMD12 0)]

theorem read_cmdSeq (n idx start : Nat) (s : St σ) (hstart : startIdx s.cardType idx = .ok start) :
    TrAt (Sd.read B n idx) s (fun r evs => cmdEvs evs <+: readCmds n start ∧
      ((∃ a, r = .ok a) → cmdEvs evs = readCmds n start)) := by
  unfold Sd.read
  refine TrAt.get_bind ?_
  rw [hstart]
  have hlift : TrAt (S.lift (SRes.ok start) >>= fun start => if n = 1 then (do
        let _ ← cardCommand B CMD17 start
        let b ← readData B 512
        Pure.pure [b]) else (do
        let _ ← cardCommand B CMD18 start
        let r ← S.attempt (readBlocks B n)
        match r with
        | .panic p => S.lift (.panic p)
        | _ => do
          let stopped ← S.attempt (cardCommand B CMD12 0)
          match r, stopped with
          | .ok bs, .ok _ => Pure.pure bs
          | .ok _, .err e => S.fail e
          | .ok _, .panic p => S.lift (.panic p)
          | .err e, _ => S.fail e
          | .panic p, _ => S.lift (.panic p))) s (fun r evs => cmdEvs evs <+: readCmds n start ∧
      ((∃ a, r = .ok a) → cmdEvs evs = readCmds n start)) := by
    show TrAt (if n = 1 then _ else _) s _
    unfold readCmds
    split
    · exact (((cardCommand_cmdSeq B CMD17 start).bind fun _ =>
        (CmdSeq.of_nocmds (readData_emits B 512)).bind fun b => CmdSeq.pure [b]).cast (by simp)) s
    · refine ((Tr.bind (cardCommand_cmdSeq B CMD18 start) fun _ => readMultiRest_tr B n) s).conseq ?_
      rintro r evs (⟨a, e1, e2, rfl, h1, pre, post, rfl, hp, hn⟩ | ⟨e, rfl, h⟩ | ⟨p, rfl, h⟩)
      · have h1' := h1.2 ⟨a, rfl⟩
        have : cmdEvs (e1 ++ (pre ++ Event.cmd (frame CMD12 0) :: post)) =
            [.cmd (frame CMD18 start), .cmd (frame CMD12 0)] := by
          simp only [NoCmds] at hn
          rw [cmdEvs_append, h1', cmdEvs_append, hn, cmdEvs_cons, cmdEvs_polls hp]; simp [isCmdEv]
        rw [this]; exact ⟨List.prefix_refl _, fun _ => rfl⟩
      · exact ⟨h.1.trans ⟨[_], rfl⟩, fun ⟨_, hr⟩ => by cases hr⟩
      · exact ⟨h.1.trans ⟨[_], rfl⟩, fun ⟨_, hr⟩ => by cases hr⟩
  exact hlift

/-- The command frames of a `write`, given the address. -/
def writeCmds (blocks : List Bytes) (start : Nat) : List Event :=
  match blocks with
  | [_] => [.cmd (frame CMD24 start), .cmd (frame CMD13 0)]
  | _ => [.cmd (frame CMD55 0), .cmd (frame ACMD23 (blocks.length % 4294967296)), .cmd (frame CMD25 start)]

theorem write_cmdSeq (blocks : List Bytes) (idx start : Nat) (s : St σ)
    (hstart : startIdx s.cardType idx = .ok start) :
    TrAt (write B blocks idx) s (fun r evs => cmdEvs evs <+: writeCmds blocks start ∧
      ((∃ a, r = .ok a) → cmdEvs evs = writeCmds blocks start)) := by
  have hnb : ∀ n, CmdSeq (waitNotBusy B n) [] := fun n => CmdSeq.of_nocmds (waitNotBusy_emits B n)
  unfold write
  refine TrAt.get_bind ?_
  rw [hstart]
  show TrAt (match blocks with | [b] => _ | _ => _) s _
  unfold writeCmds
  split
  · next b =>
    exact (((cardCommand_cmdSeq B CMD24 start).bind fun _ =>
      (CmdSeq.of_nocmds (writeData_emits B _ b)).bind fun _ => (hnb _).bind fun _ =>
      (cardCommand_cmdSeq B CMD13 0).bind fun r => (CmdSeq.ite (CmdSeq.fail _ _)
        ((CmdSeq.of_nocmds (readByte_emits B)).bind fun _ => CmdSeq.ite (CmdSeq.fail _ _) (CmdSeq.pure ())) :
          CmdSeq _ [])).cast (by simp)) s
  · next hne =>
    exact (((cardAcmd_cmdSeq B ACMD23 _).bind fun _ => (hnb _).bind fun _ =>
      (cardCommand_cmdSeq B CMD25 start).bind fun _ =>
      CmdSeq.of_nocmds
        (by emits [writeBlocks_emits B _, waitNotBusy_emits B _, writeByte_emits B _, readByte_emits B])).cast
        (by simp)) s

/-! ### Addresses -/

theorem startIdx_sd (ct : CardType) (hct : ct = .SD1 ∨ ct = .SD2) (idx : Nat) (h : idx < 8388608) :
    startIdx (some ct) idx = .ok (idx * 512) := by
  rcases hct with rfl | rfl <;> simp [startIdx] <;> omega

theorem startIdx_sd_overflow (ct : CardType) (hct : ct = .SD1 ∨ ct = .SD2) (idx : Nat) (h : 8388608 ≤ idx) :
    ∃ msg, startIdx (some ct) idx = .panic msg := by
  refine ⟨"attempt to multiply with overflow", ?_⟩
  rcases hct with rfl | rfl <;> (simp only [startIdx]; rw [if_neg (by omega)])

theorem startIdx_sdhc (idx : Nat) : startIdx (some .SDHC) idx = .ok idx := rfl
theorem startIdx_none (idx : Nat) : startIdx none idx = .err .CardNotFound := rfl

end Sdmmc.Lemmas.Sd
