/-
The fill / delete / refill cycle without glue (C05), part 6 — any sequence of `write` calls to one
writable file keeps the volume invariant, with the ghost explicit (`fill_inv`): the chain list is the
old one with the chain of the file replaced by its extension; same sub-directories; every directory has
the slot list it had.
-/
import Sdmmc.Lemmas.CycleWrite
import Sdmmc.Lemmas.CapacitySeq

namespace Sdmmc.Lemmas.Cycle
open Sdmmc.Model Sdmmc.Model.Fat Sdmmc.Spec.Volume Sdmmc.Lemmas.VolBase Sdmmc.Lemmas.VolTree
open Sdmmc.Spec hiding NoFault Coherent
open Sdmmc.Lemmas.VolDisk Sdmmc.Lemmas.VolMed Sdmmc.Lemmas.VolEng Sdmmc.Lemmas.VolApi
open Sdmmc.Lemmas.Capacity (writeMany)

theorem fill_inv (h i : Nat) (A B : List (List Nat)) : ∀ (bs : List Bytes) (s : Mgr) (gh : Ghost) (f : FileInfo) (cs : List Nat),
    VolInv s gh → s.files.findIdx? (·.rawFile = h) = some i → s.files[i]? = some f → f.mode ≠ .ReadOnly →
    chainOf gh.G f.entry.cluster = cs → gh.G = withChain A cs B →
    ∃ f' v' cs', (writeMany h bs s).2.files[i]? = some f' ∧ (writeMany h bs s).2.vols = [v'] ∧
      VolInv (writeMany h bs s).2 { vol := v'.vol, G := withChain A cs' B, dirs := gh.dirs } ∧
      SameGeom gh.vol v'.vol ∧ chainOf (withChain A cs' B) f'.entry.cluster = cs' ∧
      (∀ x, x ∈ dirIds gh.dirs →
        dirSlots v'.vol (writeMany h bs s).2.dev.disk (withChain A cs' B) x = dirSlots gh.vol s.dev.disk gh.G x) ∧
      fkey f' = fkey f ∧ (writeMany h bs s).2.files = s.files.set i f' := by
  intro bs
  induction bs with
  | nil =>
    intro s gh f cs hI hidx hf _ hcs hG
    obtain ⟨vi, hv, hvol, _, _⟩ := vol_of_file hI (List.mem_of_getElem? hf)
    have hgh : ({ vol := vi.vol, G := withChain A cs B, dirs := gh.dirs } : Ghost) = gh := by
      rw [hvol, ← hG]
    refine ⟨f, vi, cs, hf, hv, ?_, SameGeom.of_eq hvol, ?_, ?_, rfl, (ReadRefines.list_set_self _ _ _ hf).symm⟩
    · show VolInv s _
      rw [hgh]; exact hI
    · rw [← hG]; exact hcs
    · intro x _
      show dirSlots vi.vol s.dev.disk (withChain A cs B) x = _
      rw [hvol, ← hG]
  | cons b bs ih =>
    intro s gh f cs hI hidx hf hmode hcs hG
    obtain ⟨f1, v1, cs1, hfiles1, hvols1, _, _, hI1, hsg1, hch1, hslots1, _, hraw1, hmode1, hkey1⟩ :=
      write_core_x hI hidx hf hmode b hcs hG
    have hilt : i < s.files.length := (List.getElem?_eq_some_iff.1 hf).1
    have hidx1 : (Model.write h b s).2.files.findIdx? (·.rawFile = h) = some i := by
      rw [hfiles1, ReadRefines.findIdx?_set_same _ s.files i f f1 hf (by simp only [hraw1])]
      exact hidx
    have hf1 : (Model.write h b s).2.files[i]? = some f1 := by
      rw [hfiles1]; exact List.getElem?_set_self hilt
    obtain ⟨f', v', cs', hf', hv', hI', hsg', hch', hslots', hkey', hfs'⟩ :=
      ih (Model.write h b s).2 { vol := v1.vol, G := withChain A cs1 B, dirs := gh.dirs } f1 cs1 hI1 hidx1 hf1
        (by rw [hmode1]; exact hmode) hch1 rfl
    refine ⟨f', v', cs', hf', hv', hI', hsg1.trans hsg', hch', ?_, hkey'.trans hkey1, ?_⟩
    swap
    · show (writeMany h bs (Model.write h b s).2).2.files = _
      rw [hfs', hfiles1, List.set_set]
    intro x hx
    show dirSlots v'.vol (writeMany h bs (Model.write h b s).2).2.dev.disk (withChain A cs' B) x = _
    rw [hslots' x hx]
    exact hslots1 x hx

end Sdmmc.Lemmas.Cycle
