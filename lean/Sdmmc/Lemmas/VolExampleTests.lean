/-
TESTS (evaluation only, not theorems): histories of the manager model run from the example volumes of
`Sdmmc.Lemmas.VolExample`, with the verdict of the executable checker `checkVolInv` (on a ghost
reconstructed from the state alone, `ghostOf`) after every call.
-/
import Sdmmc.Lemmas.VolExample

namespace Sdmmc.Lemmas.VolExample

open Sdmmc.Model Sdmmc.Model.Fat Sdmmc.Spec Sdmmc.Spec.Volume Sdmmc.Lemmas.VolCheck

/-! ### TESTS (evaluation only, not theorems)

Histories of the manager model, with the checker's verdict after every call.  `ghostOf` reconstructs the
ghost from the state alone, so a verdict "inv OK" means: SOME ghost makes `checkVolInv` true (and then
`VolInv` holds, by `checkVolInv_sound`); "INV FAILS [clauses]" means: the reconstructed ghost is rejected.
Handles of the start states: volume 1, root directory 2, `SUB` 3 (`mgr0`: file 4 = `E.DAT`); new handles
start at 10. -/

namespace Test


/-- the chain of `c` read off the FAT, with fuel -/
def chainFrom (v : FatVolume) (d : Disk) : Nat → Nat → List Nat
  | 0, _ => []
  | fuel + 1, c =>
    match nextOf v d c with
    | .ok n => if 2 ≤ n ∧ n < endCluster v then c :: chainFrom v d fuel n else [c]
    | _ => [c]

def chainAt (v : FatVolume) (d : Disk) (c : Nat) : List Nat :=
  if 2 ≤ c ∧ c < endCluster v then chainFrom v d (endCluster v + 1) c else [c]

/-- the slots of directory number `h`, read off the medium -/
def slotsAt (v : FatVolume) (d : Disk) (h : Nat) : List Slot :=
  if h = 0 then
    match v.fatType with
    | .fat16 => fixedRootSlots v d
    | .fat32 => chainSlots v d (chainAt v d v.firstRootDirCluster)
  else chainSlots v d (chainAt v d h)

def subsOf (v : FatVolume) (d : Disk) (h : Nat) : List (Nat × Nat) :=
  ((objects h (slotsAt v d h)).filter isDirE).map fun o => (sCluster v.fatType o, h)

/-- breadth-first walk: parents before children -/
def walkDirs (v : FatVolume) (d : Disk) : Nat → List (Nat × Nat) → List (Nat × Nat) → List (Nat × Nat)
  | 0, _, acc => acc
  | _ + 1, [], acc => acc
  | fuel + 1, hp :: q, acc => walkDirs v d fuel (q ++ subsOf v d hp.1) (acc ++ [hp])

/-- The ghost reconstructed from the medium and the open files, for the volume record `v`: the
sub-directories found by walking the tree from the root (parents first); `G` = the chains (read off the
FAT) of the FAT32 root, of the sub-directories and of the effective non-zero start clusters of the file
entries, in that order — plus every other used cluster as a singleton chain, so that a leaked cluster
shows up as an `allRefs` (or `owns.chains`) failure. -/
def ghostOfV (v : FatVolume) (s : Mgr) : Ghost :=
  let d := s.dev.disk
  let dirs := walkDirs v d (endCluster v + 2) (subsOf v d 0) []
  let frefs := (dirIds dirs).flatMap fun h => fileRefs v.fatType s.files (objects h (slotsAt v d h))
  let heads := rootHead v ++ dirs.map Prod.fst ++ frefs
  let G0 := heads.map (chainAt v d)
  let leaks := (List.range (endCluster v)).filter fun c => decide (isUsed v d c) && !(G0.flatten.contains c)
  { vol := v, G := G0 ++ leaks.map fun c => [c], dirs := dirs }

/-- the ghost reconstructed from a state (the volume record of the open volume; once the volume is
closed the record is gone: `trace` / `report` then keep the last record, as the ghost of `VolInv` does) -/
def ghostOf (s : Mgr) : Ghost := ghostOfV ((s.vols.head?.map (·.vol)).getD default) s

def str (s : String) : List Nat := s.toList.map Char.toNat
def nameStr (n : List Nat) : String := String.ofList (n.map Char.ofNat)

def modeStr : Mode → String
  | .ReadOnly => "RO" | .ReadWriteAppend => "App" | .ReadWriteTruncate => "Trunc" | .ReadWriteCreate => "Create"
  | .ReadWriteCreateOrTruncate => "CrOrTrunc" | .ReadWriteCreateOrAppend => "CrOrApp"

def opStr : Op → String
  | .openVolume i => s!"openVolume {i}" | .closeVolume v => s!"closeVolume {v}" | .openRoot v => s!"openRoot {v}"
  | .openDir d n => s!"openDir {d} \"{nameStr n}\"" | .closeDir d => s!"closeDir {d}"
  | .openFile d n m => s!"openFile {d} \"{nameStr n}\" {modeStr m}"
  | .read f n => s!"read {f} {n}" | .write f b => s!"write {f} <{b.length}B>"
  | .seekStart f n => s!"seekStart {f} {n}" | .seekCur f n => s!"seekCur {f} {n}" | .seekEnd f n => s!"seekEnd {f} {n}"
  | .flush f => s!"flush {f}" | .closeFile f => s!"closeFile {f}"
  | .delete d n => s!"delete {d} \"{nameStr n}\"" | .mkdir d n => s!"mkdir {d} \"{nameStr n}\""
  | .find d n => s!"find {d} \"{nameStr n}\"" | .list d => s!"list {d}" | .listLfn d n => s!"listLfn {d} {n}"
  | .length f => s!"length {f}" | .offset f => s!"offset {f}" | .eof f => s!"eof {f}" | .hasOpen => "hasOpen"
  | .label v => s!"label {v}"

def payStr : Payload → String
  | .unit => "()" | .handle h => s!"handle {h}" | .bytes b => s!"{b.length} bytes" | .num n => s!"{n}" | .bool b => s!"{b}"
  | .entry e => s!"entry cl={e.cluster} size={e.size} attr={e.attributes}"
  | .entries es => s!"entries {es.map fun e => nameStr (e.name.map (·.toNat))}"
  | .lfnEntries es => s!"{es.length} lfn-entries" | .label l => s!"label {l.map fun b => nameStr (b.map (·.toNat))}"

def resStr : Res Payload → String
  | .ok p => "Ok " ++ payStr p
  | .err e => "Err " ++ toString (repr e)
  | .panic m => "PANIC " ++ m
  | .diverged => "DIVERGED"

/-- run `ops` from `s`; after every call: the call, its result, the checker's verdict on
`(state, ghostOf state)` (the failing clauses, `[]` = invariant holds) -/
def trace (s : Mgr) (ops : List Op) : List String :=
  let v0 := (s.vols.head?.map (·.vol)).getD default
  let init := explainVolInv s (ghostOfV v0 s)
  let rec go (s : Mgr) (v : FatVolume) (i : Nat) : List Op → List String
    | [] => []
    | op :: rest =>
      let (s', o) := step s op
      let v' := (s'.vols.head?.map (·.vol)).getD v
      let gh := ghostOfV v' s'
      let bad := explainVolInv s' gh
      s!"{i}. {opStr op} => {resStr o.result} | {if bad.isEmpty then "inv OK" else "INV FAILS " ++ toString bad}" :: go s' v' (i + 1) rest
  s!"0. start | {if init.isEmpty then "inv OK" else "INV FAILS " ++ toString init}" :: go s v0 1 ops

def show_ (l : List String) : IO Unit := l.forM IO.println


/-- the verdicts computed literally as `checkVolInv (run s ops').1 (ghostOf (run s ops').1)` over all prefixes -/
def prefixVerdicts (s : Mgr) (ops : List Op) : List Bool :=
  (List.range (ops.length + 1)).map fun n => checkVolInv (run s (ops.take n)).1 (ghostOf (run s (ops.take n)).1)

def errStr (e : Err) : String := ((toString (repr e)).replace "Sdmmc.Model.Err." "")

def resShort : Res Payload → String
  | .ok (.handle h) => s!"h{h}" | .ok (.bytes b) => s!"{b.length}B" | .ok (.num n) => s!"{n}" | .ok (.bool b) => s!"{b}"
  | .ok (.entry e) => s!"entry(cl={e.cluster},size={e.size},attr={e.attributes})"
  | .ok (.entries es) => s!"{es.length} entries" | .ok (.lfnEntries es) => s!"{es.length} entries"
  | .ok (.label l) => s!"label {l.map fun b => nameStr (b.map (·.toNat))}" | .ok .unit => "ok"
  | .err e => errStr e | .panic m => "PANIC " ++ m | .diverged => "DIVERGED"

/-- compact report: every call with its result on one line, then the prefixes after which the checker
says `false` (with the failing clauses) -/
def report (title : String) (s : Mgr) (ops : List Op) : IO Unit := do
  let v0 := (s.vols.head?.map (·.vol)).getD default
  let init := explainVolInv s (ghostOfV v0 s)
  let rec go (s : Mgr) (v : FatVolume) (i : Nat) : List Op → List (String × Option String)
    | [] => []
    | op :: rest =>
      let (s', o) := step s op
      let v' := (s'.vols.head?.map (·.vol)).getD v
      let bad := explainVolInv s' (ghostOfV v' s')
      (s!"{i}:{opStr op}→{resShort o.result}", if bad.isEmpty then none else some s!"after call {i}: {bad}") :: go s' v' (i + 1) rest
  let ls := go s v0 1 ops
  IO.println s!"== {title}"
  IO.println ("   " ++ "; ".intercalate (ls.map Prod.fst))
  let bad := (if init.isEmpty then [] else [s!"at start: {init}"]) ++ ls.filterMap Prod.snd
  IO.println (if bad.isEmpty then s!"   verdict: inv OK after each of the {ops.length + 1} prefixes" else "   VIOLATIONS " ++ "; ".intercalate bad)

def bytesN (n : Nat) (b : UInt8) : Bytes := List.replicate n b
def R := 2
def S := 3
def mgr1' : Mgr := { mgr1 with maxDirs := 8 }
def mgr0' : Mgr := { mgr0 with maxDirs := 8 }
/-- create and close `n` empty files `<pre><a>` … in directory `d`; `h` is the first new handle -/
def mkFiles (d : Nat) (pre : String) (a n h : Nat) : List Op :=
  (List.range n).flatMap fun i => [.openFile d (str s!"{pre}{a + i}") .ReadWriteCreate, .closeFile (h + i)]

-- the reconstructed ghosts of the three example states are (up to the order of `G`) the hand-written ones
#eval ((ghostOf mgr0).G, (ghostOf mgr0).dirs, (ghostOf mgr1).G, (ghostOf mgr32).G, (ghostOf mgr32).dirs)

def opsT1 : List Op := [
  .openFile R (str "N.TXT") .ReadWriteCreate, .write 10 (bytesN 5 1), .write 10 (bytesN 1200 2), .flush 10,
  .seekStart 10 0, .read 10 100, .seekEnd 10 10, .seekCur 10 (-3), .offset 10, .read 10 100, .eof 10, .length 10, .closeFile 10,
  .openFile R (str "N.TXT") .ReadWriteAppend, .write 11 (bytesN 600 3), .closeFile 11,
  .openFile R (str "N.TXT") .ReadWriteTruncate, .write 12 (bytesN 10 4), .closeFile 12,
  .openFile R (str "N.TXT") .ReadWriteCreateOrTruncate, .closeFile 13,
  .openFile R (str "N.TXT") .ReadWriteCreateOrAppend, .write 14 (bytesN 513 5), .closeFile 14,
  .find R (str "N.TXT"), .delete R (str "N.TXT"), .delete R (str "N.TXT"), .list R ]

#eval report "T1 create / write (first cluster, extension) / flush / seek / read / close / reopen in every mode / delete" mgr1' opsT1
-- the incremental verdicts are the prefix verdicts of the task statement
#eval (prefixVerdicts mgr1' opsT1).all id

#eval report "T2 mkdir in root and SUB, nested directories, `..` handles up to the root, error cases" mgr1' [
  .mkdir R (str "D1"), .mkdir S (str "D2"), .openDir S (str "D2"), .mkdir 10 (str "D3"), .openDir 10 (str "D3"),
  .openFile 11 (str "X.Y") .ReadWriteCreate, .write 12 (bytesN 700 7), .closeFile 12, .list 11,
  .openDir 11 (str ".."), .list 13, .openDir 13 (str ".."), .list 14, .openDir 14 (str ".."), .list 15, .openDir 15 (str ".."),
  .openDir 15 (str "."), .openDir 11 (str "."), .closeDir 17, .closeDir 16, .closeDir 15, .closeDir 14, .closeDir 13,
  .mkdir R (str "D1"), .mkdir R (str "A.TXT"), .openDir R (str "A.TXT"), .openFile R (str "SUB") .ReadOnly,
  .openFile R (str "SUB") .ReadWriteCreate, .delete R (str "SUB"), .delete 11 (str "X.Y"), .list 11, .closeDir 11, .closeDir 10, .closeDir 10, .hasOpen ]

#eval report "T3 FAT16 root full (12 creatable slots), mkdir / create when full, after freeing a slot" mgr1' (mkFiles R "F" 0 12 10 ++ [
  .openFile R (str "G") .ReadWriteCreate, .mkdir R (str "DX"), .mkdir S (str "DY"), .delete R (str "F3"),
  .mkdir R (str "DX"), .openFile R (str "G") .ReadWriteCreate, .list R ])

#eval report "T4 growth of SUB (13th new entry allocates a second cluster), writes and deletes there" mgr1' (mkFiles S "S" 0 14 10 ++ [
  .list S, .openFile S (str "S13") .ReadWriteAppend, .write 24 (bytesN 600 9), .closeFile 24, .delete S (str "S12"), .delete S (str "S13"),
  .delete S (str "B.BIN"), .openFile S (str "NEW") .ReadWriteCreate, .closeFile 25, .list S ])

#eval report "T5a volume full during write (15 free clusters = 7680 bytes), then create / write / mkdir when full, truncate frees" mgr1' [
  .openFile R (str "BIG") .ReadWriteCreate, .write 10 (bytesN 7000 1), .write 10 (bytesN 1000 2), .length 10, .offset 10,
  .write 10 (bytesN 10 3), .flush 10, .write 10 (bytesN 10 3), .openFile R (str "Z") .ReadWriteCreate, .write 11 [1], .write 11 [], .flush 11,
  .closeFile 11, .mkdir R (str "DZ"), .mkdir S (str "DZ"), .closeFile 10, .find R (str "BIG"),
  .openFile R (str "BIG") .ReadWriteTruncate, .closeFile 12, .mkdir R (str "DZ"), .delete R (str "BIG"), .list R ]

#eval report "T5b volume full during directory growth (SUB's 16 slots used, no free cluster)" mgr1' (mkFiles S "S" 0 12 10 ++ [
  .openFile R (str "BIG") .ReadWriteCreate, .write 22 (bytesN 7680 1), .closeFile 22,
  .openFile S (str "MORE") .ReadWriteCreate, .mkdir S (str "DM"), .mkdir R (str "DR"),
  .openFile R (str "BIG") .ReadWriteTruncate, .closeFile 23, .mkdir S (str "DM"), .list S ])

#eval report "T5c one free cluster left: mkdir in the full SUB needs two (new directory + growth) and must give the first back" mgr1'
  (mkFiles S "S" 0 12 10 ++ [ .openFile R (str "BIG") .ReadWriteCreate, .write 22 (bytesN (14 * 512) 1), .closeFile 22,
  .mkdir S (str "DM"), .openFile S (str "MORE") .ReadWriteCreate, .closeFile 23, .mkdir S (str "DM"), .list S ])

#eval report "T6 mgr0 (E.DAT open, pending): closeVolume with open file / open dirs / none; stale handles; open_root_dir on a closed volume" mgr0 [
  .closeVolume 1, .delete S (str "E.DAT"), .openFile S (str "E.DAT") .ReadOnly, .openFile S (str "E.DAT") .ReadWriteCreateOrAppend,
  .find S (str "E.DAT"), .length 4, .offset 4, .write 4 (bytesN 600 1), .find S (str "E.DAT"), .flush 4, .find S (str "E.DAT"),
  .seekStart 4 2, .read 4 3, .write 4 (bytesN 2 2), .closeFile 4, .closeVolume 1, .closeDir 3, .closeVolume 1, .closeDir 2, .hasOpen,
  .closeVolume 1, .closeVolume 1, .openRoot 1, .list 10, .openFile 10 (str "A.TXT") .ReadOnly, .mkdir 10 (str "Q"), .delete 10 (str "A.TXT"),
  .openDir 10 (str "SUB"), .openDir 10 (str "."), .closeDir 10, .label 1, .openVolume 0, .openRoot 77, .closeDir 11 ]

#eval report "T6b mgr0: close flushes the pending record; reopen, truncate, delete" mgr0 [
  .closeFile 4, .find S (str "E.DAT"), .openFile S (str "E.DAT") .ReadOnly, .read 10 100, .write 10 [1], .closeFile 10,
  .openFile S (str "E.DAT") .ReadWriteTruncate, .closeFile 11, .find S (str "E.DAT"), .delete S (str "E.DAT"), .list S ]

#eval report "T7 bad handles (also: directory handle as file handle, `open_root_dir` with a bad volume handle — accepted deviation)" mgr1 [
  .read 99 1, .write 99 [1], .closeFile 99, .closeDir 99, .openDir 99 (str "SUB"), .openFile 99 (str "A.TXT") .ReadOnly,
  .delete 99 (str "A.TXT"), .mkdir 99 (str "X"), .flush 99, .seekStart 99 0, .seekCur 99 0, .seekEnd 99 0, .closeVolume 99,
  .label 99, .find 99 (str "A.TXT"), .list 99, .listLfn 99 64, .length 99, .offset 99, .eof 99, .read R 1, .closeFile R, .closeDir 1,
  .openRoot 99, .list 10, .openFile 10 (str "A.TXT") .ReadOnly, .closeDir 10, .openVolume 0, .openVolume 5 ]

#eval report "T8 reading and seeking on A.TXT (700 bytes, two clusters), read-only handle, double open, overwrite, append" mgr1 [
  .openFile R (str "A.TXT") .ReadOnly, .read 10 300, .read 10 300, .read 10 300, .read 10 300, .eof 10, .seekStart 10 701, .seekStart 10 700,
  .seekEnd 10 701, .seekEnd 10 188, .read 10 1, .seekCur 10 (-513), .seekCur 10 (-512), .read 10 2, .seekCur 10 1000, .write 10 [1], .flush 10,
  .openFile R (str "A.TXT") .ReadOnly, .openFile R (str "a.txt") .ReadWriteAppend, .delete R (str "A.TXT"), .closeFile 10,
  .openFile R (str "A.TXT") .ReadWriteAppend, .seekStart 11 100, .write 11 (bytesN 500 9), .seekStart 11 0, .read 11 1024, .length 11,
  .seekEnd 11 0, .write 11 (bytesN 324 8), .length 11, .write 11 [1], .closeFile 11, .find R (str "A.TXT"), .listLfn R 64 ]

#eval report "T9a names \".\", \"..\", \"\" in the root: lookup, delete, create as FILE" mgr1' [
  .openFile R (str ".") .ReadOnly, .openFile R (str "..") .ReadOnly, .openFile R [] .ReadOnly, .delete R (str "."), .delete R (str ".."),
  .delete R [], .find R (str "."), .find R (str ".."), .openDir R (str ".."), .openFile R (str "..") .ReadWriteCreate, .write 10 (bytesN 3 1),
  .closeFile 10, .list R, .openDir R (str ".."), .openFile R [] .ReadWriteCreate, .closeFile 11, .mkdir R (str "."), .list R,
  .delete R (str ".."), .delete R [], .list R ]

#eval report "T9b names \".\", \"..\", \"\" in the root: mkdir (creates real sub-directories of these names)" mgr1' [
  .mkdir R (str "."), .list R, .mkdir R (str ".."), .list R, .mkdir R [], .openDir R (str ".."), .list 10, .openDir 10 (str "."),
  .openDir 10 (str ".."), .list 12, .openFile 10 (str "F") .ReadWriteCreate, .write 13 (bytesN 3 1), .closeFile 13, .openDir R (str "."), .list 14 ]

#eval report "T9c names \".\", \"..\", \"\" in SUB" mgr1' [
  .openFile S (str ".") .ReadOnly, .openFile S (str "..") .ReadOnly, .openFile S [] .ReadOnly,
  .openFile S (str ".") .ReadWriteCreate, .openFile S (str "..") .ReadWriteCreate, .openFile S [] .ReadWriteCreate,
  .openFile S (str ".") .ReadWriteCreateOrTruncate, .openFile S (str "..") .ReadWriteCreateOrAppend, .openFile S (str ".") .ReadWriteAppend,
  .openFile S (str ".") .ReadWriteTruncate, .delete S (str "."), .delete S (str ".."), .delete S [],
  .mkdir S (str "."), .mkdir S (str ".."), .mkdir S [], .find S (str "."), .find S (str ".."),
  .openDir S [], .openDir S (str "."), .openDir S (str ".."), .list 10, .list 11, .list 12 ]

#eval report "T10 the volume-label entry opened as a file, written, truncated, deleted" mgr1' [
  .find R (str "MYVOL"), .openFile R (str "MYVOL") .ReadOnly, .read 10 10, .closeFile 10,
  .openFile R (str "MYVOL") .ReadWriteAppend, .write 11 (bytesN 600 1), .flush 11, .list R, .closeFile 11, .find R (str "MYVOL"), .label 1,
  .openFile R (str "MYVOL") .ReadWriteTruncate, .closeFile 13, .find R (str "MYVOL"), .delete R (str "MYVOL"), .label 1, .list R,
  .mkdir R (str "MYVOL"), .list R ]

#eval report "T11a name starting with 0xE5 (ACCEPTED DEVIATION): the created entry is a deleted slot" mgr1' [
  .openFile R [0xE5, 65] .ReadWriteCreate, .write 10 (bytesN 3 1), .closeFile 10, .list R,
  .openFile R [0xE5, 65] .ReadOnly, .delete R [0xE5, 65], .openFile R [0xE5, 65] .ReadWriteCreate, .closeFile 11 ]
#eval report "T11b 0xE5 (ACCEPTED DEVIATION): mkdir" mgr1' [ .mkdir R [0xE5, 66], .list R, .openDir R [0xE5, 66], .mkdir R [0xE5, 66] ]
#eval report "T11c 0xE5 (ACCEPTED DEVIATION): the deleted slot of the example volume found / deleted / opened by name" mgr1' [
  .delete R [0xE5, 76, 68, 46, 84, 88, 84], .find R [0xE5, 76, 68, 46, 84, 88, 84], .openFile R [0xE5, 76, 68, 46, 84, 88, 84] .ReadOnly ]
#eval report "T11d 0xE5 (ACCEPTED DEVIATION): deleting by the name of a deleted slot frees its STALE chain, now part of NEW" mgr1 [
  .openFile R (str "P") .ReadWriteCreate, .write 10 [1], .closeFile 10,
  .openFile R (str "XLD.TXT") .ReadWriteCreate, .write 11 (bytesN 600 1), .closeFile 11, .delete R (str "P"), .delete R (str "XLD.TXT"),
  .openFile R (str "NEW") .ReadWriteCreate, .write 12 (bytesN 1500 2), .closeFile 12, .find R (str "NEW"),
  .delete R [0xE5, 76, 68, 46, 84, 88, 84], .find R (str "NEW") ]

#eval report "T12 FAT32: create / write / mkdir / `..` / truncate / delete / growth of the ROOT chain / names \".\" \"..\" / volume full / closeVolume (info sector)" mgr32 ([
  .label 1, .list R, .list S, .openFile R (str "N.TXT") .ReadWriteCreate, .write 11 (bytesN 5 1), .write 11 (bytesN 1200 2), .flush 11, .closeFile 11,
  .mkdir R (str "D1"), .mkdir S (str "D2"), .openDir S (str "D2"), .openDir 12 (str ".."), .openDir 13 (str ".."), .list 14, .closeDir 14, .closeDir 13,
  .closeDir 12, .openFile R (str "N.TXT") .ReadWriteTruncate, .closeFile 15, .delete R (str "N.TXT"), .openFile R (str "F.TXT") .ReadWriteAppend,
  .write 16 (bytesN 600 1), .closeFile 16 ] ++ mkFiles R "R" 0 14 17 ++ [
  .list R, .delete R (str "R13"), .delete R (str "R5"), .mkdir R (str "."), .mkdir R (str ".."), .openFile R [] .ReadWriteCreate,
  .openFile R (str "BIG") .ReadWriteCreate, .write 31 (bytesN 9000 1), .closeFile 31, .mkdir R (str "DF"), .openFile S (str "Q") .ReadWriteCreate,
  .write 32 [1], .closeFile 32, .closeDir S, .closeDir R, .closeVolume 1, .openRoot 1, .closeDir 33 ])

#eval report "T13 mgr0: four files open, extending in turn; mkdir in between; closes in another order; zero-length write" mgr0' [
  .openFile S (str "X") .ReadWriteCreate, .openFile R (str "Y") .ReadWriteCreate, .openFile R (str "A.TXT") .ReadWriteAppend, .openFile S (str "B.BIN") .ReadOnly,
  .write 10 (bytesN 600 1), .write 4 (bytesN 600 2), .write 11 (bytesN 10 3), .write 12 (bytesN 400 4), .write 10 (bytesN 600 1), .write 4 (bytesN 600 2),
  .mkdir S (str "DD"), .openFile S (str "Z") .ReadWriteCreate, .flush 10, .closeFile 4, .closeFile 12, .write 11 (bytesN 1000 5), .closeFile 10, .closeFile 11,
  .openFile S (str "B.BIN") .ReadOnly, .openFile S (str "Z") .ReadWriteCreate, .write 14 [], .closeFile 14, .find S (str "Z"),
  .delete S (str "X"), .delete R (str "Y"), .delete S (str "E.DAT"), .delete S (str "Z"), .list S, .list R ]

#eval report "T14 truncating an empty file, zero-length write to it (allocates a cluster), overwrite in the middle, append to a cluster boundary" mgr1 [
  .openFile S (str "E.DAT") .ReadWriteTruncate, .write 10 [], .find S (str "E.DAT"), .closeFile 10, .find S (str "E.DAT"),
  .openFile S (str "E.DAT") .ReadWriteCreateOrTruncate, .closeFile 11, .find S (str "E.DAT"),
  .openFile R (str "A.TXT") .ReadWriteAppend, .seekStart 12 500, .write 12 (bytesN 30 9), .seekStart 12 0, .write 12 [9], .seekEnd 12 0,
  .write 12 (bytesN 324 7), .length 12, .write 12 [1], .length 12, .closeFile 12, .find R (str "A.TXT") ]

/-- the FAT16 example with TWO blocks per cluster inside a partition starting at block 3 -/
def volB : FatVolume := { vol16 with lbaStart := 3, numBlocks := 44, blocksPerCluster := 2 }
def diskB : Disk :=
  ((((Disk.empty.set 4 (fat16Blk 0)).set 5 (fat16Blk 0)).set 6 root16Blk).set 11 sub16Blk).set 7 (List.replicate 512 0x61)
def mgrB : Mgr := { mgr1 with dev := { disk := diskB }, vols := [{ rawVolume := 1, idx := 0, vol := volB }], maxDirs := 8 }

#eval report "T15 two blocks per cluster, partition offset 3: read, write over clusters, mkdir, nested file, SUB growth (32 slots per cluster), volume full" mgrB ([
  .list R, .list S, .openFile R (str "A.TXT") .ReadOnly, .read 10 800, .closeFile 10,
  .openFile R (str "N") .ReadWriteCreate, .write 11 (bytesN 1500 1), .write 11 (bytesN 1500 1), .closeFile 11, .mkdir S (str "D"), .openDir S (str "D"),
  .openFile 12 (str "Q") .ReadWriteCreate, .write 13 (bytesN 1025 1), .closeFile 13, .openDir 12 (str ".."), .list 14, .closeDir 14, .closeDir 12 ]
  ++ mkFiles S "S" 0 29 15 ++ [ .list S, .openFile R (str "BIG") .ReadWriteCreate, .write 44 (bytesN 20000 1), .length 44, .closeFile 44,
  .mkdir R (str "DZ"), .openFile R (str "N") .ReadWriteTruncate, .closeFile 45, .mkdir R (str "DZ"), .delete R (str "BIG"), .delete R (str "N"), .list R ])

end Test

end Sdmmc.Lemmas.VolExample
