/-
Crash points of a successful `make_dir(parent, sfn, att)` (model: `Fat.makeDir`), parent directory with a
well-formed chain (or the FAT16 fixed root).  The device writes, in order:

1. `alloc_cluster(None, false)`: the end-of-chain mark of the new cluster `c` (FAT copy 1, copy 2);
2. the first block of `c`: `.` and `..`, the rest of the block zero;
3. the other blocks of `c`: zero;
4. `write_new_directory_entry(parent, sfn, att, c)`: possibly one `alloc_cluster(Some(last), true)` that
   grows the parent, then — LAST — the one slot write that makes the new directory visible.

So at every crash point except the last, the medium differs from the one before the call only in FAT
entries of clusters that were free (and the link out of the parent's last cluster) and in blocks of
clusters that were free (`NoEntryYet`); the last crash point is the medium after the call, on which the
new directory's cluster is fully initialised (`DirReady`).
-/
import Sdmmc.Lemmas.CrashDirEntry
import Sdmmc.Lemmas.DirMake
import Sdmmc.Lemmas.CrashDelete

namespace Sdmmc.Lemmas.CrashMakeDir
open Sdmmc.Model Sdmmc.Model.Fat Sdmmc.Spec
open Sdmmc.Lemmas.FBasic hiding NoFault Coherent
open Sdmmc.Lemmas.FatOps hiding BlocksOK Mirror HintOK
open Sdmmc.Lemmas.ChainL Sdmmc.Lemmas.ForestBase Sdmmc.Lemmas.ForestTrunc Sdmmc.Lemmas.ForestAlloc Sdmmc.Lemmas.ForestStep
open Sdmmc.Lemmas.CrashBase Sdmmc.Lemmas.CrashFat Sdmmc.Lemmas.CrashAlloc Sdmmc.Lemmas.CrashDirWalk
open Sdmmc.Lemmas.CrashDirEntry Sdmmc.Lemmas.DirMake

/-- Block `i` is a block of one of the clusters `xs`. -/
def inClusters (v : FatVolume) (xs : List Nat) : Nat → Prop := fun i => ∃ x, x ∈ xs ∧ InCluster v x i

/-- The parent shows no entry for the new directory yet: relative to the medium `d0` before the call,
`d` differs only in the FAT entries of clusters `fresh` that were free on `d0` and of the parent's last
cluster `plast` (the link to a cluster the parent grows by), and in blocks of the `fresh` clusters; a
fresh cluster other than the new directory's own `c` that is no longer free is entirely blank. -/
structure NoEntryWith (v : FatVolume) (d0 d : Disk) (dcs : List Nat) (c : Nat) (fresh : List Nat) (plast : Option Nat) : Prop where
  wasFree : ∀ x, x ∈ fresh → InRange v x ∧ isFree v d0 x
  last : ∀ q, plast = some q → dcs.getLast? = some q
  within : Within v d0 d (fresh ++ plast.toList) (inClusters v fresh)
  blank : ∀ x, x ∈ fresh → x ≠ c → ¬ isFree v d x → ClusterZero v d x
  cState : isFree v d c ∨ nextOf v d c = .err .EndOfFile
  grown : ∀ q, plast = some q → ∃ c2, c2 ∈ fresh ∧ c2 ≠ c ∧ nextOf v d q = .ok c2 ∧ nextOf v d c2 = .err .EndOfFile

def NoEntryYet (v : FatVolume) (d0 d : Disk) (dcs : List Nat) (c : Nat) : Prop :=
  ∃ fresh plast, NoEntryWith v d0 d dcs c fresh plast

/-- The new directory's cluster is fully initialised. -/
structure DirReady (v : FatVolume) (d : Disk) (c parent att : Nat) (now : Timestamp) : Prop where
  eof : nextOf v d c = .err .EndOfFile
  first : d.get (clusterToBlock v c) = dirBlock v.fatType c parent att now (clusterToBlock v c)
  rest : ∀ j, 0 < j → j < v.blocksPerCluster → d.get (clusterToBlock v c + j) = zeroBlock

theorem inCluster_sameGeom {v v' : FatVolume} (hs : SameGeom v v') (x i : Nat) : InCluster v' x i ↔ InCluster v x i := by
  obtain ⟨a, b, rfl⟩ := hs; exact Iff.rfl

theorem clusterZero_sameGeom {v v' : FatVolume} (hs : SameGeom v v') (d : Disk) (x : Nat) : ClusterZero v' d x ↔ ClusterZero v d x := by
  obtain ⟨a, b, rfl⟩ := hs; exact Iff.rfl

theorem dirWalkStart_sameGeom {v v' : FatVolume} (hs : SameGeom v v') (dir : Nat) : dirWalkStart v' dir = dirWalkStart v dir := by
  obtain ⟨a, b, rfl⟩ := hs; rfl

theorem noEntry_of_within {v : FatVolume} {d0 d : Disk} {dcs : List Nat} {c : Nat} (hrc : InRange v c) (hf : isFree v d0 c)
    (h : Within v d0 d [c] (inClusters v [c])) (hcs : isFree v d c ∨ nextOf v d c = .err .EndOfFile) : NoEntryYet v d0 d dcs c :=
  ⟨[c], none, (fun x hx => by rw [List.mem_singleton.1 hx]; exact ⟨hrc, hf⟩), (fun _ hq => by cases hq),
   (by simpa using h), (fun x hx hne => absurd (List.mem_singleton.1 hx) hne), hcs, fun _ hq => by cases hq⟩

/-- Every crash point of a successful `make_dir`. -/
theorem makeDir_crash (s s' : FS) (parent : Nat) (sfn : Bytes) (att : Nat) (now : Timestamp) (dcs : List Nat)
    (hn : NoFault s) (hc : Coherent s) (hb : BlocksOK s.dev.disk) (hg : WFGeom s.vol) (hh : HintOK s.vol)
    (hdir : (dirWalkStart s.vol parent).fixedRoot = true ∨ Chain s.vol s.dev.disk (dirWalkStart s.vol parent).cluster dcs)
    (h : makeDir parent sfn att now s = (.ok (), s')) :
    ∃ c sD sM e, InRange s.vol c ∧ isFree s.vol s.dev.disk c ∧
      DirReady s.vol sD.dev.disk c parent att now ∧ Within s.vol s.dev.disk sD.dev.disk [c] (inClusters s.vol [c]) ∧
      writeNewDirectoryEntry parent sfn att c now sD = (.ok e, s') ∧ SlotWrite sfn att c now sM s' e ∧
      SameGeom s.vol sM.vol ∧ DirReady s.vol sM.dev.disk c parent att now ∧
      (sM.dev.disk = sD.dev.disk ∧ InWalk s.vol (dirWalkStart s.vol parent) dcs e.entryBlock ∨
        ∃ p c2, dcs.getLast? = some p ∧ c2 ≠ c ∧ e.entryBlock = clusterToBlock s.vol c2 ∧
        Grown s.vol sD.dev.disk sM.dev.disk p c2) ∧
      (∀ j, j < s.vol.blocksPerCluster → e.entryBlock ≠ clusterToBlock s.vol c + j) ∧ regionOf s.vol e.entryBlock ≠ .fat ∧
      DirReady s.vol s'.dev.disk c parent att now ∧
      CrashAll (fun d => NoEntryYet s.vol s.dev.disk d dcs c ∨ d = s'.dev.disk) s s' := by
  unfold makeDir at h
  -- 1. the allocation
  rw [bind_eq_ok] at h
  obtain ⟨c, s1, h1, h⟩ := h
  obtain ⟨hn1, hc1, hb1, hsg1, hh1, _, hrc, hfree, heof1, _, _, _⟩ :=
    alloc_spec s s1 none false c hn hc hb hg hh (fun p hp => by cases hp) h1
  obtain ⟨hcr1, hW1⟩ := alloc_crash s s1 none false c hn hc hb hg hh (fun p hp => by cases hp) h1
  have hg1 : WFGeom s1.vol := hsg1.wfGeom hg
  have hcb : clusterToBlock s1.vol c = clusterToBlock s.vol c := by obtain ⟨a, b, hv⟩ := hsg1; rw [hv]; rfl
  have hbpc : s1.vol.blocksPerCluster = s.vol.blocksPerCluster := by obtain ⟨a, b, hv⟩ := hsg1; rw [hv]
  have hft : s1.vol.fatType = s.vol.fatType := hsg1.fatType
  have hclean : ∀ i, ¬ zeroing s.vol false c i := fun i hz => by cases hz.1
  have hW1' : Within s.vol s.dev.disk s1.dev.disk [c] (inClusters s.vol [c]) :=
    hW1.mono (fun _ hy => hy) (fun i hz => absurd hz (hclean i))
  -- `getVol`, `blankMut`, `cacheModify`
  rw [bind_eq_ok] at h
  obtain ⟨v, s1', hgv, h⟩ := h
  rw [getVol_apply] at hgv
  have ev : s1.vol = v := Res.ok.inj (congrArg Prod.fst hgv)
  have es1 : s1 = s1' := congrArg Prod.snd hgv
  subst es1; subst ev
  rw [bind_eq_ok] at h
  obtain ⟨_, s2, hbm, h⟩ := h
  rw [bind_eq_ok] at h
  obtain ⟨_, s2', hm, h⟩ := h
  have e2 : s2 = { s1 with cache := { tag := some (clusterToBlock s1.vol c), blk := zeroBlock } } :=
    (congrArg Prod.snd hbm).symm
  subst e2
  have e2' := (congrArg Prod.snd hm).symm
  rw [cacheModify_apply] at e2'
  simp only at e2'
  have htag : s2'.cache.tag = some (clusterToBlock s1.vol c) := by rw [e2']
  have hblk : s2'.cache.blk = dirBlock s.vol.fatType c parent att now (clusterToBlock s.vol c) := by
    rw [e2']
    show dirBlock s1.vol.fatType c parent att now (clusterToBlock s1.vol c) = _
    rw [hft, hcb]
  have hn2 : NoFault s2' := by rw [e2']; exact hn1
  have hd2 : s2'.dev.disk = s1.dev.disk := by rw [e2']
  have hw2 : s2'.dev.wlog = s1.dev.wlog := by rw [e2']
  have hv2 : s2'.vol = s1.vol := by rw [e2']
  -- 2. `writeBack`: the first block of the new cluster
  rw [bind_eq_ok] at h
  obtain ⟨_, s3, hwb, h⟩ := h
  have e3 : s3 = (writeBack s2').2 := by rw [hwb]
  have hn3 : NoFault s3 := by rw [e3]; exact writeBack_noFault s2' _ hn2 htag
  have hc3 : Coherent s3 := by rw [e3]; exact writeBack_coherent s2' _ hn2 htag
  have hw3 : s3.dev.wlog = (clusterToBlock s.vol c, dirBlock s.vol.fatType c parent att now (clusterToBlock s.vol c)) :: s1.dev.wlog := by
    rw [e3, writeBack_wlog s2' _ hn2 htag, hw2, hblk, hcb]
  have hd3 : s3.dev.disk = s1.dev.disk.set (clusterToBlock s.vol c) (dirBlock s.vol.fatType c parent att now (clusterToBlock s.vol c)) := by
    rw [e3, writeBack_disk s2' _ hn2 htag, hd2, hblk, hcb]
  have hv3 : s3.vol = s1.vol := by rw [e3, writeBack_vol, hv2]
  have hdl : (dirBlock s.vol.fatType c parent att now (clusterToBlock s.vol c)).length = 512 := (dirBlock_facts _ _ _ _ _ _).1
  have hb3 : BlocksOK s3.dev.disk := by rw [hd3]; exact blocksOK_set _ _ _ hb1 hdl
  -- 3. `zeroBlocks`: the other blocks
  rw [bind_eq_ok] at h
  obtain ⟨_, sD, hz, h⟩ := h
  have eD : sD = (zeroBlocks (s1.vol.blocksPerCluster - 1) (clusterToBlock s1.vol c + 1) s3).2 := by rw [hz]
  obtain ⟨_, _, hnD, hcD, hvD⟩ := zeroBlocks_writes s3 (s1.vol.blocksPerCluster - 1) (clusterToBlock s1.vol c + 1) hn3 hc3
  rw [← eD] at hnD hcD hvD
  have hbD : BlocksOK sD.dev.disk := by rw [eD]; exact zeroBlocks_blocksOK s3 _ _ hn3 hb3
  have hcrZ := zeroBlocks_crash (s1.vol.blocksPerCluster - 1) (clusterToBlock s1.vol c + 1) s3 hn3
  rw [← eD, hbpc, hcb] at hcrZ
  have hdD : ∀ i, sD.dev.disk.get i =
      if clusterToBlock s.vol c + 1 ≤ i ∧ i < clusterToBlock s.vol c + 1 + (s.vol.blocksPerCluster - 1) then zeroBlock
      else s3.dev.disk.get i := fun i => by
    rw [eD, DirFat.zeroBlocks_disk s3 _ _ hn3, hbpc, hcb]
  have hvD' : sD.vol = s1.vol := hvD.trans hv3
  have hsgD : SameGeom s.vol sD.vol := hsg1.trans (SameGeom.of_eq hvD')
  have hpos := hg.bpc_pos
  -- blocks outside the new cluster are those of `s1`
  have hout : ∀ (d : Disk), (∀ i, ¬ (clusterToBlock s.vol c + 1 ≤ i ∧ i < clusterToBlock s.vol c + 1 + (s.vol.blocksPerCluster - 1)) →
      d.get i = s3.dev.disk.get i) → ∀ i, ¬ InCluster s.vol c i → d.get i = s1.dev.disk.get i := fun d hd i hi => by
    rw [hd i (fun hh' => hi ⟨by omega, by omega⟩), hd3,
      Disk.get_set_ne _ _ _ _ (fun e' => hi ⟨by omega, by omega⟩)]
  have hwithin_of : ∀ (d : Disk), (∀ i, ¬ InCluster s.vol c i → d.get i = s1.dev.disk.get i) →
      Within s.vol s.dev.disk d [c] (inClusters s.vol [c]) := fun d hd => by
    refine Within.trans hW1' (?_ : Within s.vol s1.dev.disk d [] (inClusters s.vol [c])) (fun _ h' => h') (fun _ h' => by cases h')
      (fun _ h' => h') (fun _ h' => h')
    refine ⟨fun y hy _ => ?_, fun i _ hi => hd i (fun hin => hi ⟨c, List.mem_singleton.2 rfl, hin⟩)⟩
    unfold fatRaw
    rw [hd _ (fun hin => DirFat.fat_ne_cluster_block s.vol hg c _ hrc.1 hrc.2 (FatLens.fat_blocks_in_fat_region s.vol hg y hy).1 hin)]
  have hWD : Within s.vol s.dev.disk sD.dev.disk [c] (inClusters s.vol [c]) :=
    hwithin_of _ (hout _ fun i hi => by rw [hdD i, if_neg hi])
  -- the new directory's cluster is ready
  have heofD : nextOf s.vol sD.dev.disk c = .err .EndOfFile := by
    have : fatRaw s.vol sD.dev.disk c = fatRaw s.vol s1.dev.disk c := by
      unfold fatRaw
      rw [hout _ (fun i hi => by rw [hdD i, if_neg hi]) _ (fun hin => DirFat.fat_ne_cluster_block s.vol hg c _ hrc.1 hrc.2
        (FatLens.fat_blocks_in_fat_region s.vol hg c hrc.2).1 hin)]
    rw [nextOf_congr rfl this]; exact heof1
  have hreadyD : DirReady s.vol sD.dev.disk c parent att now := by
    refine ⟨heofD, ?_, fun j hj0 hj => ?_⟩
    · rw [hdD, if_neg (by omega), hd3, Disk.get_set_self]
    · rw [hdD, if_pos (by omega)]
  -- 4. the entry in the parent
  rw [bind_eq_ok] at h
  obtain ⟨r, s5, hat, h⟩ := h
  rw [attempt_apply] at hat
  have er : (writeNewDirectoryEntry parent sfn att c now sD).1 = r := Res.ok.inj (congrArg Prod.fst hat)
  have es5 : (writeNewDirectoryEntry parent sfn att c now sD).2 = s5 := congrArg Prod.snd hat
  cases r with
  | err e' =>
    simp only at h
    rw [bind_eq_ok] at h
    obtain ⟨_, _, _, h⟩ := h
    cases h
  | panic m => cases h
  | diverged => cases h
  | ok e =>
    have es' : s5 = s' := congrArg Prod.snd h
    subst es'
    have hwn : writeNewDirectoryEntry parent sfn att c now sD = (.ok e, s5) := by
      rw [← er, ← es5]
    -- the parent's chain is untouched so far
    have hcdcs : (dirWalkStart s.vol parent).fixedRoot = false → c ∉ dcs := fun hfr hm =>
      (chain_mem_used (hdir.resolve_left (by rw [hfr]; decide)) c hm).2.1 hfree
    have hdirD : (dirWalkStart sD.vol parent).fixedRoot = true ∨
        Chain sD.vol sD.dev.disk (dirWalkStart sD.vol parent).cluster dcs := by
      rw [dirWalkStart_sameGeom hsgD]
      rcases hdir with hfr | hch
      · exact .inl hfr
      · by_cases hfr : (dirWalkStart s.vol parent).fixedRoot = true
        · exact .inl hfr
        · have hfr' : (dirWalkStart s.vol parent).fixedRoot = false := by
            cases hx : (dirWalkStart s.vol parent).fixedRoot with
            | true => exact absurd hx hfr
            | false => rfl
          refine .inr (chain_sameGeom hsgD (chain_congr_raw hch fun x hx => ?_))
          exact hWD.other x (chain_inRange hch x hx).2 (fun hm => hcdcs hfr' (List.mem_singleton.1 hm ▸ hx))
    obtain ⟨sM, hsw, hsgM, _, hcase⟩ := newEntry_crash parent sfn att c now sD s5 e dcs hnD hcD hbD (hsgD.wfGeom hg)
      (by rw [hvD']; exact hh1) hdirD hwn
    rw [dirWalkStart_sameGeom hsgD] at hcase
    -- where the slot is
    have hslot_not_c : ∀ j, j < s.vol.blocksPerCluster → e.entryBlock ≠ clusterToBlock s.vol c + j := by
      intro j hj heq
      rcases hcase with ⟨_, hin, _⟩ | ⟨p, c2, hfr, hl, hbk, _, hgr, _⟩
      · rcases hin with ⟨hfr, hlo, hhi⟩ | ⟨hfr, x, hx, hxin⟩
        · -- the fixed root is not in the data area
          have hk : s.vol.fatType = .fat16 ∧ parent = Gen.CLUSTER_ROOT_DIR := by
            unfold dirWalkStart at hfr
            cases hft' : s.vol.fatType with
            | fat16 =>
              rw [hft'] at hfr
              by_cases hp : parent = Gen.CLUSTER_ROOT_DIR
              · exact ⟨rfl, hp⟩
              · simp [hp] at hfr
            | fat32 => rw [hft'] at hfr; simp at hfr
          have hfb : (dirWalkStart s.vol parent).firstBlock = s.vol.lbaStart + s.vol.firstRootDirBlock ∧
              (dirWalkStart s.vol parent).dirSize = blockCountFromBytes (s.vol.rootEntriesCount * Gen.DIRENT_LEN) := by
            unfold dirWalkStart; rw [hk.1, hk.2]; simp
          rw [hfb.1] at hlo
          rw [hfb.1, hfb.2] at hhi
          have hroot := FatLens.root_blocks_in_root_region s.vol hg hk.1 (e.entryBlock - (s.vol.lbaStart + s.vol.firstRootDirBlock)) (by omega)
          rw [show s.vol.lbaStart + s.vol.firstRootDirBlock + (e.entryBlock - (s.vol.lbaStart + s.vol.firstRootDirBlock)) = e.entryBlock by omega,
            heq, FatLens.cluster_blocks_in_data_region s.vol hg c j hrc.1 hrc.2 hj] at hroot
          cases hroot
        · have hxin' : InCluster s.vol x e.entryBlock := (inCluster_sameGeom hsgD x _).1 hxin
          have hch := hdir.resolve_left (by rw [hfr]; decide)
          have hxr := chain_inRange hch x hx
          obtain ⟨h1', h2'⟩ := hxin'
          have := FatLens.cluster_blocks_disjoint_of_lt s.vol hg x c (e.entryBlock - clusterToBlock s.vol x) j hxr.1 hrc.1 hxr.2 hrc.2
            (by omega) hj (by omega)
          exact hcdcs hfr (this.1 ▸ hx)
      · have hc2 : c2 ≠ c := fun e' => (not_free_of_eof heofD).1 ((hsgD.isFree _ _).1 (e' ▸ hgr.wasFree))
        have hc2r : InRange s.vol c2 := (hsgD.inRange c2).1 hgr.inRange
        have hbk' : e.entryBlock = clusterToBlock s.vol c2 := by
          rw [hbk]; obtain ⟨a, b, hv⟩ := hsgD; rw [hv]; rfl
        have := FatLens.cluster_blocks_disjoint_of_lt s.vol hg c2 c 0 j hc2r.1 hrc.1 hc2r.2 hrc.2 hpos hj (by omega)
        exact hc2 this.1
    -- the state before the slot write keeps the new cluster ready
    have hvM : SameGeom s.vol sM.vol := hsgD.trans hsgM
    have hMc : ∀ i, InCluster s.vol c i → sM.dev.disk.get i = sD.dev.disk.get i := by
      intro i hi
      rcases hcase with ⟨hd, _, _⟩ | ⟨p, c2, _, _, _, _, hgr, _⟩
      · rw [hd]
      · have hc2 : c2 ≠ c := fun e' => (not_free_of_eof heofD).1 ((hsgD.isFree _ _).1 (e' ▸ hgr.wasFree))
        have hc2r : InRange s.vol c2 := (hsgD.inRange c2).1 hgr.inRange
        have hreg : regionOf sD.vol i ≠ .fat := by
          rw [hsgD.regionOf]
          have := FatLens.cluster_blocks_in_data_region s.vol hg c (i - clusterToBlock s.vol c) hrc.1 hrc.2 (by have := hi.2; have := hi.1; omega)
          rw [show clusterToBlock s.vol c + (i - clusterToBlock s.vol c) = i by have := hi.1; omega] at this
          rw [this]; decide
        refine hgr.within.nonFat i hreg (fun hz => ?_)
        have hin2 : InCluster s.vol c2 i := (inCluster_sameGeom hsgD c2 i).1 hz.2
        have := FatLens.cluster_blocks_disjoint_of_lt s.vol hg c2 c (i - clusterToBlock s.vol c2) (i - clusterToBlock s.vol c)
          hc2r.1 hrc.1 hc2r.2 hrc.2 (by have := hin2.1; have := hin2.2; omega) (by have := hi.1; have := hi.2; omega)
          (by have := hin2.1; have := hi.1; omega)
        exact hc2 this.1
    have hMfat : fatRaw s.vol sM.dev.disk c = fatRaw s.vol sD.dev.disk c := by
      rcases hcase with ⟨hd, _, _⟩ | ⟨p, c2, hfr, hl, _, _, hgr, _⟩
      · rw [hd]
      · have hc2 : c2 ≠ c := fun e' => (not_free_of_eof heofD).1 ((hsgD.isFree _ _).1 (e' ▸ hgr.wasFree))
        have hp : p ≠ c := fun e' => hcdcs hfr (e' ▸ List.mem_of_getLast? hl)
        have := hgr.within.other c (by rw [hsgD.endCluster]; exact hrc.2) (by
          intro hm
          rcases List.mem_cons.1 hm with hm | hm
          · exact hc2 hm.symm
          · exact hp (List.mem_singleton.1 hm).symm)
        rw [hsgD.fatRaw, hsgD.fatRaw] at this
        exact this
    have hready' : DirReady s.vol s5.dev.disk c parent att now := by
      have hget : ∀ j, j < s.vol.blocksPerCluster →
          s5.dev.disk.get (clusterToBlock s.vol c + j) = sD.dev.disk.get (clusterToBlock s.vol c + j) := fun j hj => by
        rw [hsw.disk, Disk.get_set_ne _ _ _ _ (hslot_not_c j hj), hMc _ ⟨by omega, by omega⟩]
      refine ⟨?_, ?_, fun j hj0 hj => by rw [hget j hj]; exact hreadyD.rest j hj0 hj⟩
      · have : fatRaw s.vol s5.dev.disk c = fatRaw s.vol sM.dev.disk c := by
          unfold fatRaw
          rw [hsw.disk, Disk.get_set_ne]
          intro e'
          have hfreg := (FatLens.fat_blocks_in_fat_region s.vol hg c hrc.2).1
          rw [← e'] at hfreg
          -- the slot's block is a directory block, not a FAT block
          rcases hcase with ⟨_, hin, _⟩ | ⟨p, c2, _, _, hbk, _, hgr, _⟩
          · rcases hin with ⟨hfr, hlo, hhi⟩ | ⟨hfr, x, hx, hxin⟩
            · exact CrashDelete.not_fat_of_ge s.vol _ (Nat.le_trans (CrashDelete.dirWalkStart_ge s.vol hg parent) hlo) hfreg
            · have hxin' : InCluster s.vol x e.entryBlock := (inCluster_sameGeom hsgD x _).1 hxin
              have hxr := chain_inRange (hdir.resolve_left (by rw [hfr]; decide)) x hx
              exact DirFat.fat_ne_cluster_block s.vol hg x _ hxr.1 hxr.2 hfreg hxin'
          · have hc2r : InRange s.vol c2 := (hsgD.inRange c2).1 hgr.inRange
            have hbk' : e.entryBlock = clusterToBlock s.vol c2 := by
              rw [hbk]; obtain ⟨a, b, hv⟩ := hsgD; rw [hv]; rfl
            exact DirFat.fat_ne_cluster_block s.vol hg c2 _ hc2r.1 hc2r.2 hfreg ⟨by omega, by omega⟩
        rw [nextOf_congr rfl (this.trans hMfat)]; exact heofD
      · have := hget 0 hpos
        rw [Nat.add_zero] at this
        rw [this]; exact hreadyD.first
    have hreadyM : DirReady s.vol sM.dev.disk c parent att now := by
      refine ⟨by rw [nextOf_congr rfl hMfat]; exact heofD, ?_, fun j hj0 hj => ?_⟩
      · rw [hMc _ ⟨Nat.le_refl _, by omega⟩]; exact hreadyD.first
      · rw [hMc _ ⟨by omega, by omega⟩]; exact hreadyD.rest j hj0 hj
    have hbnf : regionOf s.vol e.entryBlock ≠ .fat := by
      rcases hcase with ⟨_, hin, _⟩ | ⟨p, c2, _, _, hbk, _, hgr, _⟩
      · rcases hin with ⟨hfr, hlo, hhi⟩ | ⟨hfr, x, hx, hxin⟩
        · exact CrashDelete.not_fat_of_ge s.vol _ (Nat.le_trans (CrashDelete.dirWalkStart_ge s.vol hg parent) hlo)
        · have hxin' : InCluster s.vol x e.entryBlock := (inCluster_sameGeom hsgD x _).1 hxin
          have hxr := chain_inRange (hdir.resolve_left (by rw [hfr]; decide)) x hx
          intro hfat
          exact DirFat.fat_ne_cluster_block s.vol hg x _ hxr.1 hxr.2 hfat hxin'
      · have hc2r : InRange s.vol c2 := (hsgD.inRange c2).1 hgr.inRange
        have hbk' : e.entryBlock = clusterToBlock s.vol c2 := by
          rw [hbk]; obtain ⟨a, b, hv⟩ := hsgD; rw [hv]; rfl
        rw [hbk']
        have := FatLens.cluster_blocks_in_data_region s.vol hg c2 0 hc2r.1 hc2r.2 hpos
        rw [Nat.add_zero] at this; rw [this]; decide
    refine ⟨c, sD, sM, e, hrc, hfree, hreadyD, hWD, hwn, hsw, hvM, hreadyM, ?_, hslot_not_c, hbnf, hready', ?_⟩
    · rcases hcase with ⟨hd, hin, _⟩ | ⟨p, c2, _, hl, hbk, _, hgr, _⟩
      · refine .inl ⟨hd, ?_⟩
        rcases hin with ⟨h1, h2, h3⟩ | ⟨h1, x, hx, hxin⟩
        · exact .inl ⟨h1, h2, h3⟩
        · exact .inr ⟨h1, x, hx, (inCluster_sameGeom hsgD x _).1 hxin⟩
      · have hc2 : c2 ≠ c := fun e' => (not_free_of_eof heofD).1 ((hsgD.isFree _ _).1 (e' ▸ hgr.wasFree))
        refine .inr ⟨p, c2, hl, hc2, by rw [hbk]; obtain ⟨a, b, hv⟩ := hsgD; rw [hv]; rfl, ?_⟩
        exact ⟨(hsgD.inRange c2).1 hgr.inRange, (hsgD.isFree _ _).1 hgr.wasFree, (hsgD.isUsed _ _).1 hgr.lastUsed,
          (clusterZero_sameGeom hsgD _ _).1 hgr.zero, by rw [← hsgD.nextOf]; exact hgr.link, by rw [← hsgD.nextOf]; exact hgr.eof,
          (Within.sameGeom hsgD hgr.within).mono (fun _ h' => h') (fun i hz => ⟨hz.1, (inCluster_sameGeom hsgD c2 i).1 hz.2⟩)⟩
    · -- assemble the crash points
      have hNE : ∀ d, Within s.vol s.dev.disk d [c] (inClusters s.vol [c]) → (isFree s.vol d c ∨ nextOf s.vol d c = .err .EndOfFile) →
          NoEntryYet s.vol s.dev.disk d dcs c ∨ d = s5.dev.disk :=
        fun d hd hcs => .inl (noEntry_of_within hrc hfree hd hcs)
      -- the mark of `c` survives writes to blocks of `c`
      have hcEOF : ∀ d, (∀ i, ¬ InCluster s.vol c i → d.get i = s1.dev.disk.get i) → nextOf s.vol d c = .err .EndOfFile := fun d hd => by
        have : fatRaw s.vol d c = fatRaw s.vol s1.dev.disk c := by
          unfold fatRaw
          rw [hd _ (fun hin => DirFat.fat_ne_cluster_block s.vol hg c _ hrc.1 hrc.2
            (FatLens.fat_blocks_in_fat_region s.vol hg c hrc.2).1 hin)]
        rw [nextOf_congr rfl this]; exact heof1
      have c1 : CrashAll (fun d => NoEntryYet s.vol s.dev.disk d dcs c ∨ d = s5.dev.disk) s s1 :=
        hcr1.mono fun d hd => by
          rcases hd.1 with hA | ⟨hB, he, _⟩ | ⟨hC, _⟩
          · exact hNE d (hA.mono (fun _ h' => by cases h') (fun i hz => absurd hz (hclean i)))
              (.inl ((isFree_congr_raw (hA.other c hrc.2 List.not_mem_nil)).2 hfree))
          · exact hNE d (hB.mono (fun _ h' => h') (fun i hz => absurd hz (hclean i))) (.inr he)
          · exact hNE d (hW1'.view hC) (.inr ((nextOf_congr rfl (hC.fatRaw hrc.2)).trans heof1))
      have c2 : CrashAll (fun d => NoEntryYet s.vol s.dev.disk d dcs c ∨ d = s5.dev.disk) s1 s3 :=
        (CrashAll.same (s' := s2') hw2 hd2 (.inl rfl : s1.dev.disk = s1.dev.disk ∨ s1.dev.disk = s3.dev.disk)).trans
          ((CrashData.single_write_crash (s := s2') (s' := s3) (by rw [hw3, hw2]) (by rw [hd3, hd2])).mono
            fun d hd => by rw [hd2] at hd; exact hd) |>.mono fun d hd => by
          rcases hd with rfl | rfl
          · exact hNE _ hW1' (.inr heof1)
          · have hsame : ∀ i, ¬ InCluster s.vol c i → s3.dev.disk.get i = s1.dev.disk.get i := fun i hi => by
              rw [hd3, Disk.get_set_ne _ _ _ _ (fun e' => hi ⟨by omega, by omega⟩)]
            exact hNE _ (hwithin_of _ hsame) (.inr (hcEOF _ hsame))
      have c3 : CrashAll (fun d => NoEntryYet s.vol s.dev.disk d dcs c ∨ d = s5.dev.disk) s3 sD :=
        hcrZ.mono fun d hd => hNE d (hwithin_of d (hout d hd)) (.inr (hcEOF d (hout d hd)))
      have c4 : CrashAll (fun d => NoEntryYet s.vol s.dev.disk d dcs c ∨ d = s5.dev.disk) sD s5 := by
        rcases hcase with ⟨_, _, hcr⟩ | ⟨p, c2, hfr, hl, _, _, hgr, hcr⟩
        · exact hcr.mono fun d hd => hd.elim (fun e' => hNE d (e' ▸ hWD) (.inr (e' ▸ heofD))) .inr
        · have hc2 : c2 ≠ c := fun e' => (not_free_of_eof heofD).1 ((hsgD.isFree _ _).1 (e' ▸ hgr.wasFree))
          have hc2r : InRange s.vol c2 := (hsgD.inRange c2).1 hgr.inRange
          have hc2f : isFree s.vol s.dev.disk c2 := by
            have h0 : isFree s.vol sD.dev.disk c2 := (hsgD.isFree _ _).1 hgr.wasFree
            exact (isFree_congr_raw (hWD.other c2 hc2r.2 (fun hm => hc2 (List.mem_singleton.1 hm)))).1 h0
          refine hcr.mono fun d hd => ?_
          rcases hd with hd | hd
          · refine .inl ?_
            -- one of the three stages of the parent's growth, on top of the ready new cluster
            have hdirty : ∀ i, zeroing sD.vol true c2 i → inClusters s.vol [c, c2] i := fun i hz =>
              ⟨c2, by simp, (inCluster_sameGeom hsgD c2 i).1 hz.2⟩
            have hdirty0 : ∀ i, inClusters s.vol [c] i → inClusters s.vol [c, c2] i := fun i ⟨x, hx, hi⟩ =>
              ⟨x, by have := List.mem_singleton.1 hx; subst this; exact List.mem_cons_self, hi⟩
            have hfreeD : isFree s.vol sD.dev.disk c2 := (hsgD.isFree _ _).1 hgr.wasFree
            have mk : ∀ (t : List Nat) (pl : Option Nat), (∀ y, y ∈ t → y = c2 ∨ pl = some y) → (∀ q, pl = some q → q = p) →
                Within sD.vol sD.dev.disk d t (zeroing sD.vol true c2) →
                (¬ isFree s.vol d c2 → ClusterZero s.vol d c2) →
                (∀ q, pl = some q → nextOf s.vol d q = .ok c2 ∧ nextOf s.vol d c2 = .err .EndOfFile) →
                NoEntryYet s.vol s.dev.disk d dcs c := fun t pl ht hpl hw hbl hgrow =>
              ⟨[c, c2], pl, {
                wasFree := fun x hx => by
                  rcases List.mem_cons.1 hx with hx | hx
                  · rw [hx]; exact ⟨hrc, hfree⟩
                  · rw [List.mem_singleton.1 hx]; exact ⟨hc2r, hc2f⟩
                last := fun q hq => by rw [hpl q hq]; exact hl
                within := Within.trans hWD (Within.sameGeom hsgD hw)
                  (fun y hy => by rw [List.mem_singleton.1 hy]; simp)
                  (fun y hy => by
                    rcases ht y hy with e' | e'
                    · rw [e']; simp
                    · rw [e']; simp)
                  hdirty0 hdirty
                blank := fun x hx hne hnf => by
                  rcases List.mem_cons.1 hx with hx | hx
                  · exact absurd hx hne
                  · rw [List.mem_singleton.1 hx] at hnf ⊢; exact hbl hnf
                cState := by
                  have hpc : p ≠ c := fun e' => hcdcs hfr (e' ▸ List.mem_of_getLast? hl)
                  have := hw.other c (by rw [hsgD.endCluster]; exact hrc.2) (fun hm => by
                    rcases ht c hm with e' | e'
                    · exact hc2 e'.symm
                    · exact hpc (hpl c e').symm)
                  rw [hsgD.fatRaw, hsgD.fatRaw] at this
                  exact .inr ((nextOf_congr rfl this).trans heofD)
                grown := fun q hq => ⟨c2, by simp, hc2, (hgrow q hq).1, (hgrow q hq).2⟩ }⟩
            rcases hd with hA | ⟨hB, _, hzB⟩ | ⟨hC, hzC⟩
            · refine mk [] none (fun _ hy => by cases hy) (fun _ hq => by cases hq) hA (fun hnf => ?_) (fun _ hq => by cases hq)
              have := hA.other c2 (by rw [hsgD.endCluster]; exact hc2r.2) List.not_mem_nil
              rw [hsgD.fatRaw, hsgD.fatRaw] at this
              exact absurd ((isFree_congr_raw this).2 hfreeD) hnf
            · exact mk [c2] none (fun y hy => .inl (List.mem_singleton.1 hy)) (fun _ hq => by cases hq) hB
                (fun _ => (clusterZero_sameGeom hsgD _ _).1 (hzB rfl)) (fun _ hq => by cases hq)
            · exact mk [c2, p] (some p) (fun y hy => by
                  rcases List.mem_cons.1 hy with hy | hy
                  · exact .inl hy
                  · exact .inr (by rw [List.mem_singleton.1 hy]))
                (fun q hq => (Option.some.inj hq).symm) (hgr.within.view hC)
                (fun _ => (clusterZero_sameGeom hsgD _ _).1 (hzC rfl))
                (fun q hq => by
                  cases hq
                  have hpE : p < endCluster sD.vol := hgr.lastUsed.1.2
                  refine ⟨?_, ?_⟩
                  · rw [← hsgD.nextOf, nextOf_congr rfl (hC.fatRaw hpE)]; exact hgr.link
                  · rw [← hsgD.nextOf, nextOf_congr rfl (hC.fatRaw hgr.inRange.2)]; exact hgr.eof)
          · exact .inr hd
      exact ((c1.trans c2).trans c3).trans c4

end Sdmmc.Lemmas.CrashMakeDir
