/-
Capacity (C05, second sentence), part 2 — the loop of `write` with exact cluster accounting:
`writeLoop_count` is `WriteRefines.writeLoop_spec` (same proof) with three more conclusions: the
free clusters that disappeared are exactly the clusters appended to the chain; the chain has exactly
as many clusters as the bytes stored need (never fewer than before); and `DiskFull` is reported only
with the chain filled to its last byte.
-/
import Sdmmc.Lemmas.CapacityLocate

namespace Sdmmc.Lemmas.Capacity
open Sdmmc.Model Sdmmc.Model.Fat Sdmmc.Spec
open Sdmmc.Lemmas.FBasic hiding NoFault Coherent
open Sdmmc.Lemmas.FatOps hiding BlocksOK Mirror HintOK
open Sdmmc.Lemmas.ChainL Sdmmc.Lemmas.ForestBase Sdmmc.Lemmas.ForestOwns Sdmmc.Lemmas.ReadRefines
open Sdmmc.Lemmas.WriteRefines

/-- `⌈a / b⌉`.  Same body as `Sdmmc.Props.C05Capacity.ceilDiv`. -/
def cdiv (a b : Nat) : Nat := (a + b - 1) / b

theorem cdiv_le {a b n : Nat} (hb : 0 < b) (h : a ≤ n * b) : cdiv a b ≤ n := by
  unfold cdiv
  have : (a + b - 1) / b < n + 1 := (Nat.div_lt_iff_lt_mul hb).2 (by rw [Nat.add_mul, Nat.one_mul]; omega)
  omega

theorem le_cdiv {a b n : Nat} (hb : 0 < b) (h : n * b < a + b) : n ≤ cdiv a b := by
  unfold cdiv
  exact (Nat.le_div_iff_mul_le hb).2 (by omega)

/-- With the offset at the end of a chain of `n` clusters, storing at least one byte needs more
than `n` clusters. -/
theorem succ_le_cdiv {o t k b n : Nat} (hb : 0 < b) (ho : o = n * b) (ht : 0 < t) : n + 1 ≤ cdiv (o + t + k) b := by
  apply le_cdiv hb
  rw [Nat.add_mul, Nat.one_mul, ho]
  omega

theorem cdiv_mono {a a' b : Nat} (h : a ≤ a') : cdiv a b ≤ cdiv a' b := by
  unfold cdiv
  exact Nat.div_le_div_right (by omega)

/-- The loop of `write` with exact cluster accounting (see the header). -/
theorem writeLoop_count (i vi : Nat) (A B : List (List Nat)) :
    ∀ (fuel : Nat) (buffer : Bytes) (s : Mgr) (f : FileInfo) (v : VolInfo) (cs : List Nat),
      buffer.length < fuel → WInv i vi A B s f v cs →
      ∃ k r s' f' v' cs', writeLoop i vi fuel buffer s = (r, s') ∧ k ≤ buffer.length ∧
        ((r = .ok () ∧ k = buffer.length) ∨ (r = .err .DiskFull ∧ k < buffer.length ∧ Full v'.vol s'.dev.disk)) ∧
        WInv i vi A B s' f' v' cs' ∧ WProg i vi s s' f f' v v' cs cs' (buffer.take k) ∧
        freeCount v.vol s.dev.disk = freeCount v'.vol s'.dev.disk + (cs'.length - cs.length) ∧
        cs'.length = max cs.length (cdiv (f.currentOffset + k) (clusterBytesLen v.vol)) ∧
        (r = .err .DiskFull → f.currentOffset + k = cs'.length * clusterBytesLen v.vol) := by
  intro fuel
  induction fuel with
  | zero => intro buffer s f v cs hlt; omega
  | succ fuel ih =>
    intro buffer s f v cs hfuel h
    have hb : BlocksOK s.dev.disk := h.ok.2.2.1
    have hrefl : WProg i vi s s f f v v cs cs [] :=
      WProg.nil (WStep.refl h.file h.vol) (List.prefix_refl _) (SameGeom.refl _) rfl h.fileOK.pos_le rfl (Touch.refl _ _ _)
    have hcb := h.cbpos
    have hole : f.currentOffset ≤ cs.length * clusterBytesLen v.vol := Nat.le_trans h.fileOK.pos_le h.fileOK.size_fits
    have hmax0 : cs.length = max cs.length (cdiv (f.currentOffset + 0) (clusterBytesLen v.vol)) := by
      rw [Nat.add_zero, Nat.max_eq_left (cdiv_le hcb hole)]
    by_cases hne : buffer = []
    · subst hne
      exact ⟨0, .ok (), s, f, v, cs, writeLoop_nil i vi _ s, Nat.le_refl _, .inl ⟨rfl, rfl⟩, h, hrefl,
        by rw [Nat.sub_self, Nat.add_zero], hmax0, fun hr => by cases hr⟩
    · rw [writeLoop_succ i vi fuel buffer f s hne (MHoare.getFile_ok h.file)]
      rcases locate_count i vi A B s f v cs h with
        ⟨c, s1, v1, cs1, hloc, h1, hk1, hpre1, hsg1, hvid1, hstep1, hdisk1, hcnt1, hwlog1⟩ |
        ⟨s1, hloc, h1, hstep1, hd1, hw1, hfull, hoffEnd⟩
      · -- the block was located (perhaps after extending the chain)
        have hcbeq : clusterBytesLen v1.vol = clusterBytesLen v.vol := sameGeom_clusterBytesLen hsg1
        have hctb : ∀ x, clusterToBlock v1.vol x = clusterToBlock v.vol x := sameGeom_clusterToBlock hsg1
        obtain ⟨s2, hfin, h2, hprog2, htpos⟩ := finish_spec i vi A B s1 f v1 cs1 c buffer h1 (by rw [hcbeq]; exact hk1) hne
          (min (512 - f.currentOffset % 512) buffer.length) rfl
          (f.currentOffset / clusterBytesLen v.vol * clusterBytesLen v.vol, c) (by rw [hcbeq])
        rw [hcbeq, hctb] at hfin
        generalize ht : min (512 - f.currentOffset % 512) buffer.length = t at hfin h2 hprog2 htpos
        have htle : t ≤ buffer.length := by omega
        generalize hf2 : bump (f.currentOffset / clusterBytesLen v.vol * clusterBytesLen v.vol, c) t f = f2 at hfin h2 hprog2
        -- the first half as progress with no data
        have hprog1 : WProg i vi s s1 f f v v1 cs cs1 [] := by
          refine WProg.nil hstep1 hpre1 hsg1 hvid1 h.fileOK.pos_le ?_ ?_
          · obtain ⟨ext, hext⟩ := hpre1
            rw [← hext]
            have hcsz := h.fileOK.size_fits
            have hb1 : BlocksOK s1.dev.disk := h1.ok.2.2.1
            rw [fileContent_append _ _ _ _ _ hb1 hcsz]
            unfold fileContent
            congr 1
            apply chainBytes_congr
            intro x hx j hj
            exact hdisk1 _ (clusterBlock_not_fat h.geom (chain_inRange h.chain x hx) hj)
          · obtain ⟨new, e, hn⟩ := hwlog1
            exact ⟨fun b hb1 _ => hdisk1 b hb1, new, e, fun w hw => .inl (hn w hw)⟩
        have hprog12 := WProg.trans hprog1 hprog2 hb h.fileOK
        rw [List.nil_append] at hprog12
        -- the rest of the loop
        have hfc2 : freeCount v1.vol s2.dev.disk = freeCount v1.vol s1.dev.disk :=
          finish_count i vi A B s1 f v1 cs1 c h1 (by rw [hcbeq]; exact hk1) _ _ _ _ s2 (by rw [hcbeq, hctb]; exact hfin)
        obtain ⟨k, r, s', f', v', cs', hrun, hkle, hres, h', hprog', hfc', hlen', hdf'⟩ :=
          ih (buffer.drop t) s2 f2 v1 cs1 (by rw [List.length_drop]; omega) h2
        have hlen : (buffer.drop t).length = buffer.length - t := List.length_drop
        have hoff2 : f2.currentOffset = f.currentOffset + t := by rw [← hf2]; rfl
        rw [hoff2, hcbeq] at hlen' hdf'
        have hpre' : cs1.length ≤ cs'.length := hprog'.pre.length_le
        have hpre1' : cs.length ≤ cs1.length := hpre1.length_le
        refine ⟨t + k, r, s', f', v', cs', ?_, by omega, ?_, h', ?_, ?_, ?_, ?_⟩
        · rw [MHoare.bind_ok hloc]
          dsimp only
          rw [ht]
          have hassoc : ∀ (m1 : M Unit) (m2 : M Unit) (m3 : M Unit) (x y : Mgr), (m1 >>= fun _ => m2) x = (.ok (), y) →
              (m1 >>= fun _ => m2 >>= fun _ => m3) x = m3 y := by
            intro m1 m2 m3 x y hxy
            rw [MHoare.bind_def] at hxy ⊢
            rcases hm1 : m1 x with ⟨r1, x1⟩
            rw [hm1] at hxy
            cases r1 with
            | ok u =>
              simp only at hxy ⊢
              rw [MHoare.bind_ok hxy]
            | err e => cases hxy
            | panic m => cases hxy
            | diverged => cases hxy
          rw [hassoc _ _ _ _ _ hfin]
          exact hrun
        · rcases hres with ⟨hr, hk⟩ | ⟨hr, hk, hf⟩
          · exact .inl ⟨hr, by omega⟩
          · exact .inr ⟨hr, by omega, hf⟩
        · have := WProg.trans hprog12 hprog' hb h.fileOK
          rw [← List.take_add] at this
          exact this
        · -- free clusters
          simp only [hsg1.freeCount] at hfc' hfc2
          rcases hcnt1 with ⟨_, hcs1, hds1⟩ | ⟨_, hl1, hf1⟩
          · rw [hcs1] at hfc'; rw [hds1] at hfc2; omega
          · omega
        · -- chain length
          rw [hlen', ← Nat.add_assoc]
          rcases hcnt1 with ⟨_, hcs1, _⟩ | ⟨ho1, hl1, _⟩
          · rw [hcs1]
          · rw [hl1, Nat.max_eq_right (succ_le_cdiv hcb ho1 htpos), Nat.max_eq_right]
            exact Nat.le_trans (Nat.le_succ _) (succ_le_cdiv hcb ho1 htpos)
        · intro hr; rw [← Nat.add_assoc]; exact hdf' hr
      · -- the volume is full
        refine ⟨0, .err .DiskFull, s1, f, v, cs, ?_, Nat.zero_le _, .inr ⟨rfl, List.length_pos_iff.2 hne, ?_⟩, h1, ?_,
          by rw [hd1, Nat.sub_self, Nat.add_zero], hmax0, fun _ => hoffEnd⟩
        · rw [MHoare.bind_err hloc]
        · rw [hd1]; exact hfull
        · exact WProg.nil hstep1 (List.prefix_refl _) (SameGeom.refl _) rfl h.fileOK.pos_le (by rw [hd1]) (Touch.of_eq hd1 hw1)


end Sdmmc.Lemmas.Capacity
