/-
C11 — every public method of the manager reports device failures (`FaultReported`), never
decreases `failed`, and the read-only methods write nothing.
-/
import Sdmmc.Lemmas.FaultMgr

namespace Sdmmc.Lemmas.Fault

open Sdmmc.Model

/-! ### The FAT-level helpers defined in `Mgr.lean` -/

theorem FaultInner.of_dev_eq {σ β} {m : F (σ × Res β)} (h : ∀ s, (m s).2.dev = s.dev) : FaultInner m := by
  intro s hs; rw [h s] at hs; exact absurd rfl hs

theorem FaultInner.bind_nodev {α σ β} {m : F α} {f : α → F (σ × Res β)} (hm : ∀ s, (m s).2.dev = s.dev)
    (hf : ∀ a, FaultInner (f a)) : FaultInner (m >>= f) := by
  intro s h
  have hms := hm s
  rcases hr : m s with ⟨r, s'⟩
  rw [hr] at hms
  simp only at hms
  cases r with
  | ok a => rw [F.bind_ok hr] at h ⊢; rw [← hms] at h; exact hf a s' h
  | err e => rw [F.bind_err hr] at h; exact absurd (congrArg Dev.failed hms) h
  | panic msg => rw [F.bind_panic hr] at h; exact absurd (congrArg Dev.failed hms) h
  | diverged => rw [F.bind_diverged hr] at h; exact absurd (congrArg Dev.failed hms) h

theorem FaultInner.bind_inner {σ γ σ' β} {m : F (σ × Res γ)} {f : σ × Res γ → F (σ' × Res β)}
    (hm : FaultInner m) (hf : ∀ a, FaultInner (f a))
    (hdev : ∀ st s, ∃ st', (f (st, .err .DeviceError) s).1 = .ok (st', .err .DeviceError)) :
    FaultInner (m >>= f) := by
  intro s h
  have hms := hm s
  rcases hr : m s with ⟨r, s'⟩
  rw [hr] at hms
  by_cases hfail : s'.dev.failed = s.dev.failed
  · cases r with
    | ok a => rw [F.bind_ok hr] at h ⊢; rw [← hfail] at h; exact hf a s' h
    | err e => rw [F.bind_err hr] at h; exact absurd hfail h
    | panic msg => rw [F.bind_panic hr] at h; exact absurd hfail h
    | diverged => rw [F.bind_diverged hr] at h; exact absurd hfail h
  · obtain ⟨st, hst⟩ := hms hfail
    simp only at hst
    subst hst
    rw [F.bind_ok hr]
    exact hdev st s'

theorem walkClusters_inner (bpc n : Nat) (st : Nat × Nat) : FaultInner (walkClusters bpc n st) := by
  induction n generalizing st with
  | zero => unfold walkClusters; exact .of_dev_eq fun _ => rfl
  | succ n ih =>
    unfold walkClusters
    intro s h
    rw [F.attempt_bind_apply] at h ⊢
    by_cases hfail : (Fat.nextCluster st.2 s).2.dev.failed = s.dev.failed
    · rw [← hfail] at h
      revert h
      generalize (Fat.nextCluster st.2 s).2 = s'
      generalize (Fat.nextCluster st.2 s).1 = r
      intro h
      cases r with
      | ok c => exact ih _ _ h
      | err e => exact absurd rfl h
      | panic msg => exact absurd rfl h
      | diverged => exact absurd rfl h
    · rw [nextCluster_strict _ s hfail]
      exact ⟨st, rfl⟩

theorem findDataOnDisk_inner (fileStart off : Nat) (start : Nat × Nat) :
    FaultInner (findDataOnDisk fileStart off start) := by
  unfold findDataOnDisk
  refine FaultInner.bind_nodev (fun _ => rfl) fun v => ?_
  dsimp only
  split
  · exact .of_dev_eq fun _ => rfl
  · refine FaultInner.bind_inner (walkClusters_inner _ _ _) ?_ ?_
    · rintro ⟨st, r⟩
      dsimp only
      split
      · split
        · exact .of_dev_eq fun _ => rfl
        · exact .of_dev_eq fun _ => rfl
      · exact .of_dev_eq fun _ => rfl
    · intro st s; exact ⟨_, rfl⟩

theorem readBlock_strict (idx : Nat) : FaultStrict (do cacheRead idx; cacheBlk : F Block) := by
  fault_auto

theorem writeBlockPart_strict (b o : Nat) (d : Bytes) (w : Bool) : FaultStrict (writeBlockPart b o d w) := by
  unfold writeBlockPart; fault_auto

section Inv
variable {R : FS → FS → Prop}

theorem walkClusters_inv [ReadOK R] (bpc n : Nat) (st : Nat × Nat) : F.Inv R (walkClusters bpc n st) := by
  have := @nextCluster_inv R _
  induction n generalizing st with
  | zero => unfold walkClusters; fault_auto
  | succ n ih => unfold walkClusters; fault_auto

theorem findDataOnDisk_inv [ReadOK R] (fileStart off : Nat) (start : Nat × Nat) :
    F.Inv R (findDataOnDisk fileStart off start) := by
  have := @walkClusters_inv R _
  unfold findDataOnDisk; fault_auto

theorem readBlock_inv [ReadOK R] (idx : Nat) : F.Inv R (do cacheRead idx; cacheBlk : F Block) := by
  fault_auto

theorem writeBlockPart_inv [WriteOK R] (b o : Nat) (d : Bytes) (w : Bool) : F.Inv R (writeBlockPart b o d w) := by
  unfold writeBlockPart; fault_auto

end Inv

/-- The block read of `open_raw_volume` (there is no volume yet; the cache is used directly). -/
@[reducible] def rdBlock (idx : Nat) : M Block := fun s =>
  let (r, fs) := (do cacheRead idx; cacheBlk : F Block) { dev := s.dev, cache := s.cache, vol := default }
  (r, { s with dev := fs.dev, cache := fs.cache })

theorem MStrict.rdBlock (idx : Nat) : MStrict (rdBlock idx) := by
  intro s h
  exact readBlock_strict idx { dev := s.dev, cache := s.cache, vol := default } h

theorem M.Inv.rdBlock {R : Mgr → Mgr → Prop} {RF} [MDev R RF] [ReadOK RF] (idx : Nat) : M.Inv R (rdBlock idx) := by
  intro s
  have := MDev.of_fs (R := R) s { dev := s.dev, cache := s.cache, vol := default } _ s.vols rfl rfl
    (readBlock_inv (R := RF) idx { dev := s.dev, cache := s.cache, vol := default })
  exact this

/-! ### Automation at the manager level -/

macro "mfault_step" : tactic => `(tactic| first
  | with_reducible first
    | apply_hyp
    | exact MStrict.pure _
    | exact MStrict.lift _
    | exact MStrict.fail _
    | exact MStrict.panic _
    | exact MStrict.get
    | exact MStrict.generate
    | exact MStrict.getVolumeById _
    | exact MStrict.getDirById _
    | exact MStrict.getFileById _
    | exact MStrict.getDir _
    | exact MStrict.getFile _
    | exact MStrict.getVolInfo _
    | exact MStrict.toSfn _
    | exact MStrict.setFile _ _
    | exact MStrict.modifyFile _ _
    | exact MStrict.modify (fun _ => rfl)
    | exact MStrict.rdBlock _
    | apply MStrict.withVol
    | exact FaultReported.withVol _ (makeDir_weak _ _ _ _)
    | apply MInner.withVol
    | exact findDataOnDisk_inner _ _ _
    | exact M.Inv.pure _
    | exact M.Inv.lift _
    | exact M.Inv.fail _
    | exact M.Inv.panic _
    | exact M.Inv.get
    | exact M.Inv.getVolumeById _
    | exact M.Inv.getDirById _
    | exact M.Inv.getFileById _
    | exact M.Inv.getDir _
    | exact M.Inv.getFile _
    | exact M.Inv.getVolInfo _
    | exact M.Inv.toSfn _
    | exact M.Inv.generate_dev
    | exact M.Inv.setFile_dev _ _
    | exact M.Inv.modifyFile_dev _ _
    | exact M.Inv.modify_dev (fun _ => ⟨rfl, rfl⟩)
    | exact M.Inv.rdBlock _
    | apply M.Inv.withVol_dev
    | exact M.Inv.withVol_tables _ _
    | apply M.Inv.attempt
    | apply FaultReported.attempt_bind_inner
    | apply FaultReported.attempt_bind
    | apply MStrict.attempt_bind
    | apply MStrict.bind
    | apply FaultReported.bind
    | apply M.Inv.bind
    | exact readBlock_strict _
    | exact writeBlockPart_strict _ _ _ _
    | exact updateFat_strict _ _
    | exact nextCluster_strict _
    | exact allocCluster_strict _ _
    | exact truncateClusterChain_strict _
    | exact freeClusterChain_strict _
    | exact updateInfoSector_strict
    | exact writeEntryToDisk_strict _
    | exact iterateRaw_strict _
    | exact findDirectoryEntry_strict _ _
    | exact deleteDirectoryEntry_strict _ _
    | exact writeNewDirectoryEntry_strict _ _ _ _ _
    | exact readBlock_inv _
    | exact writeBlockPart_inv _ _ _ _
    | exact findDataOnDisk_inv _ _ _
    | exact nextCluster_inv _
    | exact allocCluster_inv _ _
    | exact truncateClusterChain_inv _
    | exact freeClusterChain_inv _
    | exact updateInfoSector_inv
    | exact writeEntryToDisk_inv _
    | exact iterateRaw_inv _
    | exact findDirectoryEntry_inv _ _
    | exact deleteDirectoryEntry_inv _ _
    | exact writeNewDirectoryEntry_inv _ _ _ _ _
    | exact makeDir_inv _ _ _ _
  | fault_step
  | exact ⟨_, rfl⟩
  | exact MStrict.rdBlock _
  | exact FaultReported.of_strict (MStrict.rdBlock _)
  | exact M.Inv.rdBlock _
  | apply FaultReported.bind
  | apply M.Inv.bind
  | with_reducible apply FaultReported.of_strict)

macro "mfault_auto" : tactic => `(tactic| repeat mfault_step)

/-! ### `FaultReported` for every method -/

theorem openRawVolume_reported (i : Nat) : FaultReported (openRawVolume i) := by
  unfold openRawVolume; mfault_auto

theorem openRootDir_reported (v : Nat) : FaultReported (openRootDir v) := by
  unfold openRootDir; mfault_auto

theorem openDir_reported (d : Nat) (name : List Nat) : FaultReported (openDir d name) := by
  unfold openDir; mfault_auto

theorem closeDir_reported (d : Nat) : FaultReported (closeDir d) := by
  unfold closeDir; mfault_auto

theorem closeVolume_reported (v : Nat) : FaultReported (closeVolume v) := by
  unfold closeVolume; mfault_auto

theorem findDirectoryEntry_mstrict (d : Nat) (name : List Nat) : MStrict (Model.findDirectoryEntry d name) := by
  unfold Model.findDirectoryEntry; mfault_auto

theorem iterateDir_mstrict (d : Nat) : MStrict (iterateDir d) := by
  unfold iterateDir; mfault_auto

theorem iterateDirLfn_mstrict (d n : Nat) : MStrict (iterateDirLfn d n) := by
  unfold iterateDirLfn; mfault_auto

theorem openFileInDir_reported (d : Nat) (name : List Nat) (mode : Mode) : FaultReported (openFileInDir d name mode) := by
  unfold openFileInDir; mfault_auto

theorem deleteFileInDir_reported (d : Nat) (name : List Nat) : FaultReported (deleteFileInDir d name) := by
  unfold deleteFileInDir; mfault_auto

theorem makeDirInDir_reported (d : Nat) (name : List Nat) : FaultReported (makeDirInDir d name) := by
  unfold makeDirInDir; mfault_auto

theorem readLoop_reported (fi vi start fuel space : Nat) (acc : Bytes) :
    FaultReported (readLoop fi vi start fuel space acc) := by
  induction fuel generalizing space acc with
  | zero => unfold readLoop; mfault_auto
  | succ n ih => unfold readLoop; mfault_auto

theorem read_reported (f n : Nat) : FaultReported (Model.read f n) := by
  have := readLoop_reported
  unfold Model.read; mfault_auto

theorem writeLoop_reported (fi vi fuel : Nat) (buf : Bytes) : FaultReported (writeLoop fi vi fuel buf) := by
  induction fuel generalizing buf with
  | zero => unfold writeLoop; mfault_auto
  | succ n ih => unfold writeLoop; mfault_auto

theorem write_reported (f : Nat) (buf : Bytes) : FaultReported (write f buf) := by
  have := writeLoop_reported
  unfold write; mfault_auto

theorem flushFile_mstrict (f : Nat) : MStrict (flushFile f) := by
  unfold flushFile; mfault_auto

/-- `close_file` returns the flush result although it removes the handle. -/
theorem closeFile_reported (f : Nat) : FaultReported (closeFile f) := by
  unfold closeFile
  refine FaultReported.attempt_bind (flushFile_mstrict f) (fun r => ?_) ?_
  · mfault_auto
  · intro s
    rw [M.bind_apply]
    rcases hg : getFileById f s with ⟨r, s'⟩
    cases r with
    | ok a => exact ⟨_, rfl⟩
    | err e => exact ⟨_, rfl⟩
    | panic msg => unfold getFileById at hg; split at hg <;> cases hg
    | diverged => unfold getFileById at hg; split at hg <;> cases hg

theorem closeDir_dev (d : Nat) (s : Mgr) : (closeDir d s).2.dev = s.dev := by
  unfold closeDir
  rw [M.bind_apply]
  simp only [M.get]
  generalize List.findIdx? _ s.dirs = o
  cases o <;> rfl

theorem getRootVolumeLabel_reported (v : Nat) : FaultReported (getRootVolumeLabel v) := by
  unfold getRootVolumeLabel
  refine FaultReported.bind (.of_strict (MStrict.getVolumeById _)) fun volIdx => ?_
  refine FaultReported.bind (.of_strict (MStrict.getVolInfo _)) fun vi => ?_
  split
  · exact .of_strict (MStrict.pure _)
  · refine FaultReported.bind (openRootDir_reported v) fun dir => ?_
    refine FaultReported.attempt_bind (iterateDir_mstrict dir) (fun r => ?_) ?_
    · refine FaultReported.attempt_bind_nodev (closeDir_dev dir) fun _ => ?_
      mfault_auto
    · intro s
      exact ⟨_, rfl⟩

theorem fileEof_mstrict (f : Nat) : MStrict (fileEof f) := by unfold fileEof; mfault_auto
theorem fileLength_mstrict (f : Nat) : MStrict (fileLength f) := by unfold fileLength; mfault_auto
theorem fileOffset_mstrict (f : Nat) : MStrict (fileOffset f) := by unfold fileOffset; mfault_auto
theorem fileSeekFromStart_mstrict (f n : Nat) : MStrict (fileSeekFromStart f n) := by
  unfold fileSeekFromStart; mfault_auto
theorem fileSeekFromCurrent_mstrict (f : Nat) (n : Int) : MStrict (fileSeekFromCurrent f n) := by
  unfold fileSeekFromCurrent; mfault_auto
theorem fileSeekFromEnd_mstrict (f n : Nat) : MStrict (fileSeekFromEnd f n) := by
  unfold fileSeekFromEnd; mfault_auto

theorem runOp_reported (op : Op) : FaultReported (runOp op) := by
  have := openRawVolume_reported
  have := closeVolume_reported
  have := openRootDir_reported
  have := openDir_reported
  have := closeDir_reported
  have := openFileInDir_reported
  have := read_reported
  have := write_reported
  have := closeFile_reported
  have := deleteFileInDir_reported
  have := makeDirInDir_reported
  have := getRootVolumeLabel_reported
  have h1 := fun f n => FaultReported.of_strict (fileSeekFromStart_mstrict f n)
  have h2 := fun f n => FaultReported.of_strict (fileSeekFromCurrent_mstrict f n)
  have h3 := fun f n => FaultReported.of_strict (fileSeekFromEnd_mstrict f n)
  have h4 := fun f => FaultReported.of_strict (flushFile_mstrict f)
  have h5 := fun d n => FaultReported.of_strict (findDirectoryEntry_mstrict d n)
  have h6 := fun d => FaultReported.of_strict (iterateDir_mstrict d)
  have h7 := fun d n => FaultReported.of_strict (iterateDirLfn_mstrict d n)
  have h8 := fun f => FaultReported.of_strict (fileLength_mstrict f)
  have h9 := fun f => FaultReported.of_strict (fileOffset_mstrict f)
  have h10 := fun f => FaultReported.of_strict (fileEof_mstrict f)
  cases op <;> unfold runOp <;> mfault_auto
  -- `has_open_handles`
  exact .of_strict (.of_dev_eq fun _ => rfl)

/-- One API call: if the number of failed device calls grew, the call returned an error. -/
theorem step_reported (s : Mgr) (op : Op) (h : (step s op).1.dev.failed ≠ s.dev.failed) :
    ∃ e, (step s op).2.result = .err e := by
  unfold step at h ⊢
  by_cases hl : s.locked = true
  · rw [if_pos hl] at h
    split at h <;> exact absurd rfl h
  · rw [if_neg hl] at h ⊢
    exact runOp_reported op { s with dev := { s.dev with wlog := [], rlog := [] } } h

end Sdmmc.Lemmas.Fault
