/-
C02 over arbitrary histories, the reader (abstract side), part 2: the walk along a path of directory names
(`walk_run`) and the whole reader (`reader_run`): on a state without open handles whose generator does not wrap,
every run of `readerOps` answers the handles in order, the stored size, the first `n` bytes of the file, and a
listing of its directory.
-/
import Sdmmc.Lemmas.AbsFsRemount4
import Sdmmc.Spec.ClockRun

namespace Sdmmc.Lemmas.AbsFsTimes
open Sdmmc.Model Sdmmc.Spec.AbsFs Sdmmc.Lemmas.AbsFsTouch
open Sdmmc.Spec (ByteFile)

theorem withDir_nextId {a : AbsFs} (hn : a.nextId + 1 < 4294967296) (v x : Nat) : (withDir a v x).nextId = a.nextId + 1 := by
  show (a.nextId + 1) % 4294967296 = _
  exact Nat.mod_eq_of_lt hn

/-- The handles a run of `len` successful opens hands out, starting at `k`. -/
def handlesFrom (k len : Nat) : List (Res Payload) := (List.range len).map fun i => .ok (.handle (k + i))

theorem handlesFrom_succ (k len : Nat) : handlesFrom k (len + 1) = .ok (.handle k) :: handlesFrom (k + 1) len := by
  unfold handlesFrom
  rw [List.range_succ_eq_map, List.map_cons, List.map_map]
  congr 1
  apply List.map_congr_left
  intro i _
  show Res.ok (Payload.handle (k + (i + 1))) = Res.ok (Payload.handle (k + 1 + i))
  rw [Nat.add_comm i 1, Nat.add_assoc]

/-- **The walk**: every run of `open_dir` along a path of existing sub-directories answers the next handles in
order and ends with the last handle open on the directory the path leads to; nothing else changes. -/
theorem walk_run : ∀ (path : List (List Nat)) (sfns : List Bytes) {a a' : AbsFs} {d cur x v : Nat} {rest : List Op}
    {rs : List (Res Payload)}, a.locked = false → DirsBelow a → volOpen a v = true → dirOf a d = .ok ⟨d, v, cur⟩ →
    a.nextId + path.length < 4294967296 → a.dirs.length + path.length ≤ a.maxDirs →
    ParsesTo path sfns → pathDir a.slots cur sfns = some x →
    absRun a (walkFrom d a.nextId path ++ rest) rs a' →
    ∃ a2 rs2, rs = handlesFrom a.nextId path.length ++ rs2 ∧ absRun a2 rest rs2 a' ∧
      a2.locked = false ∧ DirsBelow a2 ∧ volOpen a2 v = true ∧
      dirOf a2 (walkEnd d a.nextId path) = .ok ⟨walkEnd d a.nextId path, v, x⟩ ∧
      a2.nextId = a.nextId + path.length ∧ a2.slots = a.slots ∧ a2.files = a.files ∧ a2.maxFiles = a.maxFiles ∧
      a2.vols = a.vols ∧ a2.dirs.length = a.dirs.length + path.length ∧ a2.maxDirs = a.maxDirs
  | [], [], a, a', d, cur, x, v, rest, rs, hl, hb, hv, hd, _, _, _, hp, hrun => by
    have hx : cur = x := by
      have : pathDir a.slots cur [] = some cur := rfl
      rw [this] at hp; exact Option.some.inj hp
    subst hx
    exact ⟨a, rs, rfl, hrun, hl, hb, hv, hd, rfl, rfl, rfl, rfl, rfl, rfl, rfl⟩
  | [], _ :: _, _, _, _, _, _, _, _, _, _, _, _, _, _, _, hps, _, _ => hps.elim
  | _ :: _, [], _, _, _, _, _, _, _, _, _, _, _, _, _, _, hps, _, _ => hps.elim
  | nm :: ns, sfn :: ss, a, a', d, cur, x, v, rest, rs, hl, hb, hv, hd, hn, hroom, hps, hp, hrun => by
    obtain ⟨hparse, hnt, hps'⟩ := hps
    simp only [List.length_cons] at hn hroom
    -- the path: the first name is a sub-directory entry
    have hp' : (match lookup (a.slots cur) sfn with
        | some i => (match (a.slots cur)[i]? with | some (.dir _ t) => pathDir a.slots t ss | _ => none)
        | none => none) = some x := hp
    cases hlk : lookup (a.slots cur) sfn with
    | none => rw [hlk] at hp'; cases hp'
    | some i =>
      rw [hlk] at hp'
      dsimp only at hp'
      cases hsl : (a.slots cur)[i]? with
      | none => rw [hsl] at hp'; cases hp'
      | some sl =>
        rw [hsl] at hp'
        cases sl with
        | deleted => cases hp'
        | frag raw => cases hp'
        | file m b => cases hp'
        | dir m t =>
          dsimp only at hp'
          -- the run
          cases rs with
          | nil => exact hrun.elim
          | cons r rs' =>
            obtain ⟨a1, hstep, hrun'⟩ := hrun
            obtain ⟨rfl, rfl⟩ := openDir_eval hl (by omega) hd hparse hnt hlk hsl hstep
            have hn1 : a.nextId + 1 < 4294967296 := by omega
            have hnext := withDir_nextId hn1 v t
            have hrun'' : absRun (withDir a v t) (walkFrom a.nextId (withDir a v t).nextId ns ++ rest) rs' a' := by
              rw [hnext]; exact hrun'
            obtain ⟨a2, rs2, hrs, hr2, h1, h2, h3, h4, h5, h6, h7, h8, h9, h10, h11⟩ :=
              walk_run ns ss (a := withDir a v t) (d := a.nextId) (cur := t) (x := x) (v := v)
                (show (withDir a v t).locked = false from hl)
                (withDir_below hb hn1 v t) hv (dirOf_withDir hb hv) (by rw [hnext]; omega)
                (by show (a.dirs ++ [_]).length + ns.length ≤ a.maxDirs; simp; omega) hps' hp' hrun''
            refine ⟨a2, rs2, ?_, hr2, h1, h2, h3, ?_, ?_, h6, h7, h8, h9, ?_, h11⟩
            · rw [hrs, hnext, List.length_cons, handlesFrom_succ]; rfl
            · rw [hnext] at h4; exact h4
            · rw [h5, hnext, List.length_cons]; omega
            · rw [h10]
              show (a.dirs ++ [_]).length + ns.length = _
              simp; omega

theorem handlesFrom_snoc (k len : Nat) : handlesFrom k (len + 1) = handlesFrom k len ++ [.ok (.handle (k + len))] := by
  unfold handlesFrom
  rw [List.range_succ, List.map_append]
  rfl

/-- **The reader**: in a state without open handles whose generator does not wrap and with room for the
handles, EVERY run of `readerOps` — open the root, walk the path, open the file read-only, ask its length, read
`n` bytes, list the directory — answers: the handles `k`, `k + 1`, … in order, the stored size, the first `n`
bytes of the file, and a listing showing exactly the entries of the directory. -/
theorem reader_run {a a' : AbsFs} {v : Nat} {path : List (List Nat)} {sfns : List Bytes} {fname : List Nat} {fs : Bytes}
    {x j n : Nat} {m : Meta} {bytes : Bytes} {rs : List (Res Payload)}
    (hl : a.locked = false) (hd : a.dirs = []) (hf : a.files = []) (hv : volOpen a v = true)
    (hn : a.nextId + path.length + 2 < 4294967296) (hmd : path.length + 1 ≤ a.maxDirs) (hmf : 1 ≤ a.maxFiles)
    (hps : ParsesTo path sfns) (hp : pathDir a.slots 0 sfns = some x)
    (hfs : Sfn.createFromStr fname = .ok fs) (hlk : lookup (a.slots x) fs = some j)
    (hsl : (a.slots x)[j]? = some (.file m bytes))
    (hrun : absRun a (readerOps v a.nextId path fname n) rs a') :
    ∃ es, rs = handlesFrom a.nextId (path.length + 2) ++
        [.ok (.num m.size), .ok (.bytes (bytes.take n)), .ok (.entries es)] ∧
      es.map view = listing (a.slots x) := by
  have hb : DirsBelow a := by intro od hod; rw [hd] at hod; cases hod
  -- open the root
  cases rs with
  | nil => exact hrun.elim
  | cons r0 rs1 =>
    obtain ⟨a1, hstep0, hrun1⟩ := hrun
    obtain ⟨rfl, rfl⟩ := openRoot_eval hl (by rw [hd]; show 0 < a.maxDirs; omega) v hstep0
    have hn1 : a.nextId + 1 < 4294967296 := by omega
    have hnext := withDir_nextId hn1 v 0
    -- walk
    have hrun1' : absRun (withDir a v 0)
        (walkFrom a.nextId (withDir a v 0).nextId path ++
          [.openFile (walkEnd a.nextId (a.nextId + 1) path) fname .ReadOnly, .length (a.nextId + 1 + path.length),
           .read (a.nextId + 1 + path.length) n, .list (walkEnd a.nextId (a.nextId + 1) path)]) rs1 a' := by
      rw [hnext]; exact hrun1
    obtain ⟨a2, rs2, hrs1, hrun2, hl2, _, hv2, hd2, hn2, hs2, hf2, hmf2, _, _, _⟩ :=
      walk_run path sfns (a := withDir a v 0) (d := a.nextId) (cur := 0) (x := x) (v := v)
        (show (withDir a v 0).locked = false from hl) (withDir_below hb hn1 v 0) hv (dirOf_withDir hb hv)
        (by rw [hnext]; omega) (by show (a.dirs ++ [_]).length + path.length ≤ a.maxDirs; rw [hd]; simp; omega) hps hp hrun1'
    rw [hnext] at hd2 hn2 hrs1
    have hs2' : a2.slots = a.slots := hs2
    have hf2' : a2.files = [] := by rw [hf2]; exact hf
    -- open the file
    cases rs2 with
    | nil => exact hrun2.elim
    | cons r1 rs3 =>
      obtain ⟨a3, hstep1, hrun3⟩ := hrun2
      have hno : isOpenAt a2 v x j = false := by unfold isOpenAt; rw [hf2']; rfl
      obtain ⟨rfl, rfl⟩ := openFile_ro_eval hl2 (by rw [hf2']; show 0 < a2.maxFiles; rw [hmf2]; exact hmf) hd2 hfs
        (by rw [hs2']; exact hlk) (by rw [hs2']; exact hsl) hno hstep1
      have hfo := fileOf_opened (a := a2) hf2' ⟨walkEnd a.nextId (a.nextId + 1) path, v, x⟩ j m .ReadOnly
      rw [hn2] at hfo
      -- length
      cases rs3 with
      | nil => exact hrun3.elim
      | cons r2 rs4 =>
        obtain ⟨a4, hstep2, hrun4⟩ := hrun3
        obtain ⟨rfl, rfl⟩ := length_eval (show (openedSt a2 _ j m .ReadOnly).locked = false from hl2) hfo hstep2
        -- read
        cases rs4 with
        | nil => exact hrun4.elim
        | cons r3 rs5 =>
          obtain ⟨a5, hstep3, hrun5⟩ := hrun4
          obtain ⟨rfl, rfl⟩ := read_eval (show (openedSt a2 _ j m .ReadOnly).locked = false from hl2) hfo
            (show volOpen (openedSt a2 _ j m .ReadOnly) v = true from hv2)
            (show ((openedSt a2 _ j m .ReadOnly).slots x)[j]? = some (.file m bytes) by
              show (a2.slots x)[j]? = _; rw [hs2']; exact hsl) hstep3
          -- list
          cases rs5 with
          | nil => exact hrun5.elim
          | cons r4 rs6 =>
            obtain ⟨a6, hstep4, hrun6⟩ := hrun5
            obtain ⟨_, es, rfl, hes⟩ := list_eval (a := { openedSt a2 _ j m .ReadOnly with files := _ })
              (show a2.locked = false from hl2) (od := ⟨walkEnd a.nextId (a.nextId + 1) path, v, x⟩) hd2 hstep4
            cases rs6 with
            | cons _ _ => exact hrun6.elim
            | nil =>
              refine ⟨es, ?_, ?_⟩
              · rw [hrs1, handlesFrom_snoc, handlesFrom_succ]
                simp only [List.cons_append, List.append_assoc, List.nil_append]
                have e : a2.nextId = a.nextId + (path.length + 1) := by omega
                rw [e]
                rfl
              · rw [hes]
                show listing (a2.slots x) = _
                rw [hs2']

end Sdmmc.Lemmas.AbsFsTimes
