/-
Refinement of the API to the abstract file system, part 13a (engine): `make_dir` with everything the
abstraction needs (`makeDir_med_x`): on failure the directories and the files read as before (`SameFs`);
on success the parent's view has the new entry at its first free slot, every other directory and every file
reads as before, and the new directory reads as its two dot entries (`MadeDir`).
-/
import Sdmmc.Lemmas.AbsFsCreate
import Sdmmc.Lemmas.VolApiMkdir3

namespace Sdmmc.Lemmas.AbsFs
open Sdmmc.Model Sdmmc.Model.Fat Sdmmc.Spec.Volume Sdmmc.Lemmas.VolBase Sdmmc.Lemmas.VolTree
open Sdmmc.Spec hiding NoFault Coherent
open Sdmmc.Lemmas.VolDisk Sdmmc.Lemmas.VolMed Sdmmc.Lemmas.VolWalk Sdmmc.Lemmas.VolEng
open Sdmmc.Lemmas.FBasic
open Sdmmc.Lemmas.FatOps hiding BlocksOK Mirror HintOK

/-! ### Directories and files reading the same -/

/-- The directories (slots before the end marker) and the bytes of the files of `(v, d, G)` read the same in
`(v', d', G')`. -/
structure SameFs (files : List FileInfo) (dirs : List (Nat × Nat)) (v : FatVolume) (d : Disk) (G : List (List Nat))
    (v' : FatVolume) (d' : Disk) (G' : List (List Nat)) : Prop where
  ft : v'.fatType = v.fatType
  views : ∀ x, x ∈ dirIds dirs → beforeEnd (dirSlots v' d' G' x) = beforeEnd (dirSlots v d G x)
  bytes : ∀ x, x ∈ dirIds dirs → ∀ o, o ∈ beforeEnd (dirSlots v d G x) → keep o = true → isDirE o = false → ∀ n,
    fileContent v' d' (chainOf G' (effCluster v.fatType files o)) n =
      fileContent v d (chainOf G (effCluster v.fatType files o)) n

theorem SameFs.refl (files : List FileInfo) (dirs : List (Nat × Nat)) (v : FatVolume) (d : Disk) (G : List (List Nat)) :
    SameFs files dirs v d G v d G := ⟨rfl, fun _ _ => rfl, fun _ _ _ _ _ _ _ => rfl⟩

theorem SameFs.trans {files : List FileInfo} {dirs : List (Nat × Nat)} {v v' v'' : FatVolume} {d d' d'' : Disk}
    {G G' G'' : List (List Nat)} (h1 : SameFs files dirs v d G v' d' G') (h2 : SameFs files dirs v' d' G' v'' d'' G'') :
    SameFs files dirs v d G v'' d'' G'' := by
  refine ⟨h2.ft.trans h1.ft, fun x hx => (h2.views x hx).trans (h1.views x hx), ?_⟩
  intro x hx o ho hk hd n
  have := h2.bytes x hx o (by rw [h1.views x hx]; exact ho) hk hd n
  rw [h1.ft] at this
  rw [this, h1.bytes x hx o ho hk hd n]

section
variable {v : FatVolume} {d : Disk} {files : List FileInfo} {gh : Ghost} {X : List (List Nat)}

/-- A medium that agrees on the blocks of the directory slots and of the clusters of the chains. -/
theorem sameFs_of_blocks (hM : MedX v d files gh X) {v' : FatVolume} {d' : Disk} (hsg : SameGeom v v')
    (h1 : ∀ h, h ∈ dirIds gh.dirs → ∀ s, s ∈ dirSlots v d gh.G h → d'.get s.1 = d.get s.1)
    (h2 : ∀ cs, cs ∈ gh.G → ∀ c, c ∈ cs → ∀ j, j < v.blocksPerCluster →
      d'.get (clusterToBlock v c + j) = d.get (clusterToBlock v c + j)) :
    SameFs files gh.dirs v d gh.G v' d' gh.G := by
  refine ⟨hsg.fatType, fun x hx => ?_, ?_⟩
  · rw [dirSlots_sameGeom hsg]
    exact congrArg beforeEnd (dirSlots_congr (h1 x hx))
  · intro x hx o _ _ _ n
    rw [WriteRefines.sameGeom_fileContent hsg]
    apply fileContent_congr'
    intro c hcm j hj
    by_cases hh : effCluster v.fatType files o ∈ heads gh.G
    · exact h2 _ (chainOf_spec (med_heads hM) hh).1 c hcm j hj
    · rw [chainOf_nil hh] at hcm; cases hcm

end

/-! ### The slots of a fresh directory cluster, before the end marker -/

/-- The cluster `make_dir` fills reads as the two dot entries. -/
theorem newDir_view {ft : FatType} {d : Disk} {sb n c dc p : Nat} {now : Timestamp} (hn : 0 < n)
    (h0 : d.get sb = DirMake.dirBlock ft c dc 16 now sb) (hz : ∀ i, i < n - 1 → d.get (sb + 1 + i) = zeroBlock)
    (hc : ClusterFits ft c) (hpe : dirIdOf dc = p) (hp : ClusterFits ft p) :
    beforeEnd (runSlots d sb n) = [(sb, 0, DirEntry.serialize ft (DirMake.dotEntry c 16 now sb)),
      (sb, 32, DirEntry.serialize ft (DirMake.dotdotEntry dc 16 now sb))] := by
  obtain ⟨hlen, hs0, hs1, hrest⟩ := DirMake.dirBlock_facts ft c dc 16 now sb
  generalize hB : DirMake.dirBlock ft c dc 16 now sb = B at h0 hlen hs0 hs1 hrest
  set s0 : Slot := (sb, 32 * 0, (B.drop (32 * 0)).take 32) with hs0d
  set s1 : Slot := (sb, 32 * 1, (B.drop (32 * 1)).take 32) with hs1d
  obtain ⟨rest, hshape, hzero⟩ : ∃ rest, runSlots d sb n = s0 :: s1 :: rest ∧ ∀ t, t ∈ rest → first t = 0 := by
    obtain ⟨m, rfl⟩ : ∃ m, n = 1 + m := ⟨n - 1, by omega⟩
    rw [runSlots_append, runSlots_one, h0]
    refine ⟨((List.range 14).map fun i => ((sb, 32 * (i + 2), (B.drop (32 * (i + 2))).take 32) : Slot)) ++
      runSlots d (sb + 1) m, ?_, ?_⟩
    · unfold blockSlots
      rw [range16]
      rfl
    · intro t ht
      rcases List.mem_append.1 ht with ht | ht
      · obtain ⟨i, hi, rfl⟩ := List.mem_map.1 ht
        rw [List.mem_range] at hi
        show byteAt ((B.drop (32 * (i + 2))).take 32) 0 = 0
        unfold byteAt
        rw [(Listing.slot_bytes B hlen (i + 2) (by omega)).2 0 (by omega), hrest _ (by omega)]
        rfl
      · exact runSlots_zero (fun j hj => hz j (by omega)) t ht
  have e0 : s0 = (sb, 0, DirEntry.serialize ft (DirMake.dotEntry c 16 now sb)) := by
    rw [hs0d, ← hs0]; rfl
  have e1 : s1 = (sb, 32, DirEntry.serialize ft (DirMake.dotdotEntry dc 16 now sb)) := by
    rw [hs1d, ← hs1]; rfl
  have hd0 : IsDot ft Sfn.thisDir c s0 := by
    rw [e0]
    exact isDot_serialize ft (DirMake.dotEntry c 16 now sb) sb 0 rfl rfl rfl hc
  have hd1 : IsDot ft Sfn.parentDir p s1 := by
    rw [e1]
    have hcl : (DirMake.dotdotEntry dc 16 now sb).cluster = p := by
      rw [← hpe]; unfold dirIdOf DirMake.dotdotEntry; rfl
    exact isDot_serialize ft (DirMake.dotdotEntry dc 16 now sb) sb 32 rfl rfl hcl hp
  have hk0 := isDot_keep hd0 thisDir_first
  have hk1 := isDot_keep hd1 parentDir_first
  rw [hshape, beforeEnd_cons_nz _ _ hk0.1, beforeEnd_cons_nz _ _ hk1.1, beforeEnd_zeros rest hzero, e0, e1]

/-! ### The chain list with the new directory's chain -/

section
variable {files : List FileInfo}

/-- What the state after the parent's entry is written looks like over the chain list `G1 ++ [[c]]`: the old
directories have their slot lists, the other chains are the same, `c` is a new directory number, and the new
directory reads as its dot entries. -/
theorem mkdir_child {v1 : FatVolume} {d1 : Disk} {G1 : List (List Nat)} {dirs : List (Nat × Nat)} {c dc : Nat}
    {pre post : List Slot} {old : Slot}
    (hM1 : MedX v1 d1 files { vol := v1, G := G1, dirs := dirs } [[c]]) (hv : ValidDir dirs dc)
    (hsplit : dirSlots v1 d1 G1 (dirIdOf dc) = pre ++ old :: post) (bytes : Bytes) (now : Timestamp)
    (hB0 : d1.get (clusterToBlock v1 c) = DirMake.dirBlock v1.fatType c dc 16 now (clusterToBlock v1 c))
    (hBz : ∀ i, i < v1.blocksPerCluster - 1 → d1.get (clusterToBlock v1 c + 1 + i) = zeroBlock) :
    (∀ x, x ∈ dirIds dirs → ∀ dd : Disk, dirSlots v1 dd (G1 ++ [[c]]) x = dirSlots v1 dd G1 x) ∧
    (∀ e, e ≠ c → chainOf (G1 ++ [[c]]) e = chainOf G1 e) ∧ c ∉ heads G1 ∧ c ∉ dirIds dirs ∧ 2 ≤ c ∧
    c < endCluster v1 ∧ ClusterFits v1.fatType c ∧ ClusterFits v1.fatType (dirIdOf dc) ∧
    beforeEnd (dirSlots v1 (d1.set old.1 (splice (d1.get old.1) old.2.1 bytes)) (G1 ++ [[c]]) c) =
      [(clusterToBlock v1 c, 0, DirEntry.serialize v1.fatType (DirMake.dotEntry c 16 now (clusterToBlock v1 c))),
       (clusterToBlock v1 c, 32, DirEntry.serialize v1.fatType (DirMake.dotdotEntry dc 16 now (clusterToBlock v1 c)))] := by
  obtain ⟨hh, hvd⟩ := validDir_id hM1 hv
  have hh' : dirIdOf dc ∈ dirIds dirs := hh
  have hHall : HeadsOK (G1 ++ [[c]]) := med_headsAll hM1
  have hcmem : [c] ∈ G1 ++ [[c]] := List.mem_append_right _ (List.mem_singleton.2 rfl)
  have hcR : InRange v1 c := ChainL.chain_inRange (hM1.owns.1 [c] hcmem) c (List.mem_singleton.2 rfl)
  have hc2 : 2 ≤ c := hcR.1
  have hcheads : c ∉ heads G1 := by
    have := hHall.nodup
    unfold heads at this
    rw [List.map_append, List.nodup_append] at this
    intro hm
    exact this.2.2 c hm c (List.mem_singleton.2 rfl) rfl
  have hcG : c ∉ G1.flatten := by
    have := hM1.owns.2.1
    rw [List.flatten_append, List.nodup_append] at this
    intro hm
    exact this.2.2 c hm c (by simp) rfl
  have hfitOf : ∀ x, x < endCluster v1 → ClusterFits v1.fatType x := by
    intro x hx
    have := hM1.geom.count_bound
    unfold ClusterFits
    cases hft : v1.fatType <;> rw [hft] at this <;> simp only at this ⊢ <;> omega
  have hfit : ClusterFits v1.fatType c := hfitOf c hcR.2
  have hfitP : ClusterFits v1.fatType (dirIdOf dc) := by
    by_cases hroot : dc = Gen.CLUSTER_ROOT_DIR
    · have : dirIdOf dc = 0 := by unfold dirIdOf; rw [if_pos hroot]
      rw [this]
      unfold ClusterFits
      cases v1.fatType <;> decide
    · obtain ⟨he, _, hlt⟩ := hvd hroot
      rw [he]; exact hfitOf dc hlt
  have hslotsOld : ∀ x, x ∈ dirIds dirs → ∀ dd : Disk, dirSlots v1 dd (G1 ++ [[c]]) x = dirSlots v1 dd G1 x := by
    intro x hx dd
    by_cases hf : isFixedRoot v1 x
    · rw [dirSlots_fixed hf, dirSlots_fixed hf]
    · rw [dirSlots_chain hf, dirSlots_chain hf, chainOf_append_other hHall]
      intro e
      apply hcheads
      have := dirHead_mem hM1 (show x ∈ dirIds ({ vol := v1, G := G1, dirs := dirs } : Ghost).dirs from hx) hf
      rw [e] at this
      exact this
  have hcnot : c ∉ dirIds dirs := by
    intro hm
    rcases mem_dirIds.1 hm with e | ⟨p, hp⟩
    · omega
    · exact hcheads (dir_mem_heads hM1.tree hp)
  refine ⟨hslotsOld, fun e he => chainOf_append_other hHall he, hcheads, hcnot, hc2, hcR.2, hfit, hfitP, ?_⟩
  generalize hd' : d1.set old.1 (splice (d1.get old.1) old.2.1 bytes) = d'
  have hold_mem : old ∈ dirSlots v1 d1 G1 (dirIdOf dc) := by rw [hsplit]; simp
  have hslotC : dirSlots v1 d' (G1 ++ [[c]]) c = runSlots d' (clusterToBlock v1 c) v1.blocksPerCluster := by
    unfold dirSlots
    rw [if_neg (by omega), chainOf_of_mem hHall hcmem rfl, VolDisk.chainSlots_cons, VolDisk.chainSlots_nil, List.append_nil]
  have hblkC : ∀ j, j < v1.blocksPerCluster → d'.get (clusterToBlock v1 c + j) = d1.get (clusterToBlock v1 c + j) := by
    intro j hj
    rw [← hd']
    exact Disk.get_set_ne _ _ _ _ (dirSlot_not_cluster hM1 hh hold_mem hcR hcG hj)
  have hpos := hM1.geom.bpc_pos
  have hB0' : d'.get (clusterToBlock v1 c) = DirMake.dirBlock v1.fatType c dc 16 now (clusterToBlock v1 c) := by
    have := hblkC 0 hpos
    rw [Nat.add_zero] at this
    rw [this, hB0]
  have hBz' : ∀ i, i < v1.blocksPerCluster - 1 → d'.get (clusterToBlock v1 c + 1 + i) = zeroBlock := by
    intro i hi
    have := hblkC (1 + i) (by omega)
    rw [← Nat.add_assoc] at this
    rw [this, hBz i hi]
  rw [hslotC]
  exact newDir_view hpos hB0' hBz' hfit rfl hfitP

/-- **The outcome of a successful `make_dir`**, for the abstraction. -/
structure MadeDir (files : List FileInfo) (gh : Ghost) (fs fs' : FS) (dc : Nat) (sfn : Bytes) (now : Timestamp) (c : Nat)
    (G1 : List (List Nat)) (pre post : List Slot) (old : Slot) : Prop where
  med : MedX fs'.vol fs'.dev.disk files { vol := fs'.vol, G := G1 ++ [[c]], dirs := gh.dirs ++ [(c, dirIdOf dc)] } []
  fresh : c ∉ dirIds gh.dirs
  two : 2 ≤ c
  lt : c < endCluster fs'.vol
  fits : ClusterFits fs'.vol.fatType c
  fitsP : ClusterFits fs'.vol.fatType (dirIdOf dc)
  pre_nz : ∀ t, t ∈ pre → first t ≠ 0
  pre_ne5 : ∀ t, t ∈ pre → first t ≠ 0xE5
  free : freeSlot old
  splitview : beforeEnd (pre ++ old :: post) = beforeEnd (dirSlots fs.vol fs.dev.disk gh.G (dirIdOf dc))
  idx5 : first old = 0xE5 → (beforeEnd (dirSlots fs.vol fs.dev.disk gh.G (dirIdOf dc)))[pre.length]? = some old
  idx0 : first old = 0 → (beforeEnd (dirSlots fs.vol fs.dev.disk gh.G (dirIdOf dc))).length = pre.length
  parent : beforeEnd (dirSlots fs'.vol fs'.dev.disk (G1 ++ [[c]]) (dirIdOf dc)) =
    putL (beforeEnd (dirSlots fs.vol fs.dev.disk gh.G (dirIdOf dc))) pre.length
      (old.1, old.2.1, DirEntry.serialize fs'.vol.fatType (DirEntry.new sfn 16 c now old.1 old.2.1))
  others : ∀ x, x ∈ dirIds gh.dirs → x ≠ dirIdOf dc →
    beforeEnd (dirSlots fs'.vol fs'.dev.disk (G1 ++ [[c]]) x) = beforeEnd (dirSlots fs.vol fs.dev.disk gh.G x)
  bytes : ∀ x, x ∈ dirIds gh.dirs → ∀ o, o ∈ beforeEnd (dirSlots fs.vol fs.dev.disk gh.G x) → keep o = true → isDirE o = false →
    ∀ n, fileContent fs'.vol fs'.dev.disk (chainOf (G1 ++ [[c]]) (effCluster fs.vol.fatType files o)) n =
      fileContent fs.vol fs.dev.disk (chainOf gh.G (effCluster fs.vol.fatType files o)) n
  child : beforeEnd (dirSlots fs'.vol fs'.dev.disk (G1 ++ [[c]]) c) =
    [(clusterToBlock fs'.vol c, 0, DirEntry.serialize fs'.vol.fatType (DirMake.dotEntry c 16 now (clusterToBlock fs'.vol c))),
     (clusterToBlock fs'.vol c, 32, DirEntry.serialize fs'.vol.fatType (DirMake.dotdotEntry dc 16 now (clusterToBlock fs'.vol c)))]

/-- **`make_dir(parent, name, DIRECTORY)`** for a name the directory does not hold, with the facts the
abstraction needs: either `NotEnoughSpace` (before or after the allocation; the directories and the files read
as before), or the directory is made (`MadeDir`). -/
theorem makeDir_med_x {gh : Ghost} {fs : FS} (hM : MedX fs.vol fs.dev.disk files gh []) (hn : NoFault fs) (hc : Coherent fs)
    {dc : Nat} (hv : ValidDir gh.dirs dc) (sfn : Bytes) (hlen : sfn.length = 11) (h0 : byteAt sfn 0 ≠ 0)
    (hE5 : byteAt sfn 0 ≠ 0xE5)
    (hfresh : sfn ∉ (entries (dirSlots fs.vol fs.dev.disk gh.G (dirIdOf dc))).map sName) (now : Timestamp) :
    ∃ r fs', makeDir dc sfn Gen.ATTR_DIRECTORY now fs = (r, fs') ∧ NoFault fs' ∧ Coherent fs' ∧ SameGeom fs.vol fs'.vol ∧
      ((r = .err .NotEnoughSpace ∧ MedX fs'.vol fs'.dev.disk files { vol := fs'.vol, G := gh.G, dirs := gh.dirs } [] ∧
          SameFs files gh.dirs fs.vol fs.dev.disk gh.G fs'.vol fs'.dev.disk gh.G) ∨
       (r = .ok () ∧ ∃ c G1 pre post old, MadeDir files gh fs fs' dc sfn now c G1 pre post old)) := by
  show ∃ r fs', makeDir dc sfn 16 now fs = (r, fs') ∧ _
  rcases ForestAlloc.alloc_total fs none false hn hc with ⟨c, fs1, ha⟩ | ⟨s', ha, hd, hv', hn', hc'⟩
  swap
  · -- the volume is full: nothing happened
    refine ⟨.err .NotEnoughSpace, s', ?_, hn', hc', SameGeom.of_eq hv', .inl ⟨rfl, ?_, ?_⟩⟩
    · unfold makeDir; rw [bind_err ha]
    · rw [hd, hv']; exact medX_of_ghost hM rfl rfl
    · rw [hd, hv']; exact SameFs.refl _ _ _ _ _
  -- 1. the allocation
  have hr : Ready fs := ⟨hn, hc, hM.blocksOK, hM.geom, hM.hint⟩
  have ho : Owns fs.vol fs.dev.disk gh.G := by have := hM.owns; rwa [List.append_nil] at this
  have hG := med_heads hM
  obtain ⟨hr1, ho1, hsg, _, _⟩ := ForestStep.owns_newChain fs fs1 gh.G false c hr ho ha
  obtain ⟨hcR, _, _, hcG', _⟩ := ForestFinal.alloc_never_returns_used fs fs1 none false c hn hc hM.hint ha
  have hcG : c ∉ gh.G.flatten := hcG' _ ho
  have hpp : ∀ p, (none : Option Nat) = some p → p < endCluster fs.vol := fun p hp => by cases hp
  obtain ⟨hk1, hk2⟩ := alloc_keeps_blocks hn hc hM.blocksOK hM.geom hM.hint hpp ha
  have hblocks1 := dir_blocks_keep hM hcG hk1 hk2
  have hmemOf : ∀ (f : FileInfo) (Y : List (List Nat)),
      chainOf gh.G f.entry.cluster = [] ∨ chainOf gh.G f.entry.cluster ∈ gh.G ++ Y := by
    intro f Y
    by_cases hnil : chainOf gh.G f.entry.cluster = []
    · exact .inl hnil
    · exact .inr (List.mem_append_left _ (chainOf_spec hG ((chainOf_ne_nil_iff hG).1 hnil)).1)
  have hM1 : MedX fs1.vol fs1.dev.disk files { vol := fs1.vol, G := gh.G, dirs := gh.dirs } [[c]] :=
    medX_fat_update hM hsg hr1.hint hr1.blocksOK (G' := gh.G) (X' := [[c]]) ho1 (fun _ _ _ => rfl) hblocks1 rfl hM.tree
      (fun f hf => ⟨fileOK_of_owns hsg (hM.fileOK f hf).1 ho1 (hmemOf f _), (hM.fileOK f hf).2⟩)
  have hF1 : SameFs files gh.dirs fs.vol fs.dev.disk gh.G fs1.vol fs1.dev.disk gh.G :=
    sameFs_of_blocks hM hsg hblocks1 fun cs hcs c' hc' j hj => by
      have hr' := med_inRange hM hcs hc'
      exact hk1 c' j hr'.1 hr'.2 (fun e => hcG (e ▸ List.mem_flatten_of_mem hcs hc')) hj
  have hsl1 : ∀ h, h ∈ dirIds gh.dirs → dirSlots fs1.vol fs1.dev.disk gh.G h = dirSlots fs.vol fs.dev.disk gh.G h := by
    intro h hh
    rw [dirSlots_sameGeom hsg]
    exact dirSlots_congr (hblocks1 h hh)
  have hcR1 : InRange fs1.vol c := (hsg.inRange c).2 hcR
  -- 2. the blocks of the new cluster
  obtain ⟨fs4, hn4, hc4, hv4, hd4, hsteps⟩ := makeDir_steps dc sfn 16 now ha hr1.noFault
  have hpos : 0 < fs1.vol.blocksPerCluster := hr1.geom.bpc_pos
  have hb4 : BlocksOK fs4.dev.disk := by
    intro i
    rw [hd4 i]
    split
    · exact zeroBlock_length
    · split
      · exact (DirMake.dirBlock_facts _ _ _ _ _ _).1
      · exact hr1.blocksOK i
  have hsame4 : ∀ i, (∀ j, j < fs1.vol.blocksPerCluster → i ≠ clusterToBlock fs1.vol c + j) →
      fs4.dev.disk.get i = fs1.dev.disk.get i := by
    intro i hi
    rw [hd4 i, if_neg, if_neg]
    · intro e
      exact hi 0 hpos (by omega)
    · rintro ⟨h1, h2⟩
      exact hi (i - clusterToBlock fs1.vol c) (by omega) (by omega)
  obtain ⟨hM4', hsl4⟩ := medX_cluster_write hM1 hcR1 hcG hb4 hsame4
  have hM4 : MedX fs4.vol fs4.dev.disk files { vol := fs1.vol, G := gh.G, dirs := gh.dirs } [[c]] := by
    rw [hv4]; exact hM4'
  have hF4 : SameFs files gh.dirs fs1.vol fs1.dev.disk gh.G fs4.vol fs4.dev.disk gh.G :=
    sameFs_of_blocks hM1 (SameGeom.of_eq hv4)
      (fun h hh s hs => hsame4 _ fun j hj => dirSlot_not_cluster hM1 hh hs hcR1 hcG hj)
      fun cs hcs c' hc' j hj => hsame4 _ fun j' hj' e => by
        have hr' := med_inRange hM1 (show cs ∈ ({ vol := fs1.vol, G := gh.G, dirs := gh.dirs } : Ghost).G from hcs) hc'
        have := FatLens.cluster_blocks_disjoint_of_lt fs1.vol hM1.geom c' c j j' hr'.1 hcR1.1 hr'.2 hcR1.2 hj hj' e
        exact hcG (this.1 ▸ List.mem_flatten_of_mem hcs hc')
  have hF14 := hF1.trans hF4
  have hB0 : fs4.dev.disk.get (clusterToBlock fs1.vol c) =
      DirMake.dirBlock fs1.vol.fatType c dc 16 now (clusterToBlock fs1.vol c) := by
    rw [hd4, if_neg (by omega), if_pos rfl]
  have hBz : ∀ i, i < fs1.vol.blocksPerCluster - 1 → fs4.dev.disk.get (clusterToBlock fs1.vol c + 1 + i) = zeroBlock := by
    intro i hi
    rw [hd4, if_pos ⟨by omega, by omega⟩]
  -- 3. the entry in the parent
  obtain ⟨hh, _⟩ := validDir_id hM hv
  obtain ⟨r, fs5, hrun, hn5, hc5, hcase⟩ :=
    writeNew_stage_x hM4 hn4 hc4 (show ValidDir ({ vol := fs1.vol, G := gh.G, dirs := gh.dirs } : Ghost).dirs dc from hv) sfn 16 c now
  obtain ⟨hok, herr⟩ := hsteps r fs5 hrun
  rcases hcase with ⟨hre, hd5, hv5⟩ | ⟨v1, d1, G1, pre, post, old, hS, hre, hd', hview1, hpre5⟩
  · -- no room for the entry: the cluster is given back
    have hM5 : MedX fs5.vol fs5.dev.disk files { vol := fs1.vol, G := gh.G, dirs := gh.dirs } [[c]] := by
      rw [hd5, hv5]; exact hM4
    have hr5 : Ready fs5 := ⟨hn5, hc5, hM5.blocksOK, hM5.geom, hM5.hint⟩
    have ho5 : Owns fs5.vol fs5.dev.disk (gh.G ++ [c :: []] ++ []) := by rw [List.append_nil]; exact hM5.owns
    obtain ⟨s6, hf, hr6, ho6, hsg6, _, _⟩ := ForestStep.owns_free fs5 gh.G [] c [] hr5 ho5
    have hch : Chain fs5.vol fs5.dev.disk c [c] :=
      hM5.owns.1 [c] (List.mem_append_right _ (List.mem_singleton.2 rfl))
    obtain ⟨s6', hf', _, _, _, _, _, hfr⟩ := ForestTrunc.free_spec fs5 c [] hn5 hc5 hM5.blocksOK hM5.geom hch
    have hs6 : s6' = s6 := by
      rw [hf] at hf'
      exact (congrArg Prod.snd hf').symm
    subst hs6
    have ho6' : Owns s6'.vol s6'.dev.disk (gh.G ++ []) := by
      have := ho6
      rwa [List.append_nil] at this
    have hM6 : MedX s6'.vol s6'.dev.disk files { vol := s6'.vol, G := gh.G, dirs := gh.dirs } [] :=
      medX_fat_update hM5 hsg6 hr6.hint hr6.blocksOK (G' := gh.G) (X' := []) ho6' (fun _ _ _ => rfl)
        (fun h hh' s hs => hfr.nonFat _ (by
          rcases dirSlot_not_fat hM5 hh' hs with h1 | h1 <;> rw [h1] <;> intro e <;> cases e))
        rfl hM5.tree
        (fun f hf => ⟨fileOK_of_owns hsg6 (hM5.fileOK f hf).1 ho6' (hmemOf f _), (hM5.fileOK f hf).2⟩)
    have hF5 : SameFs files gh.dirs fs4.vol fs4.dev.disk gh.G fs5.vol fs5.dev.disk gh.G := by
      rw [hd5, hv5]; exact SameFs.refl _ _ _ _ _
    have hF6 : SameFs files gh.dirs fs5.vol fs5.dev.disk gh.G s6'.vol s6'.dev.disk gh.G :=
      sameFs_of_blocks hM5 hsg6
        (fun h hh' s hs => hfr.nonFat _ (by
          rcases dirSlot_not_fat hM5 hh' hs with h1 | h1 <;> rw [h1] <;> intro e <;> cases e))
        fun cs hcs c' hc' j hj => hfr.nonFat _ (by
          have hr' := med_inRange hM5 (show cs ∈ ({ vol := fs1.vol, G := gh.G, dirs := gh.dirs } : Ghost).G from hcs) hc'
          rw [FatLens.cluster_blocks_in_data_region fs5.vol hM5.geom c' j hr'.1 hr'.2 hj]
          intro e; cases e)
    refine ⟨.err .NotEnoughSpace, s6', ?_, hr6.noFault, hr6.coherent,
      hsg.trans ((SameGeom.of_eq (hv5.trans hv4)).trans hsg6), .inl ⟨rfl, hM6, hF14.trans (hF5.trans hF6)⟩⟩
    rw [herr _ hre, hf]
  · -- the entry is written
    have hsgS := hS.sameGeom
    have hctb : clusterToBlock v1 c = clusterToBlock fs1.vol c := by
      rw [WriteRefines.sameGeom_clusterToBlock hsgS, hv4]
    have hbpc : v1.blocksPerCluster = fs1.vol.blocksPerCluster := by rw [WriteRefines.sameGeom_bpc hsgS, hv4]
    have hft : v1.fatType = fs1.vol.fatType := by rw [hsgS.fatType, hv4]
    have hextra : ∀ j, j < fs1.vol.blocksPerCluster →
        d1.get (clusterToBlock fs1.vol c + j) = fs4.dev.disk.get (clusterToBlock fs1.vol c + j) := by
      intro j hj
      have := hS.extra_blocks c j hcR1.1 (by rw [hv4]; exact hcR1.2)
        ⟨[c], List.mem_append_right _ (List.mem_singleton.2 rfl), List.mem_singleton.2 rfl⟩ (by rw [hv4]; exact hj)
      rw [hv4] at this
      exact this
    have hfresh1 : sfn ∉ (entries (dirSlots v1 d1 G1 (dirIdOf dc))).map sName := by
      rw [hS.entries_eq _ hh, hv4, hsl4 _ hh, hsl1 _ hh]
      exact hfresh
    have hB0' : d1.get (clusterToBlock v1 c) = DirMake.dirBlock v1.fatType c dc 16 now (clusterToBlock v1 c) := by
      rw [hctb, hft]
      have := hextra 0 hpos
      rw [Nat.add_zero] at this
      rw [this, hB0]
    have hBz' : ∀ i, i < v1.blocksPerCluster - 1 → d1.get (clusterToBlock v1 c + 1 + i) = zeroBlock := by
      intro i hi
      rw [hbpc] at hi
      rw [hctb]
      have := hextra (1 + i) (by omega)
      rw [← Nat.add_assoc] at this
      rw [this, hBz i hi]
    have hfin := mkdir_finish hS.med hv hS.split hS.pre_nz hS.pre_len hS.free sfn hlen h0 hE5 hfresh1 now hB0' hBz'
    generalize hbytes : DirEntry.serialize v1.fatType (DirEntry.new sfn 16 c now old.1 old.2.1) = bytes at hfin hd'
    obtain ⟨hslotsOld, hchOther, hcheads, hcnot, hc2, hcE, hfit, hfitP, hchild⟩ :=
      mkdir_child hS.med hv hS.split bytes now hB0' hBz'
    have hbl : bytes.length = 32 := by
      rw [← hbytes]
      exact (new_entry_slot v1.fatType sfn 16 c now old.1 old.2.1 hlen (by decide) hfit).1
    have hnz : first (old.1, old.2.1, bytes) ≠ 0 := by
      rw [← hbytes, (new_entry_slot v1.fatType sfn 16 c now old.1 old.2.1 hlen (by decide) hfit).2.1]
      exact h0
    obtain ⟨hv_h, hv_o, hbytes_same, hidx5, hidx0⟩ :=
      new_entry_views hM4 (show dirIdOf dc ∈ dirIds ({ vol := fs1.vol, G := gh.G, dirs := gh.dirs } : Ghost).dirs from hh)
        hS hview1 bytes hbl hnz hd'
    have hvol5 : fs5.vol = v1 := hS.vol'
    have hft4 : fs4.vol.fatType = fs.vol.fatType := hF14.ft
    refine ⟨.ok (), fs5, hok _ hre, hn5, hc5,
      hsg.trans ((SameGeom.of_eq hv4).trans (hsgS.trans (SameGeom.of_eq hS.vol'))), .inr ⟨rfl, c, G1, pre, post, old, ?_⟩⟩
    refine ⟨by rw [hvol5, hd']; exact hfin, hcnot, hc2, by rw [hvol5]; exact hcE, by rw [hvol5]; exact hfit, by rw [hvol5]; exact hfitP, hS.pre_nz, hpre5, hS.free, ?_, ?_, ?_, ?_, ?_, ?_, ?_⟩
    all_goals (try rw [hvol5])
    · rw [← hS.split, hview1 _ hh]; exact hF14.views _ hh
    · intro h5; rw [← hF14.views _ hh]; exact hidx5 h5
    · intro h0'; rw [← hF14.views _ hh]; exact hidx0 h0'
    · rw [hslotsOld _ hh, hv_h, hF14.views _ hh, hbytes]
    · intro x hx hne
      rw [hslotsOld _ hx, hv_o x hx hne, hF14.views _ hx]
    · intro x hx o ho hk hod n
      have ho4 : o ∈ beforeEnd (dirSlots fs4.vol fs4.dev.disk gh.G x) := by rw [hF14.views _ hx]; exact ho
      have hne : effCluster fs.vol.fatType files o ≠ c := by
        intro e
        by_cases hc0 : effCluster fs.vol.fatType files o = 0
        · omega
        · have hobj := view_object hM hx ho hk hod
          have := fileRef_mem_heads hM.tree hx hobj hod hc0
          rw [e, ← hS.heads_eq] at this
          exact hcheads this
      rw [hchOther _ hne]
      have := hbytes_same x hx o ho4 hk hod n
      rw [hft4] at this
      rw [this]
      exact hF14.bytes x hx o ho hk hod n
    · rw [hd']; exact hchild

end

end Sdmmc.Lemmas.AbsFs
