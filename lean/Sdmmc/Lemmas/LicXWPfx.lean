/-
C11 without `Mirror`: THE DEVICE WRITES OF A FAILED `write` ARE A PREFIX OF THE WRITES OF THE FAULT-FREE `write`.

`MPw m` — the weakening of `FaultPre.MPre` that `write` satisfies: if no device call of `m s` failed the run IS the run
from `mclr s` (`MAgree`); a failure is reported as SOME error (`FaultReported`: `write` turns a failed `alloc_cluster` into
`DiskFull`); and the device writes of `m s` are a prefix of those of the run from `mclr s` (`pfx`).  Compositional
(`MPw.bind`, `MPw.attempt_bind_err`, `MPw.attempt_bind_inner` for the inner-outcome form of `find_data_on_disk`).
-/
import Sdmmc.Lemmas.FaultMPre
import Sdmmc.Lemmas.FaultHistErase
import Sdmmc.Lemmas.FaultApi

namespace Sdmmc.Lemmas.VolX.Lic
open Sdmmc.Model Sdmmc.Model.Fat Sdmmc.Spec Sdmmc.Lemmas.Fault Sdmmc.Lemmas.Retry Sdmmc.Lemmas.CrashBase Sdmmc.Lemmas.FaultPre

/-- The device writes of the run from `s` are a prefix of those of the run from `mclr s`. -/
def WPfx {α} (m : M α) : Prop :=
  ∀ s, ∃ wa wb, Trace (mfs s) (mfs (m s).2) wa ∧ Trace (mfs (mclr s)) (mfs (m (mclr s)).2) (wa ++ wb)

structure MPw {α} (m : M α) : Prop where
  agree : MAgree m
  rep : FaultReported m
  pfx : WPfx m

theorem MPw.of_mpre {α} {m : M α} (h : MPre m) : MPw m := by
  refine ⟨FaultHist.MPre.magree h, fun s hne => ⟨_, ((h s).2.2.2 hne).1⟩, fun s => ?_⟩
  obtain ⟨⟨ws, ht⟩, _, hag, hhit⟩ := h s
  by_cases hq : (m s).2.dev.failed = s.dev.failed
  · refine ⟨ws, [], ht, ?_⟩
    rw [hag hq, List.append_nil]
    exact mtrace_clr ht
  · obtain ⟨_, wa, wb, hta, htb, _⟩ := hhit hq
    exact ⟨wa, wb, hta, htb⟩

theorem MPw.of_nodev {α} {m : M α} (h : ∀ s, (m s).2.dev = s.dev ∧ m (mclr s) = ((m s).1, mclr (m s).2)) : MPw m :=
  .of_mpre (MPre.of_nodev h)

theorem MPw.pure {α} (a : α) : MPw (pure a : M α) := .of_mpre (MPre.pure a)
theorem MPw.lift {α} (r : Res α) : MPw (M.lift r) := .of_mpre (MPre.lift r)
theorem MPw.fail {α} (e : Err) : MPw (M.fail e : M α) := .of_mpre (MPre.fail e)

/-- The trace of a run. -/
theorem MPw.trace {α} {m : M α} (h : MPw m) (s : Mgr) : ∃ ws, Trace (mfs s) (mfs (m s).2) ws :=
  let ⟨wa, _, h1, _⟩ := h.pfx s
  ⟨wa, h1⟩

theorem MPw.bind {α β} {m : M α} {f : α → M β} (hm : MPw m) (hf : ∀ a, MPw (f a)) : MPw (m >>= f) := by
  refine ⟨MAgree.bind hm.agree fun a => (hf a).agree, FaultReported.bind hm.rep fun a => (hf a).rep, fun s => ?_⟩
  obtain ⟨wa1, wb1, hta1, htb1⟩ := hm.pfx s
  rcases hr : m s with ⟨r, s'⟩
  rw [hr] at hta1
  simp only at hta1
  by_cases hq : s'.dev.failed = s.dev.failed
  · have hm0 : m (mclr s) = (r, mclr s') := by
      have := (hm.agree s).2 (by rw [hr]; exact hq)
      rw [hr] at this; exact this
    cases r with
    | ok a =>
      obtain ⟨wa2, wb2, hta2, htb2⟩ := (hf a).pfx s'
      rw [M.bind_ok hr, M.bind_ok hm0]
      refine ⟨wa1 ++ wa2, wb2, hta1.trans hta2, ?_⟩
      rw [List.append_assoc]; exact (mtrace_clr hta1).trans htb2
    | err e =>
      rw [M.bind_err hr, M.bind_err hm0]
      exact ⟨wa1, [], hta1, by rw [List.append_nil]; exact mtrace_clr hta1⟩
    | panic msg =>
      rw [M.bind_panic hr, M.bind_panic hm0]
      exact ⟨wa1, [], hta1, by rw [List.append_nil]; exact mtrace_clr hta1⟩
    | diverged =>
      rw [M.bind_diverged hr, M.bind_diverged hm0]
      exact ⟨wa1, [], hta1, by rw [List.append_nil]; exact mtrace_clr hta1⟩
  · obtain ⟨e, he⟩ := hm.rep s (by rw [hr]; exact hq)
    rw [hr] at he
    simp only at he
    subst he
    rw [M.bind_err hr]
    rcases hr0 : m (mclr s) with ⟨r0, u0⟩
    rw [hr0] at htb1
    simp only at htb1
    cases r0 with
    | ok a =>
      obtain ⟨ws2, ht2⟩ := (hf a).trace u0
      rw [M.bind_ok hr0]
      refine ⟨wa1, wb1 ++ ws2, hta1, ?_⟩
      rw [← List.append_assoc]; exact htb1.trans ht2
    | err e => rw [M.bind_err hr0]; exact ⟨wa1, wb1, hta1, htb1⟩
    | panic msg => rw [M.bind_panic hr0]; exact ⟨wa1, wb1, hta1, htb1⟩
    | diverged => rw [M.bind_diverged hr0]; exact ⟨wa1, wb1, hta1, htb1⟩

/-- The `match`-on-the-outcome pattern, general form: `P` describes the outcome of `m` after a device failure; the arm
taken then answers an error and changes nothing. -/
theorem MPw.attempt_bind_gen {α β} {m : M α} {k : Res α → M β} (P : Res α → Prop) (hma : MAgree m) (hmp : WPfx m)
    (hm : ∀ s, (m s).2.dev.failed ≠ s.dev.failed → P (m s).1)
    (hk : ∀ r, MPw (k r)) (hP : ∀ r, P r → ∀ s, ∃ e, k r s = (.err e, s)) : MPw (M.attempt m >>= k) := by
  refine ⟨MAgree.bind (MAgree.attempt hma) fun r => (hk r).agree,
    FaultReported.attempt_bind_gen P hm (fun r => (hk r).rep) (fun r hr s => let ⟨e, he⟩ := hP r hr s; ⟨e, by rw [he]⟩),
    fun s => ?_⟩
  obtain ⟨wa1, wb1, hta1, htb1⟩ := hmp s
  rw [M.attempt_bind_apply, M.attempt_bind_apply]
  by_cases hq : (m s).2.dev.failed = s.dev.failed
  · have hm0 := (hma s).2 hq
    obtain ⟨wa2, wb2, hta2, htb2⟩ := (hk (m s).1).pfx (m s).2
    rw [hm0]
    refine ⟨wa1 ++ wa2, wb2, hta1.trans hta2, ?_⟩
    rw [List.append_assoc]; exact (mtrace_clr hta1).trans htb2
  · obtain ⟨e, he⟩ := hP _ (hm s hq) (m s).2
    rw [he]
    obtain ⟨ws2, ht2⟩ := (hk (m (mclr s)).1).trace (m (mclr s)).2
    refine ⟨wa1, wb1 ++ ws2, hta1, ?_⟩
    rw [← List.append_assoc]; exact htb1.trans ht2

/-- … when `m` reports a device failure as an error (`alloc_cluster`). -/
theorem MPw.attempt_bind_err {α β} {m : M α} {k : Res α → M β} (hm : MPw m) (hk : ∀ r, MPw (k r))
    (hdev : ∀ e s, ∃ e', k (.err e) s = (.err e', s)) : MPw (M.attempt m >>= k) :=
  .attempt_bind_gen (fun r => ∃ e, r = .err e) hm.agree hm.pfx hm.rep hk (fun _ ⟨e, hr⟩ => hr ▸ hdev e)

/-- … when `m` hands a device failure on as an inner outcome and writes nothing (`find_data_on_disk`). -/
theorem MPw.attempt_bind_inner {σ γ β} {m : M (σ × Res γ)} {k : Res (σ × Res γ) → M β} (hma : MAgree m) (hin : MInner m)
    (hro : ∀ s, (m s).2.dev.wlog = s.dev.wlog ∧ (m s).2.dev.disk = s.dev.disk) (hk : ∀ r, MPw (k r))
    (hdev : ∀ st s, ∃ e, k (.ok (st, .err .DeviceError)) s = (.err e, s)) : MPw (M.attempt m >>= k) := by
  refine .attempt_bind_gen (fun r => ∃ st, r = .ok (st, .err .DeviceError)) hma (fun s => ?_) hin hk
    (fun _ ⟨st, hr⟩ => hr ▸ hdev st)
  exact ⟨[], [], Trace.same (hro s).1 (hro s).2, Trace.same (hro (mclr s)).1 (hro (mclr s)).2⟩

end Sdmmc.Lemmas.VolX.Lic
