/-
C16 at the API level, part 7 — a session on a mounted FAT32 volume, first phase: what every
history of data-plane calls keeps of the free-space accounting (`Track`): the accounting relation
against the mounted record and medium, the blocks mounting reads, the info sector, and the static
part of every open file's record (where its directory slot is).
-/
import Sdmmc.Lemmas.AcctInfo
import Sdmmc.Lemmas.WriteRefinesHist

namespace Sdmmc.Lemmas.Acct
open Sdmmc.Model Sdmmc.Model.Fat Sdmmc.Spec Sdmmc.Spec.DataPlane
open Sdmmc.Lemmas.FBasic hiding NoFault Coherent
open Sdmmc.Lemmas.FatOps hiding BlocksOK Mirror HintOK
open Sdmmc.Lemmas.ChainL Sdmmc.Lemmas.ForestBase Sdmmc.Lemmas.ForestCount Sdmmc.Lemmas.ReadRefines
open Sdmmc.Lemmas.WriteRefines

/-! ### Geometry -/

theorem sameGeom_trans {u v w : FatVolume} (h1 : SameGeom u v) (h2 : SameGeom v w) : SameGeom u w := by
  obtain ⟨a, b, rfl⟩ := h1; obtain ⟨c, d, rfl⟩ := h2; exact ⟨c, d, rfl⟩
theorem sameGeom_symm {v w : FatVolume} (h : SameGeom v w) : SameGeom w v := by
  obtain ⟨a, b, rfl⟩ := h; exact ⟨v.freeClustersCount, v.nextFreeCluster, rfl⟩
theorem sameGeom_regionOf {v w : FatVolume} (h : SameGeom v w) (b : Nat) : regionOf w b = regionOf v b := by
  obtain ⟨a, c, rfl⟩ := h; rfl
theorem sameGeom_lbaStart {v w : FatVolume} (h : SameGeom v w) : w.lbaStart = v.lbaStart := by
  obtain ⟨a, c, rfl⟩ := h; rfl
theorem sameGeom_infoLocation {v w : FatVolume} (h : SameGeom v w) : w.infoLocation = v.infoLocation := by
  obtain ⟨a, c, rfl⟩ := h; rfl
theorem sameGeom_fatType {v w : FatVolume} (h : SameGeom v w) : w.fatType = v.fatType := by
  obtain ⟨a, c, rfl⟩ := h; rfl

/-- What a `write` does not touch: everything outside the FAT and the data area. -/
theorem touch_frame {v : FatVolume} {cs' : List Nat} {dv dv' : Dev} (hg : WFGeom v) (ht : Touch v cs' dv dv')
    (hcs' : ∀ x, x ∈ cs' → InRange v x) (b : Nat) (h1 : regionOf v b ≠ .fat) (h2 : regionOf v b ≠ .data) :
    dv'.disk.get b = dv.disk.get b :=
  ht.disk b (fun hf => h1 (isFatBlock_region hg hf)) (fun hc => h2 (isClusterBlock_region hg hcs' hc))

theorem info_region {w : FatVolume} (hg : WFGeom w) (h32 : w.fatType = .fat32) : regionOf w w.infoLocation = .info :=
  FatLens.info_block_in_info_region w hg h32 (Reopen.fatStart_le_numBlocks w hg)

theorem low_region {w : FatVolume} {b : Nat} (h : b ≤ w.lbaStart) : regionOf w b ≠ .fat ∧ regionOf w b ≠ .data ∧ regionOf w b ≠ .root ∧ regionOf w b ≠ .info := by
  rcases Reopen.region_at_or_before_boot w b h with e | e <;> rw [e] <;> refine ⟨?_, ?_, ?_, ?_⟩ <;> intro x <;> cases x

/-! ### The tracked facts -/

/-- The directory slot of an open file: the file belongs to volume `vol`; the slot lies inside its
block, the name has its 11 bytes, and the block is a directory block (data area or FAT16 root
region). -/
structure SlotOK (w : FatVolume) (vol : Nat) (f : FileInfo) : Prop where
  vol : f.rawVolume = vol
  off : f.entry.entryOffset + 32 ≤ 512
  name : f.entry.name.length = 11
  region : regionOf w f.entry.entryBlock = .data ∨ regionOf w f.entry.entryBlock = .root

/-- The part of a file record no data-plane call changes. -/
def SameSlot (f f' : FileInfo) : Prop :=
  f'.rawVolume = f.rawVolume ∧ f'.entry.entryBlock = f.entry.entryBlock ∧ f'.entry.entryOffset = f.entry.entryOffset ∧
  f'.entry.name = f.entry.name

theorem slotOK_of_same {w : FatVolume} {vol : Nat} {f f' : FileInfo} (h : SlotOK w vol f) (hs : SameSlot f f') : SlotOK w vol f' := by
  obtain ⟨h1, h2, h3, h4⟩ := hs
  exact ⟨by rw [h1]; exact h.vol, by rw [h3]; exact h.off, by rw [h4]; exact h.name, by rw [h2]; exact h.region⟩

theorem slots_set {P : FileInfo → Prop} {l : List FileInfo} {i : Nat} {f' : FileInfo} (hl : ∀ g, g ∈ l → P g) (hf : P f') :
    ∀ g, g ∈ l.set i f' → P g := by
  intro g hg
  rcases List.mem_or_eq_of_mem_set hg with h | h
  · exact hl g h
  · rw [h]; exact hf

/-- The info sector during a session in which `k` clusters were taken so far: it reads (signatures
intact) as a pair whose count is unknown if the mounted count was, and whose hint is the mounted
hint — for sure as long as nothing was allocated — or a data cluster of the volume. -/
structure InfoInv (w : FatVolume) (b : Block) (k : Nat) : Prop where
  len : b.length = 512
  parse : ∃ fc nf, Info.parse b = .ok (fc, nf) ∧ (w.freeClustersCount = none → fc = none) ∧
    (k = 0 → nf = w.nextFreeCluster) ∧ (nf = w.nextFreeCluster ∨ HintIn w nf)

theorem InfoInv.mono {w : FatVolume} {b : Block} {k : Nat} (h : InfoInv w b k) (j : Nat) : InfoInv w b (k + j) := by
  obtain ⟨fc, nf, h1, h2, h3, h4⟩ := h.parse
  exact ⟨h.len, fc, nf, h1, h2, fun hk => h3 (by omega), h4⟩

/-- **What a session keeps**, relative to the record `w` mounting gave and the medium `d0` it was
mounted from; `k` is the number of clusters taken so far. -/
structure Track (w : FatVolume) (d0 : Disk) (vol : Nat) (dirs0 : List DirInfo) (s : Mgr) (k : Nat) : Prop where
  vols : ∃ v, s.vols = [v] ∧ v.rawVolume = vol
  dirs : s.dirs = dirs0
  slots : ∀ f, f ∈ s.files → SlotOK w vol f
  geom : SameGeom w (theVol s)
  acct : Acct w (theVol s) d0 s.dev.disk k
  low : ∀ b, b ≤ w.lbaStart → s.dev.disk.get b = d0.get b
  info : InfoInv w (s.dev.disk.get w.infoLocation) k

theorem Track.resetLogs {w : FatVolume} {d0 : Disk} {vol : Nat} {dirs0 : List DirInfo} {s : Mgr} {k : Nat}
    (h : Track w d0 vol dirs0 s k) : Track w d0 vol dirs0 (MHoare.resetLogs s) k :=
  ⟨h.vols, h.dirs, h.slots, h.geom, h.acct, h.low, h.info⟩

/-- A step that leaves the medium, the volume table and the directory table alone. -/
theorem Track.light {w : FatVolume} {d0 : Disk} {vol : Nat} {dirs0 : List DirInfo} {s s' : Mgr} {k : Nat}
    (h : Track w d0 vol dirs0 s k) (hvols : s'.vols = s.vols) (hdirs : s'.dirs = s.dirs) (hd : s'.dev.disk = s.dev.disk)
    (hslots : ∀ f', f' ∈ s'.files → SlotOK w vol f') : Track w d0 vol dirs0 s' k := by
  have htv : theVol s' = theVol s := by unfold theVol; rw [hvols]
  exact ⟨by rw [hvols]; exact h.vols, by rw [hdirs]; exact h.dirs, hslots, by rw [htv]; exact h.geom,
    by rw [htv, hd]; exact h.acct, by rw [hd]; exact h.low, by rw [hd]; exact h.info⟩

/-- A step that takes `j` clusters and touches nothing outside the FAT and the data area. -/
theorem Track.next {w : FatVolume} {d0 : Disk} {vol : Nat} {dirs0 : List DirInfo} {s s' : Mgr} {k j : Nat}
    (h : Track w d0 vol dirs0 s k) (hg : WFGeom w) (h32 : w.fatType = .fat32) (v v' : VolInfo)
    (hv : s.vols = [v]) (hv' : s'.vols = [v']) (hid : v'.rawVolume = v.rawVolume) (hdirs : s'.dirs = s.dirs)
    (hslots : ∀ f', f' ∈ s'.files → SlotOK w vol f')
    (hsg : SameGeom v.vol v'.vol) (hacct : Acct v.vol v'.vol s.dev.disk s'.dev.disk j)
    (hframe : ∀ b, regionOf w b ≠ .fat → regionOf w b ≠ .data → s'.dev.disk.get b = s.dev.disk.get b) :
    Track w d0 vol dirs0 s' (k + j) := by
  have htv : theVol s = v.vol := theVol_eq hv
  have htv' : theVol s' = v'.vol := theVol_eq hv'
  have hgeom := h.geom
  rw [htv] at hgeom
  have hacct0 := h.acct
  rw [htv] at hacct0
  obtain ⟨v0, hv0, hid0⟩ := h.vols
  rw [hv] at hv0
  cases hv0
  refine ⟨⟨v', hv', by rw [hid]; exact hid0⟩, by rw [hdirs]; exact h.dirs, hslots, by rw [htv']; exact sameGeom_trans hgeom hsg,
    ?_, ?_, ?_⟩
  · rw [htv']
    refine Acct.trans hgeom hacct0 hacct
  · intro b hb
    obtain ⟨l1, l2, _, _⟩ := low_region hb
    rw [hframe b l1 l2]; exact h.low b hb
  · have hr := info_region hg h32
    rw [hframe _ (by rw [hr]; intro x; cases x) (by rw [hr]; intro x; cases x)]
    exact h.info.mono j

/-! ### One data-plane call -/

section
variable {w : FatVolume} {d0 : Disk} {vol : Nat} {dirs0 : List DirInfo}

theorem read_track (s : Mgr) (chains rest : List (List Nat)) (k : Nat) (hinv : DataInv s chains rest)
    (ht : Track w d0 vol dirs0 s k) (h n : Nat) : Track w d0 vol dirs0 (runOp (.read h n) s).2 k := by
  have hrun : runOp (.read h n) s = (Model.read h n >>= fun b => pure (Payload.bytes b)) s := rfl
  cases hh : s.files.findIdx? (·.rawFile = h) with
  | none =>
    have : Model.read h n s = (.err .BadHandle, s) := by
      unfold Model.read; rw [MHoare.bind_err (MHoare.getFileById_bad hh)]
    rw [hrun, MHoare.bind_err this]
    exact ht
  | some i =>
    obtain ⟨f, cs, v, hf, hc, hvols, htv, hv, hvi, hok, hcur, _, habs, hslot⟩ := inv_slot hinv hh
    have hg : WFGeom v.vol := by rw [← htv]; exact hinv.geom
    obtain ⟨s', f', hread, hd, _, heq, hf', _, _, _⟩ :=
      read_refines s h n i 0 f v cs (inv_mok hinv) hh hf hv hvi hg hok
    have hrun' : runOp (.read h n) s = (.ok (.bytes ((absFile v.vol s.dev.disk f cs).read n).1), s') := by
      rw [hrun, MHoare.bind_ok hread]; rfl
    rw [hrun']
    have hfiles : s'.files = s.files.set i f' := by rw [heq]
    have hsame : SameSlot f f' := ⟨by rw [hf'], by rw [hf'], by rw [hf'], by rw [hf']⟩
    refine ht.light (by rw [heq]) (by rw [heq]) hd ?_
    rw [hfiles]
    exact slots_set ht.slots (slotOK_of_same (ht.slots f (List.mem_of_getElem? hf)) hsame)

theorem seek_track (s : Mgr) (k : Nat) (ht : Track w d0 vol dirs0 s k) (i p : Nat) (f : FileInfo) (hf : s.files[i]? = some f) :
    Track w d0 vol dirs0 { s with files := s.files.set i { f with currentOffset := p } } k :=
  ht.light rfl rfl rfl
    (slots_set ht.slots (slotOK_of_same (ht.slots f (List.mem_of_getElem? hf)) ⟨rfl, rfl, rfl, rfl⟩))

theorem seekStart_track (s : Mgr) (k : Nat) (ht : Track w d0 vol dirs0 s k) (h p : Nat) :
    Track w d0 vol dirs0 (runOp (.seekStart h p) s).2 k := by
  have hrun : runOp (.seekStart h p) s = (fileSeekFromStart h p >>= fun _ => pure Payload.unit) s := rfl
  cases hh : s.files.findIdx? (·.rawFile = h) with
  | none =>
    have : fileSeekFromStart h p s = (.err .BadHandle, s) := by
      unfold fileSeekFromStart; rw [MHoare.bind_err (MHoare.getFileById_bad hh)]
    rw [hrun, MHoare.bind_err this]
    exact ht
  | some i =>
    obtain ⟨f, hf, _⟩ := MHoare.findIdx?_some_get hh
    have hspec := Files.file_seek_start_spec h p i f s (MHoare.getFileById_ok hh) (MHoare.getFile_ok hf)
    by_cases hp : p ≤ f.entry.size
    · rw [if_pos hp] at hspec
      rw [hrun, MHoare.bind_ok hspec]
      exact seek_track s k ht i p f hf
    · rw [if_neg hp] at hspec
      rw [hrun, MHoare.bind_err hspec]
      exact ht

theorem seekEnd_track (s : Mgr) (k : Nat) (ht : Track w d0 vol dirs0 s k) (h p : Nat) :
    Track w d0 vol dirs0 (runOp (.seekEnd h p) s).2 k := by
  have hrun : runOp (.seekEnd h p) s = (fileSeekFromEnd h p >>= fun _ => pure Payload.unit) s := rfl
  cases hh : s.files.findIdx? (·.rawFile = h) with
  | none =>
    have : fileSeekFromEnd h p s = (.err .BadHandle, s) := by
      unfold fileSeekFromEnd; rw [MHoare.bind_err (MHoare.getFileById_bad hh)]
    rw [hrun, MHoare.bind_err this]
    exact ht
  | some i =>
    obtain ⟨f, hf, _⟩ := MHoare.findIdx?_some_get hh
    have hspec := Files.file_seek_end_spec h p i f s (MHoare.getFileById_ok hh) (MHoare.getFile_ok hf)
    by_cases hp : p ≤ f.entry.size
    · rw [if_pos hp] at hspec
      rw [hrun, MHoare.bind_ok hspec]
      exact seek_track s k ht i _ f hf
    · rw [if_neg hp] at hspec
      rw [hrun, MHoare.bind_err hspec]
      exact ht

theorem seekCur_track (s : Mgr) (k : Nat) (ht : Track w d0 vol dirs0 s k) (h : Nat) (d : Int) :
    Track w d0 vol dirs0 (runOp (.seekCur h d) s).2 k := by
  have hrun : runOp (.seekCur h d) s = (fileSeekFromCurrent h d >>= fun _ => pure Payload.unit) s := rfl
  cases hh : s.files.findIdx? (·.rawFile = h) with
  | none =>
    have : fileSeekFromCurrent h d s = (.err .BadHandle, s) := by
      unfold fileSeekFromCurrent; rw [MHoare.bind_err (MHoare.getFileById_bad hh)]
    rw [hrun, MHoare.bind_err this]
    exact ht
  | some i =>
    obtain ⟨f, hf, _⟩ := MHoare.findIdx?_some_get hh
    have hspec := Files.file_seek_cur_spec h i d f s (MHoare.getFileById_ok hh) (MHoare.getFile_ok hf)
    by_cases hp : 0 ≤ (f.currentOffset : Int) + d ∧ (f.currentOffset : Int) + d ≤ (f.entry.size : Int)
    · rw [if_pos hp] at hspec
      rw [hrun, MHoare.bind_ok hspec]
      exact seek_track s k ht i _ f hf
    · rw [if_neg hp] at hspec
      rw [hrun, MHoare.bind_err hspec]
      exact ht

theorem observers_track (s : Mgr) (chains rest : List (List Nat)) (k : Nat) (hinv : DataInv s chains rest)
    (ht : Track w d0 vol dirs0 s k) (h : Nat) :
    Track w d0 vol dirs0 (runOp (.length h) s).2 k ∧ Track w d0 vol dirs0 (runOp (.offset h) s).2 k ∧
    Track w d0 vol dirs0 (runOp (.eof h) s).2 k := by
  have hrun1 : runOp (.length h) s = (fileLength h >>= fun n => pure (Payload.num n)) s := rfl
  have hrun2 : runOp (.offset h) s = (fileOffset h >>= fun n => pure (Payload.num n)) s := rfl
  have hrun3 : runOp (.eof h) s = (fileEof h >>= fun b => pure (Payload.bool b)) s := rfl
  cases hh : s.files.findIdx? (·.rawFile = h) with
  | none =>
    have e1 : fileLength h s = (.err .BadHandle, s) := by
      unfold fileLength; rw [MHoare.bind_err (MHoare.getFileById_bad hh)]
    have e2 : fileOffset h s = (.err .BadHandle, s) := by
      unfold fileOffset; rw [MHoare.bind_err (MHoare.getFileById_bad hh)]
    have e3 : fileEof h s = (.err .BadHandle, s) := by
      unfold fileEof; rw [MHoare.bind_err (MHoare.getFileById_bad hh)]
    rw [hrun1, hrun2, hrun3, MHoare.bind_err e1, MHoare.bind_err e2, MHoare.bind_err e3]
    exact ⟨ht, ht, ht⟩
  | some i =>
    obtain ⟨f, cs, v, hf, hc, hvols, htv, hv, hvi, hok, hcur, _, habs, hslot⟩ := inv_slot hinv hh
    obtain ⟨o1, o2, o3⟩ := observers_refine s h i f v.vol cs hh hf hinv.blocksOK hok
    rw [hrun1, hrun2, hrun3, MHoare.bind_ok o1, MHoare.bind_ok o2, MHoare.bind_ok o3]
    exact ⟨ht, ht, ht⟩

theorem write_track (hgw : WFGeom w) (h32 : w.fatType = .fat32) (s : Mgr) (chains rest : List (List Nat)) (k : Nat)
    (hinv : DataInv s chains rest) (ht : Track w d0 vol dirs0 s k) (h : Nat) (data : Bytes) :
    ∃ j, Track w d0 vol dirs0 (runOp (.write h data) s).2 (k + j) := by
  have hrun : runOp (.write h data) s = (Model.write h data >>= fun _ => pure Payload.unit) s := rfl
  cases hh : s.files.findIdx? (·.rawFile = h) with
  | none =>
    have : Model.write h data s = (.err .BadHandle, s) := by
      unfold Model.write; rw [MHoare.bind_err (MHoare.getFileById_bad hh)]
    rw [hrun, MHoare.bind_err this]
    exact ⟨0, ht⟩
  | some i =>
    obtain ⟨f, cs, v, hf, hc, hvols, htv, hv, hvi, hok, hcur, _, habs, hslot⟩ := inv_slot hinv hh
    by_cases hmode : f.mode = .ReadOnly
    · rw [hrun, MHoare.bind_err (write_readOnly s h i 0 data f hh hf hv hmode)]
      exact ⟨0, ht⟩
    · have hg : WFGeom v.vol := by rw [← htv]; exact hinv.geom
      have hhint : HintOK v.vol := by rw [← htv]; exact hinv.hint
      generalize hA : (chains.take i).filter (fun cs => !cs.isEmpty) = A
      generalize hB : (chains.drop (i + 1)).filter (fun cs => !cs.isEmpty) ++ rest = B
      have hown : Owns v.vol s.dev.disk (withChain A cs B) := by
        rw [← hA, ← hB, ← filter_split_self chains rest i cs hc, ← htv]; exact hinv.owns
      obtain ⟨k', r, s', f', v', cs', hw, _, _, heq, hvid, hsg, _, hok', _, _, _, _, _, _, htouch, hwf⟩ :=
        write_refines s h i 0 data f v cs A B (inv_mok hinv) hh hf hv hvi hmode hg hhint hok hcur hown
      obtain ⟨fB, vB, csB, kc, _, hvB, _, _, _, hacct, _, _⟩ :=
        write_acct s h i 0 data f v cs A B (inv_mok hinv) hh hf hv hvi hmode hg hhint hok hcur hown
      rw [hw] at hvB hacct
      simp only at hvB hacct
      have hvA : s'.vols[0]? = some v' := by rw [heq]; exact List.getElem?_set_self (List.getElem?_eq_some_iff.1 hvi).1
      rw [hvA] at hvB
      cases hvB
      have hpay : (Model.write h data >>= fun _ => pure Payload.unit) s = (r.bind fun _ => .ok Payload.unit, s') := by
        rw [MHoare.bind_def, hw]
        cases r <;> rfl
      rw [hrun, hpay]
      have hvols' : s'.vols = [v'] := by rw [heq]; show s.vols.set 0 v' = _; rw [hvols]; rfl
      have hfiles : s'.files = s.files.set i f' := by rw [heq]
      have hsame : SameSlot f f' := by
        unfold WriteFile at hwf
        exact ⟨by rw [hwf], by rw [hwf], by rw [hwf], by rw [hwf]⟩
      have hgv : SameGeom w v.vol := by rw [← htv]; exact ht.geom
      have hin' : ∀ x, x ∈ cs' → InRange v.vol x := by
        intro x hx
        have := fileOK_inRange hok' x hx
        unfold InRange at this ⊢
        rw [hsg.endCluster] at this
        exact this
      refine ⟨kc, ht.next hgw h32 v v' hvols hvols' (by rw [hvid]) (by rw [heq]) ?_ hsg hacct ?_⟩
      · rw [hfiles]
        exact slots_set ht.slots (slotOK_of_same (ht.slots f (List.mem_of_getElem? hf)) hsame)
      · intro b h1 h2
        rw [← sameGeom_regionOf hgv] at h1 h2
        exact touch_frame hg htouch hin' b h1 h2

/-- The call is a `write`. -/
def IsWrite : Op → Prop
  | .write _ _ => True
  | _ => False

/-- One data-plane call through the transition function; only a `write` takes clusters. -/
theorem data_step_track (hgw : WFGeom w) (h32 : w.fatType = .fat32) (s : Mgr) (chains rest : List (List Nat)) (k : Nat)
    (hinv : DataInv s chains rest) (ht : Track w d0 vol dirs0 s k) (op : Op) (hop : IsDataOp op) :
    ∃ j, Track w d0 vol dirs0 (step s op).1 (k + j) ∧ (¬ IsWrite op → j = 0) := by
  rw [MHoare.step_unlocked s op hinv.unlocked]
  have hinv0 := dataInv_resetLogs hinv
  have ht0 := ht.resetLogs
  show ∃ j, Track w d0 vol dirs0 (runOp op (MHoare.resetLogs s)).2 (k + j) ∧ _
  cases op with
  | read h n => exact ⟨0, read_track _ chains rest k hinv0 ht0 h n, fun _ => rfl⟩
  | write h data =>
    obtain ⟨j, hj⟩ := write_track hgw h32 _ chains rest k hinv0 ht0 h data
    exact ⟨j, hj, fun hn => absurd trivial hn⟩
  | seekStart h n => exact ⟨0, seekStart_track _ k ht0 h n, fun _ => rfl⟩
  | seekCur h n => exact ⟨0, seekCur_track _ k ht0 h n, fun _ => rfl⟩
  | seekEnd h n => exact ⟨0, seekEnd_track _ k ht0 h n, fun _ => rfl⟩
  | length h => exact ⟨0, (observers_track _ chains rest k hinv0 ht0 h).1, fun _ => rfl⟩
  | offset h => exact ⟨0, (observers_track _ chains rest k hinv0 ht0 h).2.1, fun _ => rfl⟩
  | eof h => exact ⟨0, (observers_track _ chains rest k hinv0 ht0 h).2.2, fun _ => rfl⟩
  | _ => exact absurd hop (by simp [IsDataOp])

/-- **Histories of data-plane calls keep the accounting**; without a `write`, no cluster is
taken. -/
theorem history_track (hgw : WFGeom w) (h32 : w.fatType = .fat32) (ops : List Op) :
    ∀ (s : Mgr) (chains rest : List (List Nat)) (k : Nat), DataInv s chains rest → Track w d0 vol dirs0 s k →
    (∀ op, op ∈ ops → IsDataOp op) →
    ∃ chains' j, DataInv (run s ops).1 chains' rest ∧ Track w d0 vol dirs0 (run s ops).1 (k + j) ∧
      ((∀ op, op ∈ ops → ¬ IsWrite op) → j = 0) := by
  induction ops with
  | nil => intro s chains rest k hinv ht _; exact ⟨chains, 0, hinv, ht, fun _ => rfl⟩
  | cons op ops ih =>
    intro s chains rest k hinv ht hops
    obtain ⟨chains1, hinv1, _⟩ := data_step_refines s chains rest hinv op (hops op List.mem_cons_self)
    obtain ⟨j1, ht1, hz1⟩ := data_step_track hgw h32 s chains rest k hinv ht op (hops op List.mem_cons_self)
    obtain ⟨chains', j, hinv', ht', hz⟩ := ih (step s op).1 chains1 rest (k + j1) hinv1 ht1 (fun o ho => hops o (List.mem_cons_of_mem _ ho))
    rw [run_cons]
    refine ⟨chains', j1 + j, hinv', by rw [← Nat.add_assoc]; exact ht', fun hnw => ?_⟩
    rw [hz1 (hnw op List.mem_cons_self), hz (fun o ho => hnw o (List.mem_cons_of_mem _ ho))]

end

/-- The start of a session: the record in memory is what mounting the medium gave. -/
theorem track_init (s : Mgr) (chains rest : List (List Nat)) (idx : Nat) (hinv : DataInv s chains rest)
    (hm : mountPure (s.dev.disk.get 0) idx s.dev.disk.get = .ok (theVol s)) (h32 : (theVol s).fatType = .fat32)
    (hslots : ∀ f, f ∈ s.files → SlotOK (theVol s) (s.vols.headD default).rawVolume f) :
    Track (theVol s) s.dev.disk (s.vols.headD default).rawVolume s.dirs s 0 := by
  obtain ⟨v, hv⟩ := hinv.oneVol
  refine ⟨⟨v, hv, by rw [hv]; rfl⟩, rfl, hslots, SameGeom.refl _, Acct.refl _ _, fun _ _ => rfl, hinv.blocksOK _, ?_⟩
  exact ⟨_, _, mount_info s.dev.disk idx (theVol s) hm h32, fun h => h, fun _ => rfl, .inl rfl⟩

end Sdmmc.Lemmas.Acct
