/-
Pure byte-level and arithmetic lemmas about the FAT lens (`patchFatBlock`, `rawFatEntry`,
`decodeNext`), `splice`, and the block geometry of a volume (`fatBlock`, `clusterToBlock`,
`regionOf` under `WFGeom`).  Used by `Props/C16.lean`, `Props/C04.lean` and by
`Sdmmc.Lemmas.FatOps`.
-/
import Sdmmc.Model.Fat
import Sdmmc.Spec.Geom

namespace Sdmmc.Lemmas.FatLens
open Sdmmc.Model Sdmmc.Model.Fat Sdmmc.Spec

/-! ### `splice` -/

theorem splice_length (b src : Bytes) (off : Nat) (h : off + src.length ≤ b.length) :
    (splice b off src).length = b.length := by
  unfold splice
  simp only [List.length_append, List.length_take, List.length_drop]
  omega

theorem splice_getD_outside (b src : Bytes) (off i : Nat) (h : off + src.length ≤ b.length)
    (hi : i < off ∨ off + src.length ≤ i) : (splice b off src).getD i 0 = b.getD i 0 := by
  unfold splice
  simp only [List.getD_eq_getElem?_getD, List.append_assoc]
  rcases hi with hi | hi
  · rw [List.getElem?_append_left (by simp only [List.length_take]; omega), List.getElem?_take]
    simp [hi]
  · rw [List.getElem?_append_right (by simp only [List.length_take]; omega),
      List.getElem?_append_right (by simp only [List.length_take]; omega), List.getElem?_drop]
    simp only [List.length_take]
    congr 2
    omega

theorem splice_getD_inside (b src : Bytes) (off i : Nat) (h : off + src.length ≤ b.length)
    (h1 : off ≤ i) (h2 : i < off + src.length) : (splice b off src).getD i 0 = src.getD (i - off) 0 := by
  unfold splice
  simp only [List.getD_eq_getElem?_getD, List.append_assoc]
  rw [List.getElem?_append_right (by simp only [List.length_take]; omega),
    List.getElem?_append_left (by simp only [List.length_take]; omega)]
  simp only [List.length_take]
  congr 2
  omega

theorem splice_frame (b src : Bytes) (off i : Nat) (h : off + src.length ≤ b.length) :
    (splice b off src).length = b.length ∧
    (i < off ∨ off + src.length ≤ i → (splice b off src).getD i 0 = b.getD i 0) ∧
    (off ≤ i → i < off + src.length → (splice b off src).getD i 0 = src.getD (i - off) 0) :=
  ⟨splice_length b src off h, splice_getD_outside b src off i h, splice_getD_inside b src off i h⟩

theorem byteAt_splice_outside (b src : Bytes) (off i : Nat) (h : off + src.length ≤ b.length)
    (hi : i < off ∨ off + src.length ≤ i) : byteAt (splice b off src) i = byteAt b i := by
  unfold byteAt; rw [splice_getD_outside b src off i h hi]

theorem byteAt_splice_inside (b src : Bytes) (off k : Nat) (h : off + src.length ≤ b.length)
    (hk : k < src.length) : byteAt (splice b off src) (off + k) = byteAt src k := by
  unfold byteAt
  rw [splice_getD_inside b src off (off + k) h (by omega) (by omega), Nat.add_sub_cancel_left]

/-- Reading back what was spliced in. -/
theorem slice_splice (b src : Bytes) (off : Nat) (h : off + src.length ≤ b.length) :
    slice (splice b off src) off src.length = src := by
  unfold slice splice
  have hl : (List.take off b).length = off := by simp only [List.length_take]; omega
  rw [List.append_assoc, List.drop_append_of_le_length (by omega), List.drop_of_length_le (by omega),
    List.nil_append, List.take_left']
  rfl

/-! ### Little-endian round trips -/

theorem toNat_ofNat_mod (n : Nat) : (UInt8.ofNat (n % 256)).toNat = n % 256 := by
  rw [UInt8.toNat_ofNat']; omega

theorem byteAt_lt (b : Bytes) (i : Nat) : byteAt b i < 256 := UInt8.toNat_lt _

theorem readU16_lt (b : Bytes) (i : Nat) : readU16 b i < 65536 := by
  have h0 := byteAt_lt b i
  have h1 := byteAt_lt b (i + 1)
  unfold readU16; omega

theorem readU32_lt (b : Bytes) (i : Nat) : readU32 b i < 4294967296 := by
  have h0 := byteAt_lt b i
  have h1 := byteAt_lt b (i + 1)
  have h2 := byteAt_lt b (i + 2)
  have h3 := byteAt_lt b (i + 3)
  unfold readU32; omega

theorem leU16_length (v : Nat) : (leU16 v).length = 2 := rfl
theorem leU32_length (v : Nat) : (leU32 v).length = 4 := rfl

theorem readU16_splice_leU16 (b : Bytes) (off v : Nat) (h : off + 2 ≤ b.length) (hv : v < 65536) :
    readU16 (splice b off (leU16 v)) off = v := by
  unfold readU16
  have h0 := byteAt_splice_inside b (leU16 v) off 0 (by rw [leU16_length]; exact h) (by show _ < 2; omega)
  have h1 := byteAt_splice_inside b (leU16 v) off 1 (by rw [leU16_length]; exact h) (by show _ < 2; omega)
  rw [Nat.add_zero] at h0
  rw [h0, h1]
  show (UInt8.ofNat (v % 256)).toNat + 256 * (UInt8.ofNat (v / 256 % 256)).toNat = v
  rw [toNat_ofNat_mod, toNat_ofNat_mod]; omega

theorem readU32_splice_leU32 (b : Bytes) (off v : Nat) (h : off + 4 ≤ b.length) (hv : v < 4294967296) :
    readU32 (splice b off (leU32 v)) off = v := by
  unfold readU32
  have h0 := byteAt_splice_inside b (leU32 v) off 0 (by rw [leU32_length]; exact h) (by show _ < 4; omega)
  have h1 := byteAt_splice_inside b (leU32 v) off 1 (by rw [leU32_length]; exact h) (by show _ < 4; omega)
  have h2 := byteAt_splice_inside b (leU32 v) off 2 (by rw [leU32_length]; exact h) (by show _ < 4; omega)
  have h3 := byteAt_splice_inside b (leU32 v) off 3 (by rw [leU32_length]; exact h) (by show _ < 4; omega)
  rw [Nat.add_zero] at h0
  rw [h0, h1, h2, h3]
  show (UInt8.ofNat (v % 256)).toNat + 256 * (UInt8.ofNat (v / 256 % 256)).toNat
      + 65536 * (UInt8.ofNat (v / 65536 % 256)).toNat + 16777216 * (UInt8.ofNat (v / 16777216 % 256)).toNat = v
  rw [toNat_ofNat_mod, toNat_ofNat_mod, toNat_ofNat_mod, toNat_ofNat_mod]; omega

theorem readU16_splice_other (b src : Bytes) (off off' : Nat) (h : off + src.length ≤ b.length)
    (hd : off + src.length ≤ off' ∨ off' + 2 ≤ off) : readU16 (splice b off src) off' = readU16 b off' := by
  unfold readU16
  rw [byteAt_splice_outside b src off off' h (by omega), byteAt_splice_outside b src off (off' + 1) h (by omega)]

theorem readU32_splice_other (b src : Bytes) (off off' : Nat) (h : off + src.length ≤ b.length)
    (hd : off + src.length ≤ off' ∨ off' + 4 ≤ off) : readU32 (splice b off src) off' = readU32 b off' := by
  unfold readU32
  rw [byteAt_splice_outside b src off off' h (by omega), byteAt_splice_outside b src off (off' + 1) h (by omega),
    byteAt_splice_outside b src off (off' + 2) h (by omega), byteAt_splice_outside b src off (off' + 3) h (by omega)]

/-! ### The FAT lens -/

theorem fat16Entry_lt (val : Nat) : fat16Entry val < 65536 := by
  unfold fat16Entry; repeat' split
  all_goals omega

theorem patch_length (ft : FatType) (blk : Block) (off val : Nat) (hl : blk.length = 512)
    (ho : off + entryWidth ft ≤ 512) : (patchFatBlock ft blk off val).length = 512 := by
  cases ft
  · show (splice blk off (leU16 _)).length = 512
    rw [splice_length _ _ _ (by rw [leU16_length, hl]; exact ho), hl]
  · show (splice blk off (leU32 _)).length = 512
    rw [splice_length _ _ _ (by rw [leU32_length, hl]; exact ho), hl]

theorem patch_get_fat16 (blk : Block) (off val : Nat) (hl : blk.length = 512) (ho : off + 2 ≤ 512) :
    rawFatEntry .fat16 (patchFatBlock .fat16 blk off val) off = fat16Entry val := by
  show readU16 (splice blk off (leU16 (fat16Entry val))) off = fat16Entry val
  exact readU16_splice_leU16 blk off _ (by omega) (fat16Entry_lt val)

theorem patch_get_fat32 (blk : Block) (off val : Nat) (hl : blk.length = 512) (ho : off + 4 ≤ 512) :
    rawFatEntry .fat32 (patchFatBlock .fat32 blk off val) off =
      readU32 blk off / 268435456 * 268435456 + fat32Entry val % 268435456 := by
  show readU32 (splice blk off (leU32 _)) off = _
  have := readU32_lt blk off
  exact readU32_splice_leU32 blk off _ (by omega) (by omega)

theorem patch_frame (ft : FatType) (blk : Block) (off val i : Nat) (hl : blk.length = 512)
    (ho : off + entryWidth ft ≤ 512) (hi : i < off ∨ off + entryWidth ft ≤ i) :
    (patchFatBlock ft blk off val).getD i 0 = blk.getD i 0 := by
  cases ft
  · exact splice_getD_outside blk _ off i (by rw [leU16_length, hl]; exact ho) (by rw [leU16_length]; exact hi)
  · exact splice_getD_outside blk _ off i (by rw [leU32_length, hl]; exact ho) (by rw [leU32_length]; exact hi)

theorem patch_get_other (ft : FatType) (blk : Block) (off off' val : Nat) (hl : blk.length = 512)
    (ho : off + entryWidth ft ≤ 512) (hd : off + entryWidth ft ≤ off' ∨ off' + entryWidth ft ≤ off) :
    rawFatEntry ft (patchFatBlock ft blk off val) off' = rawFatEntry ft blk off' := by
  cases ft
  · exact readU16_splice_other blk _ off off' (by rw [leU16_length, hl]; exact ho) (by rw [leU16_length]; exact hd)
  · exact readU32_splice_other blk _ off off' (by rw [leU32_length, hl]; exact ho) (by rw [leU32_length]; exact hd)

theorem fat16Entry_ordinary (n : Nat) (h2 : 2 ≤ n) (hn : n < 65527) : fat16Entry n = n := by
  unfold fat16Entry
  have h1 : n ≠ Gen.CLUSTER_INVALID := by show n ≠ 4294967286; omega
  have h2 : n ≠ Gen.CLUSTER_BAD := by show n ≠ 4294967287; omega
  have h3 : n ≠ Gen.CLUSTER_EMPTY := by show n ≠ 0; omega
  have h4 : n ≠ Gen.CLUSTER_END_OF_FILE := by show n ≠ 4294967295; omega
  rw [if_neg h1, if_neg h2, if_neg h3, if_neg h4]; omega

theorem fat32Entry_ordinary (n : Nat) (h2 : 2 ≤ n) (hn : n < 268435447) : fat32Entry n = n := by
  unfold fat32Entry
  have h1 : n ≠ Gen.CLUSTER_INVALID := by show n ≠ 4294967286; omega
  have h2 : n ≠ Gen.CLUSTER_BAD := by show n ≠ 4294967287; omega
  have h3 : n ≠ Gen.CLUSTER_EMPTY := by show n ≠ 0; omega
  rw [if_neg h1, if_neg h2, if_neg h3]

theorem decode_after_patch (ft : FatType) (blk : Block) (off : Nat) (hl : blk.length = 512)
    (ho : off + entryWidth ft ≤ 512) :
    decodeNext ft (rawFatEntry ft (patchFatBlock ft blk off Gen.CLUSTER_END_OF_FILE) off) = .err .EndOfFile ∧
    (∀ n, 2 ≤ n → n < (match ft with | .fat16 => 0xFFF7 | .fat32 => 0x0FFFFFF7) →
      decodeNext ft (rawFatEntry ft (patchFatBlock ft blk off n) off) = .ok n) ∧
    (match ft with
      | .fat16 => rawFatEntry .fat16 (patchFatBlock .fat16 blk off Gen.CLUSTER_EMPTY) off = 0
      | .fat32 => rawFatEntry .fat32 (patchFatBlock .fat32 blk off Gen.CLUSTER_EMPTY) off % 268435456 = 0) := by
  cases ft
  · refine ⟨?_, ?_, ?_⟩
    · rw [patch_get_fat16 blk off _ hl ho]; rfl
    · intro n h2 hn
      rw [patch_get_fat16 blk off _ hl ho]
      have hn' : n < 65527 := hn
      rw [fat16Entry_ordinary n h2 hn']
      unfold decodeNext
      simp only
      rw [if_neg (by omega), if_neg (by omega)]
    · show rawFatEntry .fat16 _ off = 0
      rw [patch_get_fat16 blk off _ hl ho]; rfl
  · have hx := readU32_lt blk off
    refine ⟨?_, ?_, ?_⟩
    · rw [patch_get_fat32 blk off _ hl ho]
      have he : fat32Entry Gen.CLUSTER_END_OF_FILE % 268435456 = 268435455 := by rfl
      rw [he]
      unfold decodeNext
      simp only
      rw [if_neg (by omega), if_neg (by omega), if_pos (by omega)]
    · intro n h2 hn
      have hn' : n < 268435447 := hn
      rw [patch_get_fat32 blk off _ hl ho, fat32Entry_ordinary n h2 hn']
      unfold decodeNext
      simp only
      have hm : (readU32 blk off / 268435456 * 268435456 + n % 268435456) % 268435456 = n := by omega
      rw [hm, if_neg (by omega), if_neg (by omega), if_neg (by omega)]
    · show rawFatEntry .fat32 _ off % 268435456 = 0
      rw [patch_get_fat32 blk off _ hl ho]
      have he : fat32Entry Gen.CLUSTER_EMPTY % 268435456 = 0 := by rfl
      rw [he]; omega

/-- The link part of `decode_after_patch`, with a bound that does not mention the offset proof. -/
theorem decode_after_patch_link (ft : FatType) (blk : Block) (off : Nat) (n : Nat) (h2 : 2 ≤ n)
    (hn : n < (match ft with | .fat16 => 0xFFF7 | .fat32 => 0x0FFFFFF7)) (hl : blk.length = 512)
    (ho : off + entryWidth ft ≤ 512) :
    decodeNext ft (rawFatEntry ft (patchFatBlock ft blk off n) off) = .ok n := by
  cases ft
  · exact (decode_after_patch .fat16 blk off hl ho).2.1 n h2 hn
  · exact (decode_after_patch .fat32 blk off hl ho).2.1 n h2 hn

/-! ### Alignment of FAT entries -/

theorem entryWidth_cases (ft : FatType) : entryWidth ft = 2 ∨ entryWidth ft = 4 := by
  cases ft
  · exact .inl rfl
  · exact .inr rfl

/-- An entry never straddles a block boundary. -/
theorem fatEntOffset_le (v : FatVolume) (c : Nat) : fatEntOffset v c + entryWidth v.fatType ≤ 512 := by
  unfold fatEntOffset
  simp only [Gen.BLOCK_LEN_U32]
  rcases entryWidth_cases v.fatType with h | h <;> rw [h] <;> omega

/-- Entries of distinct clusters in the same FAT block occupy disjoint byte ranges. -/
theorem fatEntOffset_disjoint (v : FatVolume) (c c' : Nat) (hne : c ≠ c') (hb : fatBlock v c = fatBlock v c') :
    fatEntOffset v c + entryWidth v.fatType ≤ fatEntOffset v c' ∨
    fatEntOffset v c' + entryWidth v.fatType ≤ fatEntOffset v c := by
  unfold fatBlock at hb
  unfold fatEntOffset
  simp only [Gen.BLOCK_LEN_U32] at hb ⊢
  rcases entryWidth_cases v.fatType with h | h <;> rw [h] at hb ⊢ <;> omega

/-! ### Geometry -/

theorem mul_succ_le {a b : Nat} (h : a < b) (w : Nat) : a * w + w ≤ b * w := by
  have := Nat.mul_le_mul_right w (show a + 1 ≤ b from h)
  rw [Nat.add_mul, Nat.one_mul] at this
  exact this

/-- The FAT block offset of a cluster of the volume lies in the used part of a FAT copy. -/
theorem fatIdx_lt_used (v : FatVolume) (c : Nat) (hc : c < endCluster v) :
    c * entryWidth v.fatType / 512 < fatBlocksUsed v := by
  unfold fatBlocksUsed
  have h := mul_succ_le hc (entryWidth v.fatType)
  have hw := entryWidth_cases v.fatType
  generalize c * entryWidth v.fatType = x at h ⊢
  generalize endCluster v * entryWidth v.fatType = y at h ⊢
  omega

theorem fatsEnd_ge (v : FatVolume) (hg : WFGeom v) : v.fatStart + fatBlocksUsed v ≤ fatsEnd v := by
  unfold fatsEnd
  cases hs : v.secondFatStart with
  | none => exact Nat.le_refl _
  | some s2 =>
    have := hg.second_after_first s2 hs
    show _ ≤ s2 + fatBlocksUsed v
    omega

/-- Everything the region lemmas need from `WFGeom`, in `omega`-friendly form. -/
theorem geom_facts (v : FatVolume) (hg : WFGeom v) :
    1 ≤ v.fatStart ∧ fatsEnd v ≤ v.firstDataBlock ∧
    v.firstDataBlock + v.clusterCount * v.blocksPerCluster ≤ v.numBlocks ∧
    (v.fatType = .fat32 → v.lbaStart < v.infoLocation ∧ v.infoLocation < v.lbaStart + v.fatStart) ∧
    (v.fatType = .fat16 → fatsEnd v ≤ v.firstRootDirBlock ∧
      v.firstRootDirBlock + blockCountFromBytes (v.rootEntriesCount * Gen.DIRENT_LEN) ≤ v.firstDataBlock) := by
  refine ⟨hg.fat_after_boot, ?_, hg.data_fits, ?_, hg.root16⟩
  · cases hft : v.fatType with
    | fat16 => have := hg.root16 hft; omega
    | fat32 => exact (hg.root32 hft).1
  · intro hft
    have := hg.root32 hft
    exact ⟨this.2.1, this.2.2.1⟩

theorem fat_blocks_in_fat_region (v : FatVolume) (hg : WFGeom v) (c : Nat) (hc : c < endCluster v) :
    regionOf v (fatBlock v c) = .fat ∧ ∀ b2, fatBlock2 v c = some b2 → regionOf v b2 = .fat := by
  obtain ⟨h1, h2, h3, h4, _⟩ := geom_facts v hg
  have hu := fatIdx_lt_used v c hc
  have hfe := fatsEnd_ge v hg
  have key : ∀ k, v.fatStart ≤ k → k < fatsEnd v → regionOf v (v.lbaStart + k) = .fat := by
    intro k hk1 hk2
    unfold regionOf
    rw [if_neg (by omega), if_neg (by omega), if_neg, if_neg (by omega), if_pos (by omega)]
    rintro ⟨hft, hi⟩
    have := h4 hft
    omega
  constructor
  · unfold fatBlock
    simp only [Gen.BLOCK_LEN_U32]
    exact key _ (by omega) (by omega)
  · intro b2 hb2
    unfold fatBlock2 at hb2
    cases hs : v.secondFatStart with
    | none => rw [hs] at hb2; cases hb2
    | some s2 =>
      rw [hs] at hb2
      simp only [Option.map_some, Option.some.injEq, Gen.BLOCK_LEN_U32] at hb2
      subst hb2
      have hsa := hg.second_after_first s2 hs
      apply key
      · omega
      · unfold fatsEnd; rw [hs]; show _ < s2 + fatBlocksUsed v; omega

/-- A cluster of the volume is not one of the reserved cluster ids. -/
theorem lt_end_ne_root (v : FatVolume) (hg : WFGeom v) (c : Nat) (hc : c < endCluster v) :
    c ≠ Gen.CLUSTER_ROOT_DIR := by
  have := hg.count_bound
  simp only [Gen.CLUSTER_ROOT_DIR]
  cases hft : v.fatType <;> rw [hft] at this <;> simp only at this <;> omega

/-- `clusterToBlock` of an ordinary cluster. -/
theorem clusterToBlock_ordinary (v : FatVolume) (c : Nat) (hr : c ≠ Gen.CLUSTER_ROOT_DIR) :
    clusterToBlock v c = v.lbaStart + v.firstDataBlock + (c - 2) * v.blocksPerCluster := by
  unfold clusterToBlock
  cases v.fatType
  · simp only [if_neg hr]; omega
  · simp only [if_neg hr]

theorem cluster_blocks_in_data_region (v : FatVolume) (hg : WFGeom v) (c j : Nat) (hc2 : 2 ≤ c)
    (hc : c < endCluster v) (hj : j < v.blocksPerCluster) :
    regionOf v (clusterToBlock v c + j) = .data := by
  obtain ⟨h1, h2, h3, h4, _⟩ := geom_facts v hg
  have hfe := fatsEnd_ge v hg
  rw [clusterToBlock_ordinary v c (lt_end_ne_root v hg c hc)]
  have hlt : c - 2 < v.clusterCount := by
    unfold endCluster at hc; simp only [Gen.RESERVED_ENTRIES] at hc; omega
  have hm := mul_succ_le hlt v.blocksPerCluster
  unfold regionOf
  generalize (c - 2) * v.blocksPerCluster = x at hm ⊢
  generalize v.clusterCount * v.blocksPerCluster = y at hm h3 ⊢
  rw [if_neg (by omega), if_neg (by omega), if_neg, if_neg (by omega), if_neg (by omega), if_neg (by omega),
    if_pos (by omega)]
  rintro ⟨hft, hi⟩
  have := h4 hft
  omega

/-- Distinct ordinary clusters have disjoint blocks. -/
theorem cluster_blocks_disjoint (v : FatVolume) (hg : WFGeom v) (c c' j j' : Nat) (hc2 : 2 ≤ c) (hc2' : 2 ≤ c')
    (hr : c ≠ Gen.CLUSTER_ROOT_DIR) (hr' : c' ≠ Gen.CLUSTER_ROOT_DIR)
    (hj : j < v.blocksPerCluster) (hj' : j' < v.blocksPerCluster)
    (h : clusterToBlock v c + j = clusterToBlock v c' + j') : c = c' ∧ j = j' := by
  have _ := hg
  rw [clusterToBlock_ordinary v c hr, clusterToBlock_ordinary v c' hr'] at h
  rcases Nat.lt_trichotomy (c - 2) (c' - 2) with hlt | heq | hgt
  · have hm := mul_succ_le hlt v.blocksPerCluster
    generalize (c - 2) * v.blocksPerCluster = x at hm h
    generalize (c' - 2) * v.blocksPerCluster = y at hm h
    omega
  · rw [heq] at h
    exact ⟨by omega, by omega⟩
  · have hm := mul_succ_le hgt v.blocksPerCluster
    generalize (c - 2) * v.blocksPerCluster = x at hm h
    generalize (c' - 2) * v.blocksPerCluster = y at hm h
    omega

/-- The same for clusters of the volume. -/
theorem cluster_blocks_disjoint_of_lt (v : FatVolume) (hg : WFGeom v) (c c' j j' : Nat) (hc2 : 2 ≤ c) (hc2' : 2 ≤ c')
    (hc : c < endCluster v) (hc' : c' < endCluster v)
    (hj : j < v.blocksPerCluster) (hj' : j' < v.blocksPerCluster)
    (h : clusterToBlock v c + j = clusterToBlock v c' + j') : c = c' ∧ j = j' :=
  cluster_blocks_disjoint v hg c c' j j' hc2 hc2' (lt_end_ne_root v hg c hc) (lt_end_ne_root v hg c' hc') hj hj' h

theorem region_inside_partition (v : FatVolume) (idx : Nat) (h : regionOf v idx ∈ [Region.fat, .root, .data, .info]) :
    v.lbaStart < idx ∧ idx < v.lbaStart + v.numBlocks := by
  unfold regionOf at h
  by_cases h1 : idx < v.lbaStart ∨ v.lbaStart + v.numBlocks ≤ idx
  · rw [if_pos h1] at h; simp at h
  · rw [if_neg h1] at h
    by_cases h2 : idx = v.lbaStart
    · rw [if_pos h2] at h; simp at h
    · omega

theorem root_blocks_in_root_region (v : FatVolume) (hg : WFGeom v) (h16 : v.fatType = .fat16) (i : Nat)
    (hi : i < blockCountFromBytes (v.rootEntriesCount * Gen.DIRENT_LEN)) :
    regionOf v (v.lbaStart + v.firstRootDirBlock + i) = .root := by
  obtain ⟨h1, h2, h3, _, h5⟩ := geom_facts v hg
  have hfe := fatsEnd_ge v hg
  have h5' := h5 h16
  generalize blockCountFromBytes (v.rootEntriesCount * Gen.DIRENT_LEN) = n at hi h5'
  unfold regionOf
  generalize v.clusterCount * v.blocksPerCluster = y at h3 ⊢
  rw [if_neg (by omega), if_neg (by omega), if_neg, if_neg (by omega), if_neg (by omega), if_pos (by omega),
    if_pos ⟨h16, by omega⟩]
  rintro ⟨hft, _⟩
  rw [h16] at hft; cases hft

theorem info_block_in_info_region (v : FatVolume) (hg : WFGeom v) (h32 : v.fatType = .fat32) (hn : v.fatStart ≤ v.numBlocks) :
    regionOf v v.infoLocation = .info := by
  obtain ⟨_, _, _, h4, _⟩ := geom_facts v hg
  have := h4 h32
  unfold regionOf
  rw [if_neg (by omega), if_neg (by omega), if_pos ⟨h32, rfl⟩]

end Sdmmc.Lemmas.FatLens
