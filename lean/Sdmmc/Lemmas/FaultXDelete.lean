/-
C11, arbitrary fault placement — `delete_file_in_dir` UNDER ANY SCHEDULE.

Engine level: at every crash point of `delete_directory_entry; free_cluster_chain` the medium carries the invariant
for the same open files and the same tree, for SOME list of chains and SOME list of lost chains (`MX`):
before the mark — as before; after the mark — the file's chain is lost; while the chain is given back — its first
cluster and what is left of the rest are lost; at the end — nothing more is lost than before (`deleteBody_mx`).
-/
import Sdmmc.Lemmas.FaultXFree
import Sdmmc.Lemmas.VolXApiDelete
import Sdmmc.Lemmas.CrashDelete
import Sdmmc.Lemmas.FaultInvEng

namespace Sdmmc.Lemmas.FaultX
open Sdmmc.Model Sdmmc.Model.Fat Sdmmc.Spec.Volume Sdmmc.Lemmas.VolBase Sdmmc.Lemmas.VolTree
open Sdmmc.Spec hiding NoFault Coherent
open Sdmmc.Lemmas.VolDisk Sdmmc.Lemmas.VolMed Sdmmc.Lemmas.VolEng Sdmmc.Lemmas.VolX
open Sdmmc.Lemmas.FBasic (NoFault Coherent)
open Sdmmc.Lemmas.CrashBase Sdmmc.Lemmas.CrashFat

/-- **What a crash point — hence a failed call — may leave**: if the blocks have their size, the medium carries the
invariant for the open files `files` and the tree `dirs`, for some chains and some lost chains. -/
def MX (v : FatVolume) (files : List FileInfo) (dirs : List (Nat × Nat)) (d : Disk) : Prop :=
  BlocksOK d → ∃ G' X', MedX v d files { vol := v, G := G', dirs := dirs } X'

section
variable {files : List FileInfo} {gh : Ghost} {X : List (List Nat)}

theorem mx_of_med {v : FatVolume} {d : Disk} {X' : List (List Nat)} (hM : MedX v d files gh X') : MX v files gh.dirs d :=
  fun _ => ⟨gh.G, X', ⟨hM.blocksOK, hM.geom, hM.hint, hM.owns, hM.tree, hM.fileOK⟩⟩

/-- **`free_cluster_chain` on a chain nothing refers to**, every crash point. -/
theorem free_mx {fs : FS} {c : Nat} {tail : List Nat} (hM : MedX fs.vol fs.dev.disk files gh ((c :: tail) :: X))
    (hn : NoFault fs) (hc : Coherent fs) :
    ∃ fs', freeClusterChain c fs = (.ok (), fs') ∧ CrashAll (MX fs.vol files gh.dirs) fs fs' := by
  have hch : Chain fs.vol fs.dev.disk c (c :: tail) := by
    have := hM.owns.1 (c :: tail) (List.mem_append_right _ List.mem_cons_self)
    simpa using this
  obtain ⟨fs', hf, hcr⟩ := free_crash fs c tail hn hc hM.blocksOK hM.geom hch
  refine ⟨fs', hf, hcr.mono fun d hd hb => ?_⟩
  rcases hd.1 with (hv | ⟨j, _, hst⟩) | hst
  · exact mx_of_med (medX_view_stage hM hb hv) hb
  · exact mx_of_med (medX_free_stage hM hb j hst) hb
  · exact mx_of_med (medX_free_all hM hb hst) hb

/-- **The body of `delete_file_in_dir`**, every crash point. -/
theorem deleteBody_mx {fs : FS} (hM : MedX fs.vol fs.dev.disk files gh X) (hn : NoFault fs) (hc : Coherent fs)
    {dc : Nat} (hv : ValidDir gh.dirs dc) (name : Bytes) (hname : name.head? ≠ some 0xE5) {o : Slot}
    (ho : o ∈ objects (dirIdOf dc) (dirSlots fs.vol fs.dev.disk gh.G (dirIdOf dc)))
    (hod : isDirE o = false) (hsn : sName o = name) (hfree : pendOf files o = none) :
    CrashAll (MX fs.vol files gh.dirs) fs
      ((do Fat.deleteDirectoryEntry dc name; Fat.freeClusterChain (sCluster fs.vol.fatType o) : F Unit) fs).2 := by
  obtain ⟨hh, _⟩ := validDir_id hM hv
  obtain ⟨fs1, hrun1, hd1, hv1, hn1, hc1⟩ := delete_mark hM hn hc hv name hname (mem_entries_of_objects ho) hsn
  obtain ⟨b, off, hm, _⟩ := CrashDelete.deleteDirectoryEntry_ok dc name fs fs1 hn hc hM.geom hrun1
  rcases VolX.mark_med hM hh ho hod hfree with ⟨hc0, hM1⟩ | ⟨A, B, tail, hGeq, hM1⟩
  · have hrun2 : freeClusterChain (sCluster fs.vol.fatType o) fs1 = (.ok (), fs1) := by
      rw [hc0]; rfl
    have hrun : (do Fat.deleteDirectoryEntry dc name; Fat.freeClusterChain (sCluster fs.vol.fatType o) : F Unit) fs = (.ok (), fs1) := by
      rw [FBasic.bind_ok hrun1, hrun2]
    rw [hrun]
    refine FaultInv.crash_le_one (.inr ⟨_, _, hm.wlog, hm.disk⟩) (mx_of_med hM) ?_
    rw [hd1]; exact mx_of_med hM1
  · have hM1' : MedX fs1.vol fs1.dev.disk files { vol := gh.vol, G := A ++ B, dirs := gh.dirs }
        ((sCluster fs1.vol.fatType o :: tail) :: X) := by
      rw [hd1, hv1]; exact hM1
    obtain ⟨fs2, hrun2, hcr2⟩ := free_mx hM1' hn1 hc1
    have hrun : (do Fat.deleteDirectoryEntry dc name; Fat.freeClusterChain (sCluster fs.vol.fatType o) : F Unit) fs = (.ok (), fs2) := by
      rw [FBasic.bind_ok hrun1, ← hv1, hrun2]
    rw [hrun]
    have h1 : CrashAll (MX fs.vol files gh.dirs) fs fs1 := by
      refine FaultInv.crash_le_one (.inr ⟨_, _, hm.wlog, hm.disk⟩) (mx_of_med hM) ?_
      have := mx_of_med hM1'
      rw [hv1] at this
      exact this
    refine h1.trans ?_
    rw [← hv1]
    exact hcr2

end

end Sdmmc.Lemmas.FaultX
