/-
C11, arbitrary fault placement — `EntryNotAhead` AS AN INVARIANT, part 6: `write` under any schedule writes no block
that holds a directory slot (`write_disk`, from `Retry.write_kept`: only FAT blocks and blocks of the written file's
— possibly extended — chain change, and that chain stays disjoint from every directory's).
-/
import Sdmmc.Lemmas.FaultXRawApi
import Sdmmc.Lemmas.RetryWriteTop
import Sdmmc.Lemmas.FaultXWriteTop

namespace Sdmmc.Lemmas.FaultX
open Sdmmc.Lemmas.WriteRefines Sdmmc.Lemmas.VolApi
open Sdmmc.Model Sdmmc.Model.Fat Sdmmc.Spec.Volume Sdmmc.Lemmas.VolBase Sdmmc.Lemmas.VolTree
open Sdmmc.Spec hiding NoFault Coherent
open Sdmmc.Lemmas.VolDisk Sdmmc.Lemmas.VolMed Sdmmc.Lemmas.VolEng Sdmmc.Lemmas.VolX
open Sdmmc.Lemmas.FBasic (NoFault Coherent)
open Sdmmc.Lemmas.MHoare Sdmmc.Lemmas.Retry Sdmmc.Lemmas.FaultInv

/-- `write` under any schedule. -/
theorem write_disk {X : List (List Nat)} {s : Mgr} {gh : Ghost} (hI : VolInvX X (mclr s) gh)
    (hR : RawAllD gh.vol.fatType s.dev.disk s.files) (file : Nat) (data : Bytes) :
    RawAllD gh.vol.fatType (Model.write file data s).2.dev.disk s.files := by
  cases hidx : s.files.findIdx? (·.rawFile = file) with
  | none =>
    have : Model.write file data s = (.err .BadHandle, s) := by
      unfold Model.write
      rw [bind_err (getFileById_bad hidx)]
    rw [this]; exact hR
  | some i =>
    obtain ⟨f, hf, _⟩ := findIdx?_some_get hidx
    have hfm : f ∈ (mclr s).files := List.mem_of_getElem? hf
    obtain ⟨vi, hv, hvol, hrv, _⟩ := vol_of_file hI hfm
    have hvs : s.vols = [vi] := hv
    have hvfind : s.vols.findIdx? (·.rawVolume = f.rawVolume) = some 0 := by rw [hvs]; simp [hrv]
    have hvi : s.vols[0]? = some vi := by rw [hvs]; rfl
    by_cases hmode : f.mode = .ReadOnly
    · rw [WriteRefines.write_readOnly s file i 0 data f hidx hf hvfind hmode]
      exact hR
    have hM := medX_of_med hI.med
    have hG : HeadsOK gh.G := med_heads hM
    have hT := hI.med.tree
    obtain ⟨hok, hcur⟩ := hI.med.fileOK f hfm
    generalize hcsdef : chainOf gh.G f.entry.cluster = cs at hok hcur
    have hhead : cs ≠ [] → cs ∈ gh.G ∧ cs.head? = some f.entry.cluster := by
      intro hne
      rw [← hcsdef] at hne ⊢
      exact chainOf_spec hG ((chainOf_ne_nil_iff hG).1 hne)
    obtain ⟨A, B, hGeq⟩ : ∃ A B, gh.G = withChain A cs B := by
      by_cases hne : cs = []
      · exact ⟨[], gh.G, by rw [hne, WriteRefines.withChain_nil]; rfl⟩
      · obtain ⟨A, B, h⟩ := List.append_of_mem (hhead hne).1
        exact ⟨A, B, by rw [WriteRefines.withChain_ne hne, h]; simp⟩
    have hokf : MgrOKF s := ⟨hI.coherent, hI.med.blocksOK, hI.unlocked⟩
    have hown : Owns vi.vol s.dev.disk (withChain A cs (B ++ X)) := by
      rw [hvol, ← withChain_append, ← hGeq]; exact hI.med.owns
    obtain ⟨_, ⟨cs', hpre, hoth⟩⟩ := write_kept s file i 0 data f vi cs A (B ++ X) hokf hidx hf hvfind hvi hmode
      (by rw [hvol]; exact hI.med.geom) (by rw [hvol]; exact hI.med.hint) (by rw [hvol]; exact hok) hcur hown
    rw [hvol] at hoth
    -- the directories
    have hdirne : ∀ h, h ∈ dirIds gh.dirs → ¬ isFixedRoot gh.vol h → dirHead gh.vol h ≠ f.entry.cluster := by
      intro h hh hfx e
      have h2 : 2 ≤ dirHead gh.vol h := by
        obtain ⟨Y, hY, hYe⟩ := List.mem_map.1 (dirHead_mem hM hh hfx)
        have := hG.ge Y hY
        rw [hYe] at this; exact this
      obtain ⟨n1, n2⟩ := file_cluster_not_dir hT hG hfm (by omega)
      rcases dirHead_cases' (dirs := gh.dirs) hh hfx with h1 | h1
      · exact n1 (e ▸ h1)
      · exact n2 (e ▸ h1)
    refine rawAll_dirBlocks hM hR fun h hh sl hsl => ?_
    apply hoth.frame
    · intro hfat
      have := WriteRefines.isFatBlock_region hI.med.geom hfat
      rcases dirSlot_not_fat hM hh hsl with h1 | h1 <;> rw [this] at h1 <;> cases h1
    · intro hcb
      have hreg := WriteRefines.isClusterBlock_region hI.med.geom hoth.inRange hcb
      by_cases hfx : isFixedRoot gh.vol h
      · rw [dirSlots_fixed hfx] at hsl
        have := fixedRootSlots_region hI.med.geom hfx.2 hsl
        rw [hreg] at this; cases this
      · rw [dirSlots_chain hfx] at hsl
        obtain ⟨hm, hhd⟩ := dirChain_spec hM hh hfx
        obtain ⟨c, hc, hrunS⟩ := mem_chainSlots.1 hsl
        obtain ⟨j, q, hj, _, rfl⟩ := mem_runSlots.1 hrunS
        have hmAB : chainOf gh.G (dirHead gh.vol h) ∈ A ++ B :=
          mem_rest (by rw [← hGeq]; exact hm) (fun hne => (hhead hne).2) hhd (hdirne h hh hfx)
        have hmABX : chainOf gh.G (dirHead gh.vol h) ∈ A ++ (B ++ X) := by
          rw [← List.append_assoc]; exact List.mem_append_left _ hmAB
        exact WriteRefines.clusterBlock_not_of_not_mem hI.med.geom hoth.inRange (med_inRange hM hm hc) hj
          ((hoth.chains _ hmABX).2 c hc) hcb

end Sdmmc.Lemmas.FaultX
