/-
C16 at the API level, part 8 — a session on a mounted FAT32 volume, second and third phase:
`flush_file` / `close_file` calls (`Closing`, `close_step`, `close_history`) and the final
`close_volume` (`closeVolume_stored`), and what mounting the medium reads afterwards
(`remount_after_close`).
-/
import Sdmmc.Lemmas.AcctSession
import Sdmmc.Lemmas.ReopenMain
import Sdmmc.Lemmas.TablesInv

namespace Sdmmc.Lemmas.Acct
open Sdmmc.Model Sdmmc.Model.Fat Sdmmc.Spec Sdmmc.Spec.DataPlane
open Sdmmc.Lemmas.FBasic hiding NoFault Coherent
open Sdmmc.Lemmas.FatOps hiding BlocksOK Mirror HintOK
open Sdmmc.Lemmas.ChainL Sdmmc.Lemmas.ForestBase Sdmmc.Lemmas.ForestCount Sdmmc.Lemmas.ReadRefines
open Sdmmc.Lemmas.WriteRefines

/-! ### What `update_info_sector` leaves in the info sector -/

/-- What mounting can have read: a count below `0xFFFFFFFF`, a hint in `[2, 0xFFFFFFFF)`. -/
structure MountedRec (w : FatVolume) : Prop where
  count : ∀ n, w.freeClustersCount = some n → n < 0xFFFFFFFF
  hint : ∀ n, w.nextFreeCluster = some n → 2 ≤ n ∧ n < 0xFFFFFFFF

theorem mountedRec_of_mount (d : Disk) (idx : Nat) (w : FatVolume) (hm : mountPure (d.get 0) idx d.get = .ok w)
    (h32 : w.fatType = .fat32) : MountedRec w :=
  ⟨(parse_bounds _ _ _ (mount_info d idx w hm h32)).1, (parse_bounds _ _ _ (mount_info d idx w hm h32)).2⟩

/-- The info sector right after `update_info_sector`, `k` clusters having been taken since the
mount: it reads as the mounted count minus `k` (unknown if that was unknown), and as the mounted
hint — for sure if nothing was allocated — or a data cluster of the volume. -/
structure StoredOK (w : FatVolume) (b : Block) (k : Nat) : Prop where
  len : b.length = 512
  parse : ∃ nf, Info.parse b = .ok (w.freeClustersCount.map (· - k), nf) ∧ (k = 0 → nf = w.nextFreeCluster) ∧
    (nf = w.nextFreeCluster ∨ HintIn w nf)

theorem StoredOK.infoInv {w : FatVolume} {b : Block} {k : Nat} (h : StoredOK w b k) : InfoInv w b k := by
  obtain ⟨nf, h1, h2, h3⟩ := h.parse
  exact ⟨h.len, _, nf, h1, fun hn => by rw [hn]; rfl, h2, h3⟩

theorem endCluster_bound32 {w : FatVolume} (hg : WFGeom w) (h32 : w.fatType = .fat32) : endCluster w ≤ 0x0FFFFFF7 := by
  have := hg.count_bound
  rw [h32] at this
  exact this

/-- The sector after the patch. -/
theorem patch_stored {w v : FatVolume} {d0 d : Disk} {b : Block} {k : Nat} (hgw : WFGeom w) (h32 : w.fatType = .fat32)
    (hrec : MountedRec w) (hacct : Acct w v d0 d k) (hi : InfoInv w b k) : StoredOK w (infoPatch v b) k := by
  obtain ⟨fc, nf, hp, hcn, hk0, hnf⟩ := hi.parse
  have hE := endCluster_bound32 hgw h32
  have hcnt := hacct.count
  have hvh : (k = 0 ∧ v.nextFreeCluster = w.nextFreeCluster) ∨ (0 < k ∧ HintIn w v.nextFreeCluster) := by
    rcases Nat.eq_zero_or_pos k with h | h
    · exact .inl ⟨h, hacct.hint0 h⟩
    · exact .inr ⟨h, hacct.hint h⟩
  have hhb : ∀ n, v.nextFreeCluster = some n → 2 ≤ n ∧ n < 0xFFFFFFFF := by
    intro n hn
    rcases hvh with ⟨_, e⟩ | ⟨_, hin⟩
    · exact hrec.hint n (by rw [← e]; exact hn)
    · rcases hin with hin | ⟨m, hm, h2, h3⟩
      · rw [hin] at hn; cases hn
      · rw [hm] at hn; cases hn; omega
  have hcb : ∀ n, v.freeClustersCount = some n → n < 0xFFFFFFFF := by
    intro n hn
    rw [hcnt] at hn
    cases hw : w.freeClustersCount with
    | none => rw [hw] at hn; cases hn
    | some m =>
      rw [hw] at hn
      simp only [Option.map_some, Option.some.injEq] at hn
      have := hrec.count m hw
      omega
  have hparse := infoPatch_parse v b hi.len fc nf hp (fun n hn => by have := hcb n hn; omega)
    (fun n hn => by have := (hhb n hn).2; omega)
  refine ⟨(infoPatch_facts v b hi.len).1, (storedPair v.freeClustersCount v.nextFreeCluster fc nf).2, ?_, ?_, ?_⟩
  · rw [hparse]
    have hfst : (storedPair v.freeClustersCount v.nextFreeCluster fc nf).1 = w.freeClustersCount.map (· - k) := by
      show (match v.freeClustersCount with | some n => normCount n | none => fc) = _
      cases hw : w.freeClustersCount with
      | none => rw [hcnt, hw]; exact hcn hw
      | some m =>
        have hv : v.freeClustersCount = some (m - k) := by rw [hcnt, hw]; rfl
        rw [hv]
        show normCount (m - k) = _
        unfold normCount
        rw [if_neg (by have := hcb _ hv; omega)]
        rfl
    rw [← hfst]
  · intro hk
    unfold storedPair
    show (match v.nextFreeCluster with | some n => normHint n | none => nf) = _
    rcases hvh with ⟨_, e⟩ | ⟨hpos, _⟩
    · cases hv : v.nextFreeCluster with
      | none => rw [← e, hv]; rw [hk0 hk, ← e, hv]
      | some n =>
        have := hhb n hv
        show normHint n = _
        unfold normHint
        rw [if_neg (by omega), ← e, hv]
    · omega
  · unfold storedPair
    show (match v.nextFreeCluster with | some n => normHint n | none => nf) = _ ∨ HintIn w (match v.nextFreeCluster with | some n => normHint n | none => nf)
    cases hv : v.nextFreeCluster with
    | none => exact hnf
    | some n =>
      have := hhb n hv
      show normHint n = _ ∨ HintIn w (normHint n)
      have hn : normHint n = some n := by unfold normHint; rw [if_neg (by omega)]
      rw [hn]
      rcases hvh with ⟨_, e⟩ | ⟨_, hin⟩
      · exact .inl (by rw [← e, hv])
      · exact .inr (by rw [← hv]; exact hin)

/-- Nothing to record: the sector as it was. -/
theorem unpatched_stored {w v : FatVolume} {d0 d : Disk} {b : Block} {k : Nat} (hacct : Acct w v d0 d k) (hi : InfoInv w b k)
    (hnone : v.freeClustersCount = none) : StoredOK w b k := by
  obtain ⟨fc, nf, hp, hcn, hk0, hnf⟩ := hi.parse
  have hw : w.freeClustersCount = none := by
    have := hacct.count
    rw [hnone] at this
    cases hw : w.freeClustersCount with
    | none => rfl
    | some m => rw [hw] at this; cases this
  refine ⟨hi.len, nf, ?_, hk0, hnf⟩
  rw [hp, hcn hw, hw]
  rfl

/-- What `update_info_sector` leaves (FAT32). -/
theorem stored_after {w v : FatVolume} {d0 d : Disk} {b : Block} {k : Nat} (hgw : WFGeom w) (h32 : w.fatType = .fat32)
    (hrec : MountedRec w) (hsg : SameGeom w v) (hacct : Acct w v d0 d k) (hi : InfoInv w b k) :
    StoredOK w (if v.fatType = .fat32 ∧ ¬ (v.freeClustersCount = none ∧ v.nextFreeCluster = none) then infoPatch v b else b) k := by
  by_cases hc : v.fatType = .fat32 ∧ ¬ (v.freeClustersCount = none ∧ v.nextFreeCluster = none)
  · rw [if_pos hc]; exact patch_stored hgw h32 hrec hacct hi
  · rw [if_neg hc]
    have h32v : v.fatType = .fat32 := by rw [sameGeom_fatType hsg]; exact h32
    have : v.freeClustersCount = none := by
      apply Classical.byContradiction
      intro hn
      exact hc ⟨h32v, fun h => hn h.1⟩
    exact unpatched_stored hacct hi this

/-! ### The second phase: flushes and closes -/

/-- The invariant of the closing phase. -/
structure Closing (w : FatVolume) (d0 : Disk) (vol : Nat) (dirs0 : List DirInfo) (s : Mgr) (k : Nat) : Prop where
  track : Track w d0 vol dirs0 s k
  ok : MOK s
  asserts : ∀ f, f ∈ s.files → ¬ (f.entry.size ≠ 0 ∧ f.entry.cluster = 0)

theorem closing_of_dataInv {w : FatVolume} {d0 : Disk} {vol : Nat} {dirs0 : List DirInfo} {s : Mgr} {k : Nat}
    {chains rest : List (List Nat)} (hinv : DataInv s chains rest) (ht : Track w d0 vol dirs0 s k) :
    Closing w d0 vol dirs0 s k := by
  refine ⟨ht, inv_mok hinv, ?_⟩
  intro f hf
  obtain ⟨j, hj, hfj⟩ := List.mem_iff_getElem.1 hf
  have hjc : j < chains.length := by rw [hinv.len]; exact hj
  have := (hinv.files j f chains[j] (by rw [List.getElem?_eq_getElem hj, hfj]) (List.getElem?_eq_getElem hjc)).2.1
  exact Reopen.assert_of_fileOK this

/-- A step that rewrites one directory block or the info sector, and nothing else. -/
theorem Track.flushed {w : FatVolume} {d0 : Disk} {vol : Nat} {dirs0 : List DirInfo} {s s1 : Mgr} {k : Nat}
    (ht : Track w d0 vol dirs0 s k) (hgw : WFGeom w) (h32 : w.fatType = .fat32)
    (hvols : s1.vols = s.vols) (hdirs : s1.dirs = s.dirs) (hfiles : ∀ f, f ∈ s1.files → f ∈ s.files) (E : Nat)
    (hE : E = w.infoLocation ∨ regionOf w E = .data ∨ regionOf w E = .root)
    (hoth : ∀ b, b ≠ E → b ≠ w.infoLocation → s1.dev.disk.get b = s.dev.disk.get b)
    (hinfo : InfoInv w (s1.dev.disk.get w.infoLocation) k) : Track w d0 vol dirs0 s1 k := by
  have htv : theVol s1 = theVol s := by unfold theVol; rw [hvols]
  have hri := info_region hgw h32
  have hEr : regionOf w E = .info ∨ regionOf w E = .data ∨ regionOf w E = .root := by
    rcases hE with e | e | e
    · exact .inl (by rw [e]; exact hri)
    · exact .inr (.inl e)
    · exact .inr (.inr e)
  have hfar : ∀ b, regionOf w b ≠ .info → regionOf w b ≠ .data → regionOf w b ≠ .root → s1.dev.disk.get b = s.dev.disk.get b := by
    intro b h1 h2 h3
    apply hoth
    · intro e; rw [e] at h1 h2 h3
      rcases hEr with r | r | r
      · exact h1 r
      · exact h2 r
      · exact h3 r
    · intro e; rw [e] at h1; exact h1 hri
  refine ⟨by rw [hvols]; exact ht.vols, by rw [hdirs]; exact ht.dirs, fun f hf => ht.slots f (hfiles f hf),
    by rw [htv]; exact ht.geom, ?_, ?_, hinfo⟩
  · rw [htv]
    have hgu : WFGeom (theVol s) := ht.geom.wfGeom hgw
    have : Acct (theVol s) (theVol s) s.dev.disk s1.dev.disk 0 := by
      apply acct_of_fat_eq
      intro b hb
      have hr := isFatBlock_region hgu hb
      rw [sameGeom_regionOf ht.geom] at hr
      exact hfar b (by rw [hr]; intro x; cases x) (by rw [hr]; intro x; cases x) (by rw [hr]; intro x; cases x)
    exact Acct.trans ht.geom ht.acct this
  · intro b hb
    obtain ⟨_, l2, l3, l4⟩ := low_region hb
    rw [hfar b l4 l2 l3]; exact ht.low b hb

section
variable {w : FatVolume} {d0 : Disk} {vol : Nat} {dirs0 : List DirInfo}

/-- `flush_file` in the closing phase: it never panics, leaves the tables alone and keeps the
invariant. -/
theorem flush_closing (hgw : WFGeom w) (h32 : w.fatType = .fat32) (hrec : MountedRec w) (s : Mgr) (k : Nat)
    (hc : Closing w d0 vol dirs0 s k) (h : Nat) :
    ∃ r s1, flushFile h s = (r, s1) ∧ s1.files = s.files ∧ Closing w d0 vol dirs0 s1 k := by
  cases hh : s.files.findIdx? (·.rawFile = h) with
  | none =>
    exact ⟨.err .BadHandle, s, by unfold flushFile; rw [MHoare.bind_err (MHoare.getFileById_bad hh)], rfl, hc⟩
  | some i =>
    obtain ⟨f, hf, _⟩ := MHoare.findIdx?_some_get hh
    cases hd : f.dirty with
    | false => exact ⟨.ok (), s, DirMgr.flushFile_clean h i f s (MHoare.getFileById_ok hh) (MHoare.getFile_ok hf) hd, rfl, hc⟩
    | true =>
      obtain ⟨v, hvols, hid⟩ := hc.track.vols
      have hmem : f ∈ s.files := List.mem_of_getElem? hf
      have slot := hc.track.slots f hmem
      have hv : s.vols.findIdx? (·.rawVolume = f.rawVolume) = some 0 := by
        rw [hvols, List.findIdx?_cons]
        have : decide (v.rawVolume = f.rawVolume) = true := by
          rw [decide_eq_true_eq, hid, slot.vol]
        rw [this]; rfl
      have hvi : s.vols[0]? = some v := by rw [hvols]; rfl
      have htv : theVol s = v.vol := theVol_eq hvols
      have hgv : SameGeom w v.vol := by rw [← htv]; exact hc.track.geom
      have hri := info_region hgw h32
      have hne : f.entry.entryBlock ≠ v.vol.infoLocation := by
        rw [sameGeom_infoLocation hgv]
        intro e
        rw [← e] at hri
        rcases slot.region with r | r <;> rw [r] at hri <;> cases hri
      obtain ⟨s1, hfl, hshape, hok1, hoth, hinf⟩ :=
        flush_info s h i 0 f v hc.ok hh hf hv hvi hd (hc.asserts f hmem) slot.off slot.name hne
      have hfiles : s1.files = s.files := by rw [hshape]
      refine ⟨.ok (), s1, hfl, hfiles, ?_, hok1, by rw [hfiles]; exact hc.asserts⟩
      rw [sameGeom_infoLocation hgv] at hoth hinf
      refine hc.track.flushed hgw h32 (by rw [hshape]) (by rw [hshape]) (by rw [hfiles]; exact fun _ h => h)
        f.entry.entryBlock (.inr slot.region) hoth ?_
      rw [hinf]
      have hacct := hc.track.acct
      rw [htv] at hacct
      exact (stored_after hgw h32 hrec hgv hacct hc.track.info).infoInv

theorem mem_swapRemove {α} {l : List α} {i : Nat} {x : α} (h : x ∈ swapRemove l i) : x ∈ l := by
  by_cases hi : i < l.length
  · exact List.mem_of_mem_eraseIdx ((Tables.swapRemove_perm l i hi).mem_iff.1 h)
  · rw [Tables.swapRemove_of_ge l i (by omega)] at h; exact h

/-- `close_file` in the closing phase. -/
theorem closeFile_closing (hgw : WFGeom w) (h32 : w.fatType = .fat32) (hrec : MountedRec w) (s : Mgr) (k : Nat)
    (hc : Closing w d0 vol dirs0 s k) (h : Nat) : Closing w d0 vol dirs0 (closeFile h s).2 k := by
  obtain ⟨r, s1, hfl, hfiles, hc1⟩ := flush_closing hgw h32 hrec s k hc h
  cases hh : s.files.findIdx? (·.rawFile = h) with
  | none =>
    have hh1 : s1.files.findIdx? (·.rawFile = h) = none := by rw [hfiles]; exact hh
    have : closeFile h s = (.err .BadHandle, s1) := by
      unfold closeFile
      rw [MHoare.attempt_bind, hfl]
      dsimp only
      rw [MHoare.bind_err (MHoare.getFileById_bad hh1)]
    rw [this]
    exact hc1
  | some i =>
    have hh1 : s1.files.findIdx? (·.rawFile = h) = some i := by rw [hfiles]; exact hh
    have : (closeFile h s).2 = { s1 with files := swapRemove s1.files i } := by
      unfold closeFile
      rw [MHoare.attempt_bind, hfl]
      dsimp only
      rw [MHoare.bind_ok (MHoare.getFileById_ok hh1), MHoare.modify_bind]
      cases r <;> rfl
    rw [this]
    refine ⟨hc1.track.light rfl rfl rfl (fun f hf => hc1.track.slots f (mem_swapRemove hf)), hc1.ok,
      fun f hf => hc1.asserts f (mem_swapRemove hf)⟩

/-- The calls of the closing phase. -/
def IsCloseOp : Op → Prop
  | .flush _ | .closeFile _ => True
  | _ => False

theorem Closing.resetLogs {s : Mgr} {k : Nat} (h : Closing w d0 vol dirs0 s k) : Closing w d0 vol dirs0 (MHoare.resetLogs s) k :=
  ⟨h.track.resetLogs, h.ok, h.asserts⟩

theorem close_step (hgw : WFGeom w) (h32 : w.fatType = .fat32) (hrec : MountedRec w) (s : Mgr) (k : Nat)
    (hc : Closing w d0 vol dirs0 s k) (op : Op) (hop : IsCloseOp op) : Closing w d0 vol dirs0 (step s op).1 k := by
  rw [MHoare.step_unlocked s op hc.ok.2.2.2]
  have hc0 := hc.resetLogs
  show Closing w d0 vol dirs0 (runOp op (MHoare.resetLogs s)).2 k
  cases op with
  | flush h =>
    obtain ⟨r, s1, hfl, _, hc1⟩ := flush_closing hgw h32 hrec _ k hc0 h
    have : (runOp (.flush h) (MHoare.resetLogs s)).2 = s1 := by
      show ((flushFile h >>= fun _ => pure Payload.unit) (MHoare.resetLogs s)).2 = s1
      rw [MHoare.bind_def, hfl]
      cases r <;> rfl
    rw [this]; exact hc1
  | closeFile h =>
    have : (runOp (.closeFile h) (MHoare.resetLogs s)).2 = (closeFile h (MHoare.resetLogs s)).2 := by
      show ((closeFile h >>= fun _ => pure Payload.unit) (MHoare.resetLogs s)).2 = _
      rw [MHoare.bind_def]
      generalize closeFile h (MHoare.resetLogs s) = p
      obtain ⟨r, s1⟩ := p
      cases r <;> rfl
    rw [this]; exact closeFile_closing hgw h32 hrec _ k hc0 h
  | _ => exact absurd hop (by simp [IsCloseOp])

theorem close_history (hgw : WFGeom w) (h32 : w.fatType = .fat32) (hrec : MountedRec w) (ops : List Op) :
    ∀ (s : Mgr) (k : Nat), Closing w d0 vol dirs0 s k → (∀ op, op ∈ ops → IsCloseOp op) →
      Closing w d0 vol dirs0 (run s ops).1 k := by
  induction ops with
  | nil => intro s k hc _; exact hc
  | cons op ops ih =>
    intro s k hc hops
    rw [run_cons]
    exact ih _ k (close_step hgw h32 hrec s k hc op (hops op List.mem_cons_self)) (fun o ho => hops o (List.mem_cons_of_mem _ ho))

/-! ### The third phase: `close_volume` -/

theorem closeVolume_ok_inv (s : Mgr) (vol : Nat) (h : (closeVolume vol s).1 = .ok ()) :
    s.files.any (·.rawVolume = vol) = false ∧ s.dirs.any (·.rawVolume = vol) = false := by
  unfold closeVolume at h
  rw [MHoare.get_bind] at h
  cases hf : s.files.any (·.rawVolume = vol) with
  | true => rw [hf] at h; simp only [↓reduceIte] at h; cases h
  | false =>
    cases hd : s.dirs.any (·.rawVolume = vol) with
    | true => rw [hf, hd] at h; simp only [Bool.false_eq_true, ↓reduceIte] at h; cases h
    | false => exact ⟨rfl, rfl⟩

/-- **`close_volume` at the end of a session**, when it answers `Ok`: the volume's record is gone,
no block but the info sector changed, and the info sector now reads as `StoredOK` says. -/
theorem closeVolume_stored (hgw : WFGeom w) (h32 : w.fatType = .fat32) (hrec : MountedRec w) (s : Mgr) (k : Nat)
    (hc : Closing w d0 vol dirs0 s k) (hok : (closeVolume vol s).1 = .ok ()) :
    (closeVolume vol s).2.vols = [] ∧
    (∀ b, b ≠ w.infoLocation → (closeVolume vol s).2.dev.disk.get b = s.dev.disk.get b) ∧
    StoredOK w ((closeVolume vol s).2.dev.disk.get w.infoLocation) k := by
  obtain ⟨hfa, hda⟩ := closeVolume_ok_inv s vol hok
  obtain ⟨v, hvols, hid⟩ := hc.track.vols
  have hv : s.vols.findIdx? (·.rawVolume = vol) = some 0 := by
    rw [hvols, List.findIdx?_cons]
    have : decide (v.rawVolume = vol) = true := by rw [decide_eq_true_eq, hid]
    rw [this]; rfl
  have hvi : s.vols[0]? = some v := by rw [hvols]; rfl
  have htv : theVol s = v.vol := theVol_eq hvols
  have hgv : SameGeom w v.vol := by rw [← htv]; exact hc.track.geom
  obtain ⟨s1, hrun, hshape, _, hoth, hinf⟩ := closeVolume_spec s vol 0 v hc.ok hfa hda hv hvi
  rw [hrun]
  rw [sameGeom_infoLocation hgv] at hoth hinf
  refine ⟨?_, hoth, ?_⟩
  · show s1.vols = []
    rw [hshape]
    show swapRemove s.vols 0 = []
    rw [hvols]; rfl
  · show StoredOK w (s1.dev.disk.get w.infoLocation) k
    rw [hinf]
    have hacct := hc.track.acct
    rw [htv] at hacct
    exact stored_after hgw h32 hrec hgv hacct hc.track.info

/-- **Mounting after the session.**  The record mounting reads from the medium the final
`close_volume` left: the geometry of the first mount; the count of the first mount minus the `k`
clusters taken (unknown if it was unknown); a hint that is the first mount's — for sure if nothing
was allocated, out of range or not — or else unknown or a data cluster of the volume.  And the number
of free FAT entries went down by exactly `k`. -/
theorem remount_after_close (hgw : WFGeom w) (h32 : w.fatType = .fat32) (idx : Nat)
    (hm : mountPure (d0.get 0) idx d0.get = .ok w) (s : Mgr) (k : Nat)
    (hc : Closing w d0 vol dirs0 s k) (hok : (closeVolume vol s).1 = .ok ()) :
    ∃ nf, mountPure ((closeVolume vol s).2.dev.disk.get 0) idx (closeVolume vol s).2.dev.disk.get =
        .ok { w with freeClustersCount := w.freeClustersCount.map (· - k), nextFreeCluster := nf } ∧
      (k = 0 → nf = w.nextFreeCluster) ∧ (nf = w.nextFreeCluster ∨ HintIn w nf) ∧
      freeCount w (closeVolume vol s).2.dev.disk + k = freeCount w d0 ∧
      (Mirror w d0 → Mirror w (closeVolume vol s).2.dev.disk) := by
  have hrec := mountedRec_of_mount d0 idx w hm h32
  obtain ⟨_, hoth, hst⟩ := closeVolume_stored hgw h32 hrec s k hc hok
  obtain ⟨nf, hp, h0, h1⟩ := hst.parse
  have hri := info_region hgw h32
  have hlow : ∀ b, b ≤ w.lbaStart → (closeVolume vol s).2.dev.disk.get b = d0.get b := by
    intro b hb
    obtain ⟨_, _, _, l4⟩ := low_region hb
    rw [hoth b (fun e => l4 (by rw [e]; exact hri))]
    exact hc.track.low b hb
  have hfat : ∀ b, IsFatBlock w b → (closeVolume vol s).2.dev.disk.get b = s.dev.disk.get b := by
    intro b hb
    have hr := isFatBlock_region hgw hb
    exact hoth b (fun e => by rw [e, hri] at hr; cases hr)
  have hacct : Acct w (theVol s) d0 (closeVolume vol s).2.dev.disk k :=
    Acct.trans hc.track.geom hc.track.acct
      (acct_of_fat_eq (v := theVol s) fun b hb => hfat b ((sameGeom_isFatBlock hc.track.geom b).1 hb))
  exact ⟨nf, mount_of_info d0 _ idx w hm h32 (hlow 0 (Nat.zero_le _)) (hlow _ (Nat.le_refl _)) _ _ hp, h0, h1,
    hacct.free, hacct.mirror⟩

end

end Sdmmc.Lemmas.Acct
