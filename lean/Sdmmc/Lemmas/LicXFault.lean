/-
C11 over histories WITHOUT `Mirror`, with LOST CHAINS, under ONE FAULT SCHEDULE — licences along a history.

* `step_lic1`: one covered call from the invariant up to the schedule and lost chains (`VolInvX X (mclr s)`): its writes —
  under whatever is scheduled, WHATEVER device call fails — are
  `AllLicensed1` (FAT copy 2 unconstrained) by a licence `LicenceFor` describes in the state the call is issued in, and the
  medium afterwards is the medium before with these writes applied.  A failing call of `classL` writes a PREFIX of the
  writes of the fault-free call (`MPre`; for `write`: `MPw`, `Lemmas/LicXWriteP.lean`), which are licensed (`Lic.step_callOK`, from the invariant with
  lost chains, no `Mirror`).
* `RunLic1` / `runLic1_of`: the same along a history, the invariant being `InvFE` (`Lemmas/FaultXRawRun.lean`), device
  failures in calls of `classC` only (anywhere but inside a truncating open); `make_dir_in_dir`, whose failed run
  cleans up, is `Lemmas/LicXMkdirApi.mkdir_licF`.
* `unnamed_unchanged_1`: an object no licence of the history names keeps its slot bytes, its chain AS READ THROUGH FAT
  COPY 1 and its chain bytes; `runLic1_mounts`: the medium keeps mounting.
-/
import Sdmmc.Lemmas.LicXFrame
import Sdmmc.Lemmas.FaultXRawRun
import Sdmmc.Lemmas.FaultHistLic
import Sdmmc.Lemmas.LicXWriteP
import Sdmmc.Lemmas.LicXMkdirApi

namespace Sdmmc.Lemmas.VolX.Lic
open Sdmmc.Model Sdmmc.Model.Fat Sdmmc.Spec.Volume
open Sdmmc.Spec hiding NoFault Coherent
open Sdmmc.Lemmas.MHoare Sdmmc.Lemmas.FaultInv Sdmmc.Lemmas.Retry Sdmmc.Lemmas.FaultHist
open Sdmmc.Lemmas.WriteSetInv (LicenceFor NotNamed NameCovered LicWF Spares Covers spares_of_avoids avoids_of block_ext run_cons)
open Sdmmc.Lemmas.FaultX (InvF InvFE classC)

/-- The calls in which a device failure is covered by the licence argument: all but `make_dir_in_dir` (whose failed run
cleans up: it writes what the fault-free run never writes). -/
def classL : Op → Bool
  | .mkdir _ _ => false
  | _ => true

/-- Every call of `classL` that writes at all satisfies `MPw`: its failed run writes a prefix of the fault-free run's
writes. -/
theorem runOp_mpw (op : Op) (hro : Fault.readOnlyOp op = false) (h : classL op = true) : MPw (runOp op) := by
  cases op with
  | write f b => exact MPw.bind (write_mpw f b) fun _ => MPw.pure _
  | mkdir d n => cases h
  | closeVolume v => exact .of_mpre (FaultPre.runOp_mpre _ rfl)
  | openFile d n m => exact .of_mpre (FaultPre.runOp_mpre _ rfl)
  | flush f => exact .of_mpre (FaultPre.runOp_mpre _ rfl)
  | closeFile f => exact .of_mpre (FaultPre.runOp_mpre _ rfl)
  | delete d n => exact .of_mpre (FaultPre.runOp_mpre _ rfl)
  | read f n => cases hro
  | openVolume i => cases hro
  | label v => cases hro
  | openRoot v => cases hro
  | openDir d n => cases hro
  | closeDir d => cases hro
  | seekStart f n => cases hro
  | seekCur f n => cases hro
  | seekEnd f n => cases hro
  | find d n => cases hro
  | list d => cases hro
  | listLfn d n => cases hro
  | length f => cases hro
  | offset f => cases hro
  | eof f => cases hro
  | hasOpen => cases hro

/-- From `MPw` to `step`: the writes of the call under a schedule are a prefix of the writes of the call without it, and
the medium afterwards is the medium before with the former applied. -/
theorem step_pfx {s0 : Mgr} (hl : s0.locked = false) (hn : s0.dev.faults = []) (L : List Nat) (op : Op) (h : MPw (runOp op)) :
    ∃ ws', (step s0 op).2.writes = (step (withFaults L s0) op).2.writes ++ ws' ∧
      (step (withFaults L s0) op).1.dev.disk = s0.dev.disk.applyWrites (step (withFaults L s0) op).2.writes := by
  rw [MHoare.step_unlocked (withFaults L s0) op hl, MHoare.step_unlocked s0 op hl, resetLogs_withFaults]
  have hc : mclr (withFaults L (resetLogs s0)) = resetLogs s0 := mclr_withFaults (s0 := resetLogs s0) hn L
  obtain ⟨wa, wb, hta, htb⟩ := h.pfx (withFaults L (resetLogs s0))
  rw [hc] at htb
  have hw1 : (runOp op (withFaults L (resetLogs s0))).2.dev.wlog.reverse = wa := by
    have := hta.wlog
    show (FaultPre.mfs (runOp op (withFaults L (resetLogs s0))).2).dev.wlog.reverse = wa
    rw [this]; exact FaultInv.reverse_append_nil wa
  have hw2 : (runOp op (resetLogs s0)).2.dev.wlog.reverse = wa ++ wb := by
    have := htb.wlog
    show (FaultPre.mfs (runOp op (resetLogs s0)).2).dev.wlog.reverse = wa ++ wb
    rw [this]; exact FaultInv.reverse_append_nil _
  refine ⟨wb, ?_, ?_⟩
  · show (runOp op (resetLogs s0)).2.dev.wlog.reverse = (runOp op (withFaults L (resetLogs s0))).2.dev.wlog.reverse ++ wb
    rw [hw1, hw2]
  · show (runOp op (withFaults L (resetLogs s0))).2.dev.disk =
      s0.dev.disk.applyWrites (runOp op (withFaults L (resetLogs s0))).2.dev.wlog.reverse
    rw [hw1]; exact hta.disk

variable {X : List (List Nat)}

/-- **`make_dir_in_dir` through `step`**, under any schedule. -/
theorem step_mkdir_lic1 {s : Mgr} {gh : Ghost} (hI : VolInvX X (mclr s) gh) (d : Nat) (name : List Nat)
    (hname : ∀ sfn, Sfn.createFromStr name = .ok sfn → sfn.head? ≠ some 0xE5) :
    ∃ L, LicenceFor gh s.files s.dirs s.dev.disk (.mkdir d name) L ∧
      AllLicensed1 gh.vol s.dev.disk L (step s (.mkdir d name)).2.writes ∧
      (∀ i, (step s (.mkdir d name)).1.dev.disk.get i = (s.dev.disk.applyWrites (step s (.mkdir d name)).2.writes).get i) := by
  have hI0 := VolX.volInv_resetLogs hI
  obtain ⟨L, hLF, ws, hw, hd, hal⟩ := mkdir_licF hI0 s.dev.faults d name hname
  have e0 : withFaults s.dev.faults (resetLogs (mclr s)) = resetLogs s := by
    rw [← resetLogs_withFaults, withFaults_mclr]
  rw [e0] at hw hd
  have hw' : (runOp (.mkdir d name) (resetLogs s)).2.dev.wlog.reverse = ws := by
    rw [WriteSet.runOp_mkdir, hw]
    show (ws.reverse ++ []).reverse = ws
    rw [List.append_nil, List.reverse_reverse]
  have hl : s.locked = false := hI.unlocked
  rw [MHoare.step_unlocked s _ hl]
  refine ⟨L, hLF, ?_, fun i => ?_⟩
  · show AllLicensed1 gh.vol s.dev.disk L (runOp (.mkdir d name) (resetLogs s)).2.dev.wlog.reverse
    rw [hw']; exact hal
  · show (runOp (.mkdir d name) (resetLogs s)).2.dev.disk.get i =
      (s.dev.disk.applyWrites (runOp (.mkdir d name) (resetLogs s)).2.dev.wlog.reverse).get i
    rw [hw', WriteSet.runOp_mkdir, hd]; rfl

/-- **One call from the invariant up to the schedule and lost chains** — whatever device call fails. -/
theorem step_lic1 {s : Mgr} {gh : Ghost} (hI : VolInvX X (mclr s) gh) (op : Op) (hc : FCovered s op) :
    ∃ L, LicenceFor gh s.files s.dirs s.dev.disk op L ∧ AllLicensed1 gh.vol s.dev.disk L (step s op).2.writes ∧
      (∀ i, (step s op).1.dev.disk.get i = (s.dev.disk.applyWrites (step s op).2.writes).get i) := by
  have hnc := nameCovered_of_fcovered hc
  obtain ⟨L, hS⟩ := step_callOK hI op hnc
  by_cases hq : (step s op).1.dev.failed = s.dev.failed
  · obtain ⟨e1, e2⟩ := FaultHist.step_erase s op hq
    have hd : (step s op).1.dev.disk = (step (mclr s) op).1.dev.disk := by rw [e2]; rfl
    refine ⟨L, hS.lic, ?_, fun i => ?_⟩
    · rw [← e1]; exact hS.all
    · rw [hd, ← e1]; exact hS.disk i
  · by_cases hro : Fault.readOnlyOp op = true
    · obtain ⟨hd, hw⟩ := Fault.step_readonly_nowrite s op hro
      exact ⟨Licence.none, .nothing op, by rw [hw]; trivial, fun i => by rw [hd, hw]; rfl⟩
    · have hro' : Fault.readOnlyOp op = false := by
        cases h : Fault.readOnlyOp op
        · rfl
        · exact absurd h hro
      by_cases hcl : classL op = true
      · obtain ⟨ws', hws, hdisk⟩ := step_pfx (s0 := mclr s) hI.unlocked hI.noFault s.dev.faults op (runOp_mpw op hro' hcl)
        rw [withFaults_mclr] at hws hdisk
        refine ⟨L, hS.lic, ?_, fun i => by rw [hdisk]; rfl⟩
        have hall := hS.all
        rw [hws] at hall
        exact ((WriteSet1.allLicensed_append _ _ _ _ _).1 hall).1
      · cases op with
        | mkdir d name => exact step_mkdir_lic1 hI d name hc
        | write f b => exact absurd rfl hcl
        | closeVolume v => exact absurd rfl hcl
        | openFile d n m => exact absurd rfl hcl
        | flush f => exact absurd rfl hcl
        | closeFile f => exact absurd rfl hcl
        | delete d n => exact absurd rfl hcl
        | read f n => exact absurd rfl hcl
        | openVolume i => exact absurd rfl hcl
        | label v => exact absurd rfl hcl
        | openRoot v => exact absurd rfl hcl
        | openDir d n => exact absurd rfl hcl
        | closeDir d => exact absurd rfl hcl
        | seekStart f n => exact absurd rfl hcl
        | seekCur f n => exact absurd rfl hcl
        | seekEnd f n => exact absurd rfl hcl
        | find d n => exact absurd rfl hcl
        | list d => exact absurd rfl hcl
        | listLfn d n => exact absurd rfl hcl
        | length f => exact absurd rfl hcl
        | offset f => exact absurd rfl hcl
        | eof f => exact absurd rfl hcl
        | hasOpen => exact absurd rfl hcl

/-! ### Histories -/

/-- Every call of the history `ops` from `s` — under the schedule pending in `s` — is licensed (FAT copy 2
unconstrained): `Ls` lists the licences, one per call, each described (`LicenceFor`) from a ghost of the state the call is
issued in (the invariant up to the schedule, with lost chains `Xs`); the geometry is that of `v0` throughout. -/
inductive RunLic1 (v0 : FatVolume) : Mgr → List Op → List Licence → Prop
  | nil (s : Mgr) : RunLic1 v0 s [] []
  | cons (s : Mgr) (op : Op) (ops : List Op) (L : Licence) (Ls : List Licence) (gh : Ghost) (Xs : List (List Nat))
      (hI : VolInvX Xs (mclr s) gh)
      (hg : SameGeom v0 gh.vol) (hl : LicenceFor gh s.files s.dirs s.dev.disk op L)
      (ha : AllLicensed1 v0 s.dev.disk L (step s op).2.writes)
      (hd : ∀ i, (step s op).1.dev.disk.get i = (s.dev.disk.applyWrites (step s op).2.writes).get i)
      (rest : RunLic1 v0 (step s op).1 ops Ls) : RunLic1 v0 s (op :: ops) (L :: Ls)

/-- **Every covered history whose device failures fall in calls of `classC` only (anywhere but inside a truncating open) is
licensed**, and `InvFE` holds at its end. -/
theorem runLic1_of (v0 : FatVolume) : ∀ (ops : List Op) {s : Mgr} {gh : Ghost}, InvFE gh s → SameGeom v0 gh.vol →
    CoveredRunF s ops → FailsOnlyIn classC s ops → ∃ Ls, RunLic1 v0 s ops Ls ∧ InvFE gh (run s ops).1
  | [], s, gh, hI, _, _, _ => ⟨[], .nil s, hI⟩
  | op :: ops, s, gh, hI, hg, hc, hf => by
    obtain ⟨⟨gh1, X1, hI1, hg1⟩, hR⟩ := hI
    obtain ⟨L, hlic, hall, hdisk⟩ := step_lic1 hI1 op hc.1
    obtain ⟨hE1, _⟩ := FaultX.step_inv_C ⟨⟨gh1, X1, hI1, hg1⟩, hR⟩ op hc.1 hf.1
    obtain ⟨Ls, hRun, hE2⟩ := runLic1_of v0 ops hE1 hg hc.2 hf.2
    refine ⟨L :: Ls, .cons s op ops L Ls gh1 X1 hI1 (hg.trans hg1) hlic
      ((WriteSet1.allLicensed_sameGeom (hg.trans hg1) L _ _).1 hall) hdisk hRun, ?_⟩
    rw [run_cons]; exact hE2

theorem runLic1_length {v0 : FatVolume} : ∀ {s : Mgr} {ops : List Op} {Ls : List Licence}, RunLic1 v0 s ops Ls →
    Ls.length = ops.length
  | _, _, _, .nil _ => rfl
  | _, _, _, .cons _ _ _ _ _ _ _ _ _ _ _ _ rest => by
    simp only [List.length_cons]; rw [runLic1_length rest]

theorem runLic1_take {v0 : FatVolume} : ∀ {s : Mgr} {ops : List Op} {Ls : List Licence}, RunLic1 v0 s ops Ls →
    ∀ j, RunLic1 v0 s (ops.take j) (Ls.take j)
  | _, _, _, .nil s, j => by rw [List.take_nil, List.take_nil]; exact .nil s
  | _, _, _, .cons s op ops L Ls gh Xs hI hg hl ha hd rest, 0 => .nil s
  | _, _, _, .cons s op ops L Ls gh Xs hI hg hl ha hd rest, j + 1 => by
    rw [List.take_succ_cons, List.take_succ_cons]
    exact .cons s op _ L _ gh Xs hI hg hl ha hd (runLic1_take rest j)

/-- A byte that no licence of the history covers and that lies outside FAT copy 2 is the same after the history. -/
theorem runLic1_frame {v0 : FatVolume} {b i : Nat} (h2 : ¬ IsFat2Block v0 b) : ∀ {s : Mgr} {ops : List Op} {Ls : List Licence},
    RunLic1 v0 s ops Ls → (∀ L, L ∈ Ls → ¬ Covers v0 L b i) →
      ((run s ops).1.dev.disk.get b).getD i 0 = (s.dev.disk.get b).getD i 0
  | _, _, _, .nil _, _ => rfl
  | _, _, _, .cons s op ops L Ls gh Xs hI hgm hl ha hd rest, hn => by
    rw [run_cons]
    show ((run (step s op).1 ops).1.dev.disk.get b).getD i 0 = _
    rw [runLic1_frame h2 rest (fun L' hL' => hn L' (List.mem_cons_of_mem _ hL')), hd b]
    exact allLicensed1_frame (hn L List.mem_cons_self) h2 _ _ ha

theorem runLic1_blocksOK {v0 : FatVolume} : ∀ {s : Mgr} {ops : List Op} {Ls : List Licence},
    RunLic1 v0 s ops Ls → BlocksOK s.dev.disk → BlocksOK (run s ops).1.dev.disk
  | _, _, _, .nil _, hb => hb
  | _, _, _, .cons s op ops L Ls gh Xs hI hgm hl ha hd rest, hb => by
    rw [run_cons]
    refine runLic1_blocksOK rest fun i => ?_
    rw [hd i]
    exact allLicensed1_blocksOK _ _ hb ha i

theorem runLic1_wf {v0 : FatVolume} : ∀ {s : Mgr} {ops : List Op} {Ls : List Licence}, RunLic1 v0 s ops Ls →
    ∀ L, L ∈ Ls → LicWF v0 L
  | _, _, _, .nil _, _, h => nomatch h
  | _, _, _, .cons s op ops L Ls gh Xs hI hg hl ha hd rest, L', hL' => by
    rcases List.mem_cons.1 hL' with rfl | h
    · exact (licenceFor_wf hI hl).sameGeom hg
    · exact runLic1_wf rest L' h

/-- **An object no call of the history names is unchanged**: slot bytes, chain AS READ THROUGH FAT COPY 1, chain bytes —
faults or not, the FAT copies identical or not. -/
theorem unnamed_unchanged_1 {v0 : FatVolume} (hg : WFGeom v0) {s : Mgr} {ops : List Op} {Ls : List Licence}
    (hR : RunLic1 v0 s ops Ls) (hb : BlocksOK s.dev.disk) (sb so c : Nat)
    (cs : List Nat) (hch : Chain v0 s.dev.disk c cs) (hsreg : regionOf v0 sb = .root ∨ regionOf v0 sb = .data)
    (hso : so % 32 = 0) (hnn : ∀ L, L ∈ Ls → NotNamed v0 L sb so cs) :
    slice ((run s ops).1.dev.disk.get sb) so 32 = slice (s.dev.disk.get sb) so 32 ∧
    Chain v0 (run s ops).1.dev.disk c cs ∧
    chainBytes v0 (run s ops).1.dev.disk cs = chainBytes v0 s.dev.disk cs := by
  have hb' := runLic1_blocksOK hR hb
  have hin := ChainL.chain_inRange hch
  have hsp : ∀ L, L ∈ Ls → Spares v0 L sb so cs := fun L hL =>
    spares_of_avoids hg hin hsreg hso (avoids_of (runLic1_wf hR L hL) (hnn L hL))
  refine ⟨?_, ?_, ?_⟩
  · refine DirSlots.slice_congr _ _ so 32 (by rw [hb' sb, hb sb]) fun i h1 h2 => ?_
    exact runLic1_frame (not_fat2_of_region hg hsreg) hR fun L hL => (hsp L hL).1 i h1 h2
  · refine ForestBase.chain_transfer hch rfl fun x hx => ?_
    refine ForestBase.nextOf_congr rfl ?_
    unfold fatRaw
    refine DirFrames.rawFatEntry_congr _ _ _ _ fun i h1 h2 => ?_
    exact runLic1_frame (not_fat2_fatBlock hg (hin x hx).2) hR fun L hL => (hsp L hL).2.1 x hx i h1 h2
  · refine WriteRefines.chainBytes_congr v0 _ _ cs fun x hx j hj => ?_
    refine block_ext hb hb' _ fun i => ?_
    refine runLic1_frame (not_fat2_of_region hg (.inr ?_)) hR fun L hL => (hsp L hL).2.2 x hx j hj i
    exact WriteSet.data_block_region v0 hg x _ (hin x hx) (Nat.le_add_right _ _) (by omega)

/-- Every licence of the list is a licence `LicenceFor` describes for the call at its position, in the state that call is
issued in. -/
theorem runLic1_nth {v0 : FatVolume} : ∀ {s : Mgr} {ops : List Op} {Ls : List Licence}, RunLic1 v0 s ops Ls →
    ∀ L, L ∈ Ls → ∃ k op gh Xs, ops[k]? = some op ∧ VolInvX Xs (mclr (run s (ops.take k)).1) gh ∧ SameGeom v0 gh.vol ∧
      LicenceFor gh (run s (ops.take k)).1.files (run s (ops.take k)).1.dirs (run s (ops.take k)).1.dev.disk op L
  | _, _, _, .nil _, _, h => nomatch h
  | _, _, _, .cons s op ops L Ls gh Xs hI hg hl ha hd rest, L', hL' => by
    rcases List.mem_cons.1 hL' with rfl | h
    · exact ⟨0, op, gh, Xs, rfl, hI, hg, hl⟩
    · obtain ⟨k, op', gh', Xs', h1, h2, h3, h4⟩ := runLic1_nth rest L' h
      refine ⟨k + 1, op', gh', Xs', by simpa using h1, ?_, h3, ?_⟩
      · rw [List.take_succ_cons, run_cons]; exact h2
      · rw [List.take_succ_cons, run_cons]; exact h4

/-- **The medium keeps mounting** along a licensed history. -/
theorem runLic1_mounts {v0 : FatVolume} (hg : WFGeom v0) : ∀ {s : Mgr} {ops : List Op} {Ls : List Licence},
    RunLic1 v0 s ops Ls → BlocksOK s.dev.disk → ∀ (idx : Nat) (vm : FatVolume),
    mountPure (s.dev.disk.get 0) idx s.dev.disk.get = .ok vm → SameGeom vm v0 →
    ∃ w, mountPure ((run s ops).1.dev.disk.get 0) idx (run s ops).1.dev.disk.get = .ok w ∧ SameGeom v0 w
  | _, _, _, .nil _, _, _, vm, hm, hsg => ⟨vm, hm, hsg.symm⟩
  | _, _, _, .cons s op ops L Ls gh Xs hI hgm hl ha hd rest, hb, idx, vm, hm, hsg => by
    have hp := allLicensed1_prefix hg _ _ ha hb (step s op).2.writes.length
    rw [List.take_length] at hp
    have hde : (step s op).1.dev.disk.get = (s.dev.disk.applyWrites (step s op).2.writes).get := funext hd
    obtain ⟨w1, hw1, hs1⟩ := hp.mounts idx vm hm hsg
    have hb1 : BlocksOK (step s op).1.dev.disk := fun i => by rw [hd i]; exact hp.blocksOK i
    have hw1' : mountPure ((step s op).1.dev.disk.get 0) idx (step s op).1.dev.disk.get = .ok w1 := by
      rw [hde]; exact hw1
    obtain ⟨w, hw, hs⟩ := runLic1_mounts hg rest hb1 idx w1 hw1' hs1.symm
    exact ⟨w, by rw [run_cons]; exact hw, hs⟩

end Sdmmc.Lemmas.VolX.Lic
