/-
Volume invariant (C03), layer 4: what the invariant says, clause by clause of the property — chains,
sharing, sizes, names, dot entries, clean tails (in the vocabulary of C06), no leak at quiescent points.
-/
import Sdmmc.Lemmas.VolMed5
import Sdmmc.Lemmas.ForestFinal
import Sdmmc.Lemmas.Listing

namespace Sdmmc.Lemmas.VolCor
open Sdmmc.Model Sdmmc.Model.Fat Sdmmc.Spec Sdmmc.Spec.Volume Sdmmc.Lemmas.VolBase Sdmmc.Lemmas.VolTree
open Sdmmc.Lemmas.VolDisk Sdmmc.Lemmas.VolMed

section
variable {s : Mgr} {gh : Ghost}

/-- Every chain of the volume: not empty, no cluster twice, every cluster a data cluster whose FAT entry is
neither free nor bad, each cluster linked to the next, the last one carrying an end-of-chain mark. -/
theorem chains_sound (hI : VolInv s gh) {cs : List Nat} (hcs : cs ∈ gh.G) :
    cs ≠ [] ∧ cs.Nodup ∧
    (∀ c, c ∈ cs → InRange gh.vol c ∧ ¬ isFree gh.vol s.dev.disk c ∧ ¬ isBad gh.vol s.dev.disk c) ∧
    (∀ k x y, cs[k]? = some x → cs[k + 1]? = some y → nextOf gh.vol s.dev.disk x = .ok y) ∧
    (∀ k x, cs[k]? = some x → k + 1 = cs.length → nextOf gh.vol s.dev.disk x = .err .EndOfFile) := by
  have hch := hI.med.owns.1 cs hcs
  exact ⟨ChainL.chain_ne_nil hch, ChainL.chain_nodup hch, fun c hc => ForestBase.chain_mem_used hch c hc,
    ChainL.chain_next hch, ChainL.chain_next_last hch⟩

/-- Everything the tree refers to is the first cluster of a chain of the volume: the FAT32 root, every
sub-directory, every file entry with a cluster (the open file's record taking precedence). -/
theorem references_sound (hI : VolInv s gh) :
    (∀ c, c ∈ rootHead gh.vol → chainOf gh.G c ∈ gh.G ∧ (chainOf gh.G c).head? = some c) ∧
    (∀ h p, (h, p) ∈ gh.dirs → chainOf gh.G h ∈ gh.G ∧ (chainOf gh.G h).head? = some h) ∧
    (∀ h, h ∈ dirIds gh.dirs → ∀ o, o ∈ objects h (dirSlots gh.vol s.dev.disk gh.G h) → isDirE o = false →
      effCluster gh.vol.fatType s.files o ≠ 0 →
      chainOf gh.G (effCluster gh.vol.fatType s.files o) ∈ gh.G ∧
      (chainOf gh.G (effCluster gh.vol.fatType s.files o)).head? = some (effCluster gh.vol.fatType s.files o)) := by
  have hG := med_heads (medX_of_med hI.med)
  exact ⟨fun c hc => chainOf_spec hG (root_mem_heads hI.med.tree hc),
    fun h p hp => chainOf_spec hG (dir_mem_heads hI.med.tree hp),
    fun h hh o ho hd hc => chainOf_spec hG (fileRef_mem_heads hI.med.tree hh ho hd hc)⟩

/-- No cluster lies in two chains or twice in one; no two references name the same chain. -/
theorem no_sharing (hI : VolInv s gh) :
    (∀ (i j a b : Nat) (cs cs' : List Nat) (c : Nat), gh.G[i]? = some cs → gh.G[j]? = some cs' → cs[a]? = some c →
      cs'[b]? = some c → i = j ∧ a = b) ∧
    (refList gh.vol.fatType (rootHead gh.vol) gh.dirs (dirSlots gh.vol s.dev.disk gh.G) s.files).Nodup :=
  ⟨ForestFinal.flatten_pos_unique gh.G hI.med.owns.2.1, refList_nodup hI.med.tree (med_heads (medX_of_med hI.med))⟩

/-- A file entry without a cluster is empty; otherwise its chain is long enough for the recorded size (the open
file's record taking precedence). -/
theorem sizes_fit (hI : VolInv s gh) {h : Nat} (hh : h ∈ dirIds gh.dirs) {o : Slot}
    (ho : o ∈ objects h (dirSlots gh.vol s.dev.disk gh.G h)) (hd : isDirE o = false) :
    (effCluster gh.vol.fatType s.files o = 0 ∧ effSize s.files o = 0) ∨
    (effCluster gh.vol.fatType s.files o ≠ 0 ∧
      effSize s.files o ≤ (chainOf gh.G (effCluster gh.vol.fatType s.files o)).length * bytesPerCluster gh.vol) :=
  hI.med.tree.sizes h hh o ho hd

/-- The 11-byte names of the live short entries of a directory are pairwise distinct (dot entries and labels
included; a fortiori those of the files and sub-directories). -/
theorem names_unique (hI : VolInv s gh) {h : Nat} (hh : h ∈ dirIds gh.dirs) :
    ((entries (dirSlots gh.vol s.dev.disk gh.G h)).map sName).Nodup ∧
    ((objects h (dirSlots gh.vol s.dev.disk gh.G h)).map sName).Nodup := by
  have := hI.med.tree.names h hh
  refine ⟨this, List.Nodup.sublist (List.Sublist.map sName ?_) this⟩
  unfold objects
  split
  · exact List.Sublist.refl _
  · exact List.drop_sublist 2 _

/-- A sub-directory starts with `.` (its own first cluster) and `..` (its parent's first cluster, 0 for the
root), and the parent holds the entry naming it. -/
theorem dot_entries (hI : VolInv s gh) {h p : Nat} (hp : (h, p) ∈ gh.dirs) :
    (∃ s0 s1 rest, dirSlots gh.vol s.dev.disk gh.G h = s0 :: s1 :: rest ∧ IsDot gh.vol.fatType Sfn.thisDir h s0 ∧
      IsDot gh.vol.fatType Sfn.parentDir p s1) ∧ p ∈ dirIds gh.dirs := by
  refine ⟨hI.med.tree.dots h p hp, ?_⟩
  obtain ⟨i, hi⟩ := List.getElem?_of_mem hp
  rcases hI.med.tree.order i h p hi with h0 | hm
  · rw [h0]; exact zero_mem_dirIds _
  · exact List.mem_cons_of_mem _ (List.map_subset _ (List.take_subset _ _) hm)

/-- Nothing follows the end-of-directory marker, in every directory of the tree. -/
theorem clean_tail (hI : VolInv s gh) {h : Nat} (hh : h ∈ dirIds gh.dirs) : CleanTail (dirSlots gh.vol s.dev.disk gh.G h) :=
  hI.med.tree.cleanTail h hh

/-- … in the vocabulary of C06: the clean-tail hypothesis of its lookup theorems holds for every chained
directory of the tree (its chain being `chainOf gh.G (dirHead …)`), and for the FAT16 root region. -/
theorem clean_tail_c06 (hI : VolInv s gh) {h : Nat} (hh : h ∈ dirIds gh.dirs) :
    (isFixedRoot gh.vol h → Listing.CleanTail (Listing.dirSlots s.dev.disk (gh.vol.lbaStart + gh.vol.firstRootDirBlock)
      (blockCountFromBytes (gh.vol.rootEntriesCount * 32)))) ∧
    (¬ isFixedRoot gh.vol h → Listing.CleanTail (Listing.chainSlots gh.vol s.dev.disk (chainOf gh.G (dirHead gh.vol h))) ∧
      Listing.DirChain gh.vol s.dev.disk (chainOf gh.G (dirHead gh.vol h))) := by
  have hct := clean_tail hI hh
  constructor
  · intro hf
    rw [dirSlots_fixed hf] at hct
    exact hct
  · intro hf
    rw [dirSlots_chain hf] at hct
    refine ⟨hct, ?_⟩
    have hM := medX_of_med hI.med
    obtain ⟨hm, hhd⟩ := dirChain_spec hM hh hf
    have hch := med_chain hM hm
    exact VolWalk.dirChain_of_chain hI.med.geom hch

/-- **No leak at quiescent points.**  With no file open, the clusters marked in use are exactly the clusters of
the chains of the FAT32 root, the sub-directories and the file entries of the tree. -/
theorem no_leak_when_quiescent (hI : VolInv s gh) (hq : s.files = []) :
    (∀ c, isUsed gh.vol s.dev.disk c ↔ ∃ cs, cs ∈ gh.G ∧ c ∈ cs) ∧
    List.Perm
      (rootHead gh.vol ++ gh.dirs.map Prod.fst ++
        (dirIds gh.dirs).flatMap fun h =>
          (((objects h (dirSlots gh.vol s.dev.disk gh.G h)).filter fun o => !isDirE o).map (sCluster gh.vol.fatType)).filter
            fun c => decide (c ≠ 0))
      (gh.G.map fun cs => cs.headD 0) := by
  constructor
  · intro c
    rw [hI.med.owns.2.2 c, List.mem_flatten]
  · have := hI.med.tree.allRefs
    rw [hq] at this
    exact this

/-- Every open file sits at a live file entry of the tree carrying its name, is consistent with its chain, and no
two open files sit at the same entry. -/
theorem open_files_sound (hI : VolInv s gh) :
    (∀ f, f ∈ s.files → FileOK gh.vol s.dev.disk f (chainOf gh.G f.entry.cluster) ∧
      ∃ h, h ∈ dirIds gh.dirs ∧ ∃ o, o ∈ objects h (dirSlots gh.vol s.dev.disk gh.G h) ∧ o.1 = f.entry.entryBlock ∧
        o.2.1 = f.entry.entryOffset ∧ isDirE o = false ∧ sName o = f.entry.name) ∧
    (s.files.map fun f => (f.entry.entryBlock, f.entry.entryOffset)).Nodup := by
  refine ⟨fun f hf => ⟨(hI.med.fileOK f hf).1, ?_⟩, hI.med.tree.filesDistinct⟩
  obtain ⟨h, hh, o, ho, h1, h2, h3, h4, _⟩ := hI.med.tree.fileSlots f hf
  exact ⟨h, hh, o, ho, h1, h2, h3, h4⟩

end

end Sdmmc.Lemmas.VolCor
