/-
Several open volumes: `close_volume` of ONE of them and the next mount of its partition — the lemmas of
`Props.C16MultiClose` (first half; the second half, "every open partition still mounts", is `Lemmas.VolNMounts`).

The one-volume theorem is `Lemmas.AcctAll.close_remount` (`Lemmas/AcctAllClose.lean`).  Its engine — `Acct.closeVolume_spec`
(what `close_volume` writes, for ANY index of the volume table) and `Acct.mount_after_info` (what mounting reads from a
patched information sector) — does not need the volume table to be a singleton, so the multi-volume statement is proved
directly on the manager with several volumes, not through the projection.

* `closeVolume_cases` — under `VolInvN`, `close_volume v` either answers something other than `Ok` and leaves the state
  alone, or finds the record `vk` carrying the handle at index `k`, answers `Ok`, removes the record (`swapRemove`) and
  changes at most ONE block: the information sector of `vk` (patched with the in-memory pair on FAT32; untouched on FAT16
  or when both values are unknown);
* `closeVolume_block` — per block: unchanged, or the FAT32 information sector of the closed volume, patched;
* `closeVolume_mountSame` — `close_volume` changes nothing the mount of ANY open partition reads (`AcctAll.MountSame`:
  block 0, the boot sector, the information sector outside its two record words) — of the closed one included;
* `mem_swapRemove_vols` — the records left are exactly the records with another handle;
* `close_remountN` — **`close_volume v` answering `Ok`, then a mount of the closed partition**: the record `vi` carrying
  `v` is removed; no FAT block of any open volume changed; if `vi` is FAT32, its hint fits 32 bits and the medium before
  the close mounts (as `w0`, any partition index `idx`, with the geometry of `vi`), then the medium after the close mounts
  with the same geometry and the free count mounting reads is the in-memory count at the close, normalised (`0xFFFFFFFF`
  reads as unknown) — in balance with the offset of the handle; when the in-memory count was unknown, what `w0` had.

Hypotheses: `VolInvN`, `CountOKN δ`, `DeltaOKN δ` (for the 32-bit fit of the count).  Not proved here: that the medium
before the close mounts (that is `Lemmas.VolNMounts`).
-/
import Sdmmc.Lemmas.VolNAcct
import Sdmmc.Lemmas.AcctAllClose

namespace Sdmmc.Lemmas.VolN
open Sdmmc.Model Sdmmc.Model.Fat Sdmmc.Spec.Volume
open Sdmmc.Spec hiding NoFault Coherent run step
open Sdmmc.Lemmas.MHoare
open Sdmmc.Lemmas.AcctAll (Bal DeltaOK CountOK MountSame)
open Sdmmc.Lemmas.Acct (normCount storedPair)

/-! ### Geometry of an open volume -/

/-- Every block of the medium has 512 bytes as soon as one volume is open. -/
theorem blocksOK_of_vol {s : Mgr} {ghs : List Ghost} (hI : VolInvN s ghs) {j : Nat} {w : VolInfo}
    (hw : s.vols[j]? = some w) :
    ∀ i, (s.dev.disk.get i).length = 512 := by
  have hjlt : j < ghs.length := by rw [hI.len]; exact (List.getElem?_eq_some_iff.1 hw).1
  obtain ⟨g, hg⟩ : ∃ g, ghs[j]? = some g := ⟨_, List.getElem?_eq_getElem hjlt⟩
  exact (hI.med j w g hw hg).blocksOK

/-- The boot sector of a sound volume lies in its partition. -/
theorem lba_inPartition {v : FatVolume} (hg : WFGeom v) : InPartition v v.lbaStart := by
  have h1 := Reopen.fatStart_le_numBlocks v hg
  obtain ⟨h2, _⟩ := FatLens.geom_facts v hg
  exact ⟨Nat.le_refl _, by omega⟩

/-- The information sector of a sound FAT32 volume lies in its partition, behind the boot sector. -/
theorem info_facts {v : FatVolume} (hg : WFGeom v) (h32 : v.fatType = .fat32) :
    v.lbaStart < v.infoLocation ∧ InPartition v v.infoLocation ∧ regionOf v v.infoLocation = .info := by
  obtain ⟨_, _, _, h4, _⟩ := FatLens.geom_facts v hg
  have hreg := FatLens.info_block_in_info_region v hg h32 (Reopen.fatStart_le_numBlocks v hg)
  exact ⟨(h4 h32).1, inPartition_of_info hreg, hreg⟩

/-! ### What `close_volume` does -/

/-- **`close_volume v`, the two outcomes.** -/
theorem closeVolume_cases {s : Mgr} {ghs : List Ghost} (hI : VolInvN s ghs) (v : Nat) :
    ((closeVolume v s).1 ≠ .ok () ∧ (closeVolume v s).2 = s) ∨
    ∃ (k : Nat) (vk : VolInfo) (s1 : Mgr), s.vols[k]? = some vk ∧ vk.rawVolume = v ∧ closeVolume v s = (.ok (), s1) ∧
      s1.vols = swapRemove s.vols k ∧
      (∀ b, b ≠ vk.vol.infoLocation → s1.dev.disk.get b = s.dev.disk.get b) ∧
      s1.dev.disk.get vk.vol.infoLocation =
        (if vk.vol.fatType = .fat32 ∧ ¬ (vk.vol.freeClustersCount = none ∧ vk.vol.nextFreeCluster = none)
         then FatOps.infoPatch vk.vol (s.dev.disk.get vk.vol.infoLocation) else s.dev.disk.get vk.vol.infoLocation) := by
  by_cases hfa : (s.files.any (·.rawVolume = v)) = true
  · left
    unfold closeVolume
    rw [get_bind, if_pos hfa]
    exact ⟨(fun h => by cases h), rfl⟩
  by_cases hda : (s.dirs.any (·.rawVolume = v)) = true
  · left
    unfold closeVolume
    rw [get_bind, if_neg hfa, if_pos hda]
    exact ⟨(fun h => by cases h), rfl⟩
  cases hv : s.vols.findIdx? (·.rawVolume = v) with
  | none =>
    left
    unfold closeVolume
    rw [get_bind, if_neg hfa, if_neg hda, bind_err (getVolumeById_bad hv)]
    exact ⟨(fun h => by cases h), rfl⟩
  | some k =>
    right
    obtain ⟨vk, hvk, hp⟩ := findIdx?_some_get hv
    have hraw : vk.rawVolume = v := by simpa using hp
    have hs : ReadRefines.MgrOK s := ⟨hI.noFault, hI.coherent, blocksOK_of_vol hI hvk, hI.unlocked⟩
    obtain ⟨s1, hrun, hs1, _, hoth, hinfo⟩ :=
      Acct.closeVolume_spec s v k vk hs (Bool.eq_false_iff.2 hfa) (Bool.eq_false_iff.2 hda) hv hvk
    exact ⟨k, vk, s1, hvk, hraw, hrun, by rw [hs1], hoth, hinfo⟩

/-- Per block: unchanged, or the FAT32 information sector of the closed volume, patched. -/
theorem closeVolume_block {vk : FatVolume} {d d1 : Disk} (hoth : ∀ b, b ≠ vk.infoLocation → d1.get b = d.get b)
    (hinfo : d1.get vk.infoLocation =
      (if vk.fatType = .fat32 ∧ ¬ (vk.freeClustersCount = none ∧ vk.nextFreeCluster = none)
       then FatOps.infoPatch vk (d.get vk.infoLocation) else d.get vk.infoLocation)) (b : Nat) :
    d1.get b = d.get b ∨ (vk.fatType = .fat32 ∧ b = vk.infoLocation ∧ d1.get b = FatOps.infoPatch vk (d.get b)) := by
  by_cases hb : b = vk.infoLocation
  · rw [hb]
    by_cases hcase : vk.fatType = .fat32 ∧ ¬ (vk.freeClustersCount = none ∧ vk.nextFreeCluster = none)
    · rw [if_pos hcase] at hinfo; exact .inr ⟨hcase.1, rfl, hinfo⟩
    · rw [if_neg hcase] at hinfo; exact .inl hinfo
  · exact .inl (hoth b hb)

/-- `close_volume` only removes records. -/
theorem closeVolume_vols_sub {s : Mgr} {ghs : List Ghost} (hI : VolInvN s ghs) (v : Nat) :
    ∀ w, w ∈ (closeVolume v s).2.vols → w ∈ s.vols := by
  rcases closeVolume_cases hI v with ⟨_, he⟩ | ⟨k, vk, s1, _, _, hrun, hvols, _, _⟩
  · rw [he]; exact fun _ h => h
  · rw [hrun]
    intro w hw
    have hw' : w ∈ swapRemove s.vols k := by rw [← hvols]; exact hw
    exact VolApi.mem_of_mem_swapRemove hw'

/-- **`close_volume` changes nothing the mount of an open partition reads** — block 0, the boot sector, the information
sector outside bytes 488 … 495 — for EVERY open volume `vj`, the closed one included. -/
theorem closeVolume_mountSame {s : Mgr} {ghs : List Ghost} (hI : VolInvN s ghs) (v : Nat) {j : Nat} {vj : VolInfo}
    (hvj : s.vols[j]? = some vj) : MountSame vj.vol s.dev.disk (closeVolume v s).2.dev.disk := by
  rcases closeVolume_cases hI v with ⟨_, he⟩ | ⟨k, vk, s1, hvk, _, hrun, _, hoth, hinfo⟩
  · rw [he]; exact MountSame.refl _ _
  · rw [hrun]
    have hblk := closeVolume_block hoth hinfo
    obtain ⟨_, _, hgk⟩ := wf_of_mem hI (List.mem_of_getElem? hvk)
    obtain ⟨_, _, hgj⟩ := wf_of_mem hI (List.mem_of_getElem? hvj)
    refine ⟨?_, ?_, ?_⟩
    · rcases hblk 0 with h | ⟨h32, h0, _⟩
      · exact h
      · have := (info_facts hgk h32).1; omega
    · rcases hblk vj.vol.lbaStart with h | ⟨h32, hb, _⟩
      · exact h
      · exfalso
        obtain ⟨hlt, hin, _⟩ := info_facts hgk h32
        by_cases hkj : k = j
        · subst hkj
          rw [hvk] at hvj; cases hvj
          omega
        · exact hI.parts k j vk vj hvk hvj hkj _ hin (by rw [← hb]; exact lba_inPartition hgj)
    · intro _ i hi
      rcases hblk vj.vol.infoLocation with h | ⟨_, _, hp⟩
      · rw [h]
      · rw [hp]
        exact (FatOps.infoPatch_facts vk.vol _ (blocksOK_of_vol hI hvj _)).2.1 i hi

/-- The records `swap_remove` leaves are the records with another handle. -/
theorem mem_swapRemove_vols {s : Mgr} {ghs : List Ghost} (hI : VolInvN s ghs) {k : Nat} {vi : VolInfo}
    (hvi : s.vols[k]? = some vi) (w : VolInfo) :
    w ∈ swapRemove s.vols k ↔ w ∈ s.vols ∧ w.rawVolume ≠ vi.rawVolume := by
  constructor
  · intro hw
    have h2 : w ∈ s.vols.eraseIdx k := (VolApi.swapRemove_perm s.vols k vi hvi).subset hw
    obtain ⟨j, hjk, hj⟩ := List.mem_eraseIdx_iff_getElem?.1 h2
    exact ⟨List.mem_of_getElem? hj, fun e => hjk (index_of_handle hI.handles hj hvi e)⟩
  · intro ⟨hw, hne⟩
    obtain ⟨j, hj⟩ : ∃ j : Nat, s.vols[j]? = some w := List.getElem?_of_mem hw
    have hjk : j ≠ k := by
      intro e
      subst e
      rw [hvi] at hj; cases hj
      exact hne rfl
    exact mem_swapRemove_of_ne hvi hj hjk

/-! ### `close_volume`, then a mount -/

/-- What mounting reads after the pair of `v` was stored over a sector that read as the pair of `w`. -/
abbrev sp (v w : FatVolume) : Option Nat × Option Nat :=
  storedPair v.freeClustersCount v.nextFreeCluster w.freeClustersCount w.nextFreeCluster

/-- **`close_volume v` answering `Ok` on a manager with several open volumes, then a mount of the closed partition.** -/
theorem close_remountN {s : Mgr} {ghs : List Ghost} {δ : Nat → Int} (hI : VolInvN s ghs) (hcnt : CountOKN δ s)
    (hd : DeltaOKN δ s) (v : Nat) (hok : (closeVolume v s).1 = .ok ()) :
    ∃ (k : Nat) (vi : VolInfo), s.vols[k]? = some vi ∧ vi.rawVolume = v ∧ (closeVolume v s).2.vols = swapRemove s.vols k ∧
      (∀ w, w ∈ s.vols → ∀ b, IsFatBlock w.vol b → (closeVolume v s).2.dev.disk.get b = s.dev.disk.get b) ∧
      (vi.vol.fatType = .fat32 → (∀ n, vi.vol.nextFreeCluster = some n → n < 4294967296) →
        ∀ (idx : Nat) (w0 : FatVolume), mountPure (s.dev.disk.get 0) idx s.dev.disk.get = .ok w0 → SameGeom w0 vi.vol →
        ∃ w', mountPure ((closeVolume v s).2.dev.disk.get 0) idx (closeVolume v s).2.dev.disk.get = .ok w' ∧
          SameGeom vi.vol w' ∧
          (∀ n, vi.vol.freeClustersCount = some n → w'.freeClustersCount = normCount n) ∧
          (vi.vol.freeClustersCount ≠ none → Bal (δ v) w' (closeVolume v s).2.dev.disk) ∧
          (vi.vol.freeClustersCount = none → w'.freeClustersCount = w0.freeClustersCount)) := by
  rcases closeVolume_cases hI v with ⟨hne, _⟩ | ⟨k, vi, s1, hvi, hraw, hrun, hvols, hoth, hinfo⟩
  · exact absurd hok hne
  rw [hrun]
  simp only
  have hblk := closeVolume_block hoth hinfo
  have hmem : vi ∈ s.vols := List.mem_of_getElem? hvi
  obtain ⟨_, _, hg⟩ := wf_of_mem hI hmem
  -- no FAT block of any open volume changed
  have hfatAll : ∀ w, w ∈ s.vols → ∀ b, IsFatBlock w.vol b → s1.dev.disk.get b = s.dev.disk.get b := by
    intro w hw b hb
    rcases hblk b with h | ⟨h32, hbi, _⟩
    · exact h
    · exfalso
      obtain ⟨j, hj, hgw⟩ := wf_of_mem hI hw
      have hreg := WriteRefines.isFatBlock_region hgw hb
      obtain ⟨_, hin, hinfoReg⟩ := info_facts hg h32
      by_cases hkj : k = j
      · subst hkj
        rw [hvi] at hj; cases hj
        rw [hbi, hinfoReg] at hreg; cases hreg
      · exact hI.parts k j vi w hvi hj hkj b (by rw [hbi]; exact hin) (inPartition_of_region (.inl hreg))
  refine ⟨k, vi, hvi, hraw, hvols, hfatAll, ?_⟩
  intro h32 hhfit idx w hm hsg
  have hfatS : ∀ c, c < endCluster vi.vol → s1.dev.disk.get (fatBlock vi.vol c) = s.dev.disk.get (fatBlock vi.vol c) :=
    fun c hc => hfatAll vi hmem _ ⟨c, hc, .inl rfl⟩
  have h32w : w.fatType = .fat32 := by rw [hsg.fatType] at h32; exact h32
  have hlba : w.lbaStart = vi.vol.lbaStart := by obtain ⟨a, b, e⟩ := hsg; rw [e]
  have hiloc : w.infoLocation = vi.vol.infoLocation := by obtain ⟨a, b, e⟩ := hsg; rw [e]
  obtain ⟨hi1, _, _⟩ := info_facts hg h32
  have h0' : s1.dev.disk.get 0 = s.dev.disk.get 0 := by apply hoth; omega
  have hboot : s1.dev.disk.get w.lbaStart = s.dev.disk.get w.lbaStart := by apply hoth; rw [hlba]; omega
  -- the count fits 32 bits
  have hcfit : ∀ n, vi.vol.freeClustersCount = some n → n < 4294967296 := by
    intro n hn
    have hb := hcnt vi hmem n hn
    have hle := ForestCount.freeCount_le vi.vol s.dev.disk
    have h2 : (endCluster vi.vol : Int) - δ vi.rawVolume ≤ 4294967295 := (hd vi hmem).2
    omega
  -- the balance of the mounted record, from the balance of the in-memory record
  have hbal : ∀ w' : FatVolume, SameGeom vi.vol w' →
      (∀ n, vi.vol.freeClustersCount = some n → w'.freeClustersCount = normCount n) →
      vi.vol.freeClustersCount ≠ none → Bal (δ v) w' s1.dev.disk := by
    intro w' hsg' hc hne n hn
    cases hc2 : vi.vol.freeClustersCount with
    | none => exact absurd hc2 hne
    | some m =>
      have hw := hc m hc2
      rw [hn] at hw
      unfold Acct.normCount at hw
      split at hw
      · cases hw
      · have hmn : n = m := Option.some.inj hw
        subst hmn
        have hb := hcnt vi hmem n hc2
        rw [hraw] at hb
        rw [hsg'.freeCount, Acct.freeCount_congr hfatS]
        exact hb
  by_cases hcase : vi.vol.fatType = .fat32 ∧ ¬ (vi.vol.freeClustersCount = none ∧ vi.vol.nextFreeCluster = none)
  · rw [if_pos hcase] at hinfo
    have hmnt := Acct.mount_after_info s.dev.disk s1.dev.disk idx w vi.vol hm h32w (blocksOK_of_vol hI hvi _) h0' hboot
      (by rw [hiloc]; exact hinfo) hcfit hhfit
    -- the pair mounting reads
    have hsg' : SameGeom vi.vol { w with freeClustersCount := (sp vi.vol w).1, nextFreeCluster := (sp vi.vol w).2 } :=
      hsg.symm.trans ⟨_, _, rfl⟩
    have hc : ∀ n, vi.vol.freeClustersCount = some n → (sp vi.vol w).1 = normCount n := by
      intro n hn
      unfold sp storedPair
      rw [hn]
    refine ⟨_, hmnt, hsg', hc, hbal _ hsg' hc, ?_⟩
    intro hn
    show (sp vi.vol w).1 = _
    unfold sp storedPair
    rw [hn]
  · rw [if_neg hcase] at hinfo
    have hsame : ∀ b, s1.dev.disk.get b = s.dev.disk.get b := by
      intro b
      by_cases hb : b = vi.vol.infoLocation
      · rw [hb]; exact hinfo
      · exact hoth b hb
    have hmnt : mountPure (s1.dev.disk.get 0) idx s1.dev.disk.get = .ok w := by
      have : s1.dev.disk.get = s.dev.disk.get := funext hsame
      rw [this]; exact hm
    have hnone : vi.vol.freeClustersCount = none := by
      cases hc : vi.vol.freeClustersCount with
      | none => rfl
      | some n => exact absurd ⟨h32, fun h => by rw [hc] at h; cases h.1⟩ hcase
    refine ⟨w, hmnt, hsg.symm, ?_, fun hne => absurd hnone hne, fun _ => rfl⟩
    intro n hn
    rw [hnone] at hn; cases hn

end Sdmmc.Lemmas.VolN
