/-
Write side of C01, part 1 — pure facts: `splice` (the byte-array write), the bytes of a chain after
one of its blocks was patched (`chainBytes_set`), chains / file contents read through a volume
record whose bookkeeping fields changed (`SameGeom`), and which blocks are FAT blocks / blocks of a
chain (`IsFatBlock`, `IsClusterBlock`).
-/
import Sdmmc.Spec.DataPlane
import Sdmmc.Lemmas.ReadRefines
import Sdmmc.Lemmas.ForestStep

namespace Sdmmc.Lemmas.WriteRefines
open Sdmmc.Model Sdmmc.Model.Fat Sdmmc.Spec
open Sdmmc.Lemmas.FBasic hiding NoFault Coherent
open Sdmmc.Lemmas.FatOps hiding BlocksOK Mirror HintOK
open Sdmmc.Lemmas.ChainL Sdmmc.Lemmas.ForestBase Sdmmc.Lemmas.ForestOwns

/-! ### `splice` -/

theorem splice_getElem? (l src : Bytes) (off i : Nat) (h : off ≤ l.length) :
    (splice l off src)[i]? = if i < off then l[i]? else if i < off + src.length then src[i - off]? else l[i]? := by
  unfold splice
  by_cases h1 : i < off
  · rw [if_pos h1, List.append_assoc, List.getElem?_append_left (by rw [List.length_take]; omega),
      List.getElem?_take, if_pos h1]
  · rw [if_neg h1, List.append_assoc, List.getElem?_append_right (by rw [List.length_take]; omega),
      List.length_take, Nat.min_eq_left h]
    by_cases h2 : i < off + src.length
    · rw [if_pos h2, List.getElem?_append_left (by omega)]
    · rw [if_neg h2, List.getElem?_append_right (by omega), List.getElem?_drop]
      congr 1; omega

theorem splice_length' (l src : Bytes) (off : Nat) (h : off + src.length ≤ l.length) :
    (splice l off src).length = l.length := Files.splice_length l src off h

/-- Writing past the end: the result ends with the written bytes. -/
theorem splice_length_max (l src : Bytes) (off : Nat) (h : off ≤ l.length) :
    (splice l off src).length = max l.length (off + src.length) := by
  unfold splice
  simp only [List.length_append, List.length_take, List.length_drop]
  omega

theorem splice_nil (l : Bytes) (off : Nat) : splice l off [] = l := by
  unfold splice
  rw [List.append_nil, List.length_nil, Nat.add_zero, List.take_append_drop]

/-- Two writes in a row are one write of the concatenation. -/
theorem splice_splice (l a b : Bytes) (off : Nat) (h : off ≤ l.length) :
    splice (splice l off a) (off + a.length) b = splice l off (a ++ b) := by
  apply List.ext_getElem?
  intro i
  have h1 : off + a.length ≤ (splice l off a).length := by rw [splice_length_max l a off h]; omega
  rw [splice_getElem? _ _ _ _ h1, splice_getElem? l (a ++ b) _ _ h, List.length_append, ← Nat.add_assoc]
  by_cases c2 : i < off + a.length
  · rw [if_pos c2, splice_getElem? _ _ _ _ h]
    by_cases c1 : i < off
    · rw [if_pos c1, if_pos c1]
    · rw [if_neg c1, if_pos c2, if_neg c1, if_pos (by omega), List.getElem?_append_left (by omega)]
  · have c1 : ¬ i < off := by omega
    rw [if_neg c2, if_neg c1]
    by_cases c3 : i < off + a.length + b.length
    · rw [if_pos c3, if_pos c3, List.getElem?_append_right (by omega)]
      congr 1; omega
    · rw [if_neg c3, if_neg c3, splice_getElem? _ _ _ _ h, if_neg c1, if_neg c2]

/-- The first `max n (off + |src|)` bytes after a write are the write applied to the first `n`. -/
theorem take_splice (l src : Bytes) (off n : Nat) (ho : off ≤ n) (hn : n ≤ l.length) :
    (splice l off src).take (max n (off + src.length)) = splice (l.take n) off src := by
  apply List.ext_getElem?
  intro i
  have hln : (l.take n).length = n := by rw [List.length_take]; omega
  rw [List.getElem?_take, splice_getElem? _ _ _ _ (by omega), splice_getElem? _ _ _ _ (by omega)]
  by_cases c1 : i < off
  · rw [if_pos (by omega), if_pos c1, if_pos c1, List.getElem?_take, if_pos (by omega)]
  · by_cases c2 : i < off + src.length
    · rw [if_pos (by omega), if_neg c1, if_pos c2, if_neg c1, if_pos c2]
    · rw [if_neg c1, if_neg c2, if_neg c1, if_neg c2, List.getElem?_take]
      by_cases c3 : i < n
      · rw [if_pos (by omega), if_pos c3]
      · rw [if_neg (by omega), if_neg c3]

/-- Replacing a whole block: what the block held before is irrelevant. -/
theorem splice_whole_any (b b' src : Bytes) (hb : b.length = 512) (hb' : b'.length = 512) (hs : src.length = 512) :
    splice b 0 src = splice b' 0 src := by
  unfold splice
  rw [List.take_zero, List.take_zero, List.drop_eq_nil_of_le (by omega), List.drop_eq_nil_of_le (by omega)]

/-- The byte-array write is `splice`. -/
theorem byteFile_write_eq (bf : ByteFile) (data : Bytes) :
    bf.write data = { bytes := splice bf.bytes bf.pos data, pos := bf.pos + data.length } := rfl

/-! ### Position arithmetic -/

theorem div_mod_of_add (k cb r : Nat) (hr : r < cb) : (k * cb + r) / cb = k ∧ (k * cb + r) % cb = r := by
  have hpos : 0 < cb := by omega
  constructor
  · rw [Nat.mul_comm, Nat.mul_add_div hpos, Nat.div_eq_of_lt hr, Nat.add_zero]
  · rw [Nat.mul_comm, Nat.mul_add_mod, Nat.mod_eq_of_lt hr]

/-! ### The bytes of a chain after one block was patched -/

/-- Patching `src` into block `j` of the `k`-th cluster of a chain at block offset `off` is the
byte-array write of `src` at position `k * cb + j * 512 + off` of the chain's bytes. -/
theorem chainBytes_set (v : FatVolume) (d : Disk) (cs : List Nat) (k c j off : Nat) (src : Bytes)
    (hg : WFGeom v) (hb : BlocksOK d) (hnd : cs.Nodup) (hr : ∀ x, x ∈ cs → InRange v x)
    (hk : cs[k]? = some c) (hj : j < v.blocksPerCluster) (hoff : off + src.length ≤ 512) :
    chainBytes v (d.set (clusterToBlock v c + j) (splice (d.get (clusterToBlock v c + j)) off src)) cs =
      splice (chainBytes v d cs) (k * clusterBytesLen v + j * 512 + off) src := by
  have hcbdef : clusterBytesLen v = v.blocksPerCluster * 512 := rfl
  have hcbpos : 0 < clusterBytesLen v := Nat.mul_pos hg.bpc_pos (by omega)
  have hklt : k < cs.length := (List.getElem?_eq_some_iff.1 hk).1
  have hKL : k * clusterBytesLen v + clusterBytesLen v ≤ cs.length * clusterBytesLen v := by
    rw [← Nat.succ_mul]; exact Nat.mul_le_mul_right _ hklt
  have hcr : InRange v c := hr c (List.mem_of_getElem? hk)
  generalize hbdef : clusterToBlock v c + j = b
  have hblk' : (splice (d.get b) off src).length = 512 := by rw [splice_length' _ _ _ (by rw [hb b]; exact hoff), hb b]
  have hb' : BlocksOK (d.set b (splice (d.get b) off src)) := blocksOK_set d b _ hb hblk'
  have hlenL := chainBytes_length v (d.set b (splice (d.get b) off src)) cs hb'
  have hlenR := chainBytes_length v d cs hb
  have hO : k * clusterBytesLen v + j * 512 + off + src.length ≤ (chainBytes v d cs).length := by
    rw [hlenR]; omega
  apply List.ext_getElem?
  intro i
  by_cases hi : i < cs.length * clusterBytesLen v
  · have hq : i / clusterBytesLen v < cs.length := (Nat.div_lt_iff_lt_mul hcbpos).2 hi
    obtain ⟨ci, hci⟩ : ∃ ci, cs[i / clusterBytesLen v]? = some ci := ⟨_, List.getElem?_eq_getElem hq⟩
    have hcir : InRange v ci := hr ci (List.mem_of_getElem? hci)
    obtain ⟨a1, a2, a3⟩ := offset_arith v.blocksPerCluster i hg.bpc_pos
    rw [← hcbdef] at a1 a2 a3
    have hm : i % 512 < 512 := Nat.mod_lt _ (by omega)
    rw [chain_byte v _ cs i ci hb' hg.bpc_pos hci, splice_getElem? _ _ _ _ (by omega),
      chain_byte v d cs i ci hb hg.bpc_pos hci, Disk.get_set]
    by_cases hbx : b = clusterToBlock v ci + i % clusterBytesLen v / 512
    · rw [if_pos hbx]
      obtain ⟨hcc, hjj⟩ := FatLens.cluster_blocks_disjoint_of_lt v hg c ci j (i % clusterBytesLen v / 512)
        hcr.1 hcir.1 hcr.2 hcir.2 hj a3 (hbdef.trans hbx)
      subst hcc
      have hki : i / clusterBytesLen v = k := (List.getElem?_inj hq hnd).1 (hci.trans hk.symm)
      rw [hki] at a1
      rw [← hjj] at a2
      rw [splice_getElem? _ _ _ _ (by rw [hb b]; omega), ← hbx]
      by_cases c1 : i % 512 < off
      · rw [if_pos c1, if_pos (by omega)]
      · by_cases c2 : i % 512 < off + src.length
        · rw [if_neg c1, if_pos c2, if_neg (by omega), if_pos (by omega)]
          congr 1; omega
        · rw [if_neg c1, if_neg c2, if_neg (by omega), if_neg (by omega)]
    · rw [if_neg hbx]
      by_cases c1 : i < k * clusterBytesLen v + j * 512 + off
      · rw [if_pos c1]
      · by_cases c2 : i < k * clusterBytesLen v + j * 512 + off + src.length
        · exfalso
          obtain ⟨e1, e2⟩ := div_mod_of_add k (clusterBytesLen v) (i - k * clusterBytesLen v) (by omega)
          rw [show k * clusterBytesLen v + (i - k * clusterBytesLen v) = i by omega] at e1 e2
          rw [e1, hk] at hci
          cases hci
          apply hbx
          rw [← hbdef, e2]
          congr 1
          omega
        · rw [if_neg c1, if_neg c2]
  · rw [List.getElem?_eq_none (by omega), List.getElem?_eq_none]
    rw [splice_length' _ _ _ hO]; omega

/-- The bytes of a chain depend only on the blocks of its clusters. -/
theorem chainBytes_congr (v : FatVolume) (d d' : Disk) (cs : List Nat)
    (h : ∀ x, x ∈ cs → ∀ j, j < v.blocksPerCluster → d'.get (clusterToBlock v x + j) = d.get (clusterToBlock v x + j)) :
    chainBytes v d' cs = chainBytes v d cs := by
  unfold chainBytes
  congr 1
  apply List.map_congr_left
  intro x hx
  unfold clusterBytes
  congr 1
  apply List.map_congr_left
  intro j hj
  exact h x hx j (List.mem_range.1 hj)

theorem chainBytes_append (v : FatVolume) (d : Disk) (cs cs2 : List Nat) :
    chainBytes v d (cs ++ cs2) = chainBytes v d cs ++ chainBytes v d cs2 := by
  unfold chainBytes
  rw [List.map_append, List.flatten_append]

/-- A longer chain holds the same file contents (the recorded size fits the shorter one). -/
theorem fileContent_append (v : FatVolume) (d : Disk) (cs cs2 : List Nat) (size : Nat) (hb : BlocksOK d)
    (h : size ≤ cs.length * clusterBytesLen v) :
    fileContent v d (cs ++ cs2) size = fileContent v d cs size := by
  unfold fileContent
  rw [chainBytes_append, List.take_append_of_le_length (by rw [chainBytes_length v d cs hb]; exact h)]

/-! ### `SameGeom` -/

theorem sameGeom_clusterBytesLen {v v' : FatVolume} (h : SameGeom v v') : clusterBytesLen v' = clusterBytesLen v := by
  obtain ⟨a, b, rfl⟩ := h; rfl
theorem sameGeom_clusterToBlock {v v' : FatVolume} (h : SameGeom v v') (c : Nat) : clusterToBlock v' c = clusterToBlock v c := by
  obtain ⟨a, b, rfl⟩ := h; rfl
theorem sameGeom_bpc {v v' : FatVolume} (h : SameGeom v v') : v'.blocksPerCluster = v.blocksPerCluster := by
  obtain ⟨a, b, rfl⟩ := h; rfl
theorem sameGeom_fatBlock {v v' : FatVolume} (h : SameGeom v v') (c : Nat) : fatBlock v' c = fatBlock v c := by
  obtain ⟨a, b, rfl⟩ := h; rfl
theorem sameGeom_fatBlock2 {v v' : FatVolume} (h : SameGeom v v') (c : Nat) : fatBlock2 v' c = fatBlock2 v c := by
  obtain ⟨a, b, rfl⟩ := h; rfl
theorem sameGeom_chainBytes {v v' : FatVolume} (h : SameGeom v v') (d : Disk) (cs : List Nat) :
    chainBytes v' d cs = chainBytes v d cs := by
  obtain ⟨a, b, rfl⟩ := h; rfl
theorem sameGeom_fileContent {v v' : FatVolume} (h : SameGeom v v') (d : Disk) (cs : List Nat) (n : Nat) :
    fileContent v' d cs n = fileContent v d cs n := by
  obtain ⟨a, b, rfl⟩ := h; rfl
theorem sameGeom_absFile {v v' : FatVolume} (h : SameGeom v v') (d : Disk) (f : FileInfo) (cs : List Nat) :
    absFile v' d f cs = absFile v d f cs := by
  obtain ⟨a, b, rfl⟩ := h; rfl
theorem sameGeom_isFatBlock {v v' : FatVolume} (h : SameGeom v v') (b : Nat) : IsFatBlock v' b ↔ IsFatBlock v b := by
  obtain ⟨a, c, rfl⟩ := h; exact Iff.rfl
theorem sameGeom_isClusterBlock {v v' : FatVolume} (h : SameGeom v v') (cs : List Nat) (b : Nat) :
    IsClusterBlock v' cs b ↔ IsClusterBlock v cs b := by
  obtain ⟨a, c, rfl⟩ := h; exact Iff.rfl
theorem sameGeom_full {v v' : FatVolume} (h : SameGeom v v') (d : Disk) : Full v' d ↔ Full v d := by
  obtain ⟨a, c, rfl⟩ := h; exact Iff.rfl
theorem sameGeom_chain {v v' : FatVolume} (h : SameGeom v v') (d : Disk) (c : Nat) (cs : List Nat) :
    Chain v' d c cs ↔ Chain v d c cs :=
  ⟨fun hc => chain_sameGeom h.symm hc, fun hc => chain_sameGeom h hc⟩

theorem owns_sameGeom {v v' : FatVolume} (h : SameGeom v v') {d : Disk} {G : List (List Nat)} (ho : Owns v d G) :
    Owns v' d G := by
  obtain ⟨hch, hnd, hiff⟩ := ho
  exact ⟨fun cs hcs => chain_sameGeom h (hch cs hcs), hnd, fun c => by rw [h.isUsed]; exact hiff c⟩

theorem sameGeom_fileOK {v v' : FatVolume} (h : SameGeom v v') {d : Disk} {f : FileInfo} {cs : List Nat}
    (hok : FileOK v d f cs) : FileOK v' d f cs := by
  refine ⟨?_, ?_, hok.pos_le, ?_⟩
  · rcases hok.chain with h1 | h1
    · exact .inl h1
    · exact .inr (chain_sameGeom h h1)
  · rw [sameGeom_clusterBytesLen h]; exact hok.size_fits
  · rw [sameGeom_clusterBytesLen h]; exact hok.cursor

/-! ### FAT blocks and cluster blocks -/

theorem isClusterBlock_mono {v : FatVolume} {cs cs' : List Nat} (h : ∀ x, x ∈ cs → x ∈ cs') {b : Nat}
    (hb : IsClusterBlock v cs b) : IsClusterBlock v cs' b := by
  obtain ⟨c, hc, h1⟩ := hb
  exact ⟨c, h c hc, h1⟩

theorem isFatBlock_of_mem {v : FatVolume} {c b : Nat} (hc : c < endCluster v) (h : b ∈ fatWrites v c) : IsFatBlock v b :=
  ⟨c, hc, (DirFat.mem_fatWrites v c b).1 h⟩

theorem isFatBlock_region {v : FatVolume} (hg : WFGeom v) {b : Nat} (h : IsFatBlock v b) : regionOf v b = .fat := by
  obtain ⟨c, hc, h1 | h1⟩ := h
  · rw [h1]; exact (FatLens.fat_blocks_in_fat_region v hg c hc).1
  · exact (FatLens.fat_blocks_in_fat_region v hg c hc).2 b h1

theorem isClusterBlock_region {v : FatVolume} (hg : WFGeom v) {cs : List Nat} (hr : ∀ x, x ∈ cs → InRange v x) {b : Nat}
    (h : IsClusterBlock v cs b) : regionOf v b = .data := by
  obtain ⟨c, hc, h1, h2⟩ := h
  have := FatLens.cluster_blocks_in_data_region v hg c (b - clusterToBlock v c) (hr c hc).1 (hr c hc).2 (by omega)
  rw [show clusterToBlock v c + (b - clusterToBlock v c) = b by omega] at this
  exact this

/-- A block of a data cluster is not a FAT block. -/
theorem clusterBlock_not_fat {v : FatVolume} (hg : WFGeom v) {c j : Nat} (hc : InRange v c) (hj : j < v.blocksPerCluster) :
    ¬ IsFatBlock v (clusterToBlock v c + j) := by
  intro h
  have h1 := isFatBlock_region hg h
  rw [FatLens.cluster_blocks_in_data_region v hg c j hc.1 hc.2 hj] at h1
  cases h1

/-- The FAT block of a cluster of the volume is not a block of a data cluster. -/
theorem fatBlock_ne_clusterBlock {v : FatVolume} (hg : WFGeom v) {c x j : Nat} (hx : x < endCluster v) (hc : InRange v c)
    (hj : j < v.blocksPerCluster) : clusterToBlock v c + j ≠ fatBlock v x := by
  intro h
  exact clusterBlock_not_fat hg hc hj ⟨x, hx, .inl h⟩

/-- Blocks of clusters outside `cs` are not blocks of `cs`. -/
theorem clusterBlock_not_of_not_mem {v : FatVolume} (hg : WFGeom v) {cs : List Nat} (hr : ∀ x, x ∈ cs → InRange v x)
    {c j : Nat} (hc : InRange v c) (hj : j < v.blocksPerCluster) (hn : c ∉ cs) :
    ¬ IsClusterBlock v cs (clusterToBlock v c + j) := by
  rintro ⟨x, hx, h1, h2⟩
  have hxr := hr x hx
  obtain ⟨e, _⟩ := FatLens.cluster_blocks_disjoint_of_lt v hg c x j (clusterToBlock v c + j - clusterToBlock v x)
    hc.1 hxr.1 hc.2 hxr.2 hj (by omega) (by omega)
  exact hn (e ▸ hx)

/-! ### `Owns` and `FileOK` depend on the FAT only -/

/-- A medium with the same FAT entries carries the same chains and the same accounting. -/
theorem owns_of_fat_eq {v : FatVolume} {d d' : Disk} {G : List (List Nat)}
    (h : ∀ c, c < endCluster v → d'.get (fatBlock v c) = d.get (fatBlock v c)) (ho : Owns v d G) : Owns v d' G := by
  obtain ⟨hch, hnd, hiff⟩ := ho
  refine ⟨fun cs hcs => chain_congr (hch cs hcs) fun x hx => h x (chain_inRange (hch cs hcs) x hx).2, hnd, fun c => ?_⟩
  rw [← hiff c]
  exact ForestAlloc.isUsed_congr (SameGeom.refl v) fun hr => by unfold fatRaw; rw [h c hr.2]

theorem full_of_fat_eq {v : FatVolume} {d d' : Disk}
    (h : ∀ c, c < endCluster v → d'.get (fatBlock v c) = d.get (fatBlock v c)) (hf : Full v d) : Full v d' := by
  intro c hc hfree
  apply hf c hc
  unfold isFree fatEntry fatRaw at hfree ⊢
  rw [← h c hc.2]; exact hfree

/-- `withChain` for a file that owns clusters. -/
theorem withChain_ne {A B : List (List Nat)} {cs : List Nat} (h : cs ≠ []) : withChain A cs B = A ++ [cs] ++ B := by
  unfold withChain; rw [if_neg h]

theorem withChain_nil (A B : List (List Nat)) : withChain A [] B = A ++ [] ++ B := by
  unfold withChain; rw [if_pos rfl]

end Sdmmc.Lemmas.WriteRefines
