/-
C16 over all calls, part 7 — what mounting reads (block 0, the boot sector of the partition, the info
sector outside its free-count / next-free words) is never changed by a licensed device write
(`licensed_mountSame`), hence by no API call under the volume invariant (`step_mountSame`).
-/
import Sdmmc.Lemmas.WriteSetInvHist
import Sdmmc.Lemmas.ReopenFlush

namespace Sdmmc.Lemmas.AcctAll
open Sdmmc.Model Sdmmc.Model.Fat Sdmmc.Spec.Volume
open Sdmmc.Spec hiding NoFault Coherent run step
open Sdmmc.Lemmas.FBasic (Disk.get_set_ne Disk.get_set_self)
open Sdmmc.Lemmas.WriteSetInv (NameCovered StepLicensed)

/-- `d'` agrees with `d` on everything mounting reads: block 0, the boot sector, and (FAT32) the info
sector outside bytes 488..495. -/
def MountSame (v : FatVolume) (d d' : Disk) : Prop :=
  d'.get 0 = d.get 0 ∧ d'.get v.lbaStart = d.get v.lbaStart ∧
  (v.fatType = .fat32 → ∀ i, i < 488 ∨ 496 ≤ i → (d'.get v.infoLocation).getD i 0 = (d.get v.infoLocation).getD i 0)

theorem MountSame.refl (v : FatVolume) (d : Disk) : MountSame v d d := ⟨rfl, rfl, fun _ _ _ => rfl⟩

theorem MountSame.trans {v : FatVolume} {d d1 d2 : Disk} (h1 : MountSame v d d1) (h2 : MountSame v d1 d2) : MountSame v d d2 :=
  ⟨h2.1.trans h1.1, h2.2.1.trans h1.2.1, fun h32 i hi => (h2.2.2 h32 i hi).trans (h1.2.2 h32 i hi)⟩

theorem MountSame.of_get_eq {v : FatVolume} {d d1 d2 : Disk} (h : MountSame v d d1) (he : ∀ i, d2.get i = d1.get i) :
    MountSame v d d2 :=
  ⟨by rw [he]; exact h.1, by rw [he]; exact h.2.1, fun h32 i hi => by rw [he]; exact h.2.2 h32 i hi⟩

/-- One licensed write. -/
theorem licensed_mountSame (v : FatVolume) (hg : WFGeom v) (d : Disk) (L : Licence) (w : Nat × Block)
    (h : Licensed v d L w) : MountSame v d (d.set w.1 w.2) := by
  obtain ⟨hreg, _, hlba, h0⟩ := WriteSet.licensed_in_region v hg d L w h
  refine ⟨Disk.get_set_ne _ _ _ _ h0, Disk.get_set_ne _ _ _ _ (by omega), ?_⟩
  intro h32 i hi
  have hinfo : regionOf v v.infoLocation = .info :=
    FatLens.info_block_in_info_region v hg h32 (Reopen.fatStart_le_numBlocks v hg)
  by_cases hw : w.1 = v.infoLocation
  · rcases h with hf | hd | hs | hi' | hr
    · have := WriteRefines.isFatBlock_region hg hf.1
      rw [hw, hinfo] at this; cases this
    · obtain ⟨_, c, _, hc, h1, h2⟩ := hd
      have := FatLens.cluster_blocks_in_data_region v hg c (w.1 - clusterToBlock v c) hc.1 hc.2 (by omega)
      rw [show clusterToBlock v c + (w.1 - clusterToBlock v c) = w.1 by omega, hw, hinfo] at this
      cases this
    · rcases hs.1 with h1 | h1 <;> rw [hw, hinfo] at h1 <;> cases h1
    · rw [← hw, Disk.get_set_self]
      exact hi'.2.2.2.2 i hi
    · obtain ⟨_, ⟨cs, lo, hi2, c, _, _, hc, h1, h2⟩, _⟩ := hr
      have := FatLens.cluster_blocks_in_data_region v hg c (w.1 - clusterToBlock v c) hc.1 hc.2 (by omega)
      rw [show clusterToBlock v c + (w.1 - clusterToBlock v c) = w.1 by omega, hw, hinfo] at this
      cases this
  · rw [Disk.get_set_ne _ _ _ _ hw]

/-- A list of licensed writes. -/
theorem allLicensed_mountSame (v : FatVolume) (hg : WFGeom v) (L : Licence) : ∀ (ws : List (Nat × Block)) (d : Disk),
    AllLicensed v d L ws → MountSame v d (d.applyWrites ws)
  | [], d, _ => MountSame.refl v d
  | w :: ws, d, h => by
    show MountSame v d ((d.set w.1 w.2).applyWrites ws)
    exact (licensed_mountSame v hg d L w h.1).trans (allLicensed_mountSame v hg L ws _ h.2)

/-- **One API call** changes nothing mounting reads. -/
theorem step_mountSame {s : Mgr} {gh : Ghost} (hI : VolInv s gh) (hm : Mirror gh.vol s.dev.disk) (op : Op) (hc : NameCovered op) :
    MountSame gh.vol s.dev.disk (step s op).1.dev.disk := by
  obtain ⟨L, hL⟩ := WriteSetInv.step_callOK hI hm op hc
  exact (allLicensed_mountSame gh.vol hI.med.geom L _ _ hL.all).of_get_eq hL.disk

end Sdmmc.Lemmas.AcctAll
