/-
Lemmas for the wrapper layer (`Sdmmc.Model.Wrap`), fourth part: the transition function `wstep`
(what one line of the driver protocol answers).
Used by `Sdmmc.Props.C01Io`.
-/
import Sdmmc.Lemmas.WrapDir

namespace Sdmmc.Lemmas.Wrap
open Sdmmc.Model Sdmmc.Model.Wrap Sdmmc.Spec.Wrap Sdmmc.Lemmas.MHoare
open Sdmmc.Gen

/-- `wstep` clears the per-call logs, runs the call, and reports the logs. -/
theorem wstep_eq (s : Mgr) (op : WOp) :
    wstep s op = ((runWOp op (resetLogs s)).2,
      { result := (runWOp op (resetLogs s)).1,
        writes := (runWOp op (resetLogs s)).2.dev.wlog.reverse,
        reads := (runWOp op (resetLogs s)).2.dev.rlog.reverse }) := rfl

/-- A seek through `embedded_io` never touches the device or the cache, in any state, for any
argument: the answer lists no device write and no device read. -/
theorem wstep_ioSeek_quiet (s : Mgr) (h : Nat) (p : SeekFrom) :
    (wstep s (.ioSeek h p)).2.writes = [] ∧ (wstep s (.ioSeek h p)).2.reads = [] ∧
    (wstep s (.ioSeek h p)).1.dev = (resetLogs s).dev ∧ (wstep s (.ioSeek h p)).1.cache = s.cache ∧
    (wstep s (.ioSeek h p)).1.dirs = s.dirs ∧ (wstep s (.ioSeek h p)).1.vols = s.vols := by
  rw [wstep_eq]
  have hr : (runWOp (.ioSeek h p) (resetLogs s)).2 = (File.ioSeek h p (resetLogs s)).2 := by
    show ((File.ioSeek h p >>= fun n => pure (Payload.num n)) (resetLogs s)).2 = _
    rw [bind_def]
    rcases File.ioSeek h p (resetLogs s) with ⟨r, s'⟩
    cases r <;> rfl
  simp only [hr]
  rcases ioSeek_total (resetLogs s) h p with ⟨t, i, f, he⟩ | ⟨e, he, _⟩
  · rw [he]; exact ⟨rfl, rfl, rfl, rfl, rfl, rfl⟩
  · rw [he]; exact ⟨rfl, rfl, rfl, rfl, rfl, rfl⟩

/-- The payload of a seek through `wstep`. -/
theorem wstep_ioSeek_result (s : Mgr) (h : Nat) (p : SeekFrom) :
    (wstep s (.ioSeek h p)).2.result = (File.ioSeek h p (resetLogs s)).1.bind (fun n => .ok (.num n)) := by
  rw [wstep_eq]
  show ((File.ioSeek h p >>= fun n => pure (Payload.num n)) (resetLogs s)).1 = _
  rw [bind_def]
  rcases File.ioSeek h p (resetLogs s) with ⟨r, s'⟩
  cases r <;> rfl

end Sdmmc.Lemmas.Wrap
