/-
C11 over histories, part 9 — AN EXECUTABLE CHECKER OF THE WEAK INVARIANT `Spec.Volume.FaultInv s gh X` and its soundness
(`checkFaultInv s gh X cb = true → FaultInv s gh X`), clause by clause from `Lemmas/VolCheck`.  Used by the evaluated
residue examples of `Props/C11Hist`: the state a failed call leaves satisfies `FaultInv` with the lost chains `X`, while
`VolCheck.explainVolInv` names the clause of `VolInv` it violates.
-/
import Sdmmc.Lemmas.VolCheck
import Sdmmc.Spec.VolumeFault

namespace Sdmmc.Lemmas.FaultHist
open Sdmmc.Model Sdmmc.Model.Fat Sdmmc.Spec Sdmmc.Spec.Volume Sdmmc.Lemmas.VolCheck

def fileLooseB (v : FatVolume) (d : Disk) (f : FileInfo) (cs : List Nat) : Bool :=
  (decide (f.entry.cluster < 2 ∧ cs = [] ∧ f.entry.size = 0) || chainB v d f.entry.cluster cs) &&
  decide (f.currentOffset ≤ f.entry.size) &&
  (decide (cs = []) || (List.range cs.length).any fun k =>
    decide (f.curClusterOff = k * clusterBytesLen v ∧ cs[k]? = some f.curCluster))

theorem fileLooseB_sound {v : FatVolume} {d : Disk} {f : FileInfo} {cs : List Nat} (h : fileLooseB v d f cs = true) :
    FileLoose v d f cs := by
  simp only [fileLooseB, Bool.and_eq_true, Bool.or_eq_true, decide_eq_true_eq] at h
  obtain ⟨⟨h1, h3⟩, h4⟩ := h
  refine ⟨h1.imp id chainB_sound, h3, h4.imp id ?_⟩
  intro ha
  obtain ⟨k, hk, hk2⟩ := List.any_eq_true.1 ha
  have := of_decide_eq_true hk2
  exact ⟨k, List.mem_range.1 hk, this.1, this.2⟩

def filesLooseB (v : FatVolume) (d : Disk) (files : List FileInfo) (G : List (List Nat)) : Bool :=
  files.all fun f => fileLooseB v d f (chainOf G f.entry.cluster) &&
    decide (chainOf G f.entry.cluster = [] → f.curCluster < 2)

theorem filesLooseB_sound {v : FatVolume} {d : Disk} {files : List FileInfo} {G : List (List Nat)}
    (h : filesLooseB v d files G = true) :
    ∀ f, f ∈ files → FileLoose v d f (chainOf G f.entry.cluster) ∧ (chainOf G f.entry.cluster = [] → f.curCluster < 2) := by
  intro f hf
  have := List.all_eq_true.1 h f hf
  rw [Bool.and_eq_true] at this
  exact ⟨fileLooseB_sound this.1, of_decide_eq_true this.2⟩

/-- executable check of `MedFault v d files gh X`, the tree taken with `cb` bytes per cluster -/
def medFaultB (v : FatVolume) (d : Disk) (files : List FileInfo) (gh : Ghost) (X : List (List Nat)) (cb : Nat) : Bool :=
  blocksB d && geomB v && hintB v && ownsB v d (gh.G ++ X) &&
  treeB v.fatType cb (rootHead v) gh.G gh.dirs (dirSlots v d gh.G) files &&
  filesLooseB v d files gh.G

theorem medFaultB_sound {v : FatVolume} {d : Disk} {files : List FileInfo} {gh : Ghost} {X : List (List Nat)} {cb : Nat}
    (h : medFaultB v d files gh X cb = true) : MedFault v d files gh X := by
  simp only [medFaultB, Bool.and_eq_true] at h
  obtain ⟨⟨⟨⟨⟨h1, h2⟩, h3⟩, h4⟩, h5⟩, h6⟩ := h
  exact ⟨blocksB_sound h1, geomB_sound h2, hintB_sound h3, ownsB_sound h4, ⟨cb, treeB_sound h5⟩, filesLooseB_sound h6⟩

/-- executable check of `FaultInv s gh X` -/
def checkFaultInv (s : Mgr) (gh : Ghost) (X : List (List Nat)) (cb : Nat) : Bool :=
  coherentB s && decide (s.locked = false) && decide (s.maxVols = 1) && volsB s gh &&
  medFaultB gh.vol s.dev.disk s.files gh X cb && fileVolsB s && openDirsB s gh

theorem checkFaultInv_sound (s : Mgr) (gh : Ghost) (X : List (List Nat)) (cb : Nat) (h : checkFaultInv s gh X cb = true) :
    FaultInv s gh X := by
  simp only [checkFaultInv, Bool.and_eq_true, decide_eq_true_eq] at h
  obtain ⟨⟨⟨⟨⟨⟨h2, h3⟩, h4⟩, h5⟩, h6⟩, h7⟩, h8⟩ := h
  exact ⟨coherentB_sound h2, h3, h4, volsB_sound h5, medFaultB_sound h6, fileVolsB_sound h7, openDirsB_sound h8⟩

end Sdmmc.Lemmas.FaultHist
