/-
C09 over histories, part 2: what the invariant says about a live short entry of a directory — it is the FIRST hit
for its name (`firstHit_of_inv`) —, entries of the FAT16 fixed root by position (`mem_fixedRoot_at`), mounting a
medium the frame relates to a mounted one (`mount_of_frame`), and a fresh manager that mounts, opens the root and
reads a file of the FAT16 root directory (`fresh_reads_root16`).
-/
import Sdmmc.Lemmas.SurviveFrame
import Sdmmc.Lemmas.ReopenMount

namespace Sdmmc.Lemmas.Survive
open Sdmmc.Model Sdmmc.Model.Fat Sdmmc.Spec.Volume Sdmmc.Lemmas.VolBase Sdmmc.Lemmas.VolTree
open Sdmmc.Spec hiding NoFault Coherent
open Sdmmc.Lemmas.VolDisk Sdmmc.Lemmas.VolMed
open Sdmmc.Lemmas.WriteSetInv

/-! ### A live short entry is the first hit for its name -/

theorem find?_congr' {α : Type} {p q : α → Bool} : ∀ (l : List α), (∀ a, a ∈ l → p a = q a) → l.find? p = l.find? q
  | [], _ => rfl
  | a :: l, h => by
    rw [List.find?_cons, List.find?_cons, h a List.mem_cons_self,
      find?_congr' l fun b hb => h b (List.mem_cons_of_mem _ hb)]

theorem byteAt_take (l : Bytes) (n : Nat) (hn : 0 < n) : byteAt (l.take n) 0 = byteAt l 0 := by
  unfold byteAt
  rw [List.getD_eq_getElem?_getD, List.getD_eq_getElem?_getD, List.getElem?_take, if_pos hn]

theorem first_of_sName {a x : Slot} (h : sName a = sName x) : first a = first x := by
  unfold first
  rw [← byteAt_take a.2.2 11 (by decide), ← byteAt_take x.2.2 11 (by decide)]
  exact congrArg (fun l => byteAt l 0) h

/-- A slot of the list with a non-zero first byte lies before the end marker, when nothing follows the marker. -/
theorem mem_beforeEnd_of_cleanTail {ss : List Slot} (hct : CleanTail ss) {x : Slot} (hx : x ∈ ss) (h0 : first x ≠ 0) :
    x ∈ beforeEnd ss := by
  have hsplit : ss = ss.takeWhile (fun s => decide (first s ≠ 0)) ++ ss.dropWhile (fun s => decide (first s ≠ 0)) :=
    (List.takeWhile_append_dropWhile).symm
  rw [hsplit] at hx
  rcases List.mem_append.1 hx with h | h
  · exact h
  · exact absurd (hct x h) h0

/-- **A live short entry of a directory with a clean tail and distinct names is the first hit for its name**: the lookup of its
name in that directory — the first slot before the end marker that is no long-name fragment and carries the name —
finds this slot. -/
theorem firstHit_of_clean {ss : List Slot} (hct : CleanTail ss) (hnd : ((entries ss).map sName).Nodup) {x : Slot}
    (hx : x ∈ ss) (h0 : first x ≠ 0) (h5 : first x ≠ 0xE5) (hfr : isFrag x = false) :
    Reopen.FirstHit ss (sName x) x := by
  have hbe := mem_beforeEnd_of_cleanTail hct hx h0
  have hent : x ∈ entries ss := by
    rw [entries_eq, List.mem_filter]
    refine ⟨hbe, ?_⟩
    unfold keep
    simp only [Bool.and_eq_true, decide_eq_true_eq, Bool.not_eq_true']
    exact ⟨h5, hfr⟩
  have hfind := VolEng.find?_of_nodup_map sName (entries ss) x hnd hent
  rw [entries_eq, List.find?_filter] at hfind
  show (Listing.beforeEnd ss).find? (Listing.nameHit (sName x)) = some x
  rw [← hfind]
  show (beforeEnd ss).find? (VolWalk.nameHit (sName x)) = _
  apply find?_congr'
  intro a _
  unfold VolWalk.nameHit keep
  by_cases hn : sName a = sName x
  · have hfa : first a ≠ 0xE5 := by rw [first_of_sName hn]; exact h5
    simp [hn, hfa]
  · simp [hn]

/-- The same from the invariant of a manager state. -/
theorem firstHit_of_inv {t : Mgr} {gh : Ghost} (hI : VolInv t gh) {h : Nat} (hh : h ∈ dirIds gh.dirs) {x : Slot}
    (hx : x ∈ dirSlots gh.vol t.dev.disk gh.G h) (h0 : first x ≠ 0) (h5 : first x ≠ 0xE5) (hfr : isFrag x = false) :
    Reopen.FirstHit (dirSlots gh.vol t.dev.disk gh.G h) (sName x) x :=
  firstHit_of_clean (hI.med.tree.cleanTail h hh) (hI.med.tree.names h hh) hx h0 h5 hfr

/-! ### Slots of the FAT16 fixed root, by position -/

/-- The slot at byte `32 * i` of block `b` of the fixed root region is a slot of the root directory, on any medium. -/
theorem mem_fixedRoot_at (v : FatVolume) (d : Disk) (b i : Nat)
    (hb1 : v.lbaStart + v.firstRootDirBlock ≤ b)
    (hb2 : b < v.lbaStart + v.firstRootDirBlock + blockCountFromBytes (v.rootEntriesCount * 32)) (hi : i < 16) :
    ((b, 32 * i, slice (d.get b) (32 * i) 32) : Slot) ∈ fixedRootSlots v d := by
  unfold fixedRootSlots
  refine mem_runSlots.2 ⟨b - (v.lbaStart + v.firstRootDirBlock), i, by omega, hi, ?_⟩
  rw [show v.lbaStart + v.firstRootDirBlock + (b - (v.lbaStart + v.firstRootDirBlock)) = b by omega]
  rfl

/-- A slot of the fixed root region: its position. -/
theorem fixedRoot_pos {v : FatVolume} {d : Disk} {x : Slot} (h : x ∈ fixedRootSlots v d) :
    v.lbaStart + v.firstRootDirBlock ≤ x.1 ∧
    x.1 < v.lbaStart + v.firstRootDirBlock + blockCountFromBytes (v.rootEntriesCount * 32) ∧
    ∃ i, i < 16 ∧ x.2.1 = 32 * i ∧ x.2.2 = slice (d.get x.1) (32 * i) 32 := by
  unfold fixedRootSlots at h
  obtain ⟨j, i, hj, hi, rfl⟩ := mem_runSlots.1 h
  exact ⟨Nat.le_add_right _ _, by show _ + j < _; omega, i, hi, rfl, rfl⟩

/-! ### Where a licence can reach -/

/-- A byte a well-formed licence covers lies in the FAT, root, data or info region; in the info region it is one
of the bytes 488..495. -/
theorem covers_region {v : FatVolume} (hg : WFGeom v) {L : Licence} (hw : LicWF v L) {b i : Nat} (h : Covers v L b i) :
    (regionOf v b = .fat ∨ regionOf v b = .root ∨ regionOf v b = .data) ∨ (b = v.infoLocation ∧ 488 ≤ i ∧ i < 496) := by
  rcases h with ⟨c, hc, hh, _, _⟩ | ⟨c, hc, hr, hin⟩ | ⟨off, hoff, _, _⟩ | ⟨_, _, hb, h1, h2⟩ | ⟨cs', lo, hi, p, hm, _, _, hh⟩
  · left; left
    obtain ⟨r1, r2⟩ := FatLens.fat_blocks_in_fat_region v hg c (hw.fatRange c hc)
    rcases hh with hh | hh
    · rw [hh]; exact r1
    · exact r2 _ hh
  · left; right; right
    exact inCluster_region hg hr hin
  · left
    rcases (hw.slots _ hoff).2 with h | h
    · exact .inr (.inl h)
    · exact .inr (.inr h)
  · exact .inr ⟨hb, h1, h2⟩
  · left; right; right
    obtain ⟨c, hc, hin⟩ := holdsFileByte_inCluster hg hh
    exact inCluster_region hg (hw.files _ hm c hc) hin

/-- Mounting reads block 0, the boot sector and the info sector (its bytes outside 488..495 count): a medium the
frame of well-formed licences relates to a medium that mounts, mounts with the same geometry. -/
theorem mount_of_frame {v0 : FatVolume} (hg : WFGeom v0) {Ls : List Licence} (hwf : ∀ L, L ∈ Ls → LicWF v0 L) {d d' : Disk}
    (hb : BlocksOK d) (hb' : BlocksOK d')
    (hF : ∀ b i, (∀ L, L ∈ Ls → ¬ Covers v0 L b i) → (d'.get b).getD i 0 = (d.get b).getD i 0)
    (idx : Nat) (vm : FatVolume) (hm : mountPure (d.get 0) idx d.get = .ok vm) (hsg : SameGeom vm v0) :
    ∃ w, mountPure (d'.get 0) idx d'.get = .ok w ∧ SameGeom v0 w := by
  have hreg0 : ∀ b, b ≤ v0.lbaStart → ∀ i, (d'.get b).getD i 0 = (d.get b).getD i 0 := by
    intro b hle i
    apply hF
    intro L hL hc
    have hr := Reopen.region_at_or_before_boot v0 b hle
    rcases covers_region hg (hwf L hL) hc with h | ⟨hbi, _, _⟩
    · rcases hr with hr | hr <;> rcases h with h | h | h <;> rw [hr] at h <;> cases h
    · by_cases h32 : v0.fatType = .fat32
      · have := FatLens.info_block_in_info_region v0 hg h32 (Reopen.fatStart_le_numBlocks v0 hg)
        rw [← hbi] at this
        rcases hr with hr | hr <;> rw [hr] at this <;> cases this
      · -- FAT16: the licence's info clause needs FAT32
        rcases hc with ⟨c, hc1, hh, _, _⟩ | ⟨c, hc1, hr1, hin⟩ | ⟨off, hoff, _, _⟩ | ⟨_, h32', _⟩ | ⟨cs', lo, hi, p, hm', _, _, hh⟩
        · obtain ⟨r1, r2⟩ := FatLens.fat_blocks_in_fat_region v0 hg c ((hwf L hL).fatRange c hc1)
          have : regionOf v0 b = .fat := by
            rcases hh with hh | hh
            · rw [hh]; exact r1
            · exact r2 _ hh
          rcases hr with hr | hr <;> rw [hr] at this <;> cases this
        · have := inCluster_region hg hr1 hin
          rcases hr with hr | hr <;> rw [hr] at this <;> cases this
        · rcases ((hwf L hL).slots _ hoff).2 with h | h <;> rcases hr with hr | hr <;> rw [hr] at h <;> cases h
        · exact absurd h32' h32
        · obtain ⟨c, hc1, hin⟩ := holdsFileByte_inCluster hg hh
          have := inCluster_region hg ((hwf L hL).files _ hm' c hc1) hin
          rcases hr with hr | hr <;> rw [hr] at this <;> cases this
  obtain ⟨a, c, hvm⟩ := hsg
  have hlba : vm.lbaStart = v0.lbaStart := by rw [hvm]
  have hinfoL : vm.infoLocation = v0.infoLocation := by rw [hvm]
  have hft : vm.fatType = v0.fatType := by rw [hvm]
  obtain ⟨w, hmw, hsw⟩ := Reopen.mount_sameGeom d d' idx vm hm
    (block_ext hb hb' 0 (hreg0 0 (Nat.zero_le _)))
    (by rw [hlba]; exact block_ext hb hb' _ (hreg0 _ (Nat.le_refl _)))
    (by
      intro h32 i hi
      rw [hinfoL]
      apply hF
      intro L hL hc
      have h32' : v0.fatType = .fat32 := by rw [← hft]; exact h32
      have hinf := FatLens.info_block_in_info_region v0 hg h32' (Reopen.fatStart_le_numBlocks v0 hg)
      rcases covers_region hg (hwf L hL) hc with h | ⟨_, h1, h2⟩
      · rcases h with h | h | h <;> rw [hinf] at h <;> cases h
      · omega)
  refine ⟨w, hmw, ?_⟩
  have : SameGeom vm w := hsw.cases
  exact (SameGeom.symm ⟨a, c, hvm⟩).trans this

end Sdmmc.Lemmas.Survive
