/-
Lemmas for C06 (directory listing and lookup): the statements used by `Sdmmc.Props.C06`.

`Sdmmc.Props.C06` states its theorems with its own `Slot`, `firstByte`, `blockSlots`,
`dirSlots`, `beforeEnd`, `live`, `endSeen`, `isFragment`, `decode`, `listing` (plain,
non-recursive definitions, restated here with the same bodies, so the types agree by unfolding).
-/
import Sdmmc.Lemmas.ListingF

namespace Sdmmc.Lemmas.Listing
open Sdmmc.Model Sdmmc.Model.Fat Sdmmc.Gen
open Sdmmc.Lemmas.ListingF

/-! ### Specification vocabulary (same bodies as in `Sdmmc.Props.C06`) -/

abbrev Slot := Nat × Nat × Bytes
def firstByte (d : Bytes) : Nat := byteAt d 0
def blockSlots (b : Nat) (blk : Block) : List Slot :=
  (List.range 16).map fun i => (b, 32 * i, (blk.drop (32 * i)).take 32)
def dirSlots (disk : Disk) (b n : Nat) : List Slot :=
  (List.range n).flatMap fun j => blockSlots (b + j) (disk.get (b + j))
def beforeEnd (ss : List Slot) : List Slot := ss.takeWhile fun s => decide (firstByte s.2.2 ≠ 0)
def live (ss : List Slot) : List Slot := (beforeEnd ss).filter fun s => decide (firstByte s.2.2 ≠ 0xE5)
def endSeen (ss : List Slot) : Bool := ss.any fun s => decide (firstByte s.2.2 = 0)
def isFragment (d : Bytes) : Bool := decide (byteAt d 11 % 16 = 15)
def decode (ft : FatType) (s : Slot) : DirEntry :=
  let d := s.2.2
  let attr := byteAt d 11
  let raw := match ft with
    | .fat32 => readU16 d 20 * 65536 + readU16 d 26
    | .fat16 => readU16 d 26
  { name := d.take 11
    mtime := Timestamp.fromFat (readU16 d 24) (readU16 d 22)
    ctime := Timestamp.fromFat (readU16 d 16) (readU16 d 14)
    attributes := attr
    cluster := if raw = 0 ∧ attr / 16 % 2 = 1 then 0xFFFFFFFC else raw
    size := readU32 d 28
    entryBlock := s.1
    entryOffset := s.2.1 }
def listing (ft : FatType) (ss : List Slot) : List DirEntry :=
  ((live ss).filter fun s => !isFragment s.2.2).map (decode ft)
/-- What a name lookup compares: not a long-name fragment and the 11 name bytes equal. -/
def nameHit (name : Bytes) (s : Slot) : Bool := !isFragment s.2.2 && decide (s.2.2.take 11 = name)
/-- The view the model's slot loops take of a slot list: offset and raw bytes. -/
def proj (s : Slot) : Nat × Bytes := (s.2.1, s.2.2)

/-! ### The model's predicates are the specification's -/

theorem isEnd_eq (d : Bytes) : OnDisk.isEnd d = decide (firstByte d = 0) := by
  unfold OnDisk.isEnd firstByte
  exact decide_eq_decide.mpr Iff.rfl

theorem isValid_eq (d : Bytes) : OnDisk.isValid d = (decide (firstByte d ≠ 0) && decide (firstByte d ≠ 0xE5)) := by
  unfold OnDisk.isValid
  rw [isEnd_eq, ← decide_not]
  congr 1

theorem isLfn_eq (d : Bytes) : OnDisk.isLfn d = isFragment d := by
  simp [OnDisk.isLfn, Attr.isLfn, OnDisk.rawAttr, fieldLE, dirent_raw_attr, ATTR_LFN, isFragment]

theorem matches_eq (d name : Bytes) (b off : Nat) : OnDisk.matches d name = nameHit name (b, off, d) := by
  simp [OnDisk.matches, nameHit, isLfn_eq]

theorem getEntry_eq (ft : FatType) (d : Bytes) (b off : Nat) :
    OnDisk.getEntry ft d b off = decode ft (b, off, d) := by
  cases ft <;>
  simp [OnDisk.getEntry, decode, OnDisk.rawAttr, OnDisk.firstClusterHi, OnDisk.firstClusterLo,
    OnDisk.writeDate, OnDisk.writeTime, OnDisk.createDate, OnDisk.createTime, OnDisk.fileSize, fieldLE,
    dirent_raw_attr, dirent_first_cluster_hi, dirent_first_cluster_lo, dirent_write_date, dirent_write_time,
    dirent_create_date, dirent_create_time, dirent_file_size, Attr.isDirectory, CLUSTER_EMPTY,
    CLUSTER_ROOT_DIR, ATTR_DIRECTORY]

/-! ### `slotsOf` -/

theorem slotsOf_range (blk : Block) :
    slotsOf blk = (List.range 16).map fun i => (32 * i, (blk.drop (32 * i)).take 32) := by
  unfold slotsOf
  simp [BLOCK_LEN, DIRENT_LEN, slice, Nat.mul_comm]

theorem slotsOf_eq (b : Nat) (blk : Block) : slotsOf blk = (blockSlots b blk).map proj := by
  rw [slotsOf_range, blockSlots, List.map_map]
  rfl

theorem slot_bytes (blk : Block) (hl : blk.length = 512) (i : Nat) (hi : i < 16) :
    ((blk.drop (32 * i)).take 32).length = 32 ∧
    ∀ k, k < 32 → ((blk.drop (32 * i)).take 32).getD k 0 = blk.getD (32 * i + k) 0 := by
  refine ⟨?_, ?_⟩
  · rw [List.length_take, List.length_drop]; omega
  · intro k hk
    simp only [List.getD_eq_getElem?_getD, List.getElem?_take, hk, if_true, List.getElem?_drop]

theorem slotsOf_spec (blk : Block) (hl : blk.length = 512) :
    slotsOf blk = (List.range 16).map (fun i => (32 * i, (blk.drop (32 * i)).take 32)) ∧
    ∀ i, i < 16 → ((blk.drop (32 * i)).take 32).length = 32 ∧
      ∀ k, k < 32 → ((blk.drop (32 * i)).take 32).getD k 0 = blk.getD (32 * i + k) 0 :=
  ⟨slotsOf_range blk, fun i hi => slot_bytes blk hl i hi⟩

theorem blockSlots_block (b : Nat) (blk : Block) : ∀ s ∈ blockSlots b blk, s.1 = b := by
  intro s hs
  simp only [blockSlots, List.mem_map] at hs
  obtain ⟨i, _, rfl⟩ := hs
  rfl

/-! ### One block of the listing -/

theorem iterateBlockSlots_gen (ft : FatType) (b : Nat) :
    ∀ ss : List Slot, (∀ s ∈ ss, s.1 = b) →
      iterateBlockSlots ft b (ss.map proj) = ((live ss).map fun s => (decode ft s, s.2.2), endSeen ss)
  | [], _ => rfl
  | (b', off, d) :: rest, h => by
    have hb : b' = b := h (b', off, d) (List.mem_cons_self ..)
    subst hb
    have ih := iterateBlockSlots_gen ft b' rest (fun s hs => h s (List.mem_cons_of_mem _ hs))
    simp only [List.map_cons, proj, iterateBlockSlots, isEnd_eq, isValid_eq]
    by_cases h0 : firstByte d = 0
    · simp [h0, live, beforeEnd, endSeen]
    · by_cases h5 : firstByte d = 0xE5
      · simp [h5, ih, live, beforeEnd, endSeen]
      · simp [h0, h5, ih, live, beforeEnd, endSeen, getEntry_eq]

theorem iterate_block_spec (ft : FatType) (b : Nat) (blk : Block) :
    iterateBlockSlots ft b (slotsOf blk) =
      ((live (blockSlots b blk)).map fun s => (decode ft s, s.2.2), endSeen (blockSlots b blk)) := by
  rw [slotsOf_eq b blk]
  exact iterateBlockSlots_gen ft b _ (blockSlots_block b blk)

/-! ### Slot lists and the end marker -/

theorem dirSlots_zero (disk : Disk) (b : Nat) : dirSlots disk b 0 = [] := rfl

theorem flatMap_range_succ {α} (f : Nat → List α) (b n : Nat) :
    (List.range (n + 1)).flatMap (fun j => f (b + j)) = f b ++ (List.range n).flatMap (fun j => f (b + 1 + j)) := by
  rw [List.range_succ_eq_map, List.flatMap_cons, List.flatMap_map]
  congr 1
  congr 1
  funext j
  show f (b + (j + 1)) = _
  rw [show b + (j + 1) = b + 1 + j by omega]

theorem dirSlots_succ (disk : Disk) (b n : Nat) :
    dirSlots disk b (n + 1) = blockSlots b (disk.get b) ++ dirSlots disk (b + 1) n :=
  flatMap_range_succ (fun i => blockSlots i (disk.get i)) b n

theorem beforeEnd_cons_end (s : Slot) (l : List Slot) (h : firstByte s.2.2 = 0) : beforeEnd (s :: l) = [] := by
  simp [beforeEnd, h]

theorem beforeEnd_cons_go (s : Slot) (l : List Slot) (h : firstByte s.2.2 ≠ 0) :
    beforeEnd (s :: l) = s :: beforeEnd l := by
  simp [beforeEnd, h]

theorem endSeen_cons_end (s : Slot) (l : List Slot) (h : firstByte s.2.2 = 0) : endSeen (s :: l) = true := by
  simp [endSeen, h]

theorem endSeen_cons_go (s : Slot) (l : List Slot) (h : firstByte s.2.2 ≠ 0) : endSeen (s :: l) = endSeen l := by
  simp [endSeen, h]

theorem beforeEnd_of_not_endSeen (l : List Slot) (h : endSeen l = false) : beforeEnd l = l := by
  induction l with
  | nil => rfl
  | cons s l ih =>
    by_cases h0 : firstByte s.2.2 = 0
    · rw [endSeen_cons_end s l h0] at h; cases h
    · rw [endSeen_cons_go s l h0] at h
      rw [beforeEnd_cons_go s l h0, ih h]

theorem beforeEnd_append (l r : List Slot) :
    beforeEnd (l ++ r) = if endSeen l then beforeEnd l else l ++ beforeEnd r := by
  induction l with
  | nil => simp [endSeen, beforeEnd]
  | cons s l ih =>
    by_cases h0 : firstByte s.2.2 = 0
    · rw [List.cons_append, beforeEnd_cons_end _ _ h0, beforeEnd_cons_end _ _ h0, endSeen_cons_end _ _ h0]
      rfl
    · rw [List.cons_append, beforeEnd_cons_go _ _ h0, beforeEnd_cons_go _ _ h0, endSeen_cons_go _ _ h0, ih]
      split <;> rfl

theorem endSeen_append (l r : List Slot) : endSeen (l ++ r) = (endSeen l || endSeen r) := by
  simp [endSeen]

theorem live_append (l r : List Slot) :
    live (l ++ r) = if endSeen l then live l else live l ++ live r := by
  unfold live
  rw [beforeEnd_append]
  by_cases h : endSeen l = true
  · simp [h]
  · have h' : endSeen l = false := by simpa using h
    simp [h', beforeEnd_of_not_endSeen l h']

/-! ### The blocks of one cluster / of the fixed root -/

theorem iterate_blocks_spec : ∀ (n b : Nat) (s : FS), NoFault s → Coherent s →
    ∃ s', iterateBlocks n b s =
        (.ok ((live (dirSlots s.dev.disk b n)).map (fun x => (decode s.vol.fatType x, x.2.2)),
              endSeen (dirSlots s.dev.disk b n)), s') ∧
      s'.dev.disk = s.dev.disk ∧ s'.dev.wlog = s.dev.wlog ∧ s'.vol = s.vol ∧ NoFault s' ∧ Coherent s'
  | 0, b, s, hn, hc => ⟨s, rfl, rfl, rfl, rfl, hn, hc⟩
  | n + 1, b, s, hn, hc => by
    obtain ⟨s1, h1, hblk, _, hd1, hw1, hv1, hn1, hc1⟩ := cacheRead_ok b s hn hc
    obtain ⟨s2, h2, hd2, hw2, hv2, hn2, hc2⟩ := iterate_blocks_spec n (b + 1) s1 hn1 hc1
    rw [iterateBlocks]
    simp only [bind, F.bind', F.getVol, cacheBlk, pure, h1, hblk, iterate_block_spec]
    rw [dirSlots_succ, live_append, endSeen_append]
    by_cases he : endSeen (blockSlots b (s.dev.disk.get b)) = true
    · refine ⟨s1, ?_, hd1, hw1, hv1, hn1, hc1⟩
      simp [he, F.pure']
    · have he' : endSeen (blockSlots b (s.dev.disk.get b)) = false := by simpa using he
      refine ⟨s2, ?_, hd2.trans hd1, hw2.trans hw1, hv2.trans hv1, hn2, hc2⟩
      rw [hd1, hv1] at h2
      simp only [he', Bool.false_eq_true, if_false, F.bind', h2, F.pure', List.map_append, Bool.false_or]

/-! ### Lookup, delete and the free-slot search inside one block -/

theorem findInSlots_gen (ft : FatType) (b : Nat) (name : Bytes) :
    ∀ ss : List Slot, (∀ s ∈ ss, s.1 = b) →
      findInSlots ft b name (ss.map proj) = ((beforeEnd ss).find? (nameHit name)).map (decode ft)
  | [], _ => rfl
  | (b', off, d) :: rest, h => by
    have hb : b' = b := h (b', off, d) (List.mem_cons_self ..)
    subst hb
    have ih := findInSlots_gen ft b' name rest (fun s hs => h s (List.mem_cons_of_mem _ hs))
    simp only [List.map_cons, proj, findInSlots, isEnd_eq]
    by_cases h0 : firstByte d = 0
    · rw [beforeEnd_cons_end _ _ h0]; simp [h0]
    · rw [beforeEnd_cons_go _ _ h0, List.find?_cons, matches_eq d name b' off]
      by_cases hm : nameHit name (b', off, d) = true
      · simp [h0, hm, getEntry_eq]
      · have hm' : nameHit name (b', off, d) = false := by simpa using hm
        simp only [h0, decide_false, Bool.false_eq_true, if_false, hm']
        exact ih

theorem find_block_spec (ft : FatType) (b : Nat) (name : Bytes) (blk : Block) :
    findInSlots ft b name (slotsOf blk) =
      ((beforeEnd (blockSlots b blk)).find? (nameHit name)).map (decode ft) := by
  rw [slotsOf_eq b blk]
  exact findInSlots_gen ft b name _ (blockSlots_block b blk)

theorem deleteInSlots_gen (name : Bytes) :
    ∀ ss : List Slot, deleteInSlots name (ss.map proj) = ((beforeEnd ss).find? (nameHit name)).map (·.2.1)
  | [] => rfl
  | (b', off, d) :: rest => by
    have ih := deleteInSlots_gen name rest
    simp only [List.map_cons, proj, deleteInSlots, isEnd_eq]
    by_cases h0 : firstByte d = 0
    · rw [beforeEnd_cons_end _ _ h0]; simp [h0]
    · rw [beforeEnd_cons_go _ _ h0, List.find?_cons, matches_eq d name b' off]
      by_cases hm : nameHit name (b', off, d) = true
      · simp [h0, hm]
      · have hm' : nameHit name (b', off, d) = false := by simpa using hm
        simp only [h0, decide_false, Bool.false_eq_true, if_false, hm']
        exact ih

theorem delete_slot_spec (b : Nat) (name : Bytes) (blk : Block) :
    deleteInSlots name (slotsOf blk) = ((beforeEnd (blockSlots b blk)).find? (nameHit name)).map (·.2.1) := by
  rw [slotsOf_eq b blk]
  exact deleteInSlots_gen name _

/-- A slot is free for a new entry: end marker or deleted. -/
def isFree (s : Slot) : Bool := decide (firstByte s.2.2 = 0 ∨ firstByte s.2.2 = 0xE5)

theorem firstFreeSlot_gen :
    ∀ ss : List Slot, firstFreeSlot (ss.map proj) = (ss.find? isFree).map (·.2.1)
  | [] => rfl
  | (b', off, d) :: rest => by
    have ih := firstFreeSlot_gen rest
    simp only [List.map_cons, proj, firstFreeSlot, isValid_eq, List.find?_cons, isFree]
    by_cases h0 : firstByte d = 0
    · simp [h0]
    · by_cases h5 : firstByte d = 0xE5
      · simp [h5]
      · simp [h0, h5, ih]

theorem first_free_slot_find (b : Nat) (blk : Block) :
    firstFreeSlot (slotsOf blk) = ((blockSlots b blk).find? isFree).map (·.2.1) := by
  rw [slotsOf_eq b blk]
  exact firstFreeSlot_gen _

/-- Offsets identify the slots of a block. -/
theorem blockSlots_offset_inj (b : Nat) (blk : Block) (s t : Slot)
    (hs : s ∈ blockSlots b blk) (ht : t ∈ blockSlots b blk) (h : s.2.1 = t.2.1) : s = t := by
  simp only [blockSlots, List.mem_map, List.mem_range] at hs ht
  obtain ⟨i, _, rfl⟩ := hs
  obtain ⟨j, _, rfl⟩ := ht
  have : i = j := by
    have : 32 * i = 32 * j := h
    omega
  subst this; rfl

theorem first_free_slot_spec (b : Nat) (blk : Block) (off : Nat) :
    firstFreeSlot (slotsOf blk) = some off ↔
      ∃ pre s post, blockSlots b blk = pre ++ s :: post ∧ s.2.1 = off ∧
        (firstByte s.2.2 = 0 ∨ firstByte s.2.2 = 0xE5) ∧
        ∀ p ∈ pre, firstByte p.2.2 ≠ 0 ∧ firstByte p.2.2 ≠ 0xE5 := by
  rw [first_free_slot_find b blk]
  constructor
  · intro h
    rw [Option.map_eq_some_iff] at h
    obtain ⟨s, hs, hoff⟩ := h
    rw [List.find?_eq_some_iff_append] at hs
    obtain ⟨hfree, pre, post, heq, hpre⟩ := hs
    refine ⟨pre, s, post, heq, hoff, by simpa [isFree] using hfree, ?_⟩
    intro p hp
    have := hpre p hp
    simpa [isFree] using this
  · rintro ⟨pre, s, post, heq, hoff, hfree, hpre⟩
    rw [Option.map_eq_some_iff]
    refine ⟨s, ?_, hoff⟩
    rw [List.find?_eq_some_iff_append]
    refine ⟨by simpa [isFree] using hfree, pre, post, heq, ?_⟩
    intro p hp
    have := hpre p hp
    simpa [isFree] using this

/-! ### Lookup agrees with the listing -/

/-- A deleted slot can only match a name whose first byte is `0xE5`. -/
theorem nameHit_not_deleted (name : Bytes) (hname : name.head? ≠ some 0xE5) (s : Slot)
    (hit : nameHit name s = true) : firstByte s.2.2 ≠ 0xE5 := by
  intro h5
  apply hname
  simp only [nameHit, Bool.and_eq_true, decide_eq_true_eq] at hit
  rw [← hit.2]
  rcases s with ⟨b, off, d⟩
  cases d with
  | nil => simp [firstByte, byteAt] at h5
  | cons x xs =>
    simp only [firstByte, byteAt, List.getD_cons_zero] at h5
    have : x = 0xE5 := UInt8.toNat_inj.mp h5
    simp [this]

theorem find?_congr' {α} {p q : α → Bool} : ∀ {l : List α}, (∀ a ∈ l, p a = q a) → l.find? p = l.find? q
  | [], _ => rfl
  | a :: l, h => by
    rw [List.find?_cons, List.find?_cons, h a (List.mem_cons_self ..),
      find?_congr' (fun x hx => h x (List.mem_cons_of_mem _ hx))]

/-- For a name not starting with `0xE5`, the first hit before the end marker is the first hit
among the live, non-fragment slots. -/
theorem find_beforeEnd_eq_find_listed (name : Bytes) (hname : name.head? ≠ some 0xE5) (ss : List Slot) :
    (beforeEnd ss).find? (nameHit name) =
      (((live ss).filter fun s => !isFragment s.2.2)).find? (fun s => decide (s.2.2.take 11 = name)) := by
  unfold live
  rw [List.filter_filter, List.find?_filter]
  apply find?_congr'
  intro s _
  by_cases hit : nameHit name s = true
  · have h5 := nameHit_not_deleted name hname s hit
    simp only [nameHit, Bool.and_eq_true] at hit
    simp [hit.1, hit.2, h5, nameHit]
  · have hit' : nameHit name s = false := by simpa using hit
    rw [hit']
    simp only [nameHit, Bool.and_eq_false_iff] at hit'
    rcases hit' with h | h <;> simp [h]

theorem decode_name (ft : FatType) (s : Slot) : (decode ft s).name = s.2.2.take 11 := rfl

theorem find_listed_eq_listing_find (ft : FatType) (name : Bytes) (ss : List Slot) :
    ((((live ss).filter fun s => !isFragment s.2.2)).find? (fun s => decide (s.2.2.take 11 = name))).map (decode ft)
      = (listing ft ss).find? (fun e => decide (e.name = name)) := by
  unfold listing
  rw [List.find?_map]
  rfl

/-- Lookup in a block finds exactly the first entry of the block's listing with that name. -/
theorem find_iff_listed_block (ft : FatType) (b : Nat) (name : Bytes) (blk : Block)
    (hname : name.head? ≠ some 0xE5) :
    findInSlots ft b name (slotsOf blk) = (listing ft (blockSlots b blk)).find? (fun e => decide (e.name = name)) := by
  rw [find_block_spec, find_beforeEnd_eq_find_listed name hname, find_listed_eq_listing_find]

/-! ### Lookup over the blocks of one cluster / of the fixed root -/

/-- What `find_directory_entry` does over a run of blocks: the per-block lookup of the first
block that has a hit.  (It does *not* stop at a block that contains the end marker.) -/
def lookupBlocks (ft : FatType) (disk : Disk) (name : Bytes) (b n : Nat) : Option DirEntry :=
  (List.range n).findSome? fun j =>
    ((beforeEnd (blockSlots (b + j) (disk.get (b + j)))).find? (nameHit name)).map (decode ft)

theorem findSome_range_succ {β} (f : Nat → Option β) (b n : Nat) :
    (List.range (n + 1)).findSome? (fun j => f (b + j)) =
      (f b).or ((List.range n).findSome? (fun j => f (b + 1 + j))) := by
  rw [List.range_succ_eq_map, List.findSome?_cons, List.findSome?_map]
  have : (fun j => f (b + j)) ∘ Nat.succ = fun j => f (b + 1 + j) := by
    funext j
    show f (b + (j + 1)) = _
    rw [show b + (j + 1) = b + 1 + j by omega]
  rw [this]
  show (match f b with | some x => some x | none => _) = _
  cases f b <;> rfl

theorem lookupBlocks_succ (ft : FatType) (disk : Disk) (name : Bytes) (b n : Nat) :
    lookupBlocks ft disk name b (n + 1) =
      (((beforeEnd (blockSlots b (disk.get b))).find? (nameHit name)).map (decode ft)).or
        (lookupBlocks ft disk name (b + 1) n) :=
  findSome_range_succ
    (fun i => ((beforeEnd (blockSlots i (disk.get i))).find? (nameHit name)).map (decode ft)) b n

theorem find_blocks_spec (name : Bytes) : ∀ (n b : Nat) (s : FS), NoFault s → Coherent s →
    ∃ s', findBlocks name n b s = (.ok (lookupBlocks s.vol.fatType s.dev.disk name b n), s') ∧
      s'.dev.disk = s.dev.disk ∧ s'.dev.wlog = s.dev.wlog ∧ s'.vol = s.vol ∧ NoFault s' ∧ Coherent s'
  | 0, b, s, hn, hc => ⟨s, rfl, rfl, rfl, rfl, hn, hc⟩
  | n + 1, b, s, hn, hc => by
    obtain ⟨s1, h1, hblk, _, hd1, hw1, hv1, hn1, hc1⟩ := cacheRead_ok b s hn hc
    obtain ⟨s2, h2, hd2, hw2, hv2, hn2, hc2⟩ := find_blocks_spec name n (b + 1) s1 hn1 hc1
    rw [findBlocks]
    simp only [bind, F.bind', F.getVol, cacheBlk, pure, h1, hblk, find_block_spec _ b]
    rw [lookupBlocks_succ]
    cases hf : Option.map (decode s.vol.fatType)
        (List.find? (nameHit name) (beforeEnd (blockSlots b (s.dev.disk.get b)))) with
    | some e => exact ⟨s1, rfl, hd1, hw1, hv1, hn1, hc1⟩
    | none =>
      rw [hd1, hv1] at h2
      rw [Option.none_or]
      exact ⟨s2, h2, hd2.trans hd1, hw2.trans hw1, hv2.trans hv1, hn2, hc2⟩

/-- Everything after the first end marker is zero (what the FAT specification promises and what
this crate keeps: new directory clusters are zeroed, deletion writes `0xE5`). -/
def CleanTail (ss : List Slot) : Prop :=
  ∀ t ∈ ss.dropWhile (fun s => decide (firstByte s.2.2 ≠ 0)), firstByte t.2.2 = 0

theorem cleanTail_right (l r : List Slot) (h : CleanTail (l ++ r)) (he : endSeen l = false) : CleanTail r := by
  induction l with
  | nil => exact h
  | cons s l ih =>
    by_cases h0 : firstByte s.2.2 = 0
    · rw [endSeen_cons_end s l h0] at he; cases he
    · rw [endSeen_cons_go s l h0] at he
      apply ih _ he
      unfold CleanTail at h ⊢
      rw [List.cons_append, List.dropWhile_cons] at h
      simpa [h0] using h

theorem cleanTail_zero_right (l r : List Slot) (h : CleanTail (l ++ r)) (he : endSeen l = true) :
    ∀ t ∈ r, firstByte t.2.2 = 0 := by
  induction l with
  | nil => cases he
  | cons s l ih =>
    by_cases h0 : firstByte s.2.2 = 0
    · intro t ht
      apply h t
      rw [List.cons_append, List.dropWhile_cons]
      simp only [h0, ne_eq, not_true_eq_false, decide_false, Bool.false_eq_true, if_false]
      exact List.mem_cons_of_mem _ (List.mem_append_right _ ht)
    · rw [endSeen_cons_go s l h0] at he
      apply ih _ he
      unfold CleanTail at h ⊢
      rw [List.cons_append, List.dropWhile_cons] at h
      simpa [h0] using h

theorem beforeEnd_all_zero (l : List Slot) (h : ∀ t ∈ l, firstByte t.2.2 = 0) : beforeEnd l = [] := by
  cases l with
  | nil => rfl
  | cons s l => exact beforeEnd_cons_end s l (h s (List.mem_cons_self ..))

theorem lookupBlocks_all_zero (ft : FatType) (disk : Disk) (name : Bytes) : ∀ (n b : Nat),
    (∀ t ∈ dirSlots disk b n, firstByte t.2.2 = 0) → lookupBlocks ft disk name b n = none
  | 0, _, _ => rfl
  | n + 1, b, h => by
    rw [dirSlots_succ] at h
    rw [lookupBlocks_succ, beforeEnd_all_zero _ (fun t ht => h t (List.mem_append_left _ ht))]
    exact lookupBlocks_all_zero ft disk name n (b + 1) (fun t ht => h t (List.mem_append_right _ ht))

/-- With a clean tail, lookup over a run of blocks is the first hit before the end marker of the
whole run. -/
theorem lookupBlocks_eq_find (ft : FatType) (disk : Disk) (name : Bytes) : ∀ (n b : Nat),
    CleanTail (dirSlots disk b n) →
      lookupBlocks ft disk name b n = ((beforeEnd (dirSlots disk b n)).find? (nameHit name)).map (decode ft)
  | 0, _, _ => rfl
  | n + 1, b, h => by
    rw [dirSlots_succ] at h ⊢
    rw [lookupBlocks_succ, beforeEnd_append]
    by_cases he : endSeen (blockSlots b (disk.get b)) = true
    · rw [lookupBlocks_all_zero ft disk name n (b + 1) (cleanTail_zero_right _ _ h he)]
      simp only [he, if_true, Option.or_none]
    · have he' : endSeen (blockSlots b (disk.get b)) = false := by simpa using he
      rw [lookupBlocks_eq_find ft disk name n (b + 1) (cleanTail_right _ _ h he')]
      simp only [he', Bool.false_eq_true, if_false, List.find?_append, beforeEnd_of_not_endSeen _ he']
      cases List.find? (nameHit name) (blockSlots b (disk.get b)) <;> rfl

/-- Lookup over a run of blocks with a clean tail finds exactly the first entry of the run's
listing with that name. -/
theorem find_blocks_iff_listed (ft : FatType) (disk : Disk) (name : Bytes) (n b : Nat)
    (hname : name.head? ≠ some 0xE5) (hclean : CleanTail (dirSlots disk b n)) :
    lookupBlocks ft disk name b n = (listing ft (dirSlots disk b n)).find? (fun e => decide (e.name = name)) := by
  rw [lookupBlocks_eq_find ft disk name n b hclean, find_beforeEnd_eq_find_listed name hname,
    find_listed_eq_listing_find]

/-! ### The manager level -/

theorem listing_of_raw (ft : FatType) (ss : List Slot) :
    ((((live ss).map fun x => (decode ft x, x.2.2)).map (·.1)).filter fun e => !Attr.isLfn e.attributes)
      = listing ft ss := by
  unfold listing
  rw [List.map_map, List.filter_map]
  rfl

theorem iterate_dir_hides_lfn (directory dirIdx volIdx : Nat) (d : DirInfo) (s s' : Mgr)
    (es : List (DirEntry × Bytes))
    (h1 : getDirById directory s = (.ok dirIdx, s)) (h2 : getDir dirIdx s = (.ok d, s))
    (h3 : getVolumeById d.rawVolume s = (.ok volIdx, s))
    (h4 : withVol volIdx (Fat.iterateRaw d.cluster) s = (.ok es, s')) :
    iterateDir directory s = (.ok ((es.map (·.1)).filter fun e => !Attr.isLfn e.attributes), s') := by
  unfold iterateDir
  simp only [bind, M.bind', h1, h2, h3, h4, pure, M.pure']

/-- The FAT16 fixed root: the whole listing walk is one run of blocks. -/
theorem iterate_fat16_root_spec (s : FS) (hn : NoFault s) (hc : Coherent s) (h16 : s.vol.fatType = .fat16) :
    ∃ s', iterateRaw CLUSTER_ROOT_DIR s =
        (.ok ((live (dirSlots s.dev.disk (s.vol.lbaStart + s.vol.firstRootDirBlock)
                (blockCountFromBytes (s.vol.rootEntriesCount * 32)))).map
              (fun x => (decode .fat16 x, x.2.2))), s') ∧
      s'.dev.disk = s.dev.disk ∧ s'.dev.wlog = s.dev.wlog ∧ s'.vol = s.vol ∧ NoFault s' ∧ Coherent s' := by
  obtain ⟨s', h, hd, hw, hv, hn', hc'⟩ := iterate_blocks_spec (blockCountFromBytes (s.vol.rootEntriesCount * 32))
    (s.vol.lbaStart + s.vol.firstRootDirBlock) s hn hc
  refine ⟨s', ?_, hd, hw, hv, hn', hc'⟩
  rw [h16] at h
  unfold iterateRaw
  simp only [bind, F.bind', F.getVol, chainFuel]
  rw [show s.vol.clusterCount + 3 = (s.vol.clusterCount + 2) + 1 from rfl, iterateWalk]
  simp only [bind, F.bind', F.getVol, dirWalkStart, h16, if_true, DIRENT_LEN, h, pure]
  split <;> rfl

/-- Lookup in the FAT16 fixed root: found iff the block-run lookup finds it, `NotFound` otherwise. -/
theorem find_fat16_root_spec (name : Bytes) (s : FS) (hn : NoFault s) (hc : Coherent s)
    (h16 : s.vol.fatType = .fat16) :
    ∃ s', Fat.findDirectoryEntry CLUSTER_ROOT_DIR name s =
        ((lookupBlocks .fat16 s.dev.disk name (s.vol.lbaStart + s.vol.firstRootDirBlock)
                  (blockCountFromBytes (s.vol.rootEntriesCount * 32))).elim (.err .NotFound) .ok, s') ∧
      s'.dev.disk = s.dev.disk ∧ s'.dev.wlog = s.dev.wlog ∧ s'.vol = s.vol ∧ NoFault s' ∧ Coherent s' := by
  obtain ⟨s', h, hd, hw, hv, hn', hc'⟩ := find_blocks_spec name (blockCountFromBytes (s.vol.rootEntriesCount * 32))
    (s.vol.lbaStart + s.vol.firstRootDirBlock) s hn hc
  refine ⟨s', ?_, hd, hw, hv, hn', hc'⟩
  rw [h16] at h
  unfold Fat.findDirectoryEntry
  simp only [bind, F.bind', F.getVol, chainFuel]
  rw [show s.vol.clusterCount + 3 = (s.vol.clusterCount + 2) + 1 from rfl, findWalk]
  simp only [bind, F.bind', F.getVol, dirWalkStart, h16, if_true, DIRENT_LEN, h, pure]
  cases lookupBlocks FatType.fat16 s.dev.disk name (s.vol.lbaStart + s.vol.firstRootDirBlock)
      (blockCountFromBytes (s.vol.rootEntriesCount * 32)) <;> rfl

/-- `open_dir` with the name `.`: no lookup, the new handle designates the parent's own cluster. -/
theorem open_dir_dot (parentDir parentIdx volIdx : Nat) (name : List Nat) (parent : DirInfo) (vi : VolInfo)
    (s : Mgr) (hroom : s.dirs.length < s.maxDirs)
    (h1 : getDirById parentDir s = (.ok parentIdx, s)) (h2 : getDir parentIdx s = (.ok parent, s))
    (h3 : getVolumeById parent.rawVolume s = (.ok volIdx, s))
    (h4 : Sfn.createFromStr name = .ok Sfn.thisDir) (h5 : getVolInfo volIdx s = (.ok vi, s)) :
    openDir parentDir name s = (.ok s.nextId, { s with
      nextId := (s.nextId + 1) % 4294967296
      dirs := s.dirs ++ [{ rawDirectory := s.nextId, rawVolume := vi.rawVolume, cluster := parent.cluster }] }) := by
  have hroom' : ¬ s.dirs.length ≥ s.maxDirs := by omega
  unfold openDir
  simp only [bind, M.bind', M.get, hroom', if_false, h1, h2, h3, toSfn, h4, pure, M.pure', h5, if_true,
    generate, M.modify]

/-- `open_dir` with any other name: the lookup's outcome decides.  A found directory entry gives a
handle on the cluster the entry designates; a found file gives `OpenedFileAsDir`; a failed lookup
is returned as is. -/
theorem open_dir_follows_entry (parentDir parentIdx volIdx : Nat) (name : List Nat) (sfn : Bytes)
    (parent : DirInfo) (vi : VolInfo) (s s' : Mgr) (r : Res DirEntry) (hroom : s.dirs.length < s.maxDirs)
    (h1 : getDirById parentDir s = (.ok parentIdx, s)) (h2 : getDir parentIdx s = (.ok parent, s))
    (h3 : getVolumeById parent.rawVolume s = (.ok volIdx, s))
    (h4 : Sfn.createFromStr name = .ok sfn) (hne : sfn ≠ Sfn.thisDir) (h5 : getVolInfo volIdx s = (.ok vi, s))
    (h6 : withVol volIdx (Fat.findDirectoryEntry parent.cluster sfn) s = (r, s')) :
    openDir parentDir name s =
      match r with
      | .ok e =>
        if Attr.isDirectory e.attributes then
          (.ok s'.nextId, { s' with
            nextId := (s'.nextId + 1) % 4294967296
            dirs := s'.dirs ++ [{ rawDirectory := s'.nextId, rawVolume := vi.rawVolume, cluster := e.cluster }] })
        else (.err .OpenedFileAsDir, s')
      | .err e => (.err e, s')
      | .panic m => (.panic m, s')
      | .diverged => (.diverged, s') := by
  have hroom' : ¬ s.dirs.length ≥ s.maxDirs := by omega
  unfold openDir
  simp only [bind, M.bind', M.get, hroom', if_false, h1, h2, h3, toSfn, h4, pure, M.pure', h5, hne, h6]
  cases r with
  | ok e =>
    by_cases hd : Attr.isDirectory e.attributes = true
    · simp [hd, generate, M.modify, M.bind', M.pure']
    · simp [hd, M.fail]
  | err e => rfl
  | panic m => rfl
  | diverged => rfl

/-! ### Directories made of a cluster chain -/

/-- The FAT link of `c` as a function of the medium (what `next_cluster` computes). -/
def fatNext (v : FatVolume) (disk : Disk) (c : Nat) : Res Nat :=
  if c > U32_MAX / 4 then .panic "next_cluster called on invalid cluster"
  else decodeNext v.fatType (rawFatEntry v.fatType (disk.get (fatBlock v c)) (fatEntOffset v c))

theorem nextCluster_spec (c : Nat) (s : FS) (hn : NoFault s) (hc : Coherent s) :
    ∃ s', nextCluster c s = (fatNext s.vol s.dev.disk c, s') ∧
      s'.dev.disk = s.dev.disk ∧ s'.dev.wlog = s.dev.wlog ∧ s'.vol = s.vol ∧ NoFault s' ∧ Coherent s' := by
  unfold nextCluster fatNext
  by_cases hbig : c > U32_MAX / 4
  · exact ⟨s, by simp [hbig, F.panic], rfl, rfl, rfl, hn, hc⟩
  · obtain ⟨s1, h1, hblk, _, hd1, hw1, hv1, hn1, hc1⟩ := cacheRead_ok (fatBlock s.vol c) s hn hc
    refine ⟨s1, ?_, hd1, hw1, hv1, hn1, hc1⟩
    simp only [hbig, if_false, bind, F.bind', F.getVol, h1, cacheBlk, hblk, F.lift]

/-- `cs` is the cluster chain of a directory: each cluster links to the next, the last one is
marked end-of-chain. -/
def DirChain (v : FatVolume) (disk : Disk) (cs : List Nat) : Prop :=
  (∀ i, i + 1 < cs.length → fatNext v disk (cs.getD i 0) = .ok (cs.getD (i + 1) 0)) ∧
  fatNext v disk (cs.getLast?.getD 0) = .err .EndOfFile

/-- The slots of a chained directory, cluster after cluster. -/
def chainSlots (v : FatVolume) (disk : Disk) (cs : List Nat) : List Slot :=
  cs.flatMap fun c => dirSlots disk (clusterToBlock v c) v.blocksPerCluster

theorem dirChain_tail (v : FatVolume) (disk : Disk) (c c' : Nat) (cs : List Nat)
    (h : DirChain v disk (c :: c' :: cs)) : fatNext v disk c = .ok c' ∧ DirChain v disk (c' :: cs) := by
  refine ⟨?_, ?_, ?_⟩
  · have := h.1 0 (by simp)
    simpa using this
  · intro i hi
    have := h.1 (i + 1) (by simp at hi ⊢; omega)
    simpa using this
  · have := h.2
    simpa [List.getLast?_cons_cons] using this

theorem iterate_walk_chain (v : FatVolume) : ∀ (cs : List Nat) (c fuel : Nat) (w : DirWalk) (s : FS),
    NoFault s → Coherent s → s.vol = v → DirChain v s.dev.disk (c :: cs) → cs.length < fuel →
    w.cluster = c → w.firstBlock = clusterToBlock v c → w.dirSize = v.blocksPerCluster → w.fixedRoot = false →
    ∃ s', iterateWalk fuel w s =
        (.ok ((live (chainSlots v s.dev.disk (c :: cs))).map (fun x => (decode v.fatType x, x.2.2))), s') ∧
      s'.dev.disk = s.dev.disk ∧ s'.dev.wlog = s.dev.wlog ∧ s'.vol = v ∧ NoFault s' ∧ Coherent s' := by
  intro cs
  induction cs with
  | nil =>
    intro c fuel w s hn hc hv hch hfuel hwc hwb hws hwf
    obtain ⟨fuel, rfl⟩ : ∃ k, fuel = k + 1 := ⟨fuel - 1, by omega⟩
    obtain ⟨s1, h1, hd1, hw1, hv1, hn1, hc1⟩ := iterate_blocks_spec w.dirSize w.firstBlock s hn hc
    obtain ⟨s2, h2, hd2, hw2, hv2, hn2, hc2⟩ := nextCluster_spec w.cluster s1 hn1 hc1
    have hlast : fatNext v s.dev.disk c = .err .EndOfFile := by simpa using hch.2
    rw [hd1, hv1, hv, hwc, hlast] at h2
    rw [hv, hwb, hws] at h1
    have hslots : chainSlots v s.dev.disk [c] = dirSlots s.dev.disk (clusterToBlock v c) v.blocksPerCluster := by
      simp [chainSlots]
    rw [hslots, iterateWalk]
    simp only [bind, F.bind', F.getVol, hwb, hws, h1, hwf, pure, hwc]
    by_cases he : endSeen (dirSlots s.dev.disk (clusterToBlock v c) v.blocksPerCluster) = true
    · refine ⟨s1, ?_, hd1, hw1, hv1.trans hv, hn1, hc1⟩
      simp only [he, if_true, F.pure']
    · refine ⟨s2, ?_, hd2.trans hd1, hw2.trans hw1, (hv2.trans hv1).trans hv, hn2, hc2⟩
      simp only [he, Bool.false_eq_true, if_false, F.bind', F.attempt, h2, F.pure']
  | cons c' cs ih =>
    intro c fuel w s hn hc hv hch hfuel hwc hwb hws hwf
    obtain ⟨fuel, rfl⟩ : ∃ k, fuel = k + 1 := ⟨fuel - 1, by omega⟩
    obtain ⟨hnext, hch'⟩ := dirChain_tail v s.dev.disk c c' cs hch
    obtain ⟨s1, h1, hd1, hw1, hv1, hn1, hc1⟩ := iterate_blocks_spec w.dirSize w.firstBlock s hn hc
    obtain ⟨s2, h2, hd2, hw2, hv2, hn2, hc2⟩ := nextCluster_spec w.cluster s1 hn1 hc1
    rw [hd1, hv1, hv, hwc, hnext] at h2
    rw [hv, hwb, hws] at h1
    have hch2 : DirChain v s2.dev.disk (c' :: cs) := by rw [hd2, hd1]; exact hch'
    obtain ⟨s3, h3, hd3, hw3, hv3, hn3, hc3⟩ := ih c' fuel
      { w with cluster := c', firstBlock := clusterToBlock v c' } s2 hn2 hc2 (by rw [hv2, hv1, hv]) hch2
      (by simp at hfuel; omega) rfl rfl hws hwf
    rw [hd2, hd1] at h3
    simp only [hws, hwf] at h3
    have hslots : chainSlots v s.dev.disk (c :: c' :: cs) =
        dirSlots s.dev.disk (clusterToBlock v c) v.blocksPerCluster ++ chainSlots v s.dev.disk (c' :: cs) := by
      simp [chainSlots]
    rw [hslots, live_append, iterateWalk]
    simp only [bind, F.bind', F.getVol, hwb, hws, h1, hwf, pure, hwc]
    by_cases he : endSeen (dirSlots s.dev.disk (clusterToBlock v c) v.blocksPerCluster) = true
    · refine ⟨s1, ?_, hd1, hw1, hv1.trans hv, hn1, hc1⟩
      simp only [he, if_true, F.pure']
    · refine ⟨s3, ?_, hd3.trans (hd2.trans hd1), hw3.trans (hw2.trans hw1), hv3, hn3, hc3⟩
      simp only [he, Bool.false_eq_true, if_false, F.bind', F.attempt, h2, hv, h3, F.pure', List.map_append]

/-- The cluster a directory handle's walk starts with. -/
def startCluster (v : FatVolume) (dirCluster : Nat) : Nat :=
  match v.fatType with
  | .fat16 => dirCluster
  | .fat32 => if dirCluster = 0xFFFFFFFC then v.firstRootDirCluster else dirCluster

theorem dirWalkStart_chain (v : FatVolume) (dc : Nat) (h : ¬ (v.fatType = .fat16 ∧ dc = 0xFFFFFFFC)) :
    (dirWalkStart v dc).cluster = startCluster v dc ∧
    (dirWalkStart v dc).firstBlock = clusterToBlock v (startCluster v dc) ∧
    (dirWalkStart v dc).dirSize = v.blocksPerCluster ∧ (dirWalkStart v dc).fixedRoot = false := by
  unfold dirWalkStart startCluster
  cases hft : v.fatType with
  | fat16 =>
    have hdc : ¬ dc = CLUSTER_ROOT_DIR := fun e => h ⟨hft, e⟩
    simp [hdc]
  | fat32 =>
    by_cases hdc : dc = 0xFFFFFFFC
    · subst hdc
      simp only [clusterToBlock, hft, CLUSTER_ROOT_DIR, if_true]
      refine ⟨trivial, ?_, trivial, trivial⟩
      split <;> simp_all
    · have hdc' : ¬ dc = CLUSTER_ROOT_DIR := hdc
      simp [hdc, hdc']

/-- Listing a directory stored in a cluster chain (every FAT32 directory, every FAT16
sub-directory): the live slots of the chain's clusters, in order, up to the first end marker. -/
theorem iterate_chain_spec (s : FS) (dirCluster : Nat) (cs : List Nat) (hn : NoFault s) (hc : Coherent s)
    (hkind : ¬ (s.vol.fatType = .fat16 ∧ dirCluster = 0xFFFFFFFC))
    (hch : DirChain s.vol s.dev.disk (startCluster s.vol dirCluster :: cs))
    (hlen : cs.length ≤ s.vol.clusterCount + 2) :
    ∃ s', iterateRaw dirCluster s =
        (.ok ((live (chainSlots s.vol s.dev.disk (startCluster s.vol dirCluster :: cs))).map
              (fun x => (decode s.vol.fatType x, x.2.2))), s') ∧
      s'.dev.disk = s.dev.disk ∧ s'.dev.wlog = s.dev.wlog ∧ s'.vol = s.vol ∧ NoFault s' ∧ Coherent s' := by
  obtain ⟨h1, h2, h3, h4⟩ := dirWalkStart_chain s.vol dirCluster hkind
  obtain ⟨s', h, hd, hw, hv, hn', hc'⟩ := iterate_walk_chain s.vol cs (startCluster s.vol dirCluster)
    (chainFuel s.vol) (dirWalkStart s.vol dirCluster) s hn hc rfl hch (by unfold chainFuel; omega) h1 h2 h3 h4
  refine ⟨s', ?_, hd, hw, hv, hn', hc'⟩
  unfold iterateRaw
  simp only [bind, F.bind', F.getVol]
  exact h

/-! ### Lookup in a chained directory -/

/-- What `find_directory_entry` does over a cluster chain: the block-run lookup of the first
cluster that has a hit. -/
def lookupChain (v : FatVolume) (disk : Disk) (name : Bytes) (cs : List Nat) : Option DirEntry :=
  cs.findSome? fun c => lookupBlocks v.fatType disk name (clusterToBlock v c) v.blocksPerCluster

theorem find_walk_chain (v : FatVolume) (name : Bytes) : ∀ (cs : List Nat) (c fuel : Nat) (w : DirWalk) (s : FS),
    NoFault s → Coherent s → s.vol = v → DirChain v s.dev.disk (c :: cs) → cs.length < fuel →
    w.cluster = c → w.firstBlock = clusterToBlock v c → w.dirSize = v.blocksPerCluster → w.fixedRoot = false →
    ∃ s', findWalk name fuel w s =
        ((lookupChain v s.dev.disk name (c :: cs)).elim (.err .NotFound) .ok, s') ∧
      s'.dev.disk = s.dev.disk ∧ s'.dev.wlog = s.dev.wlog ∧ s'.vol = v ∧ NoFault s' ∧ Coherent s' := by
  intro cs
  induction cs with
  | nil =>
    intro c fuel w s hn hc hv hch hfuel hwc hwb hws hwf
    obtain ⟨fuel, rfl⟩ : ∃ k, fuel = k + 1 := ⟨fuel - 1, by omega⟩
    obtain ⟨s1, h1, hd1, hw1, hv1, hn1, hc1⟩ := find_blocks_spec name w.dirSize w.firstBlock s hn hc
    obtain ⟨s2, h2, hd2, hw2, hv2, hn2, hc2⟩ := nextCluster_spec w.cluster s1 hn1 hc1
    have hlast : fatNext v s.dev.disk c = .err .EndOfFile := by simpa using hch.2
    rw [hd1, hv1, hv, hwc, hlast] at h2
    rw [hv, hwb, hws] at h1
    rw [findWalk]
    simp only [bind, F.bind', F.getVol, hwb, hws, h1, hwf, pure, hwc, lookupChain, List.findSome?_cons,
      List.findSome?_nil]
    cases hl : lookupBlocks v.fatType s.dev.disk name (clusterToBlock v c) v.blocksPerCluster with
    | some e => exact ⟨s1, rfl, hd1, hw1, hv1.trans hv, hn1, hc1⟩
    | none =>
      refine ⟨s2, ?_, hd2.trans hd1, hw2.trans hw1, (hv2.trans hv1).trans hv, hn2, hc2⟩
      simp only [Bool.false_eq_true, if_false, F.bind', F.attempt, h2, F.fail, Option.elim_none]
  | cons c' cs ih =>
    intro c fuel w s hn hc hv hch hfuel hwc hwb hws hwf
    obtain ⟨fuel, rfl⟩ : ∃ k, fuel = k + 1 := ⟨fuel - 1, by omega⟩
    obtain ⟨hnext, hch'⟩ := dirChain_tail v s.dev.disk c c' cs hch
    obtain ⟨s1, h1, hd1, hw1, hv1, hn1, hc1⟩ := find_blocks_spec name w.dirSize w.firstBlock s hn hc
    obtain ⟨s2, h2, hd2, hw2, hv2, hn2, hc2⟩ := nextCluster_spec w.cluster s1 hn1 hc1
    rw [hd1, hv1, hv, hwc, hnext] at h2
    rw [hv, hwb, hws] at h1
    have hch2 : DirChain v s2.dev.disk (c' :: cs) := by rw [hd2, hd1]; exact hch'
    obtain ⟨s3, h3, hd3, hw3, hv3, hn3, hc3⟩ := ih c' fuel
      { w with cluster := c', firstBlock := clusterToBlock v c' } s2 hn2 hc2 (by rw [hv2, hv1, hv]) hch2
      (by simp at hfuel; omega) rfl rfl hws hwf
    rw [hd2, hd1] at h3
    simp only [hws, hwf] at h3
    rw [findWalk]
    simp only [bind, F.bind', F.getVol, hwb, hws, h1, hwf, pure, hwc]
    rw [show lookupChain v s.dev.disk name (c :: c' :: cs) =
      (lookupBlocks v.fatType s.dev.disk name (clusterToBlock v c) v.blocksPerCluster).or
        (lookupChain v s.dev.disk name (c' :: cs)) by
      unfold lookupChain
      rw [List.findSome?_cons]
      cases lookupBlocks v.fatType s.dev.disk name (clusterToBlock v c) v.blocksPerCluster <;> rfl]
    cases hl : lookupBlocks v.fatType s.dev.disk name (clusterToBlock v c) v.blocksPerCluster with
    | some e => exact ⟨s1, rfl, hd1, hw1, hv1.trans hv, hn1, hc1⟩
    | none =>
      refine ⟨s3, ?_, hd3.trans (hd2.trans hd1), hw3.trans (hw2.trans hw1), hv3, hn3, hc3⟩
      simp only [Bool.false_eq_true, if_false, F.bind', F.attempt, h2, hv, h3, Option.none_or]

theorem cleanTail_left (l r : List Slot) (h : CleanTail (l ++ r)) : CleanTail l := by
  induction l with
  | nil => intro t ht; cases ht
  | cons s l ih =>
    unfold CleanTail at h ⊢
    rw [List.cons_append, List.dropWhile_cons] at h
    rw [List.dropWhile_cons]
    by_cases h0 : firstByte s.2.2 = 0
    · simp only [h0, ne_eq, not_true_eq_false, decide_false, Bool.false_eq_true, if_false] at h ⊢
      intro t ht
      apply h t
      rcases List.mem_cons.mp ht with rfl | ht
      · exact List.mem_cons_self ..
      · exact List.mem_cons_of_mem _ (List.mem_append_left _ ht)
    · simp only [h0, ne_eq, not_false_eq_true, decide_true, if_true] at h ⊢
      exact ih h

theorem lookupChain_all_zero (v : FatVolume) (disk : Disk) (name : Bytes) : ∀ (cs : List Nat),
    (∀ t ∈ chainSlots v disk cs, firstByte t.2.2 = 0) → lookupChain v disk name cs = none
  | [], _ => rfl
  | c :: cs, h => by
    have hsl : chainSlots v disk (c :: cs) =
        dirSlots disk (clusterToBlock v c) v.blocksPerCluster ++ chainSlots v disk cs := by simp [chainSlots]
    rw [hsl] at h
    unfold lookupChain
    rw [List.findSome?_cons, lookupBlocks_all_zero _ _ _ _ _ (fun t ht => h t (List.mem_append_left _ ht))]
    exact lookupChain_all_zero v disk name cs (fun t ht => h t (List.mem_append_right _ ht))

theorem lookupChain_eq_find (v : FatVolume) (disk : Disk) (name : Bytes) : ∀ (cs : List Nat),
    CleanTail (chainSlots v disk cs) →
      lookupChain v disk name cs =
        ((beforeEnd (chainSlots v disk cs)).find? (nameHit name)).map (decode v.fatType)
  | [], _ => rfl
  | c :: cs, h => by
    have hsl : chainSlots v disk (c :: cs) =
        dirSlots disk (clusterToBlock v c) v.blocksPerCluster ++ chainSlots v disk cs := by simp [chainSlots]
    rw [hsl] at h ⊢
    have hcons : lookupChain v disk name (c :: cs) =
        (lookupBlocks v.fatType disk name (clusterToBlock v c) v.blocksPerCluster).or (lookupChain v disk name cs) := by
      unfold lookupChain
      rw [List.findSome?_cons]
      cases lookupBlocks v.fatType disk name (clusterToBlock v c) v.blocksPerCluster <;> rfl
    rw [hcons, lookupBlocks_eq_find _ _ _ _ _ (cleanTail_left _ _ h), beforeEnd_append]
    by_cases he : endSeen (dirSlots disk (clusterToBlock v c) v.blocksPerCluster) = true
    · rw [lookupChain_all_zero v disk name cs (cleanTail_zero_right _ _ h he)]
      simp only [he, if_true, Option.or_none]
    · have he' : endSeen (dirSlots disk (clusterToBlock v c) v.blocksPerCluster) = false := by simpa using he
      rw [lookupChain_eq_find v disk name cs (cleanTail_right _ _ h he')]
      simp only [he', Bool.false_eq_true, if_false, List.find?_append, beforeEnd_of_not_endSeen _ he']
      cases List.find? (nameHit name) (dirSlots disk (clusterToBlock v c) v.blocksPerCluster) <;> rfl

/-- Lookup in a chained directory with a clean tail finds exactly the first entry of the
directory's listing with that name. -/
theorem find_chain_iff_listed (v : FatVolume) (disk : Disk) (name : Bytes) (cs : List Nat)
    (hname : name.head? ≠ some 0xE5) (hclean : CleanTail (chainSlots v disk cs)) :
    lookupChain v disk name cs =
      (listing v.fatType (chainSlots v disk cs)).find? (fun e => decide (e.name = name)) := by
  rw [lookupChain_eq_find v disk name cs hclean, find_beforeEnd_eq_find_listed name hname,
    find_listed_eq_listing_find]

/-- `find_directory_entry` on a chained directory. -/
theorem find_chain_spec (s : FS) (dirCluster : Nat) (name : Bytes) (cs : List Nat) (hn : NoFault s) (hc : Coherent s)
    (hkind : ¬ (s.vol.fatType = .fat16 ∧ dirCluster = 0xFFFFFFFC))
    (hch : DirChain s.vol s.dev.disk (startCluster s.vol dirCluster :: cs))
    (hlen : cs.length ≤ s.vol.clusterCount + 2) :
    ∃ s', Fat.findDirectoryEntry dirCluster name s =
        ((lookupChain s.vol s.dev.disk name (startCluster s.vol dirCluster :: cs)).elim (.err .NotFound) .ok, s') ∧
      s'.dev.disk = s.dev.disk ∧ s'.dev.wlog = s.dev.wlog ∧ s'.vol = s.vol ∧ NoFault s' ∧ Coherent s' := by
  obtain ⟨h1, h2, h3, h4⟩ := dirWalkStart_chain s.vol dirCluster hkind
  obtain ⟨s', h, hd, hw, hv, hn', hc'⟩ := find_walk_chain s.vol name cs (startCluster s.vol dirCluster)
    (chainFuel s.vol) (dirWalkStart s.vol dirCluster) s hn hc rfl hch (by unfold chainFuel; omega) h1 h2 h3 h4
  refine ⟨s', ?_, hd, hw, hv, hn', hc'⟩
  unfold Fat.findDirectoryEntry
  simp only [bind, F.bind', F.getVol]
  exact h
