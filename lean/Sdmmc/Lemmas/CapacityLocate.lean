/-
Capacity (C05, second sentence), part 1 — one iteration of the loop of `write` with exact cluster
accounting: `locate_count` is `WriteRefines.locate_spec` (same proof) with what that theorem's
statement leaves out — WHEN the chain is extended (exactly when the offset stands at the end of the
chain, and then by exactly one cluster, taken from the free clusters), and that a `DiskFull` outcome
occurs only with the offset at the end of the chain; `finish_count`: patching the located block
changes no FAT entry, so the number of free clusters stays.
-/
import Sdmmc.Lemmas.WriteRefinesLoop
import Sdmmc.Lemmas.ForestCount

namespace Sdmmc.Lemmas.Capacity
open Sdmmc.Model Sdmmc.Model.Fat Sdmmc.Spec
open Sdmmc.Lemmas.FBasic hiding NoFault Coherent
open Sdmmc.Lemmas.FatOps hiding BlocksOK Mirror HintOK
open Sdmmc.Lemmas.ChainL Sdmmc.Lemmas.ForestBase Sdmmc.Lemmas.ForestOwns Sdmmc.Lemmas.ReadRefines
open Sdmmc.Lemmas.WriteRefines

/-- The number of free clusters depends on the FAT blocks only. -/
theorem freeCount_congr {v : FatVolume} {d d' : Disk}
    (h : ∀ x, x < endCluster v → d'.get (fatBlock v x) = d.get (fatBlock v x)) : freeCount v d' = freeCount v d := by
  unfold freeCount
  apply List.countP_congr
  intro x hx
  have hxE := List.mem_range.1 hx
  have : isFree v d' x ↔ isFree v d x := by
    unfold isFree fatEntry fatRaw
    rw [h x hxE]
  simp only [decide_eq_true_eq]
  rw [this]

/-- `locate` with exact cluster accounting (see the header). -/
theorem locate_count (i vi : Nat) (A B : List (List Nat)) (s : Mgr) (f : FileInfo) (v : VolInfo) (cs : List Nat)
    (h : WInv i vi A B s f v cs) :
    (∃ c s1 v1 cs1,
      locate vi f s = (.ok ((f.currentOffset / clusterBytesLen v.vol * clusterBytesLen v.vol, c),
        (clusterToBlock v.vol c + f.currentOffset % clusterBytesLen v.vol / 512, f.currentOffset % 512,
          512 - f.currentOffset % 512)), s1) ∧
      WInv i vi A B s1 f v1 cs1 ∧ cs1[f.currentOffset / clusterBytesLen v.vol]? = some c ∧ cs <+: cs1 ∧
      SameGeom v.vol v1.vol ∧ v1 = { v with vol := v1.vol } ∧ WStep i vi s s1 f v1 ∧
      (∀ b, ¬ IsFatBlock v.vol b → s1.dev.disk.get b = s.dev.disk.get b) ∧
      ((f.currentOffset < cs.length * clusterBytesLen v.vol ∧ cs1 = cs ∧ s1.dev.disk = s.dev.disk) ∨
       (f.currentOffset = cs.length * clusterBytesLen v.vol ∧ cs1.length = cs.length + 1 ∧
        freeCount v.vol s.dev.disk = freeCount v.vol s1.dev.disk + 1)) ∧
      (∃ new, s1.dev.wlog = new ++ s.dev.wlog ∧ ∀ w, w ∈ new → IsFatBlock v.vol w.1)) ∨
    (∃ s1, locate vi f s = (.err .DiskFull, s1) ∧ WInv i vi A B s1 f v cs ∧ WStep i vi s s1 f v ∧
      s1.dev.disk = s.dev.disk ∧ s1.dev.wlog = s.dev.wlog ∧ Full v.vol s.dev.disk ∧
      f.currentOffset = cs.length * clusterBytesLen v.vol) := by
  obtain ⟨hnf, hcoh, hblk, hunl⟩ := h.ok
  have hcb := h.cbpos
  have hn0 : NoFault (fsOf s v) := hnf
  have hc0 : Coherent (fsOf s v) := hcoh
  have hg : WFGeom (fsOf s v).vol := h.geom
  have hle : f.currentOffset ≤ cs.length * clusterBytesLen v.vol := Nat.le_trans h.fileOK.pos_le h.fileOK.size_fits
  by_cases hin : f.currentOffset < cs.length * clusterBytesLen v.vol
  · -- inside the chain
    left
    have hklt : f.currentOffset / clusterBytesLen v.vol < cs.length := (Nat.div_lt_iff_lt_mul hcb).2 hin
    obtain ⟨c, hk⟩ : ∃ c, cs[f.currentOffset / clusterBytesLen v.vol]? = some c := ⟨_, List.getElem?_eq_getElem hklt⟩
    obtain ⟨fs1, hfind, hro1⟩ := find_on_chain f cs (fsOf s v) f.currentOffset c hn0 hc0 hg h.fileOK hk
    simp only [fsOf_vol] at hfind
    have hfindM := withVol_ro vi (findDataOnDisk f.entry.cluster f.currentOffset (f.curClusterOff, f.curCluster)) s v h.vol
      (by rw [hfind]; exact hro1)
    rw [hfind] at hfindM
    refine ⟨c, { s with dev := fs1.dev, cache := fs1.cache }, v, cs, ?_, ?_, hk, List.prefix_refl _, SameGeom.refl _, rfl, ?_,
      fun b _ => by show fs1.dev.disk.get b = _; rw [hro1.disk]; rfl,
      .inl ⟨hin, rfl, by show fs1.dev.disk = _; rw [hro1.disk]; rfl⟩, [], hro1.wlog, fun _ hw => by cases hw⟩
    · show (M.attempt _ >>= _) s = _
      rw [MHoare.attempt_bind, hfindM]
      rfl
    · refine ⟨⟨hro1.faults.trans hnf, hro1.coherent hc0, ?_, hunl⟩, h.file, h.vol, h.geom, h.hint, ?_, h.ne, ?_⟩
      · intro j; show (fs1.dev.disk.get j).length = 512; rw [hro1.disk]; exact hblk j
      · show FileOK v.vol fs1.dev.disk f cs; rw [hro1.disk]; exact h.fileOK
      · show Owns v.vol fs1.dev.disk _; rw [hro1.disk]; exact h.owns
    · exact ⟨by
        show _ = ({ s with dev := fs1.dev, cache := fs1.cache, files := s.files.set i f, vols := s.vols.set vi v } : Mgr)
        rw [list_set_self _ _ _ h.file, list_set_self _ _ _ h.vol]⟩
  · -- at the end of the chain
    have hoff : f.currentOffset = cs.length * clusterBytesLen v.vol := by omega
    have hlenpos : 0 < cs.length := List.length_pos_iff.2 h.ne
    obtain ⟨last, hlast⟩ : ∃ last, cs[cs.length - 1]? = some last := ⟨_, List.getElem?_eq_getElem (by omega)⟩
    obtain ⟨fs1, hfind, hro1⟩ := find_at_chain_end f cs (fsOf s v) last hn0 hc0 hg h.fileOK hlast
    simp only [fsOf_vol] at hfind
    rw [← hoff] at hfind
    have hfindM := withVol_ro vi (findDataOnDisk f.entry.cluster f.currentOffset (f.curClusterOff, f.curCluster)) s v h.vol
      (by rw [hfind]; exact hro1)
    rw [hfind] at hfindM
    -- the state after the first `find_data_on_disk`
    generalize hs1 : ({ s with dev := fs1.dev, cache := fs1.cache } : Mgr) = s1 at hfindM
    have hfs1 : fsOf s1 v = fs1 := by rw [← hs1]; exact fsOf_ro_eq s v fs1 hro1
    have hv1 : s1.vols[vi]? = some v := by rw [← hs1]; exact h.vol
    have hn1 : NoFault fs1 := hro1.noFault hn0
    have hc1 : Coherent fs1 := hro1.coherent hc0
    have hvol1 : fs1.vol = v.vol := hro1.vol
    have hd1 : fs1.dev.disk = s.dev.disk := hro1.disk
    have hb1 : BlocksOK fs1.dev.disk := by intro j; rw [hd1]; exact hblk j
    have hready : Ready fs1 := ⟨hn1, hc1, hb1, by rw [hvol1]; exact h.geom, by rw [hvol1]; exact h.hint⟩
    have hcs : cs = cs.dropLast ++ [last] := dropLast_append_last cs last hlast
    have hown1 : Owns fs1.vol fs1.dev.disk (A ++ [cs.dropLast ++ [last]] ++ B) := by
      rw [hvol1, hd1, ← hcs]; exact h.owns
    have hallocM := withVol_run vi (allocCluster (some last) false) s1 v hv1
    rw [hfs1] at hallocM
    rcases ForestAlloc.alloc_total fs1 (some last) false hn1 hc1 with ⟨c, fs2, ha⟩ | ⟨fs2, ha, hd2, hv2, hn2, hc2⟩
    · -- a cluster was appended
      left
      obtain ⟨hready2, hown2, hsg, _, _⟩ := ForestStep.owns_extend fs1 fs2 A B cs.dropLast last false c hready hown1 ha
      rw [← hcs] at hown2
      have hlastU : isUsed fs1.vol fs1.dev.disk last := by
        have : last ∈ (A ++ [cs.dropLast ++ [last]] ++ B).flatten :=
          (mem_flatten3 _ _ _ last).2 (.inr (.inl (by rw [ForestStep.flatten_one]; exact List.mem_append_right _ (List.mem_singleton.2 rfl))))
        exact ForestStep.owns_mem_used hown1 this
      obtain ⟨_, _, _, _, _, _, hrc, hcfree, hceof, hclink, hcother, _⟩ :=
        ForestAlloc.alloc_spec fs1 fs2 (some last) false c hn1 hc1 hb1 hready.geom hready.hint
          (fun q hq => by cases hq; exact ⟨hlastU.1.2, hlastU.2.1⟩) ha
      have hcount : freeCount v.vol s.dev.disk = freeCount v.vol fs2.dev.disk + 1 := by
        rw [← hd1, ← hvol1]
        refine ForestCount.freeCount_add (v := fs1.vol) (d := fs2.dev.disk) (d' := fs1.dev.disk) [c]
          (List.nodup_cons.2 ⟨List.not_mem_nil, List.nodup_nil⟩) ?_ ?_ ?_ ?_
        · intro x hx; rw [List.mem_singleton] at hx; subst hx; exact hrc
        · intro x hx; rw [List.mem_singleton] at hx; subst hx; exact (not_free_of_eof hceof).1
        · intro x hx; rw [List.mem_singleton] at hx; subst hx; exact hcfree
        · intro x hxr hxc
          have hxc' : x ≠ c := fun e => hxc (by rw [e]; exact List.mem_singleton.2 rfl)
          by_cases hxl : x = last
          · subst hxl
            exact ⟨fun hf => absurd hf hlastU.2.1,
              fun hf => absurd hf (not_free_of_link (hclink x rfl).2 hrc.1).1⟩
          · exact (ForestStep.isFree_congr_raw (hcother x hxr.2 hxc' (fun e => hxl (Option.some.inj e).symm))).symm
      obtain ⟨_, _, _, _, _, hframe⟩ := DirFat.alloc_frame fs1 fs2 (some last) false c hn1 hc1 hb1 hready.geom hready.hint
        (fun q hq => by cases hq; exact hlastU.1.2) ha
      obtain ⟨sZ, s3, s4, ch⟩ := alloc_chain fs1 fs2 (some last) false c hn1 hc1 ha
      rw [ha] at hallocM
      simp only at hallocM
      generalize hv1def : ({ v with vol := fs2.vol } : VolInfo) = v1 at hallocM
      have hv1vol : v1.vol = fs2.vol := by rw [← hv1def]
      have hsg' : SameGeom v.vol v1.vol := by rw [hv1vol, ← hvol1]; exact hsg
      generalize hs2 : ({ s1 with dev := fs2.dev, cache := fs2.cache, vols := s1.vols.set vi v1 } : Mgr) = s2 at hallocM
      have hvilt : vi < s.vols.length := (List.getElem?_eq_some_iff.1 h.vol).1
      have hv2 : s2.vols[vi]? = some v1 := by
        rw [← hs2, ← hs1]; exact List.getElem?_set_self hvilt
      have hfs2 : fsOf s2 v1 = fs2 := by
        rw [← hs2]
        show ({ dev := fs2.dev, cache := fs2.cache, vol := v1.vol } : FS) = fs2
        rw [hv1vol]
      -- the second `find_data_on_disk`, from the cursor the first one left
      have hchain2 : Chain fs2.vol fs2.dev.disk f.entry.cluster (cs ++ [c]) := by
        have := hown2.1 (cs ++ [c]) (List.mem_append_left _ (List.mem_append_right _ (List.mem_singleton.2 rfl)))
        have hhd : (cs ++ [c]).headD 0 = f.entry.cluster := by
          rw [← chain_head_eq h.chain]
          cases hcse : cs with
          | nil => exact absurd hcse h.ne
          | cons a t => rfl
        rw [hhd] at this
        exact this
      have hcbeq : clusterBytesLen fs2.vol = clusterBytesLen v.vol := by
        rw [← hvol1]; exact sameGeom_clusterBytesLen hsg
      have hctb : ∀ x, clusterToBlock fs2.vol x = clusterToBlock v.vol x := by
        intro x; rw [← hvol1]; exact sameGeom_clusterToBlock hsg x
      have hok2 : ∀ (o k x : Nat), k < (cs ++ [c]).length → o = k * clusterBytesLen v.vol → (cs ++ [c])[k]? = some x →
          FileOK fs2.vol fs2.dev.disk { f with curClusterOff := o, curCluster := x } (cs ++ [c]) := by
        intro o k x hk1 hk2 hk3
        refine ⟨.inr hchain2, ?_, h.fileOK.pos_le, .inr ⟨k, hk1, by rw [hcbeq]; exact hk2, hk3⟩⟩
        rw [hcbeq, List.length_append, Nat.add_mul]
        exact Nat.le_trans h.fileOK.size_fits (Nat.le_add_right _ _)
      have hok2' := hok2 ((cs.length - 1) * clusterBytesLen v.vol) (cs.length - 1) last
        (by rw [List.length_append]; omega) rfl (by rw [List.getElem?_append_left (by omega)]; exact hlast)
      have hkc : (cs ++ [c])[f.currentOffset / clusterBytesLen fs2.vol]? = some c := by
        rw [hcbeq, hoff, Nat.mul_div_cancel _ hcb, List.getElem?_append_right (Nat.le_refl _), Nat.sub_self]
        rfl
      obtain ⟨fs3, hfind2, hro3⟩ := find_on_chain _ (cs ++ [c]) fs2 f.currentOffset c hready2.noFault hready2.coherent
        hready2.geom hok2' hkc
      have hfind2M := withVol_ro vi (findDataOnDisk f.entry.cluster f.currentOffset
        ((cs.length - 1) * clusterBytesLen v.vol, last)) s2 v1 hv2 (by rw [hfs2]; rw [hfind2]; exact hro3)
      rw [hfs2, hfind2] at hfind2M
      have hd2 : ∀ b, ¬ IsFatBlock v.vol b → fs2.dev.disk.get b = s.dev.disk.get b := by
        intro b hb
        rw [← hd1]
        refine hframe b (fun hm => hb ?_) (fun p hp hm => hb ?_) (fun hz => by cases hz.1)
        · exact isFatBlock_of_mem (by rw [← hvol1]; exact hrc.2) (by rw [← hvol1]; exact hm)
        · cases hp
          exact isFatBlock_of_mem (by rw [← hvol1]; exact hlastU.1.2) (by rw [← hvol1]; exact hm)
      refine ⟨c, { s2 with dev := fs3.dev, cache := fs3.cache }, v1, cs ++ [c], ?_, ?_, ?_, List.prefix_append _ _, hsg',
        by rw [← hv1def], ?_, ?_,
        .inr ⟨hoff, by rw [List.length_append]; rfl, by show _ = freeCount v.vol fs3.dev.disk + 1; rw [hro3.disk]; exact hcount⟩, ?_⟩
      · show (M.attempt _ >>= _) s = _
        rw [MHoare.attempt_bind, hfindM]
        show (M.attempt _ >>= _) s1 = _
        rw [MHoare.attempt_bind, hallocM]
        show (M.attempt _ >>= _) s2 = _
        rw [MHoare.attempt_bind, hfind2M, hcbeq]
        simp only [hctb]
        rfl
      · refine ⟨⟨hro3.faults.trans hready2.noFault, hro3.coherent hready2.coherent, ?_, ?_⟩, ?_, hv2, ?_, ?_, ?_,
          by simp, ?_⟩
        · intro j; show (fs3.dev.disk.get j).length = 512; rw [hro3.disk]; exact hready2.blocksOK j
        · rw [← hs2, ← hs1]; exact hunl
        · rw [← hs2, ← hs1]; exact h.file
        · rw [hv1vol]; exact hready2.geom
        · rw [hv1vol]; exact hready2.hint
        · show FileOK v1.vol fs3.dev.disk f (cs ++ [c])
          rw [hro3.disk, hv1vol]
          rcases h.fileOK.cursor with hnil | ⟨k0, hk0, hk0off, hk0c⟩
          · exact absurd hnil h.ne
          · have := hok2 f.curClusterOff k0 f.curCluster (by rw [List.length_append]; omega) hk0off
              (by rw [List.getElem?_append_left hk0]; exact hk0c)
            exact this
        · show Owns v1.vol fs3.dev.disk _
          rw [hro3.disk, hv1vol]; exact hown2
      · rw [← hcbeq]; exact hkc
      · refine ⟨?_⟩
        rw [← hs2, ← hs1]
        show _ = ({ s with dev := fs3.dev, cache := fs3.cache, files := s.files.set i f, vols := s.vols.set vi v1 } : Mgr)
        rw [list_set_self _ _ _ h.file]
      · intro b hb
        show fs3.dev.disk.get b = _
        rw [hro3.disk]; exact hd2 b hb
      · have hlink := ch.link
        simp only at hlink
        refine ⟨fatWriteLog fs1.vol last (fatPayload s3 last c) ++ fatWriteLog fs1.vol c (fatPayload sZ c Gen.CLUSTER_END_OF_FILE), ?_, ?_⟩
        · show fs3.dev.wlog = _
          rw [hro3.wlog, ch.wlog', hlink.1, ch.wlog3, ch.wlogZ, hro1.wlog]
          simp only [zeroLog, Bool.false_eq_true, if_false, List.nil_append, List.append_assoc]
          rfl
        · intro w hw
          rcases List.mem_append.1 hw with hw | hw
          · exact isFatBlock_of_mem (by rw [← hvol1]; exact hlastU.1.2) (by rw [← hvol1]; exact mem_fatWriteLog hw)
          · exact isFatBlock_of_mem (by rw [← hvol1]; exact hrc.2) (by rw [← hvol1]; exact mem_fatWriteLog hw)
    · -- the volume is full
      right
      rw [ha] at hallocM
      simp only at hallocM
      have hvself : ({ v with vol := fs2.vol } : VolInfo) = v := by rw [hv2, hvol1]
      rw [hvself, list_set_self _ _ _ hv1] at hallocM
      refine ⟨{ s1 with dev := fs2.dev, cache := fs2.cache }, ?_, ?_, ?_, ?_, ?_, ?_, hoff⟩
      · show (M.attempt _ >>= _) s = _
        rw [MHoare.attempt_bind, hfindM]
        show (M.attempt _ >>= _) s1 = _
        rw [MHoare.attempt_bind, hallocM]
        rfl
      · refine ⟨⟨hn2, hc2, ?_, ?_⟩, ?_, hv1, h.geom, h.hint, ?_, h.ne, ?_⟩
        · intro j; show (fs2.dev.disk.get j).length = 512; rw [hd2]; exact hb1 j
        · rw [← hs1]; exact hunl
        · rw [← hs1]; exact h.file
        · show FileOK v.vol fs2.dev.disk f cs; rw [hd2, hd1]; exact h.fileOK
        · show Owns v.vol fs2.dev.disk _; rw [hd2, hd1]; exact h.owns
      · refine ⟨?_⟩
        rw [← hs1]
        show _ = ({ s with dev := fs2.dev, cache := fs2.cache, files := s.files.set i f, vols := s.vols.set vi v } : Mgr)
        rw [list_set_self _ _ _ h.file, list_set_self _ _ _ h.vol]
      · show fs2.dev.disk = _; rw [hd2, hd1]
      · show fs2.dev.wlog = _
        have := (alloc_fails_if_full fs1 (some last) false hn1 hc1 hready.hint ?_).2
        · rw [ha] at this; rw [this, hro1.wlog]; rfl
        · intro c h2 hE hfree
          obtain ⟨c', fs', ha'⟩ := alloc_succeeds_if_free fs1 (some last) false hn1 hc1 hready.hint ⟨c, h2, hE, hfree⟩
          rw [ha] at ha'; cases ha'
      · intro c hc hfree
        obtain ⟨c', fs', ha'⟩ := alloc_succeeds_if_free fs1 (some last) false hn1 hc1 hready.hint
          ⟨c, hc.1, by rw [hvol1]; exact hc.2, by rw [hvol1, hd1]; exact hfree⟩
        rw [ha] at ha'; cases ha'


/-- The second half of an iteration (`WriteRefines.finish_spec`) writes one block of a cluster of
the chain and no FAT block: the number of free clusters is the same afterwards. -/
theorem finish_count (i vi : Nat) (A B : List (List Nat)) (s : Mgr) (f : FileInfo) (v : VolInfo) (cs : List Nat) (c : Nat)
    (h : WInv i vi A B s f v cs) (hk : cs[f.currentOffset / clusterBytesLen v.vol]? = some c)
    (off : Nat) (data : Bytes) (whole : Bool) (g : FileInfo → FileInfo) (s2 : Mgr)
    (hrun : (withVol vi (writeBlockPart (clusterToBlock v.vol c + f.currentOffset % clusterBytesLen v.vol / 512)
          off data whole) >>= fun _ => modifyFile i g) s = (.ok (), s2)) :
    freeCount v.vol s2.dev.disk = freeCount v.vol s.dev.disk := by
  obtain ⟨hnf, hcoh, hblk, hunl⟩ := h.ok
  have hg := h.geom
  have hcr : InRange v.vol c := chain_inRange h.chain c (List.mem_of_getElem? hk)
  obtain ⟨_, _, a3⟩ := offset_arith v.vol.blocksPerCluster f.currentOffset hg.bpc_pos
  have hcbdef : clusterBytesLen v.vol = v.vol.blocksPerCluster * 512 := rfl
  rw [← hcbdef] at a3
  generalize hbdef : clusterToBlock v.vol c + f.currentOffset % clusterBytesLen v.vol / 512 = b at hrun
  obtain ⟨fs', hw, _, hdisk, hvol, _, _⟩ := Files.write_block_part_frame b off data whole (fsOf s v) hnf hcoh
  have hwM := withVol_run vi (writeBlockPart b off data whole) s v h.vol
  rw [hw] at hwM
  simp only at hwM
  rw [MHoare.bind_ok hwM] at hrun
  have hs2 : s2.dev = fs'.dev := by
    have := congrArg (fun x => x.2.dev) hrun
    exact this.symm
  rw [hs2, hdisk]
  apply freeCount_congr
  intro x hx
  rw [fsOf_dev, Disk.get_set_ne]
  rw [← hbdef]
  exact fatBlock_ne_clusterBlock hg hx hcr a3

end Sdmmc.Lemmas.Capacity
