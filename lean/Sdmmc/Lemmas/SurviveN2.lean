/-
C09 with SEVERAL OPEN VOLUMES, part 2: what a call that is NOT addressed to a volume leaves of that volume.

`s` is a manager with any number of open volumes (`VolInvNC`, `Spec/VolumeNCrash.lean`); `vi` is volume record `i`, its raw
handle `hv`.  A call `op` with `target s op ≠ some i` — addressed to another volume, or to none (`open_volume`, `close_volume`
of any volume, `open_root_dir`, `close_dir`, `has_open_handles`, calls through stale handles) —

* `writes_miss_structural`: writes no FAT, root-directory or data block of volume `i` (its writes stay in the partition of
  the volume it works on, `Props.C04Multi.step_stays_in_volume`, and the partitions are disjoint; `close_volume hv` itself
  writes the info sector of volume `i` only);
* `quiet_step` (`Quiet`): keeps the record `vi` in the volume table — unless it is `close_volume hv` and succeeds —, keeps the
  open files of volume `hv` up to order, and adds to the open directories of volume `hv` at most a root-directory handle
  (`open_root_dir hv`);
* `step_disk_multi`: the medium after ANY call is the medium before with the call's writes applied.

The table effects of the five calls that work on no volume record are read off the model (`closeVolume_shape`,
`openRootDir_dirs`, `closeDir_dirs`, `Lemmas.VolApi.openRaw_good`, `Lemmas.VolN.untargeted_state`).
-/
import Sdmmc.Lemmas.SurviveN

namespace Sdmmc.Lemmas.SurviveN
open Sdmmc.Model Sdmmc.Model.Fat Sdmmc.Spec.Volume
open Sdmmc.Spec hiding NoFault Coherent run step
open Sdmmc.Props
open Sdmmc.Props.C03Multi (CoveredN CoveredNRun)
open Sdmmc.Lemmas.VolN (LabelFresh)
open Sdmmc.Lemmas.VolNCrash (Structural)
open Sdmmc.Lemmas.MHoare

/-! ### The table calls, read off the model -/

/-- `close_volume v`: the file and directory tables are untouched; the volume table is untouched or loses (by
`swap_remove`) a record carrying the handle `v`. -/
theorem closeVolume_shape {s : Mgr} {ghs : List Ghost} (hI : VolInvN s ghs) (hm : MirrorN s ghs) (v : Nat) :
    (closeVolume v s).2.files = s.files ∧ (closeVolume v s).2.dirs = s.dirs ∧
    ((closeVolume v s).2.vols = s.vols ∨
      ∃ k vk, s.vols[k]? = some vk ∧ vk.rawVolume = v ∧ (closeVolume v s).2.vols = swapRemove s.vols k) := by
  unfold closeVolume
  rw [get_bind]
  by_cases hfa : (s.files.any (·.rawVolume = v)) = true
  · rw [if_pos hfa]; exact ⟨rfl, rfl, .inl rfl⟩
  rw [if_neg hfa]
  by_cases hda : (s.dirs.any (·.rawVolume = v)) = true
  · rw [if_pos hda]; exact ⟨rfl, rfl, .inl rfl⟩
  rw [if_neg hda]
  cases hv : s.vols.findIdx? (·.rawVolume = v) with
  | none => rw [bind_err (getVolumeById_bad hv)]; exact ⟨rfl, rfl, .inl rfl⟩
  | some k =>
    obtain ⟨vi, hvi, hp⟩ := findIdx?_some_get hv
    rw [bind_ok (getVolumeById_ok hv)]
    obtain ⟨dev', cache', hw, _, _⟩ := Lemmas.VolN.withVol_updateInfo_multi hI hm hvi
    rw [bind_ok hw]
    exact ⟨rfl, rfl, .inr ⟨k, vi, hvi, by simpa using hp, rfl⟩⟩

/-- `open_root_dir` adds at most one directory record, carrying the root marker. -/
theorem openRootDir_dirs (v : Nat) (s : Mgr) :
    ∀ di, di ∈ (openRootDir v s).2.dirs → di ∈ s.dirs ∨ di.cluster = Gen.CLUSTER_ROOT_DIR := by
  unfold openRootDir
  rw [generate_bind, get_bind]
  simp only
  split
  · exact fun di h => .inl h
  · intro di hdi
    have hdi' : di ∈ s.dirs ++ [{ rawDirectory := s.nextId, rawVolume := v, cluster := Gen.CLUSTER_ROOT_DIR }] := hdi
    rcases List.mem_append.1 hdi' with h | h
    · exact .inl h
    · rw [List.mem_singleton.1 h]; exact .inr rfl

/-- `close_dir` only removes directory records. -/
theorem closeDir_dirs (d : Nat) (s : Mgr) : ∀ di, di ∈ (closeDir d s).2.dirs → di ∈ s.dirs := by
  unfold closeDir
  rw [get_bind]
  cases h : s.dirs.findIdx? (·.rawDirectory = d) with
  | none => exact fun di h => h
  | some k => exact fun di hdi => VolApi.mem_of_mem_swapRemove hdi

/-! ### What is left of a volume the call is not addressed to -/

/-- What the call `op`, not addressed to the volume with handle `hv`, leaves of that volume's records (`s` before, `s'`
after): the volume record stays — unless `op` is `close_volume hv` and the handle is gone afterwards —, the open files are
the same up to order, the open directories are old ones or root handles. -/
structure Quiet (hv : Nat) (op : Op) (s s' : Mgr) : Prop where
  vols : ∀ vi, vi ∈ s.vols → vi.rawVolume = hv → (op ≠ .closeVolume hv ∨ hv ∈ s'.vols.map (·.rawVolume)) → vi ∈ s'.vols
  files : (volFiles s hv).Perm (volFiles s' hv)
  dirs : ∀ di, di ∈ volDirs s' hv → di ∈ volDirs s hv ∨ di.cluster = Gen.CLUSTER_ROOT_DIR

theorem Quiet.same {hv : Nat} {op : Op} {s s' : Mgr} (hv' : s'.vols = s.vols) (hf : s'.files = s.files)
    (hd : s'.dirs = s.dirs) : Quiet hv op s s' :=
  ⟨fun vi h _ _ => by rw [hv']; exact h, by unfold volFiles; rw [hf],
   fun di h => .inl (by unfold volDirs at h ⊢; rw [← hd]; exact h)⟩

/-- A call that works on no volume record. -/
theorem quiet_untargeted {s : Mgr} {ghs : List Ghost} (hI : VolInvNC s ghs) (op : Op) (ht : target s op = none) (hv : Nat) :
    Quiet hv op s (step s op).1 := by
  have hI0 := VolNCrash.volInvNC_resetLogs hI
  rw [step_unlocked s op hI.inv.unlocked]
  simp only
  cases op with
  | openVolume idx =>
    rw [show (runOp (.openVolume idx) (resetLogs s)).2 = (openRawVolume idx (resetLogs s)).2 from VolApi.map_state _ _ _]
    obtain ⟨t, ⟨dev', cache', rfl, _, _, _⟩, hcase⟩ := VolApi.openRaw_good idx (resetLogs s)
    rcases hcase with h | ⟨v, _, h⟩
    · rw [h]; exact Quiet.same rfl rfl rfl
    · rw [h]
      exact ⟨fun vi hvi _ _ => List.mem_append_left _ hvi, List.Perm.refl _, fun di hdi => .inl hdi⟩
  | closeVolume v =>
    rw [show (runOp (.closeVolume v) (resetLogs s)).2 = (closeVolume v (resetLogs s)).2 from VolApi.seq_state _ _ _]
    obtain ⟨hf, hd, hvs⟩ := closeVolume_shape hI0.inv hI0.mirror v
    refine ⟨?_, by unfold volFiles; rw [hf]; exact List.Perm.refl _,
      fun di h => .inl (by unfold volDirs at h ⊢; rw [hd] at h; exact h)⟩
    intro vi hvi hraw hopen
    rcases hvs with e | ⟨k, vk, hvk, hrk, e⟩
    · rw [e]; exact hvi
    · rw [e] at hopen ⊢
      obtain ⟨i, hi⟩ := List.getElem?_of_mem hvi
      have hvk' : s.vols[k]? = some vk := hvk
      by_cases hik : i = k
      · exfalso
        subst hik
        have hvv : vi = vk := Option.some.inj (hi.symm.trans hvk')
        rcases hopen with h1 | h1
        · exact h1 (by rw [← hraw, hvv, hrk])
        · obtain ⟨w, hw, hwr⟩ := List.mem_map.1 h1
          have hw' : w ∈ s.vols.eraseIdx i := (VolApi.swapRemove_perm s.vols i vk hvk').subset hw
          obtain ⟨j, hj, hjw⟩ := List.mem_eraseIdx_iff_getElem?.1 hw'
          exact hj (VolN.index_of_handle hI.inv.handles hjw hi (hwr.trans hraw.symm))
      · exact VolN.mem_swapRemove_of_ne hvk' hi hik
  | openRoot v =>
    rw [show (runOp (.openRoot v) (resetLogs s)).2 = (openRootDir v (resetLogs s)).2 from VolApi.map_state _ _ _]
    obtain ⟨a, b, _⟩ := VolNCrash.openRootDir_tables v (resetLogs s)
    refine ⟨fun vi hvi _ _ => by rw [b]; exact hvi, by unfold volFiles; rw [a]; exact List.Perm.refl _, ?_⟩
    intro di hdi
    obtain ⟨h1, h2⟩ := List.mem_filter.1 hdi
    rcases openRootDir_dirs v (resetLogs s) di h1 with h | h
    · exact .inl (List.mem_filter.2 ⟨h, h2⟩)
    · exact .inr h
  | closeDir d =>
    rw [show (runOp (.closeDir d) (resetLogs s)).2 = (closeDir d (resetLogs s)).2 from VolApi.seq_state _ _ _]
    obtain ⟨a, b, _⟩ := VolNCrash.closeDir_tables d (resetLogs s)
    refine ⟨fun vi hvi _ _ => by rw [b]; exact hvi, by unfold volFiles; rw [a]; exact List.Perm.refl _, ?_⟩
    intro di hdi
    obtain ⟨h1, h2⟩ := List.mem_filter.1 hdi
    exact .inl (List.mem_filter.2 ⟨closeDir_dirs d (resetLogs s) di h1, h2⟩)
  | hasOpen => exact Quiet.same rfl rfl rfl
  | _ =>
    rw [Lemmas.VolN.untargeted_state hI0.inv _ (by exact ht) (fun _ h => by cases h) (fun _ h => by cases h)
      (fun _ h => by cases h) (fun _ h => by cases h) (fun h => by cases h)]
    exact Quiet.same rfl rfl rfl

/-- A call addressed to ANOTHER volume record. -/
theorem quiet_other_target {s : Mgr} {ghs : List Ghost} (hI : VolInvNC s ghs) (op : Op) {i j : Nat} {vi : VolInfo}
    (ht : target s op = some j) (hf : LabelFresh s op) (hvi : s.vols[i]? = some vi) (hij : i ≠ j) :
    Quiet vi.rawVolume op s (step s op).1 := by
  obtain ⟨vj, hvj⟩ := C03Multi.target_lt ht
  obtain ⟨h1, h2, h3⟩ := C03Multi.other_volumes_records_kept s op ghs hI.inv ht hvj hf hvi hij
  refine ⟨?_, h2.symm, fun di hdi => .inl (h3.subset hdi)⟩
  intro w hw hraw _
  obtain ⟨k, hk⟩ := List.getElem?_of_mem hw
  have : k = i := VolN.index_of_handle hI.inv.handles hk hvi hraw
  subst this
  rw [hvi] at hk; cases hk
  exact List.mem_of_getElem? h1

/-- **Every call that is not addressed to volume record `i`.** -/
theorem quiet_step {s : Mgr} {ghs : List Ghost} (hI : VolInvNC s ghs) (op : Op) (hf : LabelFresh s op) {i : Nat} {vi : VolInfo}
    (hvi : s.vols[i]? = some vi) (hnt : target s op ≠ some i) : Quiet vi.rawVolume op s (step s op).1 := by
  cases ht : target s op with
  | none => exact quiet_untargeted hI op ht _
  | some j => exact quiet_other_target hI op ht hf hvi (fun e => hnt (by rw [ht, e]))

/-! ### The medium -/

/-- **The medium after any call is the medium before with the call's writes applied.** -/
theorem step_disk_multi {s : Mgr} {ghs : List Ghost} (hI : VolInvNC s ghs) (op : Op) :
    ∀ b, (step s op).1.dev.disk.get b = (s.dev.disk.applyWrites (step s op).2.writes).get b := by
  cases hw : C04Multi.workTarget s op with
  | none =>
    obtain ⟨h1, h2⟩ := C04Multi.unaddressed_writes_nothing s op ghs hI.inv hw
    intro b
    rw [h1, h2]
    rfl
  | some i =>
    obtain ⟨vi, hvi⟩ := C04Multi.workTarget_lt hw
    obtain ⟨gh, hgh⟩ : ∃ gh, ghs[i]? = some gh :=
      ⟨_, List.getElem?_eq_getElem (by rw [hI.inv.len]; exact (List.getElem?_eq_some_iff.1 hvi).1)⟩
    obtain ⟨_, _, _, h⟩ := C04Multi.step_licensed_work s op ghs hI.inv hI.mirror hw hvi hgh
    exact h

/-- **A call that is not addressed to volume record `i` writes no FAT, root-directory or data block of volume `i`.** -/
theorem writes_miss_structural {s : Mgr} {ghs : List Ghost} (hI : VolInvNC s ghs) (op : Op) {i : Nat} {vi : VolInfo}
    (hvi : s.vols[i]? = some vi) (hnt : target s op ≠ some i) {b : Nat} (hb : Structural vi.vol b) :
    ∀ w, w ∈ (step s op).2.writes → w.1 ≠ b := by
  intro w hw e
  obtain ⟨j, vj, hwt, hvj, hin, _, _⟩ := C04Multi.step_stays_in_volume s op ghs hI.inv hI.mirror w hw
  by_cases hji : j = i
  · subst hji
    by_cases hcl : ∃ v, op = .closeVolume v
    · obtain ⟨v, rfl⟩ := hcl
      obtain ⟨k, vk, hk, hvk, _, _, hreg, _⟩ := C04Multi.closeVolume_writes_info s v ghs hI.inv w hw
      have hkj : k = j := Option.some.inj (hk.symm.trans hwt)
      subst hkj
      rw [hvi] at hvk; cases hvk
      rw [e] at hreg
      rcases hb with h | h | h <;> rw [hreg] at h <;> cases h
    · rw [C04Multi.workTarget_eq_target s (fun v e => hcl ⟨v, e⟩)] at hwt
      exact hnt hwt
  · rw [e] at hin
    exact hI.inv.parts j i vj vi hvj hvi hji b hin (VolNCrash.structural_inPartition hb)

end Sdmmc.Lemmas.SurviveN
