/-
Primitive facts about the `F` monad, the device and the one-block cache under the two standing
hypotheses of the file-system theorems: no injected device fault (`NoFault`) and a cache that
holds what the medium holds (`Coherent`).  Used by `Sdmmc.Lemmas.Listing` (C06) and
`Sdmmc.Lemmas.Files` (C01).
-/
import Sdmmc.Model.Mgr

namespace Sdmmc.Lemmas.ListingF
open Sdmmc.Model

def NoFault (s : FS) : Prop := s.dev.faults = []
def Coherent (s : FS) : Prop := ∀ i, s.cache.tag = some i → s.cache.blk = s.dev.disk.get i

/-! ### The monad -/

theorem bind_ok {α β} (m : F α) (f : α → F β) (s s' : FS) (a : α) (h : m s = (.ok a, s')) :
    (m >>= f) s = f a s' := by
  show F.bind' m f s = _
  unfold F.bind'; rw [h]

/-! ### The disk -/

theorem disk_get_set (d : Disk) (i j : Nat) (b : Block) :
    (d.set i b).get j = if i = j then b else d.get j := by
  unfold Disk.get Disk.set
  rw [Std.TreeMap.getD_insert]
  by_cases h : i = j
  · subst h; simp
  · have : compare i j ≠ .eq := by
      intro hc; exact h (Nat.compare_eq_eq.mp hc)
    simp [this, h]

theorem disk_get_set_self (d : Disk) (i : Nat) (b : Block) : (d.set i b).get i = b := by
  rw [disk_get_set]; simp

theorem disk_get_set_ne (d : Disk) (i j : Nat) (b : Block) (h : i ≠ j) : (d.set i b).get j = d.get j := by
  rw [disk_get_set]; simp [h]

/-! ### `cacheRead` -/

/-- A cache miss without fault: one device read, the block of the medium lands in the cache. -/
theorem cacheRead_miss (idx : Nat) (s : FS) (hn : NoFault s) (h : s.cache.tag ≠ some idx) :
    cacheRead idx s = (.ok (), { s with
      dev := { s.dev with calls := s.dev.calls + 1, rlog := idx :: s.dev.rlog }
      cache := { tag := some idx, blk := s.dev.disk.get idx } }) := by
  have hf : s.dev.faults.contains s.dev.calls = false := by
    unfold NoFault at hn; rw [hn]; rfl
  unfold cacheRead
  simp only [h, if_false, devRead, hf]
  rfl

theorem cacheRead_hit (idx : Nat) (s : FS) (h : s.cache.tag = some idx) :
    cacheRead idx s = (.ok (), s) := by
  unfold cacheRead; simp [h]

/-- Without faults and with a coherent cache, `cacheRead idx` succeeds, leaves the block `idx`
of the medium in the cache, writes nothing, and keeps medium, volume record and both
hypotheses. -/
theorem cacheRead_ok (idx : Nat) (s : FS) (hn : NoFault s) (hc : Coherent s) :
    ∃ s1, cacheRead idx s = (.ok (), s1) ∧ s1.cache.blk = s.dev.disk.get idx ∧ s1.cache.tag = some idx ∧
      s1.dev.disk = s.dev.disk ∧ s1.dev.wlog = s.dev.wlog ∧ s1.vol = s.vol ∧ NoFault s1 ∧ Coherent s1 := by
  by_cases h : s.cache.tag = some idx
  · exact ⟨s, cacheRead_hit idx s h, hc idx h, h, rfl, rfl, rfl, hn, hc⟩
  · refine ⟨_, cacheRead_miss idx s hn h, rfl, rfl, rfl, rfl, rfl, hn, ?_⟩
    intro i hi
    have : idx = i := by simpa using hi
    subst this; rfl

/-- `blankMut idx`: the cache holds a zero block tagged `idx`; nothing else changes. -/
theorem blankMut_eq (idx : Nat) (s : FS) :
    blankMut idx s = (.ok (), { s with cache := { tag := some idx, blk := zeroBlock } }) := rfl

theorem cacheModify_eq (f : Block → Block) (s : FS) :
    cacheModify f s = (.ok (), { s with cache := { s.cache with blk := f s.cache.blk } }) := rfl

theorem writeBack_eq (idx : Nat) (s : FS) (hn : NoFault s) (ht : s.cache.tag = some idx) :
    writeBack s = (.ok (), { s with dev := { s.dev with
      calls := s.dev.calls + 1
      disk := s.dev.disk.set idx s.cache.blk
      wlog := (idx, s.cache.blk) :: s.dev.wlog } }) := by
  have hf : s.dev.faults.contains s.dev.calls = false := by
    unfold NoFault at hn; rw [hn]; rfl
  unfold writeBack; rw [ht]; simp only [devWrite, hf]; rfl

/-- Without faults, `writeBack` with the cache tagged `idx` writes the cached block to `idx`:
one more entry in the write log, the medium updated at `idx`, cache and volume unchanged. -/
theorem writeBack_ok (idx : Nat) (s : FS) (hn : NoFault s) (ht : s.cache.tag = some idx) :
    ∃ s1, writeBack s = (.ok (), s1) ∧ s1.cache = s.cache ∧ s1.vol = s.vol ∧
      s1.dev.disk = s.dev.disk.set idx s.cache.blk ∧ s1.dev.wlog = (idx, s.cache.blk) :: s.dev.wlog ∧
      s1.dev.rlog = s.dev.rlog ∧ NoFault s1 ∧ Coherent s1 := by
  refine ⟨_, writeBack_eq idx s hn ht, rfl, rfl, rfl, rfl, rfl, hn, ?_⟩
  intro i hi
  have hi' : s.cache.tag = some i := hi
  rw [ht] at hi'
  have : idx = i := by simpa using hi'
  subst this
  show s.cache.blk = (s.dev.disk.set idx s.cache.blk).get idx
  rw [disk_get_set_self]

end Sdmmc.Lemmas.ListingF
