/-
Crash points of `write_new_directory_entry(dir, name, attributes, first_cluster)` (model:
`Fat.writeNewDirectoryEntry`) on a directory whose chain is well formed (or the FAT16 fixed root), when
it succeeds.  From the shape of the call (`CrashDirWalk.writeNewWalk_shape`):

* a free slot exists: ONE device write; the crashed medium is the one before or the one after;
* every slot taken: the crash media of `alloc_cluster(Some(last), zero = true)` (`AllocCrash`: blanking,
  mark, link), then the one device write into slot 0 of the new — blank, linked — cluster.
-/
import Sdmmc.Lemmas.CrashDirWalk
import Sdmmc.Lemmas.CrashData
import Sdmmc.Lemmas.Listing

namespace Sdmmc.Lemmas.CrashDirEntry
open Sdmmc.Model Sdmmc.Model.Fat Sdmmc.Spec
open Sdmmc.Lemmas.FBasic hiding NoFault Coherent
open Sdmmc.Lemmas.FatOps hiding BlocksOK Mirror HintOK
open Sdmmc.Lemmas.ChainL Sdmmc.Lemmas.ForestBase Sdmmc.Lemmas.ForestTrunc Sdmmc.Lemmas.ForestAlloc Sdmmc.Lemmas.ForestStep
open Sdmmc.Lemmas.CrashBase Sdmmc.Lemmas.CrashFat Sdmmc.Lemmas.CrashAlloc Sdmmc.Lemmas.CrashDirWalk

/-- The walk of a directory handle starts at the fixed root, or at the first block of the start
cluster with cluster-sized steps. -/
theorem dirWalkStart_ok (v : FatVolume) (dir : Nat) (h : (dirWalkStart v dir).fixedRoot = false) :
    (dirWalkStart v dir).firstBlock = clusterToBlock v (dirWalkStart v dir).cluster ∧
    (dirWalkStart v dir).dirSize = v.blocksPerCluster := by
  have hk : ¬ (v.fatType = .fat16 ∧ dir = 0xFFFFFFFC) := by
    rintro ⟨h16, rfl⟩
    unfold dirWalkStart at h
    rw [h16] at h
    simp [Gen.CLUSTER_ROOT_DIR] at h
  obtain ⟨h1, h2, h3, _⟩ := Listing.dirWalkStart_chain v dir hk
  exact ⟨by rw [h2, h1], h3⟩

theorem walkOK_start (v : FatVolume) (d : Disk) (dir : Nat) (dcs : List Nat)
    (h : (dirWalkStart v dir).fixedRoot = true ∨ Chain v d (dirWalkStart v dir).cluster dcs) :
    WalkOK v d (dirWalkStart v dir) dcs := by
  by_cases hf : (dirWalkStart v dir).fixedRoot = true
  · exact .inl hf
  · have hf' : (dirWalkStart v dir).fixedRoot = false := by
      cases hx : (dirWalkStart v dir).fixedRoot with
      | true => exact absurd hx hf
      | false => rfl
    obtain ⟨h1, h2⟩ := dirWalkStart_ok v dir hf'
    exact .inr ⟨hf', h1, h2, h.resolve_left hf⟩

theorem writeNewDirectoryEntry_shape (dir : Nat) (name : Bytes) (att fc : Nat) (now : Timestamp) (s s' : FS) (e : DirEntry)
    (dcs : List Nat) (hn : NoFault s) (hc : Coherent s) (hb : BlocksOK s.dev.disk) (hg : WFGeom s.vol) (hh : HintOK s.vol)
    (hdir : (dirWalkStart s.vol dir).fixedRoot = true ∨ Chain s.vol s.dev.disk (dirWalkStart s.vol dir).cluster dcs)
    (h : writeNewDirectoryEntry dir name att fc now s = (.ok e, s')) :
    Shape name att fc now (dirWalkStart s.vol dir) dcs s s' e := by
  unfold writeNewDirectoryEntry at h
  rw [bind_apply, getVol_apply] at h
  exact writeNewWalk_shape name att fc now _ _ s s' e dcs hn hc hb hg hh (walkOK_start _ _ _ _ hdir) h

/-- What the allocation inside a growing directory leaves (`sM` the state after it, before the slot
write): the new cluster `c` was free, is now the blank, end-of-chain-marked successor of the old last
cluster `p`; nothing else changed. -/
structure Grown (v : FatVolume) (d0 dM : Disk) (p c : Nat) : Prop where
  inRange : InRange v c
  wasFree : isFree v d0 c
  lastUsed : isUsed v d0 p
  zero : ClusterZero v dM c
  link : nextOf v dM p = .ok c
  eof : nextOf v dM c = .err .EndOfFile
  within : Within v d0 dM [c, p] (zeroing v true c)

/-- Every crash point of a successful `write_new_directory_entry`. -/
theorem newEntry_crash (dir : Nat) (name : Bytes) (att fc : Nat) (now : Timestamp) (s s' : FS) (e : DirEntry)
    (dcs : List Nat) (hn : NoFault s) (hc : Coherent s) (hb : BlocksOK s.dev.disk) (hg : WFGeom s.vol) (hh : HintOK s.vol)
    (hdir : (dirWalkStart s.vol dir).fixedRoot = true ∨ Chain s.vol s.dev.disk (dirWalkStart s.vol dir).cluster dcs)
    (h : writeNewDirectoryEntry dir name att fc now s = (.ok e, s')) :
    ∃ sM, SlotWrite name att fc now sM s' e ∧ SameGeom s.vol sM.vol ∧ Ready sM ∧
      ((sM.dev.disk = s.dev.disk ∧ InWalk s.vol (dirWalkStart s.vol dir) dcs e.entryBlock ∧
          CrashAll (fun d => d = s.dev.disk ∨ d = s'.dev.disk) s s') ∨
       (∃ p c, (dirWalkStart s.vol dir).fixedRoot = false ∧ dcs.getLast? = some p ∧
          e.entryBlock = clusterToBlock s.vol c ∧ e.entryOffset = 0 ∧ Grown s.vol s.dev.disk sM.dev.disk p c ∧
          CrashAll (fun d => AllocCrash s.vol s.dev.disk sM.dev.disk true c d ∨ d = s'.dev.disk) s s')) := by
  rcases writeNewDirectoryEntry_shape dir name att fc now s s' e dcs hn hc hb hg hh hdir h with
    ⟨sM, ro, hnM, hcM, hsw, hin⟩ | ⟨p, c, s1, s2, hfr, hl, ro1, hn1, hc1, ha, hsw, hbk, hoff⟩
  · refine ⟨sM, hsw, SameGeom.of_eq ro.vol,
      ⟨hnM, hcM, by rw [ro.disk]; exact hb, by rw [ro.vol]; exact hg, by rw [ro.vol]; exact hh⟩, .inl ⟨ro.disk, hin, ?_⟩⟩
    have c2 := CrashData.single_write_crash hsw.wlog hsw.disk
    exact (CrashAll.of_ro ro (.inl rfl)).trans (c2.mono fun d hd => by rw [ro.disk] at hd; exact hd)
  · have hch : Chain s.vol s.dev.disk (dirWalkStart s.vol dir).cluster dcs :=
      hdir.resolve_left (by rw [hfr]; decide)
    have hpm : p ∈ dcs := List.mem_of_getLast? hl
    have hpu : isUsed s.vol s.dev.disk p := chain_mem_used hch p hpm
    have hpu1 : isUsed s1.vol s1.dev.disk p := by rw [ro1.vol, ro1.disk]; exact hpu
    have hb1 : BlocksOK s1.dev.disk := by rw [ro1.disk]; exact hb
    have hg1 : WFGeom s1.vol := by rw [ro1.vol]; exact hg
    have hh1 : HintOK s1.vol := by rw [ro1.vol]; exact hh
    have hp1 : ∀ q, some p = some q → q < endCluster s1.vol ∧ ¬ isFree s1.vol s1.dev.disk q := fun q hq => by
      cases hq; exact ⟨hpu1.1.2, hpu1.2.1⟩
    obtain ⟨hn2, hc2, hb2, hsg, hh2, _, hrc, hfree, heof, hlink, _, _⟩ := alloc_spec s1 s2 (some p) true c hn1 hc1 hb1 hg1 hh1 hp1 ha
    obtain ⟨hcr, hW⟩ := alloc_crash s1 s2 (some p) true c hn1 hc1 hb1 hg1 hh1 (fun q hq => (hp1 q hq).1) ha
    have hz := alloc_final_zero s1 s2 (some p) c hn1 hc1 hb1 hg1 hh1 hp1 ha
    rw [ro1.vol, ro1.disk] at hcr hW hfree
    rw [ro1.vol] at hz hrc heof
    have hlk := (hlink p rfl).2
    rw [ro1.vol] at hlk
    refine ⟨s2, hsw, (SameGeom.of_eq ro1.vol).trans hsg, ⟨hn2, hc2, hb2, hsg.wfGeom hg1, hh2⟩, .inr ⟨p, c, hfr, hl, hbk, hoff,
      ⟨hrc, hfree, hpu, hz, hlk, heof, hW⟩, ?_⟩⟩
    have c01 : CrashAll (fun d => AllocCrash s.vol s.dev.disk s2.dev.disk true c d ∨ d = s'.dev.disk) s s1 :=
      CrashAll.of_ro ro1 (.inl (.inl (Within.refl _ _ _ _)))
    have c12 : CrashAll (fun d => AllocCrash s.vol s.dev.disk s2.dev.disk true c d ∨ d = s'.dev.disk) s1 s2 :=
      hcr.mono fun d hd => .inl hd.1
    have c23 : CrashAll (fun d => AllocCrash s.vol s.dev.disk s2.dev.disk true c d ∨ d = s'.dev.disk) s2 s' :=
      (CrashData.single_write_crash hsw.wlog hsw.disk).mono fun d hd => by
        rcases hd with rfl | rfl
        · exact .inl (.inr (.inr ⟨View.refl _ _, fun _ => hz⟩))
        · exact .inr rfl
    exact (c01.trans c12).trans c23

end Sdmmc.Lemmas.CrashDirEntry
