/-
C09 over whole histories, part 6 (abstract side only): a file slot of the abstract file system that no call
names — no `open_file_in_dir` of its name in its directory in a writing mode, no `delete_file_in_dir` of it —
and that only clean read-only handles refer to keeps its stored entry and its bytes, and still only clean
read-only handles refer to it (`absStep_keeps`).
-/
import Sdmmc.Lemmas.AbsFsTouch

namespace Sdmmc.Lemmas.SurviveAbs
open Sdmmc.Model Sdmmc.Spec.AbsFs Sdmmc.Lemmas.AbsFsTouch

/-- Every handle that refers to slot `(h, j)` has no unflushed changes, or its pending entry satisfies `P` (used
with `P pm`: "`pm` is the entry that was flushed"). -/
def QuietA (a : AbsFs) (h j : Nat) (P : Meta → Prop) : Prop :=
  ∀ f, f ∈ a.files → f.dir = h → f.idx = j → f.dirty = false ∨ P f.pm

/-- The call names the file `N` at slot `j` of directory `h` in a way that may change it: `open_file_in_dir` of
the name in a truncating mode, `delete_file_in_dir` of the name, or `write` through a handle (not a read-only
one) that refers to the slot. -/
def NamesA (a : AbsFs) (h j : Nat) (N : Bytes) : Op → Prop
  | .openFile d name mode => (mode = .ReadWriteTruncate ∨ mode = .ReadWriteCreateOrTruncate) ∧
      ∃ od, dirCtx a d name = .ok (od, N) ∧ od.dir = h
  | .delete d name => ∃ od, dirCtx a d name = .ok (od, N) ∧ od.dir = h
  | .write hd _ => ∃ i f, fileOf a hd = some (i, f) ∧ f.dir = h ∧ f.idx = j ∧ f.mode ≠ .ReadOnly
  | _ => False

/-- Slot `j` of directory `h` is the file with stored entry `m` and bytes `bytes`, and no handle that refers to
it has unflushed changes. -/
structure KeepsA (a : AbsFs) (h j : Nat) (m : Meta) (bytes : Bytes) (P : Meta → Prop) : Prop where
  ids : h ∈ a.ids
  slot : (a.slots h)[j]? = some (.file m bytes)
  quiet : QuietA a h j P
  /-- a pending entry satisfying `P` is stored as the entry the slot holds: storing it again changes nothing -/
  synced : ∀ pm, P pm → storedMeta pm = m

/-! ### Where the open files of the next state come from -/

/-- `f'` is a record of the table before the call: same slot, same mode, and written to only if it was before
or the call is a `write` through it (not a read-only handle). -/
def Old (a : AbsFs) (op : Op) (f' : OpenFile) : Prop :=
  ∃ f, f ∈ a.files ∧ f'.dir = f.dir ∧ f'.idx = f.idx ∧ f'.mode = f.mode ∧
    ((f'.dirty = f.dirty ∧ f'.pm = f.pm) ∨
      ∃ hd data i, op = .write hd data ∧ fileOf a hd = some (i, f) ∧ f.mode ≠ .ReadOnly)

/-- `f'` is the record `open_file_in_dir` added: at the slot the name designates, not written to, read-only
if the call asked for that. -/
def New (a : AbsFs) (op : Op) (f' : OpenFile) : Prop :=
  ∃ d name mode, op = .openFile d name mode ∧ nameSlot a d name = some (f'.dir, f'.idx) ∧ f'.dirty = false ∧
    (mode = .ReadOnly → f'.mode = .ReadOnly)

theorem old_self {a : AbsFs} {op : Op} {f : OpenFile} (hf : f ∈ a.files) : Old a op f := ⟨f, hf, rfl, rfl, rfl, .inl ⟨rfl, rfl⟩⟩

theorem old_of_eq {a a' : AbsFs} {op : Op} (h : a'.files = a.files) : ∀ f', f' ∈ a'.files → Old a op f' := fun f' hf' =>
  old_self (h ▸ hf')

theorem fileOf_get {a : AbsFs} {h i : Nat} {f : OpenFile} (hf : fileOf a h = some (i, f)) : a.files[i]? = some f := by
  unfold fileOf at hf
  cases hi : fileIdx a h with
  | none => rw [hi] at hf; cases hf
  | some k =>
    rw [hi] at hf
    dsimp only at hf
    cases hk : a.files[k]? with
    | none => rw [hk] at hf; cases hf
    | some g =>
      rw [hk] at hf
      simp only [Option.map_some, Option.some.injEq, Prod.mk.injEq] at hf
      obtain ⟨rfl, rfl⟩ := hf
      exact hk

theorem fileOf_handle {a : AbsFs} {h i : Nat} {f : OpenFile} (hf : fileOf a h = some (i, f)) : f.handle = h := by
  have hg := fileOf_get hf
  unfold fileOf at hf
  cases hi : fileIdx a h with
  | none => rw [hi] at hf; cases hf
  | some k =>
    rw [hi] at hf
    dsimp only at hf
    cases hk : a.files[k]? with
    | none => rw [hk] at hf; cases hf
    | some g =>
      rw [hk] at hf
      simp only [Option.map_some, Option.some.injEq, Prod.mk.injEq] at hf
      obtain ⟨rfl, rfl⟩ := hf
      unfold fileIdx at hi
      obtain ⟨hlt, hp, _⟩ := List.findIdx?_eq_some_iff_getElem.1 hi
      have : a.files[k] = g := (List.getElem?_eq_some_iff.1 hk).2
      rw [this] at hp
      exact of_decide_eq_true hp

theorem old_of_set {a : AbsFs} {op : Op} {i : Nat} {f g : OpenFile} (hf : a.files[i]? = some f) (h1 : g.dir = f.dir) (h2 : g.idx = f.idx)
    (h3 : g.mode = f.mode)
    (h4 : (g.dirty = f.dirty ∧ g.pm = f.pm) ∨
      ∃ hd data i, op = .write hd data ∧ fileOf a hd = some (i, f) ∧ f.mode ≠ .ReadOnly) :
    ∀ f', f' ∈ a.files.set i g → Old a op f' := by
  intro f' hf'
  rcases List.mem_or_eq_of_mem_set hf' with h | h
  · exact old_self h
  · subst h
    exact ⟨f, List.mem_of_getElem? hf, h1, h2, h3, h4⟩

theorem mem_swapRemove {α : Type} {l : List α} {i : Nat} {x : α} (h : x ∈ swapRemove l i) : x ∈ l := by
  unfold swapRemove at h
  split at h
  · next last _ hl _ =>
    split at h
    · exact List.dropLast_subset _ h
    · rcases List.mem_or_eq_of_mem_set (List.dropLast_subset _ h) with h1 | h1
      · exact h1
      · subst h1; exact List.mem_of_getLast? hl
  · exact h

section
variable {a a' : AbsFs} {r : Res Payload}

theorem flushF_files (hd : Nat) : (flushF a hd).1.files = a.files := by
  unfold flushF
  repeat' split
  all_goals rfl

theorem openRootF_files (v : Nat) : (openRootF a v).1.files = a.files := by
  unfold openRootF
  split <;> rfl

theorem closeDirF_files (d : Nat) : (closeDirF a d).1.files = a.files := by
  unfold closeDirF
  split <;> rfl

theorem openVolumeS_files {idx : Nat} (h : openVolumeS a idx a' r) : a'.files = a.files := by
  unfold openVolumeS at h
  split at h
  · obtain ⟨rfl, _⟩ := h; rfl
  · rcases h with ⟨rfl, _⟩ | ⟨rfl, _⟩ <;> rfl

theorem closeVolumeS_files {v : Nat} (h : closeVolumeS a v a' r) : a'.files = a.files := by
  unfold closeVolumeS at h
  repeat' split at h
  all_goals (obtain ⟨rfl, _⟩ := h; rfl)

theorem openDirS_files {d : Nat} {name : List Nat} (h : openDirS a d name a' r) : a'.files = a.files := by
  unfold openDirS at h
  repeat' split at h
  all_goals (obtain ⟨rfl, _⟩ := h; rfl)

theorem labelS_files {v : Nat} (h : labelS a v a' r) : a'.files = a.files := by
  unfold labelS at h
  split at h
  · obtain ⟨rfl, _⟩ := h; rfl
  · rcases h with ⟨rfl, _⟩ | h
    · rfl
    · split at h
      · obtain ⟨rfl, _⟩ := h
        rw [closeDirF_files, openRootF_files]
      · obtain ⟨rfl, _⟩ := h
        exact openRootF_files v

theorem readS_files {hd n : Nat} {op : Op} (h : readS a hd n a' r) : ∀ f', f' ∈ a'.files → Old a op f' := by
  unfold readS at h
  cases hf : fileOf a hd with
  | none => rw [hf] at h; obtain ⟨rfl, _⟩ := h; exact fun _ => old_self
  | some p =>
    obtain ⟨i, f⟩ := p
    rw [hf] at h
    dsimp only at h
    split at h
    · obtain ⟨rfl, _⟩ := h; exact fun _ => old_self
    · obtain ⟨m, bytes, _, _, rfl⟩ := h
      exact old_of_set (fileOf_get hf) rfl rfl rfl (.inl ⟨rfl, rfl⟩)

theorem seekStartS_files {hd n : Nat} {op : Op} (h : seekStartS a hd n a' r) : ∀ f', f' ∈ a'.files → Old a op f' := by
  unfold seekStartS at h
  cases hf : fileOf a hd with
  | none => rw [hf] at h; obtain ⟨rfl, _⟩ := h; exact fun _ => old_self
  | some p =>
    obtain ⟨i, f⟩ := p
    rw [hf] at h
    dsimp only at h
    split at h
    · obtain ⟨rfl, _⟩ := h
      exact old_of_set (fileOf_get hf) rfl rfl rfl (.inl ⟨rfl, rfl⟩)
    · obtain ⟨rfl, _⟩ := h; exact fun _ => old_self

theorem seekEndS_files {hd n : Nat} {op : Op} (h : seekEndS a hd n a' r) : ∀ f', f' ∈ a'.files → Old a op f' := by
  unfold seekEndS at h
  cases hf : fileOf a hd with
  | none => rw [hf] at h; obtain ⟨rfl, _⟩ := h; exact fun _ => old_self
  | some p =>
    obtain ⟨i, f⟩ := p
    rw [hf] at h
    dsimp only at h
    split at h
    · obtain ⟨rfl, _⟩ := h
      exact old_of_set (fileOf_get hf) rfl rfl rfl (.inl ⟨rfl, rfl⟩)
    · obtain ⟨rfl, _⟩ := h; exact fun _ => old_self

theorem seekCurS_files {hd : Nat} {n : Int} {op : Op} (h : seekCurS a hd n a' r) : ∀ f', f' ∈ a'.files → Old a op f' := by
  unfold seekCurS at h
  cases hf : fileOf a hd with
  | none => rw [hf] at h; obtain ⟨rfl, _⟩ := h; exact fun _ => old_self
  | some p =>
    obtain ⟨i, f⟩ := p
    rw [hf] at h
    dsimp only at h
    split at h
    · obtain ⟨rfl, _⟩ := h; exact fun _ => old_self
    · obtain ⟨rfl, _⟩ := h
      exact old_of_set (fileOf_get hf) rfl rfl rfl (.inl ⟨rfl, rfl⟩)

theorem writeS_files {hd : Nat} {data : Bytes} (h : writeS a hd data a' r) : ∀ f', f' ∈ a'.files → Old a (.write hd data) f' := by
  unfold writeS at h
  cases hf : fileOf a hd with
  | none => rw [hf] at h; obtain ⟨rfl, _⟩ := h; exact fun _ => old_self
  | some p =>
    obtain ⟨i, f⟩ := p
    rw [hf] at h
    dsimp only at h
    split at h
    · obtain ⟨rfl, _⟩ := h; exact fun _ => old_self
    · split at h
      · obtain ⟨rfl, _⟩ := h; exact fun _ => old_self
      · next hmode =>
        obtain ⟨m, bytes, k, _, _, _, rfl⟩ := h
        exact old_of_set (fileOf_get hf) rfl rfl rfl (.inr ⟨hd, data, i, rfl, hf, hmode⟩)

theorem closeFileS_files {hd : Nat} {op : Op} (h : closeFileS a hd a' r) : ∀ f', f' ∈ a'.files → Old a op f' := by
  unfold closeFileS at h
  split at h
  · obtain ⟨rfl, _⟩ := h; exact fun _ => old_self
  · obtain ⟨rfl, _⟩ := h
    exact fun f' hf' => old_self (mem_swapRemove hf')

theorem deleteS_files {d : Nat} {name : List Nat} (h : deleteS a d name a' r) : a'.files = a.files := by
  unfold deleteS at h
  repeat' split at h
  all_goals first
    | (obtain ⟨rfl, _⟩ := h; rfl)
    | exact h.elim

theorem mkdirS_files {d : Nat} {name : List Nat} (h : mkdirS a d name a' r) : a'.files = a.files := by
  unfold mkdirS at h
  split at h
  · obtain ⟨rfl, _⟩ := h; rfl
  split at h
  · obtain ⟨rfl, _⟩ := h; rfl
  · split at h
    · split at h <;> (obtain ⟨rfl, _⟩ := h; rfl)
    · rcases h with ⟨rfl, _⟩ | ⟨c, _, _, rfl⟩ <;> rfl

theorem solve_readOnly (b : Bool) : solveModeVariant .ReadOnly b = .ReadOnly := rfl

theorem openFileS_files {d : Nat} {name : List Nat} {mode : Mode} (h : openFileS a d name mode a' r) :
    ∀ f', f' ∈ a'.files → Old a (.openFile d name mode) f' ∨ New a (.openFile d name mode) f' := by
  unfold openFileS at h
  split at h
  · obtain ⟨rfl, _⟩ := h; exact fun _ hf => .inl (old_self hf)
  cases hctx : dirCtx a d name with
  | error e => rw [hctx] at h; obtain ⟨rfl, _⟩ := h; exact fun _ hf => .inl (old_self hf)
  | ok p =>
    obtain ⟨od, sfn⟩ := p
    rw [hctx] at h
    dsimp only at h
    cases hlk : lookup (a.slots od.dir) sfn with
    | none =>
      rw [hlk] at h
      dsimp only at h
      split at h
      · next hcreate =>
        rcases h with ⟨rfl, _⟩ | ⟨rfl, _⟩
        · exact fun _ hf => .inl (old_self hf)
        · intro f' hf'
          rcases List.mem_append.1 hf' with h1 | h1
          · exact .inl (old_self h1)
          · rw [List.mem_singleton] at h1
            subst h1
            refine .inr ⟨d, name, mode, rfl, nameSlot_fresh hctx hlk, rfl, fun hm => ?_⟩
            rw [hm] at hcreate
            rcases hcreate with e | e | e <;> cases e
      · obtain ⟨rfl, _⟩ := h; exact fun _ hf => .inl (old_self hf)
    | some i =>
      rw [hlk] at h
      dsimp only at h
      split at h
      · split at h
        · obtain ⟨rfl, _⟩ := h; exact fun _ hf => .inl (old_self hf)
        · split at h
          · obtain ⟨rfl, _⟩ := h; exact fun _ hf => .inl (old_self hf)
          · split at h
            · obtain ⟨rfl, _⟩ := h; exact fun _ hf => .inl (old_self hf)
            · obtain ⟨_, h⟩ := h
              split at h
              · next htr =>
                subst h
                intro f' hf'
                rcases List.mem_append.1 hf' with h1 | h1
                · exact .inl (old_self h1)
                · rw [List.mem_singleton] at h1
                  subst h1
                  refine .inr ⟨d, name, mode, rfl, nameSlot_found hctx hlk, rfl, fun hm => ?_⟩
                  rw [hm, solve_readOnly] at htr
                  cases htr
              · subst h
                intro f' hf'
                rcases List.mem_append.1 hf' with h1 | h1
                · exact .inl (old_self h1)
                · rw [List.mem_singleton] at h1
                  subst h1
                  refine .inr ⟨d, name, mode, rfl, nameSlot_found hctx hlk, rfl, fun hm => ?_⟩
                  rw [hm]; rfl
      · repeat' split at h
        all_goals (obtain ⟨rfl, _⟩ := h; exact fun _ hf => .inl (old_self hf))
      · exact h.elim

end

/-- **Where the open files come from**: every record of the table after a call is a record of the table
before (same slot and mode; written to only if it was before, or not read-only), or the one record
`open_file_in_dir` added. -/
theorem absStep_files {a a' : AbsFs} {op : Op} {r : Res Payload} (h : absStep a op (a', r)) :
    ∀ f', f' ∈ a'.files → Old a op f' ∨ New a op f' := by
  unfold absStep at h
  by_cases hl : a.locked = true
  · rw [if_pos hl] at h
    injection h with h1 _
    rw [h1]; exact fun _ hf => .inl (old_self hf)
  rw [if_neg hl] at h
  have same : a'.files = a.files → ∀ f', f' ∈ a'.files → Old a op f' ∨ New a op f' := fun e f' hf' => .inl (old_of_eq e f' hf')
  have old : (∀ f', f' ∈ a'.files → Old a op f') → ∀ f', f' ∈ a'.files → Old a op f' ∨ New a op f' := fun e f' hf' => .inl (e f' hf')
  cases op with
  | openVolume idx => exact same (openVolumeS_files (show openVolumeS a idx a' r from h))
  | closeVolume v => exact same (closeVolumeS_files (show closeVolumeS a v a' r from h))
  | openRoot v =>
    have h' : (a', r) = openRootF a v := h
    have : a' = (openRootF a v).1 := congrArg Prod.fst h'
    exact same (by rw [this, openRootF_files])
  | closeDir d =>
    have h' : (a', r) = closeDirF a d := h
    have : a' = (closeDirF a d).1 := congrArg Prod.fst h'
    exact same (by rw [this, closeDirF_files])
  | openDir d name => exact same (openDirS_files (show openDirS a d name a' r from h))
  | find d name => obtain ⟨rfl, _⟩ := (show findS a d name a' r from h); exact same rfl
  | list d => obtain ⟨rfl, _⟩ := (show listS a d a' r from h); exact same rfl
  | listLfn d n => obtain ⟨rfl, _⟩ := (show listLfnS a d a' r from h); exact same rfl
  | openFile d name mode => exact openFileS_files (show openFileS a d name mode a' r from h)
  | read f n => exact old (readS_files (show readS a f n a' r from h))
  | write f data => exact old (writeS_files (show writeS a f data a' r from h))
  | seekStart f n => exact old (seekStartS_files (show seekStartS a f n a' r from h))
  | seekCur f n => exact old (seekCurS_files (show seekCurS a f n a' r from h))
  | seekEnd f n => exact old (seekEndS_files (show seekEndS a f n a' r from h))
  | flush f =>
    have h' : (a', r) = flushF a f := h
    have : a' = (flushF a f).1 := congrArg Prod.fst h'
    exact same (by rw [this, flushF_files])
  | closeFile f => exact old (closeFileS_files (show closeFileS a f a' r from h))
  | delete d name => exact same (deleteS_files (show deleteS a d name a' r from h))
  | mkdir d name => exact same (mkdirS_files (show mkdirS a d name a' r from h))
  | length f => obtain ⟨rfl, _⟩ := (show lengthS a f a' r from h); exact same rfl
  | offset f => obtain ⟨rfl, _⟩ := (show offsetS a f a' r from h); exact same rfl
  | eof f => obtain ⟨rfl, _⟩ := (show eofS a f a' r from h); exact same rfl
  | hasOpen =>
    have h' : (a', r) = (a, _) := h
    injection h' with h1 _
    exact same (by rw [h1])
  | label v => exact same (labelS_files (show labelS a v a' r from h))

/-! ### The directory numbers -/

theorem absStep_ids {a a' : AbsFs} {op : Op} {r : Res Payload} (h : absStep a op (a', r)) {x : Nat} (hx : x ∈ a.ids) :
    x ∈ a'.ids := by
  unfold absStep at h
  by_cases hl : a.locked = true
  · rw [if_pos hl] at h
    injection h with h1 _
    rw [h1]; exact hx
  rw [if_neg hl] at h
  cases op with
  | openVolume idx =>
    have h : openVolumeS a idx a' r := h
    unfold openVolumeS at h
    split at h
    · obtain ⟨rfl, _⟩ := h; exact hx
    · rcases h with ⟨rfl, _⟩ | ⟨rfl, _⟩ <;> exact hx
  | closeVolume v =>
    have h : closeVolumeS a v a' r := h
    unfold closeVolumeS at h
    repeat' split at h
    all_goals (obtain ⟨rfl, _⟩ := h; exact hx)
  | openRoot v =>
    have h' : (a', r) = openRootF a v := h
    have : a' = (openRootF a v).1 := congrArg Prod.fst h'
    rw [this]; unfold openRootF; split <;> exact hx
  | closeDir d =>
    have h' : (a', r) = closeDirF a d := h
    have : a' = (closeDirF a d).1 := congrArg Prod.fst h'
    rw [this]; unfold closeDirF; split <;> exact hx
  | openDir d name =>
    have h : openDirS a d name a' r := h
    unfold openDirS at h
    repeat' split at h
    all_goals (obtain ⟨rfl, _⟩ := h; exact hx)
  | find d name => obtain ⟨rfl, _⟩ := (show findS a d name a' r from h); exact hx
  | list d => obtain ⟨rfl, _⟩ := (show listS a d a' r from h); exact hx
  | listLfn d n => obtain ⟨rfl, _⟩ := (show listLfnS a d a' r from h); exact hx
  | openFile d name mode =>
    have h : openFileS a d name mode a' r := h
    unfold openFileS at h
    split at h
    · obtain ⟨rfl, _⟩ := h; exact hx
    split at h
    · obtain ⟨rfl, _⟩ := h; exact hx
    split at h
    · split at h
      · rcases h with ⟨rfl, _⟩ | ⟨rfl, _⟩ <;> exact hx
      · obtain ⟨rfl, _⟩ := h; exact hx
    · split at h
      · split at h
        · obtain ⟨rfl, _⟩ := h; exact hx
        · split at h
          · obtain ⟨rfl, _⟩ := h; exact hx
          · split at h
            · obtain ⟨rfl, _⟩ := h; exact hx
            · obtain ⟨_, h⟩ := h
              split at h <;> (subst h; exact hx)
      · repeat' split at h
        all_goals (obtain ⟨rfl, _⟩ := h; exact hx)
      · exact h.elim
  | read f n =>
    have h : readS a f n a' r := h
    unfold readS at h
    repeat' split at h
    all_goals first
      | (obtain ⟨rfl, _⟩ := h; exact hx)
      | (obtain ⟨m, bytes, _, _, rfl⟩ := h; exact hx)
  | write f data =>
    have h : writeS a f data a' r := h
    unfold writeS at h
    repeat' split at h
    all_goals first
      | (obtain ⟨rfl, _⟩ := h; exact hx)
      | (obtain ⟨m, bytes, k, _, _, _, rfl⟩ := h; exact hx)
  | seekStart f n =>
    have h : seekStartS a f n a' r := h
    unfold seekStartS at h
    repeat' split at h
    all_goals (obtain ⟨rfl, _⟩ := h; exact hx)
  | seekCur f n =>
    have h : seekCurS a f n a' r := h
    unfold seekCurS at h
    repeat' split at h
    all_goals (obtain ⟨rfl, _⟩ := h; exact hx)
  | seekEnd f n =>
    have h : seekEndS a f n a' r := h
    unfold seekEndS at h
    repeat' split at h
    all_goals (obtain ⟨rfl, _⟩ := h; exact hx)
  | flush f =>
    have h' : (a', r) = flushF a f := h
    have : a' = (flushF a f).1 := congrArg Prod.fst h'
    rw [this]; unfold flushF
    repeat' split
    all_goals exact hx
  | closeFile f =>
    have h : closeFileS a f a' r := h
    unfold closeFileS at h
    split at h
    · obtain ⟨rfl, _⟩ := h; exact hx
    · obtain ⟨rfl, _⟩ := h
      show x ∈ (flushF a f).1.ids
      unfold flushF
      repeat' split
      all_goals exact hx
  | delete d name =>
    have h : deleteS a d name a' r := h
    unfold deleteS at h
    repeat' split at h
    all_goals first
      | (obtain ⟨rfl, _⟩ := h; exact hx)
      | exact h.elim
  | mkdir d name =>
    have h : mkdirS a d name a' r := h
    unfold mkdirS at h
    split at h
    · obtain ⟨rfl, _⟩ := h; exact hx
    split at h
    · obtain ⟨rfl, _⟩ := h; exact hx
    · split at h
      · split at h <;> (obtain ⟨rfl, _⟩ := h; exact hx)
      · rcases h with ⟨rfl, _⟩ | ⟨c, _, _, rfl⟩
        · exact hx
        · exact List.mem_append_left _ hx
  | length f => obtain ⟨rfl, _⟩ := (show lengthS a f a' r from h); exact hx
  | offset f => obtain ⟨rfl, _⟩ := (show offsetS a f a' r from h); exact hx
  | eof f => obtain ⟨rfl, _⟩ := (show eofS a f a' r from h); exact hx
  | hasOpen =>
    have h' : (a', r) = (a, _) := h
    injection h' with h1 _
    rw [h1]; exact hx
  | label v =>
    have h : labelS a v a' r := h
    unfold labelS at h
    split at h
    · obtain ⟨rfl, _⟩ := h; exact hx
    · rcases h with ⟨rfl, _⟩ | h
      · exact hx
      · split at h
        · obtain ⟨rfl, _⟩ := h
          unfold closeDirF
          split <;> (unfold openRootF; split <;> exact hx)
        · obtain ⟨rfl, _⟩ := h
          unfold openRootF; split <;> exact hx

/-! ### The slot keeps -/

theorem freeIdx_ne {ss : List Slot} {j : Nat} {m : Meta} {bytes : Bytes} (h : ss[j]? = some (.file m bytes)) : freeIdx ss ≠ j := by
  unfold freeIdx
  have hj := (List.getElem?_eq_some_iff.1 h).1
  cases hi : ss.findIdx? Slot.isDeleted with
  | none => show ss.length ≠ j; omega
  | some i =>
    obtain ⟨hlt, hp, _⟩ := List.findIdx?_eq_some_iff_getElem.1 hi
    show i ≠ j
    intro e
    subst e
    have : ss[i] = .file m bytes := (List.getElem?_eq_some_iff.1 h).2
    rw [this] at hp
    cases hp

theorem lookup_name {ss : List Slot} {j : Nat} {m : Meta} {bytes : Bytes} (h : ss[j]? = some (.file m bytes)) {sfn : Bytes}
    (hl : lookup ss sfn = some j) : sfn = m.name := by
  obtain ⟨hlt, hp, _⟩ := List.findIdx?_eq_some_iff_getElem.1 hl
  have : ss[j] = .file m bytes := (List.getElem?_eq_some_iff.1 h).2
  rw [this] at hp
  have hp' : decide (m.name = sfn) = true := hp
  exact (of_decide_eq_true hp').symm

/-- A name that designates the slot of a file is the file's name, looked up in the file's directory. -/
theorem nameSlot_hit {a : AbsFs} {h j : Nat} {m : Meta} {bytes : Bytes} (hk : (a.slots h)[j]? = some (.file m bytes))
    {d : Nat} {name : List Nat} (hn : nameSlot a d name = some (h, j)) :
    ∃ od, dirCtx a d name = .ok (od, m.name) ∧ od.dir = h ∧ lookup (a.slots h) m.name = some j := by
  unfold nameSlot at hn
  cases hctx : dirCtx a d name with
  | error e => rw [hctx] at hn; cases hn
  | ok p =>
    obtain ⟨od, sfn⟩ := p
    rw [hctx] at hn
    simp only [Option.some.injEq, Prod.mk.injEq] at hn
    obtain ⟨h1, h2⟩ := hn
    subst h1
    cases hlk : lookup (a.slots od.dir) sfn with
    | none =>
      rw [hlk] at h2
      exact absurd h2 (freeIdx_ne hk)
    | some i =>
      rw [hlk] at h2
      have : i = j := h2
      subst this
      have := lookup_name hk hlk
      subst this
      exact ⟨od, rfl, rfl, hlk⟩

theorem handleSlot_file {a : AbsFs} {hd h j : Nat} (hs : handleSlot a hd = some (h, j)) :
    ∃ i f, fileOf a hd = some (i, f) ∧ f ∈ a.files ∧ f.dir = h ∧ f.idx = j := by
  unfold handleSlot at hs
  cases hf : fileOf a hd with
  | none => rw [hf] at hs; cases hs
  | some p =>
    obtain ⟨i, f⟩ := p
    rw [hf] at hs
    simp only [Option.map_some, Option.some.injEq, Prod.mk.injEq] at hs
    exact ⟨i, f, rfl, List.mem_of_getElem? (fileOf_get hf), hs.1, hs.2⟩

/-- `flush_file` through a handle of the slot stores nothing new. -/
theorem flushF_keeps {a : AbsFs} {hd h j : Nat} {m : Meta} {bytes : Bytes} {P : Meta → Prop}
    (hs : handleSlot a hd = some (h, j)) (hk : KeepsA a h j m bytes P) :
    ((flushF a hd).1.slots h)[j]? = some (.file m bytes) := by
  obtain ⟨i, f, hf, hfm, h1, h2⟩ := handleSlot_file hs
  subst h1 h2
  unfold flushF
  rw [hf]
  dsimp only
  cases hdirty : f.dirty with
  | false => exact hk.slot
  | true =>
    simp only [Bool.not_true, Bool.false_eq_true, if_false]
    by_cases hv : (!volOpen a f.volume) = true
    · rw [if_pos hv]; exact hk.slot
    · rw [if_neg hv, hk.slot]
      dsimp only
      have hP : P f.pm := by
        rcases hk.quiet f hfm rfl rfl with hc | hc
        · rw [hdirty] at hc; cases hc
        · exact hc
      rw [hk.synced f.pm hP]
      have hlt := (List.getElem?_eq_some_iff.1 hk.slot).1
      unfold setSlot put
      dsimp only
      rw [if_pos rfl, if_pos hlt, List.getElem?_set_self hlt]

/-- **The slot keeps**: a call that does not name the file — no `open_file_in_dir` of its name in its
directory in a truncating mode, no `delete_file_in_dir` of it, no `write` through a handle of it — leaves the file's
slot (stored entry and bytes) as it was, and still no handle that refers to it has unflushed changes. -/
theorem absStep_keeps {a a' : AbsFs} {op : Op} {r : Res Payload} (hst : absStep a op (a', r)) {h j : Nat} {m : Meta}
    {bytes : Bytes} {P : Meta → Prop} (hk : KeepsA a h j m bytes P) (hn : ¬ NamesA a h j m.name op) : KeepsA a' h j m bytes P := by
  refine ⟨absStep_ids hst hk.ids, ?_, ?_, hk.synced⟩
  · by_cases ht : touched a op = some (h, j)
    · -- the call's slot is the file's: it is a call through a clean read-only handle, or a harmless look-up
      have hst' := hst
      unfold absStep at hst
      by_cases hl : a.locked = true
      · rw [if_pos hl] at hst
        injection hst with h1 _
        rw [h1]; exact hk.slot
      rw [if_neg hl] at hst
      cases op with
      | write hd data =>
        have hst : writeS a hd data a' r := hst
        obtain ⟨i, f, hf, hfm, h1, h2⟩ := handleSlot_file (show handleSlot a hd = some (h, j) from ht)
        have hm : f.mode = .ReadOnly := Classical.byContradiction fun hne => hn ⟨i, f, hf, h1, h2, hne⟩
        unfold writeS at hst
        rw [hf] at hst
        dsimp only at hst
        by_cases hv : (!volOpen a f.volume) = true
        · rw [if_pos hv] at hst
          obtain ⟨rfl, _⟩ := hst; exact hk.slot
        · rw [if_neg hv, if_pos hm] at hst
          obtain ⟨rfl, _⟩ := hst; exact hk.slot
      | flush hd =>
        have h' : (a', r) = flushF a hd := hst
        have : a' = (flushF a hd).1 := congrArg Prod.fst h'
        rw [this]
        exact flushF_keeps (show handleSlot a hd = some (h, j) from ht) hk
      | closeFile hd =>
        have hst : closeFileS a hd a' r := hst
        unfold closeFileS at hst
        split at hst
        · obtain ⟨rfl, _⟩ := hst; exact hk.slot
        · obtain ⟨rfl, _⟩ := hst
          show ((flushF a hd).1.slots h)[j]? = _
          exact flushF_keeps (show handleSlot a hd = some (h, j) from ht) hk
      | openFile d name mode =>
        have hst : openFileS a d name mode a' r := hst
        obtain ⟨od, hctx, hod, hlk⟩ := nameSlot_hit hk.slot (show nameSlot a d name = some (h, j) from ht)
        have hmode : ¬ (mode = .ReadWriteTruncate ∨ mode = .ReadWriteCreateOrTruncate) := fun hm => hn ⟨hm, od, hctx, hod⟩
        subst hod
        unfold openFileS at hst
        split at hst
        · obtain ⟨rfl, _⟩ := hst; exact hk.slot
        rw [hctx] at hst
        dsimp only at hst
        rw [hlk] at hst
        dsimp only at hst
        rw [hk.slot] at hst
        dsimp only at hst
        split at hst
        · obtain ⟨rfl, _⟩ := hst; exact hk.slot
        · split at hst
          · obtain ⟨rfl, _⟩ := hst; exact hk.slot
          · split at hst
            · obtain ⟨rfl, _⟩ := hst; exact hk.slot
            · obtain ⟨_, hst⟩ := hst
              rw [if_neg (by
                intro e
                apply hmode
                cases mode <;> simp [solveModeVariant] at e ⊢)] at hst
              subst hst
              exact hk.slot
      | delete d name =>
        obtain ⟨od, hctx, hod, _⟩ := nameSlot_hit hk.slot (show nameSlot a d name = some (h, j) from ht)
        exact absurd ⟨od, hctx, hod⟩ hn
      | mkdir d name =>
        have hst : mkdirS a d name a' r := hst
        obtain ⟨od, hctx, hod, hlk⟩ := nameSlot_hit hk.slot (show nameSlot a d name = some (h, j) from ht)
        subst hod
        unfold mkdirS at hst
        split at hst
        · obtain ⟨rfl, _⟩ := hst; exact hk.slot
        rw [hctx] at hst
        dsimp only at hst
        rw [hlk] at hst
        dsimp only at hst
        split at hst <;> (obtain ⟨rfl, _⟩ := hst; exact hk.slot)
      | _ => cases ht
    · rw [absStep_untouched hst hk.ids ht]
      exact hk.slot
  · intro f' hf' h1 h2
    rcases absStep_files hst f' hf' with ⟨f, hfm, e1, e2, e3, e4⟩ | ⟨d, name, mode, hop, hns, hcl, hro⟩
    · have hd := hk.quiet f hfm (e1 ▸ h1) (e2 ▸ h2)
      rcases e4 with ⟨e4, e5⟩ | ⟨hd', data, i, hop, hfo, hmode⟩
      · rcases hd with hd | hd
        · exact .inl (e4.trans hd)
        · exact .inr (by rw [e5]; exact hd)
      · subst hop
        exact absurd ⟨i, f, hfo, e1 ▸ h1, e2 ▸ h2, hmode⟩ hn
    · exact .inl hcl

/-! ### Read-only handles only -/

/-- Every handle that refers to slot `(h, j)` is a read-only handle. -/
def ROA (a : AbsFs) (h j : Nat) : Prop := ∀ f, f ∈ a.files → f.dir = h → f.idx = j → f.mode = .ReadOnly

/-- The call opens the file `N` of directory `h` in a mode other than `ReadOnly`. -/
def OpensA (a : AbsFs) (h : Nat) (N : Bytes) : Op → Prop
  | .openFile d name mode => mode ≠ .ReadOnly ∧ ∃ od, dirCtx a d name = .ok (od, N) ∧ od.dir = h
  | _ => False

/-- If only read-only handles refer to a file slot and the call does not open the file in another mode, only
read-only handles refer to it afterwards. -/
theorem absStep_ro {a a' : AbsFs} {op : Op} {r : Res Payload} (hst : absStep a op (a', r)) {h j : Nat} {m : Meta}
    {bytes : Bytes} (hsl : (a.slots h)[j]? = some (.file m bytes)) (hro : ROA a h j) (hn : ¬ OpensA a h m.name op) :
    ROA a' h j := by
  intro f' hf' h1 h2
  rcases absStep_files hst f' hf' with ⟨f, hfm, e1, e2, e3, _⟩ | ⟨d, name, mode, hop, hns, _, hmo⟩
  · exact e3.trans (hro f hfm (e1 ▸ h1) (e2 ▸ h2))
  · subst hop
    rw [h1, h2] at hns
    obtain ⟨od, hctx, hod, _⟩ := nameSlot_hit hsl hns
    exact hmo (Classical.byContradiction fun hne => hn ⟨hne, od, hctx, hod⟩)

/-- The same along a history of the abstract file system: `hn` says that no call names the file in the
state it is issued in. -/
theorem absRun_keeps : ∀ {ops : List Op} {rs : List (Res Payload)} {a a' : AbsFs}, absRun a ops rs a' → ∀ {h j : Nat} {m : Meta}
    {bytes : Bytes} {P : Meta → Prop}, KeepsA a h j m bytes P →
    (∀ (k : Nat) (ak : AbsFs) (op : Op), absRun a (ops.take k) (rs.take k) ak → ops[k]? = some op → ¬ NamesA ak h j m.name op) →
    KeepsA a' h j m bytes P
  | [], [], a, a', hr, _, _, _, _, _, hk, _ => by
    have : a' = a := hr
    rw [this]; exact hk
  | [], _ :: _, _, _, hr, _, _, _, _, _, _, _ => hr.elim
  | _ :: _, [], _, _, hr, _, _, _, _, _, _, _ => hr.elim
  | op :: ops, r :: rs, a, a', hr, h, j, m, bytes, P, hk, hn => by
    obtain ⟨a1, hs1, hr1⟩ := hr
    have hk1 := absStep_keeps hs1 hk (hn 0 a op rfl rfl)
    refine absRun_keeps hr1 hk1 fun k ak op' hrk hop => ?_
    exact hn (k + 1) ak op' ⟨a1, hs1, hrk⟩ (by simpa using hop)

end Sdmmc.Lemmas.SurviveAbs
