/-
A small Hoare-style framework for the manager monad `M` of `Sdmmc.Model.Mgr`.

* run lemmas: how `>>=`, `pure`, `M.get`, … compute on a given state (for symbolic execution of a
  call whose first steps are known);
* `Frame s s'`: `s'` differs from `s` at most in the device, the cache, the `vol` record of the open
  volumes and the non-identity fields of the open files.  `Resp m` ("`m` respects the frame"):
  every run of `m` ends in a state framed by the start state.  `Resp` is closed under `>>=`,
  `attempt`, `if`, `match`; `withVol volIdx f` respects the frame for *every* FAT computation `f`,
  so the FAT internals never need unfolding;
* `wp m Q s`: the postcondition `Q` holds of the outcome of `m` run from `s`, with backward rules.
-/
import Sdmmc.Model.Mgr

namespace Sdmmc.Lemmas.MHoare
open Sdmmc.Model

/-! ### Run lemmas -/

theorem bind_def {α β} (m : M α) (f : α → M β) (s : Mgr) :
    (m >>= f) s = (match m s with
      | (.ok a, s') => f a s'
      | (.err e, s') => (.err e, s')
      | (.panic msg, s') => (.panic msg, s')
      | (.diverged, s') => (.diverged, s')) := rfl

theorem bind_ok {α β} {m : M α} {f : α → M β} {s s' : Mgr} {a : α} (h : m s = (.ok a, s')) :
    (m >>= f) s = f a s' := by rw [bind_def, h]
theorem bind_err {α β} {m : M α} {f : α → M β} {s s' : Mgr} {e : Err} (h : m s = (.err e, s')) :
    (m >>= f) s = (.err e, s') := by rw [bind_def, h]
theorem bind_panic {α β} {m : M α} {f : α → M β} {s s' : Mgr} {msg : String} (h : m s = (.panic msg, s')) :
    (m >>= f) s = (.panic msg, s') := by rw [bind_def, h]
theorem bind_diverged {α β} {m : M α} {f : α → M β} {s s' : Mgr} (h : m s = (.diverged, s')) :
    (m >>= f) s = (.diverged, s') := by rw [bind_def, h]

@[simp] theorem pure_run {α} (a : α) (s : Mgr) : (pure a : M α) s = (.ok a, s) := rfl
@[simp] theorem get_run (s : Mgr) : M.get s = (.ok s, s) := rfl
@[simp] theorem fail_run {α} (e : Err) (s : Mgr) : (M.fail e : M α) s = (.err e, s) := rfl
@[simp] theorem panic_run {α} (msg : String) (s : Mgr) : (M.panic msg : M α) s = (.panic msg, s) := rfl
@[simp] theorem lift_run {α} (r : Res α) (s : Mgr) : M.lift r s = (r, s) := rfl
@[simp] theorem modify_run (f : Mgr → Mgr) (s : Mgr) : M.modify f s = (.ok (), f s) := rfl
@[simp] theorem attempt_run {α} (m : M α) (s : Mgr) : M.attempt m s = (.ok (m s).1, (m s).2) := rfl
@[simp] theorem generate_run (s : Mgr) :
    generate s = (.ok s.nextId, { s with nextId := (s.nextId + 1) % 4294967296 }) := rfl

/-- `M.get >>= f` runs `f s` from `s`. -/
theorem get_bind {α} (f : Mgr → M α) (s : Mgr) : (M.get >>= f) s = f s s := rfl
theorem pure_bind {α β} (a : α) (f : α → M β) (s : Mgr) : ((pure a : M α) >>= f) s = f a s := rfl
theorem fail_bind {α β} (e : Err) (f : α → M β) (s : Mgr) : ((M.fail e : M α) >>= f) s = (.err e, s) := rfl
theorem modify_bind {β} (g : Mgr → Mgr) (f : Unit → M β) (s : Mgr) : (M.modify g >>= f) s = f () (g s) := rfl
theorem generate_bind {β} (f : Nat → M β) (s : Mgr) :
    (generate >>= f) s = f s.nextId { s with nextId := (s.nextId + 1) % 4294967296 } := rfl
theorem attempt_bind {α β} (m : M α) (f : Res α → M β) (s : Mgr) :
    (M.attempt m >>= f) s = f (m s).1 (m s).2 := rfl

theorem getFileById_ok {s : Mgr} {raw i : Nat} (h : s.files.findIdx? (·.rawFile = raw) = some i) :
    getFileById raw s = (.ok i, s) := by unfold getFileById; rw [h]
theorem getFileById_bad {s : Mgr} {raw : Nat} (h : s.files.findIdx? (·.rawFile = raw) = none) :
    getFileById raw s = (.err .BadHandle, s) := by unfold getFileById; rw [h]
theorem getDirById_ok {s : Mgr} {raw i : Nat} (h : s.dirs.findIdx? (·.rawDirectory = raw) = some i) :
    getDirById raw s = (.ok i, s) := by unfold getDirById; rw [h]
theorem getDirById_bad {s : Mgr} {raw : Nat} (h : s.dirs.findIdx? (·.rawDirectory = raw) = none) :
    getDirById raw s = (.err .BadHandle, s) := by unfold getDirById; rw [h]
theorem getVolumeById_ok {s : Mgr} {raw i : Nat} (h : s.vols.findIdx? (·.rawVolume = raw) = some i) :
    getVolumeById raw s = (.ok i, s) := by unfold getVolumeById; rw [h]
theorem getVolumeById_bad {s : Mgr} {raw : Nat} (h : s.vols.findIdx? (·.rawVolume = raw) = none) :
    getVolumeById raw s = (.err .BadHandle, s) := by unfold getVolumeById; rw [h]
theorem getDir_ok {s : Mgr} {i : Nat} {d : DirInfo} (h : s.dirs[i]? = some d) : getDir i s = (.ok d, s) := by
  unfold getDir; rw [h]
theorem getFile_ok {s : Mgr} {i : Nat} {f : FileInfo} (h : s.files[i]? = some f) : getFile i s = (.ok f, s) := by
  unfold getFile; rw [h]
theorem getVolInfo_ok {s : Mgr} {i : Nat} {v : VolInfo} (h : s.vols[i]? = some v) : getVolInfo i s = (.ok v, s) := by
  unfold getVolInfo; rw [h]

/-- A handle that is not in a table is not found in it. -/
theorem findIdx?_none_of_not_mem {α} (l : List α) (key : α → Nat) (raw : Nat) (h : raw ∉ l.map key) :
    l.findIdx? (fun x => decide (key x = raw)) = none := by
  rw [List.findIdx?_eq_none_iff]
  intro x hx
  simp only [decide_eq_false_iff_not]
  intro hk
  exact h (List.mem_map.2 ⟨x, hx, hk⟩)

/-- A handle that is in a table is found, at a slot holding it. -/
theorem findIdx?_some_of_mem {α} (l : List α) (key : α → Nat) (raw : Nat) (h : raw ∈ l.map key) :
    ∃ i x, l.findIdx? (fun x => decide (key x = raw)) = some i ∧ l[i]? = some x ∧ key x = raw := by
  obtain ⟨y, hy, hk⟩ := List.mem_map.1 h
  cases hf : l.findIdx? (fun x => decide (key x = raw)) with
  | none =>
    rw [List.findIdx?_eq_none_iff] at hf
    have := hf y hy
    simp [hk] at this
  | some i =>
    have h2 := List.findIdx?_eq_some_iff_getElem.1 hf
    obtain ⟨hi, hp, _⟩ := h2
    exact ⟨i, l[i], rfl, by simp [hi], by simpa using hp⟩

theorem findIdx?_some_get {α} {l : List α} {p : α → Bool} {i : Nat} (h : l.findIdx? p = some i) :
    ∃ x, l[i]? = some x ∧ p x = true := by
  obtain ⟨hi, hp, _⟩ := List.findIdx?_eq_some_iff_getElem.1 h
  exact ⟨l[i], by simp [hi], hp⟩

/-! ### The frame -/

/-- What a call that opens and closes nothing may change: the device, the cache, the `vol` record
of open volumes, and the fields of open files other than the handle. -/
structure Frame (s s' : Mgr) : Prop where
  nextId : s'.nextId = s.nextId
  dirs : s'.dirs = s.dirs
  fileIds : s'.files.map (·.rawFile) = s.files.map (·.rawFile)
  fileVols : s'.files.map (·.rawVolume) = s.files.map (·.rawVolume)
  volIds : s'.vols.map (fun v => (v.rawVolume, v.idx)) = s.vols.map (fun v => (v.rawVolume, v.idx))
  maxVols : s'.maxVols = s.maxVols
  maxDirs : s'.maxDirs = s.maxDirs
  maxFiles : s'.maxFiles = s.maxFiles
  clock : s'.clock = s.clock
  locked : s'.locked = s.locked

theorem Frame.refl (s : Mgr) : Frame s s := ⟨rfl, rfl, rfl, rfl, rfl, rfl, rfl, rfl, rfl, rfl⟩

theorem Frame.trans {a b c : Mgr} (h1 : Frame a b) (h2 : Frame b c) : Frame a c :=
  ⟨h2.nextId.trans h1.nextId, h2.dirs.trans h1.dirs, h2.fileIds.trans h1.fileIds,
   h2.fileVols.trans h1.fileVols, h2.volIds.trans h1.volIds,
   h2.maxVols.trans h1.maxVols, h2.maxDirs.trans h1.maxDirs, h2.maxFiles.trans h1.maxFiles,
   h2.clock.trans h1.clock, h2.locked.trans h1.locked⟩

theorem Frame.files_length {s s' : Mgr} (h : Frame s s') : s'.files.length = s.files.length := by
  simpa using congrArg List.length h.fileIds
theorem Frame.vols_length {s s' : Mgr} (h : Frame s s') : s'.vols.length = s.vols.length := by
  simpa using congrArg List.length h.volIds
theorem Frame.volHandles {s s' : Mgr} (h : Frame s s') :
    s'.vols.map (·.rawVolume) = s.vols.map (·.rawVolume) := by
  have := congrArg (List.map Prod.fst) h.volIds
  simpa [List.map_map, Function.comp_def] using this
theorem Frame.volIdxs {s s' : Mgr} (h : Frame s s') :
    s'.vols.map (·.idx) = s.vols.map (·.idx) := by
  have := congrArg (List.map Prod.snd) h.volIds
  simpa [List.map_map, Function.comp_def] using this

/-- `m` respects the frame. -/
def Resp {α} (m : M α) : Prop := ∀ s, Frame s (m s).2

theorem resp_pure {α} (a : α) : Resp (pure a : M α) := fun s => Frame.refl s
theorem resp_fail {α} (e : Err) : Resp (M.fail e : M α) := fun s => Frame.refl s
theorem resp_panic {α} (msg : String) : Resp (M.panic msg : M α) := fun s => Frame.refl s
theorem resp_lift {α} (r : Res α) : Resp (M.lift r) := fun s => Frame.refl s
theorem resp_get : Resp M.get := fun s => Frame.refl s

theorem resp_bind {α β} {m : M α} {f : α → M β} (hm : Resp m) (hf : ∀ a, Resp (f a)) : Resp (m >>= f) := by
  intro s
  have h1 := hm s
  rw [bind_def]
  rcases hms : m s with ⟨r, s'⟩
  rw [hms] at h1
  cases r with
  | ok a => exact h1.trans (hf a s')
  | err e => exact h1
  | panic msg => exact h1
  | diverged => exact h1

theorem resp_attempt {α} {m : M α} (hm : Resp m) : Resp (M.attempt m) := fun s => hm s

theorem resp_ite {α} {c : Prop} [Decidable c] {a b : M α} (ha : Resp a) (hb : Resp b) :
    Resp (if c then a else b) := by split <;> assumption

theorem resp_getFileById (raw : Nat) : Resp (getFileById raw) := by
  intro s; unfold getFileById; split <;> exact Frame.refl s
theorem resp_getDirById (raw : Nat) : Resp (getDirById raw) := by
  intro s; unfold getDirById; split <;> exact Frame.refl s
theorem resp_getVolumeById (raw : Nat) : Resp (getVolumeById raw) := by
  intro s; unfold getVolumeById; split <;> exact Frame.refl s
theorem resp_getDir (i : Nat) : Resp (getDir i) := by
  intro s; unfold getDir; split <;> exact Frame.refl s
theorem resp_getFile (i : Nat) : Resp (getFile i) := by
  intro s; unfold getFile; split <;> exact Frame.refl s
theorem resp_getVolInfo (i : Nat) : Resp (getVolInfo i) := by
  intro s; unfold getVolInfo; split <;> exact Frame.refl s
theorem resp_toSfn (name : List Nat) : Resp (toSfn name) := by
  unfold toSfn; split
  · exact resp_pure _
  · exact resp_fail _

theorem map_set_of_eq {α β} (l : List α) (k : α → β) (i : Nat) (x y : α) (hx : l[i]? = some x) (hk : k y = k x) :
    (l.set i y).map k = l.map k := by
  rw [List.map_set, hk]
  apply List.ext_getElem?
  intro j
  rw [List.getElem?_set]
  split
  · next hij =>
    subst hij
    split
    · simp [hx]
    · next hlt => simp at hlt; simp [hlt]
  · rfl

theorem map_modify_of_eq {α β} (l : List α) (k : α → β) (i : Nat) (g : α → α) (hk : ∀ x, k (g x) = k x) :
    (l.modify i g).map k = l.map k := by
  apply List.ext_getElem?
  intro j
  simp only [List.getElem?_map, List.getElem?_modify]
  split
  · next hij => subst hij; cases l[i]? <;> simp [hk]
  · cases l[j]? <;> simp

/-- Whatever the FAT computation does, it respects the frame. -/
theorem resp_withVol {α} (volIdx : Nat) (f : F α) : Resp (withVol volIdx f) := by
  intro s
  unfold withVol
  split
  · exact Frame.refl s
  · next vi hvi =>
    refine ⟨rfl, rfl, rfl, rfl, ?_, rfl, rfl, rfl, rfl, rfl⟩
    exact map_set_of_eq s.vols _ volIdx vi _ hvi rfl

theorem resp_modify {g : Mgr → Mgr} (h : ∀ s, Frame s (g s)) : Resp (M.modify g) := fun s => h s

theorem resp_modifyFile (i : Nat) (g : FileInfo → FileInfo)
    (hg : ∀ f, (g f).rawFile = f.rawFile ∧ (g f).rawVolume = f.rawVolume) : Resp (modifyFile i g) := by
  intro s
  refine ⟨rfl, rfl, ?_, ?_, rfl, rfl, rfl, rfl, rfl, rfl⟩
  · exact map_modify_of_eq s.files _ i g fun x => (hg x).1
  · exact map_modify_of_eq s.files _ i g fun x => (hg x).2

/-- `setFile` of a record with the same identity as the one it replaces. -/
theorem resp_setFile_of {i : Nat} {f' : FileInfo} (s : Mgr) (f : FileInfo) (hf : s.files[i]? = some f)
    (h1 : f'.rawFile = f.rawFile) (h2 : f'.rawVolume = f.rawVolume) : Frame s (setFile i f' s).2 := by
  refine ⟨rfl, rfl, ?_, ?_, rfl, rfl, rfl, rfl, rfl, rfl⟩
  · exact map_set_of_eq s.files _ i f f' hf h1
  · exact map_set_of_eq s.files _ i f f' hf h2

/-! ### Weakest preconditions -/

/-- `Q` holds of the outcome of `m` run from `s`. -/
def wp {α} (m : M α) (Q : Res α → Mgr → Prop) (s : Mgr) : Prop := Q (m s).1 (m s).2

/-- Postconditions of the shape "the state satisfies `St` whatever the outcome, and `Φ` on success". -/
def post {α} (St : Mgr → Prop) (Φ : α → Mgr → Prop) : Res α → Mgr → Prop :=
  fun r s => St s ∧ ∀ a, r = .ok a → Φ a s

theorem wp_mono {α} {m : M α} {Q Q' : Res α → Mgr → Prop} {s : Mgr} (h : wp m Q s)
    (hq : ∀ r s', Q r s' → Q' r s') : wp m Q' s := hq _ _ h

theorem wp_pure {α} {a : α} {Q : Res α → Mgr → Prop} {s : Mgr} (h : Q (.ok a) s) : wp (pure a) Q s := h
theorem wp_fail {α} {e : Err} {Q : Res α → Mgr → Prop} {s : Mgr} (h : Q (.err e) s) : wp (M.fail e) Q s := h
theorem wp_panic {α} {msg : String} {Q : Res α → Mgr → Prop} {s : Mgr} (h : Q (.panic msg) s) :
    wp (M.panic msg) Q s := h
theorem wp_lift {α} {r : Res α} {Q : Res α → Mgr → Prop} {s : Mgr} (h : Q r s) : wp (M.lift r) Q s := h

theorem wp_get_bind {α} {f : Mgr → M α} {Q : Res α → Mgr → Prop} {s : Mgr} (h : wp (f s) Q s) :
    wp (M.get >>= f) Q s := h
theorem wp_modify_bind {α} {g : Mgr → Mgr} {f : Unit → M α} {Q : Res α → Mgr → Prop} {s : Mgr}
    (h : wp (f ()) Q (g s)) : wp (M.modify g >>= f) Q s := h
theorem wp_generate_bind {α} {f : Nat → M α} {Q : Res α → Mgr → Prop} {s : Mgr}
    (h : wp (f s.nextId) Q { s with nextId := (s.nextId + 1) % 4294967296 }) : wp (generate >>= f) Q s := h

theorem wp_ite {α} {c : Prop} [Decidable c] {a b : M α} {Q : Res α → Mgr → Prop} {s : Mgr}
    (ha : c → wp a Q s) (hb : ¬c → wp b Q s) : wp (if c then a else b) Q s := by
  split
  · exact ha ‹_›
  · exact hb ‹_›

/-- Sequencing when the postcondition has the `post` shape: on failure of `m` only `St` is owed. -/
theorem wp_bind {α β} {m : M α} {f : α → M β} {St : Mgr → Prop} {Φ : β → Mgr → Prop} {s : Mgr}
    (h : wp m (post St fun a s' => wp (f a) (post St Φ) s') s) : wp (m >>= f) (post St Φ) s := by
  unfold wp at h ⊢
  rw [bind_def]
  rcases hms : m s with ⟨r, s'⟩
  rw [hms] at h
  obtain ⟨hst, hok⟩ := h
  cases r with
  | ok a => exact hok a rfl
  | err e => exact ⟨hst, fun a h => by cases h⟩
  | panic msg => exact ⟨hst, fun a h => by cases h⟩
  | diverged => exact ⟨hst, fun a h => by cases h⟩

/-- Sequencing after a frame-respecting `m`: a frame-closed fact `P` is carried over, the old
state is forgotten. -/
theorem wp_bind_resp {α β} {m : M α} {f : α → M β} {St : Mgr → Prop} {Φ : β → Mgr → Prop} {s : Mgr}
    (P : Mgr → Prop) (hm : Resp m) (hP : P s) (hcl : ∀ a b, Frame a b → P a → P b) (hst : ∀ a, P a → St a)
    (h : ∀ a s', P s' → wp (f a) (post St Φ) s') : wp (m >>= f) (post St Φ) s := by
  apply wp_bind
  have hp' := hcl _ _ (hm s) hP
  exact ⟨hst _ hp', fun a _ => h a _ hp'⟩

/-- Same, for `M.attempt m`. -/
theorem wp_attempt_bind_resp {α β} {m : M α} {f : Res α → M β} {Q : Res β → Mgr → Prop} {s : Mgr}
    (P : Mgr → Prop) (hm : Resp m) (hP : P s) (hcl : ∀ a b, Frame a b → P a → P b)
    (h : ∀ r s', P s' → wp (f r) Q s') : wp (M.attempt m >>= f) Q s :=
  h _ _ (hcl _ _ (hm s) hP)

/-- A frame-respecting computation in tail position. -/
theorem wp_resp {α} {m : M α} {St : Mgr → Prop} {Φ : α → Mgr → Prop} {s : Mgr}
    (P : Mgr → Prop) (hm : Resp m) (hP : P s) (hcl : ∀ a b, Frame a b → P a → P b)
    (hst : ∀ a, P a → St a) (hphi : ∀ a s', P s' → Φ a s') : wp m (post St Φ) s := by
  have hp' := hcl _ _ (hm s) hP
  exact ⟨hst _ hp', fun a _ => hphi a _ hp'⟩

/-! ### `Resp` automation -/

/-- Structural proof that a `do` block built from frame-respecting pieces respects the frame. -/
syntax "resp_step" : tactic
macro_rules
  | `(tactic| resp_step) => `(tactic| with_reducible first
    | exact resp_pure _
    | exact resp_fail _
    | exact resp_panic _
    | exact resp_lift _
    | exact resp_get
    | exact resp_getFileById _
    | exact resp_getDirById _
    | exact resp_getVolumeById _
    | exact resp_getDir _
    | exact resp_getFile _
    | exact resp_getVolInfo _
    | exact resp_toSfn _
    | exact resp_withVol _ _
    | assumption
    | apply resp_attempt
    | apply resp_bind
    | apply resp_ite
    | intro _
    | (apply resp_modifyFile; intro _; constructor <;> rfl))

macro "resp" : tactic => `(tactic| repeat' (first | resp_step | with_reducible split))

/-! ### The per-call log reset of `step` -/

/-- `step` clears the per-call logs before running the call. -/
def resetLogs (s : Mgr) : Mgr := { s with dev := { s.dev with wlog := [], rlog := [] } }

theorem step_unlocked (s : Mgr) (op : Op) (h : s.locked = false) :
    step s op = ((runOp op (resetLogs s)).2,
      { result := (runOp op (resetLogs s)).1,
        writes := (runOp op (resetLogs s)).2.dev.wlog.reverse,
        reads := (runOp op (resetLogs s)).2.dev.rlog.reverse }) := by
  unfold step
  rw [if_neg (by rw [h]; exact Bool.false_ne_true)]
  rfl

theorem frame_resetLogs (s : Mgr) : Frame s (resetLogs s) := ⟨rfl, rfl, rfl, rfl, rfl, rfl, rfl, rfl, rfl, rfl⟩

end Sdmmc.Lemmas.MHoare
