/-
Several open volumes (`Props/C03Multi.lean`): the simulation calculus.

`projH hv i s` is `Spec.Volume.proj s i` with the volume handle `hv` of record `i` as a parameter.  A call on volume
`i` runs in lockstep on `s` and on `projH hv i s`: the same device, cache, clock and generator, the same volume record
(at index `i` resp. `0`), the same directory / file records (at index `k` resp. `pidx … k`).  `SimAt hv i σd σf R m m' s`
says: from `s` resp. its projection, `m` resp. `m'` give `R`-related answers, the state `m'` leaves is the projection of
the state `m` leaves, the records of the OTHER volumes (`rest`) are untouched, and the key skeleton of the tables
(`Skel`: which handle sits where and names which volume) is unchanged.  `SimAt.bind` composes; the lemmas `sim_*` are
the primitives of the manager monad.  Table-changing tails (`++ [record]`, `swap_remove`) are treated by `RunSim`
(the projection is reached up to the ORDER of the tables: `ProjRel`).
-/
import Sdmmc.Spec.VolumeN
import Sdmmc.Lemmas.VolNList
import Sdmmc.Lemmas.DirMgr

namespace Sdmmc.Lemmas.VolN
open Sdmmc.Model Sdmmc.Model.Fat Sdmmc.Spec.Volume
open Sdmmc.Spec hiding NoFault Coherent run step
open Sdmmc.Lemmas.MHoare

/-! ### The projection with the handle as a parameter -/

abbrev ownF (hv : Nat) (f : FileInfo) : Bool := decide (f.rawVolume = hv)
abbrev ownD (hv : Nat) (d : DirInfo) : Bool := decide (d.rawVolume = hv)

def projH (hv i : Nat) (s : Mgr) : Mgr :=
  { s with
    vols := (s.vols[i]?).toList
    dirs := volDirs s hv
    files := volFiles s hv
    maxVols := 1
    maxDirs := s.maxDirs - (otherDirs s hv).length
    maxFiles := s.maxFiles - (otherFiles s hv).length }

theorem proj_eq_projH {s : Mgr} {i : Nat} {vi : VolInfo} (h : s.vols[i]? = some vi) : proj s i = projH vi.rawVolume i s := by
  unfold proj projH
  rw [h]
  rfl

theorem volFiles_eq (s : Mgr) (hv : Nat) : volFiles s hv = s.files.filter (ownF hv) := rfl
theorem volDirs_eq (s : Mgr) (hv : Nat) : volDirs s hv = s.dirs.filter (ownD hv) := rfl
theorem otherFiles_eq (s : Mgr) (hv : Nat) : otherFiles s hv = s.files.filter (fun f => !ownF hv f) := rfl
theorem otherDirs_eq (s : Mgr) (hv : Nat) : otherDirs s hv = s.dirs.filter (fun d => !ownD hv d) := rfl

/-- The handle and partition index of a volume record. -/
def vkey (v : VolInfo) : Nat × Nat := (v.rawVolume, v.idx)

/-- What the projection forgets: the records of the other volumes, the handles / partition indices of all volume
records, the three limits. -/
def rest (hv i : Nat) (s : Mgr) : List VolInfo × List DirInfo × List FileInfo × List (Nat × Nat) × Nat × Nat × Nat :=
  (s.vols.eraseIdx i, otherDirs s hv, otherFiles s hv, s.vols.map vkey, s.maxVols, s.maxDirs, s.maxFiles)

/-- The projection only reads these components. -/
theorem projH_congr {hv i : Nat} {s s' : Mgr} (hd : s'.dev = s.dev) (hc : s'.cache = s.cache) (hn : s'.nextId = s.nextId)
    (hvol : s'.vols[i]? = s.vols[i]?) (hdir : s'.dirs = s.dirs) (hf : s'.files = s.files) (hmd : s'.maxDirs = s.maxDirs)
    (hmf : s'.maxFiles = s.maxFiles) (hcl : s'.clock = s.clock) (hl : s'.locked = s.locked) :
    projH hv i s' = projH hv i s := by
  unfold projH volDirs volFiles otherDirs otherFiles
  rw [hd, hc, hn, hvol, hdir, hf, hmd, hmf, hcl, hl]

/-! ### The key skeleton -/

def dkey (d : DirInfo) : Nat × Nat := (d.rawDirectory, d.rawVolume)
def fkeyN (f : FileInfo) : Nat × Nat := (f.rawFile, f.rawVolume)
abbrev ownK (hv : Nat) (e : Nat × Nat) : Bool := decide (e.2 = hv)

/-- The standing facts of a call on volume record `i` (handle `hv`): the handle resolves to `i`, and the tables carry
the handles `σd` / `σf` (handle, volume handle) in this order. -/
structure Skel (hv i : Nat) (σd σf : List (Nat × Nat)) (s : Mgr) : Prop where
  vol : s.vols.findIdx? (·.rawVolume = hv) = some i
  dirs : s.dirs.map dkey = σd
  files : s.files.map fkeyN = σf

theorem Skel.volRec {hv i : Nat} {σd σf : List (Nat × Nat)} {s : Mgr} (h : Skel hv i σd σf s) :
    ∃ vi, s.vols[i]? = some vi ∧ vi.rawVolume = hv := by
  obtain ⟨vi, h1, h2⟩ := findIdx?_some_get h.vol
  exact ⟨vi, h1, by simpa using h2⟩

theorem findIdx?_map_key {α β : Type} (key : α → β) (q : β → Bool) (l : List α) :
    l.findIdx? (fun x => q (key x)) = (l.map key).findIdx? q := by
  induction l with
  | nil => rfl
  | cons a l ih => rw [List.map_cons, List.findIdx?_cons, List.findIdx?_cons, ih]

/-- The position in the projected table of the file / directory record at position `k`. -/
def pk (hv : Nat) (σ : List (Nat × Nat)) (k : Nat) : Nat := pidx (ownK hv) σ k

theorem pk_files {hv i : Nat} {σd σf : List (Nat × Nat)} {s : Mgr} (h : Skel hv i σd σf s) (k : Nat) :
    pidx (ownF hv) s.files k = pk hv σf k := by
  unfold pk
  apply pidx_congr
  rw [← h.files, List.map_map]
  rfl

theorem pk_dirs {hv i : Nat} {σd σf : List (Nat × Nat)} {s : Mgr} (h : Skel hv i σd σf s) (k : Nat) :
    pidx (ownD hv) s.dirs k = pk hv σd k := by
  unfold pk
  apply pidx_congr
  rw [← h.dirs, List.map_map]
  rfl

theorem skel_file {hv i : Nat} {σd σf : List (Nat × Nat)} {s : Mgr} (h : Skel hv i σd σf s) {k r : Nat}
    (hk : σf[k]? = some (r, hv)) : ∃ f, s.files[k]? = some f ∧ f.rawFile = r ∧ f.rawVolume = hv := by
  rw [← h.files, List.getElem?_map] at hk
  cases hf : s.files[k]? with
  | none => rw [hf] at hk; cases hk
  | some f =>
    rw [hf] at hk
    have : fkeyN f = (r, hv) := by simpa using hk
    exact ⟨f, rfl, congrArg Prod.fst this, congrArg Prod.snd this⟩

theorem skel_dir {hv i : Nat} {σd σf : List (Nat × Nat)} {s : Mgr} (h : Skel hv i σd σf s) {k r : Nat}
    (hk : σd[k]? = some (r, hv)) : ∃ d, s.dirs[k]? = some d ∧ d.rawDirectory = r ∧ d.rawVolume = hv := by
  rw [← h.dirs, List.getElem?_map] at hk
  cases hf : s.dirs[k]? with
  | none => rw [hf] at hk; cases hk
  | some f =>
    rw [hf] at hk
    have : dkey f = (r, hv) := by simpa using hk
    exact ⟨f, rfl, congrArg Prod.fst this, congrArg Prod.snd this⟩

/-! ### The judgment -/

/-- Two answers are related: both `ok` with `R`-related values, or the same failure. -/
def ResRel {α β : Type} (R : α → β → Prop) : Res α → Res β → Prop
  | .ok a, .ok b => R a b
  | .err e, .err e' => e = e'
  | .panic m, .panic m' => m = m'
  | .diverged, .diverged => True
  | _, _ => False

theorem ResRel.eq {α : Type} {r r' : Res α} (h : ResRel Eq r r') : r' = r := by
  cases r <;> cases r' <;> simp [ResRel] at h <;> first | rw [h] | rfl

theorem resRel_refl {α : Type} (r : Res α) : ResRel Eq r r := by
  cases r <;> simp [ResRel]

def SimAt {α β : Type} (hv i : Nat) (σd σf : List (Nat × Nat)) (R : α → β → Prop) (m : M α) (m' : M β) (s : Mgr) : Prop :=
  Skel hv i σd σf (m s).2 ∧ (m' (projH hv i s)).2 = projH hv i (m s).2 ∧ ResRel R (m s).1 (m' (projH hv i s)).1 ∧
  rest hv i (m s).2 = rest hv i s

section
variable {hv i : Nat} {σd σf : List (Nat × Nat)}

theorem SimAt.bind {α β γ δ : Type} {R : α → β → Prop} {Q : γ → δ → Prop} {m : M α} {m' : M β} {f : α → M γ} {g : β → M δ}
    {s : Mgr} (h : SimAt hv i σd σf R m m' s)
    (hf : ∀ a b, R a b → (m s).1 = .ok a → Skel hv i σd σf (m s).2 → SimAt hv i σd σf Q (f a) (g b) (m s).2) :
    SimAt hv i σd σf Q (m >>= f) (m' >>= g) s := by
  obtain ⟨h1, h2, h3, h4⟩ := h
  rcases hms : m s with ⟨r, s1⟩
  rcases hmp : m' (projH hv i s) with ⟨r', t1⟩
  rw [hms] at h1 h2 h3 h4 hf
  rw [hmp] at h2 h3
  simp only at h1 h2 h3 h4 hf
  subst h2
  cases r with
  | ok a =>
    cases r' with
    | ok b =>
      obtain ⟨k1, k2, k3, k4⟩ := hf a b h3 rfl h1
      unfold SimAt
      rw [bind_ok hms, bind_ok hmp]
      exact ⟨k1, k2, k3, k4.trans h4⟩
    | err e => exact absurd h3 (by simp [ResRel])
    | panic e => exact absurd h3 (by simp [ResRel])
    | diverged => exact absurd h3 (by simp [ResRel])
  | err e =>
    cases r' with
    | err e' =>
      unfold SimAt
      rw [bind_err hms, bind_err hmp]
      exact ⟨h1, rfl, by simpa [ResRel] using h3, h4⟩
    | ok b => exact absurd h3 (by simp [ResRel])
    | panic e => exact absurd h3 (by simp [ResRel])
    | diverged => exact absurd h3 (by simp [ResRel])
  | panic e =>
    cases r' with
    | panic e' =>
      unfold SimAt
      rw [bind_panic hms, bind_panic hmp]
      exact ⟨h1, rfl, by simpa [ResRel] using h3, h4⟩
    | ok b => exact absurd h3 (by simp [ResRel])
    | err e => exact absurd h3 (by simp [ResRel])
    | diverged => exact absurd h3 (by simp [ResRel])
  | diverged =>
    cases r' with
    | diverged =>
      unfold SimAt
      rw [bind_diverged hms, bind_diverged hmp]
      exact ⟨h1, rfl, by simp [ResRel], h4⟩
    | ok b => exact absurd h3 (by simp [ResRel])
    | err e => exact absurd h3 (by simp [ResRel])
    | panic e => exact absurd h3 (by simp [ResRel])

/-- Weakening the relation on answers. -/
theorem SimAt.mono {α β : Type} {R Q : α → β → Prop} {m : M α} {m' : M β} {s : Mgr} (h : SimAt hv i σd σf R m m' s)
    (hRQ : ∀ a b, R a b → Q a b) : SimAt hv i σd σf Q m m' s := by
  obtain ⟨h1, h2, h3, h4⟩ := h
  refine ⟨h1, h2, ?_, h4⟩
  revert h3
  cases (m s).1 <;> cases (m' (projH hv i s)).1 <;> simp [ResRel]
  exact hRQ _ _

/-- A computation that leaves the state alone and answers the same on both sides. -/
theorem sim_const {α : Type} {s : Mgr} (hs : Skel hv i σd σf s) (r : Res α) :
    SimAt hv i σd σf Eq (fun s => (r, s) : M α) (fun s => (r, s)) s :=
  ⟨hs, rfl, resRel_refl r, rfl⟩

theorem sim_pure {α : Type} {s : Mgr} (hs : Skel hv i σd σf s) (a : α) :
    SimAt hv i σd σf Eq (pure a : M α) (pure a) s := sim_const hs (.ok a)

theorem sim_pure_rel {α β : Type} {R : α → β → Prop} {s : Mgr} (hs : Skel hv i σd σf s) {a : α} {b : β} (h : R a b) :
    SimAt hv i σd σf R (pure a : M α) (pure b) s := ⟨hs, rfl, h, rfl⟩

theorem sim_fail {α β : Type} {R : α → β → Prop} {s : Mgr} (hs : Skel hv i σd σf s) (e : Err) :
    SimAt hv i σd σf R (M.fail e : M α) (M.fail e : M β) s := ⟨hs, rfl, rfl, rfl⟩

theorem sim_panic {α β : Type} {R : α → β → Prop} {s : Mgr} (hs : Skel hv i σd σf s) (msg : String) :
    SimAt hv i σd σf R (M.panic msg : M α) (M.panic msg : M β) s := ⟨hs, rfl, rfl, rfl⟩

theorem sim_lift {α : Type} {s : Mgr} (hs : Skel hv i σd σf s) (r : Res α) :
    SimAt hv i σd σf Eq (M.lift r) (M.lift r) s := sim_const hs r

/-- `let s ← M.get; …`: the continuations receive the state resp. its projection. -/
theorem SimAt.get_bind {α β : Type} {R : α → β → Prop} {f : Mgr → M α} {g : Mgr → M β} {s : Mgr}
    (h : SimAt hv i σd σf R (f s) (g (projH hv i s)) s) : SimAt hv i σd σf R (M.get >>= f) (M.get >>= g) s := h

theorem SimAt.attempt {α β : Type} {R : α → β → Prop} {m : M α} {m' : M β} {s : Mgr} (h : SimAt hv i σd σf R m m' s) :
    SimAt hv i σd σf (ResRel R) (M.attempt m) (M.attempt m') s := by
  obtain ⟨h1, h2, h3, h4⟩ := h
  exact ⟨h1, h2, h3, h4⟩

theorem SimAt.ite {α β : Type} {R : α → β → Prop} {c : Prop} [Decidable c] {a b : M α} {a' b' : M β} {s : Mgr}
    (ha : c → SimAt hv i σd σf R a a' s) (hb : ¬ c → SimAt hv i σd σf R b b' s) :
    SimAt hv i σd σf R (if c then a else b) (if c then a' else b') s := by
  by_cases h : c
  · rw [if_pos h, if_pos h]; exact ha h
  · rw [if_neg h, if_neg h]; exact hb h

/-! ### Primitives -/

theorem skel_of_keys {s s' : Mgr} (hs : Skel hv i σd σf s) (hv' : s'.vols.map (·.rawVolume) = s.vols.map (·.rawVolume))
    (hd : s'.dirs.map dkey = s.dirs.map dkey) (hf : s'.files.map fkeyN = s.files.map fkeyN) : Skel hv i σd σf s' := by
  refine ⟨?_, hd.trans hs.dirs, hf.trans hs.files⟩
  have e1 := findIdx?_map_key (fun v : VolInfo => v.rawVolume) (fun r => decide (r = hv)) s.vols
  have e2 := findIdx?_map_key (fun v : VolInfo => v.rawVolume) (fun r => decide (r = hv)) s'.vols
  rw [hv'] at e2
  exact (e2.trans e1.symm).trans hs.vol

theorem sim_generate {s : Mgr} (hs : Skel hv i σd σf s) : SimAt hv i σd σf Eq generate generate s :=
  ⟨skel_of_keys hs rfl rfl rfl, rfl, rfl, rfl⟩

theorem sim_toSfn {s : Mgr} (hs : Skel hv i σd σf s) (name : List Nat) : SimAt hv i σd σf Eq (toSfn name) (toSfn name) s := by
  unfold toSfn
  split
  · exact sim_pure hs _
  · exact sim_fail hs _

/-- A FAT-level computation on the volume: index `i` resp. `0`. -/
theorem sim_withVol {α : Type} {s : Mgr} (hs : Skel hv i σd σf s) (f : F α) :
    SimAt hv i σd σf Eq (withVol i f) (withVol 0 f) s := by
  obtain ⟨vi, hvi, hh⟩ := hs.volRec
  have hP : (projH hv i s).vols[0]? = some vi := by unfold projH; rw [hvi]; rfl
  rw [SimAt, DirMgr.withVol_eq i f s vi hvi, DirMgr.withVol_eq 0 f (projH hv i s) vi hP]
  have hlt : i < s.vols.length := (List.getElem?_eq_some_iff.1 hvi).1
  refine ⟨skel_of_keys hs ?_ rfl rfl, ?_, resRel_refl _, ?_⟩
  · exact map_set_of_eq s.vols (·.rawVolume) i vi _ hvi rfl
  · show _ = projH hv i _
    unfold projH volDirs volFiles otherDirs otherFiles
    simp only [hvi, List.getElem?_set_self hlt, Option.toList_some, List.set_cons_zero]
  · unfold rest otherDirs otherFiles
    simp only [List.eraseIdx_set_eq]
    rw [map_set_of_eq s.vols vkey i vi { vi with vol := (f { dev := s.dev, cache := s.cache, vol := vi.vol }).2.vol } hvi rfl]

theorem sim_getVolumeById {s : Mgr} (hs : Skel hv i σd σf s) :
    SimAt hv i σd σf (fun a b => a = i ∧ b = 0) (getVolumeById hv) (getVolumeById hv) s := by
  obtain ⟨vi, hvi, hh⟩ := hs.volRec
  have h1 := getVolumeById_ok hs.vol
  have hP : (projH hv i s).vols.findIdx? (·.rawVolume = hv) = some 0 := by
    unfold projH; rw [hvi]; simp [hh]
  have h2 := getVolumeById_ok hP
  rw [SimAt, h1, h2]
  exact ⟨hs, rfl, ⟨rfl, rfl⟩, rfl⟩

theorem sim_getVolInfo {s : Mgr} (hs : Skel hv i σd σf s) : SimAt hv i σd σf Eq (getVolInfo i) (getVolInfo 0) s := by
  obtain ⟨vi, hvi, hh⟩ := hs.volRec
  have hP : (projH hv i s).vols[0]? = some vi := by unfold projH; rw [hvi]; rfl
  rw [SimAt, getVolInfo_ok hvi, getVolInfo_ok hP]
  exact ⟨hs, rfl, rfl, rfl⟩

/-! #### Files -/

theorem sim_getFileById_none {R : Nat → Nat → Prop} {s : Mgr} (hs : Skel hv i σd σf s) {h : Nat}
    (hn : σf.findIdx? (fun e => decide (e.1 = h)) = none) : SimAt hv i σd σf R (getFileById h) (getFileById h) s := by
  have h1 : s.files.findIdx? (·.rawFile = h) = none := by
    have e := findIdx?_map_key fkeyN (fun e => decide (e.1 = h)) s.files
    rw [hs.files] at e
    exact e.trans hn
  have h2 : (projH hv i s).files.findIdx? (·.rawFile = h) = none := findIdx?_filter_none _ _ _ h1
  rw [SimAt, getFileById_bad h1, getFileById_bad h2]
  exact ⟨hs, rfl, rfl, rfl⟩

theorem sim_getFileById {s : Mgr} (hs : Skel hv i σd σf s) {h k : Nat}
    (hk : σf.findIdx? (fun e => decide (e.1 = h)) = some k) (hown : σf[k]? = some (h, hv)) :
    SimAt hv i σd σf (fun a b => a = k ∧ b = pk hv σf k) (getFileById h) (getFileById h) s := by
  have h1 : s.files.findIdx? (·.rawFile = h) = some k := by
    have e := findIdx?_map_key fkeyN (fun e => decide (e.1 = h)) s.files
    rw [hs.files] at e
    exact e.trans hk
  obtain ⟨f, hf, _, hfv⟩ := skel_file hs hown
  have h2 : (projH hv i s).files.findIdx? (·.rawFile = h) = some (pk hv σf k) := by
    rw [← pk_files hs k]
    exact findIdx?_filter (ownF hv) _ s.files k f h1 hf (by unfold ownF; simp [hfv])
  rw [SimAt, getFileById_ok h1, getFileById_ok h2]
  exact ⟨hs, rfl, ⟨rfl, rfl⟩, rfl⟩

theorem sim_getFile {s : Mgr} (hs : Skel hv i σd σf s) {k r : Nat} (hown : σf[k]? = some (r, hv)) :
    SimAt hv i σd σf Eq (getFile k) (getFile (pk hv σf k)) s := by
  obtain ⟨f, hf, _, hfv⟩ := skel_file hs hown
  have h2 : (projH hv i s).files[pk hv σf k]? = some f := by
    rw [← pk_files hs k]
    exact getElem?_filter_pidx (ownF hv) s.files k f hf (by unfold ownF; simp [hfv])
  rw [SimAt, getFile_ok hf, getFile_ok h2]
  exact ⟨hs, rfl, rfl, rfl⟩

/-- Replacing the record at position `k` by one with the same keys. -/
theorem sim_setFile {s : Mgr} (hs : Skel hv i σd σf s) {k r : Nat} (hown : σf[k]? = some (r, hv)) (x : FileInfo)
    (hx : fkeyN x = (r, hv)) : SimAt hv i σd σf Eq (setFile k x) (setFile (pk hv σf k) x) s := by
  obtain ⟨f, hf, hfr, hfv⟩ := skel_file hs hown
  have hxv : x.rawVolume = hv := congrArg Prod.snd hx
  have hpf : ownF hv f = true := by unfold ownF; simp [hfv]
  have hpx : ownF hv x = true := by unfold ownF; simp [hxv]
  have hkeys : (s.files.set k x).map fkeyN = s.files.map fkeyN :=
    map_set_of_eq s.files fkeyN k f x hf (by rw [hx]; show _ = (f.rawFile, f.rawVolume); rw [hfr, hfv])
  refine ⟨skel_of_keys hs rfl rfl hkeys, ?_, rfl, ?_⟩
  · have e1 := filter_set (ownF hv) s.files k f x hf hpf hpx
    have e2 : (s.files.set k x).filter (fun f => !ownF hv f) = s.files.filter (fun f => !ownF hv f) :=
      filter_set_other _ s.files k f x hf (by simp [hpf]) (by simp [hpx])
    rw [pk_files hs k] at e1
    show ({ projH hv i s with files := (projH hv i s).files.set (pk hv σf k) x } : Mgr) = projH hv i { s with files := s.files.set k x }
    unfold projH volDirs volFiles otherDirs otherFiles
    simp only
    rw [e1, e2]
  · show rest hv i { s with files := s.files.set k x } = rest hv i s
    unfold rest otherDirs otherFiles
    simp only
    have e2 : (s.files.set k x).filter (fun f => !ownF hv f) = s.files.filter (fun f => !ownF hv f) :=
      filter_set_other _ s.files k f x hf (by simp [hpf]) (by simp [hpx])
    rw [e2]

theorem sim_modifyFile {s : Mgr} (hs : Skel hv i σd σf s) {k r : Nat} (hown : σf[k]? = some (r, hv)) (g : FileInfo → FileInfo)
    (hg : ∀ f, fkeyN (g f) = fkeyN f) : SimAt hv i σd σf Eq (modifyFile k g) (modifyFile (pk hv σf k) g) s := by
  obtain ⟨f, hf, hfr, hfv⟩ := skel_file hs hown
  have h2 : (projH hv i s).files[pk hv σf k]? = some f := by
    rw [← pk_files hs k]
    exact getElem?_filter_pidx (ownF hv) s.files k f hf (by unfold ownF; simp [hfv])
  have e1 : modifyFile k g s = setFile k (g f) s := by
    show (Res.ok (), ({ s with files := s.files.modify k g } : Mgr)) = (Res.ok (), { s with files := s.files.set k (g f) })
    rw [modify_eq_set s.files k g f hf]
  have e2 : modifyFile (pk hv σf k) g (projH hv i s) = setFile (pk hv σf k) (g f) (projH hv i s) := by
    show (Res.ok (), ({ projH hv i s with files := (projH hv i s).files.modify (pk hv σf k) g } : Mgr)) =
      (Res.ok (), { projH hv i s with files := (projH hv i s).files.set (pk hv σf k) (g f) })
    rw [modify_eq_set _ _ g f h2]
  have := sim_setFile hs hown (g f) (by rw [hg f]; show (f.rawFile, f.rawVolume) = _; rw [hfr, hfv])
  unfold SimAt at this ⊢
  rw [e1, e2]
  exact this

/-! #### Directories -/

theorem sim_getDirById_none {R : Nat → Nat → Prop} {s : Mgr} (hs : Skel hv i σd σf s) {h : Nat}
    (hn : σd.findIdx? (fun e => decide (e.1 = h)) = none) : SimAt hv i σd σf R (getDirById h) (getDirById h) s := by
  have h1 : s.dirs.findIdx? (·.rawDirectory = h) = none := by
    have e := findIdx?_map_key dkey (fun e => decide (e.1 = h)) s.dirs
    rw [hs.dirs] at e
    exact e.trans hn
  have h2 : (projH hv i s).dirs.findIdx? (·.rawDirectory = h) = none := findIdx?_filter_none _ _ _ h1
  rw [SimAt, getDirById_bad h1, getDirById_bad h2]
  exact ⟨hs, rfl, rfl, rfl⟩

theorem sim_getDirById {s : Mgr} (hs : Skel hv i σd σf s) {h k : Nat}
    (hk : σd.findIdx? (fun e => decide (e.1 = h)) = some k) (hown : σd[k]? = some (h, hv)) :
    SimAt hv i σd σf (fun a b => a = k ∧ b = pk hv σd k) (getDirById h) (getDirById h) s := by
  have h1 : s.dirs.findIdx? (·.rawDirectory = h) = some k := by
    have e := findIdx?_map_key dkey (fun e => decide (e.1 = h)) s.dirs
    rw [hs.dirs] at e
    exact e.trans hk
  obtain ⟨f, hf, _, hfv⟩ := skel_dir hs hown
  have h2 : (projH hv i s).dirs.findIdx? (·.rawDirectory = h) = some (pk hv σd k) := by
    rw [← pk_dirs hs k]
    exact findIdx?_filter (ownD hv) _ s.dirs k f h1 hf (by unfold ownD; simp [hfv])
  rw [SimAt, getDirById_ok h1, getDirById_ok h2]
  exact ⟨hs, rfl, ⟨rfl, rfl⟩, rfl⟩

theorem sim_getDir {s : Mgr} (hs : Skel hv i σd σf s) {k r : Nat} (hown : σd[k]? = some (r, hv)) :
    SimAt hv i σd σf Eq (getDir k) (getDir (pk hv σd k)) s := by
  obtain ⟨f, hf, _, hfv⟩ := skel_dir hs hown
  have h2 : (projH hv i s).dirs[pk hv σd k]? = some f := by
    rw [← pk_dirs hs k]
    exact getElem?_filter_pidx (ownD hv) s.dirs k f hf (by unfold ownD; simp [hfv])
  rw [SimAt, getDir_ok hf, getDir_ok h2]
  exact ⟨hs, rfl, rfl, rfl⟩

/-! ### What the projection observes -/

theorem projH_clock (hv i : Nat) (s : Mgr) : (projH hv i s).clock = s.clock := rfl
theorem projH_dev (hv i : Nat) (s : Mgr) : (projH hv i s).dev = s.dev := rfl
theorem projH_cache (hv i : Nat) (s : Mgr) : (projH hv i s).cache = s.cache := rfl
theorem projH_nextId (hv i : Nat) (s : Mgr) : (projH hv i s).nextId = s.nextId := rfl
theorem projH_locked (hv i : Nat) (s : Mgr) : (projH hv i s).locked = s.locked := rfl

/-- "the table of open files is full" answers the same. -/
theorem projH_files_full (hv i : Nat) (s : Mgr) :
    (projH hv i s).files.length ≥ (projH hv i s).maxFiles ↔ s.files.length ≥ s.maxFiles := by
  have := length_filter_add (ownF hv) s.files
  show (s.files.filter (ownF hv)).length ≥ s.maxFiles - (s.files.filter fun f => !ownF hv f).length ↔ _
  omega

theorem projH_dirs_full (hv i : Nat) (s : Mgr) :
    (projH hv i s).dirs.length ≥ (projH hv i s).maxDirs ↔ s.dirs.length ≥ s.maxDirs := by
  have := length_filter_add (ownD hv) s.dirs
  show (s.dirs.filter (ownD hv)).length ≥ s.maxDirs - (s.dirs.filter fun f => !ownD hv f).length ↔ _
  omega

/-- "this entry of volume `hv` is open" answers the same. -/
theorem projH_fileIsOpen (hv i : Nat) (s : Mgr) (e : DirEntry) : fileIsOpen (projH hv i s) hv e = fileIsOpen s hv e := by
  unfold fileIsOpen
  show (s.files.filter (ownF hv)).any _ = s.files.any _
  induction s.files with
  | nil => rfl
  | cons a l ih =>
    rw [List.filter_cons, List.any_cons]
    by_cases ha : ownF hv a = true
    · rw [if_pos ha, List.any_cons, ih]
    · rw [if_neg ha, ih]
      have : a.rawVolume ≠ hv := by unfold ownF at ha; simpa using ha
      simp [this]

/-! ### The result of a whole call -/

/-- `t'` is the projection of `s'` up to the order of the directory and file tables. -/
structure ProjRel (hv i : Nat) (s' t' : Mgr) : Prop where
  dev : t'.dev = s'.dev
  cache : t'.cache = s'.cache
  nextId : t'.nextId = s'.nextId
  clock : t'.clock = s'.clock
  locked : t'.locked = s'.locked
  vols : t'.vols = (s'.vols[i]?).toList
  dirs : t'.dirs.Perm (volDirs s' hv)
  files : t'.files.Perm (volFiles s' hv)
  maxVols : t'.maxVols = 1
  maxDirs : t'.maxDirs = s'.maxDirs - (otherDirs s' hv).length
  maxFiles : t'.maxFiles = s'.maxFiles - (otherFiles s' hv).length

theorem ProjRel.of_eq {s' t' : Mgr} (h : t' = projH hv i s') : ProjRel hv i s' t' := by
  subst h
  exact ⟨rfl, rfl, rfl, rfl, rfl, rfl, List.Perm.refl _, List.Perm.refl _, rfl, rfl, rfl⟩

/-- A call `m` on volume record `i` (handle `hv`) run on `s` and on its projection: the same answer, the state the
projection reaches is the projection of the state `s` reaches (up to table order), and the records of the other
volumes, all volume handles / partition indices and the limits are untouched (the other tables up to order). -/
structure RunSim {α : Type} (hv i : Nat) (m : M α) (s : Mgr) : Prop where
  res : (m (projH hv i s)).1 = (m s).1
  rel : ProjRel hv i (m s).2 (m (projH hv i s)).2
  volKeys : (m s).2.vols.map vkey = s.vols.map vkey
  restVols : (m s).2.vols.eraseIdx i = s.vols.eraseIdx i
  restDirs : (otherDirs (m s).2 hv).Perm (otherDirs s hv)
  restFiles : (otherFiles (m s).2 hv).Perm (otherFiles s hv)
  limits : (m s).2.maxVols = s.maxVols ∧ (m s).2.maxDirs = s.maxDirs ∧ (m s).2.maxFiles = s.maxFiles

/-- An exact simulation is a `RunSim`. -/
theorem RunSim.of_simAt {α : Type} {m : M α} {s : Mgr} (h : SimAt hv i σd σf Eq m m s) : RunSim hv i m s := by
  obtain ⟨_, h2, h3, h4⟩ := h
  have h4' := h4
  unfold rest at h4'
  simp only [Prod.mk.injEq] at h4'
  obtain ⟨r1, r2, r3, r4, r5, r6, r7⟩ := h4'
  exact ⟨h3.eq, ProjRel.of_eq h2, r4, r1, by rw [r2], by rw [r3], r5, r6, r7⟩

end

end Sdmmc.Lemmas.VolN
