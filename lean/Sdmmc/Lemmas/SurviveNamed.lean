/-
C09 over whole histories, part 7: the syntactic criterion, on the medium.  A file object `x` of directory `h` no
handle of which has unflushed changes (`Obj`), a call that does not target it (`Targets`: `open_file_in_dir` of its
name in its directory in a truncating mode, `delete_file_in_dir` of it, `write` through a handle of it): EVERY licence
`LicenceFor` allows for the call is `NotNamed` for the object (its slot, its chain), and names no FAT entry of the
directory's chain except that of its last cluster (`licence_notNamed`).
-/
import Sdmmc.Lemmas.WriteSetInvWf
import Sdmmc.Lemmas.AbsFsSlots
import Sdmmc.Lemmas.VolApiDelete

namespace Sdmmc.Lemmas.Survive
open Sdmmc.Model Sdmmc.Model.Fat Sdmmc.Spec.Volume Sdmmc.Lemmas.VolBase Sdmmc.Lemmas.VolTree
open Sdmmc.Spec hiding NoFault Coherent
open Sdmmc.Lemmas.VolDisk Sdmmc.Lemmas.VolMed Sdmmc.Lemmas.VolEng
open Sdmmc.Lemmas.WriteSetInv
open Sdmmc.Lemmas.WriteSet (flushLicence infoLicence writeLicence DirBlock FreeAt)

/-! ### The object and the calls that target it -/

/-- `x` is a file object of directory `h`, and every open file that sits at it has no unflushed changes or a record
that agrees with the slot in first cluster and size. -/
structure Obj (s : Mgr) (gh : Ghost) (h : Nat) (x : Slot) : Prop where
  dir : h ∈ dirIds gh.dirs
  mem : x ∈ objects h (dirSlots gh.vol s.dev.disk gh.G h)
  file : isDirE x = false
  quiet : ∀ f, f ∈ s.files → fkey f = spos x →
    f.dirty = false ∨ (sCluster gh.vol.fatType x = f.entry.cluster ∧ sSize x = f.entry.size)

/-- The call targets the file named `N` of directory `h`, whose slot sits at position `pos` (block, byte offset):
`open_file_in_dir` of (a spelling of) that name through a handle of that directory in a TRUNCATING mode
(`ReadWriteTruncate`, `ReadWriteCreateOrTruncate`), `delete_file_in_dir` of it, or `write` through a handle — not a
read-only one — of an open file that sits at the slot. -/
def Targets (s : Mgr) (h : Nat) (N : Bytes) (pos : Nat × Nat) : Op → Prop
  | .openFile dh name mode => (mode = .ReadWriteTruncate ∨ mode = .ReadWriteCreateOrTruncate) ∧
      Sfn.createFromStr name = .ok N ∧ ∃ dir, dir ∈ s.dirs ∧ dir.rawDirectory = dh ∧ dirIdOf dir.cluster = h
  | .delete dh name => Sfn.createFromStr name = .ok N ∧
      ∃ dir, dir ∈ s.dirs ∧ dir.rawDirectory = dh ∧ dirIdOf dir.cluster = h
  | .write hd _ => ∃ f, f ∈ s.files ∧ f.rawFile = hd ∧ fkey f = pos ∧ f.mode ≠ .ReadOnly
  | _ => False

/-- The call is a `flush_file` / `close_file` through the handle of an open file (the record the handle designates:
the first with that handle) that sits at `pos` and has unflushed changes: it stores that file's record again. -/
def Reflush (s : Mgr) (pos : Nat × Nat) : Op → Prop
  | .flush hd => ∃ i f, s.files.findIdx? (·.rawFile = hd) = some i ∧ s.files[i]? = some f ∧ fkey f = pos ∧ f.dirty = true
  | .closeFile hd => ∃ i f, s.files.findIdx? (·.rawFile = hd) = some i ∧ s.files[i]? = some f ∧ fkey f = pos ∧ f.dirty = true
  | _ => False

/-! ### Chains of the ghost -/

section
variable {v : FatVolume} {d : Disk} {files : List FileInfo} {gh : Ghost}

theorem chainOf_sub_flat (hM : MedX v d files gh []) {a c : Nat} (hc : c ∈ chainOf gh.G a) : c ∈ gh.G.flatten := by
  have hG := med_heads hM
  have hne : chainOf gh.G a ≠ [] := fun e => by rw [e] at hc; cases hc
  obtain ⟨hm, _⟩ := chainOf_spec hG ((chainOf_ne_nil_iff hG).1 hne)
  exact List.mem_flatten_of_mem hm hc

theorem chainOf_inRange (hM : MedX v d files gh []) {a c : Nat} (hc : c ∈ chainOf gh.G a) : InRange v c := by
  have hG := med_heads hM
  have hne : chainOf gh.G a ≠ [] := fun e => by rw [e] at hc; cases hc
  obtain ⟨hm, _⟩ := chainOf_spec hG ((chainOf_ne_nil_iff hG).1 hne)
  exact med_inRange hM hm hc

/-- Chains with different first clusters share no cluster. -/
theorem chainOf_disj (hM : MedX v d files gh []) {a b : Nat} (hab : a ≠ b) : ∀ c, c ∈ chainOf gh.G a → c ∉ chainOf gh.G b := by
  intro c hc hc'
  have hG := med_heads hM
  have hne : chainOf gh.G a ≠ [] := fun e => by rw [e] at hc; cases hc
  have hne' : chainOf gh.G b ≠ [] := fun e => by rw [e] at hc'; cases hc'
  obtain ⟨hm, hh⟩ := chainOf_spec hG ((chainOf_ne_nil_iff hG).1 hne)
  obtain ⟨hm', hh'⟩ := chainOf_spec hG ((chainOf_ne_nil_iff hG).1 hne')
  refine med_disjoint hM (List.mem_append_left _ hm) (List.mem_append_left _ hm') ?_ c hc hc'
  rw [headD_of_head? hh, headD_of_head? hh']
  exact hab

theorem free_not_flat (hM : MedX v d files gh []) {c : Nat} (hf : isFree v d c) : c ∉ gh.G.flatten := by
  intro hc
  have := (hM.owns.2.2 c).2 (by rw [List.append_nil]; exact hc)
  exact this.2.1 hf

theorem dirChain_sub (hM : MedX v d files gh []) {h c : Nat} (hc : c ∈ dirChain v gh.G h) : c ∈ chainOf gh.G (dirHead v h) := by
  unfold dirChain at hc
  split at hc
  · cases hc
  · exact hc

/-- Two file objects at different positions name different chains. -/
theorem eff_ne (hM : MedX v d files gh []) {h h' : Nat} (hh : h ∈ dirIds gh.dirs) (hh' : h' ∈ dirIds gh.dirs) {o o' : Slot}
    (ho : o ∈ objects h (dirSlots v d gh.G h)) (ho' : o' ∈ objects h' (dirSlots v d gh.G h')) (hod : isDirE o = false)
    (hod' : isDirE o' = false) (hp : spos o' ≠ spos o) (hc : effCluster v.fatType files o' ≠ 0) :
    effCluster v.fatType files o' ≠ effCluster v.fatType files o := by
  obtain ⟨A, B, hAB⟩ := List.append_of_mem ho
  have hO : objects h (dirSlots v d gh.G h) = A ++ [o] ++ B := by rw [hAB]; simp
  refine eff_ne_of_split hM.tree (med_heads hM) hh hO hod h' hh' o' ho' (fun e => ?_) hod' hc
  subst e
  rw [hAB] at ho'
  rcases List.mem_append.1 ho' with h1 | h1
  · exact List.mem_append_left _ h1
  · rcases List.mem_cons.1 h1 with h2 | h2
    · exact absurd (by rw [h2]) hp
    · exact List.mem_append_right _ h2

/-- The block of a directory slot lies in a cluster only if that cluster belongs to the directory's chain. -/
theorem slot_cluster (hM : MedX v d files gh []) {h : Nat} (hh : h ∈ dirIds gh.dirs) {x : Slot} (hx : x ∈ dirSlots v d gh.G h)
    {c : Nat} (hr : InRange v c) (hc : InCluster v c x.1) : c ∈ dirChain v gh.G h := by
  by_cases hf : isFixedRoot v h
  · rw [dirSlots_fixed hf] at hx
    have h1 := fixedRootSlots_region hM.geom hf.2 hx
    have h2 := inCluster_region hM.geom hr hc
    rw [h1] at h2; cases h2
  · rw [dirSlots_chain hf] at hx
    obtain ⟨c', hc', hrun⟩ := mem_chainSlots.1 hx
    obtain ⟨j, i, hj, _, rfl⟩ := mem_runSlots.1 hrun
    obtain ⟨hm, _⟩ := dirChain_spec hM hh hf
    have : c = c' := inCluster_unique hM.geom hr (med_inRange hM hm hc') hc ⟨Nat.le_add_right _ _, by show _ + j < _; omega⟩
    unfold dirChain
    rw [if_neg hf, this]
    exact hc'

/-- The same for a block `DirBlock` describes. -/
theorem dirBlock_cluster (hM : MedX v d files gh []) {dc : Nat} (hv : ValidDir gh.dirs dc) {b : Nat}
    (hb : DirBlock v dc (dirChain v gh.G (dirIdOf dc)) b) {c : Nat} (hr : InRange v c) (hc : InCluster v c b) :
    c ∈ dirChain v gh.G (dirIdOf dc) := by
  obtain ⟨hh, hcase⟩ := dir_walk_facts hM hv
  unfold DirBlock at hb
  rcases hcase with ⟨hdc, h16, _⟩ | ⟨hnk, hnf, _⟩
  · rw [if_pos (show Reopen.IsFixedRoot v dc from ⟨h16, hdc⟩)] at hb
    have h1 := FatLens.root_blocks_in_root_region v hM.geom h16 (b - Reopen.rootStart v) (by
      have := hb.2; unfold Reopen.rootBlocks at this; show _ < blockCountFromBytes (v.rootEntriesCount * 32); omega)
    rw [show v.lbaStart + v.firstRootDirBlock + (b - Reopen.rootStart v) = b by
      have := hb.1; unfold Reopen.rootStart at this ⊢; omega] at h1
    have h2 := inCluster_region hM.geom hr hc
    rw [h1] at h2; cases h2
  · rw [if_neg (show ¬ Reopen.IsFixedRoot v dc from hnk)] at hb
    obtain ⟨x, hx, g1, g2⟩ := hb
    have hxr : InRange v x := chainOf_inRange hM (dirChain_sub hM hx)
    have : c = x := inCluster_unique hM.geom hr hxr hc ⟨g1, g2⟩
    rw [this]; exact hx

end

/-! ### The object's chain against everything else -/

section
variable {s : Mgr} {gh : Ghost} {h : Nat} {x : Slot}

/-- The record of a handle at the slot agrees with the slot. -/
theorem Obj.eff (hI : VolInv s gh) (hx : Obj s gh h x) : effCluster gh.vol.fatType s.files x = sCluster gh.vol.fatType x := by
  have hM := medX_of_med hI.med
  cases hp : pendOf s.files x with
  | none => exact effCluster_of_none hp
  | some f =>
    obtain ⟨hfm, hk⟩ := pendOf_some_mem hp
    rw [effCluster_of_pend hp]
    rcases hx.quiet f hfm hk with hd | hd
    · obtain ⟨h', hh', A, o, B, hO, hpo, _, _, hcl, _⟩ := file_object hM.tree hfm
      have ho : o ∈ objects h' (dirSlots gh.vol s.dev.disk gh.G h') := by rw [hO]; simp
      obtain ⟨_, rfl⟩ := AbsFs.slot_unique hM hh' hx.dir (mem_of_mem_objects ho) (mem_of_mem_objects hx.mem) (hpo.trans hk)
      exact ((hcl hd).1).symm
    · exact hd.1.symm

theorem Obj.memSlots (hx : Obj s gh h x) : x ∈ dirSlots gh.vol s.dev.disk gh.G h := mem_of_mem_objects hx.mem

/-- The chain of the object and the chain of any directory share no cluster. -/
theorem Obj.not_dir (hI : VolInv s gh) (hx : Obj s gh h x) {h' : Nat} (hh' : h' ∈ dirIds gh.dirs) :
    ∀ c, c ∈ chainOf gh.G (sCluster gh.vol.fatType x) → c ∉ dirChain gh.vol gh.G h' := by
  have hM := medX_of_med hI.med
  intro c hc hc'
  have hf : ¬ isFixedRoot gh.vol h' := by
    intro hf
    unfold dirChain at hc'
    rw [if_pos hf] at hc'
    cases hc'
  have hne : sCluster gh.vol.fatType x ≠ 0 := by
    intro e
    rw [e, chainOf_lt_two (med_heads hM) (by decide)] at hc
    cases hc
  have := dirHead_ne_fileRef hM hx.dir hx.mem hx.file (by rw [hx.eff hI]; exact hne) hh' hf
  rw [hx.eff hI] at this
  exact chainOf_disj hM this.symm c hc (dirChain_sub hM hc')

/-- The chain of the object and the chain of an open file that sits elsewhere share no cluster. -/
theorem Obj.not_file (hI : VolInv s gh) (hx : Obj s gh h x) {f : FileInfo} (hf : f ∈ s.files) (hk : fkey f ≠ spos x) :
    ∀ c, c ∈ chainOf gh.G (sCluster gh.vol.fatType x) → c ∉ chainOf gh.G f.entry.cluster := by
  have hM := medX_of_med hI.med
  intro c hc hc'
  obtain ⟨h', hh', A, o, B, hO, hpo, hod, _, _, hp⟩ := file_object hM.tree hf
  have ho : o ∈ objects h' (dirSlots gh.vol s.dev.disk gh.G h') := by rw [hO]; simp
  have hne : f.entry.cluster ≠ 0 := by
    intro e
    rw [e, chainOf_lt_two (med_heads hM) (by decide)] at hc'
    cases hc'
  have := eff_ne hM hx.dir hh' hx.mem ho hx.file hod (by rw [hpo]; exact hk) (by rw [effCluster_of_pend hp]; exact hne)
  rw [effCluster_of_pend hp, hx.eff hI] at this
  exact chainOf_disj hM this.symm c hc hc'

/-- The chain of the object and the chain of a closed file object elsewhere share no cluster. -/
theorem Obj.not_object (hI : VolInv s gh) (hx : Obj s gh h x) {h' : Nat} (hh' : h' ∈ dirIds gh.dirs) {o : Slot}
    (ho : o ∈ objects h' (dirSlots gh.vol s.dev.disk gh.G h')) (hod : isDirE o = false) (hcl : pendOf s.files o = none)
    (hp : spos o ≠ spos x) :
    ∀ c, c ∈ chainOf gh.G (sCluster gh.vol.fatType x) → c ∉ chainOf gh.G (sCluster gh.vol.fatType o) := by
  have hM := medX_of_med hI.med
  intro c hc hc'
  have hne : sCluster gh.vol.fatType o ≠ 0 := by
    intro e
    rw [e, chainOf_lt_two (med_heads hM) (by decide)] at hc'
    cases hc'
  have := eff_ne hM hx.dir hh' hx.mem ho hx.file hod hp (by rw [effCluster_of_none hcl]; exact hne)
  rw [effCluster_of_none hcl, hx.eff hI] at this
  exact chainOf_disj hM this.symm c hc hc'

/-- The object's slot is a live slot. -/
theorem Obj.live (hI : VolInv s gh) (hx : Obj s gh h x) : ¬ FreeAt s.dev.disk x.1 x.2.1 := by
  have hM := medX_of_med hI.med
  obtain ⟨pre, post, hsp, _, _, hnz, hk⟩ := object_split hM hx.dir hx.mem
  have hform : x.2.2 = ((s.dev.disk.get x.1).drop x.2.1).take 32 := by
    have hm := hx.memSlots
    by_cases hf : isFixedRoot gh.vol h
    · rw [dirSlots_fixed hf] at hm
      obtain ⟨j, i, _, _, rfl⟩ := mem_runSlots.1 hm
      rfl
    · rw [dirSlots_chain hf] at hm
      obtain ⟨c', _, hrun⟩ := mem_chainSlots.1 hm
      obtain ⟨j, i, _, _, rfl⟩ := mem_runSlots.1 hrun
      rfl
  have hfirst : first x = byteAt (s.dev.disk.get x.1) x.2.1 := by
    unfold first byteAt
    rw [hform, List.getD_eq_getElem?_getD, List.getD_eq_getElem?_getD, List.getElem?_take, if_pos (by decide),
      List.getElem?_drop, Nat.add_zero]
  unfold FreeAt
  rw [← hfirst]
  intro hfree
  rcases hfree with e | e
  · exact hnz e
  · unfold keep at hk
    rw [e] at hk
    simp at hk

end

end Sdmmc.Lemmas.Survive
