/-
Proof kit for `Gen/FunsWrap.lean` (the machine translation of the RAII wrappers and the embedded-io traits)
against `Model/Wrap.lean`:

* the prelude of the generated file is the model's vocabulary (`expectOk` = `expect`, `discardErr` = `ignoreErr`,
  `ofOption .InvalidOffset` = `orInvalidOffset`);
* every manager method of `Gen/FunsMgr.lean` the wrappers call is `Wrap.call` of the model's function (from the
  manager-level theorems `Props/C0{1,2,7,8,15}GenM.lean`);
* `M.attempt m >>= M.lift` is `m` (what `let result = ..; mem::forget(self); result` comes to);
* `PEq` (equality up to the state after a panic) through `>>=`, for the two calls (`read`, `write`) whose
  manager-level theorems are stated with it.
-/
import Sdmmc.Gen.FunsWrap
import Sdmmc.Model.Wrap
import Sdmmc.Lemmas.GenMgrIO
import Sdmmc.Props.C01GenM
import Sdmmc.Props.C01GenRead
import Sdmmc.Props.C01GenWrite
import Sdmmc.Props.C02GenM
import Sdmmc.Props.C07GenM
import Sdmmc.Props.C08GenM
import Sdmmc.Props.C15GenM

namespace Sdmmc.Lemmas.GenWrap

open Sdmmc Sdmmc.Model Sdmmc.Gen Sdmmc.Lemmas.GenMgr Sdmmc.Lemmas.GenMgrIO

variable {α β : Type}

/-! ### The prelude -/

theorem expectOk_eq (msg : String) (m : M α) : FunsWrap.expectOk msg m = Wrap.expect msg m := rfl
theorem discardErr_eq (m : M α) : FunsWrap.discardErr m = Wrap.ignoreErr m := rfl
theorem ofOption_eq (o : Option α) : FunsWrap.ofOption Err.InvalidOffset o = Wrap.orInvalidOffset o := by
  cases o <;> rfl

/-- The translation's `SeekFrom` (a copy of embedded-io's enum) as the model's. -/
def toModel : FunsWrap.SeekFrom → Wrap.SeekFrom
  | .Start n => .start n
  | .End x => .end_ x
  | .Current x => .current x

/-! ### The monad -/

theorem bind_assoc (m : M α) (f : α → M β) {γ : Type} (g : β → M γ) :
    (m >>= f >>= g) = (m >>= fun a => f a >>= g) := by
  funext s
  simp only [bind_apply]
  rcases m s with ⟨r, s1⟩
  cases r <;> rfl

theorem pure_bind (a : α) (f : α → M β) : (pure a >>= f) = f a := by funext s; rfl

theorem bind_pure (m : M α) : (m >>= fun a => pure a) = m := by
  funext s
  simp only [bind_apply]
  rcases m s with ⟨r, s1⟩
  cases r <;> rfl

theorem fail_bind (e : Err) (f : α → M β) : ((M.fail e : M α) >>= f) = M.fail e := by funext s; rfl

/-- `let result = call; ..; result` with nothing in between. -/
theorem attempt_lift (m : M α) : (M.attempt m >>= fun r => M.lift r) = m := by
  funext s
  simp only [bind_apply, attempt_apply, lift_apply]

/-! ### The manager's methods are `call`s of the model's -/

theorem call_apply (m : M α) (s : Mgr) : Wrap.call m s = if s.locked then (.err .LockError, s) else m s := rfl
theorem call_locked (m : M α) (s : Mgr) (h : s.locked = true) : Wrap.call m s = (.err .LockError, s) := by
  simp only [call_apply, h, if_true]
theorem call_free (m : M α) (s : Mgr) (h : s.locked = false) : Wrap.call m s = m s := by
  simp only [call_apply, h, Bool.false_eq_true, if_false]

theorem file_eof_call (f : Nat) : FunsMgr.VolumeManager_file_eof f = Wrap.call (fileEof f) := by
  funext s; exact Props.C01GenM.file_eof_eq f s
theorem file_length_call (f : Nat) : FunsMgr.VolumeManager_file_length f = Wrap.call (fileLength f) := by
  funext s; exact Props.C01GenM.file_length_eq f s
theorem file_offset_call (f : Nat) : FunsMgr.VolumeManager_file_offset f = Wrap.call (fileOffset f) := by
  funext s; exact Props.C01GenM.file_offset_eq f s
theorem file_seek_from_start_call (f n : Nat) :
    FunsMgr.VolumeManager_file_seek_from_start f n = Wrap.call (fileSeekFromStart f n) := by
  funext s; exact Props.C01GenM.file_seek_from_start_eq f n s
theorem file_seek_from_end_call (f n : Nat) :
    FunsMgr.VolumeManager_file_seek_from_end f n = Wrap.call (fileSeekFromEnd f n) := by
  funext s; exact Props.C01GenM.file_seek_from_end_eq f n s
theorem open_root_dir_call (v : Nat) : FunsMgr.VolumeManager_open_root_dir v = Wrap.call (openRootDir v) := by
  funext s; exact Props.C08GenM.open_root_dir_eq v s
theorem close_dir_call (d : Nat) : FunsMgr.VolumeManager_close_dir d = Wrap.call (closeDir d) := by
  funext s; exact Props.C08GenM.close_dir_eq d s
theorem close_volume_call (v : Nat) : FunsMgr.VolumeManager_close_volume v = Wrap.call (closeVolume v) := by
  funext s; exact Props.C08GenM.close_volume_eq v s
theorem open_dir_call (d : Nat) (name : List Nat) :
    FunsMgr.VolumeManager_open_dir d name = Wrap.call (openDir d name) := by
  funext s; exact Props.C07GenM.open_dir_eq d name s
theorem delete_file_in_dir_call (d : Nat) (name : List Nat) :
    FunsMgr.VolumeManager_delete_file_in_dir d name = Wrap.call (deleteFileInDir d name) := by
  funext s; exact Props.C07GenM.delete_file_in_dir_eq d name s

/-- `file_seek_from_current`, for tables whose files have `u32` sizes. -/
theorem file_seek_from_current_call (f : Nat) (x : Int) (s : Mgr) (hsz : ∀ f ∈ s.files, f.entry.size < 4294967296) :
    FunsMgr.VolumeManager_file_seek_from_current f x s = Wrap.call (fileSeekFromCurrent f x) s :=
  Props.C01GenM.file_seek_from_current_eq f x s hsz

theorem open_file_in_dir_call (d : Nat) (name : List Nat) (mode : Mode) (s : Mgr) :
    FunsMgr.VolumeManager_open_file_in_dir d name mode s = Wrap.call (openFileInDir d name mode) s := by
  cases hl : s.locked
  · rw [call_free _ _ hl]; exact Props.C07GenM.open_file_in_dir_eq d name mode s hl
  · rw [call_locked _ _ hl]; exact Props.C07GenM.open_file_in_dir_locked d name mode s hl

theorem open_raw_volume_call (i : Nat) (s : Mgr) :
    FunsMgr.VolumeManager_open_raw_volume i s = Wrap.call (openRawVolume i) s := by
  cases hl : s.locked
  · rw [call_free _ _ hl]; exact Props.C15GenM.open_raw_volume_eq i s hl
  · rw [call_locked _ _ hl]; exact Props.C15GenM.open_raw_volume_locked i s hl

/-- The condition under which the translated `flush_file` / `close_file` and the model's panic with the same
text (see `Props/C02GenM.lean`): a file with a length has a cluster. -/
def FlushOK (s : Mgr) : Prop := ∀ f ∈ s.files, f.entry.size ≠ 0 → f.entry.cluster ≠ 0

theorem flush_file_call (f : Nat) (s : Mgr) (hok : FlushOK s) :
    FunsMgr.VolumeManager_flush_file f s = Wrap.call (flushFile f) s := by
  cases hl : s.locked
  · rw [call_free _ _ hl]; exact Props.C02GenM.flush_file_eq f s hl hok
  · rw [call_locked _ _ hl]; exact Props.C02GenM.flush_file_locked f s hl

theorem close_file_call (f : Nat) (s : Mgr) (hok : FlushOK s) :
    FunsMgr.VolumeManager_close_file f s = Wrap.call (closeFile f) s := by
  cases hl : s.locked
  · rw [call_free _ _ hl]; exact Props.C02GenM.close_file_eq f s hl hok
  · rw [call_locked _ _ hl]; exact Props.C02GenM.close_file_locked f s hl

/-! ### `PEq` through a continuation -/

theorem PEq.bind {m1 m2 : M α} {s : Mgr} (h : PEq (m1 s) (m2 s)) (k : α → M β) :
    PEq ((m1 >>= k) s) ((m2 >>= k) s) := by
  simp only [bind_apply]
  generalize m1 s = x at h ⊢
  generalize m2 s = y at h ⊢
  rcases x with ⟨rx, sx⟩
  rcases y with ⟨ry, sy⟩
  obtain ⟨h1, h2⟩ := h
  have h1' : rx = ry := h1
  subst h1'
  cases rx with
  | ok a => have h3 : sx = sy := h2 (Or.inl ⟨a, rfl⟩); subst h3; exact PEq.rfl' _
  | err e => have h3 : sx = sy := h2 (Or.inr ⟨e, rfl⟩); subst h3; exact PEq.rfl' _
  | panic m => exact PEq.panic m _ _
  | diverged => exact PEq.diverged _ _

end Sdmmc.Lemmas.GenWrap
