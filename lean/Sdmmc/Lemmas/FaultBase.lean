/-
C11 (device faults) — the vocabulary and the compositional rules at the level of the FAT
engine's monad `F`.

* `FaultStrict m` : any device failure during `m` surfaces as `.err .DeviceError`
  (not `ok`, not another error, not `panic`, not `diverged`).
* `FaultWeak m`   : any device failure during `m` makes the outcome some `.err _`.
* `FaultInner m`  : for the functions that hand an inner outcome back inside `ok`
  (`find_data_on_disk`): a failure shows as `.ok (_, .err .DeviceError)`.
* `F.Inv R m`     : `m` relates every pre-state to its post-state by the preorder `R`
  (used with `R` = "`failed` does not decrease" and `R` = "nothing is written").

The rules are closed under everything the `do` blocks of `Fat.lean` are made of, so each
function of the model is handled by the tactic `fault_auto` after unfolding.
-/
import Lean.Elab.Tactic
import Sdmmc.Model.Mgr

namespace Sdmmc.Lemmas.Fault

open Sdmmc.Model

/-! ### Unfolding the monad `F` -/

theorem F.pure_apply {α} (a : α) (s : FS) : (pure a : F α) s = (.ok a, s) := rfl

theorem F.bind_apply {α β} (m : F α) (f : α → F β) (s : FS) :
    (m >>= f) s =
      match m s with
      | (.ok a, s') => f a s'
      | (.err e, s') => (.err e, s')
      | (.panic msg, s') => (.panic msg, s')
      | (.diverged, s') => (.diverged, s') := rfl

theorem F.bind_ok {α β} {m : F α} {f : α → F β} {s s' : FS} {a : α} (h : m s = (.ok a, s')) :
    (m >>= f) s = f a s' := by rw [F.bind_apply, h]
theorem F.bind_err {α β} {m : F α} {f : α → F β} {s s' : FS} {e : Err} (h : m s = (.err e, s')) :
    (m >>= f) s = (.err e, s') := by rw [F.bind_apply, h]
theorem F.bind_panic {α β} {m : F α} {f : α → F β} {s s' : FS} {msg : String} (h : m s = (.panic msg, s')) :
    (m >>= f) s = (.panic msg, s') := by rw [F.bind_apply, h]
theorem F.bind_diverged {α β} {m : F α} {f : α → F β} {s s' : FS} (h : m s = (.diverged, s')) :
    (m >>= f) s = (.diverged, s') := by rw [F.bind_apply, h]

theorem F.attempt_apply {α} (m : F α) (s : FS) : F.attempt m s = (.ok (m s).1, (m s).2) := rfl

theorem F.attempt_bind_apply {α β} (m : F α) (k : Res α → F β) (s : FS) :
    (F.attempt m >>= k) s = k (m s).1 (m s).2 := rfl

/-! ### The notions -/

/-- Any device failure during `m` surfaces as `DeviceError`. -/
def FaultStrict {α} (m : F α) : Prop :=
  ∀ s, (m s).2.dev.failed ≠ s.dev.failed → (m s).1 = .err .DeviceError

/-- Any device failure during `m` makes the outcome some error (not necessarily `DeviceError`). -/
def FaultWeak {α} (m : F α) : Prop :=
  ∀ s, (m s).2.dev.failed ≠ s.dev.failed → ∃ e, (m s).1 = .err e

/-- For functions returning `(position, inner outcome)`: a device failure shows as the inner
outcome `.err .DeviceError` (the Rust returns `Err` while `*start` has been advanced). -/
def FaultInner {σ β} (m : F (σ × Res β)) : Prop :=
  ∀ s, (m s).2.dev.failed ≠ s.dev.failed → ∃ st, (m s).1 = .ok (st, .err .DeviceError)

/-- A reflexive and transitive relation between pre- and post-states. -/
class RelOK {σ : Type} (R : σ → σ → Prop) : Prop where
  refl : ∀ s, R s s
  trans : ∀ {a b c}, R a b → R b c → R a c

/-- `m` relates every state to its successor state. -/
def F.Inv {α} (R : FS → FS → Prop) (m : F α) : Prop := ∀ s, R s (m s).2

/-- The number of failed device calls does not decrease. -/
def FailedLe (s s' : FS) : Prop := s.dev.failed ≤ s'.dev.failed
instance : RelOK FailedLe := ⟨fun _ => Nat.le_refl _, fun h1 h2 => Nat.le_trans h1 h2⟩

/-- Nothing reaches the medium (and the write log does not grow). -/
def NoWrite (s s' : FS) : Prop := s'.dev.wlog = s.dev.wlog ∧ s'.dev.disk = s.dev.disk
instance : RelOK NoWrite := ⟨fun _ => ⟨rfl, rfl⟩, fun h1 h2 => ⟨h2.1.trans h1.1, h2.2.trans h1.2⟩⟩

/-- `failed` never decreases during `m`. -/
abbrev FaultMono {α} (m : F α) : Prop := F.Inv FailedLe m

theorem FaultStrict.weak {α} {m : F α} (h : FaultStrict m) : FaultWeak m := by
  intro s hs
  exact ⟨_, h s hs⟩

/-! ### State-preserving pieces -/

/-- A computation that leaves the device alone is strict. -/
theorem FaultStrict.of_dev_eq {α} {m : F α} (h : ∀ s, (m s).2.dev = s.dev) : FaultStrict m := by
  intro s hs
  rw [h s] at hs
  exact absurd rfl hs

theorem FaultStrict.pure {α} (a : α) : FaultStrict (pure a : F α) := .of_dev_eq fun _ => rfl
theorem FaultStrict.lift {α} (r : Res α) : FaultStrict (F.lift r) := .of_dev_eq fun _ => rfl
theorem FaultStrict.fail {α} (e : Err) : FaultStrict (F.fail e : F α) := .of_dev_eq fun _ => rfl
theorem FaultStrict.panic {α} (msg : String) : FaultStrict (F.panic msg : F α) := .of_dev_eq fun _ => rfl
theorem FaultStrict.diverge {α} : FaultStrict (F.diverge : F α) := .of_dev_eq fun _ => rfl
theorem FaultStrict.getVol : FaultStrict F.getVol := .of_dev_eq fun _ => rfl
theorem FaultStrict.get : FaultStrict F.get := .of_dev_eq fun _ => rfl
theorem FaultStrict.setVol (v : FatVolume) : FaultStrict (F.setVol v) := .of_dev_eq fun _ => rfl
theorem FaultStrict.modifyVol (f : FatVolume → FatVolume) : FaultStrict (F.modifyVol f) := .of_dev_eq fun _ => rfl
theorem FaultStrict.cacheBlk : FaultStrict cacheBlk := .of_dev_eq fun _ => rfl
theorem FaultStrict.cacheModify (f : Block → Block) : FaultStrict (cacheModify f) := .of_dev_eq fun _ => rfl
theorem FaultStrict.blankMut (i : Nat) : FaultStrict (blankMut i) := .of_dev_eq fun _ => rfl

/-! ### Sequencing -/

/-- If `m` is strict and every continuation is strict, `m >>= f` is strict: when `m` returns
`ok`, no failure happened in `m`, so a failure of the whole happened in the continuation. -/
theorem FaultStrict.bind {α β} {m : F α} {f : α → F β} (hm : FaultStrict m) (hf : ∀ a, FaultStrict (f a)) :
    FaultStrict (m >>= f) := by
  intro s h
  have hms := hm s
  rcases hr : m s with ⟨r, s'⟩
  rw [hr] at hms
  cases r with
  | ok a =>
    rw [F.bind_ok hr] at h ⊢
    by_cases hfail : s'.dev.failed = s.dev.failed
    · rw [← hfail] at h; exact hf a s' h
    · have := hms hfail; cases this
  | err e =>
    rw [F.bind_err hr] at h ⊢
    have h2 := hms h
    simp only [Res.err.injEq] at h2
    subst h2; rfl
  | panic msg =>
    rw [F.bind_panic hr] at h
    have h2 := hms h
    simp at h2
  | diverged =>
    rw [F.bind_diverged hr] at h
    have h2 := hms h
    simp at h2

/-- Weak version: a strict prefix followed by weak continuations. -/
theorem FaultWeak.bind {α β} {m : F α} {f : α → F β} (hm : FaultStrict m) (hf : ∀ a, FaultWeak (f a)) :
    FaultWeak (m >>= f) := by
  intro s h
  have hms := hm s
  rcases hr : m s with ⟨r, s'⟩
  rw [hr] at hms
  cases r with
  | ok a =>
    rw [F.bind_ok hr] at h ⊢
    by_cases hfail : s'.dev.failed = s.dev.failed
    · rw [← hfail] at h; exact hf a s' h
    · have := hms hfail; cases this
  | err e => rw [F.bind_err hr]; exact ⟨e, rfl⟩
  | panic msg => rw [F.bind_panic hr] at h; have := hms h; cases this
  | diverged => rw [F.bind_diverged hr] at h; have := hms h; cases this

/-- The `match`-on-the-outcome pattern.  `P` is what a failure inside `m` looks like to the
continuation (`r = .err .DeviceError` for a strict `m`); the arms must be strict, and the arm
taken for such an outcome must return `DeviceError`.  In `Fat.lean` that arm is always
`other => F.lift other` / `F.lift (other.bind _)`, and the arms for `EndOfFile`,
`NotEnoughSpace`, `NotFound` are entered only when nothing failed in `m`. -/
theorem FaultStrict.attempt_bind_gen {α β} {m : F α} {k : Res α → F β} (P : Res α → Prop)
    (hm : ∀ s, (m s).2.dev.failed ≠ s.dev.failed → P (m s).1)
    (hk : ∀ r, FaultStrict (k r))
    (hP : ∀ r, P r → ∀ s, (k r s).1 = .err .DeviceError) :
    FaultStrict (F.attempt m >>= k) := by
  intro s h
  rw [F.attempt_bind_apply] at h ⊢
  by_cases hfail : (m s).2.dev.failed = s.dev.failed
  · rw [← hfail] at h; exact hk _ _ h
  · exact hP _ (hm s hfail) _

theorem FaultStrict.attempt_bind {α β} {m : F α} {k : Res α → F β}
    (hm : FaultStrict m) (hk : ∀ r, FaultStrict (k r))
    (hdev : ∀ s, (k (.err .DeviceError) s).1 = .err .DeviceError) :
    FaultStrict (F.attempt m >>= k) :=
  .attempt_bind_gen (fun r => r = .err .DeviceError) hm hk (fun _ hr => hr ▸ hdev)

/-- Weak version of the attempt pattern: the arm taken after a failure must return an error. -/
theorem FaultWeak.attempt_bind {α β} {m : F α} {k : Res α → F β}
    (hm : FaultStrict m) (hk : ∀ r, FaultWeak (k r))
    (hdev : ∀ s, ∃ e, (k (.err .DeviceError) s).1 = .err e) :
    FaultWeak (F.attempt m >>= k) := by
  intro s h
  rw [F.attempt_bind_apply] at h ⊢
  by_cases hfail : (m s).2.dev.failed = s.dev.failed
  · rw [← hfail] at h; exact hk _ _ h
  · rw [hm s hfail]; exact hdev _

/-! ### Invariants -/

section Inv
variable {R : FS → FS → Prop}

theorem F.Inv.of_eq [RelOK R] {α} {m : F α} (h : ∀ s, (m s).2 = s) : F.Inv R m := by
  intro s; rw [h s]; exact RelOK.refl s

theorem F.Inv.pure [RelOK R] {α} (a : α) : F.Inv R (pure a : F α) := .of_eq fun _ => rfl
theorem F.Inv.lift [RelOK R] {α} (r : Res α) : F.Inv R (F.lift r) := .of_eq fun _ => rfl
theorem F.Inv.fail [RelOK R] {α} (e : Err) : F.Inv R (F.fail e : F α) := .of_eq fun _ => rfl
theorem F.Inv.panic [RelOK R] {α} (msg : String) : F.Inv R (F.panic msg : F α) := .of_eq fun _ => rfl
theorem F.Inv.diverge [RelOK R] {α} : F.Inv R (F.diverge : F α) := .of_eq fun _ => rfl
theorem F.Inv.getVol [RelOK R] : F.Inv R F.getVol := .of_eq fun _ => rfl
theorem F.Inv.get [RelOK R] : F.Inv R F.get := .of_eq fun _ => rfl
theorem F.Inv.cacheBlk [RelOK R] : F.Inv R cacheBlk := .of_eq fun _ => rfl

theorem F.Inv.bind [RelOK R] {α β} {m : F α} {f : α → F β} (hm : F.Inv R m) (hf : ∀ a, F.Inv R (f a)) :
    F.Inv R (m >>= f) := by
  intro s
  have hms := hm s
  rcases hr : m s with ⟨r, s'⟩
  rw [hr] at hms
  cases r with
  | ok a => rw [F.bind_ok hr]; exact RelOK.trans hms (hf a s')
  | err e => rw [F.bind_err hr]; exact hms
  | panic msg => rw [F.bind_panic hr]; exact hms
  | diverged => rw [F.bind_diverged hr]; exact hms

theorem F.Inv.attempt {α} {m : F α} (hm : F.Inv R m) : F.Inv R (F.attempt m) := fun s => hm s

/-- The relations used here only look at the device: the pieces that touch the cache or the
volume record only. -/
class DevOnly (R : FS → FS → Prop) : Prop where
  of_dev_eq : ∀ s s', s'.dev = s.dev → R s s'

instance : DevOnly FailedLe := ⟨fun s s' h => by unfold FailedLe; rw [h]; exact Nat.le_refl _⟩
instance : DevOnly NoWrite := ⟨fun s s' h => by unfold NoWrite; rw [h]; exact ⟨rfl, rfl⟩⟩

theorem F.Inv.setVol [DevOnly R] (v : FatVolume) : F.Inv R (F.setVol v) := fun s => DevOnly.of_dev_eq s _ rfl
theorem F.Inv.modifyVol [DevOnly R] (f : FatVolume → FatVolume) : F.Inv R (F.modifyVol f) :=
  fun s => DevOnly.of_dev_eq s _ rfl
theorem F.Inv.cacheModify [DevOnly R] (f : Block → Block) : F.Inv R (cacheModify f) :=
  fun s => DevOnly.of_dev_eq s _ rfl
theorem F.Inv.blankMut [DevOnly R] (i : Nat) : F.Inv R (blankMut i) := fun s => DevOnly.of_dev_eq s _ rfl

/-- What a relation has to satisfy for the reading functions: `cacheRead` respects it. -/
class ReadOK (R : FS → FS → Prop) : Prop extends RelOK R where
  cacheRead : ∀ i, F.Inv R (cacheRead i)

/-- … and for the writing functions. -/
class WriteOK (R : FS → FS → Prop) : Prop extends ReadOK R, DevOnly R where
  writeBack : F.Inv R writeBack
  writeBackWithDuplicate : ∀ d, F.Inv R (writeBackWithDuplicate d)

theorem F.Inv.cacheRead [ReadOK R] (i : Nat) : F.Inv R (cacheRead i) := ReadOK.cacheRead i
theorem F.Inv.writeBack [WriteOK R] : F.Inv R writeBack := WriteOK.writeBack
theorem F.Inv.writeBackWithDuplicate [WriteOK R] (d : Nat) : F.Inv R (writeBackWithDuplicate d) :=
  WriteOK.writeBackWithDuplicate d

end Inv

/-! ### The device and the cache -/

theorem devRead_cases (idx : Nat) (s : FS) :
    (s.dev.faults.contains s.dev.calls = true ∧ (devRead idx s).1 = .err .DeviceError ∧
      (devRead idx s).2.dev.failed = s.dev.failed + 1 ∧ (devRead idx s).2.dev.wlog = s.dev.wlog ∧
      (devRead idx s).2.dev.disk = s.dev.disk ∧ (devRead idx s).2.cache.tag = s.cache.tag) ∨
    (s.dev.faults.contains s.dev.calls = false ∧ (devRead idx s).1 = .ok () ∧
      (devRead idx s).2.dev.failed = s.dev.failed ∧ (devRead idx s).2.dev.wlog = s.dev.wlog ∧
      (devRead idx s).2.dev.disk = s.dev.disk ∧ (devRead idx s).2.cache.tag = s.cache.tag) := by
  unfold devRead
  cases h : s.dev.faults.contains s.dev.calls <;> simp only [h] <;> simp

theorem devWrite_cases (idx : Nat) (s : FS) :
    (s.dev.faults.contains s.dev.calls = true ∧ (devWrite idx s).1 = .err .DeviceError ∧
      (devWrite idx s).2.dev.failed = s.dev.failed + 1 ∧ (devWrite idx s).2.dev.wlog = s.dev.wlog ∧
      (devWrite idx s).2.dev.disk = s.dev.disk ∧ (devWrite idx s).2.cache = s.cache) ∨
    (s.dev.faults.contains s.dev.calls = false ∧ (devWrite idx s).1 = .ok () ∧
      (devWrite idx s).2.dev.failed = s.dev.failed ∧ (devWrite idx s).2.cache = s.cache) := by
  unfold devWrite
  cases h : s.dev.faults.contains s.dev.calls <;> simp only [h] <;> simp

theorem FaultStrict.devRead (idx : Nat) : FaultStrict (devRead idx) := by
  intro s h
  rcases devRead_cases idx s with ⟨_, hr, _⟩ | ⟨_, _, hf, _⟩
  · exact hr
  · exact absurd hf h

theorem FaultStrict.devWrite (idx : Nat) : FaultStrict (devWrite idx) := by
  intro s h
  rcases devWrite_cases idx s with ⟨_, hr, _⟩ | ⟨_, _, hf, _⟩
  · exact hr
  · exact absurd hf h

theorem FaultMono.devRead (idx : Nat) : FaultMono (devRead idx) := by
  intro s
  show s.dev.failed ≤ _
  rcases devRead_cases idx s with ⟨_, _, hf, _⟩ | ⟨_, _, hf, _⟩ <;> rw [hf] <;> omega

theorem FaultMono.devWrite (idx : Nat) : FaultMono (devWrite idx) := by
  intro s
  show s.dev.failed ≤ _
  rcases devWrite_cases idx s with ⟨_, _, hf, _⟩ | ⟨_, _, hf, _⟩ <;> rw [hf] <;> omega

theorem NoWrite.devRead (idx : Nat) : F.Inv NoWrite (devRead idx) := by
  intro s
  rcases devRead_cases idx s with ⟨_, _, _, hw, hd, _⟩ | ⟨_, _, _, hw, hd, _⟩ <;> exact ⟨hw, hd⟩

/-- The state in which `cacheRead` calls the device on a miss: the tag is cleared first. -/
@[reducible] def untag (s : FS) : FS := { s with cache := { s.cache with tag := none } }

/-- `cacheRead` as a case split: a hit, a miss served by the device, a miss with a failing device. -/
theorem cacheRead_cases (idx : Nat) (s : FS) :
    (s.cache.tag = some idx ∧ cacheRead idx s = (.ok (), s)) ∨
    (s.cache.tag ≠ some idx ∧
      cacheRead idx s = ((devRead idx (untag s)).1,
        (devRead idx (untag s)).2) ∧
      (devRead idx (untag s)).1 = .err .DeviceError) ∨
    (s.cache.tag ≠ some idx ∧ (cacheRead idx s).1 = .ok () ∧
      (cacheRead idx s).2.dev = (devRead idx (untag s)).2.dev ∧
      (cacheRead idx s).2.cache.tag = some idx ∧
      (devRead idx (untag s)).1 = .ok ()) := by
  by_cases ht : s.cache.tag = some idx
  · left; refine ⟨ht, ?_⟩; unfold cacheRead; rw [if_pos ht]
  · right
    unfold cacheRead; rw [if_neg ht]
    rcases devRead_cases idx (untag s) with ⟨_, hr, _⟩ | ⟨_, hr, _⟩
    · left
      refine ⟨ht, ?_, hr⟩
      rcases hd : devRead idx (untag s) with ⟨r, s'⟩
      rw [hd] at hr; simp only at hr; subst hr; rfl
    · right
      rcases hd : devRead idx (untag s) with ⟨r, s'⟩
      rw [hd] at hr; simp only at hr; subst hr
      exact ⟨ht, rfl, rfl, rfl, rfl⟩

theorem FaultStrict.cacheRead (idx : Nat) : FaultStrict (cacheRead idx) := by
  intro s h
  rcases cacheRead_cases idx s with ⟨_, he⟩ | ⟨_, he, hr⟩ | ⟨_, _, hd, _, hr⟩
  · rw [he] at h; exact absurd rfl h
  · rw [he]; exact hr
  · rw [hd] at h
    exact absurd (FaultStrict.devRead idx _ h) (by rw [hr]; intro hc; cases hc)

theorem FaultMono.cacheRead (idx : Nat) : FaultMono (cacheRead idx) := by
  intro s
  have hd0 : FailedLe s (Model.devRead idx (untag s)).2 := FaultMono.devRead idx (untag s)
  rcases cacheRead_cases idx s with ⟨_, he⟩ | ⟨_, he, _⟩ | ⟨_, _, hd, _⟩
  · rw [he]; exact Nat.le_refl _
  · rw [he]; exact hd0
  · unfold FailedLe at hd0 ⊢; rw [hd]; exact hd0

theorem NoWrite.cacheRead (idx : Nat) : F.Inv NoWrite (cacheRead idx) := by
  intro s
  have hd0 : NoWrite s (Model.devRead idx (untag s)).2 := NoWrite.devRead idx (untag s)
  rcases cacheRead_cases idx s with ⟨_, he⟩ | ⟨_, he, _⟩ | ⟨_, _, hd, _⟩
  · rw [he]; exact ⟨rfl, rfl⟩
  · rw [he]; exact hd0
  · unfold NoWrite at hd0 ⊢; rw [hd]; exact hd0

/-- After a failing device read the cache tag is `none`: the scribbled buffer is never served
when the call is retried. -/
theorem cacheRead_fail_tag (idx : Nat) (s : FS) (e : Err) (h : (cacheRead idx s).1 = .err e) :
    (cacheRead idx s).2.cache.tag = none ∧ e = .DeviceError ∧
      (cacheRead idx s).2.dev.failed = s.dev.failed + 1 := by
  rcases cacheRead_cases idx s with ⟨_, he⟩ | ⟨_, he, hr⟩ | ⟨_, hok, _⟩
  · rw [he] at h; cases h
  · rw [he] at h ⊢
    simp only at h ⊢
    rcases devRead_cases idx (untag s) with ⟨_, _, hf, _, _, ht⟩ | ⟨_, hr', _⟩
    · rw [hr] at h
      exact ⟨ht, by cases h; rfl, hf⟩
    · rw [hr'] at hr; cases hr
  · rw [hok] at h; cases h

/-- After a successful `cacheRead` the tag names the block that was asked for. -/
theorem cacheRead_ok_tag (idx : Nat) (s : FS) (h : (cacheRead idx s).1 = .ok ()) :
    (cacheRead idx s).2.cache.tag = some idx := by
  rcases cacheRead_cases idx s with ⟨ht, he⟩ | ⟨_, he, hr⟩ | ⟨_, _, _, ht, _⟩
  · rw [he]; exact ht
  · rw [he] at h; simp only at h; rw [hr] at h; cases h
  · exact ht

/-! The write-backs: on a failed device write the cache forgets its block (`untag`). -/

theorem writeBack_none {s : FS} (ht : s.cache.tag = none) : writeBack s = (.panic "write_back with no read", s) := by
  unfold Sdmmc.Model.writeBack; rw [ht]

theorem writeBack_ok {s : FS} {idx : Nat} (ht : s.cache.tag = some idx) (h : (devWrite idx s).1 = .ok ()) :
    writeBack s = devWrite idx s := by
  unfold Sdmmc.Model.writeBack; rw [ht]; dsimp only
  rcases hd : Model.devWrite idx s with ⟨r, s'⟩
  rw [hd] at h; simp only at h; subst h; rfl

theorem writeBack_fail {s : FS} {idx : Nat} (ht : s.cache.tag = some idx) (h : (devWrite idx s).1 = .err .DeviceError) :
    writeBack s = (.err .DeviceError, untag (devWrite idx s).2) := by
  unfold Sdmmc.Model.writeBack; rw [ht]; dsimp only
  rcases hd : Model.devWrite idx s with ⟨r, s'⟩
  rw [hd] at h; simp only at h; subst h; rfl

theorem writeBackDup_none (dup : Nat) {s : FS} (ht : s.cache.tag = none) :
    writeBackWithDuplicate dup s = (.panic "write_back with no read", s) := by
  unfold Sdmmc.Model.writeBackWithDuplicate; rw [ht]

theorem writeBackDup_ok_ok (dup : Nat) {s : FS} {idx : Nat} (ht : s.cache.tag = some idx) (h1 : (devWrite idx s).1 = .ok ())
    (h2 : (devWrite dup (devWrite idx s).2).1 = .ok ()) : writeBackWithDuplicate dup s = devWrite dup (devWrite idx s).2 := by
  unfold Sdmmc.Model.writeBackWithDuplicate; rw [ht]; dsimp only
  rcases hd : Model.devWrite idx s with ⟨r, s'⟩
  rw [hd] at h1 h2; simp only at h1 h2; subst h1; dsimp only
  rcases hd2 : Model.devWrite dup s' with ⟨r2, s2⟩
  rw [hd2] at h2; simp only at h2; subst h2; rfl

theorem writeBackDup_ok_fail (dup : Nat) {s : FS} {idx : Nat} (ht : s.cache.tag = some idx) (h1 : (devWrite idx s).1 = .ok ())
    (h2 : (devWrite dup (devWrite idx s).2).1 = .err .DeviceError) :
    writeBackWithDuplicate dup s = (.err .DeviceError, untag (devWrite dup (devWrite idx s).2).2) := by
  unfold Sdmmc.Model.writeBackWithDuplicate; rw [ht]; dsimp only
  rcases hd : Model.devWrite idx s with ⟨r, s'⟩
  rw [hd] at h1 h2; simp only at h1 h2; subst h1; dsimp only
  rcases hd2 : Model.devWrite dup s' with ⟨r2, s2⟩
  rw [hd2] at h2; simp only at h2; subst h2; rfl

theorem writeBackDup_fail (dup : Nat) {s : FS} {idx : Nat} (ht : s.cache.tag = some idx)
    (h1 : (devWrite idx s).1 = .err .DeviceError) :
    writeBackWithDuplicate dup s = (.err .DeviceError, untag (devWrite idx s).2) := by
  unfold Sdmmc.Model.writeBackWithDuplicate; rw [ht]; dsimp only
  rcases hd : Model.devWrite idx s with ⟨r, s'⟩
  rw [hd] at h1; simp only at h1; subst h1; rfl

theorem devWrite_result (idx : Nat) (s : FS) : (devWrite idx s).1 = .ok () ∨ (devWrite idx s).1 = .err .DeviceError := by
  rcases devWrite_cases idx s with ⟨_, hr, _⟩ | ⟨_, hr, _⟩
  · exact .inr hr
  · exact .inl hr

/-- A write-back is its device write(s), except that on a failure the cache forgets its block. -/
def untagIfErr {α} (p : Res α × FS) : Res α × FS :=
  match p.1 with
  | .ok _ => p
  | _ => (p.1, untag p.2)

@[simp] theorem untagIfErr_fst {α} (p : Res α × FS) : (untagIfErr p).1 = p.1 := by
  unfold untagIfErr; rcases p with ⟨r, s⟩; cases r <;> rfl
@[simp] theorem untagIfErr_dev {α} (p : Res α × FS) : (untagIfErr p).2.dev = p.2.dev := by
  unfold untagIfErr; rcases p with ⟨r, s⟩; cases r <;> rfl
@[simp] theorem untagIfErr_vol {α} (p : Res α × FS) : (untagIfErr p).2.vol = p.2.vol := by
  unfold untagIfErr; rcases p with ⟨r, s⟩; cases r <;> rfl
@[simp] theorem untagIfErr_blk {α} (p : Res α × FS) : (untagIfErr p).2.cache.blk = p.2.cache.blk := by
  unfold untagIfErr; rcases p with ⟨r, s⟩; cases r <;> rfl
theorem untagIfErr_ok {α} (a : α) (s : FS) : untagIfErr ((.ok a, s) : Res α × FS) = (.ok a, s) := rfl
theorem untagIfErr_err {α} (e : Err) (s : FS) : untagIfErr ((.err e, s) : Res α × FS) = (.err e, untag s) := rfl

theorem writeBack_tagged {s : FS} {idx : Nat} (ht : s.cache.tag = some idx) : writeBack s = untagIfErr (devWrite idx s) := by
  rcases devWrite_result idx s with hr | hr
  · rw [writeBack_ok ht hr]
    rcases hd : Model.devWrite idx s with ⟨r, s'⟩
    rw [hd] at hr; simp only at hr; subst hr; rfl
  · rw [writeBack_fail ht hr]
    rcases hd : Model.devWrite idx s with ⟨r, s'⟩
    rw [hd] at hr; simp only at hr; subst hr; rfl

theorem writeBackDup_tagged (dup : Nat) {s : FS} {idx : Nat} (ht : s.cache.tag = some idx) :
    writeBackWithDuplicate dup s = untagIfErr ((devWrite idx >>= fun _ => devWrite dup) s) := by
  rw [F.bind_apply]
  rcases devWrite_result idx s with hr | hr
  · rcases devWrite_result dup (devWrite idx s).2 with hr2 | hr2
    · rw [writeBackDup_ok_ok dup ht hr hr2]
      rcases hd : Model.devWrite idx s with ⟨r, s'⟩
      rw [hd] at hr hr2; simp only at hr hr2; subst hr
      simp only
      rcases hd2 : Model.devWrite dup s' with ⟨r2, s2⟩
      rw [hd2] at hr2; simp only at hr2; subst hr2; rfl
    · rw [writeBackDup_ok_fail dup ht hr hr2]
      rcases hd : Model.devWrite idx s with ⟨r, s'⟩
      rw [hd] at hr hr2; simp only at hr hr2; subst hr
      simp only
      rcases hd2 : Model.devWrite dup s' with ⟨r2, s2⟩
      rw [hd2] at hr2; simp only at hr2; subst hr2; rfl
  · rw [writeBackDup_fail dup ht hr]
    rcases hd : Model.devWrite idx s with ⟨r, s'⟩
    rw [hd] at hr; simp only at hr; subst hr; rfl

theorem devWrite_fail_failed {idx : Nat} {s : FS} (h : (devWrite idx s).1 = .err .DeviceError) :
    (devWrite idx s).2.dev.failed = s.dev.failed + 1 := by
  rcases devWrite_cases idx s with ⟨_, _, hf, _⟩ | ⟨_, hr, _⟩
  · exact hf
  · rw [hr] at h; cases h

theorem FaultStrict.writeBack : FaultStrict writeBack := by
  intro s h
  cases ht : s.cache.tag with
  | none => rw [writeBack_none ht] at h; exact absurd rfl h
  | some idx =>
    rcases devWrite_result idx s with hr | hr
    · rw [writeBack_ok ht hr] at h ⊢; exact FaultStrict.devWrite idx s h
    · rw [writeBack_fail ht hr]

theorem FaultMono.writeBack : FaultMono writeBack := by
  intro s
  cases ht : s.cache.tag with
  | none => rw [writeBack_none ht]; exact Nat.le_refl _
  | some idx =>
    rcases devWrite_result idx s with hr | hr
    · rw [writeBack_ok ht hr]; exact FaultMono.devWrite idx s
    · rw [writeBack_fail ht hr]; exact FaultMono.devWrite idx s

theorem FaultStrict.writeBackWithDuplicate (dup : Nat) : FaultStrict (writeBackWithDuplicate dup) := by
  intro s h
  cases ht : s.cache.tag with
  | none => rw [writeBackDup_none dup ht] at h; exact absurd rfl h
  | some idx =>
    rcases devWrite_result idx s with hr | hr
    · rcases devWrite_result dup (Model.devWrite idx s).2 with hr2 | hr2
      · rw [writeBackDup_ok_ok dup ht hr hr2] at h ⊢
        have h1 := FaultStrict.devWrite idx s
        have h2 := FaultStrict.devWrite dup (Model.devWrite idx s).2
        by_cases hq : (Model.devWrite idx s).2.dev.failed = s.dev.failed
        · exact h2 (by rw [hq]; exact h)
        · rw [h1 hq] at hr; cases hr
      · rw [writeBackDup_ok_fail dup ht hr hr2]
    · rw [writeBackDup_fail dup ht hr]

theorem FaultMono.writeBackWithDuplicate (dup : Nat) : FaultMono (writeBackWithDuplicate dup) := by
  intro s
  cases ht : s.cache.tag with
  | none => rw [writeBackDup_none dup ht]; exact Nat.le_refl _
  | some idx =>
    have h1 := FaultMono.devWrite idx s
    have h2 := FaultMono.devWrite dup (Model.devWrite idx s).2
    rcases devWrite_result idx s with hr | hr
    · rcases devWrite_result dup (Model.devWrite idx s).2 with hr2 | hr2
      · rw [writeBackDup_ok_ok dup ht hr hr2]; exact Nat.le_trans h1 h2
      · rw [writeBackDup_ok_fail dup ht hr hr2]; exact Nat.le_trans h1 h2
    · rw [writeBackDup_fail dup ht hr]; exact h1

/-- The cache is coherent: a tagged buffer holds what the medium holds at that block. -/
def Coh (s : FS) : Prop := ∀ i, s.cache.tag = some i → s.cache.blk = s.dev.disk.get i

/-- Coherence is kept. -/
def CohRel (s s' : FS) : Prop := Coh s → Coh s'
instance : RelOK CohRel := ⟨fun _ h => h, fun h1 h2 h => h2 (h1 h)⟩

/-- `cacheRead` keeps the cache coherent — also when the device fails (the tag is cleared before
the device is called, so the scribbled buffer is untagged). -/
theorem CohRel.cacheRead (idx : Nat) : F.Inv CohRel (cacheRead idx) := by
  intro s hc
  by_cases ht : s.cache.tag = some idx
  · have h0 : Model.cacheRead idx s = (.ok (), s) := by unfold Model.cacheRead; rw [if_pos ht]
    rw [h0]; exact hc
  · cases hf : s.dev.faults.contains s.dev.calls with
    | true =>
      have h1 : (Model.cacheRead idx s).2.cache.tag = none := by
        unfold Model.cacheRead Model.devRead; rw [if_neg ht]; simp only [hf]; rfl
      intro i hi; rw [h1] at hi; cases hi
    | false =>
      have h1 : (Model.cacheRead idx s).2.cache = { tag := some idx, blk := s.dev.disk.get idx } := by
        unfold Model.cacheRead Model.devRead; rw [if_neg ht]; simp only [hf]; rfl
      have h2 : (Model.cacheRead idx s).2.dev.disk = s.dev.disk := by
        unfold Model.cacheRead Model.devRead; rw [if_neg ht]; simp only [hf]; rfl
      intro i hi
      rw [h1] at hi ⊢
      rw [h2]
      simp only [Option.some.injEq] at hi
      subst hi; rfl

instance : ReadOK CohRel := { cacheRead := CohRel.cacheRead }

instance : ReadOK FailedLe := { cacheRead := FaultMono.cacheRead }
instance : WriteOK FailedLe :=
  { writeBack := FaultMono.writeBack, writeBackWithDuplicate := FaultMono.writeBackWithDuplicate }
instance : ReadOK NoWrite := { cacheRead := NoWrite.cacheRead }

/-! ### Automation -/

open Lean Elab Tactic in
/-- `intro` only when the goal is syntactically a `∀`/`→` (never unfolds `FaultStrict` & co). -/
elab "intro_pi" : tactic => do
  let t ← instantiateMVars (← getMainTarget)
  if t.consumeMData.isForall then evalTactic (← `(tactic| intro _)) else throwError "not a pi"

open Lean Elab Tactic Meta in
/-- Apply a local hypothesis whose conclusion has the same head symbol as the goal
(induction hypotheses and previously proved facts about callees). -/
elab "apply_hyp" : tactic => withMainContext do
  let g ← getMainGoal
  let tgt ← instantiateMVars (← g.getType)
  let hd := tgt.consumeMData.getAppFn
  unless hd.isConst do throwError "apply_hyp: goal has no head constant"
  for d in (← getLCtx) do
    if d.isImplementationDetail then continue
    let ty ← instantiateMVars d.type
    let concl := ty.getForallBody.consumeMData.getAppFn
    if concl.isConst && concl.constName! == hd.constName! then
      let saved ← saveState
      try
        let gs ← withReducible (g.apply d.toExpr)
        replaceMainGoal gs
        return
      catch _ => saved.restore
  throwError "apply_hyp: no hypothesis applies"

/-- One step of decomposing a goal `FaultStrict _` / `FaultWeak _` / `F.Inv R _`. -/
macro "fault_step" : tactic => `(tactic| first
  | with_reducible first
    | apply_hyp
    | exact FaultStrict.pure _
    | exact FaultStrict.lift _
    | exact FaultStrict.fail _
    | exact FaultStrict.panic _
    | exact FaultStrict.diverge
    | exact FaultStrict.getVol
    | exact FaultStrict.get
    | exact FaultStrict.modifyVol _
    | exact FaultStrict.cacheBlk
    | exact FaultStrict.cacheModify _
    | exact FaultStrict.blankMut _
    | exact FaultStrict.cacheRead _
    | exact FaultStrict.writeBack
    | exact FaultStrict.writeBackWithDuplicate _
    | exact F.Inv.pure _
    | exact F.Inv.lift _
    | exact F.Inv.fail _
    | exact F.Inv.panic _
    | exact F.Inv.diverge
    | exact F.Inv.getVol
    | exact F.Inv.get
    | exact F.Inv.modifyVol _
    | exact F.Inv.cacheBlk
    | exact F.Inv.cacheModify _
    | exact F.Inv.blankMut _
    | exact F.Inv.cacheRead _
    | exact F.Inv.writeBack
    | exact F.Inv.writeBackWithDuplicate _
    | apply F.Inv.attempt
    | apply FaultStrict.attempt_bind
    | apply FaultStrict.bind
    | apply F.Inv.bind
  | intro_pi
  | exact rfl
  | dsimp only
  | split)

/-- Decompose as far as possible. -/
macro "fault_auto" : tactic => `(tactic| repeat fault_step)

end Sdmmc.Lemmas.Fault

