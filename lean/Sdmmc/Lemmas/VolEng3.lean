/-
Volume invariant (C03), layer 2 (engine): `alloc_cluster(prev, zero = true)` leaves the new cluster
blank (`alloc_zeroed`); a directory grows by a blank cluster (`grow_med`).
-/
import Sdmmc.Lemmas.VolEng2
import Sdmmc.Lemmas.ForestStep
import Sdmmc.Lemmas.DirFrames

namespace Sdmmc.Lemmas.VolEng
open Sdmmc.Model Sdmmc.Model.Fat Sdmmc.Spec.Volume Sdmmc.Lemmas.VolBase Sdmmc.Lemmas.VolTree
open Sdmmc.Spec hiding NoFault Coherent
open Sdmmc.Lemmas.VolDisk Sdmmc.Lemmas.VolMed Sdmmc.Lemmas.VolWalk
open Sdmmc.Lemmas.FBasic
open Sdmmc.Lemmas.FatOps hiding BlocksOK Mirror HintOK

/-- After `alloc_cluster(prev, true)` every block of the new cluster is blank. -/
theorem alloc_zeroed (s s' : FS) (prev : Option Nat) (c : Nat) (hn : NoFault s) (hc : Coherent s)
    (hb : BlocksOK s.dev.disk) (hg : WFGeom s.vol) (hh : HintOK s.vol)
    (hp : ∀ p, prev = some p → p < endCluster s.vol)
    (h : allocCluster prev true s = (.ok c, s')) :
    ∀ j, j < s.vol.blocksPerCluster → s'.dev.disk.get (clusterToBlock s.vol c + j) = zeroBlock := by
  intro j hj
  obtain ⟨hc2, hcE, _⟩ := alloc_in_range_and_free s s' prev true c hn hc hh h
  obtain ⟨s1, sZ, s3, s4, s5, nf, h1, h2, h3, h4, h5, hs'⟩ := alloc_inv s s' prev true c h
  -- the picked state
  obtain ⟨s1', e1, ro1, hn1, hc1⟩ := allocPick_eq s hn hc
  rw [h1] at e1
  have es1 : s1 = s1' := congrArg Prod.snd e1
  subst es1
  -- zeroing
  obtain ⟨sZ', e2, hnZ, hcZ, hvZ, _, hbZ⟩ := zeroStep_eq s.vol true c s1 hn1 hc1
  rw [h2] at e2
  have esZ : sZ = sZ' := congrArg Prod.snd e2
  subst esZ
  have hzero : sZ.dev.disk.get (clusterToBlock s.vol c + j) = zeroBlock := by
    have : sZ = (zeroStep s.vol true c s1).2 := by rw [h2]
    rw [this]
    unfold zeroStep
    simp only [if_true]
    rw [DirFat.zeroBlocks_disk s1 _ _ hn1, if_pos ⟨by omega, by omega⟩]
  have hvZ' : sZ.vol = s.vol := hvZ.trans ro1.vol
  have hbZ' : BlocksOK sZ.dev.disk := hbZ (by rw [ro1.disk]; exact hb)
  have hreg := FatLens.cluster_blocks_in_data_region s.vol hg c j hc2 hcE hj
  have hnf : regionOf s.vol (clusterToBlock s.vol c + j) ≠ .fat := by rw [hreg]; intro e; cases e
  -- the end-of-chain mark
  obtain ⟨s3', e3, hc3, hn3, hv3, hb3, _, _, _, _, _, hget3⟩ :=
    DirFat.updateFat_frame sZ c Gen.CLUSTER_END_OF_FILE hnZ hcZ (by rw [hvZ']; exact hg) (by rw [hvZ']; exact hcE) hbZ'
  rw [h3] at e3
  have es3 : s3 = s3' := congrArg Prod.snd e3
  subst es3
  have hd3 : s3.dev.disk.get (clusterToBlock s.vol c + j) = zeroBlock := by
    rw [hget3 _ (by rw [hvZ']; exact DirFat.not_mem_fatWrites_of_region s.vol hg c _ hcE hnf), hzero]
  have hv3' : s3.vol = s.vol := hv3.trans hvZ'
  -- the link
  have hd4 : s4.dev.disk.get (clusterToBlock s.vol c + j) = zeroBlock := by
    cases prev with
    | none =>
      have : s4 = s3 := by
        unfold linkStep at h4
        exact (congrArg Prod.snd h4).symm
      rw [this]; exact hd3
    | some p =>
      obtain ⟨s4', e4, _, _, _, _, _, _, _, _, _, hget4⟩ :=
        DirFat.updateFat_frame s3 p c hn3 hc3 (by rw [hv3']; exact hg) (by rw [hv3']; exact hp p rfl) hb3
      have h4' : updateFat p c s3 = (.ok (), s4) := h4
      rw [h4'] at e4
      have es4 : s4 = s4' := congrArg Prod.snd e4
      subst es4
      rw [hget4 _ (by rw [hv3']; exact DirFat.not_mem_fatWrites_of_region s.vol hg p _ (hp p rfl) hnf), hd3]
  -- the hint search reads only
  have ro5 := allocHint_readOnly s.vol c s4
  rw [h5] at ro5
  rw [hs']
  show s5.dev.disk.get _ = _
  rw [ro5.disk]; exact hd4

section
variable {files : List FileInfo} {gh : Ghost} {X : List (List Nat)}

/-- What an allocation leaves alone on the medium: every block of every other data cluster, and the FAT16
root region. -/
theorem alloc_keeps_blocks {fs fs2 : FS} (hn : NoFault fs) (hc : Coherent fs) (hb : BlocksOK fs.dev.disk) (hg : WFGeom fs.vol)
    (hh : HintOK fs.vol) {prev : Option Nat} {zero : Bool} {c : Nat} (hp : ∀ p, prev = some p → p < endCluster fs.vol)
    (ha : allocCluster prev zero fs = (.ok c, fs2)) :
    (∀ c' j, 2 ≤ c' → c' < endCluster fs.vol → c' ≠ c → j < fs.vol.blocksPerCluster →
      fs2.dev.disk.get (clusterToBlock fs.vol c' + j) = fs.dev.disk.get (clusterToBlock fs.vol c' + j)) ∧
    (∀ i, regionOf fs.vol i = .root → fs2.dev.disk.get i = fs.dev.disk.get i) := by
  refine ⟨fun c' j h2 hE hne hj => DirFrames.alloc_other_cluster_blocks fs fs2 prev zero c hn hc hb hg hh hp ha c' j h2 hE hne hj, ?_⟩
  intro i hi
  obtain ⟨hc2, hcE, _⟩ := alloc_in_range_and_free fs fs2 prev zero c hn hc hh ha
  obtain ⟨_, _, _, _, _, hget⟩ := DirFat.alloc_frame fs fs2 prev zero c hn hc hb hg hh hp ha
  have hnf : regionOf fs.vol i ≠ .fat := by rw [hi]; intro e; cases e
  apply hget
  · exact DirFat.not_mem_fatWrites_of_region fs.vol hg c _ hcE hnf
  · intro p hpp
    exact DirFat.not_mem_fatWrites_of_region fs.vol hg p _ (hp p hpp) hnf
  · rintro ⟨_, h3, h4⟩
    have := FatLens.cluster_blocks_in_data_region fs.vol hg c (i - clusterToBlock fs.vol c) hc2 hcE (by omega)
    rw [show clusterToBlock fs.vol c + (i - clusterToBlock fs.vol c) = i by omega, hi] at this
    cases this

/-- The slots of a directory whose chain avoids cluster `c` are untouched by an allocation of `c`. -/
theorem alloc_keeps_dirSlots {fs fs2 : FS} (hM : MedX fs.vol fs.dev.disk files gh X) (hn : NoFault fs) (hc : Coherent fs)
    {prev : Option Nat} {zero : Bool} {c : Nat} (hp : ∀ p, prev = some p → p < endCluster fs.vol)
    (ha : allocCluster prev zero fs = (.ok c, fs2)) {x : Nat} (hx : x ∈ dirIds gh.dirs) :
    dirSlots fs.vol fs2.dev.disk gh.G x = dirSlots fs.vol fs.dev.disk gh.G x := by
  obtain ⟨hk1, hk2⟩ := alloc_keeps_blocks hn hc hM.blocksOK hM.geom hM.hint hp ha
  obtain ⟨_, _, _, hcG, _⟩ := ForestFinal.alloc_never_returns_used fs fs2 prev zero c hn hc hM.hint ha
  apply dirSlots_congr
  intro s hs
  by_cases hf : isFixedRoot fs.vol x
  · rw [dirSlots_fixed hf] at hs
    exact hk2 _ (fixedRootSlots_region hM.geom hf.2 hs)
  · rw [dirSlots_chain hf] at hs
    obtain ⟨hm, _⟩ := dirChain_spec hM hx hf
    obtain ⟨c', hc', hle, hlt⟩ := chainSlots_block hs
    have hr := med_inRange hM hm hc'
    have hne : c' ≠ c := by
      rintro rfl
      exact hcG _ hM.owns (List.mem_flatten_of_mem (List.mem_append_left _ hm) hc')
    have := hk1 c' (s.1 - clusterToBlock fs.vol c') hr.1 hr.2 hne (by omega)
    rwa [show clusterToBlock fs.vol c' + (s.1 - clusterToBlock fs.vol c') = s.1 by omega] at this

end

end Sdmmc.Lemmas.VolEng
