/-
Writing one directory entry and reading it back (used by `Props/C02.lean`, `Props/C09.lean`):

* `updateInfoSector_state`: the state after `updateInfoSector` (fault-free, coherent);
* `flushF`, `flushF_spec`: the F-level body of `flush_file` — `updateInfoSector` then
  `writeEntryToDisk entry` — and what it writes;
* `writeEntry_frame`: `writeEntryToDisk` changes the 32 bytes of one slot of one block;
* `entry_persists`: decoding that slot from the new medium returns the entry (C18 round trip);
* `SameOn`, `sameOn_set`, `sameOn_applyWrites`: "the bytes at the positions `P` are the same", for
  one device write and for a sequence of device writes.
-/
import Sdmmc.Lemmas.DirSlots
import Sdmmc.Lemmas.C18

namespace Sdmmc.Lemmas.DirEntryIO
open Sdmmc.Model Sdmmc.Model.Fat Sdmmc.Spec Sdmmc.Lemmas.FBasic Sdmmc.Lemmas.FatOps Sdmmc.Lemmas.DirOps
open Sdmmc.Lemmas.DirSlots

/-! ### Protected positions -/

/-- The bytes at the (block, byte) positions `P` are the same on `d'` as on `d`. -/
def SameOn (P : Nat → Nat → Prop) (d d' : Disk) : Prop :=
  ∀ b i, P b i → (d'.get b).getD i 0 = (d.get b).getD i 0

theorem SameOn.refl (P : Nat → Nat → Prop) (d : Disk) : SameOn P d d := fun _ _ _ => rfl
theorem SameOn.trans {P : Nat → Nat → Prop} {d d' d'' : Disk} (h1 : SameOn P d d') (h2 : SameOn P d' d'') :
    SameOn P d d'' := fun b i hp => (h2 b i hp).trans (h1 b i hp)

/-- One device write whose payload agrees with the old block on the protected positions of that
block leaves all protected positions alone. -/
theorem sameOn_set (P : Nat → Nat → Prop) (d : Disk) (idx : Nat) (payload : Block)
    (h : ∀ i, P idx i → payload.getD i 0 = (d.get idx).getD i 0) : SameOn P d (d.set idx payload) := by
  intro b i hp
  rw [Disk.get_set]
  by_cases hb : idx = b
  · subst hb; rw [if_pos rfl]; exact h i hp
  · rw [if_neg hb]

/-- A sequence of device writes (oldest first), each of which agrees with the medium *it is applied
to* on the protected positions of its block. -/
theorem sameOn_applyWrites (P : Nat → Nat → Prop) : ∀ (ws : List (Nat × Block)) (d : Disk),
    (∀ (pre : List (Nat × Block)) (w : Nat × Block) (post : List (Nat × Block)), ws = pre ++ w :: post →
      ∀ i, P w.1 i → w.2.getD i 0 = ((d.applyWrites pre).get w.1).getD i 0) →
    SameOn P d (d.applyWrites ws)
  | [], d, _ => SameOn.refl P d
  | w :: ws, d, h => by
    rw [Disk.applyWrites_cons]
    have h1 : SameOn P d (d.set w.1 w.2) := sameOn_set P d w.1 w.2 (h [] w ws rfl)
    refine h1.trans (sameOn_applyWrites P ws (d.set w.1 w.2) fun pre w' post he => ?_)
    have := h (w :: pre) w' post (by rw [he]; rfl)
    rw [Disk.applyWrites_cons] at this
    exact this

/-! ### `updateInfoSector`: the state afterwards -/

theorem updateInfoSector_state32 (s : FS) (hn : NoFault s) (hc : Coherent s) (hft : s.vol.fatType = .fat32)
    (hne : ¬ (s.vol.freeClustersCount = none ∧ s.vol.nextFreeCluster = none)) :
    ∃ s1, updateInfoSector s = (.ok (), s1) ∧ NoFault s1 ∧ Coherent s1 ∧ s1.vol = s.vol ∧
      s1.dev.disk = s.dev.disk.set s.vol.infoLocation (infoPatch s.vol (s.dev.disk.get s.vol.infoLocation)) ∧
      s1.dev.wlog = (s.vol.infoLocation, infoPatch s.vol (s.dev.disk.get s.vol.infoLocation)) :: s.dev.wlog := by
  have hcoh : ∀ (x : FS) (idx : Nat), x.cache.tag = some idx → x.cache.blk = x.dev.disk.get idx → Coherent x := by
    intro x idx ht hb i hi
    have : idx = i := Option.some.inj (ht.symm.trans hi)
    subst this; exact hb
  unfold updateInfoSector infoPatch
  simp only [bind_apply, getVol_apply, hft]
  cases hf : s.vol.freeClustersCount <;> cases hnf : s.vol.nextFreeCluster
  · exact absurd ⟨hf, hnf⟩ hne
  all_goals
    simp only [ite_apply, Option.isNone_none, Option.isNone_some, Bool.false_eq_true, and_false, false_and, if_false,
      bind_apply, cacheRead_eq' _ _ hn hc, cacheModify_apply, pure_apply, afterRead_cache]
    refine ⟨_, writeBack_eq _ s.vol.infoLocation hn rfl, hn, ?_, rfl, rfl, rfl⟩
    exact hcoh _ s.vol.infoLocation rfl (Disk.get_set_self _ _ _).symm

/-- `updateInfoSector` on a fault-free coherent state: it succeeds; on FAT16, or with nothing to
record, the state is untouched; otherwise one block — the info sector — is rewritten with bytes
488..495 patched. -/
theorem updateInfoSector_state (s : FS) (hn : NoFault s) (hc : Coherent s) (hb : BlocksOK s.dev.disk) :
    ∃ s1, updateInfoSector s = (.ok (), s1) ∧ NoFault s1 ∧ Coherent s1 ∧ s1.vol = s.vol ∧ BlocksOK s1.dev.disk ∧
      (∀ i, i ≠ s.vol.infoLocation → s1.dev.disk.get i = s.dev.disk.get i) ∧
      (∀ i, i < 488 ∨ 496 ≤ i → (s1.dev.disk.get s.vol.infoLocation).getD i 0 = (s.dev.disk.get s.vol.infoLocation).getD i 0) ∧
      (s1.dev.wlog = s.dev.wlog ∧ s1.dev.disk = s.dev.disk ∨
        s.vol.fatType = .fat32 ∧
          s1.dev.wlog = (s.vol.infoLocation, infoPatch s.vol (s.dev.disk.get s.vol.infoLocation)) :: s.dev.wlog) := by
  by_cases h : s.vol.fatType = .fat16 ∨ (s.vol.freeClustersCount = none ∧ s.vol.nextFreeCluster = none)
  · exact ⟨s, updateInfoSector_idle s h, hn, hc, rfl, hb, fun _ _ => rfl, fun _ _ => rfl, .inl ⟨rfl, rfl⟩⟩
  · have hft : s.vol.fatType = .fat32 := by
      cases hf : s.vol.fatType with
      | fat16 => exact absurd (.inl hf) h
      | fat32 => rfl
    obtain ⟨s1, h1, hn1, hc1, hv1, hd1, hw1⟩ := updateInfoSector_state32 s hn hc hft (fun h' => h (.inr h'))
    obtain ⟨a, b, _, _⟩ := infoPatch_facts s.vol (s.dev.disk.get s.vol.infoLocation) (hb _)
    refine ⟨s1, h1, hn1, hc1, hv1, ?_, ?_, ?_, .inr ⟨hft, hw1⟩⟩
    · rw [hd1]; exact blocksOK_set _ _ _ hb a
    · intro i hi; rw [hd1, Disk.get_set_ne _ _ _ _ (fun e => hi e.symm)]
    · intro i hi; rw [hd1, Disk.get_set_self]; exact b i hi

/-! ### `writeEntryToDisk`: frame -/

/-- `writeEntryToDisk` on a fault-free coherent state: one block write; every other block is
identical afterwards, and inside the entry's block only the 32 bytes of the slot change, which
then hold the serialised entry. -/
theorem writeEntry_frame (s : FS) (e : DirEntry) (hn : NoFault s) (hc : Coherent s) (hb : BlocksOK s.dev.disk)
    (ho : e.entryOffset + 32 ≤ 512) (hname : e.name.length = 11) :
    ∃ s', writeEntryToDisk e s = (.ok (), s') ∧ NoFault s' ∧ Coherent s' ∧ s'.vol = s.vol ∧ BlocksOK s'.dev.disk ∧
      (∃ p, s'.dev.wlog = (e.entryBlock, p) :: s.dev.wlog ∧ s'.dev.disk = s.dev.disk.set e.entryBlock p) ∧
      (∀ b, b ≠ e.entryBlock → s'.dev.disk.get b = s.dev.disk.get b) ∧
      (∀ i, i < e.entryOffset ∨ e.entryOffset + 32 ≤ i →
        (s'.dev.disk.get e.entryBlock).getD i 0 = (s.dev.disk.get e.entryBlock).getD i 0) ∧
      slice (s'.dev.disk.get e.entryBlock) e.entryOffset 32 = e.serialize s.vol.fatType := by
  obtain ⟨h1, hc', hn', hv, p, hw, hd, hl, hout, hin⟩ := writeEntryToDisk_writes s e hn hc (hb _) ho hname
  refine ⟨(writeEntryToDisk e s).2, (run_eq_iff _ _ _ _).mpr ⟨h1, rfl⟩, hn', hc', hv, ?_, ⟨p, hw, hd⟩, ?_, ?_, ?_⟩
  · rw [hd]; exact blocksOK_set _ _ _ hb hl
  · intro b hne; rw [hd, Disk.get_set_ne _ _ _ _ (fun e' => hne e'.symm)]
  · intro i hi; rw [hd, Disk.get_set_self]; exact hout i hi
  · rw [hd, Disk.get_set_self]; exact hin

/-- Decoding the slot from the new medium gives back the entry that was written. -/
theorem entry_persists (s : FS) (e : DirEntry) (hn : NoFault s) (hc : Coherent s) (hb : BlocksOK s.dev.disk)
    (ho : e.entryOffset + 32 ≤ 512) (hname : e.name.length = 11)
    (hattr : e.attributes < 256) (hsize : e.size < 4294967296)
    (hcl : match s.vol.fatType with | .fat16 => e.cluster < 65536 | .fat32 => e.cluster < 4294967296)
    (hm : ∃ date time, date < 65536 ∧ time < 65536 ∧ date / 32 % 16 ≠ 0 ∧ date % 32 ≠ 0 ∧ e.mtime = Timestamp.fromFat date time)
    (hct : ∃ date time, date < 65536 ∧ time < 65536 ∧ date / 32 % 16 ≠ 0 ∧ date % 32 ≠ 0 ∧ e.ctime = Timestamp.fromFat date time)
    (hroot : ¬ (e.cluster = 0 ∧ Attr.isDirectory e.attributes = true)) :
    (writeEntryToDisk e s).1 = .ok () ∧
    OnDisk.getEntry s.vol.fatType (slice ((writeEntryToDisk e s).2.dev.disk.get e.entryBlock) e.entryOffset 32)
      e.entryBlock e.entryOffset = e := by
  obtain ⟨s', h, _, _, _, _, _, _, _, hin⟩ := writeEntry_frame s e hn hc hb ho hname
  rw [h]
  refine ⟨rfl, ?_⟩
  show OnDisk.getEntry s.vol.fatType (slice (s'.dev.disk.get e.entryBlock) e.entryOffset 32) _ _ = e
  rw [hin]
  exact C18.dirent_roundtrip s.vol.fatType e hname hattr hsize hcl hm hct hroot

/-! ### The body of `flush_file` -/

/-- What `flush_file` runs on the volume for a dirty file. -/
def flushF (e : DirEntry) : F Unit := do
  updateInfoSector
  writeEntryToDisk e

/-- `flush_file` of a dirty file, F level: first the info sector (FAT32 with something to record —
otherwise nothing), then exactly one directory block — the entry's — in which only the 32 bytes of
the slot change; they then hold the serialised entry. -/
theorem flushF_spec (s : FS) (e : DirEntry) (hn : NoFault s) (hc : Coherent s) (hb : BlocksOK s.dev.disk)
    (ho : e.entryOffset + 32 ≤ 512) (hname : e.name.length = 11) :
    ∃ s1 s', updateInfoSector s = (.ok (), s1) ∧ writeEntryToDisk e s1 = (.ok (), s') ∧ flushF e s = (.ok (), s') ∧
      NoFault s' ∧ Coherent s' ∧ s'.vol = s.vol ∧ BlocksOK s'.dev.disk ∧
      -- the info-sector step
      (s1.dev.wlog = s.dev.wlog ∧ s1.dev.disk = s.dev.disk ∨
        s.vol.fatType = .fat32 ∧
          s1.dev.wlog = (s.vol.infoLocation, infoPatch s.vol (s.dev.disk.get s.vol.infoLocation)) :: s.dev.wlog) ∧
      (∀ i, i ≠ s.vol.infoLocation → s1.dev.disk.get i = s.dev.disk.get i) ∧
      -- the directory-entry step
      (∃ p, s'.dev.wlog = (e.entryBlock, p) :: s1.dev.wlog ∧ s'.dev.disk = s1.dev.disk.set e.entryBlock p) ∧
      (∀ b, b ≠ e.entryBlock → s'.dev.disk.get b = s1.dev.disk.get b) ∧
      (∀ i, i < e.entryOffset ∨ e.entryOffset + 32 ≤ i →
        (s'.dev.disk.get e.entryBlock).getD i 0 = (s1.dev.disk.get e.entryBlock).getD i 0) ∧
      slice (s'.dev.disk.get e.entryBlock) e.entryOffset 32 = e.serialize s.vol.fatType := by
  obtain ⟨s1, h1, hn1, hc1, hv1, hb1, hoth, _, hcase⟩ := updateInfoSector_state s hn hc hb
  obtain ⟨s', h2, hn', hc', hv', hb', hp, hob, hout, hin⟩ := writeEntry_frame s1 e hn1 hc1 hb1 ho hname
  refine ⟨s1, s', h1, h2, ?_, hn', hc', hv'.trans hv1, hb', hcase, hoth, hp, hob, hout, ?_⟩
  · unfold flushF
    rw [bind_ok h1, h2]
  · rw [hin, hv1]

end Sdmmc.Lemmas.DirEntryIO
