/-
Volume invariant (C03), layer 2 (engine): creating a FILE entry (`create_file_med`):
`write_new_directory_entry(dir, name, attributes 0, cluster 0)` for a name the directory does not
hold — `NotEnoughSpace` and nothing changed, or the invariant holds again and the new entry is a file
object without cluster that no open file sits at.
-/
import Sdmmc.Lemmas.VolEng5

namespace Sdmmc.Lemmas.VolEng
open Sdmmc.Model Sdmmc.Model.Fat Sdmmc.Spec.Volume Sdmmc.Lemmas.VolBase Sdmmc.Lemmas.VolTree
open Sdmmc.Spec hiding NoFault Coherent
open Sdmmc.Lemmas.VolDisk Sdmmc.Lemmas.VolMed Sdmmc.Lemmas.VolWalk
open Sdmmc.Lemmas.FBasic
open Sdmmc.Lemmas.FatOps hiding BlocksOK Mirror HintOK

section
variable {files : List FileInfo} {gh : Ghost} {X : List (List Nat)}

/-- No open file sits at a free slot of a directory. -/
theorem pendOf_free_none {v : FatVolume} {d : Disk} (hM : MedX v d files gh X) {h : Nat} (hh : h ∈ dirIds gh.dirs)
    {old : Slot} (hold : old ∈ dirSlots v d gh.G h) (hfree : freeSlot old) (s : Slot) (hs : spos s = spos old) :
    pendOf files s = none := by
  rw [pendOf_none_iff]
  intro f hf hk
  obtain ⟨x, hx, A, o, B, hO, hpo, _, _, _, _⟩ := file_object hM.tree hf
  have ho : o ∈ objects x (dirSlots v d gh.G x) := by rw [hO]; simp
  have hom := mem_of_mem_objects ho
  have hsame : spos o = spos old := hpo.trans (hk.trans hs)
  have hxh : x = h := by
    by_contra hne
    exact dirSlots_pos_disjoint hM hx hh hne d d hom hold hsame
  subst hxh
  have := List.inj_on_of_nodup_map (dirSlots_pos_nodup hM hx d) hom hold hsame
  subst this
  have hoe : o ∈ entries (dirSlots v d gh.G x) := by
    unfold objects at ho
    split at ho
    · exact ho
    · exact List.mem_of_mem_drop ho
  obtain ⟨_, h1, h2, _⟩ := mem_entries hoe
  rcases hfree with h | h
  · exact h1 h
  · exact h2 h

/-- The fields of a freshly created entry's slot. -/
theorem new_entry_slot (ft : FatType) (name : Bytes) (att fc : Nat) (now : Timestamp) (b off : Nat)
    (hlen : name.length = 11) (hatt : att < 256)
    (hfc : match ft with | .fat16 => fc < 65536 | .fat32 => fc < 4294967296) :
    let e := DirEntry.new name att fc now b off
    let o : Slot := (b, off, DirEntry.serialize ft e)
    (DirEntry.serialize ft e).length = 32 ∧ first o = byteAt name 0 ∧ sName o = name ∧ sAttr o = att ∧
      sCluster ft o = fc ∧ sSize o = 0 := by
  intro e o
  have hn : e.name.length = 11 := hlen
  exact ⟨VolDisk.serialize_length ft e hn, serialize_first ft e b off hn, serialize_sName ft e b off hn,
    serialize_sAttr ft e b off hn hatt, serialize_sCluster ft e b off hn hfc,
    serialize_sSize ft e b off hn (by show (0 : Nat) < 4294967296; decide)⟩

/-- **A file entry is created.** -/
theorem create_file_med {fs : FS} (hM : MedX fs.vol fs.dev.disk files gh X) (hn : NoFault fs) (hc : Coherent fs) {dc : Nat}
    (hv : ValidDir gh.dirs dc) (name : Bytes) (hlen : name.length = 11) (h0 : byteAt name 0 ≠ 0) (hE5 : byteAt name 0 ≠ 0xE5)
    (hfresh : name ∉ (entries (dirSlots fs.vol fs.dev.disk gh.G (dirIdOf dc))).map sName) (now : Timestamp) :
    ∃ r fs', writeNewDirectoryEntry dc name 0 0 now fs = (r, fs') ∧ NoFault fs' ∧ Coherent fs' ∧
      ((r = .err .NotEnoughSpace ∧ fs'.dev.disk = fs.dev.disk ∧ fs'.vol = fs.vol) ∨
       (∃ e gh', r = .ok e ∧ gh'.vol = fs'.vol ∧ gh'.dirs = gh.dirs ∧ SameGeom fs.vol fs'.vol ∧
          MedX fs'.vol fs'.dev.disk files gh' X ∧
          e = DirEntry.new name 0 0 now e.entryBlock e.entryOffset ∧
          ∃ o, o ∈ objects (dirIdOf dc) (dirSlots fs'.vol fs'.dev.disk gh'.G (dirIdOf dc)) ∧
            spos o = (e.entryBlock, e.entryOffset) ∧ isDirE o = false ∧ sName o = name ∧ sAttr o = 0 ∧
            sCluster fs'.vol.fatType o = 0 ∧ sSize o = 0 ∧ pendOf files o = none)) := by
  obtain ⟨r, fs', hrun, hn', hc', hcase⟩ := writeNew_stage hM hn hc hv name 0 0 now
  refine ⟨r, fs', hrun, hn', hc', ?_⟩
  rcases hcase with hfail | ⟨v1, d1, G1, pre, post, old, hS, hr, hd'⟩
  · exact .inl hfail
  · right
    obtain ⟨hh, _⟩ := validDir_id hM hv
    have hM1 := hS.med
    have hh1 : dirIdOf dc ∈ dirIds ({ vol := v1, G := G1, dirs := gh.dirs } : Ghost).dirs := hh
    set e := DirEntry.new name 0 0 now old.1 old.2.1 with he
    obtain ⟨hbl, hfirst, hsn, hsa, hsc, hss⟩ := new_entry_slot v1.fatType name 0 0 now old.1 old.2.1 hlen (by decide)
      (by cases v1.fatType <;> decide)
    set bytes := DirEntry.serialize v1.fatType e with hbytes
    have hE := slotEdit_write hM1 hh1 hS.split hS.pre_nz hS.pre_len bytes hbl (by rw [hfirst]; exact h0)
    have hkeep : keep (old.1, old.2.1, bytes) = true := by
      unfold keep isFrag
      rw [hfirst, hsa]
      simp [hE5]
    have hnd : isDirE (old.1, old.2.1, bytes) = false := by
      unfold isDirE; rw [hsa]; decide
    have hold_mem : old ∈ dirSlots v1 d1 G1 (dirIdOf dc) := by rw [hS.split]; simp
    have hpend := pendOf_free_none hM1 hh1 hold_mem hS.free (old.1, old.2.1, bytes) rfl
    have htree := tree_insert_file hM1.tree (med_heads hM1) hE hS.free hkeep hnd
      (by rw [hsn, hS.entries_eq _ hh]; exact hfresh) hsc hss hpend
    obtain ⟨hb', hfat', _, _⟩ := slot_write hM1 hh1 hS.split bytes hbl
    have hM' := medX_rebuild hM1 hb' hfat' (gh' := { vol := v1, G := G1, dirs := gh.dirs }) rfl htree hM1.fileOK
    have hM'' : MedX fs'.vol fs'.dev.disk files { vol := v1, G := G1, dirs := gh.dirs } X := by
      rw [hd', hS.vol']; exact hM'
    refine ⟨e, { vol := v1, G := G1, dirs := gh.dirs }, hr, hS.vol'.symm, rfl, by rw [hS.vol']; exact hS.sameGeom, hM'', rfl,
      (old.1, old.2.1, bytes), ?_, rfl, hnd, hsn, hsa, by rw [hS.vol']; exact hsc, hss, hpend⟩
    -- the new slot is an object of the directory
    obtain ⟨A, _, hO', _, _⟩ := hE.objects_eq hM1.tree (hE.post_zero hM1.tree)
    rw [if_pos hkeep] at hO'
    rw [hS.vol', hd', hO']
    simp

end

end Sdmmc.Lemmas.VolEng
