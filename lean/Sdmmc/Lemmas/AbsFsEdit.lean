/-
Refinement of the API to the abstract file system, part 6: one directory slot is rewritten — how the
abstracted directory changes (`view_split`, `slots_edit`), how the references of the open files survive
(`fileRel_edit`), that a directory block is no block of a file's chain (`dirBlock_not_fileChain`), and the
stored entry read back abstractly (`metaOf_serialize`).
-/
import Sdmmc.Lemmas.AbsFsSlots
import Sdmmc.Lemmas.ReopenBase

namespace Sdmmc.Lemmas.AbsFs
open Sdmmc.Model Sdmmc.Model.Fat Sdmmc.Spec.Volume Sdmmc.Lemmas.VolBase Sdmmc.Lemmas.VolTree
open Sdmmc.Spec hiding NoFault Coherent
open Sdmmc.Spec.AbsFs (Meta view storedMeta fatRound OpenFile OpenDir absStep)
open Sdmmc.Lemmas.VolDisk Sdmmc.Lemmas.VolMed Sdmmc.Lemmas.VolApi Sdmmc.Lemmas.VolEng

/-! ### Lists -/

/-- Overwrite position `i`, or append when `i` is the end. -/
def putL {α : Type} (l : List α) (i : Nat) (x : α) : List α := if i < l.length then l.set i x else l ++ [x]

theorem map_putL {α : Type} (f : α → ASlot) (l : List α) (i : Nat) (x : α) :
    (putL l i x).map f = Spec.AbsFs.put (l.map f) i (f x) := by
  unfold putL Spec.AbsFs.put
  rw [List.length_map]
  split
  · rw [List.map_set]
  · rw [List.map_append]; rfl

theorem put_congr {α : Type} (f f' : α → ASlot) (l : List α) (i : Nat) (y : ASlot)
    (h : ∀ j o, l[j]? = some o → j ≠ i → f' o = f o) : Spec.AbsFs.put (l.map f') i y = Spec.AbsFs.put (l.map f) i y := by
  unfold Spec.AbsFs.put
  rw [List.length_map, List.length_map]
  split
  · apply List.ext_getElem?
    intro j
    rw [List.getElem?_set, List.getElem?_set]
    by_cases hij : i = j
    · rw [if_pos hij, if_pos hij, List.length_map, List.length_map]
    · rw [if_neg hij, if_neg hij, List.getElem?_map, List.getElem?_map]
      cases ho : l[j]? with
      | none => rfl
      | some o => simp only [Option.map_some]; rw [h j o ho (fun e => hij e.symm)]
  · next hlt =>
    congr 1
    apply List.map_congr_left
    intro o ho
    obtain ⟨j, hj, hjo⟩ := List.mem_iff_getElem.1 ho
    exact h j o (by rw [List.getElem?_eq_getElem hj, hjo]) (by omega)

theorem putL_getElem?_ne {α : Type} (l : List α) (i j : Nat) (x : α) (hij : j ≠ i) (hj : j < l.length) :
    (putL l i x)[j]? = l[j]? := by
  unfold putL
  split
  · rw [List.getElem?_set, if_neg (fun e => hij e.symm)]
  · rw [List.getElem?_append_left hj]

theorem putL_getElem?_self {α : Type} (l : List α) (i : Nat) (x : α) (hi : i ≤ l.length) : (putL l i x)[i]? = some x := by
  unfold putL
  split
  · next hlt => rw [List.getElem?_set_self hlt]
  · next hge =>
    have : i = l.length := by omega
    subst this
    simp

/-! ### The slots before the end marker when one slot is rewritten -/

/-- One slot of a directory is rewritten with a slot that is no end marker: either a slot before the end
marker, or the end marker itself (then everything behind it is blank). -/
theorem view_split {ss ss' pre post : List Slot} {old new : Slot} (hs : ss = pre ++ old :: post)
    (hs' : ss' = pre ++ new :: post) (hpre : ∀ x, x ∈ pre → first x ≠ 0) (hnew : first new ≠ 0)
    (hold : first old ≠ 0 ∨ (first old = 0 ∧ ∀ t, t ∈ post → first t = 0)) :
    beforeEnd ss' = putL (beforeEnd ss) pre.length new ∧
    (first old ≠ 0 → (beforeEnd ss)[pre.length]? = some old) ∧ (first old = 0 → beforeEnd ss = pre) := by
  rw [hs, hs', beforeEnd_append_nz pre _ hpre, beforeEnd_append_nz pre _ hpre, beforeEnd_cons_nz new post hnew]
  rcases hold with ho | ⟨ho, hz⟩
  · rw [beforeEnd_cons_nz old post ho]
    refine ⟨?_, fun _ => ?_, fun h => absurd h ho⟩
    · unfold putL
      rw [if_pos (by simp)]
      rw [List.set_append_right _ _ (Nat.le_refl _)]
      simp
    · simp
  · rw [beforeEnd_cons_z old post ho, beforeEnd_zeros post hz]
    refine ⟨?_, fun h => absurd ho h, fun _ => by simp⟩
    unfold putL
    rw [List.append_nil, if_neg (by omega)]

/-! ### The abstract directories -/

/-- The slots of directory `h` before the end marker. -/
def DirView (s : Mgr) (gh : Ghost) (h : Nat) : List Slot := beforeEnd (dirSlots gh.vol s.dev.disk gh.G h)

/-- The bytes of the files of a state. -/
def contOf (s : Mgr) (gh : Ghost) : Slot → Bytes := contentOf gh.vol s.dev.disk gh.G s.files

theorem absSlots_eq (s : Mgr) (gh : Ghost) (h : Nat) :
    absSlots s gh h = (DirView s gh h).map (absSlot gh.vol.fatType (contOf s gh)) := rfl

/-- **One slot of directory `h` changes** (position `idx` of its view: rewritten, or appended); every other
slot reads abstractly as before. -/
theorem slots_edit {s s' : Mgr} {gh gh' : Ghost} {a : AState} (hA : Abs s gh a) (hdirs : gh'.dirs = gh.dirs) {h idx : Nat}
    {new : Slot} (hh : h ∈ dirIds gh.dirs)
    (hview : DirView s' gh' h = putL (DirView s gh h) idx new)
    (hother : ∀ x, x ∈ dirIds gh.dirs → x ≠ h → DirView s' gh' x = DirView s gh x)
    (hcont : ∀ x, x ∈ dirIds gh.dirs → ∀ j o, (DirView s gh x)[j]? = some o → (x = h → j ≠ idx) →
      absSlot gh'.vol.fatType (contOf s' gh') o = absSlot gh.vol.fatType (contOf s gh) o) :
    ∀ x, x ∈ dirIds gh'.dirs →
      (Spec.AbsFs.setSlot a h idx (absSlot gh'.vol.fatType (contOf s' gh') new)).slots x = absSlots s' gh' x := by
  intro x hx
  rw [hdirs] at hx
  unfold Spec.AbsFs.setSlot
  simp only
  by_cases hxh : x = h
  · subst hxh
    rw [if_pos rfl, hA.slots x hx, absSlots_eq, absSlots_eq, hview, map_putL]
    exact (put_congr _ _ _ _ _ fun j o ho hj => hcont x hx j o ho (fun _ => hj)).symm
  · rw [if_neg hxh, hA.slots x hx, absSlots_eq, absSlots_eq, hother x hx hxh]
    apply List.map_congr_left
    intro o ho
    obtain ⟨j, hj, hjo⟩ := List.mem_iff_getElem.1 ho
    exact (hcont x hx j o (by rw [List.getElem?_eq_getElem hj, hjo]) (fun e => absurd e hxh)).symm

/-- The reference of an open file survives the edit: the slot at its index keeps its position. -/
theorem fileRel_edit {s s' : Mgr} {gh gh' : Ghost} {af : OpenFile} {f : FileInfo} (hrel : FileRel s gh af f)
    (hdirs : gh'.dirs = gh.dirs) {h idx : Nat} {new : Slot}
    (hview : DirView s' gh' h = putL (DirView s gh h) idx new)
    (hother : ∀ x, x ∈ dirIds gh.dirs → x ≠ h → DirView s' gh' x = DirView s gh x)
    (hpos : af.dir = h → af.idx = idx → spos new = fkey f) : FileRel s' gh' af f := by
  refine ⟨hrel.handle, hrel.volume, hrel.mode, hrel.pos, hrel.pm, hrel.dirty, by rw [hdirs]; exact hrel.dirMem, ?_⟩
  obtain ⟨o, ho, hp⟩ := hrel.slot
  show ∃ o, (DirView s' gh' af.dir)[af.idx]? = some o ∧ spos o = fkey f
  by_cases hd : af.dir = h
  · rw [hd, hview]
    rw [hd] at ho
    have hlt : af.idx < (DirView s gh h).length := (List.getElem?_eq_some_iff.1 ho).1
    by_cases hi : af.idx = idx
    · rw [hi, putL_getElem?_self _ _ _ (by omega)]
      exact ⟨new, rfl, hpos hd hi⟩
    · rw [putL_getElem?_ne _ _ _ _ hi hlt]
      exact ⟨o, ho, hp⟩
  · rw [hother af.dir hrel.dirMem hd]
    exact ⟨o, ho, hp⟩

/-! ### Directory blocks and file chains -/

section
variable {v : FatVolume} {d : Disk} {files : List FileInfo} {gh : Ghost} {X : List (List Nat)}

/-- A block holding a directory slot is no block of the chain a file object names. -/
theorem dirBlock_not_fileChain (hM : MedX v d files gh X) {h : Nat} (hh : h ∈ dirIds gh.dirs) {d0 : Disk} {s0 : Slot}
    (hs0 : s0 ∈ dirSlots v d0 gh.G h) {x : Nat} (hx : x ∈ dirIds gh.dirs) {o : Slot}
    (ho : o ∈ objects x (dirSlots v d gh.G x)) (hod : isDirE o = false) :
    ∀ c, c ∈ chainOf gh.G (effCluster v.fatType files o) → ∀ j, j < v.blocksPerCluster → clusterToBlock v c + j ≠ s0.1 := by
  intro c hc j hj e
  have hG := med_heads hM
  have hne : chainOf gh.G (effCluster v.fatType files o) ≠ [] := by intro h0; rw [h0] at hc; cases hc
  have hhead := (chainOf_ne_nil_iff hG).1 hne
  obtain ⟨hmem, hhd⟩ := chainOf_spec hG hhead
  have hcr : InRange v c := med_inRange hM hmem hc
  have he0 : effCluster v.fatType files o ≠ 0 := by
    intro h0
    apply hne
    rw [h0]; exact chainOf_lt_two hG (by decide)
  have hreg := FatLens.cluster_blocks_in_data_region v hM.geom c j hcr.1 hcr.2 hj
  by_cases hf : isFixedRoot v h
  · rw [dirSlots_fixed hf] at hs0
    have := fixedRootSlots_region hM.geom hf.2 hs0
    rw [← e, hreg] at this
    cases this
  · rw [dirSlots_chain hf] at hs0
    obtain ⟨hm, hhd'⟩ := dirChain_spec hM hh hf
    obtain ⟨c', hc', hle, hlt⟩ := chainSlots_block hs0
    have hc'r := med_inRange hM hm hc'
    have := FatLens.cluster_blocks_disjoint_of_lt v hM.geom c' c (s0.1 - clusterToBlock v c') j hc'r.1 hcr.1 hc'r.2 hcr.2
      (by omega) hj (by omega)
    have hcc : c' = c := this.1
    subst hcc
    refine med_disjoint hM (List.mem_append_left _ hmem) (List.mem_append_left _ hm) ?_ c' hc hc'
    rw [headD_of_head? hhd, headD_of_head? hhd']
    exact (dirHead_ne_fileRef hM hx ho hod he0 hh hf).symm

end

/-- The bytes of a file only depend on the blocks of its chain. -/
theorem fileContent_congr' (v : FatVolume) (d d' : Disk) (cs : List Nat) (n : Nat)
    (h : ∀ c, c ∈ cs → ∀ j, j < v.blocksPerCluster → d'.get (clusterToBlock v c + j) = d.get (clusterToBlock v c + j)) :
    fileContent v d' cs n = fileContent v d cs n := by
  unfold fileContent
  rw [WriteRefines.chainBytes_congr v d d' cs h]

/-! ### The stored entry, read back -/

theorem metaOf_serialize (ft : FatType) (e : DirEntry) (b off : Nat) (hname : e.name.length = 11) (hattr : e.attributes < 256)
    (hsize : e.size < 4294967296) (hcl : e.cluster < 4294967296) :
    metaOf ft (b, off, e.serialize ft) = storedMeta (view e) := by
  obtain ⟨_, h0, h11, h14, h16, _, h22, h24, _, h28⟩ := Reopen.serialize_layout ft e hname hattr hsize hcl
  unfold metaOf view storedMeta fatRound
  show (⟨(Listing.decode ft (b, off, e.serialize ft)).name, _, _, _, _⟩ : Meta) = _
  have hd : Listing.decode ft (b, off, e.serialize ft) =
      { name := (e.serialize ft).take 11
        mtime := Timestamp.fromFat (readU16 (e.serialize ft) 24) (readU16 (e.serialize ft) 22)
        ctime := Timestamp.fromFat (readU16 (e.serialize ft) 16) (readU16 (e.serialize ft) 14)
        attributes := byteAt (e.serialize ft) 11
        cluster := (Listing.decode ft (b, off, e.serialize ft)).cluster
        size := readU32 (e.serialize ft) 28
        entryBlock := b
        entryOffset := off } := by
    cases ft <;> rfl
  rw [hd]
  simp only
  rw [h0, h11, h14, h16, h22, h24, h28]

end Sdmmc.Lemmas.AbsFs
