/-
C11 under the invariant, part 1 — A FAULTED RUN IS A TRUNCATED FAULT-FREE RUN (FAT engine level).

`Pre m`: for every state `s` (any fault schedule), with `clr s` the same state without any fault scheduled:
* if no device call of `m s` failed, the run IS the run from `clr s` (outcome and state; erasure);
* if one failed, the outcome is `DeviceError`, the device writes of the run are a PREFIX of the device writes
  of the run from `clr s` (`Trace`: and the medium is the medium before with exactly these writes applied), and
  the cache is UNTAGGED.
So every crash-prefix theorem (`CrashAll P`) about the fault-free run says `P` of the medium the faulted run
leaves (`Pre.transfer`).

Proved compositionally (`Pre.bind`, `Pre.attempt_bind`, tactic `pre_auto`), like `FaultStrict` / `Agree`.
-/
import Sdmmc.Lemmas.RetryAgree
import Sdmmc.Lemmas.CrashBase

namespace Sdmmc.Lemmas.FaultPre
open Sdmmc.Model Sdmmc.Model.Fat Sdmmc.Spec Sdmmc.Lemmas.Fault Sdmmc.Lemmas.Retry Sdmmc.Lemmas.CrashBase

/-! ### Traces and the schedule -/

theorem Trace.refl (s : FS) : Trace s s [] := Trace.same rfl rfl

theorem trace_clr {s t : FS} {ws : List (Nat × Block)} (h : Trace s t ws) : Trace (clr s) (clr t) ws := ⟨h.wlog, h.disk⟩

/-- What a run in which a device call failed looks like next to the fault-free run from the same state: its writes
are a prefix of the fault-free run's, and THE CACHE IS UNTAGGED (a failed read clears the tag before it calls the
device; a failed write-back clears it afterwards). -/
structure Hit (s t t0 : FS) : Prop where
  stop : ∃ ws ws', Trace s t ws ∧ Trace (clr s) t0 (ws ++ ws') ∧ t.cache.tag = none

/-- **A faulted run is a truncated fault-free run.** -/
def Pre {α} (m : F α) : Prop :=
  ∀ s, (∃ ws, Trace s (m s).2 ws) ∧ s.dev.failed ≤ (m s).2.dev.failed ∧
    ((m s).2.dev.failed = s.dev.failed → m (clr s) = ((m s).1, clr (m s).2)) ∧
    ((m s).2.dev.failed ≠ s.dev.failed → (m s).1 = .err .DeviceError ∧ Hit s (m s).2 (m (clr s)).2)

theorem Pre.of_nodev {α} {m : F α} (h : ∀ s, (m s).2.dev = s.dev ∧ m (clr s) = ((m s).1, clr (m s).2)) : Pre m := by
  intro s
  obtain ⟨h1, h2⟩ := h s
  refine ⟨⟨[], Trace.same (by rw [h1]) (by rw [h1])⟩, by rw [h1]; exact Nat.le_refl _, fun _ => h2, fun hne => ?_⟩
  rw [h1] at hne
  exact absurd rfl hne

theorem Pre.pure {α} (a : α) : Pre (pure a : F α) := .of_nodev fun _ => ⟨rfl, rfl⟩
theorem Pre.lift {α} (r : Res α) : Pre (F.lift r) := .of_nodev fun _ => ⟨rfl, rfl⟩
theorem Pre.fail {α} (e : Err) : Pre (F.fail e : F α) := .of_nodev fun _ => ⟨rfl, rfl⟩
theorem Pre.panic {α} (msg : String) : Pre (F.panic msg : F α) := .of_nodev fun _ => ⟨rfl, rfl⟩
theorem Pre.diverge {α} : Pre (F.diverge : F α) := .of_nodev fun _ => ⟨rfl, rfl⟩
theorem Pre.getVol : Pre F.getVol := .of_nodev fun _ => ⟨rfl, rfl⟩
theorem Pre.setVol (v : FatVolume) : Pre (F.setVol v) := .of_nodev fun _ => ⟨rfl, rfl⟩
theorem Pre.modifyVol (f : FatVolume → FatVolume) : Pre (F.modifyVol f) := .of_nodev fun _ => ⟨rfl, rfl⟩
theorem Pre.cacheBlk : Pre cacheBlk := .of_nodev fun _ => ⟨rfl, rfl⟩
theorem Pre.cacheModify (f : Block → Block) : Pre (cacheModify f) := .of_nodev fun _ => ⟨rfl, rfl⟩
theorem Pre.blankMut (i : Nat) : Pre (blankMut i) := .of_nodev fun _ => ⟨rfl, rfl⟩

/-! ### The device -/

theorem Pre.cacheRead (idx : Nat) : Pre (cacheRead idx) := by
  intro s
  by_cases ht : s.cache.tag = some idx
  · have h0 : Model.cacheRead idx s = (.ok (), s) := by unfold Model.cacheRead; rw [if_pos ht]
    have h1 : Model.cacheRead idx (clr s) = (.ok (), clr s) := by
      unfold Model.cacheRead; rw [if_pos (show (clr s).cache.tag = some idx from ht)]
    rw [h0]
    exact ⟨⟨[], Trace.refl s⟩, Nat.le_refl _, fun _ => h1, fun h => absurd rfl h⟩
  · cases hf : s.dev.faults.contains s.dev.calls with
    | true =>
      have h1 : Model.cacheRead idx s = (.err .DeviceError, { s with
          dev := { s.dev with calls := s.dev.calls + 1, rlog := idx :: s.dev.rlog, failed := s.dev.failed + 1 },
          cache := { tag := none, blk := scribbleBlock } }) := by
        unfold Model.cacheRead Model.devRead; rw [if_neg ht]; simp only [hf]; rfl
      have h2 : Model.cacheRead idx (clr s) = (.ok (), { clr s with
          dev := { (clr s).dev with calls := s.dev.calls + 1, rlog := idx :: s.dev.rlog },
          cache := { tag := some idx, blk := s.dev.disk.get idx } }) := by
        unfold Model.cacheRead Model.devRead
        rw [if_neg (show ¬ (clr s).cache.tag = some idx from ht)]
        have : (clr s).dev.faults.contains (clr s).dev.calls = false := rfl
        simp only [this]; rfl
      rw [h1, h2]
      refine ⟨⟨[], Trace.same rfl rfl⟩, Nat.le_succ _, fun h => absurd h (by show s.dev.failed + 1 ≠ s.dev.failed; omega),
        fun _ => ⟨rfl, ⟨[], [], Trace.same rfl rfl, Trace.same rfl rfl, rfl⟩⟩⟩
    | false =>
      have h1 : Model.cacheRead idx s = (.ok (), { s with
          dev := { s.dev with calls := s.dev.calls + 1, rlog := idx :: s.dev.rlog },
          cache := { tag := some idx, blk := s.dev.disk.get idx } }) := by
        unfold Model.cacheRead Model.devRead; rw [if_neg ht]; simp only [hf]; rfl
      have h2 : Model.cacheRead idx (clr s) = (.ok (), { clr s with
          dev := { (clr s).dev with calls := s.dev.calls + 1, rlog := idx :: s.dev.rlog },
          cache := { tag := some idx, blk := s.dev.disk.get idx } }) := by
        unfold Model.cacheRead Model.devRead
        rw [if_neg (show ¬ (clr s).cache.tag = some idx from ht)]
        have : (clr s).dev.faults.contains (clr s).dev.calls = false := rfl
        simp only [this]; rfl
      rw [h1]
      exact ⟨⟨[], Trace.same rfl rfl⟩, Nat.le_refl _, fun _ => h2, fun h => absurd rfl h⟩

/-- One device write of the cached block to block `i`, from a state whose cache is tagged `tg`. -/
theorem devWrite_pre (i : Nat) (s : FS) :
    (s.dev.faults.contains s.dev.calls = false ∧
      devWrite i s = (.ok (), { s with dev := { s.dev with calls := s.dev.calls + 1, disk := s.dev.disk.set i s.cache.blk, wlog := (i, s.cache.blk) :: s.dev.wlog } })) ∨
    (s.dev.faults.contains s.dev.calls = true ∧
      devWrite i s = (.err .DeviceError, { s with dev := { s.dev with calls := s.dev.calls + 1, failed := s.dev.failed + 1 } })) := by
  cases hf : s.dev.faults.contains s.dev.calls
  · left; refine ⟨rfl, ?_⟩; unfold devWrite; simp only [hf]; rfl
  · right; refine ⟨rfl, ?_⟩; unfold devWrite; simp only [hf]; rfl

theorem devWrite_nofault (i : Nat) (u : FS) (h : u.dev.faults = []) :
    devWrite i u = (.ok (), { u with dev := { u.dev with calls := u.dev.calls + 1, disk := u.dev.disk.set i u.cache.blk, wlog := (i, u.cache.blk) :: u.dev.wlog } }) := by
  unfold devWrite
  have : u.dev.faults.contains u.dev.calls = false := by rw [h]; rfl
  simp only [this]; rfl

theorem devWrite_clr (i : Nat) (s : FS) :
    devWrite i (clr s) = (.ok (), { clr s with dev := { (clr s).dev with calls := s.dev.calls + 1, disk := s.dev.disk.set i s.cache.blk, wlog := (i, s.cache.blk) :: s.dev.wlog } }) :=
  devWrite_nofault i (clr s) rfl

theorem trace_one (s : FS) (i : Nat) (c : Nat) :
    Trace s { s with dev := { s.dev with calls := c, disk := s.dev.disk.set i s.cache.blk, wlog := (i, s.cache.blk) :: s.dev.wlog } }
      [(i, s.cache.blk)] := ⟨rfl, rfl⟩

/-- A write-back whose device write succeeds is that device write. -/
theorem writeBack_okW {s s1 : FS} {i : Nat} (h : s.cache.tag = some i) (h1 : devWrite i s = (.ok (), s1)) :
    writeBack s = (.ok (), s1) := by
  rw [Fault.writeBack_ok h (by rw [h1]), h1]
/-- … and one whose device write fails forgets the block. -/
theorem writeBack_errW {s s1 : FS} {i : Nat} (h : s.cache.tag = some i) (h1 : devWrite i s = (.err .DeviceError, s1)) :
    writeBack s = (.err .DeviceError, untag s1) := by
  rw [Fault.writeBack_fail h (by rw [h1]), h1]
theorem writeBackDup_okW {s s1 s2 : FS} {i : Nat} (dup : Nat) (h : s.cache.tag = some i) (h1 : devWrite i s = (.ok (), s1))
    (h2 : devWrite dup s1 = (.ok (), s2)) : writeBackWithDuplicate dup s = (.ok (), s2) := by
  rw [Fault.writeBackDup_ok_ok dup h (by rw [h1]) (by rw [h1, h2]), h1, h2]
theorem writeBackDup_ok_errW {s s1 s2 : FS} {i : Nat} (dup : Nat) (h : s.cache.tag = some i) (h1 : devWrite i s = (.ok (), s1))
    (h2 : devWrite dup s1 = (.err .DeviceError, s2)) : writeBackWithDuplicate dup s = (.err .DeviceError, untag s2) := by
  rw [Fault.writeBackDup_ok_fail dup h (by rw [h1]) (by rw [h1, h2]), h1, h2]
theorem writeBackDup_errW {s s1 : FS} {i : Nat} (dup : Nat) (h : s.cache.tag = some i) (h1 : devWrite i s = (.err .DeviceError, s1)) :
    writeBackWithDuplicate dup s = (.err .DeviceError, untag s1) := by
  rw [Fault.writeBackDup_fail dup h (by rw [h1]), h1]

theorem Pre.writeBack : Pre writeBack := by
  intro s
  cases ht : s.cache.tag with
  | none =>
    rw [writeBack_none ht, writeBack_none (show (clr s).cache.tag = none from ht)]
    exact ⟨⟨[], Trace.refl s⟩, Nat.le_refl _, fun _ => rfl, fun h => absurd rfl h⟩
  | some i =>
    rw [writeBack_okW (show (clr s).cache.tag = some i from ht) (devWrite_clr i s)]
    rcases devWrite_pre i s with ⟨_, h1⟩ | ⟨_, h1⟩
    · rw [writeBack_okW ht h1]
      exact ⟨⟨_, trace_one s i _⟩, Nat.le_refl _, fun _ => rfl, fun h => absurd rfl h⟩
    · rw [writeBack_errW ht h1]
      refine ⟨⟨[], Trace.same rfl rfl⟩, Nat.le_succ _, fun h => absurd h (by show s.dev.failed + 1 ≠ s.dev.failed; omega),
        fun _ => ⟨rfl, ⟨[], [(i, s.cache.blk)], Trace.same rfl rfl, trace_one (clr s) i _, rfl⟩⟩⟩

theorem Pre.writeBackWithDuplicate (dup : Nat) : Pre (writeBackWithDuplicate dup) := by
  intro s
  cases ht : s.cache.tag with
  | none =>
    rw [writeBackDup_none dup ht, writeBackDup_none dup (show (clr s).cache.tag = none from ht)]
    exact ⟨⟨[], Trace.refl s⟩, Nat.le_refl _, fun _ => rfl, fun h => absurd rfl h⟩
  | some i =>
    rw [writeBackDup_okW dup (show (clr s).cache.tag = some i from ht) (devWrite_clr i s) (devWrite_nofault dup _ rfl)]
    rcases devWrite_pre i s with ⟨_, h1⟩ | ⟨_, h1⟩
    · generalize hs1 : ({ s with dev := { s.dev with calls := s.dev.calls + 1, disk := s.dev.disk.set i s.cache.blk, wlog := (i, s.cache.blk) :: s.dev.wlog } } : FS) = s1 at h1
      have hc1 : s1.cache = s.cache := by rw [← hs1]
      rcases devWrite_pre dup s1 with ⟨_, h2⟩ | ⟨_, h2⟩
      · rw [writeBackDup_okW dup ht h1 h2]
        refine ⟨⟨[(i, s.cache.blk), (dup, s.cache.blk)], ?_⟩, by rw [← hs1]; exact Nat.le_refl _, fun _ => ?_, fun h => ?_⟩
        · rw [← hs1]; exact ⟨rfl, rfl⟩
        · rw [← hs1]; rfl
        · exfalso; apply h; rw [← hs1]
      · rw [writeBackDup_ok_errW dup ht h1 h2]
        refine ⟨⟨[(i, s.cache.blk)], ?_⟩, by rw [← hs1]; exact Nat.le_succ _, fun h => ?_, fun _ => ⟨rfl, ⟨[(i, s.cache.blk)], [(dup, s.cache.blk)], ?_, ?_, rfl⟩⟩⟩
        · rw [← hs1]; exact ⟨rfl, rfl⟩
        · exfalso; rw [← hs1] at h; simp only at h; omega
        · rw [← hs1]; exact ⟨rfl, rfl⟩
        · exact ⟨rfl, rfl⟩
    · rw [writeBackDup_errW dup ht h1]
      refine ⟨⟨[], Trace.same rfl rfl⟩, Nat.le_succ _, fun h => absurd h (by show s.dev.failed + 1 ≠ s.dev.failed; omega),
        fun _ => ⟨rfl, ⟨[], [(i, s.cache.blk), (dup, s.cache.blk)], Trace.same rfl rfl, ⟨rfl, rfl⟩, rfl⟩⟩⟩

/-! ### Sequencing -/

theorem getLast?_append_right {α} (l1 l2 : List α) {x : α} (h : l2.getLast? = some x) : (l1 ++ l2).getLast? = some x := by
  cases l2 with
  | nil => cases h
  | cons a l => rw [List.getLast?_append, h]; rfl

theorem head?_append_left {α} (l1 l2 : List α) {x : α} (h : l1.head? = some x) : (l1 ++ l2).head? = some x := by
  cases l1 with
  | nil => cases h
  | cons a l => exact h

theorem Pre.bind {α β} {m : F α} {f : α → F β} (hm : Pre m) (hf : ∀ a, Pre (f a)) : Pre (m >>= f) := by
  intro s
  obtain ⟨⟨ws1, ht1⟩, hle1, hag1, hhit1⟩ := hm s
  rcases hr : m s with ⟨r, s'⟩
  rw [hr] at ht1 hle1 hag1 hhit1
  simp only at ht1 hle1 hag1 hhit1
  by_cases hq : s'.dev.failed = s.dev.failed
  · -- nothing failed in `m`
    have hm0 := hag1 hq
    cases r with
    | ok a =>
      obtain ⟨⟨ws2, ht2⟩, hle2, hag2, hhit2⟩ := hf a s'
      rw [F.bind_ok hr, F.bind_ok hm0]
      refine ⟨⟨ws1 ++ ws2, ht1.trans ht2⟩, Nat.le_trans hle1 hle2, fun heq => hag2 (by omega), fun hne => ?_⟩
      obtain ⟨he, ⟨wa, wb, hta, htb, hca⟩⟩ := hhit2 (by omega)
      refine ⟨he, ⟨ws1 ++ wa, wb, ht1.trans hta, ?_, ?_⟩⟩
      · rw [List.append_assoc]; exact (trace_clr ht1).trans htb
      · exact hca
    | err e =>
      rw [F.bind_err hr, F.bind_err hm0]
      exact ⟨⟨ws1, ht1⟩, hle1, fun _ => rfl, fun hne => absurd hq hne⟩
    | panic msg =>
      rw [F.bind_panic hr, F.bind_panic hm0]
      exact ⟨⟨ws1, ht1⟩, hle1, fun _ => rfl, fun hne => absurd hq hne⟩
    | diverged =>
      rw [F.bind_diverged hr, F.bind_diverged hm0]
      exact ⟨⟨ws1, ht1⟩, hle1, fun _ => rfl, fun hne => absurd hq hne⟩
  · -- a device call of `m` failed
    obtain ⟨he, ⟨wa, wb, hta, htb, hca⟩⟩ := hhit1 hq
    subst he
    rw [F.bind_err hr]
    refine ⟨⟨ws1, ht1⟩, hle1, fun heq => absurd heq hq, fun _ => ⟨rfl, ?_⟩⟩
    -- the fault-free run goes on after `m`
    rcases hr0 : m (clr s) with ⟨r0, u0⟩
    rw [hr0] at htb
    simp only at htb
    cases r0 with
    | ok a =>
      obtain ⟨⟨ws2, ht2⟩, _⟩ := hf a u0
      rw [F.bind_ok hr0]
      refine ⟨wa, wb ++ ws2, hta, ?_, ?_⟩
      · rw [← List.append_assoc]; exact htb.trans ht2
      · exact hca
    | err e => rw [F.bind_err hr0]; exact ⟨wa, wb, hta, htb, hca⟩
    | panic msg => rw [F.bind_panic hr0]; exact ⟨wa, wb, hta, htb, hca⟩
    | diverged => rw [F.bind_diverged hr0]; exact ⟨wa, wb, hta, htb, hca⟩

/-- The `match`-on-the-outcome pattern: the arm taken for `DeviceError` hands the error on and touches nothing
(in `Fat.lean`: `other => F.lift other`). -/
theorem Pre.attempt_bind {α β} {m : F α} {k : Res α → F β} (hm : Pre m) (hk : ∀ r, Pre (k r))
    (hdev : ∀ s, k (.err .DeviceError) s = (.err .DeviceError, s)) : Pre (F.attempt m >>= k) := by
  intro s
  obtain ⟨⟨ws1, ht1⟩, hle1, hag1, hhit1⟩ := hm s
  rw [F.attempt_bind_apply, F.attempt_bind_apply]
  by_cases hq : (m s).2.dev.failed = s.dev.failed
  · have hm0 := hag1 hq
    obtain ⟨⟨ws2, ht2⟩, hle2, hag2, hhit2⟩ := hk (m s).1 (m s).2
    rw [hm0]
    refine ⟨⟨ws1 ++ ws2, ht1.trans ht2⟩, Nat.le_trans hle1 hle2, fun heq => hag2 (by omega), fun hne => ?_⟩
    obtain ⟨he, ⟨wa, wb, hta, htb, hca⟩⟩ := hhit2 (by omega)
    refine ⟨he, ⟨ws1 ++ wa, wb, ht1.trans hta, ?_, ?_⟩⟩
    · rw [List.append_assoc]; exact (trace_clr ht1).trans htb
    · exact hca
  · obtain ⟨he, ⟨wa, wb, hta, htb, hca⟩⟩ := hhit1 hq
    rw [he, hdev]
    refine ⟨⟨ws1, ht1⟩, hle1, fun heq => absurd heq hq, fun _ => ⟨rfl, ?_⟩⟩
    obtain ⟨⟨ws2, ht2⟩, _⟩ := hk (m (clr s)).1 (m (clr s)).2
    refine ⟨wa, wb ++ ws2, hta, ?_, ?_⟩
    · rw [← List.append_assoc]; exact htb.trans ht2
    · exact hca

/-! ### What it is for -/

/-- **Transfer.**  Whatever holds of every crash point of the fault-free run holds of the medium the run leaves
under ANY fault schedule. -/
theorem Pre.transfer {α} {m : F α} (hm : Pre m) (s : FS) {P : Disk → Prop} (h : CrashAll P (clr s) (m (clr s)).2) :
    P (m s).2.dev.disk := by
  obtain ⟨_, _, hag, hhit⟩ := hm s
  by_cases hq : (m s).2.dev.failed = s.dev.failed
  · have := h.final
    rw [hag hq] at this
    exact this
  · obtain ⟨_, ⟨wa, wb, hta, htb, _⟩⟩ := hhit hq
    obtain ⟨ws, ht, hp⟩ := h
    have hws : ws = wa ++ wb := by rw [← ht.newWrites, htb.newWrites]
    have := hp wa.length
    rw [hws, List.take_left' rfl] at this
    rw [hta.disk]
    exact this

/-- A faulted run writes nothing if the fault-free run writes nothing. -/
theorem Pre.nowrite {α} {m : F α} (hm : Pre m) (s : FS) (h : (m (clr s)).2.dev.wlog = s.dev.wlog)
    (hd : (m (clr s)).2.dev.disk = s.dev.disk) : (m s).2.dev.disk = s.dev.disk :=
  hm.transfer s (P := fun d => d = s.dev.disk) (CrashAll.same h hd rfl)

/-! ### Automation -/

/-- One step of decomposing a goal `Pre _`. -/
macro "pre_step" : tactic => `(tactic| first
  | with_reducible first
    | apply_hyp
    | exact Pre.pure _
    | exact Pre.lift _
    | exact Pre.fail _
    | exact Pre.panic _
    | exact Pre.diverge
    | exact Pre.getVol
    | exact Pre.setVol _
    | exact Pre.modifyVol _
    | exact Pre.cacheBlk
    | exact Pre.cacheModify _
    | exact Pre.blankMut _
    | exact Pre.cacheRead _
    | exact Pre.writeBack
    | exact Pre.writeBackWithDuplicate _
    | apply Pre.attempt_bind
    | apply Pre.bind
  | intro_pi
  | exact rfl
  | dsimp only
  | split)

macro "pre_auto" : tactic => `(tactic| repeat pre_step)

end Sdmmc.Lemmas.FaultPre
