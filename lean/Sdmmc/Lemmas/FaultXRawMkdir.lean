/-
C11, arbitrary fault placement — `EntryNotAhead` AS AN INVARIANT, part 5: `make_dir` under any schedule keeps `RawAllD`
(stage by stage, as `Lemmas/FaultXMkdir.makeDir_faulted`), and so does `make_dir_in_dir` (`mkdir_disk`).
-/
import Sdmmc.Lemmas.FaultXRawApi

namespace Sdmmc.Lemmas.FaultX
open Sdmmc.Model Sdmmc.Model.Fat Sdmmc.Spec.Volume Sdmmc.Lemmas.VolBase Sdmmc.Lemmas.VolTree
open Sdmmc.Spec hiding NoFault Coherent
open Sdmmc.Lemmas.VolDisk Sdmmc.Lemmas.VolMed Sdmmc.Lemmas.VolEng Sdmmc.Lemmas.VolX Sdmmc.Lemmas.VolApi
open Sdmmc.Lemmas.FBasic (NoFault Coherent)
open Sdmmc.Lemmas.CrashBase Sdmmc.Lemmas.Retry Sdmmc.Lemmas.FaultPre Sdmmc.Lemmas.FaultInv Sdmmc.Lemmas.FaultCoh Sdmmc.Lemmas.MHoare
open Sdmmc.Lemmas.Fault (Coh)

section
variable {files : List FileInfo} {gh : Ghost} {X : List (List Nat)}

/-- The entry in the parent and the clean-up, under any schedule. -/
theorem tail_raw {fs4 : FS} {c : Nat} (hM4 : MedX fs4.vol fs4.dev.disk files gh ([c] :: X))
    (hR4 : RawAllD fs4.vol.fatType fs4.dev.disk files) (hn4 : NoFault fs4)
    (hc4 : Coherent fs4) {dc : Nat} (hv : ValidDir gh.dirs dc) (sfn : Bytes) (hlen : sfn.length = 11) (att : Nat)
    (now : Timestamp) (L : List Nat) :
    RawAllD fs4.vol.fatType (mdTail dc sfn att now c (setFaults L fs4)).2.dev.disk files := by
  obtain ⟨hQ3, _⟩ := stage_pre (writeNewDirectoryEntry_pre dc sfn att c now) (Fault.writeNewDirectoryEntry_inv dc sfn att c now) hn4 L
    (writeNew_raw hM4 hR4 hn4 hc4 hv sfn hlen att c now)
  have hlen4 : LenInv (setFaults L fs4) := lenInv_of hM4.blocksOK hc4
  have hb3 := (writeNewDirectoryEntry_len dc sfn hlen att c now (setFaults L fs4) hlen4).1
  have hsg3 : SameGeom fs4.vol (writeNewDirectoryEntry dc sfn att c now (setFaults L fs4)).2.vol :=
    writeNewDirectoryEntry_geo dc sfn att c now (setFaults L fs4)
  have hh3 : HintOK (writeNewDirectoryEntry dc sfn att c now (setFaults L fs4)).2.vol :=
    writeNewDirectoryEntry_hk dc sfn att c now (setFaults L fs4) hM4.hint
  have hcoh3 : Coherent (writeNewDirectoryEntry dc sfn att c now (setFaults L fs4)).2 := by
    have hc0 : Coh (setFaults L fs4) := hc4
    obtain ⟨h1, h2⟩ := writeNewDirectoryEntry_coh dc sfn att c now (setFaults L fs4) hc0
    cases hr : (writeNewDirectoryEntry dc sfn att c now (setFaults L fs4)).1 with
    | ok a => exact h1 a hr
    | err e => exact h2 fun a ha => by rw [hr] at ha; cases ha
    | panic m => exact h2 fun a ha => by rw [hr] at ha; cases ha
    | diverged => exact h2 fun a ha => by rw [hr] at ha; cases ha
  have hfl3 : (writeNewDirectoryEntry dc sfn att c now (setFaults L fs4)).2.dev.faults = L :=
    Fault.writeNewDirectoryEntry_inv (R := FaultsSame) dc sfn att c now (setFaults L fs4)
  have hmxl : (∀ e, (writeNewDirectoryEntry dc sfn att c now (setFaults L fs4)).1 ≠ .ok e) →
      MXL c fs4.vol files gh.dirs (writeNewDirectoryEntry dc sfn att c now (setFaults L fs4)).2.dev.disk :=
    writeNew_err_mxl hM4 hn4 hc4 hv sfn att c now L
  rcases hw : writeNewDirectoryEntry dc sfn att c now (setFaults L fs4) with ⟨r, t3⟩
  rw [hw] at hQ3 hmxl hb3 hsg3 hh3 hcoh3 hfl3
  simp only at hQ3 hmxl hb3 hsg3 hh3 hcoh3 hfl3
  cases r with
  | ok e => rw [mdTail_ok dc sfn att now c (setFaults L fs4) t3 e hw]; exact hQ3
  | panic m =>
    have : (mdTail dc sfn att now c (setFaults L fs4)).2 = t3 := by
      unfold mdTail; rw [Fault.F.attempt_bind_apply, hw]; rfl
    rw [this]; exact hQ3
  | diverged =>
    have : (mdTail dc sfn att now c (setFaults L fs4)).2 = t3 := by
      unfold mdTail; rw [Fault.F.attempt_bind_apply, hw]; rfl
    rw [this]; exact hQ3
  | err e =>
    rw [mdTail_err dc sfn att now c (setFaults L fs4) t3 e hw]
    obtain ⟨G3, X3, hM3⟩ := hmxl (fun e' he' => by cases he') hb3
    have ht3 : t3 = setFaults L (clr t3) := by
      have := setFaults_clr t3
      rw [hfl3] at this; exact this.symm
    have hM5' := med_congr hM3 hsg3 hh3 hb3 (fun _ _ => rfl) (fun _ _ => rfl)
    have hM5 : MedX (clr t3).vol (clr t3).dev.disk files { vol := t3.vol, G := G3, dirs := gh.dirs } ([c] :: X3) :=
      ⟨hM5'.blocksOK, hM5'.geom, hM5'.hint, hM5'.owns, hM5'.tree, hM5'.fileOK⟩
    have hn5 : NoFault (clr t3) := rfl
    have hc5 : Coherent (clr t3) := hcoh3
    have hch : Chain (clr t3).vol (clr t3).dev.disk c [c] := by
      have := hM5.owns.1 [c] (List.mem_append_right _ List.mem_cons_self)
      simpa using this
    have hR5 : RawAllD (clr t3).vol.fatType (clr t3).dev.disk files := by
      have : (clr t3).vol.fatType = fs4.vol.fatType := hsg3.fatType
      rw [this]; exact hQ3
    obtain ⟨hQ6, _⟩ := stage_pre (freeClusterChain_pre c) (Fault.freeClusterChain_inv c) hn5 L (free_raw hM5 hR5 hn5 hc5 hch)
    rw [← ht3] at hQ6
    have : (clr t3).vol.fatType = fs4.vol.fatType := hsg3.fatType
    rw [this] at hQ6
    exact hQ6

/-- **`make_dir` under any schedule** keeps the entries of the open files not ahead of their records. -/
theorem makeDir_raw {fs : FS} (hM : MedX fs.vol fs.dev.disk files gh X) (hR : RawAllD fs.vol.fatType fs.dev.disk files)
    (hn : NoFault fs) (hc : Coherent fs) {dc : Nat} (hv : ValidDir gh.dirs dc) (sfn : Bytes) (hlen : sfn.length = 11)
    (now : Timestamp) (L : List Nat) :
    RawAllD fs.vol.fatType (makeDir dc sfn Gen.ATTR_DIRECTORY now (setFaults L fs)).2.dev.disk files := by
  show RawAllD fs.vol.fatType (makeDir dc sfn 16 now (setFaults L fs)).2.dev.disk files
  rw [makeDir_eq]
  obtain ⟨_, hfactsA⟩ := alloc_none_facts hM hn hc
  obtain ⟨hPA, hokA⟩ := stage_pre (allocCluster_pre none false) (Fault.allocCluster_inv none false) hn L
    (alloc_raw hM hR hn hc none false (fun p hp => by cases hp))
  rcases hal : allocCluster none false (setFaults L fs) with ⟨ra, t1⟩
  rw [hal] at hPA hokA
  simp only at hPA hokA
  cases ra with
  | err e => rw [Fault.F.bind_err hal]; exact hPA
  | panic m => rw [Fault.F.bind_panic hal]; exact hPA
  | diverged => rw [Fault.F.bind_diverged hal]; exact hPA
  | ok c =>
    obtain ⟨hrunA, ht1, _⟩ := hokA c rfl
    obtain ⟨hn1, hc1, hsg1, hh1, hMk, hcR, hcG⟩ := hfactsA c (clr t1) hrunA
    have hM1' := med_congr hMk hsg1 hh1 hMk.blocksOK (fun _ _ => rfl) (fun _ _ => rfl)
    have hM1 : MedX (clr t1).vol (clr t1).dev.disk files { vol := (clr t1).vol, G := gh.G, dirs := gh.dirs } ([c] :: X) :=
      ⟨hM1'.blocksOK, hM1'.geom, hM1'.hint, hM1'.owns, hM1'.tree, hM1'.fileOK⟩
    have hft1 : (clr t1).vol.fatType = fs.vol.fatType := hsg1.fatType
    have hR1 : RawAllD (clr t1).vol.fatType (clr t1).dev.disk files := by rw [hft1]; exact hPA
    rw [Fault.F.bind_ok hal, Fault.F.bind_ok (FBasic.getVol_apply t1)]
    obtain ⟨fs4, hrunB, hn4, hc4, hv4, hM4, _⟩ := mid_facts hM1 hn1 hc1 ((hsg1.inRange c).2 hcR) hcG dc 16 now
    obtain ⟨hPB, hokB⟩ := stage_pre (mdMid_pre (clr t1).vol c dc 16 now) (mdMid_faults (clr t1).vol c dc 16 now) hn1 L
      (mid_raw hM1 hR1 hn1 ((hsg1.inRange c).2 hcR) hcG dc 16 now)
    rw [← ht1] at hPB hokB
    have hvt1 : t1.vol = (clr t1).vol := rfl
    rw [hvt1]
    rcases hmid : mdMid (clr t1).vol c dc 16 now t1 with ⟨rb, t2⟩
    rw [hmid] at hPB hokB
    simp only at hPB hokB
    rw [hft1] at hPB
    cases rb with
    | err e => rw [Fault.F.bind_err hmid]; exact hPB
    | panic m => rw [Fault.F.bind_panic hmid]; exact hPB
    | diverged => rw [Fault.F.bind_diverged hmid]; exact hPB
    | ok u =>
      obtain ⟨hrunB2, ht2, _⟩ := hokB u rfl
      have e4 : fs4 = clr t2 := by rw [hrunB] at hrunB2; exact (Prod.mk.inj hrunB2).2
      subst e4
      rw [Fault.F.bind_ok hmid, ht2]
      have hM4' : MedX (clr t2).vol (clr t2).dev.disk files { vol := (clr t1).vol, G := gh.G, dirs := gh.dirs } ([c] :: X) := by
        rw [hv4]; exact hM4
      have hft4 : (clr t2).vol.fatType = fs.vol.fatType := by rw [hv4]; exact hft1
      have hR4 : RawAllD (clr t2).vol.fatType (clr t2).dev.disk files := by rw [hft4]; exact hPB
      have := tail_raw hM4' hR4 hn4 hc4 hv sfn hlen 16 now L
      rw [hft4] at this
      exact this

end

/-- `make_dir_in_dir` under any schedule. -/
theorem mkdir_disk {X : List (List Nat)} {s0 : Mgr} {gh : Ghost} (hI : VolInvX X s0 gh)
    (hR : RawAllD gh.vol.fatType s0.dev.disk s0.files) (L : List Nat) (directory : Nat)
    (name : List Nat) (hname : ∀ sfn, Sfn.createFromStr name = .ok sfn → sfn.head? ≠ some 0xE5) :
    RawAllD gh.vol.fatType (makeDirInDir directory name (withFaults L s0)).2.dev.disk s0.files := by
  have h0 : RawAllD gh.vol.fatType (withFaults L s0).dev.disk s0.files := hR
  unfold makeDirInDir
  rw [get_bind]
  by_cases hfull : (withFaults L s0).dirs.length ≥ (withFaults L s0).maxDirs
  · rw [if_pos hfull]; exact h0
  rw [if_neg hfull]
  cases hidx : s0.dirs.findIdx? (·.rawDirectory = directory) with
  | none => rw [bind_err (getDirById_bad (s := withFaults L s0) hidx)]; exact h0
  | some i =>
    obtain ⟨d, hdi, _⟩ := findIdx?_some_get hidx
    have hdm : d ∈ s0.dirs := List.mem_of_getElem? hdi
    rw [bind_ok (getDirById_ok (s := withFaults L s0) hidx), bind_ok (getDir_ok (s := withFaults L s0) hdi)]
    cases hv : s0.vols.findIdx? (·.rawVolume = d.rawVolume) with
    | none => rw [bind_err (getVolumeById_bad (s := withFaults L s0) hv)]; exact h0
    | some volIdx =>
      obtain ⟨hz, vi, hvs, hvol, hraw⟩ := VolX.vol_of_handle hI hv
      subst hz
      rw [bind_ok (getVolumeById_ok (s := withFaults L s0) hv)]
      cases hs : Sfn.createFromStr name with
      | error e => rw [bind_err (Modes.toSfn_err hs _)]; exact h0
      | ok sfn =>
        rw [bind_ok (Modes.toSfn_ok hs _), attempt_bind]
        have hdv := hI.openDirs d hdm
        obtain ⟨hn, hc, hM⟩ := VolX.volInv_fs hI
        obtain ⟨r, fs', hlk, hdisk, hvol', h1, hcase⟩ := VolX.lookup_found hI hvs hvol hdv sfn (hname sfn hs)
        have hinvL := lookup_disk hI hvs hvol L d.cluster sfn (Q := fun dk => RawAllD gh.vol.fatType dk s0.files) hR
        obtain ⟨_, _, _, hdich⟩ := withVol_faulted (findDirectoryEntry_pre d.cluster sfn)
          (Fault.findDirectoryEntry_inv d.cluster sfn) hn hvs hvol L
        rcases hdich with hq | he
        swap
        · rcases hrun : withVol 0 (Fat.findDirectoryEntry d.cluster sfn) (withFaults L s0) with ⟨r', s'⟩
          rw [hrun] at he hinvL
          simp only at he
          subst he
          exact hinvL
        rw [hlk] at hq
        rw [hq]
        set s1 := afterVol s0 vi fs' with hs1
        have hvs1 : s1.vols = [{ vi with vol := fs'.vol }] := rfl
        have hR1 : RawAllD gh.vol.fatType s1.dev.disk s1.files := by rw [hdisk]; exact hR
        have h01 : RawAllD gh.vol.fatType (withFaults L s1).dev.disk s0.files := hR1
        rcases hcase with ⟨hr, hfresh⟩ | ⟨e, o, hr, hF⟩
        · subst hr
          show RawAllD gh.vol.fatType
            (withVol 0 (Fat.makeDir d.cluster sfn Gen.ATTR_DIRECTORY (withFaults L s0).clock) (withFaults L s1)).2.dev.disk s0.files
          obtain ⟨hlen, _⟩ := VolSfn.sfn_facts hs
          obtain ⟨hn1, hc1, hM1⟩ := VolX.volInv_fs h1
          have hw := withVol_one (Fat.makeDir d.cluster sfn Gen.ATTR_DIRECTORY (withFaults L s0).clock)
            (s := withFaults L s1) (gh := gh) hvs1 hvol'
          rw [fsOf_withFaults] at hw
          rw [hw]
          exact makeDir_raw hM1 hR1 hn1 hc1 hdv sfn hlen (withFaults L s0).clock L
        · subst hr
          by_cases hdir : Attr.isDirectory e.attributes = true
          · simp only [hdir, if_true]; exact h01
          · simp only [hdir]; exact h01

end Sdmmc.Lemmas.FaultX
