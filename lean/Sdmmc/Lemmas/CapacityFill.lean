/-
Capacity (C05, second sentence), part 4 — one `write` judged by the free space of the volume
(`write_step`: it succeeds exactly when the clusters it needs are free, and otherwise uses up all
free clusters and stores exactly the bytes that fit), reading back what a write — complete or not —
reported as stored (`write_readback`), and the invariant a sequence of writes to one file maintains
(`WReady`).
-/
import Sdmmc.Lemmas.CapacityWrite
import Sdmmc.Lemmas.WriteRefinesFrame

namespace Sdmmc.Lemmas.Capacity
open Sdmmc.Model Sdmmc.Model.Fat Sdmmc.Spec
open Sdmmc.Lemmas.FBasic hiding NoFault Coherent
open Sdmmc.Lemmas.FatOps hiding BlocksOK Mirror HintOK
open Sdmmc.Lemmas.ChainL Sdmmc.Lemmas.ForestBase Sdmmc.Lemmas.ForestOwns Sdmmc.Lemmas.ReadRefines
open Sdmmc.Lemmas.WriteRefines

/-- "No data cluster is free" is "the number of free clusters is zero". -/
theorem full_iff_freeCount_zero (v : FatVolume) (d : Disk) : Full v d ↔ freeCount v d = 0 := by
  unfold Full freeCount
  rw [List.countP_eq_zero]
  constructor
  · intro h c hc
    have hcE := List.mem_range.1 hc
    simp only [decide_eq_true_eq]
    intro hh
    exact h c ⟨hh.1, hcE⟩ hh.2
  · intro h c hc hf
    have := h c (List.mem_range.2 hc.2)
    simp only [decide_eq_true_eq] at this
    exact this ⟨hc.1, hf⟩

/-- Everything `write h …` needs of a state: `h` is an open, writable file (slot `i`, record `f`,
chain `cs`) of an open volume (slot `vi`, record `v`), consistent with the medium, and `cs` together
with `A`, `B` are the chains of the volume.  (The hypotheses of `Props.C01Write.write_refines`.) -/
structure WReady (s : Mgr) (h i vi : Nat) (f : FileInfo) (v : VolInfo) (cs : List Nat) (A B : List (List Nat)) : Prop where
  ok : MOK s
  hh : s.files.findIdx? (·.rawFile = h) = some i
  hf : s.files[i]? = some f
  hv : s.vols.findIdx? (·.rawVolume = f.rawVolume) = some vi
  hvi : s.vols[vi]? = some v
  mode : f.mode ≠ .ReadOnly
  geom : WFGeom v.vol
  hint : HintOK v.vol
  fileOK : FileOK v.vol s.dev.disk f cs
  cur : cs = [] → f.curCluster < 2
  owns : Owns v.vol s.dev.disk (withChain A cs B)

/-- The clusters a file with `n0` clusters needs to hold `total` bytes: at least one (the model
gives an empty file its first cluster before it looks at the buffer), never fewer than it has. -/
def needed (n0 total cb : Nat) : Nat := max (max n0 1) (cdiv total cb)

/-- **One write, judged by the free space.**  `F` free clusters, a file of `cs.length` clusters
written at offset `o` with `data` (below `MAX_FILE_SIZE`).  Let `need = needed cs.length
(o + data.length) cb`.

* If `need - cs.length ≤ F` the call answers `Ok`, stores everything, the chain has exactly `need`
  clusters and exactly `need - cs.length` clusters fewer are free.
* Otherwise it answers `DiskFull` — or `NotEnoughSpace` when the file has no cluster and none is
  free — the chain has got ALL `F` free clusters, none is free any more, and exactly the
  `(cs.length + F) * cb - o` bytes that fit were stored.

Either way the state is ready for the next call (`WReady`), the byte-array view is the model's
write of what was stored, offset and size are the model's. -/
theorem write_step (s : Mgr) (h i vi : Nat) (data : Bytes) (f : FileInfo) (v : VolInfo) (cs : List Nat)
    (A B : List (List Nat)) (hr : WReady s h i vi f v cs A B)
    (hmax : f.currentOffset + data.length ≤ Gen.MAX_FILE_SIZE) :
    ∃ k r s' f' v' cs', Model.write h data s = (r, s') ∧ WReady s' h i vi f' v' cs' A B ∧
      SameGeom v.vol v'.vol ∧ cs <+: cs' ∧
      absFile v'.vol s'.dev.disk f' cs' = (absFile v.vol s.dev.disk f cs).write (data.take k) ∧
      f'.currentOffset = f.currentOffset + k ∧ f'.entry.size = max f.entry.size (f.currentOffset + k) ∧
      ((needed cs.length (f.currentOffset + data.length) (clusterBytesLen v.vol) - cs.length ≤ freeCount v.vol s.dev.disk ∧
          r = .ok () ∧ k = data.length ∧
          cs'.length = needed cs.length (f.currentOffset + data.length) (clusterBytesLen v.vol) ∧
          freeCount v'.vol s'.dev.disk + (cs'.length - cs.length) = freeCount v.vol s.dev.disk) ∨
       (freeCount v.vol s.dev.disk < needed cs.length (f.currentOffset + data.length) (clusterBytesLen v.vol) - cs.length ∧
          ((r = .err .DiskFull ∧ cs' ≠ []) ∨ (r = .err .NotEnoughSpace ∧ cs = [] ∧ cs' = [])) ∧
          k < data.length + (if cs' = [] then 1 else 0) ∧
          cs'.length = cs.length + freeCount v.vol s.dev.disk ∧ freeCount v'.vol s'.dev.disk = 0 ∧
          f.currentOffset + k = (cs.length + freeCount v.vol s.dev.disk) * clusterBytesLen v.vol)) := by
  obtain ⟨k, r, s', f', v', cs', hrun, hk, hres, heq, hvid, hsg, habs, hok', hcur', hpre, hown', hs', hhint', hg', _, hwf,
    hfc, hlen, hdf⟩ :=
    write_count s h i vi data f v cs A B hr.ok hr.hh hr.hf hr.hv hr.hvi hr.mode hr.geom hr.hint hr.fileOK hr.cur hr.owns hmax
  have hilt : i < s.files.length := (List.getElem?_eq_some_iff.1 hr.hf).1
  have hvilt : vi < s.vols.length := (List.getElem?_eq_some_iff.1 hr.hvi).1
  have hfiles : s'.files = s.files.set i f' := by rw [heq]
  have hvols : s'.vols = s.vols.set vi v' := by rw [heq]
  have hraw : f'.rawFile = f.rawFile := by unfold WriteFile at hwf; rw [hwf]
  have hrv : f'.rawVolume = f.rawVolume := by unfold WriteFile at hwf; rw [hwf]
  have hmd : f'.mode = f.mode := by unfold WriteFile at hwf; rw [hwf]
  have hoff : f'.currentOffset = f.currentOffset + k := by unfold WriteFile at hwf; rw [hwf]
  have hsize : f'.entry.size = max f.entry.size (f.currentOffset + k) := by unfold WriteFile at hwf; rw [hwf]
  have hvraw : v'.rawVolume = v.rawVolume := by rw [hvid]
  have hready' : WReady s' h i vi f' v' cs' A B := by
    refine ⟨hs', ?_, ?_, ?_, ?_, by rw [hmd]; exact hr.mode, hg', hhint', hok', hcur', hown'⟩
    · rw [hfiles, findIdx?_set_same _ s.files i f f' hr.hf (by simp only [hraw])]; exact hr.hh
    · rw [hfiles]; exact List.getElem?_set_self hilt
    · rw [hvols, hrv, findIdx?_set_same _ s.vols vi v v' hr.hvi (by simp only [hvraw])]; exact hr.hv
    · rw [hvols]; exact List.getElem?_set_self hvilt
  have hcb : 0 < clusterBytesLen v.vol := Nat.mul_pos hr.geom.bpc_pos (by omega)
  have hl : cs.length ≤ cs'.length := hpre.length_le
  refine ⟨k, r, s', f', v', cs', hrun, hready', hsg, hpre, habs, hoff, hsize, ?_⟩
  rcases hres with ⟨hr1, hk1⟩ | ⟨hr1, hk1, hne, hfull⟩ | ⟨hr1, hk1, hnil, hfull⟩
  · -- everything stored
    left
    have hlen' := hlen (by rw [hr1]; intro e; cases e)
    rw [hk1] at hlen'
    refine ⟨?_, hr1, hk1, hlen', by omega⟩
    show needed _ _ _ - _ ≤ _
    unfold needed
    omega
  · -- the volume ran full
    right
    have hfull' : Full v'.vol s'.dev.disk := by
      rcases hfull with h1 | h1
      · exact h1
      · omega
    have hz : freeCount v'.vol s'.dev.disk = 0 := (full_iff_freeCount_zero _ _).1 hfull'
    have hoffk := hdf hr1
    have hlenF : cs'.length = cs.length + freeCount v.vol s.dev.disk := by omega
    refine ⟨?_, .inl ⟨hr1, hne⟩, by rw [if_neg hne]; omega, hlenF, hz, by rw [← hlenF]; exact hoffk⟩
    -- more clusters were needed than were free
    have h1 : cs'.length + 1 ≤ cdiv (f.currentOffset + data.length) (clusterBytesLen v.vol) := by
      apply le_cdiv hcb
      rw [Nat.add_mul, Nat.one_mul, ← hoffk]
      omega
    show _ < needed _ _ _ - _
    unfold needed
    omega
  · -- not even the first cluster
    right
    subst hnil
    have hcsnil : cs = [] := List.prefix_nil.1 hpre
    subst hcsnil
    have hz : freeCount v'.vol s'.dev.disk = 0 := (full_iff_freeCount_zero _ _).1 hfull
    have hF : freeCount v.vol s.dev.disk = 0 := by rw [hfc, hz]; rfl
    have hoff0 : f.currentOffset = 0 := by
      rcases hr.fileOK.chain with ⟨_, _, h3⟩ | h3
      · have := hr.fileOK.pos_le; omega
      · exact absurd rfl (chain_ne_nil h3)
    refine ⟨?_, .inr ⟨hr1, rfl, rfl⟩, by rw [if_pos rfl]; omega, by rw [hF]; rfl, hz, by rw [hF, hoff0, hk1]; simp⟩
    rw [hF]
    show 0 < needed _ _ _ - _
    unfold needed
    simp only [List.length_nil]
    omega

/-- **Read-back of a ready file.**  Seek to any position `p` inside the file, read `n` bytes: the
engine answers the bytes of the byte-array view from `p` on (at most `n`, at most to the end). -/
theorem ready_readback (s : Mgr) (h i vi : Nat) (f : FileInfo) (v : VolInfo) (cs : List Nat)
    (A B : List (List Nat)) (hr : WReady s h i vi f v cs A B) (p n : Nat)
    (hp : p ≤ (absFile v.vol s.dev.disk f cs).bytes.length) :
    ∃ s2 s3, fileSeekFromStart h p s = (.ok (), s2) ∧
      Model.read h n s2 = (.ok (((absFile v.vol s.dev.disk f cs).bytes.drop p).take n), s3) := by
  have hlen : (absFile v.vol s.dev.disk f cs).bytes.length = f.entry.size :=
    fileContent_length _ _ _ _ hr.ok.2.2.1 hr.fileOK.size_fits
  have hp' : p ≤ f.entry.size := by rw [← hlen]; exact hp
  have hseek := Files.file_seek_start_spec h p i f s (MHoare.getFileById_ok hr.hh) (MHoare.getFile_ok hr.hf)
  rw [if_pos hp'] at hseek
  generalize hf2 : ({ f with currentOffset := p } : FileInfo) = f2 at hseek
  generalize hs2 : ({ s with files := s.files.set i f2 } : Mgr) = s2 at hseek
  have hi1 : i < s.files.length := (List.getElem?_eq_some_iff.1 hr.hf).1
  have hok2 : FileOK v.vol s2.dev.disk f2 cs := by
    rw [← hs2, ← hf2]
    exact ⟨hr.fileOK.chain, hr.fileOK.size_fits, hp', hr.fileOK.cursor⟩
  obtain ⟨s3, f3, hread, _⟩ := read_refines s2 h n i vi f2 v cs (by rw [← hs2]; exact hr.ok)
    (by rw [← hs2]
        show (s.files.set i f2).findIdx? _ = _
        rw [findIdx?_set_same _ s.files i f f2 hr.hf (by rw [← hf2])]; exact hr.hh)
    (by rw [← hs2]; exact List.getElem?_set_self hi1)
    (by rw [← hs2, ← hf2]; exact hr.hv) (by rw [← hs2]; exact hr.hvi) hr.geom hok2
  refine ⟨s2, s3, hseek, ?_⟩
  rw [hread, absFile_read_fst]
  have : fileContent v.vol s2.dev.disk cs f2.entry.size = (absFile v.vol s.dev.disk f cs).bytes := by
    rw [← hs2, ← hf2]; rfl
  rw [this, ← hf2]

/-- **Everything reported as written is readable** — after a `write`, complete or not: seek to any
position `p` of the file and `read`: the engine returns the window `[p, p + n)` of the byte array the
model holds after writing the `k` bytes the call reported as stored. -/
theorem write_readback (s : Mgr) (h i vi : Nat) (data : Bytes) (f : FileInfo) (v : VolInfo) (cs : List Nat)
    (A B : List (List Nat)) (hr : WReady s h i vi f v cs A B)
    (hmax : f.currentOffset + data.length ≤ Gen.MAX_FILE_SIZE) :
    ∃ k r s', Model.write h data s = (r, s') ∧ k ≤ data.length ∧
      ∀ p n, p ≤ ((absFile v.vol s.dev.disk f cs).write (data.take k)).bytes.length →
        ∃ s2 s3, fileSeekFromStart h p s' = (.ok (), s2) ∧
          Model.read h n s2 =
            (.ok ((((absFile v.vol s.dev.disk f cs).write (data.take k)).bytes.drop p).take n), s3) := by
  obtain ⟨k2, r2, s2', f2', v2', cs2', hrun2, hr', _, _, habs2, hoff2, _⟩ := write_step s h i vi data f v cs A B hr hmax
  -- the two descriptions are of the same run; use the second one throughout
  refine ⟨k2, r2, s2', hrun2, ?_, ?_⟩
  · have := hr'.fileOK.pos_le
    have h1 : (data.take k2).length = min k2 data.length := List.length_take
    -- k2 ≤ data.length follows from the position arithmetic of the byte-array model
    have hpos : (absFile v2'.vol s2'.dev.disk f2' cs2').pos = f.currentOffset + (data.take k2).length := by
      rw [habs2]; rfl
    have hpos' : (absFile v2'.vol s2'.dev.disk f2' cs2').pos = f.currentOffset + k2 := hoff2
    rw [hpos', h1] at hpos
    omega
  · intro p n hp
    have hbytes : (absFile v2'.vol s2'.dev.disk f2' cs2').bytes =
        ((absFile v.vol s.dev.disk f cs).write (data.take k2)).bytes := by rw [habs2]
    rw [← hbytes] at hp ⊢
    exact ready_readback s2' h i vi f2' v2' cs2' A B hr' p n hp

/-- What a `write` leaves of the directory-entry bookkeeping of the open-file record: the slot
(block, offset) and the name are those of before, and the record is dirty. -/
theorem write_entry_frame (s : Mgr) (h i vi : Nat) (data : Bytes) (f : FileInfo) (v : VolInfo) (cs : List Nat)
    (A B : List (List Nat)) (hr : WReady s h i vi f v cs A B)
    (hmax : f.currentOffset + data.length ≤ Gen.MAX_FILE_SIZE) (f' : FileInfo)
    (hf' : (Model.write h data s).2.files[i]? = some f') :
    f'.dirty = true ∧ f'.entry.entryBlock = f.entry.entryBlock ∧ f'.entry.entryOffset = f.entry.entryOffset ∧
      f'.entry.name = f.entry.name ∧ (Model.write h data s).2.dirs = s.dirs ∧ f'.rawVolume = f.rawVolume := by
  obtain ⟨k, r, s', f'', v', cs', hrun, _, _, heq, _, _, _, _, _, _, _, _, _, _, _, hwf, _⟩ :=
    write_count s h i vi data f v cs A B hr.ok hr.hh hr.hf hr.hv hr.hvi hr.mode hr.geom hr.hint hr.fileOK hr.cur hr.owns hmax
  have hilt : i < s.files.length := (List.getElem?_eq_some_iff.1 hr.hf).1
  rw [hrun] at hf' ⊢
  have hfiles : s'.files = s.files.set i f'' := by rw [heq]
  have hdirs : s'.dirs = s.dirs := by rw [heq]
  simp only at hf'
  rw [hfiles, List.getElem?_set_self hilt] at hf'
  cases hf'
  unfold WriteFile at hwf
  refine ⟨by rw [hwf], by rw [hwf], by rw [hwf], by rw [hwf], hdirs, by rw [hwf]⟩

end Sdmmc.Lemmas.Capacity
