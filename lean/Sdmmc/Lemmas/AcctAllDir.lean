/-
C16 over all calls, part 4 — `open_file_in_dir` (every mode, every outcome) and `delete_file_in_dir`
keep the balance.
-/
import Sdmmc.Lemmas.AcctAllStep
import Sdmmc.Lemmas.CycleTrunc
import Sdmmc.Lemmas.CycleCreate

namespace Sdmmc.Lemmas.AcctAll
open Sdmmc.Model Sdmmc.Model.Fat Sdmmc.Spec.Volume Sdmmc.Lemmas.VolBase Sdmmc.Lemmas.VolTree
open Sdmmc.Spec hiding NoFault Coherent
open Sdmmc.Lemmas.VolDisk Sdmmc.Lemmas.VolMed Sdmmc.Lemmas.VolEng Sdmmc.Lemmas.VolApi
open Sdmmc.Lemmas.MHoare
open Sdmmc.Lemmas.Acct (Acct)

/-- The common prologue of the directory calls, for any property of the state that holds at the start. -/
theorem dirPrologue_P {α : Type} (P : Mgr → Prop) (directory : Nat) (name : List Nat) (k : DirInfo → Nat → Bytes → M α)
    {s : Mgr} (hP : P s)
    (hk : ∀ d volIdx sfn, d ∈ s.dirs → s.vols.findIdx? (·.rawVolume = d.rawVolume) = some volIdx →
      Sfn.createFromStr name = .ok sfn → P (k d volIdx sfn s).2) :
    P ((getDirById directory >>= fun dirIdx => getDir dirIdx >>= fun d =>
      getVolumeById d.rawVolume >>= fun volIdx => toSfn name >>= fun sfn => k d volIdx sfn) s).2 := by
  cases hidx : s.dirs.findIdx? (·.rawDirectory = directory) with
  | none => rw [bind_err (getDirById_bad hidx)]; exact hP
  | some i =>
    obtain ⟨d, hd, _⟩ := findIdx?_some_get hidx
    rw [bind_ok (getDirById_ok hidx), bind_ok (getDir_ok hd)]
    cases hv : s.vols.findIdx? (·.rawVolume = d.rawVolume) with
    | none => rw [bind_err (getVolumeById_bad hv)]; exact hP
    | some volIdx =>
      rw [bind_ok (getVolumeById_ok hv)]
      unfold toSfn
      cases hs : Sfn.createFromStr name with
      | ok sfn => exact hk d volIdx sfn (List.mem_of_getElem? hd) hv hs
      | error e => exact hP

/-- The balance of the one open volume, read off the state. -/
theorem bal_of_countOK {s : Mgr} {gh : Ghost} {vi : VolInfo} (hvs : s.vols = [vi]) (hvol : vi.vol = gh.vol) {δ : Int}
    (h : CountOK δ s) : Bal δ gh.vol s.dev.disk := by
  rw [← hvol]
  exact h vi (by rw [hvs]; exact List.mem_singleton.2 rfl)

/-- A change of the tables other than the volume table. -/
theorem countOK_tables {s : Mgr} {δ : Int} (h : CountOK δ s) (files : List FileInfo) (dirs : List DirInfo) (nid : Nat) :
    CountOK δ { s with files := files, dirs := dirs, nextId := nid } := h

/-! ### `open_file_in_dir` -/

theorem createRun_countOK {s : Mgr} {gh : Ghost} (hI : VolInv s gh) {vi : VolInfo} (hvs : s.vols = [vi]) (hvol : vi.vol = gh.vol)
    {d : DirInfo} (hdv : ValidDir gh.dirs d.cluster) (hraw : vi.rawVolume = d.rawVolume) (sfn : Bytes)
    (hlen : sfn.length = 11) (h0 : byteAt sfn 0 ≠ 0) (hE5 : byteAt sfn 0 ≠ 0xE5)
    (hfresh : sfn ∉ (entries (dirSlots gh.vol s.dev.disk gh.G (dirIdOf d.cluster))).map sName) (now : Timestamp)
    {δ : Int} (hd : DeltaOK gh.vol δ) (h : CountOK δ s) : CountOK δ (Modes.createRun d sfn now s).2 := by
  unfold Modes.createRun
  have hv0 : s.vols.findIdx? (·.rawVolume = d.rawVolume) = some 0 := by rw [hvs]; simp [hraw]
  rw [bind_ok (getVolumeById_ok hv0)]
  obtain ⟨hn, hc, hM⟩ := volInv_fs hI
  obtain ⟨r, fs', hrun, _, _, hcase⟩ := Cycle.create_file_count hM hn hc hdv sfn hlen h0 hE5 hfresh now
  have hw := withVol_one (Fat.writeNewDirectoryEntry d.cluster sfn 0 Gen.CLUSTER_EMPTY now) hvs hvol
  have hrun' : Fat.writeNewDirectoryEntry d.cluster sfn 0 Gen.CLUSTER_EMPTY now (fsOf s gh) = (r, fs') := hrun
  rw [hrun'] at hw
  have hb := bal_of_countOK hvs hvol h
  rcases hcase with ⟨hr, hd', hv', _⟩ | ⟨e, G1, pre, post, old, hr, hsg, _, _, _, _, _, _, _, _, _, _, hcase2⟩
  · subst hr
    rw [bind_err hw]
    apply countOK_afterVol
    rw [hd', hv']
    exact hb
  · subst hr
    rw [bind_ok hw, generate_bind, modify_bind]
    have hbal : Bal δ fs'.vol fs'.dev.disk := by
      rcases hcase2 with ⟨_, _, _, _, _, hacct⟩ | ⟨_, _, _, _, _, _, hacct⟩
      · exact bal_of_acct hsg hacct hd hb
      · exact bal_of_acct hsg hacct hd hb
    exact countOK_afterVol (s := s) (vi := vi) hbal

theorem openFile_countOK {s : Mgr} {gh : Ghost} (hI : VolInv s gh) (directory : Nat) (name : List Nat) (mode : Mode)
    (hname : ∀ sfn, Sfn.createFromStr name = .ok sfn → sfn.head? ≠ some 0xE5) {δ : Int} (hd : DeltaOK gh.vol δ)
    (h : CountOK δ s) : CountOK δ (openFileInDir directory name mode s).2 := by
  rw [Modes.openFileInDir_eq]
  unfold Modes.openFileInDirAlt
  rw [get_bind]
  by_cases hroom : s.files.length ≥ s.maxFiles
  · rw [if_pos hroom]; exact h
  rw [if_neg hroom]
  refine dirPrologue_P (CountOK δ) directory name _ h fun d volIdx sfn hdm hv hsfn => ?_
  obtain ⟨h0, vi, hvs, hvol, hraw⟩ := vol_of_handle hI hv
  subst h0
  have hdv := hI.openDirs d hdm
  rw [attempt_bind]
  obtain ⟨r, fs', hlk, hdisk, hvol', h1, hcase⟩ := lookup_found hI hvs hvol hdv sfn (hname sfn hsfn)
  rw [hlk]
  show CountOK δ (Modes.openFileTail d 0 sfn mode r (afterVol s vi fs')).2
  have hvs1 : (afterVol s vi fs').vols = [{ vi with vol := fs'.vol }] := rfl
  have hraw1 : ({ vi with vol := fs'.vol } : VolInfo).rawVolume = d.rawVolume := hraw
  have hb := bal_of_countOK hvs hvol h
  have hc1 : CountOK δ (afterVol s vi fs') := by
    apply countOK_afterVol
    rw [hvol']
    have hd' : fs'.dev.disk = s.dev.disk := hdisk
    rw [hd']; exact hb
  rcases hcase with ⟨hr, hfresh⟩ | ⟨e, o, hr, hF⟩
  · subst hr
    by_cases hm : mode = .ReadWriteCreate ∨ mode = .ReadWriteCreateOrTruncate ∨ mode = .ReadWriteCreateOrAppend
    · rw [Modes.tail_create_eq d 0 sfn _ mode hm]
      obtain ⟨hlen, hn0⟩ := VolSfn.sfn_facts hsfn
      refine createRun_countOK h1 hvs1 hvol' hdv hraw1 sfn hlen hn0 (VolSfn.sfn_first_ne_e5 (hname sfn hsfn)) ?_ _ hd hc1
      rw [hdisk]; exact hfresh
    · have hm' : mode = .ReadOnly ∨ mode = .ReadWriteAppend ∨ mode = .ReadWriteTruncate := by
        cases mode <;> simp at hm ⊢
      rw [Modes.tail_notFound d 0 sfn _ mode hm']
      exact hc1
  · subst hr
    by_cases hopen : fileIsOpen (afterVol s vi fs') d.rawVolume e = true
    · rw [Modes.tail_open d 0 sfn _ mode e hopen]; exact hc1
    have hopen' : fileIsOpen (afterVol s vi fs') d.rawVolume e = false := by simpa using hopen
    by_cases hcreate : mode = .ReadWriteCreate
    · subst hcreate
      rw [Modes.tail_exists d 0 sfn _ e hopen']; exact hc1
    by_cases hro : Attr.isReadOnly e.attributes = true ∧ mode ≠ .ReadOnly
    · rw [Modes.tail_readOnlyAttr d 0 sfn _ mode e hopen' hcreate hro.2 hro.1]; exact hc1
    have hro' : Attr.isReadOnly e.attributes = false ∨ mode = .ReadOnly := by
      by_cases h' : mode = .ReadOnly
      · exact .inr h'
      · left
        by_cases h2 : Attr.isReadOnly e.attributes = true
        · exact absurd ⟨h2, h'⟩ hro
        · simpa using h2
    by_cases hdir : Attr.isDirectory e.attributes = true
    · rw [Modes.tail_dirAsFile d 0 sfn _ mode e hopen' hcreate hro' hdir]; exact hc1
    have hdir' : Attr.isDirectory e.attributes = false := by simpa using hdir
    have htrunc : ∀ m, (m = .ReadWriteTruncate ∨ m = .ReadWriteCreateOrTruncate) → mode = m →
        CountOK δ (Modes.openFileTail d 0 sfn mode (.ok e) (afterVol s vi fs')).2 := by
      intro m hm hmm
      subst hmm
      have hron : Attr.isReadOnly e.attributes = false := hro'.elim id (fun h' => by rcases hm with h2 | h2 <;> rw [h2] at h' <;> cases h')
      rw [Modes.tail_truncate_eq d 0 sfn _ mode hm e hopen' hron hdir']
      have h1' : VolInv { afterVol s vi fs' with nextId := ((afterVol s vi fs').nextId + 1) % 4294967296 } gh :=
        volInv_ro h1 rfl h1.noFault h1.coherent rfl rfl rfl rfl h1.openDirs
      obtain ⟨s', vi', hrun', hvs', hgave'⟩ := Cycle.truncRun_gave h1' hvs1 hvol' hdv hraw1 ⟨hF.mem, hF.name, hF.dec⟩ hdir' hopen'
        (afterVol s vi fs').nextId (afterVol s vi fs').clock
      rw [hrun']
      intro vi'' hvi''
      rw [hvs'] at hvi''
      rw [List.mem_singleton.1 hvi'']
      -- SameGeom from the invariant
      obtain ⟨gh', hI', hsg'⟩ := truncRun_inv h1' hvs1 hvol' hdv hraw1 ⟨hF.mem, hF.name, hF.dec⟩ hdir' hopen'
        (afterVol s vi fs').nextId (afterVol s vi fs').clock
      rw [hrun'] at hI'
      have hvv : vi'.vol = gh'.vol := by
        rcases hI'.vols with h0 | ⟨x, hx, hxv⟩
        · rw [hvs'] at h0; cases h0
        · rw [hvs'] at hx; cases hx; exact hxv
      have hd1 : ({ afterVol s vi fs' with nextId := ((afterVol s vi fs').nextId + 1) % 4294967296 } : Mgr).dev.disk = s.dev.disk := hdisk
      rw [hd1] at hgave'
      exact bal_of_gave (by rw [hvv]; exact hsg') hgave' hd hb
    cases mode with
    | ReadOnly =>
      rw [Modes.tail_readOnly d 0 sfn _ e hopen' hdir']
      exact hc1
    | ReadWriteCreate => exact absurd rfl hcreate
    | ReadWriteAppend =>
      have hron : Attr.isReadOnly e.attributes = false := hro'.elim id (fun h' => by cases h')
      rw [Modes.tail_append d 0 sfn _ .ReadWriteAppend e (.inl rfl) hopen' hron hdir']
      exact hc1
    | ReadWriteCreateOrAppend =>
      have hron : Attr.isReadOnly e.attributes = false := hro'.elim id (fun h' => by cases h')
      rw [Modes.tail_append d 0 sfn _ .ReadWriteCreateOrAppend e (.inr rfl) hopen' hron hdir']
      exact hc1
    | ReadWriteTruncate => exact htrunc _ (.inl rfl) rfl
    | ReadWriteCreateOrTruncate => exact htrunc _ (.inr rfl) rfl

/-! ### `delete_file_in_dir` -/

theorem delete_countOK {s : Mgr} {gh : Ghost} (hI : VolInv s gh) (directory : Nat) (name : List Nat)
    (hname : ∀ sfn, Sfn.createFromStr name = .ok sfn → sfn.head? ≠ some 0xE5) {δ : Int} (hd : DeltaOK gh.vol δ)
    (h : CountOK δ s) : CountOK δ (deleteFileInDir directory name s).2 := by
  unfold deleteFileInDir
  refine dirPrologue_P (CountOK δ) directory name _ h fun d volIdx sfn hdm hv hsfn => ?_
  obtain ⟨h0, vi, hvs, hvol, hraw⟩ := vol_of_handle hI hv
  subst h0
  have hdv := hI.openDirs d hdm
  obtain ⟨r, fs', hlk, hdisk, hvol', h1, hcase⟩ := lookup_found hI hvs hvol hdv sfn (hname sfn hsfn)
  rw [bind_def, hlk]
  have hb := bal_of_countOK hvs hvol h
  have hc1 : CountOK δ (afterVol s vi fs') := by
    apply countOK_afterVol
    rw [hvol']
    have hd' : fs'.dev.disk = s.dev.disk := hdisk
    rw [hd']; exact hb
  rcases hcase with ⟨hr, _⟩ | ⟨e, o, hr, hF⟩
  · subst hr; exact hc1
  subst hr
  simp only
  by_cases hdir : Attr.isDirectory e.attributes = true
  · rw [if_pos hdir]; exact hc1
  rw [if_neg hdir, get_bind]
  by_cases hopen : fileIsOpen (afterVol s vi fs') d.rawVolume e = true
  · rw [if_pos hopen]; exact hc1
  rw [if_neg hopen]
  have hdir' : Attr.isDirectory e.attributes = false := by simpa using hdir
  have hopen' : fileIsOpen (afterVol s vi fs') d.rawVolume e = false := by simpa using hopen
  have hvs1 : (afterVol s vi fs').vols = [{ vi with vol := fs'.vol }] := rfl
  have hraw1 : ({ vi with vol := fs'.vol } : VolInfo).rawVolume = d.rawVolume := hraw
  obtain ⟨ho, hod, hfree⟩ := hF.object h1 hvs1 hdv hraw1 hdir' hopen'
  obtain ⟨_, _, _, _, _, hnd⟩ := hF.fields
  obtain ⟨_, hcl⟩ := hnd hdir'
  have hv1 : (afterVol s vi fs').vols.findIdx? (·.rawVolume = d.rawVolume) = some 0 := by
    rw [hvs1]; simp [hraw]
  rw [bind_ok (getVolumeById_ok hv1), withVol_one _ hvs1 hvol']
  obtain ⟨hn1, hcc1, hM1⟩ := volInv_fs h1
  obtain ⟨fs2, G', k, pre, post, hrun2, _, _, hsg2, _, hgave, _⟩ :=
    Cycle.delete_med_x hM1 hn1 hcc1 hdv sfn (hname sfn hsfn) ho hod hF.name hfree
  rw [hcl]
  have hrun2' : (do Fat.deleteDirectoryEntry d.cluster sfn; Fat.freeClusterChain (sCluster gh.vol.fatType o) : F Unit)
      (fsOf (afterVol s vi fs') gh) = (.ok (), fs2) := hrun2
  rw [hrun2']
  apply countOK_afterVol
  have hdisk1 : (fsOf (afterVol s vi fs') gh).dev.disk = s.dev.disk := hdisk
  rw [hdisk1] at hgave
  exact bal_of_gave hsg2 hgave hd hb

end Sdmmc.Lemmas.AcctAll
