/-
C16 over all calls, part 5 — `make_dir(parent, name, DIRECTORY)` keeps the balance (`makeDir_bal`),
whatever it answers: the allocation of the new directory's cluster (−1), possibly the growth of the parent
(−1), and on the clean-up path the cluster given back (+1).  The proof is the proof of
`Lemmas.VolEng.makeDir_med` with the accounting carried along; `mkdir_countOK` is the API call.
-/
import Sdmmc.Lemmas.VolApiMkdir3
import Sdmmc.Lemmas.VolApiMkdir
import Sdmmc.Lemmas.AcctAllDir

namespace Sdmmc.Lemmas.AcctAll
open Sdmmc.Model Sdmmc.Model.Fat Sdmmc.Spec.Volume Sdmmc.Lemmas.VolBase Sdmmc.Lemmas.VolTree
open Sdmmc.Spec hiding NoFault Coherent
open Sdmmc.Lemmas.VolDisk Sdmmc.Lemmas.VolMed Sdmmc.Lemmas.VolWalk Sdmmc.Lemmas.VolEng
open Sdmmc.Lemmas.FBasic
open Sdmmc.Lemmas.FatOps hiding BlocksOK Mirror HintOK
open Sdmmc.Lemmas.Acct (Acct)

section
variable {files : List FileInfo}

theorem makeDir_bal {gh : Ghost} {fs : FS} (hM : MedX fs.vol fs.dev.disk files gh []) (hn : NoFault fs) (hc : Coherent fs)
    {dc : Nat} (hv : ValidDir gh.dirs dc) (sfn : Bytes) (hlen : sfn.length = 11) (h0 : byteAt sfn 0 ≠ 0)
    (hE5 : byteAt sfn 0 ≠ 0xE5)
    (hfresh : sfn ∉ (entries (dirSlots fs.vol fs.dev.disk gh.G (dirIdOf dc))).map sName) (now : Timestamp) :
    ∃ r fs', makeDir dc sfn Gen.ATTR_DIRECTORY now fs = (r, fs') ∧ NoFault fs' ∧ Coherent fs' ∧ SameGeom fs.vol fs'.vol ∧
      (∃ gh', gh'.vol = fs'.vol ∧ MedX fs'.vol fs'.dev.disk files gh' [] ∧
        (∀ c, ValidDir gh.dirs c → ValidDir gh'.dirs c)) ∧
      (∀ δ : Int, DeltaOK fs.vol δ → Bal δ fs.vol fs.dev.disk → Bal δ fs'.vol fs'.dev.disk) := by
  show ∃ r fs', makeDir dc sfn 16 now fs = (r, fs') ∧ _
  rcases ForestAlloc.alloc_total fs none false hn hc with ⟨c, fs1, ha⟩ | ⟨s', ha, hd, hv', hn', hc'⟩
  swap
  · -- the volume is full: nothing happened
    refine ⟨.err .NotEnoughSpace, s', ?_, hn', hc', SameGeom.of_eq hv', ⟨{ gh with vol := s'.vol }, rfl, ?_, fun _ h => h⟩, ?_⟩
    · unfold makeDir; rw [bind_err ha]
    · rw [hd, hv']; exact medX_of_ghost hM rfl rfl
    · intro δ _ hb
      rw [hd, hv']; exact hb
  -- 1. the allocation
  have hr : Ready fs := ⟨hn, hc, hM.blocksOK, hM.geom, hM.hint⟩
  have ho : Owns fs.vol fs.dev.disk gh.G := by have := hM.owns; rwa [List.append_nil] at this
  have hG := med_heads hM
  obtain ⟨hr1, ho1, hsg, _, _⟩ := ForestStep.owns_newChain fs fs1 gh.G false c hr ho ha
  obtain ⟨hcR, _, _, hcG', _⟩ := ForestFinal.alloc_never_returns_used fs fs1 none false c hn hc hM.hint ha
  have hcG : c ∉ gh.G.flatten := hcG' _ ho
  have hpp : ∀ p, (none : Option Nat) = some p → p < endCluster fs.vol := fun p hp => by cases hp
  obtain ⟨hk1, hk2⟩ := alloc_keeps_blocks hn hc hM.blocksOK hM.geom hM.hint hpp ha
  have hblocks1 := dir_blocks_keep hM hcG hk1 hk2
  have hmemOf : ∀ (f : FileInfo) (Y : List (List Nat)),
      chainOf gh.G f.entry.cluster = [] ∨ chainOf gh.G f.entry.cluster ∈ gh.G ++ Y := by
    intro f Y
    by_cases hnil : chainOf gh.G f.entry.cluster = []
    · exact .inl hnil
    · exact .inr (List.mem_append_left _ (chainOf_spec hG ((chainOf_ne_nil_iff hG).1 hnil)).1)
  have hM1 : MedX fs1.vol fs1.dev.disk files { vol := fs1.vol, G := gh.G, dirs := gh.dirs } [[c]] :=
    medX_fat_update hM hsg hr1.hint hr1.blocksOK (G' := gh.G) (X' := [[c]]) ho1 (fun _ _ _ => rfl) hblocks1 rfl hM.tree
      (fun f hf => ⟨fileOK_of_owns hsg (hM.fileOK f hf).1 ho1 (hmemOf f _), (hM.fileOK f hf).2⟩)
  have hsl1 : ∀ h, h ∈ dirIds gh.dirs → dirSlots fs1.vol fs1.dev.disk gh.G h = dirSlots fs.vol fs.dev.disk gh.G h := by
    intro h hh
    rw [dirSlots_sameGeom hsg]
    exact dirSlots_congr (hblocks1 h hh)
  have hcR1 : InRange fs1.vol c := (hsg.inRange c).2 hcR
  have hA1 : Acct fs.vol fs1.vol fs.dev.disk fs1.dev.disk 1 :=
    Acct.alloc_acct fs fs1 none false c hn hc hM.blocksOK hM.geom hM.hint (fun p hp => by cases hp) ha
  -- 2. the blocks of the new cluster
  obtain ⟨fs4, hn4, hc4, hv4, hd4, hsteps⟩ := makeDir_steps dc sfn 16 now ha hr1.noFault
  have hpos : 0 < fs1.vol.blocksPerCluster := hr1.geom.bpc_pos
  have hb4 : BlocksOK fs4.dev.disk := by
    intro i
    rw [hd4 i]
    split
    · exact zeroBlock_length
    · split
      · exact (DirMake.dirBlock_facts _ _ _ _ _ _).1
      · exact hr1.blocksOK i
  have hsame4 : ∀ i, (∀ j, j < fs1.vol.blocksPerCluster → i ≠ clusterToBlock fs1.vol c + j) →
      fs4.dev.disk.get i = fs1.dev.disk.get i := by
    intro i hi
    rw [hd4 i, if_neg, if_neg]
    · intro e
      exact hi 0 hpos (by omega)
    · rintro ⟨h1, h2⟩
      exact hi (i - clusterToBlock fs1.vol c) (by omega) (by omega)
  obtain ⟨hM4', hsl4⟩ := medX_cluster_write hM1 hcR1 hcG hb4 hsame4
  have hM4 : MedX fs4.vol fs4.dev.disk files { vol := fs1.vol, G := gh.G, dirs := gh.dirs } [[c]] := by
    rw [hv4]; exact hM4'
  have hA4 : Acct fs1.vol fs4.vol fs1.dev.disk fs4.dev.disk 0 := by
    rw [hv4]
    refine Acct.acct_of_fat_eq fun b hb => hsame4 b fun j hj e => ?_
    have h1 := WriteRefines.isFatBlock_region hr1.geom hb
    have h2 := WriteRefines.isClusterBlock_region hr1.geom (cs := [c])
      (fun x hx => by rw [List.mem_singleton.1 hx]; exact hcR1) (b := b)
      ⟨c, List.mem_singleton.2 rfl, by omega, by omega⟩
    rw [h1] at h2; cases h2
  have hbal4 : ∀ δ : Int, DeltaOK fs.vol δ → Bal δ fs.vol fs.dev.disk → Bal δ fs4.vol fs4.dev.disk := by
    intro δ hdl hb
    exact bal_of_acct (SameGeom.of_eq hv4) hA4 (deltaOK_sameGeom hsg hdl) (bal_of_acct hsg hA1 hdl hb)
  have hsg4 : SameGeom fs.vol fs4.vol := hsg.trans (SameGeom.of_eq hv4)
  have hB0 : fs4.dev.disk.get (clusterToBlock fs1.vol c) =
      DirMake.dirBlock fs1.vol.fatType c dc 16 now (clusterToBlock fs1.vol c) := by
    rw [hd4, if_neg (by omega), if_pos rfl]
  have hBz : ∀ i, i < fs1.vol.blocksPerCluster - 1 → fs4.dev.disk.get (clusterToBlock fs1.vol c + 1 + i) = zeroBlock := by
    intro i hi
    rw [hd4, if_pos ⟨by omega, by omega⟩]
  -- 3. the entry in the parent
  obtain ⟨hh, _⟩ := validDir_id hM hv
  obtain ⟨r, fs5, hrun, hn5, hc5, hcase⟩ :=
    Cycle.writeNew_count hM4 hn4 hc4 (show ValidDir ({ vol := fs1.vol, G := gh.G, dirs := gh.dirs } : Ghost).dirs dc from hv) sfn 16 c now
  obtain ⟨hok, herr⟩ := hsteps r fs5 hrun
  rcases hcase with ⟨hre, hd5, hv5, _⟩ | ⟨v1, d1, G1, pre, post, old, hS, hre, hd', hnsc⟩
  · -- no room for the entry: the cluster is given back
    have hM5 : MedX fs5.vol fs5.dev.disk files { vol := fs1.vol, G := gh.G, dirs := gh.dirs } [[c]] := by
      rw [hd5, hv5]; exact hM4
    have hr5 : Ready fs5 := ⟨hn5, hc5, hM5.blocksOK, hM5.geom, hM5.hint⟩
    have ho5 : Owns fs5.vol fs5.dev.disk (gh.G ++ [c :: []] ++ []) := by rw [List.append_nil]; exact hM5.owns
    obtain ⟨s6, hf, hr6, ho6, hsg6, _, _⟩ := ForestStep.owns_free fs5 gh.G [] c [] hr5 ho5
    have hch : Chain fs5.vol fs5.dev.disk c [c] :=
      hM5.owns.1 [c] (List.mem_append_right _ (List.mem_singleton.2 rfl))
    obtain ⟨s6', hf', _, _, _, _, _, hfr⟩ := ForestTrunc.free_spec fs5 c [] hn5 hc5 hM5.blocksOK hM5.geom hch
    have hs6 : s6' = s6 := by
      rw [hf] at hf'
      exact (congrArg Prod.snd hf').symm
    subst hs6
    have ho6' : Owns s6'.vol s6'.dev.disk (gh.G ++ []) := by
      have := ho6
      rwa [List.append_nil] at this
    have hM6 : MedX s6'.vol s6'.dev.disk files { vol := s6'.vol, G := gh.G, dirs := gh.dirs } [] :=
      medX_fat_update hM5 hsg6 hr6.hint hr6.blocksOK (G' := gh.G) (X' := []) ho6' (fun _ _ _ => rfl)
        (fun h hh' s hs => hfr.nonFat _ (by
          rcases dirSlot_not_fat hM5 hh' hs with h1 | h1 <;> rw [h1] <;> intro e <;> cases e))
        rfl hM5.tree
        (fun f hf => ⟨fileOK_of_owns hsg6 (hM5.fileOK f hf).1 ho6' (hmemOf f _), (hM5.fileOK f hf).2⟩)
    refine ⟨.err .NotEnoughSpace, s6', ?_, hr6.noFault, hr6.coherent,
      hsg.trans ((SameGeom.of_eq (hv5.trans hv4)).trans hsg6), ⟨_, rfl, hM6, fun _ h => h⟩, ?_⟩
    · rw [herr _ hre, hf]
    · intro δ hdl hb
      obtain ⟨s7, hf7, hgave7, _⟩ := free_gave fs5 c [c] hn5 hc5 hM5.blocksOK hM5.geom hch
        (fun y hy => (ForestBase.chain_mem_used hch y hy).2.1)
      have hs7 : s7 = s6' := by
        rw [hf] at hf7
        exact (congrArg Prod.snd hf7).symm
      subst hs7
      have hb5 : Bal δ fs5.vol fs5.dev.disk := by rw [hd5, hv5]; exact hbal4 δ hdl hb
      exact bal_of_gave hsg6 hgave7 (deltaOK_sameGeom (hsg4.trans (SameGeom.of_eq hv5)) hdl) hb5
  · -- the entry is written
    have hsgS := hS.sameGeom
    have hctb : clusterToBlock v1 c = clusterToBlock fs1.vol c := by
      rw [WriteRefines.sameGeom_clusterToBlock hsgS, hv4]
    have hbpc : v1.blocksPerCluster = fs1.vol.blocksPerCluster := by rw [WriteRefines.sameGeom_bpc hsgS, hv4]
    have hft : v1.fatType = fs1.vol.fatType := by rw [hsgS.fatType, hv4]
    have hextra : ∀ j, j < fs1.vol.blocksPerCluster →
        d1.get (clusterToBlock fs1.vol c + j) = fs4.dev.disk.get (clusterToBlock fs1.vol c + j) := by
      intro j hj
      have := hS.extra_blocks c j hcR1.1 (by rw [hv4]; exact hcR1.2)
        ⟨[c], List.mem_append_right _ (List.mem_singleton.2 rfl), List.mem_singleton.2 rfl⟩ (by rw [hv4]; exact hj)
      rw [hv4] at this
      exact this
    have hfresh1 : sfn ∉ (entries (dirSlots v1 d1 G1 (dirIdOf dc))).map sName := by
      rw [hS.entries_eq _ hh, hv4, hsl4 _ hh, hsl1 _ hh]
      exact hfresh
    have hfin := mkdir_finish hS.med hv hS.split hS.pre_nz hS.pre_len hS.free sfn hlen h0 hE5 hfresh1 now
      (by
        rw [hctb, hft]
        have := hextra 0 hpos
        rw [Nat.add_zero] at this
        rw [this, hB0])
      (by
        intro i hi
        rw [hbpc] at hi
        rw [hctb]
        have := hextra (1 + i) (by omega)
        rw [← Nat.add_assoc] at this
        rw [this, hBz i hi])
    refine ⟨.ok (), fs5, ?_, hn5, hc5, hsg.trans ((SameGeom.of_eq hv4).trans (hsgS.trans (SameGeom.of_eq hS.vol'))), ⟨{ vol := v1, G := G1 ++ [[c]], dirs := gh.dirs ++ [(c, dirIdOf dc)] }, hS.vol'.symm,
      ?_, fun _ h => validDir_mono h⟩, ?_⟩
    · exact hok _ hre
    · rw [hS.vol', hd']; exact hfin
    · intro δ hdl hb
      have hb4 := hbal4 δ hdl hb
      have hdl4 : DeltaOK fs4.vol δ := deltaOK_sameGeom hsg4 hdl
      have hb1 : Bal δ v1 d1 := by
        rcases hnsc with ⟨_, e1, e2, _⟩ | ⟨_, _, c', _, _, hacct, _⟩
        · rw [e1, e2]; exact hb4
        · exact bal_of_acct hsgS hacct hdl4 hb4
      have hold_mem : old ∈ dirSlots v1 d1 G1 (dirIdOf dc) := by rw [hS.split]; simp
      have hA5 : Acct v1 v1 d1 fs5.dev.disk 0 := by
        rw [hd']
        exact Acct.acct_of_fat_eq (Cycle.slot_write_fat hS.med hh hold_mem _)
      rw [hS.vol']
      exact bal_of_acct (SameGeom.refl _) hA5 (deltaOK_sameGeom hsgS hdl4) hb1

end

open Sdmmc.Lemmas.VolApi Sdmmc.Lemmas.MHoare in
/-- **`make_dir_in_dir`** keeps the balance, whatever it answers. -/
theorem mkdir_countOK {s : Mgr} {gh : Ghost} (hI : VolInv s gh) (directory : Nat) (name : List Nat)
    (hname : ∀ sfn, Sfn.createFromStr name = .ok sfn → sfn.head? ≠ some 0xE5) {δ : Int} (hd : DeltaOK gh.vol δ)
    (h : CountOK δ s) : CountOK δ (makeDirInDir directory name s).2 := by
  unfold makeDirInDir
  rw [get_bind]
  by_cases hfull : s.dirs.length ≥ s.maxDirs
  · rw [if_pos hfull]; exact h
  rw [if_neg hfull]
  refine dirPrologue_P (CountOK δ) directory name _ h fun parent volIdx sfn hpm hv hsfn => ?_
  obtain ⟨h0, vi, hvs, hvol, hraw⟩ := vol_of_handle hI hv
  subst h0
  have hpv := hI.openDirs parent hpm
  rw [attempt_bind]
  obtain ⟨r, fs', hlk, hdisk, hvol', h1, hcase⟩ := lookup_found hI hvs hvol hpv sfn (hname sfn hsfn)
  rw [hlk]
  simp only
  have hb := bal_of_countOK hvs hvol h
  have hc1 : CountOK δ (afterVol s vi fs') := by
    apply countOK_afterVol
    rw [hvol']
    have hd' : fs'.dev.disk = s.dev.disk := hdisk
    rw [hd']; exact hb
  rcases hcase with ⟨hr, hfresh⟩ | ⟨e, o, hr, _⟩
  · subst hr
    simp only
    have hvs1 : (afterVol s vi fs').vols = [{ vi with vol := fs'.vol }] := rfl
    obtain ⟨hn1, hcc1, hM1⟩ := volInv_fs h1
    have hfresh1 : sfn ∉ (entries (dirSlots (fsOf (afterVol s vi fs') gh).vol (fsOf (afterVol s vi fs') gh).dev.disk gh.G
        (dirIdOf parent.cluster))).map sName := by
      show sfn ∉ (entries (dirSlots gh.vol (afterVol s vi fs').dev.disk gh.G (dirIdOf parent.cluster))).map sName
      rw [hdisk]; exact hfresh
    obtain ⟨r2, fs2, hrun2, _, _, _, _, hbal⟩ :=
      makeDir_bal hM1 hn1 hcc1 hpv sfn (sfn_length hsfn) (sfn_first_nz hsfn) (VolApi.first_ne_E5 (hname sfn hsfn)) hfresh1 s.clock
    rw [withVol_one _ hvs1 hvol', hrun2]
    apply countOK_afterVol
    have hb1 : Bal δ (fsOf (afterVol s vi fs') gh).vol (fsOf (afterVol s vi fs') gh).dev.disk := by
      show Bal δ gh.vol (afterVol s vi fs').dev.disk
      rw [hdisk]; exact hb
    exact hbal δ hd hb1
  · subst hr
    simp only
    by_cases hdir : Attr.isDirectory e.attributes = true
    · simp only [hdir, if_true]; exact hc1
    · simp only [hdir]; exact hc1


end Sdmmc.Lemmas.AcctAll
