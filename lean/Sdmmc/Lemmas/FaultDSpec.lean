/-
ROUTE (D) — the vocabulary of `Spec/VolumeSlack.lean` against the one of the proofs (`VolInvS k s gh X ↔ VolInvD k X (mclr s) gh`,
`InvFE`), the side condition `NotDamagedOpen` is VOID under the invariant without slack (`notDamaged_of_zero`), and an
executable checker for it (`notDamagedB`, sound).
-/
import Sdmmc.Lemmas.FaultDTruncRun
import Sdmmc.Lemmas.FaultDUse
import Sdmmc.Lemmas.FaultXSpec
import Sdmmc.Lemmas.VolCheck
import Sdmmc.Lemmas.FaultHistCheck

namespace Sdmmc.Lemmas.VolD
open Sdmmc.Lemmas.FaultX
open Sdmmc.Lemmas.FaultHist Sdmmc.Lemmas.VolX
open Sdmmc.Model Sdmmc.Model.Fat Sdmmc.Spec.Volume
open Sdmmc.Spec hiding NoFault Coherent
open Sdmmc.Lemmas.VolApi Sdmmc.Lemmas.MHoare Sdmmc.Lemmas.FaultInv Sdmmc.Lemmas.Retry Sdmmc.Lemmas.VolMed Sdmmc.Lemmas.VolTree
open Sdmmc.Lemmas.VolCheck (chainB chainB_sound)

variable {sk : Nat} {X : List (List Nat)}

theorem medSlack_iff {v : FatVolume} {d : Disk} {files : List FileInfo} {gh : Ghost} :
    MedSlack sk v d files gh X ↔ MedD sk v d files gh X :=
  ⟨fun h => ⟨h.blocksOK, h.geom, h.hint, h.owns, h.tree, h.fileOK⟩, fun h => ⟨h.blocksOK, h.geom, h.hint, h.owns, h.tree, h.fileOK⟩⟩

theorem volInvS_iff {s : Mgr} {gh : Ghost} : VolInvS sk s gh X ↔ VolInvD sk X (mclr s) gh :=
  ⟨fun h => ⟨rfl, h.coherent, h.unlocked, h.maxVols, h.vols, medSlack_iff.1 h.med, h.fileVols, h.openDirs⟩,
   fun h => ⟨h.coherent, h.unlocked, h.maxVols, h.vols, medSlack_iff.2 h.med, h.fileVols, h.openDirs⟩⟩

theorem invF_iffD {s : Mgr} {gh : Ghost} : InvF sk gh s ↔ ∃ gh' X', VolInvS sk s gh' X' ∧ SameGeom gh.vol gh'.vol :=
  ⟨fun ⟨gh', X', h1, h2⟩ => ⟨gh', X', volInvS_iff.2 h1, h2⟩, fun ⟨gh', X', h1, h2⟩ => ⟨gh', X', volInvS_iff.1 h1, h2⟩⟩

theorem invFE_iffD {s : Mgr} {gh : Ghost} : InvFE sk gh s ↔ ∃ gh' X', VolInvSE sk s gh' X' ∧ SameGeom gh.vol gh'.vol :=
  ⟨fun ⟨h1, h2⟩ => let ⟨gh', X', h3, h4⟩ := invF_iffD.1 h1; ⟨gh', X', ⟨h3, h2⟩, h4⟩,
   fun ⟨gh', X', h1, h2⟩ => ⟨invF_iffD.2 ⟨gh', X', h1.inv, h2⟩, h1.entries⟩⟩

theorem volInvS_zero {s : Mgr} {gh : Ghost} : VolInvS 0 s gh X ↔ VolInvL s gh X := by
  rw [volInvS_iff, volInvD_zero, FaultX.volInvL_iff]

theorem volInvS_mono {sk' : Nat} {s : Mgr} {gh : Ghost} (h : sk ≤ sk') (hI : VolInvS sk s gh X) : VolInvS sk' s gh X :=
  volInvS_iff.2 ((volInvS_iff.1 hI).mono h)

theorem faultInv_of_volInvS {s : Mgr} {gh : Ghost} (hI : VolInvS sk s gh X) : Spec.Volume.FaultInv s gh X :=
  faultInv_of_volInvX (volInvS_iff.1 hI)

/-! ### The side condition is void without slack -/

theorem isDirSlots_unique {v : FatVolume} {d : Disk} {c : Nat} {ss ss' : List Slot} (h : IsDirSlots v d c ss)
    (h' : IsDirSlots v d c ss') : ss = ss' := by
  unfold IsDirSlots at h h'
  by_cases h0 : dirIdOf c = 0
  · rw [if_pos h0] at h h'
    cases hft : v.fatType with
    | fat16 => rw [hft] at h h'; exact h.trans h'.symm
    | fat32 =>
      rw [hft] at h h'
      obtain ⟨cs, hc, e⟩ := h
      obtain ⟨cs', hc', e'⟩ := h'
      rw [e, e', ChainL.chain_unique hc cs' hc']
  · rw [if_neg h0] at h h'
    obtain ⟨cs, hc, e⟩ := h
    obtain ⟨cs', hc', e'⟩ := h'
    rw [e, e', ChainL.chain_unique hc cs' hc']

/-- **From the invariant WITHOUT slack, every call satisfies the side condition**: no closed file is damaged. -/
theorem notDamaged_of_zero {s : Mgr} {gh : Ghost} (hI : VolInvD 0 X s gh) (op : Op) : NotDamagedOpen s op := by
  cases op with
  | openFile directory name mode =>
    intro _ vi hvi dir hdm _ sfn _ ss hss o ho _ hod hfree
    have hvol : vi.vol = gh.vol := by
      rcases hI.vols with h0 | ⟨vi', hvs, hvol⟩
      · rw [h0] at hvi; cases hvi
      · rw [hvs] at hvi
        rw [List.mem_singleton.1 hvi]; exact hvol
    rw [hvol] at hss ⊢
    have hM := hI.med
    have hdv := hI.openDirs dir hdm
    obtain ⟨hid, _⟩ := validDir_id hM hdv
    rw [isDirSlots_unique hss (isDirSlots_of_med hM hdv)] at ho
    have hobj : o ∈ objects (dirIdOf dir.cluster) (dirSlots gh.vol s.dev.disk gh.G (dirIdOf dir.cluster)) := by
      refine VolEng.entry_object (ft := gh.vol.fatType) ho hod ?_
      intro hne
      rcases mem_dirIds.1 hid with e0 | ⟨p, hp⟩
      · exact absurd e0 hne
      · obtain ⟨s0, s1, rest, hss, hd0, hd1⟩ := hM.tree.dots _ p hp
        exact ⟨p, s0, s1, rest, hss, hd0, hd1⟩
    have hsz := hM.tree.sizes _ hid o hobj hod
    rw [effCluster_of_none hfree, effSize_of_none hfree, Nat.add_zero] at hsz
    rcases hsz with ⟨_, hz⟩ | ⟨_, hle⟩
    · exact .inl hz
    by_cases hnil : chainOf gh.G (sCluster gh.vol.fatType o) = []
    · rw [hnil] at hle
      exact .inl (by simpa using hle)
    · have hGs := med_heads hM
      obtain ⟨hmem, hhead⟩ := chainOf_spec hGs ((chainOf_ne_nil_iff hGs).1 hnil)
      have hc2 := med_chain hM hmem
      rw [headD_of_head? hhead] at hc2
      exact .inr ⟨_, hc2, hle⟩
  | _ => trivial

/-! ### An executable checker for the side condition -/

/-- The clusters from `c` on as the FAT links them, with fuel. -/
def fatWalk (v : FatVolume) (d : Disk) : Nat → Nat → List Nat
  | 0, _ => []
  | fuel + 1, c =>
    match nextOf v d c with
    | .ok n => c :: fatWalk v d fuel n
    | _ => [c]

def chainAt (v : FatVolume) (d : Disk) (c : Nat) : List Nat := fatWalk v d (endCluster v + 1) c

def sizeFitsB (v : FatVolume) (d : Disk) (o : Slot) : Bool :=
  decide (sSize o = 0) ||
    (chainB v d (sCluster v.fatType o) (chainAt v d (sCluster v.fatType o)) &&
      decide (sSize o ≤ (chainAt v d (sCluster v.fatType o)).length * clusterBytesLen v))

theorem sizeFitsB_sound {v : FatVolume} {d : Disk} {o : Slot} (h : sizeFitsB v d o = true) : SizeFits v d o := by
  simp only [sizeFitsB, Bool.or_eq_true, Bool.and_eq_true, decide_eq_true_eq] at h
  rcases h with h | ⟨h1, h2⟩
  · exact .inl h
  · exact .inr ⟨_, chainB_sound h1, h2⟩

/-- A damaged entry, decided: non-empty, and the chain its first cluster starts is too short. -/
theorem not_sizeFits_of {v : FatVolume} {d : Disk} {o : Slot} {cs : List Nat} (h0 : sSize o ≠ 0)
    (hc : chainB v d (sCluster v.fatType o) cs = true) (hlt : cs.length * clusterBytesLen v < sSize o) : ¬ SizeFits v d o := by
  rintro (h | ⟨cs', hc', hle⟩)
  · exact h0 h
  · rw [← ChainL.chain_unique (chainB_sound hc) cs' hc'] at hle
    omega

/-- The slots of the directory a handle with cluster field `c` designates, read off the medium (`none`: no chain). -/
def dirSlotsAt (v : FatVolume) (d : Disk) (c : Nat) : Option (List Slot) :=
  if dirIdOf c = 0 then
    match v.fatType with
    | .fat16 => some (fixedRootSlots v d)
    | .fat32 =>
      if chainB v d v.firstRootDirCluster (chainAt v d v.firstRootDirCluster) then
        some (chainSlots v d (chainAt v d v.firstRootDirCluster)) else none
  else if chainB v d c (chainAt v d c) then some (chainSlots v d (chainAt v d c)) else none

theorem dirSlotsAt_sound {v : FatVolume} {d : Disk} {c : Nat} {ss : List Slot} (h : dirSlotsAt v d c = some ss) :
    IsDirSlots v d c ss := by
  unfold dirSlotsAt at h
  unfold IsDirSlots
  by_cases h0 : dirIdOf c = 0
  · rw [if_pos h0] at h ⊢
    cases hft : v.fatType with
    | fat16 => rw [hft] at h; cases h; rfl
    | fat32 =>
      rw [hft] at h
      simp only at h ⊢
      split at h
      · next hb => cases h; exact ⟨_, chainB_sound hb, rfl⟩
      · cases h
  · rw [if_neg h0] at h ⊢
    split at h
    · next hb => cases h; exact ⟨_, chainB_sound hb, rfl⟩
    · cases h

/-- The side condition, decided (`false` also when a directory's chain cannot be read off the FAT). -/
def notDamagedB (s : Mgr) : Op → Bool
  | .openFile directory name mode => !keepsSize mode ||
      s.vols.all fun vi => s.dirs.all fun dir => !decide (dir.rawDirectory = directory) ||
        match Sfn.createFromStr name with
        | .ok sfn =>
          match dirSlotsAt vi.vol s.dev.disk dir.cluster with
          | some ss => (entries ss).all fun o =>
              !decide (sName o = sfn) || isDirE o || (pendOf s.files o).isSome || sizeFitsB vi.vol s.dev.disk o
          | none => false
        | .error _ => true
  | _ => true

theorem notDamagedB_sound {s : Mgr} {op : Op} (h : notDamagedB s op = true) : NotDamagedOpen s op := by
  cases op with
  | openFile directory name mode =>
    intro hk vi hvi dir hdm hdr sfn hsfn ss hss o ho hnm hod hfree
    simp only [notDamagedB, hk, Bool.not_true, Bool.false_or, List.all_eq_true] at h
    have h1 := h vi hvi dir hdm
    simp only [hdr, decide_true, Bool.not_true, Bool.false_or, hsfn] at h1
    cases hds : dirSlotsAt vi.vol s.dev.disk dir.cluster with
    | none => rw [hds] at h1; cases h1
    | some ss0 =>
      rw [hds] at h1
      simp only [List.all_eq_true] at h1
      rw [isDirSlots_unique hss (dirSlotsAt_sound hds)] at ho
      have h2 := h1 o ho
      simp only [hnm, decide_true, Bool.not_true, Bool.false_or, hod, hfree, Option.isSome_none] at h2
      exact sizeFitsB_sound h2
  | _ => trivial

/-- The side condition FAILS, decided: a size-keeping open whose name is, in the directory of the handle, the name of a
closed file with a non-empty entry whose first cluster starts a chain too short for the size stored. -/
def damagedB (s : Mgr) : Op → Bool
  | .openFile directory name mode => keepsSize mode &&
      s.vols.any fun vi => s.dirs.any fun dir => decide (dir.rawDirectory = directory) &&
        match Sfn.createFromStr name with
        | .ok sfn =>
          match dirSlotsAt vi.vol s.dev.disk dir.cluster with
          | some ss => (entries ss).any fun o =>
              decide (sName o = sfn) && !isDirE o && (pendOf s.files o).isNone && !decide (sSize o = 0) &&
              chainB vi.vol s.dev.disk (sCluster vi.vol.fatType o) (chainAt vi.vol s.dev.disk (sCluster vi.vol.fatType o)) &&
              decide ((chainAt vi.vol s.dev.disk (sCluster vi.vol.fatType o)).length * clusterBytesLen vi.vol < sSize o)
          | none => false
        | .error _ => false
  | _ => false

theorem damagedB_sound {s : Mgr} {op : Op} (h : damagedB s op = true) : ¬ NotDamagedOpen s op := by
  cases op with
  | openFile directory name mode =>
    intro hnd
    simp only [damagedB, Bool.and_eq_true, List.any_eq_true, decide_eq_true_eq] at h
    obtain ⟨hk, vi, hvi, dir, hdm, hdr, h1⟩ := h
    cases hsfn : Sfn.createFromStr name with
    | error e => rw [hsfn] at h1; cases h1
    | ok sfn =>
      rw [hsfn] at h1
      cases hds : dirSlotsAt vi.vol s.dev.disk dir.cluster with
      | none => rw [hds] at h1; cases h1
      | some ss =>
        rw [hds] at h1
        simp only [List.any_eq_true, Bool.and_eq_true, decide_eq_true_eq, Bool.not_eq_true', decide_eq_false_iff_not,
          Option.isNone_iff_eq_none] at h1
        obtain ⟨o, ho, ⟨⟨⟨⟨hnm, hod⟩, hfree⟩, h0⟩, hc⟩, hlt⟩ := h1
        exact not_sizeFits_of h0 hc hlt (hnd hk vi hvi dir hdm hdr sfn hsfn ss (dirSlotsAt_sound hds) o ho hnm hod hfree)
  | _ => all_goals cases h

def notDamagedRunB : Mgr → List Op → Bool
  | _, [] => true
  | s, op :: ops => notDamagedB s op && notDamagedRunB (step s op).1 ops

theorem notDamagedRunB_sound : ∀ (ops : List Op) (s : Mgr), notDamagedRunB s ops = true → NotDamagedRun s ops
  | [], _, _ => trivial
  | op :: ops, s, h => by
    simp only [notDamagedRunB, Bool.and_eq_true] at h
    exact ⟨notDamagedB_sound h.1, notDamagedRunB_sound ops _ h.2⟩

/-! ### An executable checker for `VolInvS` -/

open Sdmmc.Lemmas.VolCheck in
/-- executable check of `VolInvS k s gh X` -/
def checkVolInvS (k : Nat) (s : Mgr) (gh : Ghost) (X : List (List Nat)) : Bool :=
  coherentB s && decide (s.locked = false) && decide (s.maxVols = 1) && volsB s gh &&
  (blocksB s.dev.disk && geomB gh.vol && hintB gh.vol && ownsB gh.vol s.dev.disk (gh.G ++ X) &&
    treeB gh.vol.fatType (clusterBytesLen gh.vol + k) (rootHead gh.vol) gh.G gh.dirs (dirSlots gh.vol s.dev.disk gh.G) s.files &&
    filesOKB gh.vol s.dev.disk s.files gh.G) &&
  fileVolsB s && openDirsB s gh

open Sdmmc.Lemmas.VolCheck in
theorem checkVolInvS_sound {k : Nat} {s : Mgr} {gh : Ghost} {X : List (List Nat)} (h : checkVolInvS k s gh X = true) :
    VolInvS k s gh X := by
  simp only [checkVolInvS, Bool.and_eq_true, decide_eq_true_eq] at h
  obtain ⟨⟨⟨⟨⟨⟨h2, h3⟩, h4⟩, h5⟩, ⟨⟨⟨⟨⟨m1, m2⟩, m3⟩, m4⟩, m5⟩, m6⟩⟩, h7⟩, h8⟩ := h
  exact ⟨coherentB_sound h2, h3, h4, volsB_sound h5,
    ⟨blocksB_sound m1, geomB_sound m2, hintB_sound m3, ownsB_sound m4, treeB_sound m5, filesOKB_sound m6⟩,
    fileVolsB_sound h7, openDirsB_sound h8⟩

end Sdmmc.Lemmas.VolD
