/-
The media a power cut can leave during `update_fat`, the loop of `truncate_cluster_chain`,
`truncate_cluster_chain` and `free_cluster_chain` (model: `Sdmmc.Model.Fat`), on a fault-free,
coherent state of a well-formed volume and a well-formed chain.  For every prefix of the device
writes of the call, the medium is described relative to the medium before the call by `Stage`:
which entries read end-of-chain, which are free, every other entry and every non-FAT block as before.

`update_fat` writes FAT copy 1 and then copy 2; a cut between the two leaves a medium that `View`s
like the one after the update (chains are read from copy 1).
-/
import Sdmmc.Lemmas.CrashBase

namespace Sdmmc.Lemmas.CrashFat
open Sdmmc.Model Sdmmc.Model.Fat Sdmmc.Spec
open Sdmmc.Lemmas.FBasic hiding NoFault Coherent
open Sdmmc.Lemmas.FatOps hiding BlocksOK Mirror HintOK
open Sdmmc.Lemmas.ChainL Sdmmc.Lemmas.ForestBase Sdmmc.Lemmas.ForestTrunc Sdmmc.Lemmas.ForestAlloc
open Sdmmc.Lemmas.ForestOwns Sdmmc.Lemmas.ForestStep Sdmmc.Lemmas.CrashBase

/-- If the two FAT copies were identical on `d0`, they are identical on `d` except possibly in one
sector. -/
def Lag (v : FatVolume) (d0 d : Disk) : Prop := Mirror v d0 → MirrorBut v d

theorem Lag.refl (v : FatVolume) (d : Disk) : Lag v d d := mirrorBut_of_mirror

/-- Through a settled intermediate medium `d1` on which the copies are identical again. -/
theorem Lag.via {v v' : FatVolume} {d0 d1 d : Disk} (hs : SameGeom v v') (h01 : Mirror v d0 → Mirror v d1) (h : Lag v' d1 d) :
    Lag v d0 d :=
  fun hm => mirrorBut_sameGeom hs (h ((hs.mirror _).2 (h01 hm)))

/-! ### One FAT update -/

theorem fatDisk_eq_applyWrites (v : FatVolume) (d : Disk) (c : Nat) (p : Block) :
    fatDisk v d c p = d.applyWrites (fatWriteLog v c p).reverse := by
  unfold fatDisk fatWriteLog
  cases fatBlock2 v c <;> rfl

/-- `update_fat(c, val)`: at every crash point the medium looks like the one before or like the one
after the update. -/
theorem updateFat_crash (s s' : FS) (c val : Nat) (hn : NoFault s) (hc : Coherent s) (hg : WFGeom s.vol)
    (hcl : c < endCluster s.vol) (h : updateFat c val s = (.ok (), s')) :
    CrashAll (fun d => (View s.vol s.dev.disk d ∨ View s.vol s'.dev.disk d) ∧ Lag s.vol s.dev.disk d) s s' := by
  obtain ⟨s'', h', _, _, _, hw, hd⟩ := updateFat_eq' s c val hn hc
  rw [h] at h'
  have e : s' = s'' := congrArg Prod.snd h'
  subst e
  have hmir' : Mirror s.vol s.dev.disk → MirrorBut s.vol s'.dev.disk := fun hm => by
    have := updateFat_mirror s c val hn hc hg hcl hm
    rw [h] at this
    exact mirrorBut_of_mirror this
  refine ⟨(fatWriteLog s.vol c (fatPayload s c val)).reverse,
    ⟨by rw [List.reverse_reverse]; exact hw, by rw [hd]; exact fatDisk_eq_applyWrites _ _ _ _⟩, fun k => ?_⟩
  rw [hd] at hmir' ⊢
  revert hmir'
  unfold fatDisk fatWriteLog
  cases h2 : fatBlock2 s.vol c with
  | none =>
    simp only
    intro hmir'
    cases k with
    | zero => exact ⟨.inl (View.refl _ _), mirrorBut_of_mirror⟩
    | succ k =>
      rw [List.reverse_singleton, List.take_succ_cons, List.take_nil]
      exact ⟨.inr (View.refl _ _), hmir'⟩
  | some b2 =>
    simp only
    intro hmir'
    cases k with
    | zero => exact ⟨.inl (View.refl _ _), mirrorBut_of_mirror⟩
    | succ k =>
      cases k with
      | zero =>
        refine ⟨.inr ⟨fun c' hc' => ?_, fun i hi => ?_⟩, fun hm => ⟨fatBlock s.vol c, fun c' hc' hne b2' hb2' => ?_⟩⟩
        · show (s.dev.disk.set _ _).get _ = ((s.dev.disk.set _ _).set b2 _).get _
          rw [Disk.get_set_ne _ b2 _ _ (fun e => fatBlock_ne_fatBlock2 s.vol hg c' c b2 hc' h2 e.symm)]
        · show (s.dev.disk.set _ _).get _ = ((s.dev.disk.set _ _).set b2 _).get _
          rw [Disk.get_set_ne _ b2 _ _ (fun e => hi (by rw [← e]; exact (FatLens.fat_blocks_in_fat_region s.vol hg c hcl).2 b2 h2))]
        · show (s.dev.disk.set _ _).get b2' = (s.dev.disk.set _ _).get (fatBlock s.vol c')
          rw [Disk.get_set_ne _ _ _ _ (fun e => hne e.symm),
            Disk.get_set_ne _ _ _ _ (fatBlock_ne_fatBlock2 s.vol hg c c' b2' hcl hb2')]
          exact hm c' hc' b2' hb2'
      | succ k =>
        rw [show [(b2, fatPayload s c val), (fatBlock s.vol c, fatPayload s c val)].reverse =
          [(fatBlock s.vol c, fatPayload s c val), (b2, fatPayload s c val)] from rfl,
          List.take_succ_cons, List.take_succ_cons, List.take_nil]
        exact ⟨.inr (View.refl _ _), hmir'⟩

/-! ### Stages -/

/-- The medium `d` relative to the medium `d0` before the call: the clusters `eofs` read
end-of-chain, the clusters `freed` are free, every other entry of the volume (FAT copy 1) and every
block outside the FAT is as on `d0`. -/
structure Stage (v : FatVolume) (d0 d : Disk) (eofs freed : List Nat) : Prop where
  within : Within v d0 d (eofs ++ freed) clean
  eof : ∀ y, y ∈ eofs → nextOf v d y = .err .EndOfFile
  free : ∀ y, y ∈ freed → isFree v d y

theorem Stage.of_view {v : FatVolume} {d0 d : Disk} (h : View v d0 d) : Stage v d0 d [] [] :=
  ⟨h.within _ _, (fun _ hy => by cases hy), fun _ hy => by cases hy⟩

theorem not_mem_take {l : List Nat} {x : Nat} (j : Nat) (h : x ∉ l) : x ∉ l.take j :=
  fun hm => h (List.mem_of_mem_take hm)

theorem take_succ_cons (a : Nat) (l : List Nat) (j : Nat) : (a :: l).take (j + 1) = a :: l.take j := rfl

/-- The media a power cut can leave during the loop of `truncate_cluster_chain` on the chain `tail`:
some prefix of `tail` is free, nothing else changed. -/
theorem truncateLoop_crash : ∀ (tail : List Nat) (n : Nat) (s : FS) (fuel : Nat), NoFault s → Coherent s →
    BlocksOK s.dev.disk → WFGeom s.vol → Chain s.vol s.dev.disk n tail → tail.length ≤ fuel →
    ∃ s', truncateLoop fuel n s = (.ok (), s') ∧
      CrashAll (fun d => (∃ j, j ≤ tail.length ∧ Stage s.vol s.dev.disk d [] (tail.take j)) ∧ Lag s.vol s.dev.disk d) s s' := by
  intro tail
  induction tail with
  | nil => intro n s fuel _ _ _ _ hch; exact absurd rfl (chain_ne_nil hch)
  | cons a rest ih =>
    intro n s fuel hn hc hb hg hch hfuel
    obtain ⟨fuel, rfl⟩ : ∃ f, fuel = f + 1 := ⟨fuel - 1, by simp only [List.length_cons] at hfuel; omega⟩
    have han : a = n := by have := chain_head_eq hch; simpa using this
    subst han
    have hr : InRange s.vol a := chain_inRange hch a List.mem_cons_self
    have hnc := nextCluster_spec a s hn hc hg hr
    obtain ⟨s2, hu, hn2, hc2, hb2, hv2, hfree2, hfr2⟩ := free_one s a hn hb hg hr
    -- the write of this iteration
    have hcr2 := updateFat_crash (afterRead (fatBlock s.vol a) s) s2 a Gen.CLUSTER_EMPTY hn (afterRead_coherent _ s) hg hr.2 hu
    have hstage0 : ∀ d, View s.vol s.dev.disk d → Stage s.vol s.dev.disk d [] ((a :: rest).take 0) := fun d hv =>
      Stage.of_view hv
    have hstage1 : ∀ d, View s.vol s2.dev.disk d → Stage s.vol s.dev.disk d [] ((a :: rest).take 1) := fun d hv =>
      ⟨(Within.of_frame hfr2).view hv, (fun _ hy => by cases hy), fun y hy => by
        have : y = a := by simpa using hy
        subst this
        exact (isFree_congr_raw (hv.fatRaw hr.2)).2 hfree2⟩
    have hfirst : CrashAll (fun d => (∃ j, j ≤ (a :: rest).length ∧ Stage s.vol s.dev.disk d [] ((a :: rest).take j)) ∧
        Lag s.vol s.dev.disk d) s s2 :=
      (CrashAll.of_ro (ro_afterRead _ s) ⟨.inl (View.refl _ _), Lag.refl _ _⟩).trans hcr2 |>.mono fun d hd => by
        obtain ⟨hd, hlag⟩ := hd
        rcases hd with hd | hd
        · exact ⟨⟨0, Nat.zero_le _, hstage0 d hd⟩, hlag⟩
        · exact ⟨⟨1, by simp only [List.length_cons]; omega, hstage1 d hd⟩, hlag⟩
    by_cases hrest : rest = []
    · subst hrest
      have he : nextOf s.vol s.dev.disk a = .err .EndOfFile := chain_last_of_split (pre := []) hch
      rw [he] at hnc
      refine ⟨{ s2 with vol := { s2.vol with freeClustersCount := s2.vol.freeClustersCount.map satInc } }, ?_, ?_⟩
      · rw [truncateLoop]
        simp only [bind_apply, attempt_apply, hnc, hu, modifyVol_apply]
      · exact hfirst.trans (CrashAll.same rfl rfl hfirst.final)
    · obtain ⟨_, _, m, hm, hnot, hchm⟩ := chain_cons_inv hch hrest
      rw [hm] at hnc
      let s3 : FS := { s2 with vol := { s2.vol with freeClustersCount := s2.vol.freeClustersCount.map satInc } }
      have hs3 : SameGeom s.vol s3.vol := (SameGeom.of_eq hv2).trans ⟨_, _, rfl⟩
      have hch3 : Chain s3.vol s3.dev.disk m rest :=
        chain_transfer hchm hs3.endCluster fun x hx => by
          rw [hs3.nextOf]
          exact nextOf_congr rfl (hfr2.other x (chain_inRange hchm x hx).2
            (fun h => hnot (by rw [List.mem_singleton.1 h] at hx; exact hx)))
      obtain ⟨s', hl, hcr'⟩ := ih m s3 fuel hn2 hc2 hb2 (hs3.wfGeom hg) hch3
        (by simp only [List.length_cons] at hfuel; omega)
      refine ⟨s', ?_, ?_⟩
      · rw [truncateLoop]
        simp only [bind_apply, attempt_apply, hnc, hu, modifyVol_apply]
        exact hl
      · refine (hfirst.trans (CrashAll.same (s' := s3) rfl rfl hfirst.final)).trans (hcr'.mono fun d hd => ?_)
        obtain ⟨⟨j, hj, hst⟩, hlag⟩ := hd
        refine ⟨⟨j + 1, by simp only [List.length_cons]; omega, ?_⟩, Lag.via hs3 hfr2.mirror hlag⟩
        rw [take_succ_cons]
        have hw : Within s.vol s.dev.disk d ([] ++ a :: rest.take j) clean :=
          Within.trans (Within.of_frame hfr2) (Within.sameGeom hs3 hst.within)
            (fun y hy => by rw [List.mem_singleton.1 hy]; exact List.mem_cons_self)
            (fun y hy => List.mem_cons_of_mem _ hy) (fun _ h => h) (fun _ h => h)
        refine ⟨hw, (fun _ hy => by cases hy), fun y hy => ?_⟩
        rcases List.mem_cons.1 hy with hy | hy
        · subst hy
          have hraw : fatRaw s.vol d y = fatRaw s.vol s2.dev.disk y := by
            have := hst.within.other y (by rw [hs3.endCluster]; exact hr.2) (not_mem_take j hnot)
            rw [hs3.fatRaw, hs3.fatRaw] at this
            exact this
          exact (isFree_congr_raw hraw).2 hfree2
        · exact (hs3.isFree _ _).1 (hst.free y hy)

/-! ### `truncate_cluster_chain` -/

/-- What a power cut during `truncate_cluster_chain(x)` (chain `… x tail`) can leave: the medium as
it was, or `x` terminated and a prefix of `tail` freed. -/
def TruncCrash (v : FatVolume) (d0 : Disk) (x : Nat) (tail : List Nat) (d : Disk) : Prop :=
  View v d0 d ∨ ∃ j, j ≤ tail.length ∧ Stage v d0 d [x] (tail.take j)

theorem truncate_crash (s : FS) (c x : Nat) (pre tail : List Nat) (hn : NoFault s) (hc : Coherent s)
    (hb : BlocksOK s.dev.disk) (hg : WFGeom s.vol) (hch : Chain s.vol s.dev.disk c (pre ++ x :: tail)) :
    ∃ s', truncateClusterChain x s = (.ok (), s') ∧
      CrashAll (fun d => TruncCrash s.vol s.dev.disk x tail d ∧ Lag s.vol s.dev.disk d) s s' := by
  have hrx : InRange s.vol x := chain_inRange hch x (List.mem_append_right _ List.mem_cons_self)
  have hlt : ¬ x < Gen.RESERVED_ENTRIES := by have := hrx.1; show ¬ x < 2; omega
  have hnc := nextCluster_spec x s hn hc hg hrx
  obtain ⟨hxt, hxp, hpre, _⟩ := nodup_split (chain_nodup hch)
  cases tail with
  | nil =>
    rw [chain_last_of_split hch] at hnc
    refine ⟨afterRead (fatBlock s.vol x) s, ?_, CrashAll.of_ro (ro_afterRead _ s) ⟨.inl (View.refl _ _), Lag.refl _ _⟩⟩
    unfold truncateClusterChain
    simp only [ite_apply, if_neg hlt, bind_apply, attempt_apply, hnc, pure_apply]
  | cons y t =>
    obtain ⟨hxy, hchy⟩ := chain_next_of_split hch
    rw [hxy] at hnc
    generalize hs1 : ({ afterRead (fatBlock s.vol x) s with vol := hintMin y (afterRead (fatBlock s.vol x) s).vol } : FS) = s1
    have hn1 : NoFault s1 := by subst hs1; exact hn
    have hc1 : Coherent s1 := by subst hs1; exact afterRead_coherent _ s
    have hd1 : s1.dev.disk = s.dev.disk := by subst hs1; rfl
    have hw1 : s1.dev.wlog = s.dev.wlog := by subst hs1; rfl
    have hv1 : s1.vol = hintMin y s.vol := by subst hs1; rfl
    have hg1 : SameGeom s.vol s1.vol := by rw [hv1]; exact hintMin_sameGeom y s.vol
    obtain ⟨s2, hu, hn2, hc2, hb2, hv2, hself2, hfr2⟩ :=
      updateFat_spec s1 x Gen.CLUSTER_END_OF_FILE hn1 hc1 (by rw [hd1]; exact hb) (hg1.wfGeom hg)
        (by rw [hg1.endCluster]; exact hrx.2)
    have hcr2 := updateFat_crash s1 s2 x Gen.CLUSTER_END_OF_FILE hn1 hc1 (hg1.wfGeom hg)
      (by rw [hg1.endCluster]; exact hrx.2) hu
    have heof2 : nextOf s.vol s2.dev.disk x = .err .EndOfFile := by
      rw [← hg1.nextOf]; exact updateFat_eof_reads s1 x (by rw [hd1]; exact hb) hself2
    have hg2 : SameGeom s.vol s2.vol := hg1.trans (SameGeom.of_eq hv2)
    have hfr2' : Frame s.vol s.dev.disk s2.dev.disk [x] := by
      have := Frame.sameGeom hg1 hfr2
      rw [hd1] at this; exact this
    have hch2 : Chain s2.vol s2.dev.disk y (y :: t) :=
      chain_transfer hchy hg2.endCluster fun z hz => by
        rw [hg2.nextOf]
        exact nextOf_congr rfl (hfr2'.other z (chain_inRange hchy z hz).2
          (fun h => hxt (by rw [List.mem_singleton.1 h] at hz; exact hz)))
    have hfuel : (y :: t).length ≤ chainFuel s2.vol := by
      have := chain_length_le hch2
      unfold chainFuel; omega
    obtain ⟨s', hl, hcr'⟩ := truncateLoop_crash (y :: t) y s2 (chainFuel s2.vol) hn2 hc2 hb2 (hg2.wfGeom hg) hch2 hfuel
    refine ⟨s', ?_, ?_⟩
    · rw [truncate_unfold_ok x y s _ hlt hnc, hs1, bind_ok hu, bind_apply, getVol_apply]
      exact hl
    · have hstage0 : ∀ d, View s.vol s2.dev.disk d → Stage s.vol s.dev.disk d [x] ((y :: t).take 0) := fun d hv =>
        ⟨(Within.of_frame hfr2').view hv |>.mono (fun _ h => by simpa using h) (fun _ h => h),
         fun z hz => by
          rw [List.mem_singleton.1 hz]
          exact (nextOf_congr rfl (hv.fatRaw hrx.2)).trans heof2,
         (fun _ hz => by cases hz)⟩
      have h01 : CrashAll (fun d => TruncCrash s.vol s.dev.disk x (y :: t) d ∧ Lag s.vol s.dev.disk d) s s1 :=
        CrashAll.same hw1 hd1 ⟨.inl (View.refl _ _), Lag.refl _ _⟩
      have h12 : CrashAll (fun d => TruncCrash s.vol s.dev.disk x (y :: t) d ∧ Lag s.vol s.dev.disk d) s1 s2 :=
        hcr2.mono fun d hd => by
          obtain ⟨hd, hlag⟩ := hd
          have hlag' : Lag s.vol s.dev.disk d := by
            rw [hd1] at hlag
            exact Lag.via hg1 id hlag
          rcases hd with hd | hd
          · exact ⟨.inl (by rw [hd1] at hd; exact View.sameGeom hg1 hd), hlag'⟩
          · exact ⟨.inr ⟨0, Nat.zero_le _, hstage0 d (View.sameGeom hg1 hd)⟩, hlag'⟩
      refine (h01.trans h12).trans (hcr'.mono fun d hd => ?_)
      obtain ⟨⟨j, hj, hst⟩, hlag⟩ := hd
      refine ⟨.inr ⟨j, hj, ?_, ?_, fun z hz => (hg2.isFree _ _).1 (hst.free z hz)⟩, Lag.via hg2 hfr2'.mirror hlag⟩
      · exact Within.trans (Within.of_frame hfr2') (Within.sameGeom hg2 hst.within)
          (fun z hz => List.mem_append_left _ hz) (fun z hz => List.mem_append_right _ (by simpa using hz))
          (fun _ h => h) (fun _ h => h)
      · intro z hz
        rw [List.mem_singleton.1 hz]
        have hraw : fatRaw s.vol d x = fatRaw s.vol s2.dev.disk x := by
          have := hst.within.other x (by rw [hg2.endCluster]; exact hrx.2) (by
            simp only [List.nil_append]; exact not_mem_take j hxt)
          rw [hg2.fatRaw, hg2.fatRaw] at this
          exact this
        exact (nextOf_congr rfl hraw).trans heof2

/-! ### `free_cluster_chain` -/

/-- What a power cut during `free_cluster_chain(r)` (chain `r :: tail`) can leave: the medium as it
was; `r` terminated and a prefix of `tail` freed; everything freed. -/
def FreeCrash (v : FatVolume) (d0 : Disk) (r : Nat) (tail : List Nat) (d : Disk) : Prop :=
  TruncCrash v d0 r tail d ∨ Stage v d0 d [] (r :: tail)

theorem free_crash (s : FS) (r : Nat) (tail : List Nat) (hn : NoFault s) (hc : Coherent s) (hb : BlocksOK s.dev.disk)
    (hg : WFGeom s.vol) (hch : Chain s.vol s.dev.disk r (r :: tail)) :
    ∃ s', freeClusterChain r s = (.ok (), s') ∧
      CrashAll (fun d => FreeCrash s.vol s.dev.disk r tail d ∧ Lag s.vol s.dev.disk d) s s' := by
  have hrc : InRange s.vol r := chain_inRange hch r List.mem_cons_self
  have hlt : ¬ r < Gen.RESERVED_ENTRIES := by have := hrc.1; show ¬ r < 2; omega
  have hct : r ∉ tail := (List.nodup_cons.1 (chain_nodup hch)).1
  obtain ⟨s1, ht, hn1, hc1, hb1, hv1, _, hfree1, hfr1, _⟩ := truncate_spec s r r [] tail hn hc hb hg hch
  obtain ⟨s1', ht', hcr1⟩ := truncate_crash s r r [] tail hn hc hb hg hch
  rw [ht] at ht'
  have e1 : s1 = s1' := congrArg Prod.snd ht'
  subst e1
  have hg1 : SameGeom s.vol s1.vol := by rw [hv1]; exact volAfterTruncate_sameGeom tail s.vol
  obtain ⟨s2, hu, hn2, hc2, hb2, hv2, hself2, hfr2⟩ :=
    updateFat_spec s1 r Gen.CLUSTER_EMPTY hn1 hc1 hb1 (hg1.wfGeom hg) (by rw [hg1.endCluster]; exact hrc.2)
  have hcr2 := updateFat_crash s1 s2 r Gen.CLUSTER_EMPTY hn1 hc1 (hg1.wfGeom hg) (by rw [hg1.endCluster]; exact hrc.2) hu
  have hfree2 : isFree s.vol s2.dev.disk r := (hg1.isFree _ _).1 (updateFat_empty_free s1 r hb1 hself2)
  have hfr2' : Frame s.vol s1.dev.disk s2.dev.disk [r] := Frame.sameGeom hg1 hfr2
  have hfin : Stage s.vol s.dev.disk s2.dev.disk [] (r :: tail) := by
    refine ⟨Within.of_frame (Frame.trans hfr1 hfr2' (fun _ h => h)
      (fun y h => by rw [List.mem_singleton.1 h]; exact List.mem_cons_self)), (fun _ hy => by cases hy), fun y hy => ?_⟩
    rcases List.mem_cons.1 hy with hy | hy
    · subst hy; exact hfree2
    · have hyr : y < endCluster s.vol := (chain_inRange hch y (List.mem_cons_of_mem _ hy)).2
      have hyc : y ∉ [r] := fun h => hct (by rw [List.mem_singleton.1 h] at hy; exact hy)
      exact (isFree_congr_raw (hfr2'.other y hyr hyc)).2 (hfree1 y hy)
  refine ⟨{ s2 with vol := freeHint r s2.vol }, ?_, ?_⟩
  · rw [free_unfold r s hlt, bind_ok ht, bind_ok hu, modifyVol_apply]
  · have h1 : CrashAll (fun d => FreeCrash s.vol s.dev.disk r tail d ∧ Lag s.vol s.dev.disk d) s s1 :=
      hcr1.mono fun d hd => ⟨.inl hd.1, hd.2⟩
    have h2 : CrashAll (fun d => FreeCrash s.vol s.dev.disk r tail d ∧ Lag s.vol s.dev.disk d) s1 s2 := hcr2.mono fun d hd => by
      obtain ⟨hd, hlag⟩ := hd
      refine ⟨?_, Lag.via hg1 hfr1.mirror hlag⟩
      rcases hd with hd | hd
      · -- looks like the medium after the truncation
        have hd' : View s.vol s1.dev.disk d := View.sameGeom hg1 hd
        rcases hcr1.final.1 with hf | ⟨j, hj, hst⟩
        · exact .inl (.inl (hf.trans hd'))
        · exact .inl (.inr ⟨j, hj, hst.within.view hd',
            fun z hz => (nextOf_congr rfl (hd'.fatRaw (by rw [List.mem_singleton.1 hz]; exact hrc.2))).trans (hst.eof z hz),
            fun z hz => (isFree_congr_raw (hd'.fatRaw (chain_inRange hch z
              (List.mem_cons_of_mem _ (List.mem_of_mem_take hz))).2)).2 (hst.free z hz)⟩)
      · have hd' : View s.vol s2.dev.disk d := View.sameGeom hg1 hd
        exact .inr ⟨hfin.within.view hd', (fun _ hy => by cases hy),
          fun z hz => (isFree_congr_raw (hd'.fatRaw (chain_inRange hch z hz).2)).2 (hfin.free z hz)⟩
    exact (h1.trans h2).trans (CrashAll.same rfl rfl h2.final)

end Sdmmc.Lemmas.CrashFat
