import Sdmmc.Lemmas.Crc16Lfsr

namespace Sdmmc.Lemmas.Crc
open Sdmmc.Model Sdmmc.Spec Sdmmc.Gen

/-! ## Long division and the zero-append-form LFSR -/

/-- MSB-first bits of a 16-bit register. -/
def bits16 (r : BitVec 16) : List Bool :=
  [r.getLsbD 15, r.getLsbD 14, r.getLsbD 13, r.getLsbD 12, r.getLsbD 11, r.getLsbD 10,
   r.getLsbD 9, r.getLsbD 8, r.getLsbD 7, r.getLsbD 6, r.getLsbD 5, r.getLsbD 4,
   r.getLsbD 3, r.getLsbD 2, r.getLsbD 1, r.getLsbD 0]

theorem polyRem_short (g l : List Bool) (h : l.length < g.length) : polyRem g l = l := by
  cases l with
  | nil => rw [polyRem]
  | cons b bs => rw [polyRem, if_pos h]

theorem polyRem_cons (g : List Bool) (b : Bool) (bs : List Bool) (h : g.length ≤ bs.length + 1) :
    polyRem g (b :: bs) = if b then polyRem g (xorPrefix g.tail bs) else polyRem g bs := by
  have : ¬ ((b :: bs).length < g.length) := by simp; omega
  rw [polyRem, if_neg this]

theorem bits16_A16_true (a : BitVec 16) (b : Bool) (rest : List Bool) (h : a.getLsbD 15 = true) :
    xorPrefix G16.tail ([a.getLsbD 14, a.getLsbD 13, a.getLsbD 12, a.getLsbD 11, a.getLsbD 10,
   a.getLsbD 9, a.getLsbD 8, a.getLsbD 7, a.getLsbD 6, a.getLsbD 5, a.getLsbD 4,
   a.getLsbD 3, a.getLsbD 2, a.getLsbD 1, a.getLsbD 0, b] ++ rest) = bits16 (A16 a b) ++ rest := by
  have hm : a.msb = true := by rw [BitVec.msb_eq_getLsbD_last]; exact h
  cases b <;>
  simp [G16, xorPrefix, bits16, A16, mulX16, hm, pmask16, one16, P16]

theorem bits16_A16_false (a : BitVec 16) (b : Bool) (h : a.getLsbD 15 = false) :
    [a.getLsbD 14, a.getLsbD 13, a.getLsbD 12, a.getLsbD 11, a.getLsbD 10,
   a.getLsbD 9, a.getLsbD 8, a.getLsbD 7, a.getLsbD 6, a.getLsbD 5, a.getLsbD 4,
   a.getLsbD 3, a.getLsbD 2, a.getLsbD 1, a.getLsbD 0, b] = bits16 (A16 a b) := by
  have hm : a.msb = false := by rw [BitVec.msb_eq_getLsbD_last]; exact h
  cases b <;>
  simp [bits16, A16, mulX16, hm, pmask16, one16]

/-- The zero-append-form register tracks schoolbook long division. -/
theorem polyRem_bits16 (rest : List Bool) : ∀ a : BitVec 16,
    polyRem G16 (bits16 a ++ rest) = bits16 (rest.foldl A16 a) := by
  induction rest with
  | nil => intro a; simp [polyRem_short, bits16, G16]
  | cons b rest ih =>
    intro a
    rw [List.foldl_cons, ← ih (A16 a b)]
    have hl : G16.length ≤ ([a.getLsbD 14, a.getLsbD 13, a.getLsbD 12, a.getLsbD 11, a.getLsbD 10,
      a.getLsbD 9, a.getLsbD 8, a.getLsbD 7, a.getLsbD 6, a.getLsbD 5, a.getLsbD 4,
      a.getLsbD 3, a.getLsbD 2, a.getLsbD 1, a.getLsbD 0, b] ++ rest).length + 1 := by
      simp [G16]
    have e : bits16 a ++ b :: rest = a.getLsbD 15 :: ([a.getLsbD 14, a.getLsbD 13, a.getLsbD 12, a.getLsbD 11, a.getLsbD 10,
      a.getLsbD 9, a.getLsbD 8, a.getLsbD 7, a.getLsbD 6, a.getLsbD 5, a.getLsbD 4,
      a.getLsbD 3, a.getLsbD 2, a.getLsbD 1, a.getLsbD 0, b] ++ rest) := by simp [bits16]
    rw [e, polyRem_cons _ _ _ hl]
    cases h : a.getLsbD 15
    · rw [if_neg (by simp), ← bits16_A16_false a b h]
    · rw [if_pos rfl, bits16_A16_true a b rest h]

theorem ite_one_getElem {n : Nat} (x : Bool) (k : Nat) (h : k < n) :
    (if x = true then 1#n else 0#n)[k] = (x && decide (k = 0)) := by
  cases x <;> simp [BitVec.getElem_one]

theorem bitsToBV_bits16 (a : BitVec 16) : bitsToBV 16 (bits16 a) = a := by
  ext i hi
  have : i = 0 ∨ i = 1 ∨ i = 2 ∨ i = 3 ∨ i = 4 ∨ i = 5 ∨ i = 6 ∨ i = 7 ∨ i = 8 ∨ i = 9 ∨ i = 10 ∨
    i = 11 ∨ i = 12 ∨ i = 13 ∨ i = 14 ∨ i = 15 := by omega
  rcases this with h|h|h|h|h|h|h|h|h|h|h|h|h|h|h|h <;> subst h <;>
  simp [bitsToBV, bits16, BitVec.getLsbD_eq_getElem, ite_one_getElem]

theorem polyRem_false (bs : List Bool) (h : 16 ≤ bs.length) :
    polyRem G16 (false :: bs) = polyRem G16 bs := by
  rw [polyRem_cons _ _ _ (by simp [G16]; omega)]; simp

theorem polyRem_eq_A16 (l : List Bool) (h : 16 ≤ l.length) :
    polyRem G16 l = bits16 (l.foldl A16 0#16) := by
  rw [← polyRem_bits16]
  have : bits16 0#16 = List.replicate 16 false := by decide
  rw [this]
  simp only [List.replicate, List.cons_append, List.nil_append]
  repeat rw [polyRem_false _ (by first | exact h | (simp only [List.length_cons]; omega))]

/-- `mulX16` iterated. -/
def mulXpow16 : Nat → BitVec 16 → BitVec 16
  | 0, r => r
  | n + 1, r => mulXpow16 n (mulX16 r)

theorem mulXpow16_xor (n : Nat) : ∀ a b, mulXpow16 n (a ^^^ b) = mulXpow16 n a ^^^ mulXpow16 n b := by
  induction n with
  | zero => intro a b; rfl
  | succ n ih => intro a b; simp only [mulXpow16, mulX16_xor, ih]

theorem mulXpow16_mulX16 (n : Nat) : ∀ a, mulXpow16 n (mulX16 a) = mulX16 (mulXpow16 n a) := by
  induction n with
  | zero => intro a; rfl
  | succ n ih => intro a; simp only [mulXpow16, ih]

theorem mulXpow16_one16 (b : Bool) : mulXpow16 16 (one16 b) = pmask16 b := by
  cases b <;> decide

theorem foldl_A16_zeros (n : Nat) : ∀ a, (List.replicate n false).foldl A16 a = mulXpow16 n a := by
  induction n with
  | zero => intro a; rfl
  | succ n ih => intro a; simp [List.replicate, ih, mulXpow16, A16, one16]

/-- Direct form = zero-append form followed by sixteen more shifts. -/
theorem foldl_D16_eq (bits : List Bool) : ∀ a,
    bits.foldl D16 (mulXpow16 16 a) = mulXpow16 16 (bits.foldl A16 a) := by
  induction bits with
  | nil => intro a; rfl
  | cons b bits ih =>
    intro a
    rw [List.foldl_cons, List.foldl_cons, ← ih]
    congr 1
    rw [A16, mulXpow16_xor, mulXpow16_mulX16, mulXpow16_one16, D16]

theorem crc16_eq_foldl (m : List (BitVec 8)) : crc16 m = (msgBits m).foldl D16 0#16 := by
  simp only [crc16, msgBits, List.foldl_flatMap]
  congr 1
  funext c b
  exact crc16Step_eq_bits c b

theorem foldl_D16_zero (bits : List Bool) :
    bits.foldl D16 0#16 = (bits ++ List.replicate 16 false).foldl A16 0#16 := by
  rw [List.foldl_append, foldl_A16_zeros, ← foldl_D16_eq]
  rfl

theorem crc16_eq_spec (m : List (BitVec 8)) : crc16 m = specCrc16 m := by
  rw [specCrc16, polyRem_eq_A16 _ (by simp), bitsToBV_bits16, crc16_eq_foldl, foldl_D16_zero]

end Sdmmc.Lemmas.Crc
