/-
C11, arbitrary fault placement — `EntryNotAhead` AS AN INVARIANT, part 1: the predicate on media and its transport.

`RawAllD ft d files`: for EVERY open file, the 32-byte entry on the medium `d` names no cluster and size 0, or the
record's first cluster and at most the record's size (`VolX.RawBelow`).  It is kept when no block holding a slot of an
open file changes (`rawAll_dirBlocks`, `rawAll_within`), and when ONE slot of a directory is rewritten and the open file
sitting there — if any — is served by the new bytes (`rawAll_edit`).  A file that is not modified satisfies it by the
invariant (`rawBelow_of_clean`); it survives the growth of a record (`rawBelow_desc`).
(The transports are those of `VolCrash.rawOK_*` — C10 — for the cluster AND the size.)
-/
import Sdmmc.Lemmas.VolXDropFile
import Sdmmc.Lemmas.VolCrashStep

namespace Sdmmc.Lemmas.FaultX
open Sdmmc.Model Sdmmc.Model.Fat Sdmmc.Spec.Volume Sdmmc.Lemmas.VolBase Sdmmc.Lemmas.VolTree
open Sdmmc.Spec hiding NoFault Coherent
open Sdmmc.Lemmas.VolDisk Sdmmc.Lemmas.VolMed Sdmmc.Lemmas.VolEng Sdmmc.Lemmas.VolX
open Sdmmc.Lemmas.CrashBase Sdmmc.Lemmas.VolCrash

/-- The entry of every open file on the medium is not ahead of its record. -/
def RawAllD (ft : FatType) (d : Disk) (files : List FileInfo) : Prop := ∀ f, f ∈ files → RawBelow ft d f

theorem rawSlot_eq (d : Disk) (f : FileInfo) : rawSlot d f = slotAt d f.entry.entryBlock f.entry.entryOffset := rfl

/-- The record grew (same slot; the size did not shrink; the first cluster is the same, or there was none). -/
structure Desc (f g : FileInfo) : Prop where
  block : g.entry.entryBlock = f.entry.entryBlock
  offset : g.entry.entryOffset = f.entry.entryOffset
  size : f.entry.size ≤ g.entry.size
  cluster : g.entry.cluster = f.entry.cluster ∨ f.entry.cluster < 2

theorem Desc.refl (f : FileInfo) : Desc f f := ⟨rfl, rfl, Nat.le_refl _, .inl rfl⟩

theorem Desc.of_entry {f g : FileInfo} (h : g.entry = f.entry) : Desc f g := by
  refine ⟨by rw [h], by rw [h], by rw [h]; exact Nat.le_refl _, .inl (by rw [h])⟩

theorem Desc.trans {f g k : FileInfo} (h1 : Desc f g) (h2 : Desc g k) : Desc f k := by
  refine ⟨h2.block.trans h1.block, h2.offset.trans h1.offset, Nat.le_trans h1.size h2.size, ?_⟩
  rcases h1.cluster with e1 | e1
  · rcases h2.cluster with e2 | e2
    · exact .inl (e2.trans e1)
    · exact .inr (by rw [← e1]; exact e2)
  · exact .inr e1

/-- The entry on the medium is not ahead of a record that grew — provided a record without a cluster is empty. -/
theorem rawBelow_desc {ft : FatType} {d : Disk} {f g : FileInfo} (h : RawBelow ft d f) (hd : Desc f g)
    (h0 : f.entry.cluster < 2 → f.entry.cluster = 0 ∧ f.entry.size = 0) : RawBelow ft d g := by
  have hs : rawSlot d g = rawSlot d f := by unfold rawSlot; rw [hd.block, hd.offset]
  unfold RawBelow at h ⊢
  rw [hs]
  rcases h with h | ⟨h1, h2⟩
  · exact .inl h
  · rcases hd.cluster with e | e
    · exact .inr ⟨by rw [h1, e], Nat.le_trans h2 hd.size⟩
    · obtain ⟨e1, e2⟩ := h0 e
      exact .inl ⟨by rw [h1, e1], by omega⟩

theorem rawAll_blocks {ft : FatType} {d d' : Disk} {files : List FileInfo} (hR : RawAllD ft d files)
    (h : ∀ f, f ∈ files → d'.get f.entry.entryBlock = d.get f.entry.entryBlock) : RawAllD ft d' files := by
  intro f hf
  have hs : rawSlot d' f = rawSlot d f := by unfold rawSlot; rw [h f hf]
  have := hR f hf
  unfold RawBelow at this ⊢
  rw [hs]; exact this

section
variable {v : FatVolume} {d0 : Disk} {files : List FileInfo} {gh : Ghost} {X : List (List Nat)}

/-- An unmodified open file: the entry on the medium IS the record. -/
theorem rawBelow_of_clean (hM : MedX v d0 files gh X) {f : FileInfo} (hf : f ∈ files) (hd : f.dirty = false) :
    RawBelow v.fatType d0 f := by
  obtain ⟨h, hh, A, o, B, hO, hpo, _, _, hcl, _⟩ := file_object hM.tree hf
  have ho : o ∈ objects h (dirSlots v d0 gh.G h) := by rw [hO]; simp
  have hor := object_eq_rawSlot hM hh ho hpo
  obtain ⟨h1, h2⟩ := hcl hd
  unfold RawBelow
  rw [← hor]
  exact .inr ⟨h1, Nat.le_of_eq h2⟩

theorem rawAll_dirBlocks (hM : MedX v d0 files gh X) (hR : RawAllD v.fatType d0 files) {d : Disk}
    (hblk : ∀ h, h ∈ dirIds gh.dirs → ∀ s, s ∈ dirSlots v d0 gh.G h → d.get s.1 = d0.get s.1) : RawAllD v.fatType d files := by
  refine rawAll_blocks hR fun f hf => ?_
  obtain ⟨h, hh, o, ho, h1, _⟩ := file_dirSlot hM hf
  rw [← h1]
  exact hblk h hh o ho

theorem rawAll_within (hM : MedX v d0 files gh X) (hR : RawAllD v.fatType d0 files) {d : Disk} {t : List Nat} {dirty : Nat → Prop}
    (hW : Within v d0 d t dirty) (hd : DirClean v d0 gh dirty) : RawAllD v.fatType d files := by
  refine rawAll_dirBlocks hM hR fun h hh s hs => hW.nonFat s.1 ?_ (hd h hh s hs)
  rcases dirSlot_not_fat hM hh hs with e | e <;> rw [e] <;> decide

theorem rawAll_view (hM : MedX v d0 files gh X) (hR : RawAllD v.fatType d0 files) {d : Disk} (hv : View v d0 d) :
    RawAllD v.fatType d files := by
  refine rawAll_dirBlocks hM hR fun h hh s hs => hv.nonFat s.1 ?_
  rcases dirSlot_not_fat hM hh hs with e | e <;> rw [e] <;> decide

/-- One slot of directory `h` is replaced (`old` by `new`, same position); the other slots of all directories keep
their bytes; the open file sitting at that slot — if any — is served by the new bytes. -/
theorem rawAll_edit {d d' : Disk} {G' : List (List Nat)} (hM : MedX v d files gh X)
    (hR : RawAllD v.fatType d files) {h : Nat} {pre post : List Slot} {old new : Slot}
    (hsp : dirSlots v d gh.G h = pre ++ old :: post) (hsp' : dirSlots v d' G' h = pre ++ new :: post)
    (hpos : new.1 = old.1 ∧ new.2.1 = old.2.1)
    (hother : ∀ x, x ∈ dirIds gh.dirs → x ≠ h → dirSlots v d' G' x = dirSlots v d gh.G x)
    (hf : ∀ f, f ∈ files → f.entry.entryBlock = old.1 → f.entry.entryOffset = old.2.1 →
      (sCluster v.fatType new = 0 ∧ sSize new = 0) ∨ (sCluster v.fatType new = f.entry.cluster ∧ sSize new ≤ f.entry.size)) :
    RawAllD v.fatType d' files := by
  intro f hfm
  obtain ⟨x, hx, o, ho, h1, h2⟩ := file_dirSlot hM hfm
  have hnew : new ∈ dirSlots v d' G' h := by rw [hsp']; simp
  unfold RawBelow
  rw [rawSlot_eq]
  by_cases hat : f.entry.entryBlock = old.1 ∧ f.entry.entryOffset = old.2.1
  · rw [hat.1, hat.2, ← hpos.1, ← hpos.2, ← slotAt_of_mem hnew]
    exact hf f hfm hat.1 hat.2
  · have ho' : ∃ y, o ∈ dirSlots v d' G' y := by
      by_cases hxh : x = h
      · subst hxh
        rw [hsp] at ho
        rcases List.mem_append.1 ho with hp | hp
        · exact ⟨x, by rw [hsp']; exact List.mem_append_left _ hp⟩
        · rcases List.mem_cons.1 hp with e | hp
          · exact absurd ⟨by rw [← h1, e], by rw [← h2, e]⟩ hat
          · exact ⟨x, by rw [hsp']; exact List.mem_append_right _ (List.mem_cons_of_mem _ hp)⟩
      · exact ⟨x, by rw [hother x hx hxh]; exact ho⟩
    obtain ⟨y, hy⟩ := ho'
    have e1 := slotAt_of_mem hy
    have e2 := slotAt_of_mem ho
    have := hR f hfm
    unfold RawBelow at this
    rw [rawSlot_eq, ← h1, ← h2, ← e2] at this
    rw [← h1, ← h2, ← e1]
    exact this

end

end Sdmmc.Lemmas.FaultX
