/-
Lemmas for C13/C14, part 3: what each function of the SD driver model logs on the bus.

`TrAt m s P`: running `m` from `s` appends the events `evs` (oldest first) to the log, keeps the
options (`useCrc`, `acquireRetries`), and `P result evs` holds.  `Tr m P` is `TrAt` from every state.
-/
import Sdmmc.Lemmas.SdBasic

namespace Sdmmc.Lemmas.Sd
open Sdmmc.Model Sdmmc.Model.Sd Sdmmc.Gen

variable {σ : Type} {α β : Type}

/-- The events added between two states, oldest first.  Same body as `Sdmmc.Props.C14.evsNew`. -/
def evsNew (s s' : St σ) : List Event := (s'.events.take (s'.events.length - s.events.length)).reverse

theorem evsNew_of_eq {s s' : St σ} {evs : List Event} (h : s'.events = evs.reverse ++ s.events) :
    evsNew s s' = evs := by
  simp [evsNew, h]

def TrAt (m : S σ α) (s : St σ) (P : SRes α → List Event → Prop) : Prop :=
  ∃ evs, (m s).2.events = evs.reverse ++ s.events ∧ (m s).2.useCrc = s.useCrc ∧
    (m s).2.acquireRetries = s.acquireRetries ∧ P (m s).1 evs

def Tr (m : S σ α) (P : SRes α → List Event → Prop) : Prop := ∀ s, TrAt m s P

/-- Sequential composition of trace predicates. -/
def seqP (P : SRes α → List Event → Prop) (Q : α → SRes β → List Event → Prop) :
    SRes β → List Event → Prop := fun r evs =>
  (∃ a e1 e2, evs = e1 ++ e2 ∧ P (.ok a) e1 ∧ Q a r e2) ∨
  (∃ e, r = .err e ∧ P (.err e) evs) ∨ (∃ p, r = .panic p ∧ P (.panic p) evs)

theorem TrAt.conseq {m : S σ α} {s : St σ} {P P' : SRes α → List Event → Prop}
    (h : TrAt m s P) (hP : ∀ r evs, P r evs → P' r evs) : TrAt m s P' := by
  rcases h with ⟨evs, h1, h2, h3, h4⟩
  exact ⟨evs, h1, h2, h3, hP _ _ h4⟩

theorem Tr.conseq {m : S σ α} {P P' : SRes α → List Event → Prop}
    (h : Tr m P) (hP : ∀ r evs, P r evs → P' r evs) : Tr m P' := fun s => (h s).conseq hP

theorem TrAt.bind {m : S σ α} {f : α → S σ β} {s : St σ} {P : SRes α → List Event → Prop}
    {Q : α → SRes β → List Event → Prop}
    (hm : TrAt m s P) (hf : ∀ a s', m s = (.ok a, s') → TrAt (f a) s' (Q a)) :
    TrAt (m >>= f) s (seqP P Q) := by
  rcases hm with ⟨e1, h1, h2, h3, h4⟩
  unfold TrAt
  rw [bind_apply]
  rcases hms : m s with ⟨r, s'⟩
  rw [hms] at h1 h2 h3 h4
  cases r with
  | ok a =>
    rcases hf a s' hms with ⟨e2, g1, g2, g3, g4⟩
    refine ⟨e1 ++ e2, ?_, ?_, ?_, Or.inl ⟨a, e1, e2, rfl, h4, g4⟩⟩
    · simp only at h1 ⊢; rw [g1, h1]; simp
    · simp only at h2 ⊢; rw [g2, h2]
    · simp only at h3 ⊢; rw [g3, h3]
  | err e => exact ⟨e1, h1, h2, h3, Or.inr (Or.inl ⟨e, rfl, h4⟩)⟩
  | panic p => exact ⟨e1, h1, h2, h3, Or.inr (Or.inr ⟨p, rfl, h4⟩)⟩

theorem Tr.bind {m : S σ α} {f : α → S σ β} {P : SRes α → List Event → Prop}
    {Q : α → SRes β → List Event → Prop}
    (hm : Tr m P) (hf : ∀ a, Tr (f a) (Q a)) : Tr (m >>= f) (seqP P Q) :=
  fun s => (hm s).bind fun a s' _ => hf a s'

theorem Tr.pure (a : α) : Tr (pure a : S σ α) (fun r evs => r = .ok a ∧ evs = []) :=
  fun s => ⟨[], by simp⟩
theorem Tr.fail (e : SdErr) : Tr (S.fail e : S σ α) (fun r evs => r = .err e ∧ evs = []) :=
  fun s => ⟨[], by simp⟩
theorem Tr.lift (x : SRes α) : Tr (S.lift x : S σ α) (fun r evs => r = x ∧ evs = []) :=
  fun s => ⟨[], by simp⟩
theorem TrAt.get (s : St σ) : TrAt (S.get : S σ (St σ)) s (fun r evs => r = .ok s ∧ evs = []) :=
  ⟨[], by simp⟩

theorem TrAt.attempt {m : S σ α} {s : St σ} {P : SRes α → List Event → Prop} (h : TrAt m s P) :
    TrAt (S.attempt m) s (fun r evs => ∃ r', r = .ok r' ∧ P r' evs) := by
  rcases h with ⟨evs, h1, h2, h3, h4⟩
  exact ⟨evs, h1, h2, h3, _, rfl, h4⟩

theorem Tr.attempt {m : S σ α} {P : SRes α → List Event → Prop} (h : Tr m P) :
    Tr (S.attempt m) (fun r evs => ∃ r', r = .ok r' ∧ P r' evs) := fun s => (h s).attempt

theorem TrAt.get_bind {f : St σ → S σ β} {s : St σ} {P : SRes β → List Event → Prop}
    (h : TrAt (f s) s P) : TrAt (S.get >>= f) s P := h

theorem Tr.ite {c : Prop} [Decidable c] {m1 m2 : S σ α} {P1 P2 : SRes α → List Event → Prop}
    (h1 : c → Tr m1 P1) (h2 : ¬c → Tr m2 P2) :
    Tr (if c then m1 else m2) (fun r evs => (c ∧ P1 r evs) ∨ (¬c ∧ P2 r evs)) := by
  split
  · next h => exact (h1 h).conseq fun r evs hp => Or.inl ⟨h, hp⟩
  · next h => exact (h2 h).conseq fun r evs hp => Or.inr ⟨h, hp⟩

/-- What `TrAt` says about the final state, in terms of `evsNew`. -/
theorem TrAt.evsNew {m : S σ α} {s : St σ} {P : SRes α → List Event → Prop} (h : TrAt m s P) :
    P (m s).1 (evsNew s (m s).2) := by
  rcases h with ⟨evs, h1, _, _, h4⟩
  rw [evsNew_of_eq h1]; exact h4

/-- Two facts about the same run can be combined (the events added are determined by the run). -/
theorem Tr.and {m : S σ α} {P Q : SRes α → List Event → Prop} (hp : Tr m P) (hq : Tr m Q) :
    Tr m (fun r evs => P r evs ∧ Q r evs) := by
  intro s
  obtain ⟨e1, h1, h2, h3, h4⟩ := hp s
  obtain ⟨e2, g1, _, _, g4⟩ := hq s
  have : e1 = e2 := by
    have := h1.symm.trans g1
    exact List.reverse_inj.mp (List.append_cancel_right this)
  subst this
  exact ⟨e1, h1, h2, h3, h4, g4⟩

/-! ### Chunk-local properties of the event log -/

/-- A property of event lists that holds of the empty list and of every single event that is
not a command frame, and is preserved by concatenation. -/
class Local (Q : List Event → Prop) : Prop where
  nil : Q []
  single : ∀ e : Event, (∀ f, e ≠ .cmd f) → Q [e]
  append : ∀ a b, Q a → Q b → Q (a ++ b)

instance Local.and (Q1 Q2 : List Event → Prop) [h1 : Local Q1] [h2 : Local Q2] :
    Local (fun evs => Q1 evs ∧ Q2 evs) where
  nil := ⟨h1.nil, h2.nil⟩
  single e he := ⟨h1.single e he, h2.single e he⟩
  append a b ha hb := ⟨h1.append a b ha.1 hb.1, h2.append a b ha.2 hb.2⟩

/-- Every run of `m` adds a chunk of events satisfying `Q`. -/
def Emits (Q : List Event → Prop) (m : S σ α) : Prop := Tr m (fun _ evs => Q evs)

namespace Emits
variable {Q : List Event → Prop} [hQ : Local Q]

theorem pure (a : α) : Emits Q (pure a : S σ α) := (Tr.pure a).conseq fun _ _ h => h.2 ▸ hQ.nil
theorem fail (e : SdErr) : Emits Q (S.fail e : S σ α) := (Tr.fail e).conseq fun _ _ h => h.2 ▸ hQ.nil
theorem lift (x : SRes α) : Emits Q (S.lift x : S σ α) := (Tr.lift x).conseq fun _ _ h => h.2 ▸ hQ.nil
theorem failUninit (e : SdErr) : Emits Q (failUninit e : S σ α) :=
  fun _ => ⟨[], by simp, rfl, rfl, hQ.nil⟩
theorem get : Emits Q (S.get : S σ (St σ)) := fun s => (TrAt.get s).conseq fun _ _ h => h.2 ▸ hQ.nil

theorem bind {m : S σ α} {f : α → S σ β} (hm : Emits Q m) (hf : ∀ a, Emits Q (f a)) :
    Emits Q (m >>= f) :=
  (Tr.bind hm hf).conseq fun r evs h => by
    rcases h with ⟨a, e1, e2, rfl, h1, h2⟩ | ⟨e, _, h⟩ | ⟨p, _, h⟩
    · exact hQ.append _ _ h1 h2
    · exact h
    · exact h

omit hQ in
theorem ite {c : Prop} [Decidable c] {m1 m2 : S σ α} (h1 : Emits Q m1) (h2 : Emits Q m2) :
    Emits Q (if c then m1 else m2) := by
  split
  · exact h1
  · exact h2

omit hQ in
theorem attempt {m : S σ α} (h : Emits Q m) : Emits Q (S.attempt m) :=
  (Tr.attempt h).conseq fun _ _ ⟨_, _, h⟩ => h

end Emits

/-- Apply the structural rules of `Emits` and the given facts about sub-computations. -/
syntax "emits" "[" term,* "]" : tactic
macro_rules
  | `(tactic| emits [$ts,*]) =>
    `(tactic| (
        try dsimp only
        repeat (with_reducible first
          | exact Emits.pure _ | exact Emits.fail _ | exact Emits.failUninit _ | exact Emits.lift _ | exact Emits.get
          $[| exact $ts]*
          | apply Emits.bind
          | apply Emits.ite
          | apply Emits.attempt
          | intro _
          | split)))

/-! ### Primitives -/

section prim
variable (B : BusOps σ)

theorem xferEv_tr (ev : Event) :
    Tr (xferEv B ev) (fun r evs => evs = [ev] ∧ ((∃ bs, r = .ok bs) ∨ r = .err .Transport)) := by
  intro s
  unfold TrAt xferEv
  rcases B.xfer s.bus ev.bytes with ⟨b', r⟩
  cases r <;> exact ⟨[ev], by simp⟩

theorem readByte_tr :
    Tr (readByte B) (fun r evs => (∃ g, g < 256 ∧ r = .ok g ∧ evs = [.poll g]) ∨
      (r = .err .Transport ∧ evs = [.poll 256])) := by
  intro s
  unfold TrAt readByte
  rcases B.xfer s.bus [0xFF] with ⟨b', r⟩
  cases r with
  | none => exact ⟨[.poll 256], by simp⟩
  | some miso => exact ⟨[.poll (miso.getD 0 0).toNat], by simp; exact UInt8.toNat_lt _⟩

theorem delayTick_tr : Tr (delayTick B) (fun r evs => r = .ok () ∧ evs = []) :=
  fun s => ⟨[], by simp [delayTick]⟩

theorem writeByte_tr (x : UInt8) :
    Tr (writeByte B x) (fun r evs => evs = [.byte x] ∧ (r = .ok () ∨ r = .err .Transport)) := by
  unfold writeByte
  refine (Tr.bind (xferEv_tr B _) fun _ => Tr.pure ()).conseq ?_
  rintro r evs (⟨a, e1, e2, rfl, ⟨rfl, _⟩, rfl, rfl⟩ | ⟨e, rfl, rfl, h⟩ | ⟨p, rfl, rfl, h⟩)
  · simp
  · simpa using h
  · simp at h

variable {Q : List Event → Prop} [hQ : Local Q]

theorem xferEv_emits (ev : Event) (hev : ∀ f, ev ≠ .cmd f) : Emits Q (xferEv B ev) :=
  (xferEv_tr B ev).conseq fun _ _ h => h.1 ▸ hQ.single ev hev

theorem readByte_emits : Emits Q (readByte B) :=
  (readByte_tr B).conseq fun _ _ h => by
    rcases h with ⟨g, _, _, rfl⟩ | ⟨_, rfl⟩ <;> exact hQ.single _ (by simp)

theorem delayTick_emits : Emits Q (delayTick B) := (delayTick_tr B).conseq fun _ _ h => h.2 ▸ hQ.nil

theorem writeByte_emits (x : UInt8) : Emits Q (writeByte B x) :=
  (writeByte_tr B x).conseq fun _ _ h => h.1 ▸ hQ.single _ (by simp)

end prim

end Sdmmc.Lemmas.Sd
