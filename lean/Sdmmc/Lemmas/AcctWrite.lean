/-
C16 at the API level, part 3 — the call `write` with its accounting (`write_acct`): after `write`,
whatever its outcome, both FAT copies are still identical, the in-memory free count went down by
the number of clusters the file's chain grew by, and so did the number of free FAT entries.
-/
import Sdmmc.Lemmas.AcctLoop
import Sdmmc.Lemmas.RetryWriteTop

namespace Sdmmc.Lemmas.Acct
open Sdmmc.Model Sdmmc.Model.Fat Sdmmc.Spec
open Sdmmc.Lemmas.FBasic hiding NoFault Coherent
open Sdmmc.Lemmas.FatOps hiding BlocksOK Mirror HintOK
open Sdmmc.Lemmas.ChainL Sdmmc.Lemmas.ForestBase Sdmmc.Lemmas.ForestOwns Sdmmc.Lemmas.ReadRefines
open Sdmmc.Lemmas.WriteRefines
open Sdmmc.Lemmas.Retry (writeRest_state' prologue_inv_chain prologue_inv_first)

/-- A consistent file has exactly one chain. -/
theorem fileOK_chain_unique {v : FatVolume} {d : Disk} {f : FileInfo} {cs1 cs2 : List Nat}
    (h1 : FileOK v d f cs1) (h2 : FileOK v d f cs2) : cs1 = cs2 := by
  rcases h1.chain with ⟨hlt, e1, _⟩ | c1
  · rcases h2.chain with ⟨_, e2, _⟩ | c2
    · rw [e1, e2]
    · have := (chain_inRange c2 _ (chain_head_mem c2)).1; omega
  · rcases h2.chain with ⟨hlt, _, _⟩ | c2
    · have := (chain_inRange c1 _ (chain_head_mem c1)).1; omega
    · exact chain_unique c1 cs2 c2

/-- **`write` with its accounting.**  Under the hypotheses of `write_refines`: in the end state the
file's record `f'` (slot `i`) is consistent with a chain `cs'` that is `k` clusters longer than `cs`,
and `Acct … k` holds between start and end. -/
theorem write_acct (s : Mgr) (h i vi : Nat) (data : Bytes) (f : FileInfo) (v : VolInfo) (cs : List Nat)
    (A B : List (List Nat)) (hs : MOK s)
    (hh : s.files.findIdx? (·.rawFile = h) = some i) (hf : s.files[i]? = some f)
    (hv : s.vols.findIdx? (·.rawVolume = f.rawVolume) = some vi) (hvi : s.vols[vi]? = some v)
    (hmode : f.mode ≠ .ReadOnly) (hg : WFGeom v.vol) (hhint : HintOK v.vol)
    (hok : FileOK v.vol s.dev.disk f cs) (hcur : cs = [] → f.curCluster < 2)
    (hown : Owns v.vol s.dev.disk (withChain A cs B)) :
    ∃ f' v' cs' k, (Model.write h data s).2.files[i]? = some f' ∧ (Model.write h data s).2.vols[vi]? = some v' ∧
      FileOK v'.vol (Model.write h data s).2.dev.disk f' cs' ∧ SameGeom v.vol v'.vol ∧ cs'.length = cs.length + k ∧
      Acct v.vol v'.vol s.dev.disk (Model.write h data s).2.dev.disk k ∧
      (f'.currentOffset = f.currentOffset + min data.length (Gen.MAX_FILE_SIZE - f.currentOffset) ∨
        (f'.currentOffset = cs'.length * clusterBytesLen v.vol ∧ Full v'.vol (Model.write h data s).2.dev.disk)) ∧
      (cs' = [] → (Model.write h data s).1 = .err .NotEnoughSpace) := by
  rw [write_run s h i vi data f hh hf hv hmode]
  have hilt : i < s.files.length := (List.getElem?_eq_some_iff.1 hf).1
  have hvilt : vi < s.vols.length := (List.getElem?_eq_some_iff.1 hvi).1
  generalize hfa : touchFile s.clock f = fa
  generalize hsa : ({ s with files := s.files.set i fa } : Mgr) = sa
  have hsa_f : sa.files[i]? = some fa := by rw [← hsa]; exact List.getElem?_set_self hilt
  have hsa_v : sa.vols.findIdx? (·.rawVolume = f.rawVolume) = some vi := by rw [← hsa]; exact hv
  unfold writeTail
  by_cases hcl : f.entry.cluster < 2
  · have hcs : cs = [] := by
      rcases hok.chain with ⟨_, h1, _⟩ | h1
      · exact h1
      · have := (chain_inRange h1 _ (chain_head_mem h1)).1; omega
    subst hcs
    rw [withChain_nil] at hown
    rw [if_pos (show f.entry.cluster < Gen.RESERVED_ENTRIES from hcl)]
    have hsa_vol : sa.vols[vi]? = some v := by rw [← hsa]; exact hvi
    have hfs : fsOf sa v = fsOf s v := by rw [← hsa]; rfl
    have hallocM := withVol_run vi (allocCluster none false) sa v hsa_vol
    rw [hfs] at hallocM
    rcases ForestAlloc.alloc_total (fsOf s v) none false hs.1 hs.2.1 with ⟨c, fs2, ha⟩ | ⟨fs2, ha, hd2, hv2, _, _⟩
    · -- the first cluster was allocated
      have hacct0 := alloc_acct (fsOf s v) fs2 none false c hs.1 hs.2.1 hs.2.2.1 hg hhint (fun p hp => by cases hp) ha
      simp only [fsOf_vol, fsOf_dev] at hacct0
      obtain ⟨hinv, hsg0⟩ := prologue_inv_first s i vi f v A B c fs2 hs hf hvi hg hhint hok (hcur rfl) hown ha
      rw [ha] at hallocM
      simp only at hallocM
      generalize hv1def : ({ v with vol := fs2.vol } : VolInfo) = v1 at hallocM hinv
      have hv1vol : v1.vol = fs2.vol := by rw [← hv1def]
      generalize hsb : ({ sa with dev := fs2.dev, cache := fs2.cache, vols := sa.vols.set vi v1 } : Mgr) = sb at hallocM
      rw [MHoare.bind_ok hallocM]
      generalize hfcdef : ({ fa with entry := { fa.entry with cluster := c } } : FileInfo) = fc
      have hmodc : modifyFile i (fun g => { g with entry := { g.entry with cluster := c } }) sb =
          (.ok (), { sb with files := sb.files.set i fc }) := by
        show (Res.ok (), ({ sb with files := sb.files.modify i _ } : Mgr)) = _
        rw [modify_eq_set _ _ _ _ (by rw [← hsb]; exact hsa_f), hfcdef]
      rw [MHoare.bind_ok hmodc]
      generalize hsc : ({ sb with files := sb.files.set i fc } : Mgr) = sc
      have hsc_f : sc.files[i]? = some fc := by
        rw [← hsc]; exact List.getElem?_set_self (by rw [← hsb, ← hsa, List.length_set]; exact hilt)
      have hsc_v : sc.vols.findIdx? (·.rawVolume = f.rawVolume) = some vi := by
        rw [← hsc, ← hsb, ← hsa]
        show (s.vols.set vi v1).findIdx? _ = _
        rw [findIdx?_set_same _ s.vols vi v v1 hvi (by rw [← hv1def])]; exact hv
      have hst := writeRest_state' i vi f.rawVolume data sc fc hsc_f hsc_v
      have hoffc : (fixup fc).currentOffset = f.currentOffset := by
        unfold fixup; rw [← hfcdef, ← hfa]; split <;> rfl
      rw [hoffc] at hst
      generalize hn : min data.length (Gen.MAX_FILE_SIZE - f.currentOffset) = n at hst
      show ∃ f' v' cs' k, (writeRest f.rawVolume i data sc).2.files[i]? = some f' ∧ _
      rw [hst]
      generalize hsd : ({ sc with files := sc.files.set i (fixup fc) } : Mgr) = sd
      have hsd_eq : sd = { s with dev := fs2.dev, cache := fs2.cache, files := s.files.set i (fixup fc), vols := s.vols.set vi v1 } := by
        rw [← hsd, ← hsc, ← hsb, ← hsa]
        simp only [List.set_set]
      have hinv' : WInv i vi A B sd (fixup fc) v1 [c] := by
        rw [hsd_eq, ← hfcdef, ← hfa]; exact hinv
      obtain ⟨r, s', f', v', cs', k, hrun, h', hsg', hlen', hacct', hoff'⟩ :=
        writeLoop_acct i vi A B (n + 1) (data.take n) sd (fixup fc) v1 [c] (by rw [List.length_take]; omega) hinv'
      rw [hrun]
      have hsg1 : SameGeom v.vol v1.vol := by rw [hv1vol]; exact hsg0
      refine ⟨f', v', cs', 1 + k, h'.file, h'.vol, h'.fileOK, hsg1.trans hsg', by rw [hlen']; simp only [List.length_cons, List.length_nil]; omega, ?_, ?_, fun e => absurd e h'.ne⟩
      · have hd : sd.dev.disk = fs2.dev.disk := by rw [hsd_eq]
        rw [hd] at hacct'
        rw [← hv1vol] at hacct0
        exact Acct.trans hsg1 hacct0 hacct'
      · rcases hoff' with ho | ⟨ho, hfl⟩
        · left
          rw [ho, hoffc, List.length_take, ← hn]; omega
        · right
          exact ⟨by rw [ho, sameGeom_clusterBytesLen hsg1], hfl⟩
    · -- the volume is full
      rw [ha] at hallocM
      simp only at hallocM
      have hvself : ({ v with vol := fs2.vol } : VolInfo) = v := by rw [hv2]; rfl
      rw [hvself, list_set_self _ _ _ hsa_vol] at hallocM
      rw [MHoare.bind_err hallocM]
      have hfull : Full v.vol s.dev.disk := by
        intro c hc hfree
        obtain ⟨c', fs', ha'⟩ := alloc_succeeds_if_free (fsOf s v) none false hs.1 hs.2.1 hhint ⟨c, hc.1, hc.2, hfree⟩
        rw [ha] at ha'; cases ha'
      have hoff0 : f.currentOffset = 0 := by
        have h3 : f.entry.size = 0 := by
          rcases hok.chain with ⟨_, _, h3⟩ | h3
          · exact h3
          · exact absurd rfl (chain_ne_nil h3)
        have := hok.pos_le; omega
      refine ⟨fa, v, [], 0, hsa_f, hsa_vol, ?_, SameGeom.refl _, rfl, ?_,
        .inr ⟨by rw [← hfa]; show f.currentOffset = _; rw [hoff0]; simp, by show Full v.vol fs2.dev.disk; rw [hd2]; exact hfull⟩,
        fun _ => rfl⟩
      · show FileOK v.vol fs2.dev.disk fa []
        rw [← hfa]
        exact ⟨.inl ⟨hcl, rfl, by
          rcases hok.chain with ⟨_, _, h3⟩ | h3
          · exact h3
          · exact absurd rfl (chain_ne_nil h3)⟩, hok.size_fits, hok.pos_le, .inl rfl⟩
      · show Acct v.vol v.vol s.dev.disk fs2.dev.disk 0
        rw [hd2]; exact Acct.refl _ _
  · rw [if_neg (show ¬ f.entry.cluster < Gen.RESERVED_ENTRIES from hcl)]
    have hinv := prologue_inv_chain s i vi f v cs A B hs hf hvi hg hhint hok hown hcl
    have hst := writeRest_state' i vi f.rawVolume data sa fa hsa_f hsa_v
    have hoffc : (fixup fa).currentOffset = f.currentOffset := by
      unfold fixup; rw [← hfa]; split <;> rfl
    rw [hoffc] at hst
    generalize hn : min data.length (Gen.MAX_FILE_SIZE - f.currentOffset) = n at hst
    show ∃ f' v' cs' k, (writeRest f.rawVolume i data sa).2.files[i]? = some f' ∧ _
    rw [hst]
    generalize hsd : ({ sa with files := sa.files.set i (fixup fa) } : Mgr) = sd
    have hsd_eq : sd = { s with files := (s.files.set i fa).set i (fixup fa) } := by rw [← hsd, ← hsa]
    have hinv' : WInv i vi A B sd (fixup fa) v cs := by rw [hsd_eq, ← hfa]; exact hinv
    obtain ⟨r, s', f', v', cs', k, hrun, h', hsg', hlen', hacct', hoff'⟩ :=
      writeLoop_acct i vi A B (n + 1) (data.take n) sd (fixup fa) v cs (by rw [List.length_take]; omega) hinv'
    rw [hrun]
    have hd : sd.dev.disk = s.dev.disk := by rw [hsd_eq]
    rw [hd] at hacct'
    refine ⟨f', v', cs', k, h'.file, h'.vol, h'.fileOK, hsg', hlen', hacct', ?_, fun e => absurd e h'.ne⟩
    rcases hoff' with ho | ho
    · left
      rw [ho, hoffc, List.length_take, ← hn]; omega
    · exact .inr ho

end Sdmmc.Lemmas.Acct
