/-
C11 (device faults) with several open volumes, part 2 — WHAT THE OTHER VOLUMES KEEP.

* `dirsInv_samePartition` — the directories of a volume are sound (`FaultInv.DirsInv`: chains, clean tails, PAIRWISE
  DISTINCT NAMES, dot entries) on every medium that holds its partition byte for byte;
* `StaysIn s op v` — what is needed of a (faulted) call on a volume with record `v`: no block outside the partition of `v`
  changes, and the medium still consists of 512-byte blocks (the second clause is there because `MedInv` speaks of ALL
  blocks of the medium);
* `other_records`, `other_partition`, `other_medInv`, `other_dirsInv` — after a call addressed to volume record `i`, under
  ANY pending schedule: every other volume record is unchanged, its open files and directories are the same records (up
  to the order of the tables), its partition is unchanged byte for byte, its medium invariant `MedInv` holds on the
  medium the call leaves — so its directories are sound there;
* `own_dirsInv` — the volume worked on has sound directories on the medium the call leaves (the one-volume theorem
  `Props.C11Inv.names_unique_after_fault` on the projection);
* `untargeted_state_F` — a call whose handle leads to no open volume (and that is none of the five table calls) leaves
  the state alone, under any schedule: it answers before it touches the device.
-/
import Sdmmc.Lemmas.VolNFault
import Sdmmc.Props.C03All

namespace Sdmmc.Lemmas.VolNFault
open Sdmmc.Model Sdmmc.Model.Fat Sdmmc.Spec.Volume
open Sdmmc.Spec hiding run step NoFault Coherent
open Sdmmc.Lemmas.VolN (LabelFresh ProjRel StepSim projH)
open Sdmmc.Lemmas.MHoare
open Sdmmc.Props

/-! ### Directories on a medium that holds the partition -/

theorem dirsInv_samePartition {v : FatVolume} {d d' : Disk} {files : List FileInfo} {gh : Ghost} {X : List (List Nat)}
    (hM : Lemmas.VolMed.MedX v d files gh X) (hs : SamePartition v d d') : Lemmas.FaultInv.DirsInv v d' gh := by
  refine (Lemmas.FaultInv.dirsInv_of_med hM).congr (fun h hh hf x hx => ?_) (fun h hh s hsl => ?_)
  · have hm := (Lemmas.VolMed.dirChain_spec hM hh hf).1
    have hx' := (Lemmas.VolMed.med_inRange hM hm hx).2
    unfold fatRaw
    rw [hs _ (Lemmas.VolN.inPartition_of_region (.inl (FatLens.fat_blocks_in_fat_region v hM.geom x hx').1))]
  · rcases Lemmas.VolMed.dirSlot_not_fat hM hh hsl with e | e
    · exact hs _ (Lemmas.VolN.inPartition_of_region (.inr (.inl e)))
    · exact hs _ (Lemmas.VolN.inPartition_of_region (.inr (.inr e)))

theorem namesOK_all (op : Op) : C11Inv.NamesOK op := by
  cases op <;> first | exact C03All.name_ok_all _ | exact trivial

/-! ### The other volumes after an addressed call -/

/-- The call `op` issued in `s` changes no block outside the partition of `v` and leaves 512-byte blocks. -/
structure StaysIn (s : Mgr) (op : Op) (v : FatVolume) : Prop where
  frame : ∀ b, ¬ InPartition v b → (Model.step s op).1.dev.disk.get b = s.dev.disk.get b
  blocks : BlocksOK (Model.step s op).1.dev.disk

section
variable {s : Mgr} {ghs : List Ghost} {op : Op} {i j : Nat} {vi vj : VolInfo} {gh ghj : Ghost}

/-- The records of another volume are kept (up to the order of the directory / file tables). -/
theorem other_records (hI : VolInvNF s ghs) (ht : target s op = some i) (hvi : s.vols[i]? = some vi) (hf : LabelFresh s op)
    (hvj : s.vols[j]? = some vj) (hij : j ≠ i) :
    (Model.step s op).1.vols[j]? = some vj ∧
    (volFiles (Model.step s op).1 vj.rawVolume).Perm (volFiles s vj.rawVolume) ∧
    (volDirs (Model.step s op).1 vj.rawVolume).Perm (volDirs s vj.rawVolume) := by
  obtain ⟨_, _, hk, hv, hd, hfl, _⟩ := step_sim_F hI op ht hvi hf
  have hlen : (Model.step s op).1.vols.length = s.vols.length := by simpa using congrArg List.length hk
  have hne : vj.rawVolume ≠ vi.rawVolume := fun e => hij (Lemmas.VolN.index_of_handle (s := s) hI.handles hvj hvi e)
  refine ⟨(Lemmas.VolN.getElem?_of_eraseIdx_eq hv hlen hij).trans hvj, ?_, ?_⟩
  · rw [Lemmas.VolN.volFiles_of_other hne, Lemmas.VolN.volFiles_of_other hne]
    exact hfl.filter _
  · have e : ∀ t : Mgr, volDirs t vj.rawVolume =
        (otherDirs t vi.rawVolume).filter fun d => decide (d.rawVolume = vj.rawVolume) := by
      intro t
      unfold volDirs otherDirs
      rw [List.filter_filter]
      apply List.filter_congr
      intro d _
      by_cases h : d.rawVolume = vj.rawVolume
      · simp [h, hne]
      · simp [h]
    rw [e, e]
    exact hd.filter _

/-- A block of the partition of another open volume is no block of the partition of volume `i`. -/
theorem not_in_own (hI : VolInvNF s ghs) (hvi : s.vols[i]? = some vi) (hgh : ghs[i]? = some gh) (hvj : s.vols[j]? = some vj)
    (hij : j ≠ i) {b : Nat} (hb : InPartition vj.vol b) : ¬ InPartition gh.vol b := by
  rw [← hI.vols i vi gh hvi hgh]
  exact fun hbi => hI.parts i j vi vj hvi hvj (Ne.symm hij) b hbi hb

/-- The partition of another volume is unchanged, byte for byte. -/
theorem other_partition (hI : VolInvNF s ghs) (hvi : s.vols[i]? = some vi) (hgh : ghs[i]? = some gh)
    (hfr : ∀ b, ¬ InPartition gh.vol b → (Model.step s op).1.dev.disk.get b = s.dev.disk.get b)
    (hvj : s.vols[j]? = some vj) (hij : j ≠ i) : SamePartition vj.vol s.dev.disk (Model.step s op).1.dev.disk :=
  fun _ hb => hfr _ (not_in_own hI hvi hgh hvj hij hb)

/-- **The medium invariant of another volume survives** a call on volume `i`, whatever device call of it failed. -/
theorem other_medInv (hI : VolInvNF s ghs) (ht : target s op = some i) (hvi : s.vols[i]? = some vi) (hgh : ghs[i]? = some gh)
    (hf : LabelFresh s op) (hst : StaysIn s op gh.vol) (hvj : s.vols[j]? = some vj) (hghj : ghs[j]? = some ghj) (hij : j ≠ i) :
    MedInv ghj.vol (Model.step s op).1.dev.disk (volFiles (Model.step s op).1 vj.rawVolume) ghj := by
  have hM : MedInv ghj.vol s.dev.disk (volFiles s vj.rawVolume) ghj := hI.med j vj ghj hvj hghj
  have hvol : vj.vol = ghj.vol := hI.vols j vj ghj hvj hghj
  have hM' := Lemmas.VolN.medInv_congr_partition hM hst.blocks (fun b hb => by
    rw [← hvol] at hb
    exact other_partition hI hvi hgh hst.frame hvj hij b hb)
  exact Lemmas.VolN.medInv_files_perm hM' (other_records hI ht hvi hf hvj hij).2.1.symm

/-- **The directories of another volume are sound on the medium the call leaves** (this needs the frame only). -/
theorem other_dirsInv (hI : VolInvNF s ghs) (hvi : s.vols[i]? = some vi) (hgh : ghs[i]? = some gh)
    (hfr : ∀ b, ¬ InPartition gh.vol b → (Model.step s op).1.dev.disk.get b = s.dev.disk.get b)
    (hvj : s.vols[j]? = some vj) (hghj : ghs[j]? = some ghj) (hij : j ≠ i) :
    Lemmas.FaultInv.DirsInv ghj.vol (Model.step s op).1.dev.disk ghj := by
  have hM : MedInv ghj.vol s.dev.disk (volFiles s vj.rawVolume) ghj := hI.med j vj ghj hvj hghj
  have hvol : vj.vol = ghj.vol := hI.vols j vj ghj hvj hghj
  refine dirsInv_samePartition (Lemmas.VolMed.medX_of_med hM) ?_
  rw [← hvol]
  exact other_partition hI hvi hgh hfr hvj hij

/-- **The directories of the volume worked on are sound on the medium the call leaves** — for some record `G'` of
chains; the tree `gh.dirs` is the one before the call. -/
theorem own_dirsInv (hI : VolInvNF s ghs) (ht : target s op = some i) (hvi : s.vols[i]? = some vi) (hgh : ghs[i]? = some gh) :
    ∃ G', Lemmas.FaultInv.DirsInv gh.vol (Model.step s op).1.dev.disk { vol := gh.vol, G := G', dirs := gh.dirs } := by
  by_cases hro : Fault.readOnlyOp op = true
  · rw [(Fault.step_readonly_nowrite s op hro).1]
    have hM : MedInv gh.vol s.dev.disk (volFiles s vi.rawVolume) gh := hI.med i vi gh hvi hgh
    exact ⟨gh.G, Lemmas.FaultInv.dirsInv_of_med (Lemmas.VolMed.medX_of_med hM)⟩
  · have hro' : Fault.readOnlyOp op = false := by cases h : Fault.readOnlyOp op with | true => exact absurd h hro | false => rfl
    rw [step_dev_F hI op ht hvi (labelFresh_of_not_readonly hro')]
    exact Lemmas.MainC11.names_F (volInvF_projH hI hvi hgh) op (namesOK_all op)

end

/-! ### Calls whose handle leads to no open volume -/

theorem fileTarget_none_F {s : Mgr} {ghs : List Ghost} (hI : VolInvNF s ghs) {f : Nat} (ht : fileTarget s f = none) :
    s.files.findIdx? (·.rawFile = f) = none :=
  Lemmas.VolN.fileTarget_none (s := clearFaults s) hI ht

/-- A call that works on no volume record and is not one of the five table calls leaves the state alone — under any
schedule: it answers `BadHandle` (or a table-full error) before it touches the device. -/
theorem untargeted_state_F {s : Mgr} (hft : ∀ f, fileTarget s f = none → s.files.findIdx? (·.rawFile = f) = none) (op : Op)
    (ht : target s op = none) (h1 : ∀ i, op ≠ .openVolume i) (h2 : ∀ v, op ≠ .closeVolume v) (h3 : ∀ v, op ≠ .openRoot v)
    (h4 : ∀ d, op ≠ .closeDir d) (h5 : op ≠ .hasOpen) : (runOp op s).2 = s := by
  have hfile : ∀ {α : Type} (f : Nat) (k : Nat → M α), fileTarget s f = none → ∃ e, (getFileById f >>= k) s = (.err e, s) :=
    fun f k h => ⟨_, bind_err (getFileById_bad (hft f h))⟩
  cases op with
  | openVolume i => exact absurd rfl (h1 i)
  | closeVolume v => exact absurd rfl (h2 v)
  | openRoot v => exact absurd rfl (h3 v)
  | closeDir d => exact absurd rfl (h4 d)
  | hasOpen => exact absurd rfl h5
  | openDir d name =>
    show ((openDir d name >>= fun h => (pure (Payload.handle h) : M Payload)) s).2 = s
    rw [VolApi.map_state]
    unfold openDir
    rw [get_bind]
    by_cases hc : s.dirs.length ≥ s.maxDirs
    · rw [if_pos hc]; rfl
    · rw [if_neg hc, Lemmas.VolN.dirPrologue_untargeted (s := s) ht _]
  | openFile d name mode =>
    show ((openFileInDir d name mode >>= fun h => (pure (Payload.handle h) : M Payload)) s).2 = s
    rw [VolApi.map_state]
    unfold openFileInDir
    rw [get_bind]
    by_cases hc : s.files.length ≥ s.maxFiles
    · rw [if_pos hc]; rfl
    · rw [if_neg hc, Lemmas.VolN.dirPrologue_untargeted (s := s) ht _]
  | delete d name =>
    show ((deleteFileInDir d name >>= fun _ => (pure Payload.unit : M Payload)) s).2 = s
    rw [VolApi.seq_state]
    unfold deleteFileInDir
    rw [Lemmas.VolN.dirPrologue_untargeted (s := s) ht _]
  | mkdir d name =>
    show ((makeDirInDir d name >>= fun _ => (pure Payload.unit : M Payload)) s).2 = s
    rw [VolApi.seq_state]
    unfold makeDirInDir
    rw [get_bind]
    by_cases hc : s.dirs.length ≥ s.maxDirs
    · rw [if_pos hc]; rfl
    · rw [if_neg hc, Lemmas.VolN.dirPrologue_untargeted (s := s) ht _]
  | find d name =>
    show ((Model.findDirectoryEntry d name >>= fun e => (pure (Payload.entry e) : M Payload)) s).2 = s
    rw [VolApi.map_state]
    unfold Model.findDirectoryEntry
    rw [Lemmas.VolN.dirPrologue_untargeted (s := s) ht _]
  | list d =>
    show ((iterateDir d >>= fun e => (pure (Payload.entries e) : M Payload)) s).2 = s
    rw [VolApi.map_state]
    unfold iterateDir
    rw [Lemmas.VolN.dirPrologue_untargeted (s := s) ht _]
  | listLfn d n =>
    show ((iterateDirLfn d n >>= fun e => (pure (Payload.lfnEntries e) : M Payload)) s).2 = s
    rw [VolApi.map_state]
    unfold iterateDirLfn
    rw [Lemmas.VolN.dirPrologue_untargeted (s := s) ht _]
  | read f n =>
    show ((Model.read f n >>= fun b => (pure (Payload.bytes b) : M Payload)) s).2 = s
    rw [VolApi.map_state]
    unfold Model.read
    obtain ⟨e, he⟩ := hfile f _ ht
    rw [he]
  | write f b =>
    show ((Model.write f b >>= fun _ => (pure Payload.unit : M Payload)) s).2 = s
    rw [VolApi.seq_state]
    unfold Model.write
    obtain ⟨e, he⟩ := hfile f _ ht
    rw [he]
  | seekStart f n =>
    show ((fileSeekFromStart f n >>= fun _ => (pure Payload.unit : M Payload)) s).2 = s
    rw [VolApi.seq_state]
    unfold fileSeekFromStart
    obtain ⟨e, he⟩ := hfile f _ ht
    rw [he]
  | seekCur f n =>
    show ((fileSeekFromCurrent f n >>= fun _ => (pure Payload.unit : M Payload)) s).2 = s
    rw [VolApi.seq_state]
    unfold fileSeekFromCurrent
    obtain ⟨e, he⟩ := hfile f _ ht
    rw [he]
  | seekEnd f n =>
    show ((fileSeekFromEnd f n >>= fun _ => (pure Payload.unit : M Payload)) s).2 = s
    rw [VolApi.seq_state]
    unfold fileSeekFromEnd
    obtain ⟨e, he⟩ := hfile f _ ht
    rw [he]
  | flush f =>
    show ((flushFile f >>= fun _ => (pure Payload.unit : M Payload)) s).2 = s
    rw [VolApi.seq_state]
    unfold flushFile
    obtain ⟨e, he⟩ := hfile f _ ht
    rw [he]
  | closeFile f =>
    show ((closeFile f >>= fun _ => (pure Payload.unit : M Payload)) s).2 = s
    rw [VolApi.seq_state]
    have hn := hft f ht
    have hfl : flushFile f s = (.err .BadHandle, s) := by
      unfold flushFile
      rw [bind_err (getFileById_bad hn)]
    unfold closeFile
    rw [attempt_bind, hfl]
    simp only
    rw [bind_err (getFileById_bad hn)]
  | length f =>
    show ((fileLength f >>= fun n => (pure (Payload.num n) : M Payload)) s).2 = s
    rw [VolApi.map_state]
    unfold fileLength
    obtain ⟨e, he⟩ := hfile f _ ht
    rw [he]
  | offset f =>
    show ((fileOffset f >>= fun n => (pure (Payload.num n) : M Payload)) s).2 = s
    rw [VolApi.map_state]
    unfold fileOffset
    obtain ⟨e, he⟩ := hfile f _ ht
    rw [he]
  | eof f =>
    show ((fileEof f >>= fun n => (pure (Payload.bool n) : M Payload)) s).2 = s
    rw [VolApi.map_state]
    unfold fileEof
    obtain ⟨e, he⟩ := hfile f _ ht
    rw [he]
  | label v =>
    show ((getRootVolumeLabel v >>= fun l => (pure (Payload.label l) : M Payload)) s).2 = s
    rw [VolApi.map_state]
    unfold getRootVolumeLabel
    rw [bind_err (getVolumeById_bad ht)]

end Sdmmc.Lemmas.VolNFault
