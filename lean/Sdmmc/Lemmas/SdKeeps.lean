/-
Lemmas for C13, part 6: which functions leave the `card_type` field alone, and what `acquire`
does to it.
-/
import Sdmmc.Lemmas.SdBasic

namespace Sdmmc.Lemmas.Sd
open Sdmmc.Model Sdmmc.Model.Sd Sdmmc.Gen

variable {σ : Type} {α β : Type}

/-- `m` never changes the `card_type` field. -/
def Keeps (m : S σ α) : Prop := ∀ s, (m s).2.cardType = s.cardType

namespace Keeps
theorem pure (a : α) : Keeps (pure a : S σ α) := fun _ => rfl
theorem fail (e : SdErr) : Keeps (S.fail e : S σ α) := fun _ => rfl
theorem lift (r : SRes α) : Keeps (S.lift r : S σ α) := fun _ => rfl
theorem get : Keeps (S.get : S σ (St σ)) := fun _ => rfl
theorem bind {m : S σ α} {f : α → S σ β} (hm : Keeps m) (hf : ∀ a, Keeps (f a)) : Keeps (m >>= f) := by
  intro s
  have h1 := hm s
  rw [bind_apply]
  rcases hms : m s with ⟨r, s'⟩
  rw [hms] at h1
  cases r with
  | ok a => exact (hf a s').trans h1
  | err e => exact h1
  | panic p => exact h1
theorem ite {c : Prop} [Decidable c] {m1 m2 : S σ α} (h1 : Keeps m1) (h2 : Keeps m2) :
    Keeps (if c then m1 else m2) := by split <;> assumption
theorem attempt {m : S σ α} (h : Keeps m) : Keeps (S.attempt m) := h
end Keeps

variable (B : BusOps σ)

theorem xferEv_keeps (ev : Event) : Keeps (xferEv B ev) := by
  intro s; unfold xferEv
  rcases B.xfer s.bus ev.bytes with ⟨b', r⟩
  cases r <;> rfl

theorem readByte_keeps : Keeps (readByte B) := by
  intro s; unfold readByte
  rcases B.xfer s.bus [0xFF] with ⟨b', r⟩
  cases r <;> rfl

theorem delayTick_keeps : Keeps (delayTick B) := fun _ => rfl

/-- Apply the structural rules of `Keeps` and the given facts about sub-computations. -/
syntax "keeps_tac" "[" term,* "]" : tactic
macro_rules
  | `(tactic| keeps_tac [$ts,*]) =>
    `(tactic| (
        try dsimp only
        repeat (with_reducible first
          | exact Keeps.pure _ | exact Keeps.fail _ | exact Keeps.lift _ | exact Keeps.get
          $[| exact $ts]*
          | apply Keeps.bind
          | apply Keeps.ite
          | apply Keeps.attempt
          | intro _
          | split
          | contradiction)))

theorem writeByte_keeps (x : UInt8) : Keeps (writeByte B x) := by
  unfold writeByte; keeps_tac [xferEv_keeps B _]

theorem waitNotBusy_keeps (n : Nat) : Keeps (waitNotBusy B n) := by
  induction n with
  | zero => unfold waitNotBusy; keeps_tac [readByte_keeps B]
  | succ n ih => unfold waitNotBusy; keeps_tac [readByte_keeps B, delayTick_keeps B, ih]

theorem waitResponse_keeps (c n : Nat) : Keeps (waitResponse B c n) := by
  induction n with
  | zero => unfold waitResponse; keeps_tac [readByte_keeps B]
  | succ n ih => unfold waitResponse; keeps_tac [readByte_keeps B, delayTick_keeps B, ih]

theorem waitToken_keeps (n : Nat) : Keeps (waitToken B n) := by
  induction n with
  | zero => unfold waitToken; keeps_tac [readByte_keeps B]
  | succ n ih => unfold waitToken; keeps_tac [readByte_keeps B, delayTick_keeps B, ih]

theorem cardCommand_keeps (c arg : Nat) : Keeps (cardCommand B c arg) := by
  unfold cardCommand
  keeps_tac [waitNotBusy_keeps B _, waitResponse_keeps B _ _, readByte_keeps B, xferEv_keeps B _]

theorem cardAcmd_keeps (c arg : Nat) : Keeps (cardAcmd B c arg) := by
  unfold cardAcmd; keeps_tac [cardCommand_keeps B _ _]

theorem readData_keeps (len : Nat) : Keeps (readData B len) := by
  unfold readData
  keeps_tac [waitToken_keeps B _, xferEv_keeps B _]

theorem writeData_keeps (tok : Nat) (buf : Bytes) : Keeps (writeData B tok buf) := by
  unfold writeData
  keeps_tac [writeByte_keeps B _, xferEv_keeps B _, readByte_keeps B]

theorem flushBytes_keeps (n : Nat) : Keeps (flushBytes B n) := by
  induction n with
  | zero => unfold flushBytes; keeps_tac []
  | succ n ih => unfold flushBytes; keeps_tac [writeByte_keeps B _, ih]

theorem readBlocks_keeps (n : Nat) : Keeps (readBlocks B n) := by
  induction n with
  | zero => unfold readBlocks; keeps_tac []
  | succ n ih => unfold readBlocks; keeps_tac [readData_keeps B _, ih]

theorem writeBlocks_keeps (l : List Bytes) : Keeps (writeBlocks B l) := by
  induction l with
  | nil => unfold writeBlocks; keeps_tac []
  | cons b rest ih => unfold writeBlocks; keeps_tac [waitNotBusy_keeps B _, writeData_keeps B _ _, ih]

theorem checkVersionStep_keeps (next : Option (S _ (CardType × Nat))) (hn : ∀ k, next = some k → Keeps k) :
    Keeps (checkVersionStep B next) := by
  cases next with
  | none => unfold checkVersionStep; keeps_tac [cardCommand_keeps B _ _, xferEv_keeps B _]
  | some k =>
    have := hn k rfl
    unfold checkVersionStep
    keeps_tac [cardCommand_keeps B _ _, xferEv_keeps B _, delayTick_keeps B, this]

theorem checkVersion_keeps (n : Nat) : Keeps (checkVersion B n) := by
  induction n with
  | zero => unfold checkVersion; exact checkVersionStep_keeps B none (by simp)
  | succ n ih =>
    unfold checkVersion
    exact checkVersionStep_keeps B _ (fun k hk => by cases hk; exact ih)

theorem waitReadyStep_keeps (arg : Nat) (next : Option (S _ Unit)) (hn : ∀ k, next = some k → Keeps k) :
    Keeps (waitReadyStep B arg next) := by
  cases next with
  | none => unfold waitReadyStep; keeps_tac [cardAcmd_keeps B _ _]
  | some k =>
    have := hn k rfl
    unfold waitReadyStep; keeps_tac [cardAcmd_keeps B _ _, delayTick_keeps B, this]

theorem waitReady_keeps (arg n : Nat) : Keeps (waitReady B arg n) := by
  induction n with
  | zero => unfold waitReady; exact waitReadyStep_keeps B arg none (by simp)
  | succ n ih =>
    unfold waitReady
    exact waitReadyStep_keeps B arg _ (fun k hk => by cases hk; exact ih)

theorem stopWrite_keeps : Keeps (stopWrite B) := by
  unfold stopWrite
  keeps_tac [waitNotBusy_keeps B _, writeByte_keeps B _, readByte_keeps B]

theorem write_keeps (blocks : List Bytes) (idx : Nat) : Keeps (write B blocks idx) := by
  unfold write
  keeps_tac [cardCommand_keeps B _ _, cardAcmd_keeps B _ _, waitNotBusy_keeps B _, writeData_keeps B _ _,
    writeBlocks_keeps B _, readByte_keeps B, writeByte_keeps B _]

theorem readCsd_keeps : Keeps (readCsd B) := by
  unfold readCsd
  keeps_tac [cardCommand_keeps B _ _, readData_keeps B _]

theorem numBlocks_keeps : Keeps (numBlocks B) := by
  unfold numBlocks; keeps_tac [readCsd_keeps B]

theorem numBytes_keeps : Keeps (numBytes B) := by
  unfold numBytes; keeps_tac [readCsd_keeps B]

theorem enterSpiModeStep_keeps (next : Option (S _ Unit)) (hn : ∀ k, next = some k → Keeps k) :
    Keeps (enterSpiModeStep B next) := by
  cases next with
  | none => unfold enterSpiModeStep; keeps_tac [cardCommand_keeps B _ _, flushBytes_keeps B _]
  | some k =>
    have := hn k rfl
    unfold enterSpiModeStep; keeps_tac [cardCommand_keeps B _ _, flushBytes_keeps B _, delayTick_keeps B, this]

theorem enterSpiMode_keeps (n : Nat) : Keeps (enterSpiMode B n) := by
  induction n with
  | zero => unfold enterSpiMode; exact enterSpiModeStep_keeps B none (by simp)
  | succ n ih =>
    unfold enterSpiMode
    exact enterSpiModeStep_keeps B _ (fun k hk => by cases hk; exact ih)

theorem read_keeps (n idx : Nat) : Keeps (Sd.read B n idx) := by
  unfold Sd.read
  keeps_tac [cardCommand_keeps B _ _, readData_keeps B _, readBlocks_keeps B _]


/-- Everything in `acquire`'s closure before the final `card_type = Some(..)` either fails or
reaches that assignment: on any result other than `ok` the field is untouched, on `ok` it is set. -/
def SetsOnOk (m : S σ Unit) : Prop :=
  ∀ s, ((m s).1 = .ok () ∧ (m s).2.cardType.isSome) ∨ ((m s).1 ≠ .ok () ∧ (m s).2.cardType = s.cardType)

theorem SetsOnOk.bind {m : S σ α} {f : α → S σ Unit} (hm : Keeps m) (hf : ∀ a, SetsOnOk (f a)) :
    SetsOnOk (m >>= f) := by
  intro s
  have h1 := hm s
  rw [bind_apply]
  rcases hms : m s with ⟨r, s'⟩
  rw [hms] at h1
  cases r with
  | ok a =>
    rcases hf a s' with h | h
    · exact Or.inl h
    · exact Or.inr ⟨h.1, h.2.trans h1⟩
  | err e => exact Or.inr ⟨by simp, h1⟩
  | panic p => exact Or.inr ⟨by simp, h1⟩

theorem SetsOnOk.ite {c : Prop} [Decidable c] {m1 m2 : S σ Unit} (h1 : SetsOnOk m1) (h2 : SetsOnOk m2) :
    SetsOnOk (if c then m1 else m2) := by split <;> assumption

theorem SetsOnOk.fail (e : SdErr) : SetsOnOk (S.fail e : S σ Unit) := fun _ => Or.inr ⟨by simp, rfl⟩

theorem setCardType_setsOnOk (ct : CardType) : SetsOnOk (setCardType ct : S σ Unit) :=
  fun _ => Or.inl ⟨rfl, rfl⟩

theorem acquireBody_setsOnOk : SetsOnOk (acquireBody B) := by
  rw [acquireBody_eq]
  dsimp only
  refine SetsOnOk.bind Keeps.get fun s => SetsOnOk.bind (enterSpiMode_keeps B _) fun _ => ?_
  have hrest : SetsOnOk (do
      let __x ← checkVersion B DEFAULT_COMMAND_RETRIES
      match __x with
        | (ct, arg) => do
          waitReady B arg DEFAULT_COMMAND_RETRIES
          let ct ← (if ct = CardType.SD2 then do
              let r ← cardCommand B CMD58 0
              if r ≠ 0 then S.fail SdErr.Cmd58Error else do
                let buf ← xferEv B (Event.dataIn 4)
                if (List.getD buf 0 0).toNat / 64 = 3 then Pure.pure CardType.SDHC else Pure.pure ct
            else Pure.pure ct : S σ CardType)
          setCardType ct) := by
    refine SetsOnOk.bind (checkVersion_keeps B _) fun x => ?_
    refine SetsOnOk.bind (waitReady_keeps B _ _) fun _ => SetsOnOk.bind ?_ fun ct => setCardType_setsOnOk ct
    keeps_tac [cardCommand_keeps B _ _, xferEv_keeps B _]
  split
  · refine SetsOnOk.bind (cardCommand_keeps B _ _) fun r => ?_
    split
    · exact SetsOnOk.bind (Keeps.fail _) fun _ => hrest
    · exact hrest
  · exact hrest

/-- `acquire` either succeeds with the card type set, or fails with the card type cleared. -/
theorem acquire_cardType (s : St σ) :
    ((acquire B s).1 = .ok () → (acquire B s).2.cardType.isSome) ∧
    (∀ e, (acquire B s).1 = .err e → (acquire B s).2.cardType = none) := by
  have hb := acquireBody_setsOnOk B s
  rw [acquire_eq]
  simp only [bind_apply, attempt_apply]
  rcases hab : acquireBody B s with ⟨r1, s1⟩
  rw [hab] at hb
  have hk := readByte_keeps B s1
  rcases hrb : readByte B s1 with ⟨t1, s2⟩
  rw [hrb] at hk
  simp only at hb hk
  cases r1 with
  | ok u =>
    cases t1 with
    | ok g =>
      rcases hb with h | h
      · simp [hk, h.2]
      · simp at h
    | err e => simp
    | panic p => simp
  | err e => simp
  | panic p => simp

theorem failed_init_leaves_uninit (s s' : St σ) (e : SdErr) (h : acquire B s = (.err e, s')) :
    s'.cardType = none := by
  have := (acquire_cardType B s).2 e (by rw [h])
  rw [h] at this; exact this

theorem acquire_ok_sets (s s' : St σ) (h : acquire B s = (.ok (), s')) : s'.cardType.isSome := by
  have := (acquire_cardType B s).1 (by rw [h])
  rw [h] at this; exact this

theorem checkInit_apply (s : St σ) :
    checkInit B s = if s.cardType.isNone then acquire B s else (.ok (), s) := by
  unfold checkInit
  rw [bind_ok (get_apply s)]
  split <;> rfl

/-- `check_init` runs `acquire` only on an uninitialised card. -/
theorem checkInit_of_some (s : St σ) (h : s.cardType.isSome) : checkInit B s = (.ok (), s) := by
  rw [checkInit_apply]; cases hc : s.cardType <;> simp_all

theorem checkInit_of_none (s : St σ) (h : s.cardType = none) : checkInit B s = acquire B s := by
  rw [checkInit_apply]; simp [h]

/-- After `check_init`: success means the card type is known, failure means it is not. -/
theorem checkInit_cardType (s : St σ) :
    ((checkInit B s).1 = .ok () → (checkInit B s).2.cardType.isSome) ∧
    (∀ e, (checkInit B s).1 = .err e → (checkInit B s).2.cardType = none) := by
  rw [checkInit_apply]
  split
  · exact acquire_cardType B s
  · next h => simp at h ⊢; cases hc : s.cardType <;> simp_all

theorem mark_uninit_resets (s : St σ) :
    call B .markUninit s = (.ok .unit, { s with cardType := none }) := rfl

end Sdmmc.Lemmas.Sd
