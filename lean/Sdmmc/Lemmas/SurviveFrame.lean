/-
C09 over histories, part 1: crash points of a history (`HistCrash`), licences are prefix-closed
(`allLicensed_take`), the frame at every crash point (`crash_frame`, `runLicensed_crash_frame`), 512-byte blocks
at every crash point, and objects no licence names at every crash point (`unnamed_object_at_crash`).
-/
import Sdmmc.Lemmas.WriteSetInvWf

namespace Sdmmc.Lemmas.Survive
open Sdmmc.Model Sdmmc.Model.Fat Sdmmc.Spec.Volume
open Sdmmc.Spec hiding NoFault Coherent
open Sdmmc.Lemmas.WriteSetInv

/-! ### Prefixes of licensed write lists -/

/-- **A prefix of a licensed list of writes is licensed** (each write is judged against the medium the earlier
ones produced, so cutting the list anywhere keeps every judgement). -/
theorem allLicensed_take {v : FatVolume} {L : Licence} : ∀ (ws : List (Nat × Block)) (d : Disk) (k : Nat),
    AllLicensed v d L ws → AllLicensed v d L (ws.take k)
  | [], _, _, _ => by rw [List.take_nil]; trivial
  | _ :: _, _, 0, _ => trivial
  | w :: ws, d, k + 1, h => ⟨h.1, allLicensed_take ws _ k h.2⟩

theorem licensed_length {v : FatVolume} {d : Disk} {L : Licence} {w : Nat × Block} (h : Licensed v d L w) : w.2.length = 512 := by
  rcases h with ⟨_, h, _⟩ | ⟨h, _⟩ | ⟨_, h, _⟩ | ⟨_, _, _, h, _⟩ | ⟨h, _⟩ <;> exact h

theorem allLicensed_blocksOK {v : FatVolume} {L : Licence} : ∀ (ws : List (Nat × Block)) (d : Disk), BlocksOK d →
    AllLicensed v d L ws → BlocksOK (d.applyWrites ws)
  | [], _, hb, _ => hb
  | w :: ws, d, hb, h => by
    rw [FBasic.Disk.applyWrites_cons]
    exact allLicensed_blocksOK ws _ (FatOps.blocksOK_set _ _ _ hb (licensed_length h.1)) h.2

/-- **`crash_frame`**: a byte the licence of a call does not cover is unchanged at EVERY crash point of the call. -/
theorem crash_frame {v : FatVolume} {L : Licence} {d : Disk} {ws : List (Nat × Block)} (h : AllLicensed v d L ws) {b i : Nat}
    (hn : ¬ Covers v L b i) (k : Nat) : ((crashDisk d ws k).get b).getD i 0 = (d.get b).getD i 0 :=
  allLicensed_frame hn _ _ (allLicensed_take ws d k h)

/-! ### Crash points of a history -/

/-- `dk` is a medium a power cut during the history `ops` from `s` can leave: the medium of the state some call of
the history is issued in, with the first `k` device writes of that call applied (`k = 0`: before its first write;
`k ≥` the number of its writes: after its last). -/
def HistCrash : Mgr → List Op → Disk → Prop
  | _, [], _ => False
  | s, op :: ops, dk => (∃ k, dk = crashDisk s.dev.disk (step s op).2.writes k) ∨ HistCrash (step s op).1 ops dk

/-- The same, with the position spelled out. -/
theorem histCrash_iff : ∀ (s : Mgr) (ops : List Op) (dk : Disk), HistCrash s ops dk ↔
    ∃ j op k, ops[j]? = some op ∧
      dk = crashDisk (run s (ops.take j)).1.dev.disk (step (run s (ops.take j)).1 op).2.writes k
  | _, [], _ => ⟨fun h => h.elim, fun ⟨j, op, k, h, _⟩ => by simp at h⟩
  | s, op :: ops, dk => by
    unfold HistCrash
    rw [histCrash_iff (step s op).1 ops dk]
    constructor
    · rintro (⟨k, hk⟩ | ⟨j, op', k, h1, h2⟩)
      · exact ⟨0, op, k, rfl, hk⟩
      · exact ⟨j + 1, op', k, h1, by rw [List.take_succ_cons, run_cons]; exact h2⟩
    · rintro ⟨j, op', k, h1, h2⟩
      cases j with
      | zero =>
        have : op = op' := by simpa using h1
        subst this
        exact .inl ⟨k, h2⟩
      | succ j =>
        refine .inr ⟨j, op', k, by simpa using h1, ?_⟩
        rw [List.take_succ_cons, run_cons] at h2
        exact h2

/-- **`history_crash_frame`**: a byte no licence of the history covers is unchanged at every crash point inside any
call of the history. -/
theorem runLicensed_crash_frame {v0 : FatVolume} {b i : Nat} : ∀ {s : Mgr} {ops : List Op} {Ls : List Licence},
    RunLicensed v0 s ops Ls → (∀ L, L ∈ Ls → ¬ Covers v0 L b i) → ∀ dk, HistCrash s ops dk →
      (dk.get b).getD i 0 = (s.dev.disk.get b).getD i 0
  | _, _, _, .nil _, _, _, h => h.elim
  | _, _, _, .cons s op ops L Ls gh hI hgm hl ha hd rest, hn, dk, h => by
    rcases h with ⟨k, rfl⟩ | h
    · exact crash_frame ha (hn L List.mem_cons_self) k
    · rw [runLicensed_crash_frame rest (fun L' hL' => hn L' (List.mem_cons_of_mem _ hL')) dk h, hd b]
      exact allLicensed_frame (hn L List.mem_cons_self) _ _ ha

/-- Every block of every crash point of a licensed history has 512 bytes. -/
theorem runLicensed_crash_blocksOK {v0 : FatVolume} : ∀ {s : Mgr} {ops : List Op} {Ls : List Licence},
    RunLicensed v0 s ops Ls → ∀ dk, HistCrash s ops dk → BlocksOK dk
  | _, _, _, .nil _, _, h => h.elim
  | _, _, _, .cons s op ops L Ls gh hI hgm hl ha hd rest, dk, h => by
    rcases h with ⟨k, rfl⟩ | h
    · exact allLicensed_blocksOK _ _ hI.med.blocksOK (allLicensed_take _ _ k ha)
    · exact runLicensed_crash_blocksOK rest dk h

/-- A prefix of a licensed history is a licensed history. -/
theorem runLicensed_take {v0 : FatVolume} : ∀ {s : Mgr} {ops : List Op} {Ls : List Licence}, RunLicensed v0 s ops Ls →
    ∀ j, RunLicensed v0 s (ops.take j) (Ls.take j)
  | _, _, _, .nil s, j => by rw [List.take_nil, List.take_nil]; exact .nil s
  | _, _, _, .cons s op ops L Ls gh hI hgm hl ha hd rest, 0 => .nil s
  | _, _, _, .cons s op ops L Ls gh hI hgm hl ha hd rest, j + 1 => by
    rw [List.take_succ_cons, List.take_succ_cons]
    exact .cons s op _ L _ gh hI hgm hl ha hd (runLicensed_take rest j)

/-- The state a call of a licensed history is issued in satisfies the invariant, with the geometry of `v0`. -/
theorem runLicensed_inv {v0 : FatVolume} : ∀ {s : Mgr} {ops : List Op} {Ls : List Licence}, RunLicensed v0 s ops Ls →
    ∀ j, j < ops.length → ∃ gh, VolInv (run s (ops.take j)).1 gh ∧ SameGeom v0 gh.vol
  | _, _, _, .nil _, _, h => by simp at h
  | _, _, _, .cons s op ops L Ls gh hI hgm hl ha hd rest, 0, _ => ⟨gh, hI, hgm⟩
  | _, _, _, .cons s op ops L Ls gh hI hgm hl ha hd rest, j + 1, h => by
    rw [List.take_succ_cons, run_cons]
    exact runLicensed_inv rest j (by simpa using h)

/-! ### Objects at a medium related to the start by the frame -/

/-- What the frame gives for an object every licence spares, between two media with 512-byte blocks. -/
theorem spared_at {v0 : FatVolume} {Ls : List Licence} {d d' : Disk} (hb : BlocksOK d) (hb' : BlocksOK d')
    (hF : ∀ b i, (∀ L, L ∈ Ls → ¬ Covers v0 L b i) → (d'.get b).getD i 0 = (d.get b).getD i 0)
    (sb so : Nat) (cs : List Nat) (hsp : ∀ L, L ∈ Ls → Spares v0 L sb so cs) :
    slice (d'.get sb) so 32 = slice (d.get sb) so 32 ∧
    (∀ x, x ∈ cs → fatRaw v0 d' x = fatRaw v0 d x) ∧
    (∀ c, Chain v0 d c cs → Chain v0 d' c cs) ∧
    chainBytes v0 d' cs = chainBytes v0 d cs := by
  have hraw : ∀ x, x ∈ cs → fatRaw v0 d' x = fatRaw v0 d x := by
    intro x hx
    unfold fatRaw
    refine DirFrames.rawFatEntry_congr _ _ _ _ fun i h1 h2 => ?_
    exact hF _ _ fun L hL => (hsp L hL).2.1 x hx i h1 h2
  refine ⟨?_, hraw, fun c hch => ?_, ?_⟩
  · refine DirSlots.slice_congr _ _ so 32 (by rw [hb' sb, hb sb]) fun i h1 h2 => ?_
    exact hF _ _ fun L hL => (hsp L hL).1 i h1 h2
  · exact ForestBase.chain_transfer hch rfl fun x hx => ForestBase.nextOf_congr rfl (hraw x hx)
  · refine WriteRefines.chainBytes_congr v0 _ _ cs fun x hx j hj => ?_
    refine block_ext hb hb' _ fun i => ?_
    exact hF _ _ fun L hL => (hsp L hL).2.2 x hx j hj i

/-- **`unnamed_object_survives_crashes`**: an object (slot `(sb, so)`, clusters `cs`) that no licence of the history
names has, at EVERY crash point of the history, its 32 slot bytes, its FAT entries, its `Chain` and its `chainBytes`
identical to the start. -/
theorem unnamed_object_at_crash {v0 : FatVolume} (hg : WFGeom v0) {s : Mgr} {ops : List Op} {Ls : List Licence}
    (hR : RunLicensed v0 s ops Ls) (hb : BlocksOK s.dev.disk) (sb so : Nat) (cs : List Nat) (hin : ∀ c, c ∈ cs → InRange v0 c)
    (hsreg : regionOf v0 sb = .root ∨ regionOf v0 sb = .data) (hso : so % 32 = 0)
    (hnn : ∀ L, L ∈ Ls → NotNamed v0 L sb so cs) (dk : Disk) (hk : HistCrash s ops dk) :
    BlocksOK dk ∧
    slice (dk.get sb) so 32 = slice (s.dev.disk.get sb) so 32 ∧
    (∀ x, x ∈ cs → fatRaw v0 dk x = fatRaw v0 s.dev.disk x) ∧
    (∀ c, Chain v0 s.dev.disk c cs → Chain v0 dk c cs) ∧
    chainBytes v0 dk cs = chainBytes v0 s.dev.disk cs := by
  have hbk := runLicensed_crash_blocksOK hR dk hk
  refine ⟨hbk, spared_at hb hbk (fun b i hn => runLicensed_crash_frame hR hn dk hk) sb so cs fun L hL => ?_⟩
  exact spares_of_avoids hg hin hsreg hso (avoids_of (runLicensed_wf hR L hL) (hnn L hL))

/-- The same at the state after the first `j` calls (a call boundary). -/
theorem unnamed_object_at_boundary {v0 : FatVolume} (hg : WFGeom v0) {s : Mgr} {ops : List Op} {Ls : List Licence}
    (hR : RunLicensed v0 s ops Ls) (hb : BlocksOK s.dev.disk) (sb so : Nat) (cs : List Nat) (hin : ∀ c, c ∈ cs → InRange v0 c)
    (hsreg : regionOf v0 sb = .root ∨ regionOf v0 sb = .data) (hso : so % 32 = 0)
    (hnn : ∀ L, L ∈ Ls → NotNamed v0 L sb so cs) (j : Nat) (hb' : BlocksOK (run s (ops.take j)).1.dev.disk) :
    slice ((run s (ops.take j)).1.dev.disk.get sb) so 32 = slice (s.dev.disk.get sb) so 32 ∧
    (∀ x, x ∈ cs → fatRaw v0 (run s (ops.take j)).1.dev.disk x = fatRaw v0 s.dev.disk x) ∧
    (∀ c, Chain v0 s.dev.disk c cs → Chain v0 (run s (ops.take j)).1.dev.disk c cs) ∧
    chainBytes v0 (run s (ops.take j)).1.dev.disk cs = chainBytes v0 s.dev.disk cs := by
  have hRj := runLicensed_take hR j
  refine spared_at hb hb' (fun b i hn => runLicensed_frame hRj hn) sb so cs fun L hL => ?_
  have hL' : L ∈ Ls := List.mem_of_mem_take hL
  exact spares_of_avoids hg hin hsreg hso (avoids_of (runLicensed_wf hR L hL') (hnn L hL'))

end Sdmmc.Lemmas.Survive
