/-
C15 meets C03, part 2 — `open_raw_volume` on a fresh manager:
* over a formatted medium it answers the handle and establishes the volume invariant, for the formatter's chains
  and sub-directories (`mount_establishes_invariant`);
* over ANY medium it answers a handle or an error, never panics, and an error leaves the tables and the medium as
  they were (`openRawVolume_total`).
-/
import Sdmmc.Lemmas.MountedLayout
import Sdmmc.Lemmas.ReopenMount
import Sdmmc.Lemmas.VolApi

namespace Sdmmc.Lemmas.Mounted
open Sdmmc.Model Sdmmc.Model.Fat Sdmmc.Spec Sdmmc.Spec.Volume Sdmmc.Spec.Formatted
open Sdmmc.Lemmas.VolMed Sdmmc.Lemmas.VolApi
open Sdmmc.Lemmas.ReadRefines (MgrOK)

/-- A manager nobody has used yet: no volume, directory or file open; room for one volume (the crate's default
`MAX_VOLUMES = 1`); fault-free device, coherent cache, not inside a callback. -/
structure FreshMgr (t0 : Mgr) : Prop where
  vols : t0.vols = []
  dirs : t0.dirs = []
  files : t0.files = []
  maxVols : t0.maxVols = 1
  noFault : t0.dev.faults = []
  coherent : ∀ i, t0.cache.tag = some i → t0.cache.blk = t0.dev.disk.get i
  unlocked : t0.locked = false

/-- **Mounting establishes the invariant.**  Fresh manager `t0` over a formatted medium: `open_raw_volume idx`
answers the handle `t0.nextId`; it writes nothing; the one volume record is the specification's layout with the
FSInfo count / hint; and the volume invariant holds for the formatter's chains and sub-directories. -/
theorem mount_establishes_invariant {t0 : Mgr} {idx : Nat} {gh : Ghost} (hfr : FreshMgr t0)
    (hF : Formatted t0.dev.disk idx gh) :
    ∃ t1 gh1, openRawVolume idx t0 = (.ok t0.nextId, t1) ∧ VolInv t1 gh1 ∧ SameGeom gh.vol gh1.vol ∧
      gh1.G = gh.G ∧ gh1.dirs = gh.dirs ∧ SameGeom (layoutOn t0.dev.disk idx) gh1.vol ∧
      t1.dev.disk = t0.dev.disk ∧ t1.dev.wlog = t0.dev.wlog ∧
      t1.vols = [{ rawVolume := t0.nextId, idx := idx, vol := gh1.vol }] ∧ t1.dirs = [] ∧ t1.files = [] ∧
      t1.nextId = (t0.nextId + 1) % 4294967296 ∧ t1.maxDirs = t0.maxDirs ∧ t1.maxFiles = t0.maxFiles ∧
      t1.clock = t0.clock := by
  obtain ⟨v1, hm, hsg1, hh1⟩ := mount_of_formatted hF
  have hs : MgrOK t0 := ⟨hfr.noFault, hfr.coherent, hF.med.blocksOK, hfr.unlocked⟩
  obtain ⟨t1, hrun, heq, hd, hw, hok1⟩ := Reopen.openRawVolume_spec t0 idx v1 hs (by rw [hfr.vols, hfr.maxVols]; decide)
    (by rw [hfr.vols]; rfl) hm
  have hsg : SameGeom gh.vol v1 := hF.geom.symm.trans hsg1
  have hM1 : MedX v1 t0.dev.disk [] gh [] :=
    med_congr (medX_of_med hF.med) hsg hh1 hF.med.blocksOK (fun _ _ => rfl) (fun _ _ => rfl)
  have hvols : t1.vols = [{ rawVolume := t0.nextId, idx := idx, vol := v1 }] := by rw [heq, hfr.vols]; rfl
  have hdirs : t1.dirs = [] := by rw [heq]; exact hfr.dirs
  have hfiles : t1.files = [] := by rw [heq]; exact hfr.files
  refine ⟨t1, { gh with vol := v1 }, hrun, ?_, hsg, rfl, rfl, hsg1, hd, hw, hvols, hdirs, hfiles, by rw [heq], by rw [heq],
    by rw [heq], by rw [heq]⟩
  obtain ⟨a, b, c, e⟩ := hok1
  refine ⟨a, b, e, by rw [heq]; exact hfr.maxVols, .inr ⟨_, hvols, rfl⟩, ?_, ?_, ?_⟩
  · rw [hd, hfiles]
    exact med_of_medX (medX_ghost hM1 rfl rfl)
  · intro f hf; rw [hfiles] at hf; cases hf
  · intro di hdi; rw [hdirs] at hdi; cases hdi

/-- **Any medium: an error or a mount, never a panic.**  Fresh manager `t0` over ANY medium whose blocks have 512
bytes: `open_raw_volume idx` either answers the handle `t0.nextId`, having written nothing and appended one volume
record — the one `mountPure` computes from block 0, the boot sector and the FSInfo sector —, or it answers an error
`e`, having written nothing and changed no table (only the cache and the device's read bookkeeping moved).  It never
panics and never diverges. -/
theorem openRawVolume_total {t0 : Mgr} (idx : Nat) (hfr : FreshMgr t0) (hb : BlocksOK t0.dev.disk) :
    (∃ v t1, mountPure (t0.dev.disk.get 0) idx t0.dev.disk.get = .ok v ∧ openRawVolume idx t0 = (.ok t0.nextId, t1) ∧
        t1 = { t0 with dev := t1.dev, cache := t1.cache, nextId := (t0.nextId + 1) % 4294967296,
                       vols := [{ rawVolume := t0.nextId, idx := idx, vol := v }] } ∧
        t1.dev.disk = t0.dev.disk ∧ t1.dev.wlog = t0.dev.wlog) ∨
    (∃ e t1, mountPure (t0.dev.disk.get 0) idx t0.dev.disk.get = .err e ∧ openRawVolume idx t0 = (.err e, t1) ∧
        t1 = { t0 with dev := t1.dev, cache := t1.cache } ∧ t1.dev.disk = t0.dev.disk ∧ t1.dev.wlog = t0.dev.wlog) := by
  have hs : MgrOK t0 := ⟨hfr.noFault, hfr.coherent, hb, hfr.unlocked⟩
  rcases C15.mount_total (t0.dev.disk.get 0) idx t0.dev.disk.get with ⟨v, hm⟩ | ⟨e, hm⟩
  · left
    obtain ⟨t1, hrun, heq, hd, hw, _⟩ := Reopen.openRawVolume_spec t0 idx v hs (by rw [hfr.vols, hfr.maxVols]; decide)
      (by rw [hfr.vols]; rfl) hm
    refine ⟨v, t1, hm, hrun, ?_, hd, hw⟩
    rw [hfr.vols] at heq
    exact heq
  · right
    -- follow the stages of the call
    obtain ⟨s1, hr1, hs1⟩ := Reopen.rdBlock_spec t0 hs 0
    rw [Reopen.openRawVolume_eq_alt]
    unfold Reopen.openRawVolumeAlt
    rw [MHoare.get_bind, if_neg (by rw [hfr.vols, hfr.maxVols]; decide), if_neg (by rw [hfr.vols]; exact Bool.false_ne_true),
      MHoare.bind_ok hr1]
    have hm0 := hm
    unfold mountPure at hm
    rcases C15.parsePartition_noPanic (t0.dev.disk.get 0) idx with ⟨⟨pt, lba, nb⟩, hpp⟩ | ⟨e1, hpp⟩
    swap
    · rw [hpp] at hm ⊢
      have he : e1 = e := by simpa using hm
      subst he
      exact ⟨e1, s1, hm0, by rw [MHoare.bind_err (MHoare.lift_run _ s1)], hs1.eq, hs1.disk, hs1.wlog⟩
    rw [hpp] at hm ⊢
    rw [MHoare.bind_ok (MHoare.lift_run _ s1)]
    simp only [Res.bind_ok] at hm
    dsimp only
    cases hsup : supportedPartitionType pt with
    | false =>
      rw [hsup] at hm
      simp only [Bool.not_false, if_true] at hm ⊢
      have he : Err.FormatError "Partition type not supported" = e := by simpa using hm
      subst he
      exact ⟨_, s1, hm0, rfl, hs1.eq, hs1.disk, hs1.wlog⟩
    | true =>
      rw [hsup] at hm
      simp only [Bool.not_true, Bool.false_eq_true, if_false] at hm ⊢
      obtain ⟨s2, hr2, hs2⟩ := Reopen.rdBlock_spec s1 hs1.ok lba
      rw [hs1.disk] at hr2
      have h12 := hs1.trans hs2
      rw [MHoare.bind_ok hr2]
      rcases C15.parseVolumeBpb_noPanic (t0.dev.disk.get lba) lba nb with ⟨v0, hbpb⟩ | ⟨e2, hbpb⟩
      swap
      · rw [hbpb] at hm ⊢
        have he : e2 = e := by simpa using hm
        subst he
        exact ⟨e2, s2, hm0, by rw [MHoare.bind_err (MHoare.lift_run _ s2)], h12.eq, h12.disk, h12.wlog⟩
      rw [hbpb] at hm ⊢
      rw [MHoare.bind_ok (MHoare.lift_run _ s2)]
      simp only [Res.bind_ok] at hm
      cases hft : v0.fatType with
      | fat16 =>
        rw [hft] at hm
        simp only [Res.pure_eq] at hm
        cases hm
      | fat32 =>
        rw [hft] at hm
        simp only at hm
        dsimp only
        obtain ⟨s3, hr3, hs3⟩ := Reopen.rdBlock_spec s2 hs2.ok v0.infoLocation
        rw [h12.disk] at hr3
        have h13 := h12.trans hs3
        have hinner : (Reopen.rdBlock v0.infoLocation >>= fun info => M.lift (parseVolumeInfo v0 info)) s2 = (.err e, s3) := by
          rw [MHoare.bind_ok hr3, hm]; rfl
        rw [MHoare.bind_err hinner]
        exact ⟨e, s3, hm0, rfl, h13.eq, h13.disk, h13.wlog⟩

end Sdmmc.Lemmas.Mounted
