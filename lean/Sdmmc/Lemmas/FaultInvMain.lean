/-
C11 under the invariant, part 21: `FaultInv` — what survives a call during which a device call failed — and
`faulted_step`: from the invariant, under ANY fault schedule, every covered call leaves `FaultInv`.
-/
import Sdmmc.Lemmas.FaultInvPrefix
import Sdmmc.Lemmas.FaultInvGeo
import Sdmmc.Lemmas.FaultInvRetry2
import Sdmmc.Lemmas.VolApiWrite
import Sdmmc.Lemmas.FaultCohApi

namespace Sdmmc.Lemmas.FaultInv
open Sdmmc.Model Sdmmc.Model.Fat Sdmmc.Spec.Volume Sdmmc.Lemmas.VolBase Sdmmc.Lemmas.VolTree
open Sdmmc.Spec hiding NoFault Coherent
open Sdmmc.Lemmas.VolDisk Sdmmc.Lemmas.VolMed Sdmmc.Lemmas.VolApi Sdmmc.Lemmas.VolEng
open Sdmmc.Lemmas.FBasic (NoFault Coherent)
open Sdmmc.Lemmas.CrashBase Sdmmc.Lemmas.Retry Sdmmc.Lemmas.FaultPre Sdmmc.Lemmas.MHoare

/-- **What survives a failed call** (`VolInv` weakened like a crash point).  The re-entrancy lock is open and at
most one volume is open, its record having the geometry of the ghost's; ON THE MEDIUM the directories of the tree
are sound (`DirsInv`: chains still chains, clean tails, pairwise distinct names, dot entries — for SOME record of
chains; lost clusters, chains of half-created or half-deleted files are not spoken about); every open directory
handle designates a directory of the tree; THE CACHE IS COHERENT (untagged, or holding what the medium holds at the
tagged block: a failed device call, read or write, clears the tag).  NOT claimed: no fault scheduled; consistency of
the open FILES with the medium (a failed `write` may have moved the written file's cursor and extended its chain:
`Retry.write_kept`). -/
structure FInv (s : Mgr) (gh : Ghost) : Prop where
  unlocked : s.locked = false
  maxVols : s.maxVols = 1
  vols : s.vols = [] ∨ ∃ vi, s.vols = [vi] ∧ SameGeom gh.vol vi.vol
  dirs : DirsInv gh.vol s.dev.disk gh
  openDirs : ∀ di, di ∈ s.dirs → ValidDir gh.dirs di.cluster
  coherent : ∀ i, s.cache.tag = some i → s.cache.blk = s.dev.disk.get i

theorem faultInv_of_volInv {s : Mgr} {gh : Ghost} (hI : VolInv s gh) : FInv s gh :=
  ⟨hI.unlocked, hI.maxVols, by
    rcases hI.vols with h | ⟨vi, h1, h2⟩
    · exact .inl h
    · exact .inr ⟨vi, h1, by rw [h2]; exact sameGeom_refl' _⟩,
   dirsInv_of_med (medX_of_med hI.med), hI.openDirs, hI.coherent⟩

/-- `FaultInv` does not look at the schedule or the logs. -/
theorem FInv.of_tables {s t : Mgr} {gh : Ghost} (h : FInv s gh) (h1 : t.locked = s.locked) (h2 : t.maxVols = s.maxVols)
    (h3 : t.vols = s.vols) (h4 : t.dev.disk = s.dev.disk) (h5 : t.dirs = s.dirs) (h6 : t.cache = s.cache) : FInv t gh :=
  ⟨h1.trans h.unlocked, h2.trans h.maxVols, by rw [h3]; exact h.vols, by rw [h4]; exact h.dirs, by rw [h5]; exact h.openDirs,
   by rw [h6, h4]; exact h.coherent⟩

/-- Assembling `FaultInv` after a call. -/
theorem faultInv_mk {s0 s1 : Mgr} {gh : Ghost} (hI : VolInv s0 gh) (ht : TabR s0 s1)
    (hd : DirsP gh.vol gh.dirs s1.dev.disk) (hdirs : ∀ di, di ∈ s1.dirs → ValidDir gh.dirs di.cluster)
    (hcoh : ∀ i, s1.cache.tag = some i → s1.cache.blk = s1.dev.disk.get i) :
    ∃ gh', gh'.vol = gh.vol ∧ gh'.dirs = gh.dirs ∧ FInv s1 gh' := by
  obtain ⟨G', hG⟩ := hd
  refine ⟨{ vol := gh.vol, G := G', dirs := gh.dirs }, rfl, rfl, ht.locked.trans hI.unlocked, ht.maxVols.trans hI.maxVols, ?_, hG, hdirs, hcoh⟩
  rcases hI.vols with h0 | ⟨vi, hvs, hvol⟩
  · left
    have := ht.len
    rw [h0] at this
    exact List.eq_nil_of_length_eq_zero (Nat.le_zero.1 this)
  · have hlen := ht.len
    rw [hvs] at hlen
    cases hs1 : s1.vols with
    | nil => exact .inl rfl
    | cons a l =>
      right
      rw [hs1] at hlen
      have hl : l = [] := by
        cases l with
        | nil => rfl
        | cons b l' => simp only [List.length_cons, List.length_nil] at hlen; omega
      subst hl
      obtain ⟨v0, hv0, _, hg⟩ := ht.stem a (by rw [hs1]; exact List.mem_singleton.2 rfl)
      rw [hvs] at hv0
      rw [List.mem_singleton.1 hv0, hvol] at hg
      exact ⟨a, rfl, hg⟩

/-! ### The directory table of `get_root_volume_label` -/

/-- Every directory handle afterwards is an old one or designates the root. -/
def DSub (s s' : Mgr) : Prop := ∀ di, di ∈ s'.dirs → di ∈ s.dirs ∨ di.cluster = Gen.CLUSTER_ROOT_DIR

theorem DSub.refl (s : Mgr) : DSub s s := fun _ h => .inl h
theorem DSub.trans {a b c : Mgr} (h1 : DSub a b) (h2 : DSub b c) : DSub a c := fun di h => by
  rcases h2 di h with h | h
  · exact h1 di h
  · exact .inr h
theorem DSub.of_eq {s s' : Mgr} (h : s'.dirs = s.dirs) : DSub s s' := fun di hd => .inl (by rw [← h]; exact hd)

theorem openRootDir_dsub (v : Nat) (s : Mgr) : DSub s (openRootDir v s).2 := by
  rw [Fault.openRootDir_eq]
  split
  · exact DSub.of_eq rfl
  · intro di hd
    rcases List.mem_append.1 (show di ∈ s.dirs ++ _ from hd) with h | h
    · exact .inl h
    · rw [List.mem_singleton.1 h]; exact .inr rfl

theorem closeDir_dsub (d : Nat) (s : Mgr) : DSub s (closeDir d s).2 := by
  unfold closeDir
  rw [get_bind]
  cases hidx : s.dirs.findIdx? (·.rawDirectory = d) with
  | none => exact DSub.refl s
  | some i => exact fun di hd => .inl (mem_of_mem_swapRemove (show di ∈ swapRemove s.dirs i from hd))

theorem label_dsub (v : Nat) (s : Mgr) : DSub s (getRootVolumeLabel v s).2 := by
  unfold getRootVolumeLabel
  cases hv : s.vols.findIdx? (·.rawVolume = v) with
  | none => rw [bind_err (getVolumeById_bad hv)]; exact DSub.refl s
  | some volIdx =>
    obtain ⟨vi, hvi, _⟩ := findIdx?_some_get hv
    rw [bind_ok (getVolumeById_ok hv), bind_ok (getVolInfo_ok hvi)]
    by_cases hl : (!(volumeNameTrim vi.vol.name).isEmpty) = true
    · rw [if_pos hl]; exact DSub.refl s
    · rw [if_neg hl]
      have h1 := openRootDir_dsub v s
      rw [bind_def]
      rcases hop : openRootDir v s with ⟨r, s1⟩
      rw [hop] at h1
      cases r with
      | ok dir =>
        simp only
        rw [attempt_bind, attempt_bind, map_state]
        have h2 : DSub s1 (iterateDir dir s1).2 := DSub.of_eq (Tables.resp_iterateDir dir s1).dirs
        exact (h1.trans h2).trans (closeDir_dsub dir _)
      | err e => exact h1
      | panic m => exact h1
      | diverged => exact h1

/-! ### Every call -/

/-- The calls covered (as `Props.C03Inv.Covered`): every call, except `open_volume` while no volume is open and names
starting with 0xE5 in the four calls that look a name up in order to open, create or delete. -/
def FCovered (s : Mgr) : Op → Prop
  | .openVolume _ => s.vols ≠ []
  | .openDir _ name => ∀ sfn, Sfn.createFromStr name = .ok sfn → sfn.head? ≠ some 0xE5
  | .openFile _ name _ => ∀ sfn, Sfn.createFromStr name = .ok sfn → sfn.head? ≠ some 0xE5
  | .delete _ name => ∀ sfn, Sfn.createFromStr name = .ok sfn → sfn.head? ≠ some 0xE5
  | .mkdir _ name => ∀ sfn, Sfn.createFromStr name = .ok sfn → sfn.head? ≠ some 0xE5
  | _ => True

theorem namesOK_of_fcovered {s : Mgr} {op : Op} (h : FCovered s op) : NamesOK op := by
  cases op <;> first | exact h | exact trivial

theorem openVolume_refused {s : Mgr} (hv : s.vols ≠ []) (hmax : s.maxVols = 1) (idx : Nat) :
    openRawVolume idx s = (.err .TooManyOpenVolumes, s) := by
  unfold openRawVolume
  rw [get_bind, if_pos (by
    show s.vols.length ≥ s.maxVols
    rw [hmax]
    cases hs : s.vols with
    | nil => exact absurd hs hv
    | cons a l => simp only [List.length_cons]; omega)]
  rfl

/-- **From the invariant, under any fault schedule, every covered call leaves `FaultInv`** — for a ghost with the
same volume record geometry. -/
theorem faulted_step {s0 : Mgr} {gh : Ghost} (hI : VolInv s0 gh) (L : List Nat) (op : Op) (hc : FCovered s0 op) :
    ∃ gh', SameGeom gh.vol gh'.vol ∧ FInv (step (withFaults L s0) op).1 gh' := by
  have hI' := volInv_resetLogs hI
  have hD : DirsP gh.vol gh.dirs (step (withFaults L s0) op).1.dev.disk := dirs_after_faulted_step hI L op (namesOK_of_fcovered hc)
  have e1 := MHoare.step_unlocked (withFaults L s0) op hI.unlocked
  rw [resetLogs_withFaults] at e1
  have hs1 : (step (withFaults L s0) op).1 = (runOp op (withFaults L (resetLogs s0))).2 := by rw [e1]
  rw [hs1] at hD ⊢
  -- `open_volume` is refused
  by_cases hov : ∃ i, op = .openVolume i
  · obtain ⟨i, rfl⟩ := hov
    refine ⟨gh, sameGeom_refl' _, ?_⟩
    have : (runOp (.openVolume i) (withFaults L (resetLogs s0))).2 = withFaults L (resetLogs s0) := by
      show ((openRawVolume i >>= fun h => (pure (Payload.handle h) : M Payload)) _).2 = _
      rw [map_state, openVolume_refused (s := withFaults L (resetLogs s0)) hc hI.maxVols]
    rw [this]
    exact (faultInv_of_volInv hI).of_tables rfl rfl rfl rfl rfl rfl
  have hnov : ∀ i, op ≠ .openVolume i := fun i e => hov ⟨i, e⟩
  have hT : TabR (resetLogs s0) (runOp op (withFaults L (resetLogs s0))).2 := by
    have := runOp_mtab op hnov (withFaults L (resetLogs s0))
    exact ⟨this.locked, this.maxVols, this.len, this.stem⟩
  have fin : (∀ di, di ∈ (runOp op (withFaults L (resetLogs s0))).2.dirs → ValidDir gh.dirs di.cluster) →
      ∃ gh', SameGeom gh.vol gh'.vol ∧ FInv (runOp op (withFaults L (resetLogs s0))).2 gh' := fun h => by
    have hcoh : FaultCoh.MCohK (runOp op) := FaultCoh.runOp_mcoh op
    obtain ⟨gh', hv, _, hF⟩ := faultInv_mk hI' hT hD h (hcoh (withFaults L (resetLogs s0)) hI.coherent)
    exact ⟨gh', by rw [hv]; exact sameGeom_refl' _, hF⟩
  have same : (runOp op (withFaults L (resetLogs s0))).2.dirs = s0.dirs →
      ∃ gh', SameGeom gh.vol gh'.vol ∧ FInv (runOp op (withFaults L (resetLogs s0))).2 gh' := fun h =>
    fin fun di hd => hI.openDirs di (by rw [← h]; exact hd)
  cases op with
  | openVolume i => exact absurd rfl (hnov i)
  | closeVolume v =>
    refine same ?_
    show ((closeVolume v >>= fun _ => (pure Payload.unit : M Payload)) _).2.dirs = _
    rw [seq_state]; exact (closeVolume_fault_dirs hI' L v).2
  | openRoot v =>
    refine fin fun di hd => ?_
    have hd' : di ∈ (openRootDir v (withFaults L (resetLogs s0))).2.dirs := by
      rw [← map_state (openRootDir v) Payload.handle]; exact hd
    rcases openRootDir_dsub v _ di hd' with h | h
    · exact hI.openDirs di h
    · exact .inl h
  | openDir d name =>
    -- quiet: the fault-free call; hit: only device bookkeeping and the cache moved
    rcases step_faulted hI.unlocked hI.noFault L (.openDir d name) rfl with ⟨_, _, hq⟩ | ⟨hne, _, _⟩
    · obtain ⟨gh', hI2, hg⟩ := step_openDir_api hI d name hc
      rw [← hq, hs1] at hI2
      exact ⟨gh', hg, (faultInv_of_volInv hI2).of_tables rfl rfl rfl rfl rfl rfl⟩
    · refine same ?_
      rw [hs1] at hne
      have hne' : (openDir d name (withFaults L (resetLogs s0))).2.dev.failed ≠ (resetLogs s0).dev.failed := by
        rw [← map_state (openDir d name) Payload.handle]; exact hne
      show ((openDir d name >>= fun h => (pure (Payload.handle h) : M Payload)) _).2.dirs = _
      rw [map_state]
      exact openDir_hit_dirs hI' L d name hne'
  | closeDir d =>
    refine fin fun di hd => ?_
    have hd' : di ∈ (closeDir d (withFaults L (resetLogs s0))).2.dirs := by
      rw [← seq_state (closeDir d) Payload.unit]; exact hd
    rcases closeDir_dsub d _ di hd' with h | h
    · exact hI.openDirs di h
    · exact .inl h
  | openFile d name mode =>
    refine same ?_
    show ((openFileInDir d name mode >>= fun h => (pure (Payload.handle h) : M Payload)) _).2.dirs = _
    rw [map_state]; exact (openFile_fault_dirs hI' L d name mode hc).2
  | read f n =>
    refine same ?_
    show ((Model.read f n >>= fun h => (pure (Payload.bytes h) : M Payload)) _).2.dirs = _
    rw [map_state]; exact (Tables.resp_read f n _).dirs
  | write f data =>
    refine same ?_
    show ((Model.write f data >>= fun _ => (pure Payload.unit : M Payload)) _).2.dirs = _
    rw [seq_state]; exact (Tables.resp_write f data _).dirs
  | seekStart f n =>
    refine same ?_
    show ((fileSeekFromStart f n >>= fun _ => (pure Payload.unit : M Payload)) _).2.dirs = _
    rw [seq_state]; exact (Tables.resp_seekStart f n _).dirs
  | seekCur f n =>
    refine same ?_
    show ((fileSeekFromCurrent f n >>= fun _ => (pure Payload.unit : M Payload)) _).2.dirs = _
    rw [seq_state]; exact (Tables.resp_seekCur f n _).dirs
  | seekEnd f n =>
    refine same ?_
    show ((fileSeekFromEnd f n >>= fun _ => (pure Payload.unit : M Payload)) _).2.dirs = _
    rw [seq_state]; exact (Tables.resp_seekEnd f n _).dirs
  | flush f =>
    refine same ?_
    show ((flushFile f >>= fun _ => (pure Payload.unit : M Payload)) _).2.dirs = _
    rw [seq_state]; exact (Tables.resp_flushFile f _).dirs
  | closeFile f =>
    refine same ?_
    show ((closeFile f >>= fun _ => (pure Payload.unit : M Payload)) _).2.dirs = _
    rw [seq_state]; exact (closeFile_fault_dirs hI' L f).2
  | delete d name =>
    refine same ?_
    show ((deleteFileInDir d name >>= fun _ => (pure Payload.unit : M Payload)) _).2.dirs = _
    rw [seq_state]; exact (Tables.resp_deleteFileInDir d name _).dirs
  | mkdir d name =>
    refine same ?_
    show ((makeDirInDir d name >>= fun _ => (pure Payload.unit : M Payload)) _).2.dirs = _
    rw [seq_state]; exact (Tables.resp_makeDirInDir d name _).dirs
  | find d name =>
    refine same ?_
    show ((Model.findDirectoryEntry d name >>= fun h => (pure (Payload.entry h) : M Payload)) _).2.dirs = _
    rw [map_state]; exact (Tables.resp_findDirectoryEntry d name _).dirs
  | list d =>
    refine same ?_
    show ((iterateDir d >>= fun h => (pure (Payload.entries h) : M Payload)) _).2.dirs = _
    rw [map_state]; exact (Tables.resp_iterateDir d _).dirs
  | listLfn d n =>
    refine same ?_
    show ((iterateDirLfn d n >>= fun h => (pure (Payload.lfnEntries h) : M Payload)) _).2.dirs = _
    rw [map_state]; exact (Tables.resp_iterateDirLfn d n _).dirs
  | length f =>
    refine same ?_
    show ((fileLength f >>= fun h => (pure (Payload.num h) : M Payload)) _).2.dirs = _
    rw [map_state, fileLength_state]; rfl
  | offset f =>
    refine same ?_
    show ((fileOffset f >>= fun h => (pure (Payload.num h) : M Payload)) _).2.dirs = _
    rw [map_state, fileOffset_state]; rfl
  | eof f =>
    refine same ?_
    show ((fileEof f >>= fun h => (pure (Payload.bool h) : M Payload)) _).2.dirs = _
    rw [map_state, fileEof_state]; rfl
  | hasOpen => exact same rfl
  | label v =>
    refine fin fun di hd => ?_
    have hd' : di ∈ (getRootVolumeLabel v (withFaults L (resetLogs s0))).2.dirs := by
      rw [← map_state (getRootVolumeLabel v) Payload.label]; exact hd
    rcases label_dsub v _ di hd' with h | h
    · exact hI.openDirs di h
    · exact .inl h

end Sdmmc.Lemmas.FaultInv
