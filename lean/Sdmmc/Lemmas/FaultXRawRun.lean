/-
C11, arbitrary fault placement — `EntryNotAhead` AS AN INVARIANT, part 8: ONE CALL AND HISTORIES.  `RawAll s`: the entry
on the medium of EVERY open file is not ahead of its record.  It is kept by every covered call under any schedule, a
device failure falling anywhere but inside a truncating `open_file_in_dir` (`step_raw`); with it the hypothesis of a
failing `close_file` is discharged (`step_inv_C`, `history_inv_C`).
-/
import Sdmmc.Lemmas.FaultXRawTab
import Sdmmc.Lemmas.FaultXRawMkdir
import Sdmmc.Lemmas.FaultXRawWrite
import Sdmmc.Lemmas.FaultXRawTrunc
import Sdmmc.Lemmas.FaultXRun

namespace Sdmmc.Lemmas.FaultX
open Sdmmc.Lemmas.FaultHist Sdmmc.Lemmas.VolX
open Sdmmc.Model Sdmmc.Model.Fat Sdmmc.Spec.Volume
open Sdmmc.Spec hiding NoFault Coherent
open Sdmmc.Lemmas.VolApi Sdmmc.Lemmas.MHoare Sdmmc.Lemmas.FaultInv Sdmmc.Lemmas.Retry Sdmmc.Lemmas.VolMed
open Sdmmc.Lemmas.Fault hiding resetLogs step_unlocked

/-- The entry on the medium of every open file is not ahead of its record. -/
def RawAll (s : Mgr) : Prop := ∀ f, f ∈ s.files → ∀ vi, vi ∈ s.vols → RawBelow vi.vol.fatType s.dev.disk f

theorem rawAll_iff (s : Mgr) : RawAll s ↔ ∀ file, RawBelowAt s file :=
  ⟨fun h _ f hf _ vi hvi => h f hf vi hvi, fun h f hf vi hvi => h f.rawFile f hf rfl vi hvi⟩

/-- The calls during which a device failure is covered: all but a truncating `open_file_in_dir`. -/
def classC : Op → Bool
  | .openFile _ _ mode => nonTruncating mode
  | _ => true

variable {X : List (List Nat)}

theorem rawAllD_of {s : Mgr} {gh : Ghost} (hI : VolInvX X s gh) (hR : RawAll s) : RawAllD gh.vol.fatType s.dev.disk s.files := by
  intro f hf
  obtain ⟨vi, hv, hvol, _⟩ := VolX.vol_of_file hI hf
  have := hR f hf vi (by rw [hv]; exact List.mem_singleton.2 rfl)
  rw [hvol] at this
  exact this

/-- All open files unmodified: then `RawAll` holds by the invariant. -/
theorem rawAll_of_clean {s : Mgr} {gh : Ghost} (hI : VolInvX X s gh) (hcl : ∀ f, f ∈ s.files → f.dirty = false) : RawAll s := by
  intro f hf vi hvi
  rcases hI.vols with h0 | ⟨vi', hvs, hvol⟩
  · rw [h0] at hvi; cases hvi
  · rw [hvs] at hvi
    rw [List.mem_singleton.1 hvi, hvol]
    exact rawBelow_of_clean (medX_of_med hI.med) hf (hcl f hf)

theorem mayFail_of_classC {s : Mgr} {op : Op} (hR : RawAll s) (h : classC op = true) : MayFail s op := by
  cases op with
  | closeFile f => exact .inr ⟨f, rfl, (rawAll_iff s).1 hR f⟩
  | openFile d n m => exact .inl h
  | mkdir d n => exact .inl rfl
  | write f b => exact .inl rfl
  | delete d n => exact .inl rfl
  | openVolume i => exact .inl rfl
  | closeVolume v => exact .inl rfl
  | openRoot v => exact .inl rfl
  | openDir d n => exact .inl rfl
  | closeDir d => exact .inl rfl
  | read f n => exact .inl rfl
  | seekStart f n => exact .inl rfl
  | seekCur f n => exact .inl rfl
  | seekEnd f n => exact .inl rfl
  | flush f => exact .inl rfl
  | find d n => exact .inl rfl
  | list d => exact .inl rfl
  | listLfn d n => exact .inl rfl
  | length f => exact .inl rfl
  | offset f => exact .inl rfl
  | eof f => exact .inl rfl
  | hasOpen => exact .inl rfl
  | label v => exact .inl rfl

/-- The medium after one covered call, under any schedule: the entries of the files open BEFORE are not ahead of their
records. -/
theorem step_disk {s0 : Mgr} {gh : Ghost} (hI : VolInvX X s0 gh) (hR : RawAllD gh.vol.fatType s0.dev.disk s0.files)
    (L : List Nat) (op : Op) (hc : FCovered s0 op)
    (hB : (step (withFaults L s0) op).1.dev.failed ≠ s0.dev.failed → classC op = true) :
    RawAllD gh.vol.fatType (step (withFaults L s0) op).1.dev.disk s0.files := by
  have hI' := volInv_resetLogs hI
  have hR' : RawAllD gh.vol.fatType (resetLogs s0).dev.disk (resetLogs s0).files := hR
  have e1 := MHoare.step_unlocked (withFaults L s0) op hI.unlocked
  rw [resetLogs_withFaults] at e1
  have hs1 : (step (withFaults L s0) op).1 = (runOp op (withFaults L (resetLogs s0))).2 := by rw [e1]
  by_cases hro : readOnlyOp op = true
  · have := runOp_readonly_inv (R := MNoWrite) op hro (withFaults L (resetLogs s0))
    rw [hs1, this.2]; exact hR
  cases op with
  | write f data =>
    rw [hs1]
    show RawAllD gh.vol.fatType ((Model.write f data >>= fun _ => (pure Payload.unit : M Payload)) _).2.dev.disk _
    rw [seq_state]
    exact write_disk (s := withFaults L (resetLogs s0)) (by rw [mclr_withFaults hI'.noFault L]; exact hI') hR' f data
  | delete d name =>
    rw [hs1]
    show RawAllD gh.vol.fatType ((deleteFileInDir d name >>= fun _ => (pure Payload.unit : M Payload)) _).2.dev.disk _
    rw [seq_state]; exact delete_disk hI' hR' L d name hc
  | mkdir d name =>
    rw [hs1]
    show RawAllD gh.vol.fatType ((makeDirInDir d name >>= fun _ => (pure Payload.unit : M Payload)) _).2.dev.disk _
    rw [seq_state]; exact mkdir_disk hI' hR' L d name hc
  | flush f =>
    rw [hs1]
    show RawAllD gh.vol.fatType ((flushFile f >>= fun _ => (pure Payload.unit : M Payload)) _).2.dev.disk _
    rw [seq_state]; exact flushFile_disk hI' hR' L f
  | closeFile f =>
    rw [hs1]
    show RawAllD gh.vol.fatType ((closeFile f >>= fun _ => (pure Payload.unit : M Payload)) _).2.dev.disk _
    rw [seq_state]; exact closeFile_disk hI' hR' L f
  | closeVolume v =>
    rw [hs1]
    show RawAllD gh.vol.fatType ((closeVolume v >>= fun _ => (pure Payload.unit : M Payload)) _).2.dev.disk _
    rw [seq_state]; exact closeVolume_disk hI' hR' L v
  | openFile d name mode =>
    by_cases hm : nonTruncating mode = true
    · rw [hs1]
      show RawAllD gh.vol.fatType ((openFileInDir d name mode >>= fun b => (pure (Payload.handle b) : M Payload)) _).2.dev.disk _
      rw [map_state]; exact openFile_disk hI' hR' L d name mode hm hc
    · -- a truncating open: no device call failed, it is the fault-free call
      have hq : (step (withFaults L s0) (.openFile d name mode)).1.dev.failed = s0.dev.failed := by
        apply Classical.byContradiction
        intro hne
        exact hm (hB hne)
      obtain ⟨_, h2⟩ := step_erase (withFaults L s0) (.openFile d name mode) hq
      rw [mclr_withFaults hI.noFault L] at h2
      have hd : (step (withFaults L s0) (.openFile d name mode)).1.dev.disk = (step s0 (.openFile d name mode)).1.dev.disk := by
        rw [h2]; rfl
      rw [hd, MHoare.step_unlocked s0 _ hI.unlocked]
      show RawAllD gh.vol.fatType ((openFileInDir d name mode >>= fun b => (pure (Payload.handle b) : M Payload)) (resetLogs s0)).2.dev.disk _
      rw [map_state]; exact openFile_disk_clean hI' hR' d name mode hc
  | openVolume i => exact absurd rfl hro
  | openRoot v => exact absurd rfl hro
  | openDir d n => exact absurd rfl hro
  | closeDir d => exact absurd rfl hro
  | read f n => exact absurd rfl hro
  | seekStart f n => exact absurd rfl hro
  | seekCur f n => exact absurd rfl hro
  | seekEnd f n => exact absurd rfl hro
  | find d n => exact absurd rfl hro
  | list d => exact absurd rfl hro
  | listLfn d n => exact absurd rfl hro
  | length f => exact absurd rfl hro
  | offset f => exact absurd rfl hro
  | eof f => exact absurd rfl hro
  | hasOpen => exact absurd rfl hro
  | label v => exact absurd rfl hro

/-- **One covered call under any schedule keeps `RawAll`** — a device failure falling anywhere but inside a truncating
`open_file_in_dir`. -/
theorem step_raw {s0 : Mgr} {gh : Ghost} (hI : VolInvX X s0 gh) (hR : RawAll s0) (L : List Nat) (op : Op)
    (hc : FCovered s0 op) (hB : (step (withFaults L s0) op).1.dev.failed ≠ s0.dev.failed → classC op = true) :
    InvF gh (step (withFaults L s0) op).1 ∧ RawAll (step (withFaults L s0) op).1 := by
  have hinv : InvF gh (step (withFaults L s0) op).1 :=
    step_inv_B hI L op hc fun hne => mayFail_of_classC hR (hB hne)
  refine ⟨hinv, ?_⟩
  have hD := step_disk hI (rawAllD_of hI hR) L op hc hB
  have hT : ∀ g, g ∈ (step (withFaults L s0) op).1.files → g.dirty = false ∨ ∃ f, f ∈ s0.files ∧ Desc f g := by
    have e1 := MHoare.step_unlocked (withFaults L s0) op hI.unlocked
    rw [e1]
    exact runOp_tab op (resetLogs (withFaults L s0))
  obtain ⟨gh', X', hI', hsg⟩ := hinv
  intro g hg vi hvi
  have hvol : vi.vol = gh'.vol := by
    rcases hI'.vols with h0 | ⟨vi', hvs, hvol⟩
    · have : (step (withFaults L s0) op).1.vols = [] := h0
      rw [this] at hvi; cases hvi
    · have : (step (withFaults L s0) op).1.vols = [vi'] := hvs
      rw [this] at hvi
      rw [List.mem_singleton.1 hvi]; exact hvol
  have hft : gh'.vol.fatType = gh.vol.fatType := hsg.fatType
  rw [hvol]
  rcases hT g hg with hcl | ⟨f, hf, hdesc⟩
  · exact rawBelow_of_clean (medX_of_med hI'.med) hg hcl
  · rw [hft]
    refine rawBelow_desc (hD f hf) hdesc fun hlt => ?_
    have hM := medX_of_med hI.med
    obtain ⟨hok, _⟩ := hI.med.fileOK f hf
    rcases hok.chain with ⟨_, h2, h3⟩ | hch
    · exact ⟨VolApi.cluster_zero_of_nil hM.tree (med_heads hM) hf h2, h3⟩
    · have := (ChainL.chain_inRange hch _ (ForestBase.chain_head_mem hch)).1
      omega

/-- The invariant up to the schedule and lost chains, with the entries of the open files not ahead of their records. -/
def InvFE (gh : Ghost) (s : Mgr) : Prop := InvF gh s ∧ RawAll s

theorem rawAll_mclr {s : Mgr} (h : RawAll s) : RawAll (mclr s) := h

/-- **One call from `InvFE`** (any schedule pending in `s`). -/
theorem step_inv_C {s : Mgr} {gh : Ghost} (hI : InvFE gh s) (op : Op) (hc : FCovered s op)
    (hB : (step s op).1.dev.failed ≠ s.dev.failed → classC op = true) :
    InvFE gh (step s op).1 ∧ Clean (step s op).2.result := by
  obtain ⟨⟨gh1, X1, hI1, hg1⟩, hR⟩ := hI
  have e := withFaults_mclr s
  have hB' : (step (withFaults s.dev.faults (mclr s)) op).1.dev.failed ≠ (mclr s).dev.failed → classC op = true := by
    rw [e]; exact hB
  have h := step_raw hI1 (rawAll_mclr hR) s.dev.faults op (fcovered_mclr hc) hB'
  rw [e] at h
  refine ⟨⟨h.1.sameGeom hg1, h.2⟩, ?_⟩
  exact (step_inv_FB ⟨gh1, X1, hI1, hg1⟩ op hc fun hne => mayFail_of_classC hR (hB hne)).2

/-- **Histories**: after every prefix. -/
theorem history_inv_C : ∀ (ops : List Op) {s : Mgr} {gh : Ghost}, InvFE gh s → CoveredRunF s ops →
    FailsOnlyIn classC s ops → ∀ k,
    InvFE gh (run s (ops.take k)).1 ∧ ∀ o, o ∈ (run s (ops.take k)).2 → Clean o.result
  | [], s, gh, hI, _, _, k => by
    rw [List.take_nil]
    exact ⟨hI, fun o ho => by cases ho⟩
  | op :: ops, s, gh, hI, hc, hf, 0 => ⟨hI, fun o ho => by cases ho⟩
  | op :: ops, s, gh, hI, hc, hf, k + 1 => by
    rw [List.take_succ_cons, WriteSetInv.run_cons]
    obtain ⟨hI1, hcl⟩ := step_inv_C hI op hc.1 hf.1
    obtain ⟨hI2, hcl2⟩ := history_inv_C ops hI1 hc.2 hf.2 k
    refine ⟨hI2, fun o ho => ?_⟩
    rcases List.mem_cons.1 ho with rfl | ho
    · exact hcl
    · exact hcl2 o ho

end Sdmmc.Lemmas.FaultX
