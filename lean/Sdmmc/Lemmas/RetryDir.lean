/-
C11, the retry clause, part 3 — the read-only directory calls (`findDirectoryEntry`, `iterateDir`,
`iterateDirLfn`) and the observers under an arbitrary fault schedule.

For a directory that is on the medium (`DirOn`), the fault-free answer is a function of the medium
(`dirLookup`, the live slots of `dirSlotsOf`).  Under any schedule the call changes neither medium
nor tables (`MRO`); if no device call failed it gives that answer, otherwise `DeviceError`; so the
retry gives that answer.
-/
import Sdmmc.Lemmas.RetryRead
import Sdmmc.Lemmas.ReopenBase

namespace Sdmmc.Lemmas.Retry
open Sdmmc.Model Sdmmc.Model.Fat Sdmmc.Spec Sdmmc.Lemmas.Fault
open Sdmmc.Lemmas.FatOps hiding BlocksOK Mirror HintOK
open Sdmmc.Lemmas.ReadRefines
open Sdmmc.Lemmas.Listing (Slot live decode dirSlots chainSlots listing)
open Sdmmc.Lemmas.Reopen (DirOn dirSlotsOf dirLookup IsFixedRoot rootStart rootBlocks)

/-! ### What a read-only call may change -/

/-- Device bookkeeping and cache only: every table is the same, the medium, the write log and the
fault schedule are the same, a coherent cache stays coherent. -/
structure MRO (s s' : Mgr) : Prop where
  eq : s' = { s with dev := s'.dev, cache := s'.cache }
  disk : s'.dev.disk = s.dev.disk
  wlog : s'.dev.wlog = s.dev.wlog
  faults : s'.dev.faults = s.dev.faults
  coh : MCoh s → MCoh s'

theorem MRO.refl (s : Mgr) : MRO s s := ⟨rfl, rfl, rfl, rfl, id⟩
theorem MRO.trans {a b c : Mgr} (h1 : MRO a b) (h2 : MRO b c) : MRO a c := by
  refine ⟨?_, h2.disk.trans h1.disk, h2.wlog.trans h1.wlog, h2.faults.trans h1.faults, fun h => h2.coh (h1.coh h)⟩
  have e1 := h1.eq
  have e2 := h2.eq
  rw [e2, e1]
instance : RelOK MRO := ⟨MRO.refl, MRO.trans⟩

theorem MRO.withVol {α} {f : F α} (i : Nat) (hf : ReadOnly f) : M.Inv MRO (withVol i f) := by
  intro s
  rcases withVol_cases i f s with ⟨_, he⟩ | ⟨vi, hv, he⟩
  · rw [he]; exact MRO.refl s
  · rw [he]
    have hro := hf { dev := s.dev, cache := s.cache, vol := vi.vol }
    refine ⟨?_, hro.disk, hro.wlog, hro.faults, fun h => hro.coherent h⟩
    simp only
    rw [hro.vol]
    show _ = ({ s with dev := _, cache := _ } : Mgr)
    congr 1
    exact list_set_self _ _ _ hv

theorem iterateRaw_readOnly (d : Nat) : ReadOnly (iterateRaw d) := iterateRaw_inv (R := RO) d

macro "mro_auto" : tactic => `(tactic| repeat (first
  | exact MRO.withVol _ (findDirectoryEntry_inv (R := RO) _ _)
  | exact MRO.withVol _ (iterateRaw_readOnly _)
  | mfault_step))

theorem findDirectoryEntry_mro (d : Nat) (name : List Nat) : M.Inv MRO (Model.findDirectoryEntry d name) := by
  unfold Model.findDirectoryEntry; mro_auto
theorem iterateDir_mro (d : Nat) : M.Inv MRO (iterateDir d) := by
  unfold iterateDir; mro_auto
theorem iterateDirLfn_mro (d n : Nat) : M.Inv MRO (iterateDirLfn d n) := by
  unfold iterateDirLfn; mro_auto

/-! ### The fault-free answers -/

/-- Listing through a directory handle, both kinds of directory: the live slots of the directory,
decoded, each with its raw bytes. -/
theorem iterate_dir_spec (s : FS) (dc : Nat) (dcs : List Nat)
    (hn : FBasic.NoFault s) (hc : FBasic.Coherent s) (hdir : DirOn s.vol s.dev.disk dc dcs) :
    ∃ s', iterateRaw dc s =
        (.ok ((live (dirSlotsOf s.vol s.dev.disk dc dcs)).map (fun x => (decode s.vol.fatType x, x.2.2))), s') := by
  unfold dirSlotsOf
  by_cases hk : IsFixedRoot s.vol dc
  · rw [if_pos hk]
    obtain ⟨h16, rfl⟩ := hk
    obtain ⟨s', h, _⟩ := Listing.iterate_fat16_root_spec s hn hc h16
    rw [h16]
    exact ⟨s', h⟩
  · rw [if_neg hk]
    obtain ⟨rest, rfl, hch, hlen⟩ := hdir hk
    obtain ⟨s', h, _⟩ := Listing.iterate_chain_spec s dc rest hn hc hk hch hlen
    exact ⟨s', h⟩

/-- A directory handle that resolves: slot `di` holds `dir`, its volume is in slot `vi`. -/
structure DirHandle (s : Mgr) (d di vi : Nat) (dir : DirInfo) (v : VolInfo) : Prop where
  found : s.dirs.findIdx? (·.rawDirectory = d) = some di
  slot : s.dirs[di]? = some dir
  volFound : s.vols.findIdx? (·.rawVolume = dir.rawVolume) = some vi
  volSlot : s.vols[vi]? = some v

theorem DirHandle.of_mro {s s' : Mgr} {d di vi : Nat} {dir : DirInfo} {v : VolInfo} (h : DirHandle s d di vi dir v)
    (hm : MRO s s') (L : List Nat) : DirHandle (msetFaults L s') d di vi dir v := by
  have e := hm.eq
  refine ⟨?_, ?_, ?_, ?_⟩
  · show s'.dirs.findIdx? _ = _; rw [e]; exact h.found
  · show s'.dirs[di]? = _; rw [e]; exact h.slot
  · show s'.vols.findIdx? _ = _; rw [e]; exact h.volFound
  · show s'.vols[vi]? = _; rw [e]; exact h.volSlot

/-- The fault-free run of `find_directory_entry`. -/
theorem find_clean (s : Mgr) (d di vi : Nat) (dir : DirInfo) (v : VolInfo) (name : List Nat) (sfn : Bytes) (dcs : List Nat)
    (hn : s.dev.faults = []) (hc : MCoh s) (hd : DirHandle s d di vi dir v) (hname : Sfn.createFromStr name = .ok sfn)
    (hdir : DirOn v.vol s.dev.disk dir.cluster dcs) :
    (Model.findDirectoryEntry d name s).1 = (dirLookup v.vol s.dev.disk dir.cluster dcs sfn).elim (.err .NotFound) .ok := by
  unfold Model.findDirectoryEntry
  have hsfn : toSfn name s = (.ok sfn, s) := by unfold toSfn; rw [hname]; rfl
  rw [M.bind_ok (MHoare.getDirById_ok hd.found), M.bind_ok (MHoare.getDir_ok hd.slot),
    M.bind_ok (MHoare.getVolumeById_ok hd.volFound), M.bind_ok hsfn, WriteRefines.withVol_run vi _ s v hd.volSlot]
  obtain ⟨s', h, _⟩ := Reopen.find_dir_spec (fsOf s v) dir.cluster dcs sfn hn hc hdir
  rw [h]
  rfl

/-- The fault-free run of the raw listing under `withVol`. -/
theorem iterate_clean (s : Mgr) (vi : Nat) (v : VolInfo) (dc : Nat) (dcs : List Nat)
    (hn : s.dev.faults = []) (hc : MCoh s) (hv : s.vols[vi]? = some v) (hdir : DirOn v.vol s.dev.disk dc dcs) :
    (withVol vi (iterateRaw dc) s).1 =
      .ok ((live (dirSlotsOf v.vol s.dev.disk dc dcs)).map (fun x => (decode v.vol.fatType x, x.2.2))) := by
  rw [WriteRefines.withVol_run vi _ s v hv]
  obtain ⟨s', h⟩ := iterate_dir_spec (fsOf s v) dc dcs hn hc hdir
  rw [h]
  rfl

theorem iterateDir_clean (s : Mgr) (d di vi : Nat) (dir : DirInfo) (v : VolInfo) (dcs : List Nat)
    (hn : s.dev.faults = []) (hc : MCoh s) (hd : DirHandle s d di vi dir v)
    (hdir : DirOn v.vol s.dev.disk dir.cluster dcs) :
    (iterateDir d s).1 = .ok (listing v.vol.fatType (dirSlotsOf v.vol s.dev.disk dir.cluster dcs)) := by
  have h := iterate_clean s vi v dir.cluster dcs hn hc hd.volSlot hdir
  rcases hw : withVol vi (iterateRaw dir.cluster) s with ⟨r, s'⟩
  rw [hw] at h
  simp only at h
  subst h
  rw [Listing.iterate_dir_hides_lfn d di vi dir s s' _ (MHoare.getDirById_ok hd.found) (MHoare.getDir_ok hd.slot)
    (MHoare.getVolumeById_ok hd.volFound) hw, Listing.listing_of_raw]

/-- What `iterate_dir_lfn` hands its callback, as a function of the directory's slots: the
long-name assembly folded over the live slots. -/
def lfnListing (ft : FatType) (bufSize : Nat) (ss : List Slot) : Res (List (DirEntry × Option Bytes)) :=
  lfnFold .Waiting (Lfn.new (zeros bufSize)) ((live ss).map fun x => (decode ft x, x.2.2))

theorem iterateDirLfn_clean (s : Mgr) (d di vi n : Nat) (dir : DirInfo) (v : VolInfo) (dcs : List Nat)
    (hn : s.dev.faults = []) (hc : MCoh s) (hd : DirHandle s d di vi dir v)
    (hdir : DirOn v.vol s.dev.disk dir.cluster dcs) :
    (iterateDirLfn d n s).1 = lfnListing v.vol.fatType n (dirSlotsOf v.vol s.dev.disk dir.cluster dcs) := by
  have h := iterate_clean s vi v dir.cluster dcs hn hc hd.volSlot hdir
  rcases hw : withVol vi (iterateRaw dir.cluster) s with ⟨r, s'⟩
  rw [hw] at h
  simp only at h
  subst h
  unfold iterateDirLfn
  rw [M.bind_ok (MHoare.getDirById_ok hd.found), M.bind_ok (MHoare.getDir_ok hd.slot),
    M.bind_ok (MHoare.getVolumeById_ok hd.volFound), M.bind_ok hw]
  rfl

/-! ### Under an arbitrary schedule -/

/-- The common shape: a read-only call `m` whose fault-free outcome on every state with the tables
and the medium of `s` is `ans`.  Under any schedule it changes neither medium nor tables; it answers
`ans` when no device call failed and `DeviceError` otherwise; and the retry — from the state the
failed call left, under any schedule in which no device call of the retry fails — answers `ans`. -/
theorem readonly_under_faults {α} (m : M α) (hro : M.Inv MRO m) (hag : MAgree m) (hst : MStrict m)
    (P : Mgr → Prop) (hP : ∀ s s' L, P s → MRO s s' → P (msetFaults L s'))
    (ans : Res α) (hclean : ∀ s, P s → s.dev.faults = [] → (m s).1 = ans) (s : Mgr) (hs : P s) :
    MRO s (m s).2 ∧
    ((m s).2.dev.failed = s.dev.failed → (m s).1 = ans) ∧
    ((m s).2.dev.failed ≠ s.dev.failed → (m s).1 = .err .DeviceError) ∧
    (∀ L', (m (msetFaults L' (m s).2)).2.dev.failed = (m s).2.dev.failed → (m (msetFaults L' (m s).2)).1 = ans) := by
  have hquiet : ∀ t, P t → (m t).2.dev.failed = t.dev.failed → (m t).1 = ans := by
    intro t ht hq
    rw [(hag.run t hq).1]
    exact hclean (mclr t) (hP t t [] ht (MRO.refl t)) rfl
  refine ⟨hro s, hquiet s hs, hst s, fun L' hq => ?_⟩
  exact hquiet _ (hP s _ L' hs (hro s)) hq

/-- The hypotheses of the directory calls survive a read-only call and a change of schedule. -/
def DirReady (d di vi : Nat) (dir : DirInfo) (v : VolInfo) (dcs : List Nat) (s : Mgr) : Prop :=
  MCoh s ∧ DirHandle s d di vi dir v ∧ DirOn v.vol s.dev.disk dir.cluster dcs

theorem DirReady.of_mro {d di vi : Nat} {dir : DirInfo} {v : VolInfo} {dcs : List Nat} (s s' : Mgr) (L : List Nat)
    (h : DirReady d di vi dir v dcs s) (hm : MRO s s') : DirReady d di vi dir v dcs (msetFaults L s') :=
  ⟨hm.coh h.1, h.2.1.of_mro hm L, by show DirOn v.vol s'.dev.disk _ _; rw [hm.disk]; exact h.2.2⟩

theorem find_under_faults (s : Mgr) (d di vi : Nat) (dir : DirInfo) (v : VolInfo) (name : List Nat) (sfn : Bytes)
    (dcs : List Nat) (hc : MCoh s) (hd : DirHandle s d di vi dir v) (hname : Sfn.createFromStr name = .ok sfn)
    (hdir : DirOn v.vol s.dev.disk dir.cluster dcs) :
    MRO s (Model.findDirectoryEntry d name s).2 ∧
    ((Model.findDirectoryEntry d name s).2.dev.failed = s.dev.failed →
      (Model.findDirectoryEntry d name s).1 = (dirLookup v.vol s.dev.disk dir.cluster dcs sfn).elim (.err .NotFound) .ok) ∧
    ((Model.findDirectoryEntry d name s).2.dev.failed ≠ s.dev.failed →
      (Model.findDirectoryEntry d name s).1 = .err .DeviceError) ∧
    (∀ L', (Model.findDirectoryEntry d name (msetFaults L' (Model.findDirectoryEntry d name s).2)).2.dev.failed =
        (Model.findDirectoryEntry d name s).2.dev.failed →
      (Model.findDirectoryEntry d name (msetFaults L' (Model.findDirectoryEntry d name s).2)).1 =
        (dirLookup v.vol s.dev.disk dir.cluster dcs sfn).elim (.err .NotFound) .ok) := by
  refine readonly_under_faults (Model.findDirectoryEntry d name) (findDirectoryEntry_mro d name)
    (findDirectoryEntry_magree d name) (findDirectoryEntry_mstrict d name)
    (fun t => DirReady d di vi dir v dcs t ∧ t.dev.disk = s.dev.disk)
    (fun a b L h hm => ⟨DirReady.of_mro a b L h.1 hm, (show b.dev.disk = _ from hm.disk).trans h.2⟩) _ ?_ s ⟨⟨hc, hd, hdir⟩, rfl⟩
  intro t ht hn
  rw [← ht.2]
  exact find_clean t d di vi dir v name sfn dcs hn ht.1.1 ht.1.2.1 hname ht.1.2.2

theorem iterateDir_under_faults (s : Mgr) (d di vi : Nat) (dir : DirInfo) (v : VolInfo) (dcs : List Nat)
    (hc : MCoh s) (hd : DirHandle s d di vi dir v) (hdir : DirOn v.vol s.dev.disk dir.cluster dcs) :
    MRO s (iterateDir d s).2 ∧
    ((iterateDir d s).2.dev.failed = s.dev.failed →
      (iterateDir d s).1 = .ok (listing v.vol.fatType (dirSlotsOf v.vol s.dev.disk dir.cluster dcs))) ∧
    ((iterateDir d s).2.dev.failed ≠ s.dev.failed → (iterateDir d s).1 = .err .DeviceError) ∧
    (∀ L', (iterateDir d (msetFaults L' (iterateDir d s).2)).2.dev.failed = (iterateDir d s).2.dev.failed →
      (iterateDir d (msetFaults L' (iterateDir d s).2)).1 =
        .ok (listing v.vol.fatType (dirSlotsOf v.vol s.dev.disk dir.cluster dcs))) := by
  refine readonly_under_faults (iterateDir d) (iterateDir_mro d) (iterateDir_magree d) (iterateDir_mstrict d)
    (fun t => DirReady d di vi dir v dcs t ∧ t.dev.disk = s.dev.disk)
    (fun a b L h hm => ⟨DirReady.of_mro a b L h.1 hm, (show b.dev.disk = _ from hm.disk).trans h.2⟩) _ ?_ s ⟨⟨hc, hd, hdir⟩, rfl⟩
  intro t ht hn
  rw [← ht.2]
  exact iterateDir_clean t d di vi dir v dcs hn ht.1.1 ht.1.2.1 ht.1.2.2

theorem iterateDirLfn_under_faults (s : Mgr) (d di vi n : Nat) (dir : DirInfo) (v : VolInfo) (dcs : List Nat)
    (hc : MCoh s) (hd : DirHandle s d di vi dir v) (hdir : DirOn v.vol s.dev.disk dir.cluster dcs) :
    MRO s (iterateDirLfn d n s).2 ∧
    ((iterateDirLfn d n s).2.dev.failed = s.dev.failed →
      (iterateDirLfn d n s).1 = lfnListing v.vol.fatType n (dirSlotsOf v.vol s.dev.disk dir.cluster dcs)) ∧
    ((iterateDirLfn d n s).2.dev.failed ≠ s.dev.failed → (iterateDirLfn d n s).1 = .err .DeviceError) ∧
    (∀ L', (iterateDirLfn d n (msetFaults L' (iterateDirLfn d n s).2)).2.dev.failed = (iterateDirLfn d n s).2.dev.failed →
      (iterateDirLfn d n (msetFaults L' (iterateDirLfn d n s).2)).1 =
        lfnListing v.vol.fatType n (dirSlotsOf v.vol s.dev.disk dir.cluster dcs)) := by
  refine readonly_under_faults (iterateDirLfn d n) (iterateDirLfn_mro d n) (iterateDirLfn_magree d n)
    (iterateDirLfn_mstrict d n)
    (fun t => DirReady d di vi dir v dcs t ∧ t.dev.disk = s.dev.disk)
    (fun a b L h hm => ⟨DirReady.of_mro a b L h.1 hm, (show b.dev.disk = _ from hm.disk).trans h.2⟩) _ ?_ s ⟨⟨hc, hd, hdir⟩, rfl⟩
  intro t ht hn
  rw [← ht.2]
  exact iterateDirLfn_clean t d di vi n dir v dcs hn ht.1.1 ht.1.2.1 ht.1.2.2

/-- With the schedule emptied, no device call of a read-only call fails. -/
theorem quiet_of_clean (op : Op) (hop : readOnlyOp op = true) (s : Mgr) :
    (runOp op (mclr s)).2.dev.failed = s.dev.failed := readonly_quiet op hop (mclr s) rfl

/-! ### The observers never touch the device -/

theorem observers_ignore_faults (h : Nat) (s : Mgr) (L : List Nat) :
    (fileLength h s).2 = s ∧ (fileOffset h s).2 = s ∧ (fileEof h s).2 = s ∧
    (fileLength h (msetFaults L s)).1 = (fileLength h s).1 ∧
    (fileOffset h (msetFaults L s)).1 = (fileOffset h s).1 ∧
    (fileEof h (msetFaults L s)).1 = (fileEof h s).1 := by
  have hfind : (msetFaults L s).files = s.files := rfl
  cases hh : s.files.findIdx? (·.rawFile = h) with
  | none =>
    have e1 : ∀ t : Mgr, t.files = s.files → fileLength h t = (.err .BadHandle, t) ∧ fileOffset h t = (.err .BadHandle, t) ∧
        fileEof h t = (.err .BadHandle, t) := by
      intro t ht
      have hb : getFileById h t = (.err .BadHandle, t) := MHoare.getFileById_bad (by rw [ht]; exact hh)
      refine ⟨?_, ?_, ?_⟩
      · unfold fileLength; rw [M.bind_err hb]
      · unfold fileOffset; rw [M.bind_err hb]
      · unfold fileEof; rw [M.bind_err hb]
    obtain ⟨a1, a2, a3⟩ := e1 s rfl
    obtain ⟨b1, b2, b3⟩ := e1 (msetFaults L s) hfind
    rw [a1, a2, a3, b1, b2, b3]
    exact ⟨rfl, rfl, rfl, rfl, rfl, rfl⟩
  | some i =>
    obtain ⟨f, hf, _⟩ := MHoare.findIdx?_some_get hh
    obtain ⟨a1, a2, a3⟩ := Files.file_observers_spec h i f s (MHoare.getFileById_ok hh) (MHoare.getFile_ok hf)
    obtain ⟨b1, b2, b3⟩ := Files.file_observers_spec h i f (msetFaults L s)
      (MHoare.getFileById_ok (by rw [hfind]; exact hh)) (MHoare.getFile_ok (by rw [hfind]; exact hf))
    rw [a1, a2, a3, b1, b2, b3]
    exact ⟨rfl, rfl, rfl, rfl, rfl, rfl⟩

end Sdmmc.Lemmas.Retry
