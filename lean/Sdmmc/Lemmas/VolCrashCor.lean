/-
C10 over whole API calls: what `CrashInv` says, clause by clause of the property.
-/
import Sdmmc.Lemmas.VolCrashBase
import Sdmmc.Lemmas.ForestFinal

namespace Sdmmc.Lemmas.VolCrash
open Sdmmc.Model Sdmmc.Model.Fat Sdmmc.Spec.Volume
open Sdmmc.Spec hiding NoFault Coherent
open Sdmmc.Lemmas.VolBase Sdmmc.Lemmas.VolTree Sdmmc.Lemmas.VolMed Sdmmc.Lemmas.VolDisk

section
variable {v : FatVolume} {d : Disk} {gh : Ghost}

/-- The raw references of a crashed medium. -/
def crashRefs (v : FatVolume) (d : Disk) (gh : Ghost) : List Nat :=
  rootHead v ++ gh.dirs.map Prod.fst ++
    (dirIds gh.dirs).flatMap fun h => fileRefs v.fatType [] (objects h (dirSlots v d gh.G h))

/-- "no chain is cyclic, none refers to a free, bad or out-of-range cluster": every chain is not empty, has no
cluster twice, every cluster is a data cluster whose FAT entry is neither free nor bad, each cluster is linked to the
next, the last one carries an end-of-chain mark. -/
theorem crash_chains_sound (hC : CrashInv v d gh) {cs : List Nat} (hcs : cs ∈ gh.G) :
    cs ≠ [] ∧ cs.Nodup ∧
    (∀ c, c ∈ cs → InRange v c ∧ ¬ isFree v d c ∧ ¬ isBad v d c) ∧
    (∀ k x y, cs[k]? = some x → cs[k + 1]? = some y → nextOf v d x = .ok y) ∧
    (∀ k x, cs[k]? = some x → k + 1 = cs.length → nextOf v d x = .err .EndOfFile) := by
  have hch := hC.owns.1 cs hcs
  exact ⟨ChainL.chain_ne_nil hch, ChainL.chain_nodup hch, fun c hc => ForestBase.chain_mem_used hch c hc,
    ChainL.chain_next hch, ChainL.chain_next_last hch⟩

/-- "no live directory entry refers to a free, bad or out-of-range cluster": everything the tree refers to — the
FAT32 root, every sub-directory, every file entry with a cluster (raw on-disk field) — is the first cluster of a chain
of the record (all of whose clusters are in use, `crash_chains_sound`). -/
theorem crash_references_sound (hC : CrashInv v d gh) :
    (∀ c, c ∈ rootHead v → chainOf gh.G c ∈ gh.G ∧ (chainOf gh.G c).head? = some c) ∧
    (∀ h p, (h, p) ∈ gh.dirs → chainOf gh.G h ∈ gh.G ∧ (chainOf gh.G h).head? = some h) ∧
    (∀ h, h ∈ dirIds gh.dirs → ∀ o, o ∈ objects h (dirSlots v d gh.G h) → isDirE o = false →
      sCluster v.fatType o ≠ 0 →
      chainOf gh.G (sCluster v.fatType o) ∈ gh.G ∧ (chainOf gh.G (sCluster v.fatType o)).head? = some (sCluster v.fatType o)) := by
  have hG := headsOK_of_ownsLoose hC.owns
  have hsub := hC.tree.allRefs.subset
  refine ⟨fun c hc => chainOf_spec hG (hsub (List.mem_append_left _ (List.mem_append_left _ hc))),
    fun h p hp => chainOf_spec hG (hsub (List.mem_append_left _ (List.mem_append_right _ (List.mem_map.2 ⟨(h, p), hp, rfl⟩)))),
    fun h hh o ho hd hc => chainOf_spec hG (hsub (List.mem_append_right _ ?_))⟩
  exact List.mem_flatMap.2 ⟨h, hh, mem_fileRefs.2 ⟨hc, o, ho, hd, rfl⟩⟩

/-- "no sub-directory entry lacks its own cluster": a sub-directory entry of directory `h` names a sub-directory of
the tree with parent `h`; its first cluster heads a chain of the record, and the slots of that chain start with the
`.` and `..` entries — initialised contents. -/
theorem crash_subdirs (hC : CrashInv v d gh) {h : Nat} (hh : h ∈ dirIds gh.dirs) {o : Slot}
    (ho : o ∈ objects h (dirSlots v d gh.G h)) (hd : isDirE o = true) :
    (sCluster v.fatType o, h) ∈ gh.dirs ∧ chainOf gh.G (sCluster v.fatType o) ∈ gh.G ∧
    (chainOf gh.G (sCluster v.fatType o)).head? = some (sCluster v.fatType o) ∧
    ∃ s0 s1 rest, dirSlots v d gh.G (sCluster v.fatType o) = s0 :: s1 :: rest ∧
      IsDot v.fatType Sfn.thisDir (sCluster v.fatType o) s0 ∧ IsDot v.fatType Sfn.parentDir h s1 := by
  have hm := hC.tree.subdirs h hh o ho hd
  obtain ⟨h1, h2⟩ := (crash_references_sound hC).2.1 _ _ hm
  exact ⟨hm, h1, h2, hC.tree.dots _ _ hm⟩

/-- "no two chains share a cluster": a cluster occurs in at most one chain, at one position; and no two references
(FAT32 root, sub-directory entries, file entries) name the same chain. -/
theorem crash_no_sharing (hC : CrashInv v d gh) :
    (∀ (i j a b : Nat) (cs cs' : List Nat) (c : Nat), gh.G[i]? = some cs → gh.G[j]? = some cs' → cs[a]? = some c →
      cs'[b]? = some c → i = j ∧ a = b) ∧
    (crashRefs v d gh).Nodup :=
  ⟨ForestFinal.flatten_pos_unique gh.G hC.owns.2.1,
   (hC.tree.allRefs.nodup_iff).2 (headsOK_of_ownsLoose hC.owns).nodup⟩

/-- The chains of the record are exactly what the tree references (one to one): the permitted residue "space
allocated but not yet referenced" is OUTSIDE the record — a cluster in use is a cluster of a referenced chain or a
lost cluster (`Sdmmc.Spec.Lost`). -/
theorem crash_refs_exact (hC : CrashInv v d gh) : List.Perm (crashRefs v d gh) (gh.G.map fun cs => cs.headD 0) :=
  hC.tree.allRefs

theorem crash_used_or_lost (gh : Ghost) (c : Nat) (hu : isUsed v d c) :
    (∃ cs, cs ∈ gh.G ∧ c ∈ cs) ∨ Lost v d gh.G c := by
  by_cases hm : c ∈ gh.G.flatten
  · exact .inl (List.mem_flatten.1 hm)
  · exact .inr ⟨hu, hm⟩

/-- "every directory has unique names" -/
theorem crash_names_unique (hC : CrashInv v d gh) {h : Nat} (hh : h ∈ dirIds gh.dirs) :
    ((entries (dirSlots v d gh.G h)).map sName).Nodup ∧ ((objects h (dirSlots v d gh.G h)).map sName).Nodup := by
  have := hC.tree.names h hh
  refine ⟨this, List.Nodup.sublist (List.Sublist.map sName ?_) this⟩
  unfold objects
  split
  · exact List.Sublist.refl _
  · exact List.drop_sublist 2 _

/-- "sub-directories have correct dot and dot-dot entries" (and their parent is a directory of the tree) -/
theorem crash_dot_entries (hC : CrashInv v d gh) {h p : Nat} (hp : (h, p) ∈ gh.dirs) :
    (∃ s0 s1 rest, dirSlots v d gh.G h = s0 :: s1 :: rest ∧ IsDot v.fatType Sfn.thisDir h s0 ∧
      IsDot v.fatType Sfn.parentDir p s1) ∧ p ∈ dirIds gh.dirs := by
  refine ⟨hC.tree.dots h p hp, ?_⟩
  obtain ⟨i, hi⟩ := List.getElem?_of_mem hp
  rcases hC.tree.order i h p hi with h0 | hm
  · rw [h0]; exact zero_mem_dirIds _
  · exact List.mem_cons_of_mem _ (List.map_subset _ (List.take_subset _ _) hm)

/-- "no directory exposes uninitialised cluster contents as entries": nothing follows the end-of-directory marker,
in every directory of the tree — in particular the slots of a cluster a directory grew by are blank. -/
theorem crash_clean_tail (hC : CrashInv v d gh) {h : Nat} (hh : h ∈ dirIds gh.dirs) : CleanTail (dirSlots v d gh.G h) :=
  hC.tree.cleanTail h hh

end

end Sdmmc.Lemmas.VolCrash
