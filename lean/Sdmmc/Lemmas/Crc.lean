/-
Lemmas for C19 (CRC-7 / CRC-16).  All lemmas live in the namespace `Sdmmc.Lemmas.Crc`;
this file gathers them.  Everything is checked by the kernel alone (tables use `decide +kernel`).

Layout
* `Crc16Lfsr`   — the bit-serial LFSR (`mulX16`, direct form `D16`, zero-append form `A16`),
                  GF(2)-linearity of `crc16Step`, and `crc16Step c b = eight D16 steps`
                  (linearity + three 256-entry tables).
* `Crc16Poly`   — `polyRem G16` is tracked by the zero-append-form register; direct form =
                  zero-append form after sixteen more shifts; `crc16_eq_spec`.
* `Crc16Linear` — `crc16_xor`, `crc16_append_self`.
* `Crc16Detect` — bits of `errPattern`; `x` invertible mod `G16`; bursts ≤ 16 bits; double-bit
                  errors (`x^d ≠ 1` for `0 < d < 4096`, one kernel evaluation of a 4095-step
                  fold); frame form.
* `Crc7`        — the same for the 7-bit register; `crc7_eq_spec`.
-/
import Sdmmc.Lemmas.Crc16Detect
import Sdmmc.Lemmas.Crc7

namespace Sdmmc.Lemmas.Crc
open Sdmmc.Model Sdmmc.Spec

/-! The lemmas used by `Sdmmc.Props.C19`, restated here so that a change of any of their
statements breaks this file first. -/

example (m : List (BitVec 8)) : crc16 m = specCrc16 m := crc16_eq_spec m
example (m : List (BitVec 8)) : crc7 m = specCrc7 m := crc7_eq_spec m
example (m : List (BitVec 8)) :
    crc16 (m ++ [(crc16 m).extractLsb' 8 8, (crc16 m).extractLsb' 0 8]) = 0#16 :=
  crc16_append_self m
example (a b : List (BitVec 8)) (h : a.length = b.length) :
    crc16 (xorMsg a b) = crc16 a ^^^ crc16 b := crc16_xor a b h
example (m : List (BitVec 8)) (hm : m.length = 512) (off : Nat) (bits : List Bool)
    (hne : bits ≠ []) (hlen : bits.length ≤ 16) (hfirst : bits.head? = some true)
    (hfit : off + bits.length ≤ 4096) :
    crc16 (xorMsg m (errPattern 512 off bits)) ≠ crc16 m :=
  crc16_detects_burst16 m hm off bits hne hlen hfirst hfit
example (m : List (BitVec 8)) (hm : m.length = 512) (i j : Nat) (hij : i < j) (hj : j < 4096) :
    crc16 (xorMsg m (errPattern 512 i (true :: List.replicate (j - i - 1) false ++ [true])))
      ≠ crc16 m :=
  crc16_detects_double m hm i j hij hj
example (m : List (BitVec 8)) (hm : m.length = 512) (off : Nat) (bits : List Bool)
    (hne : bits ≠ []) (hlen : bits.length ≤ 16) (hfirst : bits.head? = some true)
    (hfit : off + bits.length ≤ 4112) :
    crc16 (xorMsg (m ++ [(crc16 m).extractLsb' 8 8, (crc16 m).extractLsb' 0 8])
      (errPattern 514 off bits)) ≠ 0#16 :=
  crc16_frame_burst_detected m hm off bits hne hlen hfirst hfit

end Sdmmc.Lemmas.Crc
