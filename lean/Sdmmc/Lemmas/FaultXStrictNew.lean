/-
C11, arbitrary fault placement — `write_new_directory_entry` MISSES ITS LAST WRITE WHEN IT REPORTS A DEVICE ERROR
(`writeNew_strict`): instances of `SW` (`Lemmas/FaultXStrict`) for `writeNewBlocks`, `writeNewWalk`,
`writeNewDirectoryEntry`; and the fault-free fact they rest on (`…_mw`): a run that returns an entry wrote a block.
-/
import Sdmmc.Lemmas.FaultXStrict

namespace Sdmmc.Lemmas.FaultX
open Sdmmc.Model Sdmmc.Model.Fat
open Sdmmc.Spec hiding NoFault Coherent
open Sdmmc.Lemmas.Fault Sdmmc.Lemmas.Retry Sdmmc.Lemmas.CrashBase Sdmmc.Lemmas.FaultPre Sdmmc.Lemmas.FaultInv
open Sdmmc.Lemmas.FBasic (NoFault)

theorem mw_modify_writeBack {γ : Type} (g : Block → Block) (x : γ) (s1 : FS) (b : Nat) (hn1 : NoFault s1)
    (htag : s1.cache.tag = some b) :
    WL ((cacheModify g >>= fun _ => writeBack >>= fun _ => (pure x : F γ)) s1).2 = WL s1 + 1 := by
  rw [FBasic.bind_ok (FBasic.cacheModify_apply g s1)]
  generalize hs2 : ({ s1 with cache := { s1.cache with blk := g s1.cache.blk } } : FS) = s2
  have hn2 : NoFault s2 := by rw [← hs2]; exact hn1
  have ht2 : s2.cache.tag = some b := by rw [← hs2]; exact htag
  rw [FBasic.bind_ok (FBasic.writeBack_eq s2 b hn2 ht2)]
  show WL _ = _
  unfold WL
  rw [← hs2]
  rfl

/-- A fault-free `writeNewBlocks` that returns an entry wrote a block. -/
theorem writeNewBlocks_mw (name : Bytes) (att fc : Nat) (now : Timestamp) :
    ∀ (n b : Nat) (s : FS), NoFault s → ∀ e, (writeNewBlocks name att fc now n b s).1 = .ok (some e) →
      WL s < WL (writeNewBlocks name att fc now n b s).2 := by
  intro n
  induction n with
  | zero =>
    intro b s _ e h
    unfold writeNewBlocks at h
    cases h
  | succ n ih =>
    intro b s hn e h
    unfold writeNewBlocks at h ⊢
    rw [FBasic.bind_ok (FBasic.getVol_apply s)] at h ⊢
    rcases hcr : cacheRead b s with ⟨r1, s1⟩
    have hn1 : NoFault s1 := by
      have := FBasic.cacheRead_noFault b s hn
      rw [hcr] at this; exact this
    have hw1 : WL s ≤ WL s1 := by
      have := pre_wl_mono (Pre.cacheRead b) s
      rw [hcr] at this; exact this
    cases r1 with
    | ok u =>
      have htag : s1.cache.tag = some b := by
        have := cacheRead_ok_tag b s (by rw [hcr])
        rw [hcr] at this; exact this
      rw [FBasic.bind_ok hcr, FBasic.bind_ok (FBasic.cacheBlk_apply s1)] at h ⊢
      cases hff : firstFreeSlot (slotsOf s1.cache.blk) with
      | some off =>
        simp only [hff] at h ⊢
        rw [mw_modify_writeBack _ _ s1 b hn1 htag]
        omega
      | none =>
        simp only [hff] at h ⊢
        exact Nat.lt_of_le_of_lt hw1 (ih (b + 1) s1 hn1 e h)
    | err e' => rw [FBasic.bind_err hcr] at h; cases h
    | panic m => rw [FBasic.bind_panic hcr] at h; cases h
    | diverged => rw [FBasic.bind_diverged hcr] at h; cases h

/-- `writeNewBlocks`: a run in which a device call failed, whose fault-free twin returns an entry, missed a write. -/
theorem writeNewBlocks_sw (name : Bytes) (att fc : Nat) (now : Timestamp) :
    ∀ (n b : Nat), SW (writeNewBlocks name att fc now n b) (fun r => r ≠ none) := by
  intro n
  induction n with
  | zero => intro b; unfold writeNewBlocks; exact SW.pure _
  | succ n ih =>
    intro b
    have hpre := writeNewBlocks_pre name att fc now n
    unfold writeNewBlocks
    refine SW.bind_nodev Pre.getVol (fun v => by pre_auto) (fun _ => rfl) fun v => ?_
    refine SW.bind (gm := fun _ => False) (Pre.cacheRead b) (fun _ => by pre_auto) .none (fun _ => ?_) ?_
    · refine SW.bind_nodev Pre.cacheBlk (fun blk => by pre_auto) (fun _ => rfl) fun blk => ?_
      split
      · refine SW.bind_nodev (Pre.cacheModify _) (fun _ => by pre_auto) (fun _ => rfl) fun _ => ?_
        exact SW.bind (gm := fun _ => True) Pre.writeBack (fun _ => Pre.pure _) sw_writeBack (fun _ => SW.pure _)
          (fun _ _ _ _ _ hg => absurd trivial hg)
      · exact ih (b + 1)
    · intro s a c1 _ hcl _ r hr hgr
      have hn1 : NoFault c1 := by
        have := FBasic.cacheRead_noFault b (clr s) rfl
        rw [hcl] at this; exact this
      have htag : c1.cache.tag = some b := by
        have := cacheRead_ok_tag b (clr s) (by rw [hcl])
        rw [hcl] at this; exact this
      rw [FBasic.bind_ok (FBasic.cacheBlk_apply c1)] at hr ⊢
      cases hff : firstFreeSlot (slotsOf c1.cache.blk) with
      | some off =>
        simp only [hff]
        rw [mw_modify_writeBack _ _ c1 b hn1 htag]
        omega
      | none =>
        simp only [hff] at hr ⊢
        cases r with
        | none => exact absurd rfl hgr
        | some e => exact writeNewBlocks_mw name att fc now n (b + 1) c1 hn1 e hr

theorem noFault_of_inv {α : Type} {m : F α} (h : F.Inv FaultsSame m) {s : FS} (hn : NoFault s) : NoFault (m s).2 := by
  have : (m s).2.dev.faults = s.dev.faults := h s
  unfold NoFault; rw [this]; exact hn

/-- A fault-free `writeNewWalk` that returns an entry wrote a block — after its first `writeNewBlocks` if that found no
free slot. -/
theorem writeNewWalk_mw (name : Bytes) (att fc : Nat) (now : Timestamp) :
    ∀ (fuel : Nat) (w : DirWalk) (s : FS), NoFault s → ∀ e, (writeNewWalk name att fc now fuel w s).1 = .ok e →
      WL s < WL (writeNewWalk name att fc now fuel w s).2 ∧
      (∀ fuel', fuel = fuel' + 1 → (writeNewBlocks name att fc now w.dirSize w.firstBlock s).1 = .ok none →
        WL (writeNewBlocks name att fc now w.dirSize w.firstBlock s).2 < WL (writeNewWalk name att fc now fuel w s).2) := by
  intro fuel
  induction fuel with
  | zero =>
    intro w s _ e h
    unfold writeNewWalk at h
    cases h
  | succ fuel ih =>
    intro w s hn e h
    rcases hb : writeNewBlocks name att fc now w.dirSize w.firstBlock s with ⟨r1, s1⟩
    have hn1 : NoFault s1 := by
      have := noFault_of_inv (writeNewBlocks_inv (R := FaultsSame) name att fc now w.dirSize w.firstBlock) hn
      rw [hb] at this; exact this
    have hw1 : WL s ≤ WL s1 := by
      have := pre_wl_mono (writeNewBlocks_pre name att fc now w.dirSize w.firstBlock) s
      rw [hb] at this; exact this
    unfold writeNewWalk at h ⊢
    cases r1 with
    | err e' => rw [FBasic.bind_err hb] at h; cases h
    | panic m => rw [FBasic.bind_panic hb] at h; cases h
    | diverged => rw [FBasic.bind_diverged hb] at h; cases h
    | ok o =>
      rw [FBasic.bind_ok hb] at h ⊢
      cases o with
      | some e' =>
        simp only at h ⊢
        have := writeNewBlocks_mw name att fc now w.dirSize w.firstBlock s hn e' (by rw [hb])
        rw [hb] at this
        exact ⟨this, fun _ _ h0 => by cases h0⟩
      | none =>
        simp only at h ⊢
        have key : ∀ x, WL s1 < x → WL s < x ∧ (∀ fuel', fuel + 1 = fuel' + 1 → True → WL s1 < x) :=
          fun x hx => ⟨Nat.lt_of_le_of_lt hw1 hx, fun _ _ _ => hx⟩
        apply key
        by_cases hfr : w.fixedRoot = true
        · rw [if_pos hfr] at h; cases h
        rw [if_neg hfr] at h ⊢
        rw [F.attempt_bind_apply] at h ⊢
        rcases hnc : nextCluster w.cluster s1 with ⟨r2, s2⟩
        have hn2 : NoFault s2 := by
          have := noFault_of_inv (nextCluster_inv (R := FaultsSame) w.cluster) hn1
          rw [hnc] at this; exact this
        have hw2 : WL s1 ≤ WL s2 := by
          have := pre_wl_mono (nextCluster_pre w.cluster) s1
          rw [hnc] at this; exact this
        rw [hnc] at h
        simp only at h ⊢
        cases r2 with
        | ok n =>
          simp only at h ⊢
          rw [FBasic.bind_ok (FBasic.getVol_apply s2)] at h ⊢
          exact Nat.lt_of_le_of_lt hw2 (ih _ s2 hn2 e h).1
        | panic m => cases h
        | diverged => cases h
        | err e2 =>
          by_cases heof : e2 = .EndOfFile
          · subst heof
            simp only at h ⊢
            rcases hal : allocCluster (some w.cluster) true s2 with ⟨r3, s3⟩
            have hn3 : NoFault s3 := by
              have := noFault_of_inv (allocCluster_inv (R := FaultsSame) (some w.cluster) true) hn2
              rw [hal] at this; exact this
            have hw3 : WL s2 ≤ WL s3 := by
              have := pre_wl_mono (allocCluster_pre (some w.cluster) true) s2
              rw [hal] at this; exact this
            cases r3 with
            | ok c =>
              rw [FBasic.bind_ok hal, FBasic.bind_ok (FBasic.getVol_apply s3)] at h ⊢
              exact Nat.lt_of_le_of_lt (Nat.le_trans hw2 hw3) (ih _ s3 hn3 e h).1
            | err e3 => rw [FBasic.bind_err hal] at h; cases h
            | panic m => rw [FBasic.bind_panic hal] at h; cases h
            | diverged => rw [FBasic.bind_diverged hal] at h; cases h
          · exfalso
            cases e2 <;> first | exact heof rfl | cases h

theorem sw_fail {α : Type} {good : α → Prop} (e : Err) : SW (F.fail e : F α) good := .of_quiet fun _ => rfl
theorem sw_lift {α : Type} {good : α → Prop} (r : Res α) : SW (F.lift r : F α) good := .of_quiet fun _ => rfl
theorem sw_diverge {α : Type} {good : α → Prop} : SW (F.diverge : F α) good := .of_quiet fun _ => rfl

/-- `writeNewWalk`: a run in which a device call failed, whose fault-free twin returns an entry, missed a write. -/
theorem writeNewWalk_sw (name : Bytes) (att fc : Nat) (now : Timestamp) :
    ∀ (fuel : Nat) (w : DirWalk), SW (writeNewWalk name att fc now fuel w) (fun _ => True) := by
  intro fuel
  induction fuel with
  | zero => intro w; unfold writeNewWalk; exact sw_diverge
  | succ fuel ih =>
    intro w
    have hpre := writeNewWalk_pre name att fc now fuel
    have hpn := nextCluster_pre
    have hpa := allocCluster_pre
    have hmwW := writeNewWalk_mw name att fc now (fuel + 1) w
    unfold writeNewWalk at hmwW ⊢
    refine SW.bind (gm := fun r => r ≠ none) (writeNewBlocks_pre name att fc now w.dirSize w.firstBlock)
      (fun r => by pre_auto) (writeNewBlocks_sw name att fc now w.dirSize w.firstBlock) (fun r => ?_) ?_
    · split
      · exact SW.pure _
      · split
        · exact sw_fail _
        · refine SW.attempt_bind (gm := fun _ => False) (nextCluster_pre w.cluster) (fun r => by pre_auto) (fun _ => rfl) .none
            (fun r => ?_) ?_
          · split
            · exact SW.bind_nodev Pre.getVol (fun v => hpre _) (fun _ => rfl) fun v => ih _
            · refine SW.bind (gm := fun _ => False) (allocCluster_pre (some w.cluster) true) (fun c => by pre_auto) .none
                (fun c => SW.bind_nodev Pre.getVol (fun v => hpre _) (fun _ => rfl) fun v => ih _) ?_
              intro s c c1 _ hcl _ e he _
              have hn1 : NoFault c1 := by
                have := noFault_of_inv (allocCluster_inv (R := FaultsSame) (some w.cluster) true) (s := clr s) rfl
                rw [hcl] at this; exact this
              rw [FBasic.bind_ok (FBasic.getVol_apply c1)] at he ⊢
              exact (writeNewWalk_mw name att fc now fuel _ c1 hn1 e he).1
            · exact sw_lift _
          · -- a device call of `next_cluster` failed: the fault-free rest writes
            intro s r0 c1 _ hcl _ e he _
            have hn1 : NoFault c1 := by
              have := noFault_of_inv (nextCluster_inv (R := FaultsSame) w.cluster) (s := clr s) rfl
              rw [hcl] at this; exact this
            cases r0 with
            | ok n =>
              simp only at he ⊢
              rw [FBasic.bind_ok (FBasic.getVol_apply c1)] at he ⊢
              exact (writeNewWalk_mw name att fc now fuel _ c1 hn1 e he).1
            | panic m => cases he
            | diverged => cases he
            | err e2 =>
              by_cases heof : e2 = .EndOfFile
              · subst heof
                simp only at he ⊢
                rcases hal : allocCluster (some w.cluster) true c1 with ⟨r3, s3⟩
                have hn3 : NoFault s3 := by
                  have := noFault_of_inv (allocCluster_inv (R := FaultsSame) (some w.cluster) true) hn1
                  rw [hal] at this; exact this
                have hw3 : WL c1 ≤ WL s3 := by
                  have := pre_wl_mono (allocCluster_pre (some w.cluster) true) c1
                  rw [hal] at this; exact this
                cases r3 with
                | ok c =>
                  rw [FBasic.bind_ok hal, FBasic.bind_ok (FBasic.getVol_apply s3)] at he ⊢
                  exact Nat.lt_of_le_of_lt hw3 (writeNewWalk_mw name att fc now fuel _ s3 hn3 e he).1
                | err e3 => rw [FBasic.bind_err hal] at he; cases he
                | panic m => rw [FBasic.bind_panic hal] at he; cases he
                | diverged => rw [FBasic.bind_diverged hal] at he; cases he
              · exfalso
                cases e2 <;> first | exact heof rfl | cases he
    · -- a device call of `writeNewBlocks` failed and its fault-free twin found no slot: the rest writes
      intro s o c1 _ hcl ho e he _
      have ho' : o = none := Classical.byContradiction fun h => ho h
      subst ho'
      have := (hmwW (clr s) rfl e (by rw [FBasic.bind_ok hcl]; exact he)).2 fuel rfl (by rw [hcl])
      rw [FBasic.bind_ok hcl, hcl] at this
      exact this

/-- **`write_new_directory_entry` that reports a device error has not written the entry**: when a device call of it
fails and the fault-free run returns an entry, the faulted run issued fewer device writes. -/
theorem writeNew_sw (d : Nat) (name : Bytes) (att fc : Nat) (now : Timestamp) :
    SW (writeNewDirectoryEntry d name att fc now) (fun _ => True) := by
  unfold writeNewDirectoryEntry
  exact SW.bind_nodev Pre.getVol (fun v => writeNewWalk_pre name att fc now _ _) (fun _ => rfl) fun v =>
    writeNewWalk_sw name att fc now _ _

end Sdmmc.Lemmas.FaultX
