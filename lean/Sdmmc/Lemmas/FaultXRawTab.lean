/-
C11, arbitrary fault placement — `EntryNotAhead` AS AN INVARIANT, part 3: WHAT A CALL DOES TO THE TABLE OF OPEN FILES,
whatever fails (`runOp_tab`): every record of the table afterwards is UNMODIFIED (`dirty = false`: then its entry on
the medium is the record, by the invariant) or DESCENDS from a record of the table before — same slot, a size that did
not shrink, the same first cluster or none before (`Desc`).  Read-only calls keep the entries (`VolCrash.FilesKeep`, C10);
`flush_file`, `close_volume`, `delete_file_in_dir`, `make_dir_in_dir` keep the table; `close_file` removes a record;
`open_file_in_dir` appends an unmodified record; `write` lets one record grow.
-/
import Sdmmc.Lemmas.FaultXRaw
import Sdmmc.Lemmas.VolCrashRO
import Sdmmc.Lemmas.Tables

namespace Sdmmc.Lemmas.FaultX
open Sdmmc.Model Sdmmc.Model.Fat
open Sdmmc.Spec hiding NoFault Coherent run step
open Sdmmc.Lemmas.Fault Sdmmc.Lemmas.MHoare Sdmmc.Lemmas.VolCrash

/-! ### The table grows by unmodified records only -/

/-- Every record afterwards was there before, or is unmodified. -/
def FilesExt (s s' : Mgr) : Prop := ∀ g, g ∈ s'.files → g ∈ s.files ∨ g.dirty = false

theorem FilesExt.of_files_eq {s s' : Mgr} (h : s'.files = s.files) : FilesExt s s' := fun g hg => .inl (h ▸ hg)

instance : RelOK FilesExt where
  refl := fun _ => FilesExt.of_files_eq rfl
  trans := fun h1 h2 g hg => (h2 g hg).elim (fun h => h1 g h) .inr

instance : WithVolOK FilesExt where
  withVol := fun i f s => by
    rcases withVol_cases i f s with ⟨_, he⟩ | ⟨vi, _, he⟩
    · rw [he]; exact FilesExt.of_files_eq rfl
    · rw [he]; exact FilesExt.of_files_eq rfl

theorem FilesExt.generate : M.Inv FilesExt generate := fun _ => FilesExt.of_files_eq rfl
theorem FilesExt.modify_same {f : Mgr → Mgr} (h : ∀ s, (f s).files = s.files) : M.Inv FilesExt (M.modify f) :=
  fun s => FilesExt.of_files_eq (h s)
theorem FilesExt.push (file : FileInfo) (hd : file.dirty = false) :
    M.Inv FilesExt (M.modify fun s => { s with files := s.files ++ [file] }) := by
  intro s g hg
  rcases List.mem_append.1 hg with h | h
  · exact .inl h
  · exact .inr (by rw [List.mem_singleton.1 h]; exact hd)

/-- The outcome, if `Ok`, is an unmodified record. -/
def CleanRes (m : M FileInfo) : Prop := ∀ s f, (m s).1 = .ok f → f.dirty = false

theorem CleanRes.pure (f : FileInfo) (h : f.dirty = false) : CleanRes (pure f) := fun _ _ e => by cases e; exact h
theorem CleanRes.fail (e : Err) : CleanRes (M.fail e) := fun _ _ h => by cases h
theorem CleanRes.bind {α} {m : M α} {k : α → M FileInfo} (hk : ∀ a, CleanRes (k a)) : CleanRes (m >>= k) := by
  intro s f h
  rcases hr : m s with ⟨r, s'⟩
  cases r with
  | ok a => rw [M.bind_ok hr] at h; exact hk a s' f h
  | err e => rw [M.bind_err hr] at h; cases h
  | panic msg => rw [M.bind_panic hr] at h; cases h
  | diverged => rw [M.bind_diverged hr] at h; cases h

theorem FilesExt.bind_file {β} {m : M FileInfo} {k : FileInfo → M β} (hm : M.Inv FilesExt m) (hc : CleanRes m)
    (hk : ∀ f, f.dirty = false → M.Inv FilesExt (k f)) : M.Inv FilesExt (m >>= k) := by
  intro s
  have hms := hm s
  rcases hr : m s with ⟨r, s'⟩
  rw [hr] at hms
  cases r with
  | ok a =>
    rw [M.bind_ok hr]
    exact RelOK.trans hms (hk a (hc s a (by rw [hr])) s')
  | err e => rw [M.bind_err hr]; exact hms
  | panic msg => rw [M.bind_panic hr]; exact hms
  | diverged => rw [M.bind_diverged hr]; exact hms

macro "cleanres_auto" : tactic => `(tactic| repeat (first
  | exact CleanRes.pure _ rfl
  | exact CleanRes.fail _
  | (apply CleanRes.bind; intro _)
  | split))

macro "fe_step" : tactic => `(tactic| first
  | with_reducible first
    | exact FilesExt.generate
    | exact FilesExt.modify_same (fun _ => rfl)
    | exact FilesExt.push _ rfl
    | exact FilesExt.push _ (by assumption)
  | (refine FilesExt.bind_file ?_ (by cleanres_auto) (fun _ _ => ?_))
  | mfault_step)

macro "fe_auto" : tactic => `(tactic| repeat fe_step)

/-- `open_file_in_dir`, whatever fails: the table is as before, or an unmodified record was appended. -/
theorem openFileInDir_ext (d : Nat) (name : List Nat) (mode : Mode) : M.Inv FilesExt (openFileInDir d name mode) := by
  unfold openFileInDir; fe_auto

/-! ### The table is kept -/

theorem FilesSame.modify {f : Mgr → Mgr} (h : ∀ s, (f s).files = s.files) : M.Inv FilesSame (M.modify f) := fun s => h s

macro "fs_step" : tactic => `(tactic| first
  | with_reducible first
    | exact FilesSame.generate
    | exact FilesSame.modify (fun _ => rfl)
  | mfault_step)

macro "fs_auto" : tactic => `(tactic| repeat fs_step)

theorem deleteFileInDir_filesSame (d : Nat) (name : List Nat) : M.Inv FilesSame (deleteFileInDir d name) := by
  unfold deleteFileInDir; fs_auto

theorem makeDirInDir_filesSame (d : Nat) (name : List Nat) : M.Inv FilesSame (makeDirInDir d name) := by
  unfold makeDirInDir; fs_auto

theorem closeVolume_filesSame (v : Nat) : M.Inv FilesSame (closeVolume v) := by
  unfold closeVolume; fs_auto

/-! ### `close_file` removes a record -/

theorem mem_swapRemove {α} {l : List α} {i : Nat} {x : α} (h : x ∈ swapRemove l i) : x ∈ l := by
  unfold swapRemove at h
  split at h
  · next last y hl hy =>
    split at h
    · exact (List.dropLast_sublist _).subset h
    · have h1 := (List.dropLast_sublist _).subset h
      rcases List.mem_or_eq_of_mem_set h1 with h2 | h2
      · exact h2
      · rw [h2]; exact List.mem_of_getLast? hl
  · exact h

theorem closeFile_sub (f : Nat) (s : Mgr) : ∀ g, g ∈ (closeFile f s).2.files → g ∈ s.files := by
  intro g hg
  have hfs : (flushFile f s).2.files = s.files := flushFile_filesSame f s
  unfold closeFile at hg
  rw [MHoare.attempt_bind] at hg
  cases hidx : (flushFile f s).2.files.findIdx? (·.rawFile = f) with
  | none =>
    rw [MHoare.bind_err (getFileById_bad hidx)] at hg
    rw [← hfs]; exact hg
  | some i =>
    rw [MHoare.bind_ok (getFileById_ok hidx), MHoare.modify_bind] at hg
    have : g ∈ swapRemove (flushFile f s).2.files i := hg
    rw [← hfs]; exact mem_swapRemove this

/-! ### `write` lets a record grow -/

/-- Every record afterwards descends from a record before. -/
def DescR (s s' : Mgr) : Prop := ∀ g, g ∈ s'.files → ∃ f, f ∈ s.files ∧ Desc f g

theorem DescR.of_files_eq {s s' : Mgr} (h : s'.files = s.files) : DescR s s' := fun g hg => ⟨g, h ▸ hg, Desc.refl g⟩

instance : RelOK DescR where
  refl := fun _ => DescR.of_files_eq rfl
  trans := fun h1 h2 g hg => by
    obtain ⟨f, hf, e⟩ := h2 g hg
    obtain ⟨f0, hf0, e0⟩ := h1 f hf
    exact ⟨f0, hf0, e0.trans e⟩

instance : WithVolOK DescR where
  withVol := fun i f s => by
    rcases withVol_cases i f s with ⟨_, he⟩ | ⟨vi, _, he⟩
    · rw [he]; exact DescR.of_files_eq rfl
    · rw [he]; exact DescR.of_files_eq rfl

theorem DescR.modifyFile (i : Nat) {g : FileInfo → FileInfo} (hg : ∀ x, Desc x (g x)) : M.Inv DescR (Model.modifyFile i g) := by
  intro s x hx
  rcases VolCrash.mem_modify g s.files i x hx with h | ⟨y, hy, e⟩
  · exact ⟨x, h, Desc.refl x⟩
  · exact ⟨y, hy, by rw [e]; exact hg y⟩

theorem DescR.generate : M.Inv DescR generate := fun _ => DescR.of_files_eq rfl

theorem desc_bump (cc : Nat × Nat) (t : Nat) (x : FileInfo) : Desc x (WriteRefines.bump cc t x) := by
  have he := (WriteRefines.bump_loopFile cc t x).entry
  have hs := WriteRefines.bump_size cc t x
  refine ⟨by rw [he], by rw [he], by rw [hs]; exact Nat.le_max_left _ _, .inl (by rw [he])⟩

macro "dr_step" : tactic => `(tactic| first
  | with_reducible first
    | exact DescR.generate
  | exact DescR.modifyFile _ (fun x => desc_bump _ _ x)
  | mfault_step)

macro "dr_auto" : tactic => `(tactic| repeat dr_step)

theorem writeLoop_desc (fi vi fuel : Nat) (buf : Bytes) : M.Inv DescR (writeLoop fi vi fuel buf) := by
  induction fuel generalizing buf with
  | zero => unfold writeLoop; dr_auto
  | succ n ih => unfold writeLoop; dr_auto

theorem fixup_desc (x : FileInfo) : Desc x (WriteRefines.fixup x) := by
  unfold WriteRefines.fixup; split
  · exact ⟨rfl, rfl, Nat.le_refl _, .inl rfl⟩
  · exact Desc.refl x

theorem writeRest_desc (rv i : Nat) (buf : Bytes) : M.Inv DescR (WriteRefines.writeRest rv i buf) := by
  have := writeLoop_desc
  unfold WriteRefines.writeRest
  refine M.Inv.bind (M.Inv.getVolumeById _) fun vi => M.Inv.bind (DescR.modifyFile i fixup_desc) fun _ =>
    M.Inv.bind (M.Inv.getFile _) fun f => M.Inv.bind (this _ _ _ _) fun _ => ?_
  split
  · exact M.Inv.fail _
  · exact M.Inv.pure _

/-- **`write`, whatever fails**: every record afterwards descends from a record before. -/
theorem write_desc (h : Nat) (data : Bytes) : M.Inv DescR (Model.write h data) := by
  intro s
  cases hidx : s.files.findIdx? (·.rawFile = h) with
  | none =>
    have : Model.write h data s = (.err .BadHandle, s) := by
      unfold Model.write
      rw [MHoare.bind_err (getFileById_bad hidx)]
    rw [this]; exact RelOK.refl s
  | some i =>
    obtain ⟨f, hf, _⟩ := findIdx?_some_get hidx
    cases hv : s.vols.findIdx? (·.rawVolume = f.rawVolume) with
    | none =>
      have : Model.write h data s = (.err .BadHandle, s) := by
        unfold Model.write
        rw [MHoare.bind_ok (getFileById_ok hidx), MHoare.bind_ok (getFile_ok hf), MHoare.bind_err (getVolumeById_bad hv)]
      rw [this]; exact RelOK.refl s
    | some vi =>
      by_cases hmode : f.mode = .ReadOnly
      · rw [WriteRefines.write_readOnly s h i vi data f hidx hf hv hmode]; exact RelOK.refl s
      rw [WriteRefines.write_run s h i vi data f hidx hf hv hmode]
      have hilt : i < s.files.length := (List.getElem?_eq_some_iff.1 hf).1
      generalize hfa : WriteRefines.touchFile s.clock f = fa
      have hdfa : Desc f fa := by rw [← hfa]; exact ⟨rfl, rfl, Nat.le_refl _, .inl rfl⟩
      have hfa_cl : fa.entry.cluster = f.entry.cluster := by rw [← hfa]; rfl
      generalize hsa : ({ s with files := s.files.set i fa } : Mgr) = sa
      have h0 : DescR s sa := by
        rw [← hsa]
        intro g hg
        rcases List.mem_or_eq_of_mem_set hg with hg | rfl
        · exact ⟨g, hg, Desc.refl g⟩
        · exact ⟨f, List.mem_of_getElem? hf, hdfa⟩
      refine RelOK.trans h0 ?_
      have hsa_f : sa.files[i]? = some fa := by rw [← hsa]; exact List.getElem?_set_self hilt
      unfold WriteRefines.writeTail
      by_cases hcl : f.entry.cluster < Gen.RESERVED_ENTRIES
      · rw [if_pos hcl]
        have hw : DescR sa (withVol vi (allocCluster none false) sa).2 := WithVolOK.withVol vi _ sa
        have hfiles : (withVol vi (allocCluster none false) sa).2.files = sa.files := by
          rcases withVol_cases vi (allocCluster none false) sa with ⟨_, he⟩ | ⟨v, _, he⟩ <;> rw [he]
        rcases hal : withVol vi (allocCluster none false) sa with ⟨ra, sb⟩
        rw [hal] at hw hfiles
        simp only at hw hfiles
        cases ra with
        | err e => rw [M.bind_err hal]; exact hw
        | panic m => rw [M.bind_panic hal]; exact hw
        | diverged => rw [M.bind_diverged hal]; exact hw
        | ok c =>
          have hmod : modifyFile i (fun g => { g with entry := { g.entry with cluster := c } }) sb =
              (.ok (), { sb with files := sb.files.set i { fa with entry := { fa.entry with cluster := c } } }) := by
            show (Res.ok (), ({ sb with files := sb.files.modify i _ } : Mgr)) = _
            rw [WriteRefines.modify_eq_set _ _ _ _ (by rw [hfiles]; exact hsa_f)]
          rw [M.bind_ok hal, M.bind_ok hmod]
          refine RelOK.trans hw (RelOK.trans ?_ (writeRest_desc _ _ _ _))
          intro g hg
          rcases List.mem_or_eq_of_mem_set hg with hg | rfl
          · exact ⟨g, hg, Desc.refl g⟩
          · exact ⟨fa, by rw [hfiles]; exact List.mem_of_getElem? hsa_f, ⟨rfl, rfl, Nat.le_refl _, .inr (by rw [hfa_cl]; exact hcl)⟩⟩
      · rw [if_neg hcl]
        exact writeRest_desc _ _ _ _

/-! ### Every call -/

theorem tab_of_filesSame {s s' : Mgr} (h : s'.files = s.files) :
    ∀ g, g ∈ s'.files → g.dirty = false ∨ ∃ f, f ∈ s.files ∧ Desc f g :=
  fun g hg => .inr ⟨g, h ▸ hg, Desc.refl g⟩

/-- **Every call, whatever fails**: a record of the table afterwards is unmodified, or descends from a record before. -/
theorem runOp_tab (op : Op) (s : Mgr) :
    ∀ g, g ∈ (runOp op s).2.files → g.dirty = false ∨ ∃ f, f ∈ s.files ∧ Desc f g := by
  by_cases hro : readOnlyOp op = true
  · intro g hg
    obtain ⟨f, hf, e⟩ := runOp_readonly_keep op hro s g hg
    exact .inr ⟨f, hf, Desc.of_entry e⟩
  cases op with
  | openFile d name mode =>
    intro g hg
    have hst : (runOp (.openFile d name mode) s).2 = (openFileInDir d name mode s).2 :=
      VolApi.map_state (openFileInDir d name mode) Payload.handle s
    rw [hst] at hg
    rcases openFileInDir_ext d name mode s g hg with h | h
    · exact .inr ⟨g, h, Desc.refl g⟩
    · exact .inl h
  | write f data =>
    intro g hg
    have hst : (runOp (.write f data) s).2 = (Model.write f data s).2 := VolApi.seq_state (Model.write f data) Payload.unit s
    rw [hst] at hg
    exact .inr (write_desc f data s g hg)
  | flush f =>
    have hst : (runOp (.flush f) s).2 = (flushFile f s).2 := VolApi.seq_state (flushFile f) Payload.unit s
    rw [hst]; exact tab_of_filesSame (flushFile_filesSame f s)
  | closeVolume v =>
    have hst : (runOp (.closeVolume v) s).2 = (closeVolume v s).2 := VolApi.seq_state (closeVolume v) Payload.unit s
    rw [hst]; exact tab_of_filesSame (closeVolume_filesSame v s)
  | delete d name =>
    have hst : (runOp (.delete d name) s).2 = (deleteFileInDir d name s).2 := VolApi.seq_state (deleteFileInDir d name) Payload.unit s
    rw [hst]; exact tab_of_filesSame (deleteFileInDir_filesSame d name s)
  | mkdir d name =>
    have hst : (runOp (.mkdir d name) s).2 = (makeDirInDir d name s).2 := VolApi.seq_state (makeDirInDir d name) Payload.unit s
    rw [hst]; exact tab_of_filesSame (makeDirInDir_filesSame d name s)
  | closeFile f =>
    intro g hg
    have hst : (runOp (.closeFile f) s).2 = (closeFile f s).2 := VolApi.seq_state (closeFile f) Payload.unit s
    rw [hst] at hg
    exact .inr ⟨g, closeFile_sub f s g hg, Desc.refl g⟩
  | openVolume i => exact absurd rfl hro
  | openRoot v => exact absurd rfl hro
  | openDir d n => exact absurd rfl hro
  | closeDir d => exact absurd rfl hro
  | read f n => exact absurd rfl hro
  | seekStart f n => exact absurd rfl hro
  | seekCur f n => exact absurd rfl hro
  | seekEnd f n => exact absurd rfl hro
  | find d n => exact absurd rfl hro
  | list d => exact absurd rfl hro
  | listLfn d n => exact absurd rfl hro
  | length f => exact absurd rfl hro
  | offset f => exact absurd rfl hro
  | eof f => exact absurd rfl hro
  | hasOpen => exact absurd rfl hro
  | label v => exact absurd rfl hro

end Sdmmc.Lemmas.FaultX
