/-
Bridging lemma for `Props/C06Main3.lean`: `iterate_dir` on a state with the volume invariant answers
EXACTLY the specification listing of the directory's raw slots — the full entries (name, attributes,
size, time stamps, START CLUSTER, entry position), not only their views.  (`iterateDir_refines` of
`Lemmas/AbsFsSteps2.lean` with the result kept.)
-/
import Sdmmc.Lemmas.AbsFsSteps2

namespace Sdmmc.Lemmas.AbsFs
open Sdmmc.Model Sdmmc.Model.Fat Sdmmc.Spec.Volume Sdmmc.Lemmas.VolBase Sdmmc.Lemmas.VolTree
open Sdmmc.Spec hiding NoFault Coherent
open Sdmmc.Spec.AbsFs (Meta view storedMeta fatRound OpenFile OpenDir absStep)
open Sdmmc.Lemmas.VolDisk Sdmmc.Lemmas.VolMed Sdmmc.Lemmas.VolApi Sdmmc.Lemmas.VolEng
open Sdmmc.Lemmas.FBasic (NoFault Coherent)
open Sdmmc.Lemmas.MHoare

theorem iterateDir_exact (d : Nat) {s : Mgr} {gh : Ghost} {a : AState} (hI : VolInv s gh) (hA : Abs s gh a)
    {od : OpenDir} (hd : Spec.AbsFs.dirOf a d = .ok od) :
    (iterateDir d s).1 = .ok ((entries (dirSlots gh.vol s.dev.disk gh.G od.dir)).map (Listing.decode gh.vol.fatType)) := by
  unfold iterateDir
  cases hidx : s.dirs.findIdx? (·.rawDirectory = d) with
  | none =>
    rw [dirOf_none hA hidx] at hd
    cases hd
  | some i =>
    obtain ⟨di, hdi, hdim, hdo⟩ := dirOf_some hA hidx
    rw [bind_ok (getDirById_ok hidx), bind_ok (getDir_ok hdi)]
    cases hva : (s.vols.any fun x => decide (x.rawVolume = di.rawVolume)) with
    | false =>
      rw [hd, hva] at hdo
      cases hdo
    | true =>
      obtain ⟨vi, hvs, hvol, _, hvfind⟩ := volume_found hI hva
      rw [bind_ok (getVolumeById_ok hvfind)]
      rw [hd, hva] at hdo
      have hod : od = absDir di := by
        have : Except.ok od = (Except.ok (absDir di) : Except Err OpenDir) := hdo
        cases this; rfl
      obtain ⟨hres, _⟩ :=
        withVol_ro_refines (Fat.iterateRaw di.cluster) (iterateRaw_readOnly di.cluster) hI hA hvs hvol
      obtain ⟨hn, hc, hM⟩ := volInv_fs hI
      obtain ⟨fs', hit, _⟩ := iterate_spec hM hn hc (hI.openDirs di hdim)
      rw [hit] at hres
      rw [bind_def]
      rcases hrun : withVol 0 (iterateRaw di.cluster) s with ⟨r, s1⟩
      rw [hrun] at hres
      simp only at hres
      subst hres
      subst hod
      show Res.ok (List.filter _ (List.map _ (List.map _
        (live (dirSlots (fsOf s gh).vol (fsOf s gh).dev.disk gh.G (dirIdOf di.cluster)))))) = _
      rw [listing_of_walk]
      rfl

end Sdmmc.Lemmas.AbsFs
