/-
C11 without `Mirror`: THE WRITES OF `make_dir` UNDER ANY SCHEDULE ARE LICENSED (engine level, `makeDir_licF`).

A failed `make_dir` is not a truncated fault-free run: when `write_new_directory_entry` fails, the clean-up
`free_cluster_chain(c)` writes what the fault-free run never writes.  Its device writes are: a PREFIX of the writes of the
fault-free run (allocation, blocks of the new cluster, the entry — each part is `Pre`), which are licensed by hypothesis;
FOLLOWED, after a failure of the entry, by a prefix of the writes of `free_cluster_chain(c)` run fault-free from the state
the failure left — licensed by `WriteSet1.free_lic`, the new cluster `c` being a chain `[c]` nothing refers to at that point
(`FaultX.writeNew_err_mxl`: a `write_new_directory_entry` that reports an error has not written the entry) and its FAT entry
being in the licence.
-/
import Sdmmc.Lemmas.FaultXMkdir
import Sdmmc.Lemmas.WriteSet1Mkdir

namespace Sdmmc.Lemmas.VolX.Lic
open Sdmmc.Model Sdmmc.Model.Fat Sdmmc.Spec.Volume Sdmmc.Lemmas.VolBase Sdmmc.Lemmas.VolTree
open Sdmmc.Spec hiding NoFault Coherent
open Sdmmc.Lemmas.VolDisk Sdmmc.Lemmas.VolMed Sdmmc.Lemmas.VolEng Sdmmc.Lemmas.VolX Sdmmc.Lemmas.VolApi
open Sdmmc.Lemmas.FBasic (NoFault Coherent)
open Sdmmc.Lemmas.CrashBase Sdmmc.Lemmas.Retry Sdmmc.Lemmas.FaultPre Sdmmc.Lemmas.FaultInv Sdmmc.Lemmas.FaultCoh
open Sdmmc.Lemmas.Fault (Coh)
open Sdmmc.Lemmas.FaultX

/-- The run from `s` to `t` wrote a list of writes licensed from the medium of `s`. -/
def LicF (v : FatVolume) (L : Licence) (s t : FS) : Prop := ∃ ws, Trace s t ws ∧ AllLicensed1 v s.dev.disk L ws

theorem trace_unique {s t : FS} {w1 w2 : List (Nat × Block)} (h1 : Trace s t w1) (h2 : Trace s t w2) : w1 = w2 := by
  have := h1.wlog.symm.trans h2.wlog
  exact List.reverse_injective (List.append_cancel_right this)

theorem LicF.refl (v : FatVolume) (L : Licence) (s : FS) : LicF v L s s := ⟨[], Trace.same rfl rfl, trivial⟩

theorem LicF.same {v : FatVolume} {L : Licence} {s t : FS} (hw : t.dev.wlog = s.dev.wlog) (hd : t.dev.disk = s.dev.disk) :
    LicF v L s t := ⟨[], Trace.same hw hd, trivial⟩

theorem LicF.trans {v : FatVolume} {L : Licence} {s t u : FS} (h1 : LicF v L s t) (h2 : LicF v L t u) : LicF v L s u := by
  obtain ⟨w1, t1, l1⟩ := h1
  obtain ⟨w2, t2, l2⟩ := h2
  refine ⟨w1 ++ w2, t1.trans t2, (WriteSet1.allLicensed_append v L w1 w2 s.dev.disk).2 ⟨l1, ?_⟩⟩
  rw [← t1.disk]; exact l2

/-- A `Pre` part under a schedule: its writes are a prefix of those of the fault-free part, which are licensed. -/
theorem LicF.of_pre {α} {f : F α} (hpre : Pre f) (s : FS) {v : FatVolume} {L : Licence} {W : List (Nat × Block)}
    (hW : Trace (clr s) (f (clr s)).2 W) (hal : AllLicensed1 v s.dev.disk L W) : LicF v L s (f s).2 := by
  obtain ⟨⟨ws, ht⟩, _, hag, hhit⟩ := hpre s
  by_cases hq : (f s).2.dev.failed = s.dev.failed
  · have h0 := hag hq
    rw [h0] at hW
    have : Trace (clr s) (clr (f s).2) ws := ⟨ht.wlog, ht.disk⟩
    have e := trace_unique this hW
    subst e
    exact ⟨ws, ht, hal⟩
  · obtain ⟨_, wa, wb, hta, htb, _⟩ := hhit hq
    have e := trace_unique htb hW
    rw [← e] at hal
    exact ⟨wa, hta, ((WriteSet1.allLicensed_append v L wa wb s.dev.disk).1 hal).1⟩

/-- What is left of a licensed fault-free run: from `u` to the final state `fin` the write log grows by a list licensed
from the medium of `u`. -/
def RemLic (v : FatVolume) (L : Licence) (u fin : FS) : Prop :=
  ∃ W, fin.dev.wlog = W.reverse ++ u.dev.wlog ∧ AllLicensed1 v u.dev.disk L W

/-- One part of the fault-free run is peeled off. -/
theorem RemLic.step {v : FatVolume} {L : Licence} {u u' fin : FS} {w : List (Nat × Block)} (h : RemLic v L u fin)
    (ht : Trace u u' w) (hrest : ∃ W' : List (Nat × Block), fin.dev.wlog = W'.reverse ++ u'.dev.wlog) :
    AllLicensed1 v u.dev.disk L w ∧ RemLic v L u' fin := by
  obtain ⟨W, hW, hal⟩ := h
  obtain ⟨W', hW'⟩ := hrest
  have e : W = w ++ W' := by
    have h1 : W.reverse ++ u.dev.wlog = (w ++ W').reverse ++ u.dev.wlog := by
      rw [← hW, hW', ht.wlog, List.reverse_append, List.append_assoc]
    exact List.reverse_injective (List.append_cancel_right h1)
  rw [e] at hal
  obtain ⟨h1, h2⟩ := (WriteSet1.allLicensed_append v L w W' u.dev.disk).1 hal
  exact ⟨h1, W', hW', by rw [ht.disk]; exact h2⟩

/-- **A `Pre` part followed by a continuation**, under a schedule: if the fault-free run of the whole is licensed, and the
continuation (reached only when the part answered `Ok`, hence hit no fault) is licensed under the schedule given that ITS
fault-free run is, then so is the whole under the schedule. -/
theorem stageL {α β} {f : F α} {k : α → F β} (hpre : Pre f) (hfs : Fault.F.Inv FaultsSame f) {u : FS} (hn : NoFault u)
    (Ls : List Nat) {v : FatVolume} {L : Licence} (hrem : RemLic v L u ((f >>= k) u).2)
    (hktr : ∀ a u', f u = (.ok a, u') → ∃ W' : List (Nat × Block), ((k a) u').2.dev.wlog = W'.reverse ++ u'.dev.wlog)
    (hk : ∀ a u', f u = (.ok a, u') → NoFault u' → RemLic v L u' ((k a) u').2 →
      LicF v L (setFaults Ls u') ((k a) (setFaults Ls u')).2) :
    LicF v L (setFaults Ls u) ((f >>= k) (setFaults Ls u)).2 := by
  obtain ⟨⟨w, htw⟩, _⟩ := hpre u
  have hclr : clr (setFaults Ls u) = u := clr_setFaults Ls u hn
  -- the part under the schedule, once the fault-free part is known to be licensed
  have hpart : AllLicensed1 v u.dev.disk L w → LicF v L (setFaults Ls u) (f (setFaults Ls u)).2 := fun hal =>
    LicF.of_pre hpre (setFaults Ls u) (W := w) (by rw [hclr]; exact htw) hal
  -- an `Ok` under the schedule: no fault was hit
  have hok : ∀ a, (f (setFaults Ls u)).1 = .ok a →
      f u = (.ok a, clr (f (setFaults Ls u)).2) ∧ (f (setFaults Ls u)).2 = setFaults Ls (clr (f (setFaults Ls u)).2) := by
    intro a ha
    obtain ⟨_, _, hag, hhit⟩ := hpre (setFaults Ls u)
    have hq : (f (setFaults Ls u)).2.dev.failed = (setFaults Ls u).dev.failed := by
      apply Classical.byContradiction
      intro hne
      have := (hhit hne).1
      rw [ha] at this; cases this
    have h0 := hag hq
    rw [hclr, ha] at h0
    refine ⟨h0, ?_⟩
    have hfl : (f (setFaults Ls u)).2.dev.faults = Ls := hfs (setFaults Ls u)
    have := setFaults_clr (f (setFaults Ls u)).2
    rw [hfl] at this
    exact this.symm
  rcases hr0 : f u with ⟨r0, u'⟩
  rw [hr0] at htw
  simp only at htw
  have hn' : NoFault u' := by
    have : u'.dev.faults = u.dev.faults := by
      have := hfs u; rw [hr0] at this; exact this
    show u'.dev.faults = []
    rw [this]; exact hn
  cases r0 with
  | ok a =>
    rw [Fault.F.bind_ok hr0] at hrem
    obtain ⟨hal, hrem'⟩ := hrem.step htw (hktr a u' hr0)
    have hp := hpart hal
    rcases hrs : f (setFaults Ls u) with ⟨r, t⟩
    rw [hrs] at hp hok
    simp only at hp hok
    cases r with
    | ok a' =>
      obtain ⟨h1, h2⟩ := hok a' rfl
      rw [hr0] at h1
      obtain ⟨ha, hu⟩ := Prod.mk.inj h1
      have ha' : a = a' := by injection ha
      subst ha'
      rw [Fault.F.bind_ok hrs, h2, ← hu]
      have := hk a u' hr0 hn' hrem'
      refine LicF.trans ?_ this
      rw [hu, ← h2]; exact hp
    | err e => rw [Fault.F.bind_err hrs]; exact hp
    | panic m => rw [Fault.F.bind_panic hrs]; exact hp
    | diverged => rw [Fault.F.bind_diverged hrs]; exact hp
  | err e =>
    rw [Fault.F.bind_err hr0] at hrem
    obtain ⟨W, hW, hal⟩ := hrem
    have e1 : W = w := List.reverse_injective (List.append_cancel_right (hW.symm.trans htw.wlog))
    rw [e1] at hal
    have hp := hpart hal
    rcases hrs : f (setFaults Ls u) with ⟨r, t⟩
    rw [hrs] at hp hok
    simp only at hp hok
    cases r with
    | ok a' => obtain ⟨h1, _⟩ := hok a' rfl; rw [hr0] at h1; cases h1
    | err e' => rw [Fault.F.bind_err hrs]; exact hp
    | panic m => rw [Fault.F.bind_panic hrs]; exact hp
    | diverged => rw [Fault.F.bind_diverged hrs]; exact hp
  | panic m0 =>
    rw [Fault.F.bind_panic hr0] at hrem
    obtain ⟨W, hW, hal⟩ := hrem
    have e1 : W = w := List.reverse_injective (List.append_cancel_right (hW.symm.trans htw.wlog))
    rw [e1] at hal
    have hp := hpart hal
    rcases hrs : f (setFaults Ls u) with ⟨r, t⟩
    rw [hrs] at hp hok
    simp only at hp hok
    cases r with
    | ok a' => obtain ⟨h1, _⟩ := hok a' rfl; rw [hr0] at h1; cases h1
    | err e' => rw [Fault.F.bind_err hrs]; exact hp
    | panic m => rw [Fault.F.bind_panic hrs]; exact hp
    | diverged => rw [Fault.F.bind_diverged hrs]; exact hp
  | diverged =>
    rw [Fault.F.bind_diverged hr0] at hrem
    obtain ⟨W, hW, hal⟩ := hrem
    have e1 : W = w := List.reverse_injective (List.append_cancel_right (hW.symm.trans htw.wlog))
    rw [e1] at hal
    have hp := hpart hal
    rcases hrs : f (setFaults Ls u) with ⟨r, t⟩
    rw [hrs] at hp hok
    simp only at hp hok
    cases r with
    | ok a' => obtain ⟨h1, _⟩ := hok a' rfl; rw [hr0] at h1; cases h1
    | err e' => rw [Fault.F.bind_err hrs]; exact hp
    | panic m => rw [Fault.F.bind_panic hrs]; exact hp
    | diverged => rw [Fault.F.bind_diverged hrs]; exact hp

section
variable {files : List FileInfo} {gh : Ghost} {X : List (List Nat)}

/-- **The clean-up under the rest of the schedule**, from a state in which the new cluster `c` is a chain `[c]` nothing
refers to: its writes are licensed by any licence naming the FAT entry of `c`. -/
theorem cleanup_licF {t3 : FS} {c : Nat} (hM5 : MedX (clr t3).vol (clr t3).dev.disk files gh ([c] :: X)) (hc5 : Coherent (clr t3))
    {v : FatVolume} (hsg : SameGeom v t3.vol) (L : Licence) (hL : c ∈ L.fatClusters) :
    LicF v L t3 (freeClusterChain c t3).2 := by
  have hs : WriteSet1.Sound (clr t3) := ⟨⟨rfl, hc5, hM5.blocksOK, hM5.geom, hM5.hint⟩⟩
  have hch : Chain (clr t3).vol (clr t3).dev.disk c [c] := by
    have := hM5.owns.1 [c] (List.mem_append_right _ List.mem_cons_self)
    simpa using this
  obtain ⟨s', hrun, _, _, ws, hdt, hal⟩ := WriteSet1.free_lic (clr t3) c [] hs hch L (fun y hy => by
    rw [List.mem_singleton] at hy; rw [hy]; exact hL)
  obtain ⟨⟨W, htW⟩, _⟩ := freeClusterChain_pre c (clr t3)
  have e : W = ws := by
    have h1 := htW.wlog
    rw [hrun] at h1
    exact List.reverse_injective (List.append_cancel_right (h1.symm.trans hdt.wlog))
  subst e
  refine LicF.of_pre (freeClusterChain_pre c) t3 htW ?_
  exact (WriteSet1.allLicensed_sameGeom hsg L W _).1 hal

/-- **The entry in the parent, and the clean-up, under a schedule.** -/
theorem tail_licF {u2 : FS} {c : Nat} (hM4 : MedX u2.vol u2.dev.disk files gh ([c] :: X)) (hn4 : NoFault u2)
    (hc4 : Coherent u2) {dc : Nat} (hv : ValidDir gh.dirs dc) (sfn : Bytes) (hlen : sfn.length = 11) (att : Nat)
    (now : Timestamp) (Ls : List Nat) {v : FatVolume} (hsgv : SameGeom v u2.vol) (L : Licence) (hL : c ∈ L.fatClusters)
    (hrem : RemLic v L u2 (mdTail dc sfn att now c u2).2) :
    LicF v L (setFaults Ls u2) (mdTail dc sfn att now c (setFaults Ls u2)).2 := by
  have hP := writeNewDirectoryEntry_pre dc sfn att c now
  obtain ⟨⟨wC, htC⟩, _⟩ := hP u2
  have hclr : clr (setFaults Ls u2) = u2 := clr_setFaults Ls u2 hn4
  -- the fault-free entry write is licensed
  have halC : AllLicensed1 v u2.dev.disk L wC := by
    rcases hr0 : writeNewDirectoryEntry dc sfn att c now u2 with ⟨r0, u3⟩
    rw [hr0] at htC
    simp only at htC
    have hrest : ∃ W' : List (Nat × Block), (mdTail dc sfn att now c u2).2.dev.wlog = W'.reverse ++ u3.dev.wlog := by
      cases r0 with
      | ok e => rw [mdTail_ok dc sfn att now c u2 u3 e hr0]; exact ⟨[], rfl⟩
      | err e =>
        rw [mdTail_err dc sfn att now c u2 u3 e hr0]
        obtain ⟨⟨wD, htD⟩, _⟩ := freeClusterChain_pre c u3
        exact ⟨wD, htD.wlog⟩
      | panic m =>
        have : (mdTail dc sfn att now c u2).2 = u3 := by
          unfold mdTail; rw [Fault.F.attempt_bind_apply, hr0]; rfl
        rw [this]; exact ⟨[], rfl⟩
      | diverged =>
        have : (mdTail dc sfn att now c u2).2 = u3 := by
          unfold mdTail; rw [Fault.F.attempt_bind_apply, hr0]; rfl
        rw [this]; exact ⟨[], rfl⟩
    exact (hrem.step htC hrest).1
  have hp : LicF v L (setFaults Ls u2) (writeNewDirectoryEntry dc sfn att c now (setFaults Ls u2)).2 :=
    LicF.of_pre hP (setFaults Ls u2) (W := wC) (by rw [hclr]; exact htC) halC
  -- the state the entry write leaves under the schedule
  have hlen4 : LenInv (setFaults Ls u2) := lenInv_of hM4.blocksOK hc4
  have hb3 := (writeNewDirectoryEntry_len dc sfn hlen att c now (setFaults Ls u2) hlen4).1
  have hsg3 : SameGeom u2.vol (writeNewDirectoryEntry dc sfn att c now (setFaults Ls u2)).2.vol :=
    writeNewDirectoryEntry_geo dc sfn att c now (setFaults Ls u2)
  have hh3 : HintOK (writeNewDirectoryEntry dc sfn att c now (setFaults Ls u2)).2.vol :=
    writeNewDirectoryEntry_hk dc sfn att c now (setFaults Ls u2) hM4.hint
  have hcoh3 : Coherent (writeNewDirectoryEntry dc sfn att c now (setFaults Ls u2)).2 := by
    have hc0 : Coh (setFaults Ls u2) := hc4
    obtain ⟨h1, h2⟩ := writeNewDirectoryEntry_coh dc sfn att c now (setFaults Ls u2) hc0
    cases hr : (writeNewDirectoryEntry dc sfn att c now (setFaults Ls u2)).1 with
    | ok a => exact h1 a hr
    | err e => exact h2 fun a ha => by rw [hr] at ha; cases ha
    | panic m => exact h2 fun a ha => by rw [hr] at ha; cases ha
    | diverged => exact h2 fun a ha => by rw [hr] at ha; cases ha
  rcases hw : writeNewDirectoryEntry dc sfn att c now (setFaults Ls u2) with ⟨r, t3⟩
  have hmxl : (∀ e, r ≠ .ok e) → MXL c u2.vol files gh.dirs t3.dev.disk := by
    intro hne
    have := writeNew_err_mxl hM4 hn4 hc4 hv sfn att c now Ls (by rw [hw]; exact hne)
    rw [hw] at this; exact this
  rw [hw] at hp hb3 hsg3 hh3 hcoh3
  simp only at hp hb3 hsg3 hh3 hcoh3
  cases r with
  | ok e => rw [mdTail_ok dc sfn att now c _ t3 e hw]; exact hp
  | panic m =>
    have : (mdTail dc sfn att now c (setFaults Ls u2)).2 = t3 := by
      unfold mdTail; rw [Fault.F.attempt_bind_apply, hw]; rfl
    rw [this]; exact hp
  | diverged =>
    have : (mdTail dc sfn att now c (setFaults Ls u2)).2 = t3 := by
      unfold mdTail; rw [Fault.F.attempt_bind_apply, hw]; rfl
    rw [this]; exact hp
  | err e =>
    rw [mdTail_err dc sfn att now c _ t3 e hw]
    obtain ⟨G3, X3, hM3⟩ := hmxl (fun e' h => by cases h) hb3
    have hM5' := med_congr hM3 hsg3 hh3 hb3 (fun _ _ => rfl) (fun _ _ => rfl)
    have hM5 : MedX (clr t3).vol (clr t3).dev.disk files { vol := t3.vol, G := G3, dirs := gh.dirs } ([c] :: X3) :=
      ⟨hM5'.blocksOK, hM5'.geom, hM5'.hint, hM5'.owns, hM5'.tree, hM5'.fileOK⟩
    refine LicF.trans hp ?_
    exact cleanup_licF hM5 hcoh3 (hsgv.trans hsg3) L hL

/-- A trace of `mdTail` (any state). -/
theorem mdTail_wlog (dc : Nat) (sfn : Bytes) (att : Nat) (now : Timestamp) (c : Nat) (u : FS) :
    ∃ W' : List (Nat × Block), (mdTail dc sfn att now c u).2.dev.wlog = W'.reverse ++ u.dev.wlog := by
  obtain ⟨⟨wC, htC⟩, _⟩ := writeNewDirectoryEntry_pre dc sfn att c now u
  rcases hr0 : writeNewDirectoryEntry dc sfn att c now u with ⟨r0, u3⟩
  rw [hr0] at htC
  simp only at htC
  cases r0 with
  | ok e => rw [mdTail_ok dc sfn att now c u u3 e hr0]; exact ⟨wC, htC.wlog⟩
  | err e =>
    rw [mdTail_err dc sfn att now c u u3 e hr0]
    obtain ⟨⟨wD, htD⟩, _⟩ := freeClusterChain_pre c u3
    exact ⟨wC ++ wD, (htC.trans htD).wlog⟩
  | panic m =>
    have : (mdTail dc sfn att now c u).2 = u3 := by
      unfold mdTail; rw [Fault.F.attempt_bind_apply, hr0]; rfl
    rw [this]; exact ⟨wC, htC.wlog⟩
  | diverged =>
    have : (mdTail dc sfn att now c u).2 = u3 := by
      unfold mdTail; rw [Fault.F.attempt_bind_apply, hr0]; rfl
    rw [this]; exact ⟨wC, htC.wlog⟩

/-- **`make_dir` under any schedule: its device writes are licensed** by any licence that licenses the writes of the
fault-free `make_dir` from the same state and names the FAT entry of the cluster the allocation returns. -/
theorem makeDir_licF {fs : FS} (hM : MedX fs.vol fs.dev.disk files gh X) (hn : NoFault fs) (hc : Coherent fs)
    {dc : Nat} (hv : ValidDir gh.dirs dc) (sfn : Bytes) (hlen : sfn.length = 11) (now : Timestamp) (Ls : List Nat) (L : Licence)
    (hcn : ∀ c s1, allocCluster none false fs = (.ok c, s1) → c ∈ L.fatClusters)
    (hlic : RemLic fs.vol L fs (makeDir dc sfn 16 now fs).2) :
    LicF fs.vol L (setFaults Ls fs) (makeDir dc sfn 16 now (setFaults Ls fs)).2 := by
  rw [makeDir_eq] at hlic ⊢
  obtain ⟨_, hfactsA⟩ := alloc_none_facts hM hn hc
  refine stageL (allocCluster_pre none false) (Fault.allocCluster_inv none false) hn Ls hlic ?_ ?_
  · -- the rest of the fault-free run has a trace
    intro c u1 hal
    rw [Fault.F.bind_ok (FBasic.getVol_apply u1)]
    obtain ⟨⟨wB, htB⟩, _⟩ := mdMid_pre u1.vol c dc 16 now u1
    rcases hmid : mdMid u1.vol c dc 16 now u1 with ⟨rb, u2⟩
    rw [hmid] at htB
    simp only at htB
    cases rb with
    | ok x =>
      rw [Fault.F.bind_ok hmid]
      obtain ⟨W', hW'⟩ := mdTail_wlog dc sfn 16 now c u2
      exact ⟨wB ++ W', by rw [hW', htB.wlog, List.reverse_append, List.append_assoc]⟩
    | err e => rw [Fault.F.bind_err hmid]; exact ⟨wB, htB.wlog⟩
    | panic m => rw [Fault.F.bind_panic hmid]; exact ⟨wB, htB.wlog⟩
    | diverged => rw [Fault.F.bind_diverged hmid]; exact ⟨wB, htB.wlog⟩
  · intro c u1 hal hn1' hrem1
    obtain ⟨hn1, hc1, hsg1, hh1, hMk, hcR, hcG⟩ := hfactsA c u1 hal
    have hM1' := med_congr hMk hsg1 hh1 hMk.blocksOK (fun _ _ => rfl) (fun _ _ => rfl)
    have hM1 : MedX u1.vol u1.dev.disk files { vol := u1.vol, G := gh.G, dirs := gh.dirs } ([c] :: X) :=
      ⟨hM1'.blocksOK, hM1'.geom, hM1'.hint, hM1'.owns, hM1'.tree, hM1'.fileOK⟩
    have hgv : (setFaults Ls u1).vol = u1.vol := rfl
    rw [Fault.F.bind_ok (FBasic.getVol_apply (setFaults Ls u1)), hgv]
    rw [Fault.F.bind_ok (FBasic.getVol_apply u1)] at hrem1
    obtain ⟨u2, hrunB, hn4, hc4, hv4, hM4, _⟩ := mid_facts hM1 hn1 hc1 ((hsg1.inRange c).2 hcR) hcG dc 16 now
    refine stageL (mdMid_pre u1.vol c dc 16 now) (mdMid_faults u1.vol c dc 16 now) hn1 Ls hrem1
      (fun _ u2' _ => mdTail_wlog dc sfn 16 now c u2') ?_
    intro x u2' hmid _ hrem2
    rw [hrunB] at hmid
    obtain ⟨_, e2⟩ := Prod.mk.inj hmid
    subst e2
    have hM4' : MedX u2.vol u2.dev.disk files { vol := u1.vol, G := gh.G, dirs := gh.dirs } ([c] :: X) := by
      rw [hv4]; exact hM4
    refine tail_licF hM4' hn4 hc4 hv sfn hlen 16 now Ls (by rw [hv4]; exact hsg1) L (hcn c u1 hal) hrem2

end

end Sdmmc.Lemmas.VolX.Lic
