/-
Refinement of the API to the abstract file system, part 17: every state with the invariant HAS an abstract
counterpart (`abs_total`), given by a function where no file is open (`absOf0`, `abs_absOf0`).
-/
import Sdmmc.Lemmas.AbsFsStep

namespace Sdmmc.Lemmas.AbsFs
open Sdmmc.Model Sdmmc.Model.Fat Sdmmc.Spec.Volume Sdmmc.Lemmas.VolBase Sdmmc.Lemmas.VolTree
open Sdmmc.Spec hiding NoFault Coherent
open Sdmmc.Spec.AbsFs (Meta view storedMeta fatRound OpenFile OpenDir absStep)
open Sdmmc.Lemmas.VolDisk Sdmmc.Lemmas.VolMed Sdmmc.Lemmas.VolApi Sdmmc.Lemmas.VolEng

theorem forall₂_exists {α β : Type} {R : α → β → Prop} (l : List β) (h : ∀ y, y ∈ l → ∃ x, R x y) :
    ∃ l', List.Forall₂ R l' l := by
  induction l with
  | nil => exact ⟨[], .nil⟩
  | cons y l ih =>
    obtain ⟨x, hx⟩ := h y List.mem_cons_self
    obtain ⟨l', hl'⟩ := ih fun z hz => h z (List.mem_cons_of_mem _ hz)
    exact ⟨x :: l', .cons hx hl'⟩

/-- The abstract counterpart of an open file exists. -/
theorem fileRel_exists {s : Mgr} {gh : Ghost} (hI : VolInv s gh) {f : FileInfo} (hf : f ∈ s.files) :
    ∃ af, FileRel s gh af f := by
  obtain ⟨h, hh, o, ho, h1, h2, _⟩ := hI.med.tree.fileSlots f hf
  have hoe : o ∈ entries (dirSlots gh.vol s.dev.disk gh.G h) := mem_entries_of_objects ho
  rw [entries_eq] at hoe
  obtain ⟨i, hi⟩ := List.mem_iff_getElem?.1 (List.mem_filter.1 hoe).1
  exact ⟨⟨f.rawFile, f.rawVolume, f.mode, h, i, f.currentOffset, view f.entry, f.dirty⟩,
    rfl, rfl, rfl, rfl, rfl, rfl, hh, o, hi, Prod.ext h1 h2⟩

/-- **Every state with the invariant has an abstract counterpart.** -/
theorem abs_total {s : Mgr} {gh : Ghost} (hI : VolInv s gh) : ∃ a, Abs s gh a := by
  obtain ⟨afs, hafs⟩ := forall₂_exists (R := FileRel s gh) s.files fun f hf => fileRel_exists hI hf
  exact ⟨{ nextId := s.nextId, maxDirs := s.maxDirs, maxFiles := s.maxFiles, clock := s.clock, locked := s.locked, vols := s.vols.map fun v => (v.rawVolume, v.idx), dirs := s.dirs.map absDir, files := afs, ids := dirIds gh.dirs, slots := absSlots s gh },
    rfl, rfl, rfl, rfl, rfl, rfl, rfl, hafs, rfl, fun _ _ => rfl⟩

/-- The abstract counterpart of a state without open files, as a function. -/
def absOf0 (s : Mgr) (gh : Ghost) : AState :=
  { nextId := s.nextId, maxDirs := s.maxDirs, maxFiles := s.maxFiles, clock := s.clock, locked := s.locked, vols := s.vols.map fun v => (v.rawVolume, v.idx), dirs := s.dirs.map absDir, files := [], ids := dirIds gh.dirs, slots := absSlots s gh }

theorem abs_absOf0 {s : Mgr} {gh : Ghost} (hf : s.files = []) : Abs s gh (absOf0 s gh) :=
  ⟨rfl, rfl, rfl, rfl, rfl, rfl, rfl, by rw [hf]; exact .nil, rfl, fun _ _ => rfl⟩

end Sdmmc.Lemmas.AbsFs
