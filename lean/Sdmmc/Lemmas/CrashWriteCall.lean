/-
Crash points of the API call `write` (`Model.write`), on top of `WriteRefines.write_refines`: the
prologue writes nothing except — for an empty file that owns no cluster — the allocation of the first
cluster (`alloc_cluster(None, false)`), then the loop (`CrashWriteLoop.writeLoop_crash`).
-/
import Sdmmc.Lemmas.CrashWriteLoop
import Sdmmc.Lemmas.WriteRefinesFrame

namespace Sdmmc.Lemmas.CrashWriteCall
open Sdmmc.Model Sdmmc.Model.Fat Sdmmc.Spec
open Sdmmc.Lemmas.FBasic hiding NoFault Coherent
open Sdmmc.Lemmas.FatOps hiding BlocksOK Mirror HintOK
open Sdmmc.Lemmas.ChainL Sdmmc.Lemmas.ForestBase Sdmmc.Lemmas.ForestOwns Sdmmc.Lemmas.ReadRefines
open Sdmmc.Lemmas.WriteRefines Sdmmc.Lemmas.CrashBase Sdmmc.Lemmas.CrashMgr Sdmmc.Lemmas.CrashWriteLoop Sdmmc.Lemmas.CrashStep

/-- A crashed medium of the call `write` storing (at most) the first `k` bytes of `data`: for some `m ≤ k`
and some chain `csk` between the chain before (`cs`, possibly empty) and after (`cs'`) the call, the record
with `csk` is structurally sound and the file's bytes read along `csk` are the old ones with `data.take m`
written at the old offset. -/
def WriteCrash (v : FatVolume) (A B : List (List Nat)) (d0 : Disk) (f : FileInfo) (cs cs' : List Nat) (data : Bytes) (k : Nat) (d : Disk) : Prop :=
  ∃ m csk, m ≤ k ∧ cs <+: csk ∧ csk <+: cs' ∧ OwnsLoose v d (withChain A csk B) ∧
    fileContent v d csk (max f.entry.size (f.currentOffset + m)) =
      splice (fileContent v d0 cs f.entry.size) f.currentOffset (data.take m)

theorem wcrash_take {v : FatVolume} {A B : List (List Nat)} {d0 d : Disk} {f : FileInfo} {cs cs' : List Nat} {data : Bytes} {n k : Nat}
    (hk : k ≤ n) (h : WCrash v A B d0 f cs cs' (data.take n) k d) : WCrash v A B d0 f cs cs' data k d := by
  obtain ⟨m, csk, h1, h2, h3, h4, h5⟩ := h
  refine ⟨m, csk, h1, h2, h3, h4, ?_⟩
  rw [List.take_take, Nat.min_eq_left (by omega)] at h5
  exact h5

/-- `writeRest_spec` with the crash points. -/
theorem writeRest_crash (i vi : Nat) (A B : List (List Nat)) (sc : Mgr) (fc : FileInfo) (v1 : VolInfo) (cs1 : List Nat)
    (rv : Nat) (data : Bytes) (hfc : sc.files[i]? = some fc)
    (hv : sc.vols.findIdx? (·.rawVolume = rv) = some vi)
    (hinv : WInv i vi A B { sc with files := sc.files.set i (fixup fc) } (fixup fc) v1 cs1) :
    ∃ k r s' f' v' cs', writeRest rv i data sc = (r, s') ∧ k ≤ data.length ∧
      ((r = .ok () ∧ k = data.length) ∨
       (r = .err .DiskFull ∧ k < data.length ∧
         (Full v'.vol s'.dev.disk ∨ Gen.MAX_FILE_SIZE ≤ (fixup fc).currentOffset + k))) ∧
      WInv i vi A B s' f' v' cs' ∧
      WProg i vi { sc with files := sc.files.set i (fixup fc) } s' (fixup fc) f' v1 v' cs1 cs' (data.take k) ∧
      MCrash (WCrash v1.vol A B sc.dev.disk (fixup fc) cs1 cs' data k) sc s' := by
  generalize hn : min data.length (Gen.MAX_FILE_SIZE - (fixup fc).currentOffset) = n
  have hnle : n ≤ data.length := by omega
  have hlen : (data.take n).length = n := by rw [List.length_take]; omega
  obtain ⟨k, r, s', f', v', cs', hrun, hk, hres, hinv', hprog, hcr⟩ :=
    writeLoop_crash i vi A B (n + 1) (data.take n) _ _ _ _ (by omega) hinv
  rw [hlen] at hk hres
  rw [List.take_take, Nat.min_eq_left hk] at hprog
  have hcr' : MCrash (WCrash v1.vol A B sc.dev.disk (fixup fc) cs1 cs' data k) sc s' := by
    obtain ⟨ws, h1, h2, h3⟩ := hcr
    exact ⟨ws, h1, h2, fun j => wcrash_take hk (h3 j)⟩
  have hrunEq : writeRest rv i data sc =
      (writeLoop i vi (n + 1) (data.take n) >>= fun _ => if n < data.length then M.fail .DiskFull else pure ())
        { sc with files := sc.files.set i (fixup fc) } := by
    unfold writeRest
    rw [MHoare.bind_ok (MHoare.getVolumeById_ok hv)]
    show (modifyFile i fixup >>= _) sc = _
    have hmod : modifyFile i fixup sc = (.ok (), { sc with files := sc.files.set i (fixup fc) }) := by
      show (Res.ok (), ({ sc with files := sc.files.modify i fixup } : Mgr)) = _
      rw [modify_eq_set _ _ _ _ hfc]
    rw [MHoare.bind_ok hmod, MHoare.bind_ok (MHoare.getFile_ok hinv.file)]
    simp only [hn]
  rcases hres with ⟨hr, hkn⟩ | ⟨hr, hkn, hfull⟩
  · subst hr
    by_cases hcut : n < data.length
    · refine ⟨k, .err .DiskFull, s', f', v', cs', ?_, by omega, .inr ⟨rfl, by omega, .inr (by omega)⟩, hinv', hprog, hcr'⟩
      rw [hrunEq, MHoare.bind_ok hrun, if_pos hcut]
      rfl
    · refine ⟨k, .ok (), s', f', v', cs', ?_, by omega, .inl ⟨rfl, by omega⟩, hinv', hprog, hcr'⟩
      rw [hrunEq, MHoare.bind_ok hrun, if_neg hcut]
      rfl
  · subst hr
    refine ⟨k, .err .DiskFull, s', f', v', cs', ?_, by omega, .inr ⟨rfl, by omega, .inl hfull⟩, hinv', hprog, hcr'⟩
    rw [hrunEq, MHoare.bind_err hrun]

/-- Every crash point of the call `write`, with the facts about its end state that the statements about
crash points refer to. -/
theorem write_crash (s : Mgr) (h i vi : Nat) (data : Bytes) (f : FileInfo) (v : VolInfo) (cs : List Nat)
    (A B : List (List Nat)) (hs : MOK s)
    (hh : s.files.findIdx? (·.rawFile = h) = some i) (hf : s.files[i]? = some f)
    (hv : s.vols.findIdx? (·.rawVolume = f.rawVolume) = some vi) (hvi : s.vols[vi]? = some v)
    (hmode : f.mode ≠ .ReadOnly) (hg : WFGeom v.vol) (hhint : HintOK v.vol)
    (hok : FileOK v.vol s.dev.disk f cs) (hcur : cs = [] → f.curCluster < 2)
    (hown : Owns v.vol s.dev.disk (withChain A cs B)) :
    ∃ (k : Nat) (r : Res Unit) (s' : Mgr) (v' : VolInfo) (cs' : List Nat), Model.write h data s = (r, s') ∧ k ≤ data.length ∧ cs <+: cs' ∧ SameGeom v.vol v'.vol ∧
      Owns v'.vol s'.dev.disk (withChain A cs' B) ∧ Touch v.vol cs' s.dev s'.dev ∧
      MCrash (WriteCrash v.vol A B s.dev.disk f cs cs' data k) s s' := by
  obtain ⟨hnf, hcoh, hblk, hunl⟩ := hs
  have hilt : i < s.files.length := (List.getElem?_eq_some_iff.1 hf).1
  have hvilt : vi < s.vols.length := (List.getElem?_eq_some_iff.1 hvi).1
  rw [write_run s h i vi data f hh hf hv hmode]
  generalize hfa : touchFile s.clock f = fa
  have hfa_cl : fa.entry.cluster = f.entry.cluster := by rw [← hfa]; rfl
  have hfa_cur : fa.curCluster = f.curCluster ∧ fa.curClusterOff = f.curClusterOff := by rw [← hfa]; exact ⟨rfl, rfl⟩
  have hfa_off : fa.currentOffset = f.currentOffset := by rw [← hfa]; rfl
  have hfa_size : fa.entry.size = f.entry.size := by rw [← hfa]; rfl
  by_cases hcl : f.entry.cluster < 2
  · -- an empty file that owns no cluster: the first cluster is allocated
    have hcs : cs = [] ∧ f.entry.size = 0 := by
      rcases hok.chain with ⟨_, h1, h2⟩ | h1
      · exact ⟨h1, h2⟩
      · have := (chain_inRange h1 _ (chain_head_mem h1)).1
        omega
    obtain ⟨hcsnil, hsize0⟩ := hcs
    subst hcsnil
    have hoff0 : f.currentOffset = 0 := by have := hok.pos_le; omega
    rw [withChain_nil] at hown
    have hcurlt := hcur rfl
    generalize hsa : ({ s with files := s.files.set i fa } : Mgr) = sa
    have hsa_vol : sa.vols[vi]? = some v := by rw [← hsa]; exact hvi
    have hsa_dev : sa.dev = s.dev := by rw [← hsa]
    have hfs : fsOf sa v = fsOf s v := by rw [← hsa]; rfl
    have hready : Ready (fsOf s v) := ⟨hnf, hcoh, hblk, hg, hhint⟩
    have hallocM := withVol_run vi (allocCluster none false) sa v hsa_vol
    rw [hfs] at hallocM
    have hcond : f.entry.cluster < Gen.RESERVED_ENTRIES := hcl
    rcases alloc_cases (fsOf s v) none false hnf hcoh with ⟨c, fs2, ha⟩ | ⟨fs2, ha, ro2⟩
    · obtain ⟨hready2, hown2, hsg, hrc⟩ := owns_insert (fsOf s v) fs2 A B c hready hown ha
      simp only [fsOf_vol] at hsg hrc
      have hcrA := alloc_stepCrash (fsOf s v) fs2 (A ++ [] ++ B) (A ++ [[c]] ++ B) none false c hready hown
        (fun p hp => by cases hp) ha hown2
      rw [ha] at hallocM
      simp only at hallocM
      generalize hv1def : ({ v with vol := fs2.vol } : VolInfo) = v1 at hallocM
      have hv1vol : v1.vol = fs2.vol := by rw [← hv1def]
      have hsg' : SameGeom v.vol v1.vol := by rw [hv1vol]; exact hsg
      generalize hfcdef : ({ fa with entry := { fa.entry with cluster := c } } : FileInfo) = fc
      have hfix : fixup fc = { fc with curClusterOff := 0, curCluster := c } := by
        unfold fixup
        have h1 : fc.curCluster < fc.entry.cluster := by
          rw [← hfcdef]; show fa.curCluster < c; rw [hfa_cur.1]; have := hrc.1; omega
        rw [if_pos h1, ← hfcdef]
      generalize hfddef : fixup fc = fd at hfix
      generalize hscdef : ({ sa with dev := fs2.dev, cache := fs2.cache, vols := sa.vols.set vi v1, files := (s.files.set i fa).set i fc } : Mgr) = sc
      have hsc_files : sc.files = s.files.set i fc := by rw [← hscdef, ← hsa]; simp only [List.set_set]
      have hsc_vols : sc.vols = s.vols.set vi v1 := by rw [← hscdef, ← hsa]
      have hsc_dev : sc.dev = fs2.dev := by rw [← hscdef]
      have hfc : sc.files[i]? = some fc := by rw [hsc_files]; exact List.getElem?_set_self hilt
      have hvfind : sc.vols.findIdx? (·.rawVolume = f.rawVolume) = some vi := by
        rw [hsc_vols, findIdx?_set_same _ s.vols vi v v1 hvi (by rw [← hv1def])]; exact hv
      generalize hsddef : ({ sc with files := sc.files.set i fd } : Mgr) = sd
      have hsd_eq : sd = { s with dev := fs2.dev, cache := fs2.cache, files := s.files.set i fd, vols := s.vols.set vi v1 } := by
        rw [← hsddef, hsc_files, List.set_set, ← hscdef, ← hsa]
      have hfd_fields : fd.entry.cluster = c ∧ fd.curCluster = c ∧ fd.curClusterOff = 0 ∧ fd.currentOffset = 0 ∧
          fd.entry.size = 0 := by
        rw [hfix, ← hfcdef]
        exact ⟨rfl, rfl, rfl, by show fa.currentOffset = 0; rw [hfa_off, hoff0], by show fa.entry.size = 0; rw [hfa_size, hsize0]⟩
      obtain ⟨hd_cl, hd_cur, hd_co, hd_off, hd_size⟩ := hfd_fields
      have hchain1 : Chain v1.vol fs2.dev.disk c [c] := by
        have := hown2.1 [c] (List.mem_append_left _ (List.mem_append_right _ (List.mem_singleton.2 rfl)))
        rw [hv1vol]; exact this
      have hinv : WInv i vi A B sd fd v1 [c] := by
        rw [hsd_eq]
        refine ⟨⟨hready2.noFault, hready2.coherent, hready2.blocksOK, hunl⟩, List.getElem?_set_self hilt,
          List.getElem?_set_self hvilt, by rw [hv1vol]; exact hready2.geom, by rw [hv1vol]; exact hready2.hint, ?_,
          by simp, by rw [hv1vol]; exact hown2⟩
        refine ⟨.inr (by rw [hd_cl]; exact hchain1), by rw [hd_size]; exact Nat.zero_le _, by rw [hd_off, hd_size]; exact Nat.le_refl _,
          .inr ⟨0, by simp, by rw [hd_co, Nat.zero_mul], by rw [hd_cur]; rfl⟩⟩
      have hrest := writeRest_crash i vi A B sc fc v1 [c] f.rawVolume data hfc hvfind
        (by rw [hfddef, hsddef]; exact hinv)
      rw [hfddef, hsddef] at hrest
      obtain ⟨k, r, s', f', v', cs', hrun, hk, _, hinv', hprog, hcr⟩ := hrest
      obtain ⟨_, _, _, _, _, hframe⟩ := DirFat.alloc_frame (fsOf s v) fs2 none false c hnf hcoh hblk hg hhint
        (fun q hq => by cases hq) ha
      obtain ⟨sZ, s3, s4, ch⟩ := alloc_chain (fsOf s v) fs2 none false c hnf hcoh ha
      have htouchA : Touch v.vol [c] s.dev sd.dev := by
        have hcE : c < endCluster v.vol := hrc.2
        refine ⟨fun b hb1 _ => ?_, ?_⟩
        · rw [hsd_eq]
          show fs2.dev.disk.get b = s.dev.disk.get b
          exact hframe b (fun hm => hb1 (isFatBlock_of_mem hcE hm)) (fun p hp => by cases hp) (fun hz => by cases hz.1)
        · have hlink : s4 = s3 := ch.link
          refine ⟨fatWriteLog v.vol c (fatPayload sZ c Gen.CLUSTER_END_OF_FILE), ?_, fun w hw => .inl ?_⟩
          · rw [hsd_eq]
            show fs2.dev.wlog = _
            rw [ch.wlog', hlink, ch.wlog3, ch.wlogZ]
            simp only [zeroLog, Bool.false_eq_true, if_false, List.nil_append]
            rfl
          · exact isFatBlock_of_mem hcE (mem_fatWriteLog hw)
      refine ⟨k, r, s', v', cs', ?_, hk, List.nil_prefix, hsg'.trans hprog.geom,
        by rw [withChain_ne hinv'.ne]; exact hinv'.owns,
        (htouchA.mono fun x hx => hprog.pre.mem hx).trans (Touch.sameGeom hsg' hprog.touch), ?_⟩
      · unfold writeTail
        rw [if_pos hcond]
        rw [MHoare.bind_ok hallocM]
        have hmodc : modifyFile i (fun f => { f with entry := { f.entry with cluster := c } })
            { sa with dev := fs2.dev, cache := fs2.cache, vols := sa.vols.set vi v1 } = (.ok (), sc) := by
          show (Res.ok (), _) = _
          congr 1
          rw [← hscdef, ← hsa, ← hfcdef]
          show ({ s with dev := fs2.dev, cache := fs2.cache, vols := s.vols.set vi v1, files := (s.files.set i fa).modify i _ } : Mgr) = _
          rw [modify_eq_set _ _ _ _ (List.getElem?_set_self hilt)]
        rw [MHoare.bind_ok hmodc]
        exact hrun
      · -- crash points: the allocation, then the loop
        have hpc : [c] <+: cs' := hprog.pre
        have hempty : fileContent v.vol s.dev.disk [] f.entry.size = [] := by rw [hsize0, fileContent_zero]
        have c1 : MCrash (WriteCrash v.vol A B s.dev.disk f [] cs' data k) s sc := by
          refine MCrash.of_fs (a := fsOf s v) (b := fs2) (hcrA.mono fun d hd => ?_) rfl hsc_dev.symm
          obtain ⟨hsound, _⟩ := hd
          simp only [fsOf_vol] at hsound
          rcases hsound with hs0 | hs1
          · refine ⟨0, [], Nat.zero_le _, List.prefix_refl _, List.nil_prefix, by rw [withChain_nil]; exact hs0, ?_⟩
            rw [hsize0, hoff0, List.take_zero, splice_nil, fileContent_zero]
            exact fileContent_zero _ _ _
          · refine ⟨0, [c], Nat.zero_le _, List.nil_prefix, hpc, by rw [withChain_ne (by simp)]; exact hs1, ?_⟩
            rw [hsize0, hoff0, List.take_zero, splice_nil, fileContent_zero]
            exact fileContent_zero _ _ _
        have c2 : MCrash (WriteCrash v.vol A B s.dev.disk f [] cs' data k) sc s' := by
          refine hcr.mono fun d hd => ?_
          obtain ⟨m, csk, h1, h2, h3, h4, h5⟩ := hd
          have hne : csk ≠ [] := by
            obtain ⟨ext, rfl⟩ := h2
            simp
          refine ⟨m, csk, h1, List.nil_prefix, h3, by rw [withChain_ne hne]; exact ownsLoose_sameGeom hsg'.symm h4, ?_⟩
          rw [hd_size, hd_off, fileContent_zero, sameGeom_fileContent hsg'] at h5
          rw [hsize0, hoff0, fileContent_zero]
          exact h5
        exact c1.trans c2
    · -- the volume is full: nothing written
      rw [ha] at hallocM
      simp only at hallocM
      generalize hsF : ({ sa with dev := fs2.dev, cache := fs2.cache, vols := sa.vols.set vi { v with vol := fs2.vol } } : Mgr) = sF at hallocM
      have hsF_dev : sF.dev = fs2.dev := by rw [← hsF]
      refine ⟨0, .err .NotEnoughSpace, sF, v, [], ?_, Nat.zero_le _, List.prefix_refl _, SameGeom.refl _, ?_,
        Touch.of_eq (by rw [hsF_dev, ro2.disk]; rfl) (by rw [hsF_dev, ro2.wlog]; rfl), ?_⟩
      · unfold writeTail
        rw [if_pos hcond]
        rw [MHoare.bind_err hallocM]
      · rw [withChain_nil, hsF_dev, ro2.disk]
        exact hown
      · refine MCrash.same' (by rw [hsF_dev, ro2.wlog]; rfl) (by rw [hsF_dev, ro2.disk]; rfl) ?_
        refine ⟨0, [], Nat.le_refl _, List.prefix_refl _, List.prefix_refl _, by rw [withChain_nil]; exact ownsLoose_of_owns hown, ?_⟩
        rw [List.take_zero, splice_nil, Nat.add_zero, Nat.max_eq_left hok.pos_le]
  · -- the file owns clusters
    have hch : Chain v.vol s.dev.disk f.entry.cluster cs := by
      rcases hok.chain with ⟨h1, _, _⟩ | h1
      · exact absurd h1 hcl
      · exact h1
    have hne : cs ≠ [] := chain_ne_nil hch
    rw [withChain_ne hne] at hown
    have hcond : ¬ f.entry.cluster < Gen.RESERVED_ENTRIES := hcl
    generalize hsa : ({ s with files := s.files.set i fa } : Mgr) = sa
    have hfc : sa.files[i]? = some fa := by rw [← hsa]; exact List.getElem?_set_self hilt
    have hvfind : sa.vols.findIdx? (·.rawVolume = f.rawVolume) = some vi := by rw [← hsa]; exact hv
    have hsa_dev : sa.dev = s.dev := by rw [← hsa]
    generalize hfddef : fixup fa = fd
    have hfd_fields : fd.entry = fa.entry ∧ fd.currentOffset = fa.currentOffset := by
      rw [← hfddef]; unfold fixup; split <;> exact ⟨rfl, rfl⟩
    obtain ⟨hd_entry, hd_off⟩ := hfd_fields
    have hd_cursor : ∃ k, k < cs.length ∧ fd.curClusterOff = k * clusterBytesLen v.vol ∧ cs[k]? = some fd.curCluster := by
      rcases hok.cursor with hnil | ⟨k0, hk0, hk0off, hk0c⟩
      · exact absurd hnil hne
      · rw [← hfddef]
        unfold fixup
        split
        · exact ⟨0, chain_length_pos hch, by show 0 = _; rw [Nat.zero_mul], by
            show cs[0]? = some fa.entry.cluster; rw [hfa_cl]; exact chain_get_zero hch⟩
        · exact ⟨k0, hk0, by rw [hfa_cur.2]; exact hk0off, by rw [hfa_cur.1]; exact hk0c⟩
    generalize hsddef : ({ sa with files := sa.files.set i fd } : Mgr) = sd
    have hsd_eq : sd = { s with files := s.files.set i fd } := by
      rw [← hsddef, ← hsa]
      show ({ s with files := (s.files.set i fa).set i fd } : Mgr) = _
      rw [List.set_set]
    have hinv : WInv i vi A B sd fd v cs := by
      rw [hsd_eq]
      refine ⟨⟨hnf, hcoh, hblk, hunl⟩, List.getElem?_set_self hilt, hvi, hg, hhint, ?_, hne, hown⟩
      refine ⟨.inr (by rw [hd_entry, hfa_cl]; exact hch), by rw [hd_entry, hfa_size]; exact hok.size_fits,
        by rw [hd_off, hd_entry, hfa_off, hfa_size]; exact hok.pos_le, .inr hd_cursor⟩
    have hrest := writeRest_crash i vi A B sa fa v cs f.rawVolume data hfc hvfind
      (by rw [hfddef, hsddef]; exact hinv)
    rw [hfddef, hsddef] at hrest
    obtain ⟨k, r, s', f', v', cs', hrun, hk, _, hinv', hprog, hcr⟩ := hrest
    have hsd_dev : sd.dev = s.dev := by rw [hsd_eq]
    refine ⟨k, r, s', v', cs', ?_, hk, hprog.pre, hprog.geom, by rw [withChain_ne hinv'.ne]; exact hinv'.owns,
      by rw [← hsd_dev]; exact hprog.touch, ?_⟩
    · unfold writeTail
      rw [if_neg hcond]
      exact hrun
    · have : MCrash (WCrash v.vol A B s.dev.disk fd cs cs' data k) s s' := by
        obtain ⟨ws, h1, h2, h3⟩ := hcr
        exact ⟨ws, by rw [← hsa_dev]; exact h1, by rw [← hsa_dev]; exact h2, by rw [← hsa_dev]; exact h3⟩
      refine this.mono fun d hd => ?_
      obtain ⟨m, csk, h1, h2, h3, h4, h5⟩ := hd
      have hnek : csk ≠ [] := by
        obtain ⟨ext, rfl⟩ := h2
        intro e
        exact hne (List.append_eq_nil_iff.1 e).1
      refine ⟨m, csk, h1, h2, h3, by rw [withChain_ne hnek]; exact h4, ?_⟩
      rw [hd_entry, hd_off, hfa_size, hfa_off] at h5
      exact h5

end Sdmmc.Lemmas.CrashWriteCall
